(** C13 — no-altitude mode keeps altitude frozen and vertical velocity zero.

    Part A  facts about the GENERATED real-number formulas (Gen/NumbaIntegrate.v: one kernel
            step; Gen/C13Gen.v: the 2D parts of error_model.py);
    Part B  a whole-trajectory invariant of the Integrator model (Model/Integrator.v) in 2D mode,
            for arbitrary row types with an altitude projection and a "vertical velocity is zero"
            predicate, by induction over the call history;
    Part C  the instance: rows are the 15 reals of the buffers / the 9 reals of a pva, the kernel
            step is the generated one; attitude conversions stay arbitrary functions. *)
From Coq Require Import List Arith Bool ZArith Lia Reals Lra.
From PV Require Import Model.Integrator Proofs.IntegratorProofs Gen.NumbaIntegrate Gen.C13Gen.
Import ListNotations.
Local Close Scope R_scope.      (* the Gen files open it globally *)

(** * Part A: the generated formulas *)

Section GeneratedFormulas.
  Open Scope R_scope.

  (** velocity_n[j + 1, 2] = 0.0 *)
  Lemma step2d_VD_zero dt lat lon alt VN VE VD C00 C01 C02 C10 C11 C12 C20 C21 C22 th0 th1 th2 dv0 dv1 dv2 :
    step2d_VD dt lat lon alt VN VE VD C00 C01 C02 C10 C11 C12 C20 C21 C22 th0 th1 th2 dv0 dv1 dv2 = 0.
  Proof. unfold step2d_VD. autounfold with step2d_db. first [reflexivity | ring | field]. Qed.

  (** V3 = 0.5 * (V3 + velocity_n[j + 1, 2]);  lla[j + 1, 2] = lla[j, 2] - V3 * dt *)
  Lemma step2d_alt_formula dt lat lon alt VN VE VD C00 C01 C02 C10 C11 C12 C20 C21 C22 th0 th1 th2 dv0 dv1 dv2 :
    step2d_alt dt lat lon alt VN VE VD C00 C01 C02 C10 C11 C12 C20 C21 C22 th0 th1 th2 dv0 dv1 dv2
    = alt - (1 / 2 * (VD + 0)) * dt.
  Proof. unfold step2d_alt. autounfold with step2d_db. first [ring | field]. Qed.

  Lemma step2d_alt_frozen dt lat lon alt VN VE VD C00 C01 C02 C10 C11 C12 C20 C21 C22 th0 th1 th2 dv0 dv1 dv2 :
    VD = 0 ->
    step2d_alt dt lat lon alt VN VE VD C00 C01 C02 C10 C11 C12 C20 C21 C22 th0 th1 th2 dv0 dv1 dv2 = alt.
  Proof. intros H. rewrite step2d_alt_formula, H. ring. Qed.

  (** theorem 1 of the design, in one statement *)
  Lemma step2d_row dt lat lon alt VN VE VD C00 C01 C02 C10 C11 C12 C20 C21 C22 th0 th1 th2 dv0 dv1 dv2 :
    step2d_VD dt lat lon alt VN VE VD C00 C01 C02 C10 C11 C12 C20 C21 C22 th0 th1 th2 dv0 dv1 dv2 = 0 /\
    step2d_alt dt lat lon alt VN VE VD C00 C01 C02 C10 C11 C12 C20 C21 C22 th0 th1 th2 dv0 dv1 dv2
      = alt - (1 / 2 * (VD + 0)) * dt /\
    (VD = 0 ->
     step2d_alt dt lat lon alt VN VE VD C00 C01 C02 C10 C11 C12 C20 C21 C22 th0 th1 th2 dv0 dv1 dv2 = alt).
  Proof.
    split; [apply step2d_VD_zero|]. split; [apply step2d_alt_formula|apply step2d_alt_frozen].
  Qed.

  (** the hypothesis VD = 0 is needed: with VD <> 0 the 2D step does move the altitude
      (this was defect D4: set_pva stored a non-zero VD) *)
  Lemma step2d_alt_moves_if_VD_nonzero :
    step2d_alt 1 0 0 10 0 0 2 1 0 0 0 1 0 0 0 1 0 0 0 0 0 0 = 9.
  Proof. rewrite step2d_alt_formula. lra. Qed.

  (** the same step traced into buffers whose row j+1 held garbage: same functions *)
  Lemma fresh2d_alt_same dt lat lon alt VN VE VD C00 C01 C02 C10 C11 C12 C20 C21 C22 th0 th1 th2 dv0 dv1 dv2 :
    c13_kstep2d_fresh_alt dt lat lon alt VN VE VD C00 C01 C02 C10 C11 C12 C20 C21 C22 th0 th1 th2 dv0 dv1 dv2 =
    step2d_alt dt lat lon alt VN VE VD C00 C01 C02 C10 C11 C12 C20 C21 C22 th0 th1 th2 dv0 dv1 dv2.
  Proof.
    unfold c13_kstep2d_fresh_alt, step2d_alt. autounfold with step2d_db c13_kstep2d_fresh_db.
    first [reflexivity | ring | field].
  Qed.

  Lemma fresh2d_VD_same dt lat lon alt VN VE VD C00 C01 C02 C10 C11 C12 C20 C21 C22 th0 th1 th2 dv0 dv1 dv2 :
    c13_kstep2d_fresh_VD dt lat lon alt VN VE VD C00 C01 C02 C10 C11 C12 C20 C21 C22 th0 th1 th2 dv0 dv1 dv2 =
    step2d_VD dt lat lon alt VN VE VD C00 C01 C02 C10 C11 C12 C20 C21 C22 th0 th1 th2 dv0 dv1 dv2.
  Proof.
    unfold c13_kstep2d_fresh_VD, step2d_VD. autounfold with step2d_db c13_kstep2d_fresh_db.
    first [reflexivity | ring | field].
  Qed.

  Lemma fresh2d_same dt lat lon alt VN VE VD C00 C01 C02 C10 C11 C12 C20 C21 C22 th0 th1 th2 dv0 dv1 dv2 :
    c13_kstep2d_fresh_alt dt lat lon alt VN VE VD C00 C01 C02 C10 C11 C12 C20 C21 C22 th0 th1 th2 dv0 dv1 dv2 =
    step2d_alt dt lat lon alt VN VE VD C00 C01 C02 C10 C11 C12 C20 C21 C22 th0 th1 th2 dv0 dv1 dv2 /\
    c13_kstep2d_fresh_VD dt lat lon alt VN VE VD C00 C01 C02 C10 C11 C12 C20 C21 C22 th0 th1 th2 dv0 dv1 dv2 =
    step2d_VD dt lat lon alt VN VE VD C00 C01 C02 C10 C11 C12 C20 C21 C22 th0 th1 th2 dv0 dv1 dv2.
  Proof. split; [apply fresh2d_alt_same|apply fresh2d_VD_same]. Qed.

  (** correct_pva in 2D: altitude and vertical velocity are returned unchanged, for every error vector *)
  Lemma correct2d_alt_same lat lon alt VN VE VD roll pitch heading x0 x1 x2 x3 x4 x5 x6 :
    c13_correct2d_alt lat lon alt VN VE VD roll pitch heading x0 x1 x2 x3 x4 x5 x6 = alt.
  Proof. unfold c13_correct2d_alt. autounfold with c13_correct2d_db. first [reflexivity | ring | field]. Qed.

  Lemma correct2d_VD_same lat lon alt VN VE VD roll pitch heading x0 x1 x2 x3 x4 x5 x6 :
    c13_correct2d_VD lat lon alt VN VE VD roll pitch heading x0 x1 x2 x3 x4 x5 x6 = VD.
  Proof. unfold c13_correct2d_VD. autounfold with c13_correct2d_db. first [reflexivity | ring | field]. Qed.

  (** _transform_3d_2d: the DR3 row is zero; the DV3 row is (0,0,0,0,VE,-VN,0) *)
  Definition t3d2d_row_DR3 (VN VE : R) : list R :=
    [c13_t3d2d_t20 VN VE; c13_t3d2d_t21 VN VE; c13_t3d2d_t22 VN VE; c13_t3d2d_t23 VN VE; c13_t3d2d_t24 VN VE;
     c13_t3d2d_t25 VN VE; c13_t3d2d_t26 VN VE].
  Definition t3d2d_row_DV3 (VN VE : R) : list R :=
    [c13_t3d2d_t50 VN VE; c13_t3d2d_t51 VN VE; c13_t3d2d_t52 VN VE; c13_t3d2d_t53 VN VE; c13_t3d2d_t54 VN VE;
     c13_t3d2d_t55 VN VE; c13_t3d2d_t56 VN VE].

  Lemma t3d2d_rows VN VE :
    t3d2d_row_DR3 VN VE = [0; 0; 0; 0; 0; 0; 0] /\
    t3d2d_row_DV3 VN VE = [0; 0; 0; 0; VE; - VN; 0].
  Proof.
    unfold t3d2d_row_DR3, t3d2d_row_DV3, c13_t3d2d_t20, c13_t3d2d_t21, c13_t3d2d_t22, c13_t3d2d_t23, c13_t3d2d_t24,
      c13_t3d2d_t25, c13_t3d2d_t26, c13_t3d2d_t50, c13_t3d2d_t51, c13_t3d2d_t52, c13_t3d2d_t53, c13_t3d2d_t54, c13_t3d2d_t55, c13_t3d2d_t56.
    autounfold with c13_t3d2d_db. split; repeat f_equal; first [reflexivity | ring].
  Qed.

  (** transform_to_output in 2D: rows "down" (2) and "VD" (5) *)
  Definition out2d_row_down (lat lon alt VN VE VD roll pitch heading : R) : list R :=
    [c13_out2d_o20 lat lon alt VN VE VD roll pitch heading; c13_out2d_o21 lat lon alt VN VE VD roll pitch heading;
     c13_out2d_o22 lat lon alt VN VE VD roll pitch heading; c13_out2d_o23 lat lon alt VN VE VD roll pitch heading;
     c13_out2d_o24 lat lon alt VN VE VD roll pitch heading; c13_out2d_o25 lat lon alt VN VE VD roll pitch heading;
     c13_out2d_o26 lat lon alt VN VE VD roll pitch heading].
  Definition out2d_row_VD (lat lon alt VN VE VD roll pitch heading : R) : list R :=
    [c13_out2d_o50 lat lon alt VN VE VD roll pitch heading; c13_out2d_o51 lat lon alt VN VE VD roll pitch heading;
     c13_out2d_o52 lat lon alt VN VE VD roll pitch heading; c13_out2d_o53 lat lon alt VN VE VD roll pitch heading;
     c13_out2d_o54 lat lon alt VN VE VD roll pitch heading; c13_out2d_o55 lat lon alt VN VE VD roll pitch heading;
     c13_out2d_o56 lat lon alt VN VE VD roll pitch heading].

  Lemma out2d_rows_zero lat lon alt VN VE VD roll pitch heading :
    out2d_row_down lat lon alt VN VE VD roll pitch heading = repeat 0 7 /\
    out2d_row_VD lat lon alt VN VE VD roll pitch heading = repeat 0 7.
  Proof.
    unfold out2d_row_down, out2d_row_VD, c13_out2d_o20, c13_out2d_o21, c13_out2d_o22, c13_out2d_o23, c13_out2d_o24, c13_out2d_o25,
      c13_out2d_o26, c13_out2d_o50, c13_out2d_o51, c13_out2d_o52, c13_out2d_o53, c13_out2d_o54, c13_out2d_o55, c13_out2d_o56.
    autounfold with c13_out2d_db. cbn [repeat]. split; repeat f_equal; first [reflexivity | ring].
  Qed.

  (** variance of an output component: (T P T^T)_kk = sum_i sum_j T_ki P_ij T_kj, P any matrix *)
  Definition dotl (u v : list R) : R :=
    fold_right Rplus 0 (map (fun xy => fst xy * snd xy) (combine u v)).
  Definition quad (row : list R) (P : list (list R)) : R := dotl row (map (fun Pi => dotl Pi row) P).

  Lemma dotl_zero_l n v : dotl (repeat 0 n) v = 0.
  Proof.
    revert v. induction n as [|n IH]; intros v; [reflexivity|].
    destruct v as [|y v]; [reflexivity|]. unfold dotl in *. cbn. rewrite IH. ring.
  Qed.

  Lemma sd2d_zero lat lon alt VN VE VD roll pitch heading (P : list (list R)) :
    sqrt (quad (out2d_row_down lat lon alt VN VE VD roll pitch heading) P) = 0 /\
    sqrt (quad (out2d_row_VD lat lon alt VN VE VD roll pitch heading) P) = 0.
  Proof.
    destruct (out2d_rows_zero lat lon alt VN VE VD roll pitch heading) as [H1 H2].
    rewrite H1, H2. unfold quad. rewrite dotl_zero_l. split; apply sqrt_0.
  Qed.

  (** position / NED velocity Jacobians in 2D: the two horizontal rows only *)
  Definition poserr2d_matrix (lat lon alt VN VE VD roll pitch heading : R) : list (list R) :=
    [[c13_poserr2d_h00 lat lon alt VN VE VD roll pitch heading; c13_poserr2d_h01 lat lon alt VN VE VD roll pitch heading;
      c13_poserr2d_h02 lat lon alt VN VE VD roll pitch heading; c13_poserr2d_h03 lat lon alt VN VE VD roll pitch heading;
      c13_poserr2d_h04 lat lon alt VN VE VD roll pitch heading; c13_poserr2d_h05 lat lon alt VN VE VD roll pitch heading;
      c13_poserr2d_h06 lat lon alt VN VE VD roll pitch heading];
     [c13_poserr2d_h10 lat lon alt VN VE VD roll pitch heading; c13_poserr2d_h11 lat lon alt VN VE VD roll pitch heading;
      c13_poserr2d_h12 lat lon alt VN VE VD roll pitch heading; c13_poserr2d_h13 lat lon alt VN VE VD roll pitch heading;
      c13_poserr2d_h14 lat lon alt VN VE VD roll pitch heading; c13_poserr2d_h15 lat lon alt VN VE VD roll pitch heading;
      c13_poserr2d_h16 lat lon alt VN VE VD roll pitch heading]].
  Definition velerr2d_matrix (lat lon alt VN VE VD roll pitch heading : R) : list (list R) :=
    [[c13_velerr2d_h00 lat lon alt VN VE VD roll pitch heading; c13_velerr2d_h01 lat lon alt VN VE VD roll pitch heading;
      c13_velerr2d_h02 lat lon alt VN VE VD roll pitch heading; c13_velerr2d_h03 lat lon alt VN VE VD roll pitch heading;
      c13_velerr2d_h04 lat lon alt VN VE VD roll pitch heading; c13_velerr2d_h05 lat lon alt VN VE VD roll pitch heading;
      c13_velerr2d_h06 lat lon alt VN VE VD roll pitch heading];
     [c13_velerr2d_h10 lat lon alt VN VE VD roll pitch heading; c13_velerr2d_h11 lat lon alt VN VE VD roll pitch heading;
      c13_velerr2d_h12 lat lon alt VN VE VD roll pitch heading; c13_velerr2d_h13 lat lon alt VN VE VD roll pitch heading;
      c13_velerr2d_h14 lat lon alt VN VE VD roll pitch heading; c13_velerr2d_h15 lat lon alt VN VE VD roll pitch heading;
      c13_velerr2d_h16 lat lon alt VN VE VD roll pitch heading]].

  Lemma meas2d_rows lat lon alt VN VE VD roll pitch heading :
    poserr2d_matrix lat lon alt VN VE VD roll pitch heading =
      [[1; 0; 0; 0; 0; 0; 0]; [0; 1; 0; 0; 0; 0; 0]] /\
    velerr2d_matrix lat lon alt VN VE VD roll pitch heading =
      [[0; 0; 1; 0; 0; - VD; VE]; [0; 0; 0; 1; VD; 0; - VN]].
  Proof.
    unfold poserr2d_matrix, velerr2d_matrix,
      c13_poserr2d_h00, c13_poserr2d_h01, c13_poserr2d_h02, c13_poserr2d_h03, c13_poserr2d_h04, c13_poserr2d_h05, c13_poserr2d_h06,
      c13_poserr2d_h10, c13_poserr2d_h11, c13_poserr2d_h12, c13_poserr2d_h13, c13_poserr2d_h14, c13_poserr2d_h15, c13_poserr2d_h16,
      c13_velerr2d_h00, c13_velerr2d_h01, c13_velerr2d_h02, c13_velerr2d_h03, c13_velerr2d_h04, c13_velerr2d_h05, c13_velerr2d_h06,
      c13_velerr2d_h10, c13_velerr2d_h11, c13_velerr2d_h12, c13_velerr2d_h13, c13_velerr2d_h14, c13_velerr2d_h15, c13_velerr2d_h16.
    autounfold with c13_poserr2d_db c13_velerr2d_db. split; repeat f_equal; first [reflexivity | ring].
  Qed.
End GeneratedFormulas.

(** * Part B: whole-trajectory invariant of the model in 2D mode *)

Lemma map_snd_combine {A B} (l : list A) (m : list B) :
  length l = length m -> map snd (combine l m) = m.
Proof.
  revert m. induction l as [|a l IH]; intros [|b m] H; cbn in *; try discriminate; auto.
  f_equal. apply IH. lia.
Qed.

Lemma repeat_snoc {A} (a : A) n : repeat a n ++ [a] = a :: repeat a n.
Proof. induction n as [|n IH]; cbn; [reflexivity|]. rewrite IH. reflexivity. Qed.

Lemma map_const_repeat {A B} (f : A -> B) (b : B) (l : list A) :
  Forall (fun x => f x = b) l -> map f l = repeat b (length l).
Proof. induction 1 as [|x l Hx _ IH]; cbn; [reflexivity|]. rewrite Hx, IH. reflexivity. Qed.

Section Whole2D.
  Variables brow prow inc time : Type.
  Variable kstep : bool -> brow -> inc -> brow.
  Variable to_pub : brow -> prow.
  Variable of_pub : prow -> brow.
  Variable zero_vd : prow -> prow.
  Variable inc_time : inc -> time.
  (** altitude projections and "vertical velocity is zero" predicates of both row kinds *)
  Variable A : Type.
  Variable balt : brow -> A.
  Variable bvd0 : brow -> Prop.
  Variable palt : prow -> A.
  Variable pvd0 : prow -> Prop.
  Hypothesis Hstep : forall r i, bvd0 r -> bvd0 (kstep false r i) /\ balt (kstep false r i) = balt r.
  Hypothesis Hto : forall r, palt (to_pub r) = balt r /\ (bvd0 r -> pvd0 (to_pub r)).
  Hypothesis Hsup : forall p, bvd0 (of_pub (zero_vd p)) /\ balt (of_pub (zero_vd p)) = palt p /\
                              pvd0 (zero_vd p) /\ palt (zero_vd p) = palt p.

  Local Notation State := (state brow prow time).
  Local Notation Op := (op prow inc).
  Local Notation stepg g := (step kstep to_pub of_pub zero_vd inc_time g).
  Local Notation rung g := (run kstep to_pub of_pub zero_vd inc_time g).
  Local Notation run_initg g := (run_init kstep to_pub of_pub zero_vd inc_time g).
  Local Notation ralt := (fun tp : time * prow => palt (snd tp)).
  Local Notation rvd0 := (fun tp : time * prow => pvd0 (snd tp)).

  (** The SPECIFICATION of the altitude column: (expected altitudes of all rows so far,
      altitude most recently supplied).  [Integrate c] appends |c| copies of the latest supplied
      altitude; [SetPva q] replaces the last entry by the altitude of [q]. *)
  Definition alt_step (st : list A * A) (o : Op) : list A * A :=
    match o with
    | Integrate c => (fst st ++ repeat (snd st) (length c), snd st)
    | SetPva q => (removelast (fst st) ++ [palt q], palt q)
    | _ => st
    end.
  Definition alt_run (a0 : A) (ops : list Op) : list A * A := fold_left alt_step ops ([a0], a0).

  Definition W (st : list A * A) (s : State) : Prop :=
    with_alt s = false /\
    (exists pre cur cells, Zip brow prow time s pre cur cells /\ bvd0 cur /\ balt cur = snd st) /\
    map ralt (traj s) = fst st /\
    Forall rvd0 (traj s) /\
    (exists al, fst st = al ++ [snd st]).

  Lemma rows_alts a cur c :
    bvd0 cur -> balt cur = a ->
    map ralt (rows_from kstep to_pub inc_time false cur c) = repeat a (length c) /\
    Forall rvd0 (rows_from kstep to_pub inc_time false cur c) /\
    bvd0 (last (scanl (kstep false) cur c) cur) /\ balt (last (scanl (kstep false) cur c) cur) = a.
  Proof.
    intros Hv Ha.
    destruct (scanl_keeps brow inc kstep A bvd0 balt Hstep a c cur Hv Ha) as [HF [HL HK]].
    assert (Hlen : length (map inc_time c) = length (map to_pub (scanl (kstep false) cur c)))
      by (rewrite !map_length, scanl_length; reflexivity).
    split; [|split; [|split; assumption]].
    - unfold rows_from. rewrite <- (map_map snd palt), (map_snd_combine _ _ Hlen), map_map.
      rewrite <- (scanl_length (kstep false) cur c). apply map_const_repeat.
      eapply Forall_impl; [|exact HF]. cbn. intros r [_ Hr]. rewrite (proj1 (Hto r)). exact Hr.
    - unfold rows_from. apply Forall_forall. intros tp Hin.
      assert (Hs : In (snd tp) (map snd (combine (map inc_time c)
                                            (map to_pub (scanl (kstep false) cur c)))))
        by (apply in_map; exact Hin).
      rewrite (map_snd_combine _ _ Hlen) in Hs. apply in_map_iff in Hs.
      destruct Hs as [r [Er Hr]]. rewrite <- Er. apply (proj2 (Hto r)).
      rewrite Forall_forall in HF. apply (HF r Hr).
  Qed.

  (** every operation succeeds from a [W] state and moves the specification by [alt_step] *)
  Lemma W_step g st s o :
    W st s -> exists s' ob, stepg g s o = Some (s', ob) /\ W (alt_step st o) s'.
  Proof.
    intros [Hw [[pre [cur [cells [HZ [Hv Ha]]]]] [Hm [Hf [al Hal]]]]].
    assert (Hne : 1 <= length (traj s)) by (destruct HZ as [_ Hl]; lia).
    destruct (nonempty_snoc (traj s) Hne) as [tpre [tl Et]].
    destruct o as [c|i| | |q].
    - destruct (step_integrate_zip brow prow inc time kstep to_pub of_pub zero_vd inc_time
                  g s c pre cur cells HZ) as [cells' E].
      rewrite Hw in E. eexists _, _. split; [exact E|].
      destruct (rows_alts (snd st) cur c Hv Ha) as [R1 [R2 [R3 R4]]].
      split; [first [reflexivity | exact Hw]|]. cbn [traj buf alt_step fst snd].
      split; [|split; [|split]].
      + destruct (zip_advance (scanl (kstep false) cur c) pre cur cells') as [pre' [Ez Lz]].
        exists pre', (last (scanl (kstep false) cur c) cur), cells'.
        split; [|split; assumption].
        split; cbn [traj buf]; [exact Ez|].
        destruct HZ as [_ Hl].
        rewrite Lz, scanl_length, app_length,
          (rows_length brow prow inc time kstep to_pub inc_time). lia.
      + rewrite map_app, Hm, R1. reflexivity.
      + apply Forall_app. split; assumption.
      + exists (al ++ repeat (snd st) (length c)).
        rewrite Hal, <- !app_assoc. f_equal. cbn [app]. rewrite repeat_snoc. reflexivity.
    - destruct (step_predict_zip brow prow inc time kstep to_pub of_pub zero_vd inc_time
                  g s i pre cur cells HZ) as [cells' E].
      eexists _, _. split; [exact E|].
      split; [exact Hw|]. cbn [traj buf alt_step].
      split; [|split; [exact Hm|split; [exact Hf|exists al; exact Hal]]].
      exists pre, cur, (kstep (with_alt s) cur i :: cells').
      split; [|split; assumption]. split; [reflexivity|apply HZ].
    - destruct (step_get_snoc brow prow inc time kstep to_pub of_pub zero_vd inc_time
                  g s tpre tl Et) as [E _].
      exists s, (ORow tl). split; [exact E|].
      split; [exact Hw|]. split; [exists pre, cur, cells; auto|].
      split; [exact Hm|split; [exact Hf|exists al; exact Hal]].
    - destruct (step_get_snoc brow prow inc time kstep to_pub of_pub zero_vd inc_time
                  g s tpre tl Et) as [_ E].
      exists s, (OTime (fst tl)). split; [exact E|].
      split; [exact Hw|]. split; [exists pre, cur, cells; auto|].
      split; [exact Hm|split; [exact Hf|exists al; exact Hal]].
    - pose proof (step_setpva_zip brow prow inc time kstep to_pub of_pub zero_vd inc_time
                    g s q pre cur cells tpre tl HZ Et) as E.
      rewrite Hw in E. cbn [supplied] in E.
      eexists _, _. split; [exact E|].
      destruct (Hsup q) as [S1 [S2 [S3 S4]]].
      split; [first [reflexivity | exact Hw]|]. cbn [traj buf alt_step fst snd].
      split; [|split; [|split]].
      + exists pre, (of_pub (zero_vd q)), cells. split; [|split; assumption].
        split; cbn [traj buf]; [reflexivity|].
        destruct HZ as [_ Hl]. rewrite Hl, Et, !app_length. reflexivity.
      + rewrite <- Hm, Et, !map_app. cbn [map snd]. rewrite removelast_last, S4. reflexivity.
      + rewrite Et in Hf. apply Forall_app in Hf. destruct Hf as [Hf _].
        apply Forall_app. split; [exact Hf|]. constructor; [exact S3|constructor].
      + eexists. reflexivity.
  Qed.

  Lemma W_run g ops : forall st s,
    W st s -> exists s' os, rung g s ops = Some (s', os) /\ W (fold_left alt_step ops st) s'.
  Proof.
    induction ops as [|o ops IH]; intros st s HW.
    - exists s, []. cbn. auto.
    - destruct (W_step g st s o HW) as [s1 [ob [E HW1]]].
      destruct (IH _ _ HW1) as [s2 [os [E2 HW2]]].
      exists s2, (ob :: os). cbn [run fold_left]. rewrite E, E2. auto.
  Qed.

  Lemma W_init g cap (t0 : time) p s :
    init of_pub zero_vd g false cap t0 p = Some s -> W ([palt p], palt p) s.
  Proof.
    intros H. destruct cap as [|k]; [discriminate|].
    rewrite init_Some in H by lia. inversion H; subst; clear H. cbn [supplied].
    destruct (Hsup p) as [S1 [S2 [S3 S4]]].
    split; [reflexivity|]. cbn [traj buf fst snd].
    split; [|split; [|split]].
    - exists [], (of_pub (zero_vd p)), (repeat g (S k - 1)).
      split; [split; reflexivity|split; assumption].
    - cbn. rewrite S4. reflexivity.
    - constructor; [exact S3|constructor].
    - exists []. reflexivity.
  Qed.

  (** the altitude column of the whole trajectory is the specification; every row has zero VD *)
  Theorem whole2d_gen g cap (t0 : time) p ops :
    1 <= cap ->
    exists s os,
      run_initg g false cap t0 p ops = Some (s, os) /\
      map ralt (traj s) = fst (alt_run (palt p) ops) /\
      Forall rvd0 (traj s).
  Proof.
    intros Hc. unfold run_init.
    pose proof (init_Some brow prow time of_pub zero_vd g false cap t0 p Hc) as Ei. rewrite Ei.
    destruct (W_run g ops _ _ (W_init g cap t0 p _ Ei)) as [s [os [E [_ [_ [Hm [Hf _]]]]]]].
    exists s, os. split; [exact E|]. split; assumption.
  Qed.

  (** the second component of the specification is the altitude of the latest supplied pva,
      and the first has one entry per row *)
  Lemma alt_run_snd ops : forall l p,
    snd (fold_left alt_step ops (l, palt p)) = palt (latest_pva p ops).
  Proof.
    induction ops as [|o ops IH]; intros l p; [reflexivity|].
    destruct o; cbn [fold_left alt_step latest_pva fst snd]; apply IH.
  Qed.

  Lemma alt_run_length ops : forall l a,
    l <> [] ->
    length (fst (fold_left alt_step ops (l, a))) = length l + length (all_incs ops) /\
    fst (fold_left alt_step ops (l, a)) <> [].
  Proof.
    induction ops as [|o ops IH]; intros l a Hl.
    - cbn. split; [lia|exact Hl].
    - destruct o as [c|i| | |q]; cbn [fold_left alt_step all_incs fst snd].
      + destruct (IH (l ++ repeat a (length c)) a) as [L N].
        { destruct l; [contradiction|discriminate]. }
        split; [|exact N]. rewrite L, !app_length, repeat_length. lia.
      + apply IH. exact Hl.
      + apply IH. exact Hl.
      + apply IH. exact Hl.
      + destruct (IH (removelast l ++ [palt q]) (palt q)) as [L N].
        { destruct (removelast l); discriminate. }
        split; [|exact N]. rewrite L, app_length. cbn [length].
        destruct (exists_last Hl) as [l' [x El]]. rewrite El, removelast_last, app_length. cbn. lia.
  Qed.

  (** ** histories in which every overwrite keeps the altitude of the current last row
         (the feedback filter: set_pva (correct_pva (get_pva ()) x)) *)
  Variable X : Type.
  Variable correct : prow -> X -> prow.
  Hypothesis Hcorr : forall p x, palt (correct p x) = palt p.

  Fixpoint fb_hist (g : brow) (s : State) (ops : list Op) : Prop :=
    match ops with
    | [] => True
    | o :: rest =>
        match o with
        | SetPva q => exists x tl, last_opt (traj s) = Some tl /\ q = correct (snd tl) x
        | _ => True
        end /\
        match stepg g s o with
        | Some (s', _) => fb_hist g s' rest
        | None => False
        end
    end.

  Lemma fb_run g a ops : forall st s,
    W st s -> Forall (fun x => x = a) (fst st) -> snd st = a -> fb_hist g s ops ->
    exists s' os, rung g s ops = Some (s', os) /\
                  Forall (fun tp => palt (snd tp) = a /\ pvd0 (snd tp)) (traj s').
  Proof.
    induction ops as [|o ops IH]; intros st s HW Hall Ha Hfb.
    - exists s, []. split; [reflexivity|].
      destruct HW as [_ [_ [Hm [Hf _]]]].
      apply Forall_forall. intros tp Hin. split.
      + rewrite Forall_forall in Hall. apply Hall. rewrite <- Hm. apply (in_map ralt). exact Hin.
      + rewrite Forall_forall in Hf. apply Hf. exact Hin.
    - destruct (W_step g st s o HW) as [s1 [ob [E HW1]]].
      cbn [fb_hist] in Hfb. destruct Hfb as [Ho Hrest]. rewrite E in Hrest.
      assert (Hst : Forall (fun x => x = a) (fst (alt_step st o)) /\ snd (alt_step st o) = a).
      { destruct o as [c|i| | |q]; cbn [alt_step fst snd]; auto.
        - split; [|exact Ha]. apply Forall_app. split; [exact Hall|].
          rewrite Ha. clear. induction (length c); cbn; constructor; auto.
        - destruct Ho as [x [tl [Hl Eq]]].
          destruct HW as [_ [[pre [cur [cells [HZ _]]]] [Hm _]]].
          assert (Hne : 1 <= length (traj s)) by (destruct HZ as [_ Hlen]; lia).
          destruct (nonempty_snoc (traj s) Hne) as [tpre [tl' Et]].
          rewrite Et, last_opt_snoc in Hl. inversion Hl; subst tl'; clear Hl.
          rewrite Et, map_app in Hm. cbn [map] in Hm.
          assert (Hq : palt q = a).
          { rewrite Eq, Hcorr. rewrite <- Hm in Hall. apply Forall_app in Hall.
            destruct Hall as [_ Hlast]. inversion Hlast; subst. assumption. }
          split; [|exact Hq].
          rewrite <- Hm, removelast_last. rewrite <- Hm in Hall. apply Forall_app in Hall.
          apply Forall_app. split; [apply Hall|]. constructor; [exact Hq|constructor]. }
      destruct Hst as [Hall1 Ha1].
      destruct (IH _ _ HW1 Hall1 Ha1 Hrest) as [s2 [os [E2 HF2]]].
      exists s2, (ob :: os). cbn [run]. rewrite E, E2. auto.
  Qed.

  Theorem feedback2d_gen g cap (t0 : time) p ops s0 :
    init of_pub zero_vd g false cap t0 p = Some s0 ->
    fb_hist g s0 ops ->
    exists s os,
      run_initg g false cap t0 p ops = Some (s, os) /\
      Forall (fun tp => palt (snd tp) = palt p /\ pvd0 (snd tp)) (traj s).
  Proof.
    intros Ei Hfb. unfold run_init. rewrite Ei.
    apply (fb_run g (palt p) ops _ _ (W_init g cap t0 p _ Ei));
      [cbn; constructor; [reflexivity|constructor] | reflexivity | exact Hfb].
  Qed.
End Whole2D.

(** * Part C: the instance with the generated kernel step *)

Record mat9 := mkM { m00 : R; m01 : R; m02 : R; m10 : R; m11 : R; m12 : R; m20 : R; m21 : R; m22 : R }.
(** one row of the buffers lla, velocity_n, mat_nb *)
Record krow := mkK { k_lat : R; k_lon : R; k_alt : R; k_VN : R; k_VE : R; k_VD : R; k_C : mat9 }.
(** one row of Increments: dt, theta, dv *)
Record kinc := mkI { i_dt : R; i_th0 : R; i_th1 : R; i_th2 : R; i_dv0 : R; i_dv1 : R; i_dv2 : R }.
(** one public row: lat lon alt VN VE VD roll pitch heading *)
Record pva := mkP { p_lat : R; p_lon : R; p_alt : R; p_VN : R; p_VE : R; p_VD : R;
                    p_roll : R; p_pitch : R; p_heading : R }.
(** error vector of the 2D filter (DR1 DR2 DV1 DV2 PHI1 PHI2 PHI3) *)
Record err7 := mkE { e0 : R; e1 : R; e2 : R; e3 : R; e4 : R; e5 : R; e6 : R }.

Definition app22
  (f : R -> R -> R -> R -> R -> R -> R -> R -> R -> R -> R -> R -> R -> R -> R -> R -> R -> R -> R -> R -> R -> R -> R)
  (r : krow) (i : kinc) : R :=
  f (i_dt i) (k_lat r) (k_lon r) (k_alt r) (k_VN r) (k_VE r) (k_VD r)
    (m00 (k_C r)) (m01 (k_C r)) (m02 (k_C r)) (m10 (k_C r)) (m11 (k_C r)) (m12 (k_C r))
    (m20 (k_C r)) (m21 (k_C r)) (m22 (k_C r))
    (i_th0 i) (i_th1 i) (i_th2 i) (i_dv0 i) (i_dv1 i) (i_dv2 i).

(** row j+1 as written by [_numba_integrate.integrate] (generated formulas) *)
Definition kstep_gen (b : bool) (r : krow) (i : kinc) : krow :=
  if b then
    mkK (app22 step3d_lat r i) (app22 step3d_lon r i) (app22 step3d_alt r i)
        (app22 step3d_VN r i) (app22 step3d_VE r i) (app22 step3d_VD r i)
        (mkM (app22 step3d_C00 r i) (app22 step3d_C01 r i) (app22 step3d_C02 r i)
             (app22 step3d_C10 r i) (app22 step3d_C11 r i) (app22 step3d_C12 r i)
             (app22 step3d_C20 r i) (app22 step3d_C21 r i) (app22 step3d_C22 r i))
  else
    mkK (app22 step2d_lat r i) (app22 step2d_lon r i) (app22 step2d_alt r i)
        (app22 step2d_VN r i) (app22 step2d_VE r i) (app22 step2d_VD r i)
        (mkM (app22 step2d_C00 r i) (app22 step2d_C01 r i) (app22 step2d_C02 r i)
             (app22 step2d_C10 r i) (app22 step2d_C11 r i) (app22 step2d_C12 r i)
             (app22 step2d_C20 r i) (app22 step2d_C21 r i) (app22 step2d_C22 r i)).

(** pva.copy(); pva.VD = 0.0 *)
Definition pva_zero_vd (p : pva) : pva :=
  mkP (p_lat p) (p_lon p) (p_alt p) (p_VN p) (p_VE p) 0%R (p_roll p) (p_pitch p) (p_heading p).

Definition app16
  (f : R -> R -> R -> R -> R -> R -> R -> R -> R -> R -> R -> R -> R -> R -> R -> R -> R)
  (p : pva) (x : err7) : R :=
  f (p_lat p) (p_lon p) (p_alt p) (p_VN p) (p_VE p) (p_VD p) (p_roll p) (p_pitch p) (p_heading p)
    (e0 x) (e1 x) (e2 x) (e3 x) (e4 x) (e5 x) (e6 x).

(** InsErrorModel(with_altitude=False).correct_pva (generated formulas) *)
Definition correct2d (p : pva) (x : err7) : pva :=
  mkP (app16 c13_correct2d_lat p x) (app16 c13_correct2d_lon p x) (app16 c13_correct2d_alt p x)
      (app16 c13_correct2d_VN p x) (app16 c13_correct2d_VE p x) (app16 c13_correct2d_VD p x)
      (app16 c13_correct2d_roll p x) (app16 c13_correct2d_pitch p x) (app16 c13_correct2d_heading p x).

Lemma correct2d_keeps_vertical p x :
  p_alt (correct2d p x) = p_alt p /\ p_VD (correct2d p x) = p_VD p.
Proof.
  unfold correct2d, app16. cbn [p_alt p_VD]. split;
    [apply correct2d_alt_same|apply correct2d_VD_same].
Qed.

Section Instance.
  Variable time : Type.
  (** transform.mat_to_rph / transform.mat_from_rph: arbitrary functions *)
  Variable rph_of : mat9 -> R * R * R.
  Variable mat_of : R -> R -> R -> mat9.

  Definition kinc_t : Type := (kinc * time)%type.
  Definition kstep_t (b : bool) (r : krow) (i : kinc_t) : krow := kstep_gen b r (fst i).
  (** hstack (lla, velocity_n, mat_to_rph mat_nb) *)
  Definition k_to_pub (r : krow) : pva :=
    mkP (k_lat r) (k_lon r) (k_alt r) (k_VN r) (k_VE r) (k_VD r)
        (fst (fst (rph_of (k_C r)))) (snd (fst (rph_of (k_C r)))) (snd (rph_of (k_C r))).
  (** (pva[LLA], pva[VEL], mat_from_rph pva[RPH]) *)
  Definition k_of_pub (p : pva) : krow :=
    mkK (p_lat p) (p_lon p) (p_alt p) (p_VN p) (p_VE p) (p_VD p)
        (mat_of (p_roll p) (p_pitch p) (p_heading p)).

  Definition k_run_init :=
    run_init kstep_t k_to_pub k_of_pub pva_zero_vd (fun i : kinc_t => snd i).
  Definition k_step :=
    step kstep_t k_to_pub k_of_pub pva_zero_vd (fun i : kinc_t => snd i).

  Lemma k_Hstep (r : krow) (i : kinc_t) :
    k_VD r = 0%R -> k_VD (kstep_t false r i) = 0%R /\ k_alt (kstep_t false r i) = k_alt r.
  Proof.
    intros H. unfold kstep_t, kstep_gen. cbn [k_VD k_alt]. unfold app22. split.
    - apply step2d_VD_zero.
    - apply step2d_alt_frozen. exact H.
  Qed.

  Lemma k_Hto (r : krow) :
    p_alt (k_to_pub r) = k_alt r /\ (k_VD r = 0%R -> p_VD (k_to_pub r) = 0%R).
  Proof. split; [reflexivity|]. intros H. exact H. Qed.

  Lemma k_Hsup (p : pva) :
    k_VD (k_of_pub (pva_zero_vd p)) = 0%R /\ k_alt (k_of_pub (pva_zero_vd p)) = p_alt p /\
    p_VD (pva_zero_vd p) = 0%R /\ p_alt (pva_zero_vd p) = p_alt p.
  Proof. repeat split. Qed.

  (** the altitude specification instantiated *)
  Definition k_alt_run (a0 : R) (ops : list (op pva kinc_t)) : list R * R :=
    alt_run pva kinc_t R p_alt a0 ops.

  Theorem integrator2d_whole (g : krow) cap (t0 : time) (p : pva) ops :
    1 <= cap ->
    exists s os,
      k_run_init g false cap t0 p ops = Some (s, os) /\
      map (fun tp => p_alt (snd tp)) (traj s) = fst (k_alt_run (p_alt p) ops) /\
      snd (k_alt_run (p_alt p) ops) = p_alt (latest_pva p ops) /\
      length (traj s) = S (length (all_incs ops)) /\
      Forall (fun tp => p_VD (snd tp) = 0%R) (traj s).
  Proof.
    intros Hc.
    destruct (whole2d_gen krow pva kinc_t time kstep_t k_to_pub k_of_pub pva_zero_vd
                (fun i : kinc_t => snd i) R k_alt (fun r => k_VD r = 0%R) p_alt
                (fun q => p_VD q = 0%R) k_Hstep k_Hto k_Hsup g cap t0 p ops Hc)
      as [s [os [E [Hm Hf]]]].
    exists s, os. split; [exact E|]. split; [exact Hm|]. split; [|split; [|exact Hf]].
    - apply (alt_run_snd pva kinc_t R p_alt).
    - rewrite <- (map_length (fun tp => p_alt (snd tp))), Hm.
      destruct (alt_run_length pva kinc_t R p_alt ops [p_alt p] (p_alt p)) as [L _];
        [discriminate|].
      unfold k_alt_run, alt_run. rewrite L. reflexivity.
  Qed.

  (** rows since the latest supply, and the buffer row every later step starts from *)
  Theorem integrator2d_since_supply (g : krow) cap (t0 : time) (p : pva) ops :
    1 <= cap ->
    exists s os pre t rs cur,
      k_run_init g false cap t0 p ops = Some (s, os) /\
      traj s = pre ++ (t, pva_zero_vd (latest_pva p ops))
                   :: combine (map (fun i : kinc_t => snd i) (incs_since [] ops)) (map k_to_pub rs) /\
      length rs = length (incs_since [] ops) /\
      Forall (fun r => p_VD (k_to_pub r) = 0%R /\ p_alt (k_to_pub r) = p_alt (latest_pva p ops)) rs /\
      nth_error (buf s) (length (traj s) - 1) = Some cur /\
      k_VD cur = 0%R /\ k_alt cur = p_alt (latest_pva p ops).
  Proof.
    intros Hc.
    destruct (inv2d_since_supply_gen krow pva kinc_t time kstep_t k_to_pub k_of_pub pva_zero_vd
                (fun i : kinc_t => snd i) R (fun r => k_VD r = 0%R) k_alt k_Hstep
                (fun q => proj1 (k_Hsup q)) g cap t0 p ops Hc)
      as [s [os [pre [t [rs [cur [E [Ht [Ers [HF [Hn [Hv Hk]]]]]]]]]]]].
    exists s, os, pre, t, rs, cur.
    split; [exact E|]. split; [exact Ht|]. split; [rewrite Ers; apply scanl_length|].
    split; [|split; [exact Hn|split; [exact Hv|exact Hk]]].
    eapply Forall_impl; [|exact HF]. cbn. intros r [H1 H2]. split; assumption.
  Qed.

  (** every row produced in any reachable 2D state *)
  Theorem integrator2d_produced (g : krow) cap (t0 : time) (p : pva) ops s os :
    k_run_init g false cap t0 p ops = Some (s, os) ->
    (forall g' c s' ob,
        k_step g' s (Integrate c) = Some (s', ob) ->
        exists new, traj s' = traj s ++ new /\ length new = length c /\
                    Forall (fun tp => p_VD (snd tp) = 0%R /\
                                      p_alt (snd tp) = p_alt (latest_pva p ops)) new) /\
    (forall g' i s' ob,
        k_step g' s (Predict i) = Some (s', ob) ->
        exists row, ob = ORow (snd i, row) /\ traj s' = traj s /\
                    p_VD row = 0%R /\ p_alt row = p_alt (latest_pva p ops)).
  Proof.
    intros E.
    destruct (inv2d_step_gen krow pva kinc_t time kstep_t k_to_pub k_of_pub pva_zero_vd
                (fun i : kinc_t => snd i) R (fun r => k_VD r = 0%R) k_alt k_Hstep
                (fun q => proj1 (k_Hsup q)) g cap t0 p ops s os E) as [HI HP].
    split.
    - intros g' c s' ob Es. destruct (HI g' c s' ob Es) as [rs [Ht [Hl HF]]].
      exists (combine (map (fun i : kinc_t => snd i) c) (map k_to_pub rs)).
      split; [exact Ht|]. split; [rewrite combine_length, !map_length; lia|].
      apply Forall_forall. intros tp Hin.
      assert (Hs : In (snd tp) (map snd (combine (map (fun i : kinc_t => snd i) c) (map k_to_pub rs))))
        by (apply in_map; exact Hin).
      rewrite map_snd_combine in Hs by (rewrite !map_length; lia).
      apply in_map_iff in Hs. destruct Hs as [r [Er Hr]]. rewrite <- Er.
      rewrite Forall_forall in HF. destruct (HF r Hr) as [H1 H2]. split; assumption.
    - intros g' i s' ob Es. destruct (HP g' i s' ob Es) as [r [Eo [Ht [H1 H2]]]].
      exists (k_to_pub r). split; [exact Eo|]. split; [exact Ht|]. split; assumption.
  Qed.

  (** feedback filter: every overwrite is correct_pva applied to the current last row *)
  Definition k_fb_hist := fb_hist krow pva kinc_t time kstep_t k_to_pub k_of_pub pva_zero_vd
                            (fun i : kinc_t => snd i) err7 correct2d.

  Theorem feedback2d (g : krow) cap (t0 : time) (p : pva) ops s0 :
    init k_of_pub pva_zero_vd g false cap t0 p = Some s0 ->
    k_fb_hist g s0 ops ->
    exists s os,
      k_run_init g false cap t0 p ops = Some (s, os) /\
      Forall (fun tp => p_alt (snd tp) = p_alt p /\ p_VD (snd tp) = 0%R) (traj s).
  Proof.
    intros Ei Hfb.
    exact (feedback2d_gen krow pva kinc_t time kstep_t k_to_pub k_of_pub pva_zero_vd
             (fun i : kinc_t => snd i) R k_alt (fun r => k_VD r = 0%R) p_alt
             (fun q => p_VD q = 0%R) k_Hstep k_Hto k_Hsup err7 correct2d
             (fun q x => proj1 (correct2d_keeps_vertical q x)) g cap t0 p ops s0 Ei Hfb).
  Qed.
End Instance.
