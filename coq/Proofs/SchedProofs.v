(* ------------------------------------------------------------------------- *)
(*  C09 / C10 — proofs about the scheduling models of the two filter loops     *)
(*  (Model/FeedbackSched.v, Model/FeedforwardSched.v).                         *)
(*                                                                             *)
(*  Part A  order / list / sort / searchsorted lemmas                          *)
(*  Part B  the shared inner loop and the per-sensor projections               *)
(*  Part C  feedback loop   (C09):  fb_*_oracle  and the exact corollaries fb_* *)
(*  Part D  feedforward loop (C10): ff_*_oracle  and the exact corollaries ff_* *)
(*                                                                             *)
(*  `*_oracle` theorems: the float expression `time + time_step` is replaced   *)
(*  by an arbitrary function add_step; since the loop time strictly increases  *)
(*  from one iteration to the next this is a value chosen adversarially at     *)
(*  each iteration.  The feedback loop needs the single hypothesis             *)
(*  `forall t, t <= add_step t` (true of binary64 `t + step` for step >= 0);   *)
(*  the feedforward loop needs NO hypothesis on add_step at all.  Theorems     *)
(*  without the suffix are the instances add_step t = t + time_step (exact     *)
(*  arithmetic; feedback: 0 <= time_step, feedforward: any time_step).         *)
(* ------------------------------------------------------------------------- *)
From Coq Require Import List QArith Bool Arith Lia Lqa Sorted Qminmax ZifyBool.
From PV Require Import Model.FeedbackSched Model.FeedforwardSched.
Import ListNotations.
Open Scope Q_scope.

(* ========================================================================= *)
(*  Part A                                                                   *)
(* ========================================================================= *)

Lemma Qltb_true : forall x y, Qltb x y = true <-> x < y.
Proof.
  intros x y. unfold Qltb. rewrite negb_true_iff. split; intro H.
  - apply Qnot_le_lt. intro Hle. apply Qle_bool_iff in Hle. congruence.
  - destruct (Qle_bool y x) eqn:E; [|reflexivity].
    apply Qle_bool_iff in E. lra.
Qed.

Lemma Qltb_false : forall x y, Qltb x y = false <-> y <= x.
Proof.
  intros x y. unfold Qltb. rewrite negb_false_iff. apply Qle_bool_iff.
Qed.

Lemma Qle_bool_false : forall x y, Qle_bool x y = false <-> y < x.
Proof.
  intros x y. split; intro H.
  - apply Qnot_le_lt. intro Hle. apply Qle_bool_iff in Hle. congruence.
  - destruct (Qle_bool x y) eqn:E; [|reflexivity].
    apply Qle_bool_iff in E. lra.
Qed.

(* membership up to the equality of rationals *)
Definition InQ (x : Q) (l : list Q) : Prop := exists y, In y l /\ y == x.

Lemma InQ_nil : forall x, ~ InQ x [].
Proof. intros x [y [[] _]]. Qed.

Lemma InQ_cons : forall x a l, InQ x (a :: l) <-> a == x \/ InQ x l.
Proof.
  intros x a l. split.
  - intros [y [[->|Hin] He]]; [now left|right; now exists y].
  - intros [He|[y [Hin He]]]; [exists a|exists y]; split; auto; now (left + right).
Qed.

Lemma InQ_app : forall x l1 l2, InQ x (l1 ++ l2) <-> InQ x l1 \/ InQ x l2.
Proof.
  intros x l1 l2. split.
  - intros [y [Hin He]]. apply in_app_or in Hin as [H|H]; [left|right]; now exists y.
  - intros [[y [Hin He]]|[y [Hin He]]]; exists y; split; auto; apply in_or_app; auto.
Qed.

Lemma In_InQ : forall x l, In x l -> InQ x l.
Proof. intros x l H. exists x. split; [assumption|reflexivity]. Qed.

Lemma InQ_eq : forall x y l, x == y -> InQ x l -> InQ y l.
Proof. intros x y l He [z [Hin Hz]]. exists z. split; [assumption|lra]. Qed.

Lemma stamped_true : forall m s, stamped m s = true <-> InQ m s.
Proof.
  intros m s. unfold stamped. rewrite existsb_exists. split.
  - intros [y [Hin He]]. apply Qeq_bool_iff in He. exists y. split; [assumption|lra].
  - intros [y [Hin He]]. exists y. split; [assumption|]. apply Qeq_bool_iff. lra.
Qed.

Lemma stamped_eq : forall x y s, x == y -> stamped x s = stamped y s.
Proof.
  intros x y s He.
  destruct (stamped x s) eqn:Ex, (stamped y s) eqn:Ey; try reflexivity.
  - apply stamped_true in Ex. apply (InQ_eq _ _ _ He), stamped_true in Ex. congruence.
  - apply stamped_true in Ey. assert (Hs : y == x) by lra.
    apply (InQ_eq _ _ _ Hs), stamped_true in Ey. congruence.
Qed.

(* ---------- strictly increasing lists ------------------------------------ *)

Notation sorted := (StronglySorted Qlt).

Lemma sorted_nil : sorted [].
Proof. constructor. Qed.

Lemma sorted_cons_iff : forall a l, sorted (a :: l) <-> sorted l /\ Forall (Qlt a) l.
Proof.
  intros a l. split.
  - apply StronglySorted_inv.
  - intros [H1 H2]. now constructor.
Qed.

Lemma sorted_app_r : forall l1 l2, sorted (l1 ++ l2) -> sorted l2.
Proof.
  induction l1 as [|a l1 IH]; intros l2 H; [assumption|].
  apply IH. now apply sorted_cons_iff in H.
Qed.

Lemma sorted_filter : forall f l, sorted l -> sorted (filter f l).
Proof.
  intros f l. induction l as [|a l IH]; intro H; cbn; [constructor|].
  apply sorted_cons_iff in H as [Hs Hf].
  destruct (f a).
  - apply sorted_cons_iff. split; [auto|].
    apply Forall_forall. intros x Hx. apply filter_In in Hx as [Hx _].
    rewrite Forall_forall in Hf. auto.
  - auto.
Qed.

Lemma sorted_nth_lt : forall l i j, sorted l ->
  (i < j)%nat -> (j < length l)%nat -> nth i l 0 < nth j l 0.
Proof.
  induction l as [|a l IH]; intros i j Hs Hij Hj; cbn in Hj; [lia|].
  apply sorted_cons_iff in Hs as [Hs Hf].
  destruct j as [|j]; [lia|]. destruct i as [|i]; cbn.
  - rewrite Forall_forall in Hf. apply Hf. apply nth_In. lia.
  - apply IH; [assumption|lia|lia].
Qed.

Lemma sorted_nth_le : forall l i j, sorted l ->
  (i <= j)%nat -> (j < length l)%nat -> nth i l 0 <= nth j l 0.
Proof.
  intros l i j Hs Hij Hj. destruct (Nat.eq_dec i j) as [->|Hne]; [lra|].
  apply Qlt_le_weak. apply sorted_nth_lt; [assumption|lia|lia].
Qed.

Lemma sorted_head_le : forall x m p, sorted (m :: p) -> x <= m -> Forall (fun y => x <= y) (m :: p).
Proof.
  intros x m p Hs Hx. apply sorted_cons_iff in Hs as [_ Hf].
  constructor; [assumption|]. rewrite Forall_forall in *. intros y Hy.
  specialize (Hf y Hy). lra.
Qed.

Lemma last_nth_len : forall (l : list Q) d, l <> [] -> last l d = nth (length l - 1) l 0.
Proof.
  induction l as [|a l IH]; intros d Hne; [congruence|].
  destruct l as [|b l]; [reflexivity|].
  change (last (a :: b :: l) d) with (last (b :: l) d).
  rewrite IH by discriminate. cbn [length].
  replace (S (S (length l)) - 1)%nat with (S (S (length l) - 1))%nat by lia.
  reflexivity.
Qed.

(* ---------- filter helpers ----------------------------------------------- *)

Lemma filter_all_false : forall (f : Q -> bool) l,
  (forall x, In x l -> f x = false) -> filter f l = [].
Proof.
  intros f l. induction l as [|a l IH]; intro H; cbn; [reflexivity|].
  rewrite (H a) by now left. apply IH. intros x Hx. apply H. now right.
Qed.

Lemma filter_all_true : forall (f : Q -> bool) l,
  (forall x, In x l -> f x = true) -> filter f l = l.
Proof.
  intros f l. induction l as [|a l IH]; intro H; cbn; [reflexivity|].
  rewrite (H a) by now left. f_equal. apply IH. intros x Hx. apply H. now right.
Qed.

Lemma filter_filter : forall (f g : Q -> bool) l,
  filter f (filter g l) = filter (fun x => g x && f x) l.
Proof.
  intros f g l. induction l as [|a l IH]; cbn; [reflexivity|].
  destruct (g a); cbn; [destruct (f a)|]; now rewrite IH.
Qed.

Lemma flat_map_if_filter : forall (f : Q -> bool) l,
  flat_map (fun m => if f m then [m] else []) l = filter f l.
Proof.
  intros f l. induction l as [|a l IH]; cbn; [reflexivity|].
  rewrite IH. now destruct (f a).
Qed.

(* ---------- sort_unique / merge_times / clip ----------------------------- *)

Lemma insert_u_lower : forall a x l, a < x -> Forall (Qlt a) l -> Forall (Qlt a) (insert_u x l).
Proof.
  intros a x l Hax. induction l as [|y r IH]; intro Hf; cbn.
  - constructor; [assumption|constructor].
  - inversion Hf as [|? ? Hy Hr]; subst.
    destruct (Qltb x y); [constructor; assumption|].
    destruct (Qeq_bool x y); [assumption|].
    constructor; [assumption|auto].
Qed.

Lemma insert_u_sorted : forall x l, sorted l -> sorted (insert_u x l).
Proof.
  intros x l. induction l as [|y r IH]; intro Hs; cbn.
  - apply sorted_cons_iff. split; constructor.
  - pose proof Hs as Hs0. apply sorted_cons_iff in Hs as [Hr Hf].
    destruct (Qltb x y) eqn:E1.
    + apply Qltb_true in E1. apply sorted_cons_iff. split; [assumption|].
      constructor; [assumption|]. rewrite Forall_forall in *. intros z Hz.
      specialize (Hf z Hz). lra.
    + destruct (Qeq_bool x y) eqn:E2; [assumption|].
      apply Qltb_false in E1.
      assert (Hne : ~ x == y).
      { intro He. apply Qeq_bool_iff in He. congruence. }
      apply sorted_cons_iff. split; [auto|].
      apply insert_u_lower; [|assumption].
      destruct (Qlt_le_dec y x) as [H|H]; [assumption|]. exfalso. apply Hne. lra.
Qed.

Lemma insert_u_InQ : forall z x l, InQ z (insert_u x l) <-> x == z \/ InQ z l.
Proof.
  intros z x l. induction l as [|y r IH]; cbn.
  - rewrite InQ_cons. tauto.
  - destruct (Qltb x y) eqn:E1; [rewrite InQ_cons; tauto|].
    destruct (Qeq_bool x y) eqn:E2.
    + apply Qeq_bool_iff in E2. split; [tauto|].
      intros [He|H]; [|assumption]. apply InQ_cons. left. lra.
    + rewrite !InQ_cons, IH. tauto.
Qed.

Lemma sort_unique_sorted : forall l, sorted (sort_unique l).
Proof.
  induction l as [|a l IH]; cbn; [constructor|]. now apply insert_u_sorted.
Qed.

Lemma sort_unique_InQ : forall z l, InQ z (sort_unique l) <-> InQ z l.
Proof.
  intros z l. induction l as [|a l IH]; cbn; [tauto|].
  rewrite insert_u_InQ, InQ_cons, IH. tauto.
Qed.

Lemma merge_times_sorted : forall sensors, sorted (merge_times sensors).
Proof. intro. apply sort_unique_sorted. Qed.

Lemma merge_times_InQ : forall z sensors,
  InQ z (merge_times sensors) <-> exists s, In s sensors /\ InQ z s.
Proof.
  intros z sensors. unfold merge_times. rewrite sort_unique_InQ. split.
  - intros [y [Hin He]]. apply in_concat in Hin as [s [Hs Hy]].
    exists s. split; [assumption|]. now exists y.
  - intros [s [Hs [y [Hy He]]]]. exists y. split; [|assumption].
    apply in_concat. now exists s.
Qed.

Lemma clip_sorted : forall lo hi l, sorted l -> sorted (clip lo hi l).
Proof. intros. now apply sorted_filter. Qed.

Lemma clip_In : forall lo hi l y, In y (clip lo hi l) <-> In y l /\ lo <= y /\ y <= hi.
Proof.
  intros lo hi l y. unfold clip. rewrite filter_In, andb_true_iff, !Qle_bool_iff. tauto.
Qed.

(* the epochs that are actually processed: lo <= m < hi *)
Definition in_range (lo hi : Q) (m : Q) : bool := Qle_bool lo m && Qltb m hi.

Lemma in_range_true : forall lo hi m, in_range lo hi m = true <-> lo <= m /\ m < hi.
Proof.
  intros. unfold in_range. now rewrite andb_true_iff, Qle_bool_iff, Qltb_true.
Qed.

Lemma filter_lt_clip : forall lo hi l,
  filter (fun m => Qltb m hi) (clip lo hi l) = filter (in_range lo hi) l.
Proof.
  intros lo hi l. unfold clip. rewrite filter_filter. apply filter_ext. intro m.
  unfold in_range. destruct (Qle_bool lo m); cbn; [|reflexivity].
  destruct (Qltb m hi) eqn:E; [|now rewrite andb_false_r].
  apply Qltb_true in E. rewrite andb_true_r. apply Qle_bool_iff. lra.
Qed.

(* ---------- searchsorted -------------------------------------------------- *)

Lemma ss_le_len : forall a x, (searchsorted_right a x <= length a)%nat.
Proof.
  induction a as [|y r IH]; intro x; cbn; [lia|].
  destruct (Qle_bool y x); [specialize (IH x)|]; lia.
Qed.

Lemma ss_prefix : forall a x i, (i < searchsorted_right a x)%nat -> nth i a 0 <= x.
Proof.
  induction a as [|y r IH]; intros x i Hi; cbn in Hi; [lia|].
  destruct (Qle_bool y x) eqn:E; [|lia].
  destruct i as [|i]; cbn; [now apply Qle_bool_iff|]. apply IH. lia.
Qed.

Lemma ss_next : forall a x, (searchsorted_right a x < length a)%nat ->
  x < nth (searchsorted_right a x) a 0.
Proof.
  induction a as [|y r IH]; intros x H; cbn in *; [lia|].
  destruct (Qle_bool y x) eqn:E.
  - apply IH. lia.
  - now apply Qle_bool_false.
Qed.

Lemma ss_lower : forall a x i, sorted a -> (i < length a)%nat -> nth i a 0 <= x ->
  (i < searchsorted_right a x)%nat.
Proof.
  intros a x i Hs Hi Hle.
  destruct (Nat.lt_ge_cases i (searchsorted_right a x)) as [H|H]; [assumption|exfalso].
  assert (Hk : (searchsorted_right a x < length a)%nat) by lia.
  pose proof (ss_next a x Hk) as Hn.
  pose proof (sorted_nth_le a _ i Hs H Hi) as Hm. lra.
Qed.

(* ---------- iloc[a:b] ------------------------------------------------------ *)

Lemma firstn_skipn_seq : forall (l : list Q) a k, (a + k <= length l)%nat ->
  firstn k (skipn a l) = map (fun i => nth i l 0) (seq a k).
Proof.
  induction l as [|x l IH]; intros a k H; cbn in H.
  - assert (a = 0 /\ k = 0)%nat as [-> ->] by lia. reflexivity.
  - destruct a as [|a].
    + cbn [skipn]. destruct k as [|k]; [reflexivity|].
      cbn [firstn seq map nth]. f_equal.
      specialize (IH 0%nat k). cbn [skipn] in IH.
      assert (Hs : skipn 0 l = l) by reflexivity.
      rewrite IH by lia. rewrite <- seq_shift, map_map. reflexivity.
    + cbn [skipn]. rewrite IH by lia. rewrite <- seq_shift, map_map. reflexivity.
Qed.

Lemma batch_seq : forall incs a b, (a <= b)%nat -> (b <= length incs)%nat ->
  batch incs a b = map (fun i => nth i incs 0) (seq a (b - a)).
Proof. intros. unfold batch. apply firstn_skipn_seq. lia. Qed.

Lemma batch_last : forall incs a b d, (a < b)%nat -> (b <= length incs)%nat ->
  last (batch incs a b) d = nth (b - 1) incs 0.
Proof.
  intros incs a b d Hab Hb. rewrite batch_seq by lia.
  replace (b - a)%nat with (S (b - a - 1)) by lia.
  rewrite seq_S, map_app. cbn [map]. rewrite last_last. f_equal. lia.
Qed.

Lemma map_nth_seq : forall (l : list Q), map (fun i => nth i l 0) (seq 0 (length l)) = l.
Proof.
  induction l as [|x l IH]; [reflexivity|].
  cbn [length seq map nth]. f_equal.
  rewrite <- seq_shift, map_map. exact IH.
Qed.

(* ========================================================================= *)
(*  Part B : events, the sensor loop, the inner while                        *)
(* ========================================================================= *)

Definition is_innov (e : event) : bool :=
  match e with Innov _ _ _ => true | _ => false end.

Definition all_innov (l : list event) : Prop := Forall (fun e => is_innov e = true) l.

Lemma all_innov_app : forall l1 l2, all_innov l1 -> all_innov l2 -> all_innov (l1 ++ l2).
Proof. intros. apply Forall_app. now split. Qed.

Lemma flat_map_nil_all : forall (A B : Type) (f : A -> list B) (l : list A),
  (forall x, In x l -> f x = []) -> flat_map f l = [].
Proof.
  intros A B f l. induction l as [|a l IH]; intro H; cbn; [reflexivity|].
  rewrite (H a) by now left. apply IH. intros x Hx. apply H. now right.
Qed.

Section AllInnov.
  Variable l : list event.
  Hypothesis H : all_innov l.

  Lemma all_innov_completed : completed l = true.
  Proof.
    unfold completed. apply forallb_forall. intros e He.
    unfold all_innov in H. rewrite Forall_forall in H. specialize (H e He).
    now destruct e.
  Qed.

  Lemma all_innov_flat_map : forall (B : Type) (f : event -> list B),
    (forall k m t, f (Innov k m t) = []) -> flat_map f l = [].
  Proof.
    intros B f Hf. unfold all_innov in H. rewrite Forall_forall in H.
    apply flat_map_nil_all. intros e He. specialize (H e He).
    destruct e; try discriminate H. apply Hf.
  Qed.

  Lemma all_innov_records : record_times l = [].
  Proof. apply all_innov_flat_map. reflexivity. Qed.

  Lemma all_innov_integrated : integrated l = [].
  Proof. apply all_innov_flat_map. reflexivity. Qed.

  Lemma all_innov_propagations : propagations l = [].
  Proof. apply all_innov_flat_map. reflexivity. Qed.

  Lemma all_innov_batches : forall incs,
    flat_map (fun e => match e with Integrate a b => batch incs a b | _ => [] end) l = [].
  Proof. intro. apply all_innov_flat_map. reflexivity. Qed.

  Lemma all_innov_no_integrate : forall a b, ~ In (Integrate a b) l.
  Proof.
    intros a b Hin. unfold all_innov in H. rewrite Forall_forall in H.
    specialize (H _ Hin). discriminate.
  Qed.

  Lemma all_innov_no_propagate : forall a b, ~ In (Propagate a b) l.
  Proof.
    intros a b Hin. unfold all_innov in H. rewrite Forall_forall in H.
    specialize (H _ Hin). discriminate.
  Qed.
End AllInnov.

(* what sensor k contributes at epoch m *)
Definition sel (sensors : list (list Q)) (k : nat) (m : Q) : list Q :=
  match nth_error sensors k with
  | Some s => if stamped m s then [m] else []
  | None => []
  end.

Lemma innov_epochs_app : forall k l1 l2,
  innov_epochs k (l1 ++ l2) = innov_epochs k l1 ++ innov_epochs k l2.
Proof. intros. apply flat_map_app. Qed.

Lemma innov_rows_app : forall k l1 l2,
  innov_rows k (l1 ++ l2) = innov_rows k l1 ++ innov_rows k l2.
Proof. intros. apply flat_map_app. Qed.

Lemma record_times_app : forall l1 l2,
  record_times (l1 ++ l2) = record_times l1 ++ record_times l2.
Proof. intros. apply flat_map_app. Qed.

Lemma integrated_app : forall l1 l2, integrated (l1 ++ l2) = integrated l1 ++ integrated l2.
Proof. intros. apply flat_map_app. Qed.

Lemma propagations_app : forall l1 l2,
  propagations (l1 ++ l2) = propagations l1 ++ propagations l2.
Proof. intros. apply flat_map_app. Qed.

Lemma completed_app : forall l1 l2, completed (l1 ++ l2) = completed l1 && completed l2.
Proof. intros. apply forallb_app. Qed.

Section SensorLoop.
  Variable m t : Q.
  Let f := fun ks : nat * list Q =>
             if stamped m (snd ks) then [Innov (fst ks) m t] else [].

  Lemma sensor_loop_all_innov : forall ss a,
    all_innov (flat_map f (combine (seq a (length ss)) ss)).
  Proof.
    induction ss as [|s r IH]; intro a; cbn; [constructor|].
    apply all_innov_app; [|apply IH].
    unfold f; cbn [fst snd]. unfold all_innov.
    destruct (stamped m s); [|constructor].
    constructor; [reflexivity|constructor].
  Qed.

  Lemma sensor_loop_epochs : forall ss a k,
    innov_epochs k (flat_map f (combine (seq a (length ss)) ss)) =
    if (a <=? k)%nat then sel ss (k - a) m else [].
  Proof.
    induction ss as [|s r IH]; intros a k.
    - cbn. unfold sel. destruct (k - a)%nat; cbn; now destruct (a <=? k)%nat.
    - cbn [length seq combine flat_map]. rewrite innov_epochs_app, IH.
      unfold f at 1; cbn [fst snd].
      destruct (Nat.leb_spec a k) as [Hak|Hak].
      + destruct (Nat.eq_dec k a) as [->|Hne].
        * replace (a - a)%nat with 0%nat by lia. unfold sel; cbn [nth_error].
          destruct (Nat.leb_spec (S a) a); [lia|].
          destruct (stamped m s); cbn; [rewrite Nat.eqb_refl|]; reflexivity.
        * destruct (Nat.leb_spec (S a) k); [|lia].
          replace (k - a)%nat with (S (k - S a)) by lia.
          unfold sel at 2; cbn [nth_error]. fold (sel r (k - S a) m).
          destruct (stamped m s); cbn; [|reflexivity].
          destruct (Nat.eqb_spec k a); [lia|reflexivity].
      + destruct (Nat.leb_spec (S a) k); [lia|].
        destruct (stamped m s); cbn; [|reflexivity].
        destruct (Nat.eqb_spec k a); [lia|reflexivity].
  Qed.

  Lemma sensor_loop_rows : forall ss a k,
    innov_rows k (flat_map f (combine (seq a (length ss)) ss)) =
    map (fun _ => t) (if (a <=? k)%nat then sel ss (k - a) m else []).
  Proof.
    induction ss as [|s r IH]; intros a k.
    - cbn. unfold sel. destruct (k - a)%nat; cbn; now destruct (a <=? k)%nat.
    - cbn [length seq combine flat_map]. rewrite innov_rows_app, IH.
      unfold f at 1; cbn [fst snd].
      destruct (Nat.leb_spec a k) as [Hak|Hak].
      + destruct (Nat.eq_dec k a) as [->|Hne].
        * replace (a - a)%nat with 0%nat by lia. unfold sel; cbn [nth_error].
          destruct (Nat.leb_spec (S a) a); [lia|].
          destruct (stamped m s); cbn; [rewrite Nat.eqb_refl|]; reflexivity.
        * destruct (Nat.leb_spec (S a) k); [|lia].
          replace (k - a)%nat with (S (k - S a)) by lia.
          unfold sel at 2; cbn [nth_error]. fold (sel r (k - S a) m).
          destruct (stamped m s); cbn; [|reflexivity].
          destruct (Nat.eqb_spec k a); [lia|reflexivity].
      + destruct (Nat.leb_spec (S a) k); [lia|].
        destruct (stamped m s); cbn; [|reflexivity].
        destruct (Nat.eqb_spec k a); [lia|reflexivity].
  Qed.

  Lemma sensor_loop_In : forall ss a k m' t',
    In (Innov k m' t') (flat_map f (combine (seq a (length ss)) ss)) ->
    m' = m /\ t' = t /\ (a <= k)%nat /\
    exists s, nth_error ss (k - a) = Some s /\ stamped m s = true.
  Proof.
    induction ss as [|s r IH]; intros a k m' t' Hin; [destruct Hin|].
    cbn [length seq combine flat_map] in Hin. apply in_app_or in Hin as [Hin|Hin].
    - unfold f in Hin; cbn [fst snd] in Hin.
      destruct (stamped m s) eqn:E; [|destruct Hin].
      destruct Hin as [Heq|[]]. inversion Heq; subst.
      repeat split; [lia|]. exists s. replace (k - k)%nat with 0%nat by lia. now split.
    - apply IH in Hin as (H1 & H2 & H3 & s' & H4 & H5).
      repeat split; [assumption|assumption|lia|].
      exists s'. replace (k - a)%nat with (S (k - S a)) by lia. now split.
  Qed.
End SensorLoop.

Lemma epoch_events_all_innov : forall sensors m t, all_innov (epoch_events sensors m t).
Proof. intros. apply sensor_loop_all_innov. Qed.

Lemma epoch_events_epochs : forall sensors m t k,
  innov_epochs k (epoch_events sensors m t) = sel sensors k m.
Proof.
  intros. unfold epoch_events. rewrite sensor_loop_epochs. cbn. now rewrite Nat.sub_0_r.
Qed.

Lemma epoch_events_rows : forall sensors m t k,
  innov_rows k (epoch_events sensors m t) = map (fun _ => t) (sel sensors k m).
Proof.
  intros. unfold epoch_events. rewrite sensor_loop_rows. cbn. now rewrite Nat.sub_0_r.
Qed.

Lemma epoch_events_In : forall sensors m t k m' t',
  In (Innov k m' t') (epoch_events sensors m t) ->
  m' = m /\ t' = t /\ exists s, nth_error sensors k = Some s /\ stamped m s = true.
Proof.
  intros sensors m t k m' t' Hin. unfold epoch_events in Hin.
  apply sensor_loop_In in Hin as (H1 & H2 & _ & s & H3 & H4).
  rewrite Nat.sub_0_r in H3. repeat split; try assumption. now exists s.
Qed.

(* the inner while: the processed epochs are the longest prefix of the pending
   stamps that lies strictly before `bound` *)
Lemma inner_spec : forall sensors t bound pending ev p',
  inner sensors t bound pending = (ev, p') ->
  exists pre,
    pending = pre ++ p' /\
    ev = flat_map (fun m => epoch_events sensors m t) pre /\
    Forall (fun m => m < bound) pre /\
    match p' with [] => True | m :: _ => bound <= m end.
Proof.
  intros sensors t bound. induction pending as [|m rest IH]; intros ev p' H; cbn in H.
  - inversion H; subst. exists []. repeat split; constructor.
  - destruct (Qltb m bound) eqn:E.
    + destruct (inner sensors t bound rest) as [ev0 p0] eqn:E0.
      inversion H; subst. destruct (IH _ _ eq_refl) as (pre & H1 & H2 & H3 & H4).
      exists (m :: pre). subst rest ev0. repeat split; try assumption.
      constructor; [now apply Qltb_true|assumption].
    + inversion H; subst. exists []. repeat split; [constructor|].
      now apply Qltb_false.
Qed.

Lemma events_all_innov : forall sensors t pre,
  all_innov (flat_map (fun m => epoch_events sensors m t) pre).
Proof.
  intros sensors t. induction pre as [|m pre IH]; cbn; [constructor|].
  apply all_innov_app; [apply epoch_events_all_innov|assumption].
Qed.

Lemma events_epochs : forall sensors t k pre,
  innov_epochs k (flat_map (fun m => epoch_events sensors m t) pre) =
  flat_map (sel sensors k) pre.
Proof.
  intros sensors t k. induction pre as [|m pre IH]; [reflexivity|].
  cbn [flat_map]. now rewrite innov_epochs_app, epoch_events_epochs, IH.
Qed.

Lemma events_rows : forall sensors t k pre,
  innov_rows k (flat_map (fun m => epoch_events sensors m t) pre) =
  map (fun _ => t) (flat_map (sel sensors k) pre).
Proof.
  intros sensors t k. induction pre as [|m pre IH]; [reflexivity|].
  cbn [flat_map]. now rewrite innov_rows_app, epoch_events_rows, IH, map_app.
Qed.

Lemma events_In : forall sensors t pre k m' t',
  In (Innov k m' t') (flat_map (fun m => epoch_events sensors m t) pre) ->
  In m' pre /\ t' = t /\ exists s, nth_error sensors k = Some s /\ stamped m' s = true.
Proof.
  intros sensors t pre k m' t' Hin. apply in_flat_map in Hin as [m [Hm Hin]].
  apply epoch_events_In in Hin as (-> & -> & Hs). now repeat split.
Qed.

(* splitting the processed part off the list of epochs due before `hi` *)
Lemma filter_lt_split : forall pre p' bound hi,
  Forall (fun m => m < bound) pre -> bound <= hi ->
  filter (fun m => Qltb m hi) (pre ++ p') = pre ++ filter (fun m => Qltb m hi) p'.
Proof.
  intros pre p' bound hi Hpre Hb. rewrite filter_app. f_equal.
  apply filter_all_true. intros x Hx. rewrite Forall_forall in Hpre.
  specialize (Hpre x Hx). apply Qltb_true. lra.
Qed.

(* ---------- the per-sensor statement from the merged list ----------------- *)

Lemma sel_filter : forall sensors k s l, nth_error sensors k = Some s ->
  flat_map (sel sensors k) l = filter (fun m => stamped m s) l.
Proof.
  intros sensors k s l H. unfold sel. rewrite H. apply flat_map_if_filter.
Qed.

Lemma sel_none : forall sensors k l, nth_error sensors k = None ->
  flat_map (sel sensors k) l = [].
Proof.
  intros sensors k l H. unfold sel. rewrite H. induction l; cbn; auto.
Qed.

Lemma sensor_epochs_spec : forall sensors k s lo hi,
  nth_error sensors k = Some s ->
  let l := flat_map (sel sensors k) (filter (in_range lo hi) (merge_times sensors)) in
  sorted l /\ forall x, InQ x l <-> InQ x s /\ lo <= x /\ x < hi.
Proof.
  intros sensors k s lo hi Hk l. subst l. rewrite (sel_filter _ _ s) by assumption.
  split.
  - apply sorted_filter, sorted_filter, merge_times_sorted.
  - intro x. split.
    + intros [y [Hin He]]. apply filter_In in Hin as [Hin Hst].
      apply filter_In in Hin as [Hin Hr]. apply in_range_true in Hr.
      apply stamped_true in Hst. split; [now apply (InQ_eq y)|lra].
    + intros [Hs Hr].
      assert (Hm : InQ x (merge_times sensors)).
      { apply merge_times_InQ. exists s. split; [|assumption].
        now apply nth_error_In with k. }
      destruct Hm as [y [Hin He]]. exists y. split; [|assumption].
      apply filter_In. split.
      * apply filter_In. split; [assumption|]. apply in_range_true. lra.
      * apply stamped_true. apply (InQ_eq x); [lra|assumption].
Qed.

(* two strictly increasing lists with the same elements are equal pointwise *)
Lemma sorted_same_elements : forall l1 l2, sorted l1 -> sorted l2 ->
  (forall x, InQ x l1 <-> InQ x l2) -> Forall2 Qeq l1 l2.
Proof.
  induction l1 as [|a l1 IH]; intros l2 H1 H2 H.
  - destruct l2 as [|b l2]; [constructor|].
    exfalso. apply (InQ_nil b). apply H. apply InQ_cons. now left.
  - destruct l2 as [|b l2].
    { exfalso. apply (InQ_nil a). apply H. apply InQ_cons. now left. }
    apply sorted_cons_iff in H1 as [H1 F1]. apply sorted_cons_iff in H2 as [H2 F2].
    rewrite Forall_forall in F1, F2.
    assert (Lower1 : forall x, InQ x l1 -> a < x).
    { intros x [y [Hy He]]. specialize (F1 y Hy). lra. }
    assert (Lower2 : forall x, InQ x l2 -> b < x).
    { intros x [y [Hy He]]. specialize (F2 y Hy). lra. }
    assert (Hab : a == b).
    { assert (Ha : InQ a (b :: l2)) by (apply H, InQ_cons; now left).
      assert (Hb : InQ b (a :: l1)) by (apply H, InQ_cons; now left).
      apply InQ_cons in Ha as [Ha|Ha]; [lra|].
      apply InQ_cons in Hb as [Hb|Hb]; [lra|].
      apply Lower2 in Ha. apply Lower1 in Hb. lra. }
    constructor; [assumption|]. apply IH; try assumption.
    intro x. split; intro Hx.
    + assert (Hx' : InQ x (b :: l2)) by (apply H, InQ_cons; now right).
      apply InQ_cons in Hx' as [Hx'|Hx']; [|assumption].
      apply Lower1 in Hx. lra.
    + assert (Hx' : InQ x (a :: l1)) by (apply H, InQ_cons; now right).
      apply InQ_cons in Hx' as [Hx'|Hx']; [|assumption].
      apply Lower2 in Hx. lra.
Qed.

(* ========================================================================= *)
(*  Part C : the feedback loop (C09)                                         *)
(* ========================================================================= *)

(* the trajectory times: tmf t0 incs 0 = t0, tmf t0 incs (S i) = incs[i] *)
Definition tmf (t0 : Q) (incs : list Q) (i : nat) : Q := nth i (t0 :: incs) 0.

Lemma last_tmf : forall t0 incs, incs <> [] -> last incs t0 = tmf t0 incs (length incs).
Proof.
  intros t0 incs Hne. rewrite (last_nth_len incs t0 Hne). unfold tmf.
  destruct incs as [|a l]; [congruence|]. cbn [length].
  replace (S (length l) - 1)%nat with (length l) by lia. reflexivity.
Qed.

Section Feedback.
  Variable add_step : Q -> Q.
  Variable t0 : Q.
  Variable incs : list Q.
  Variable sensors : list (list Q).
  Hypothesis Hstep : forall t, t <= add_step t.
  Hypothesis Hsorted : sorted (t0 :: incs).

  Local Notation n := (length incs).
  Local Notation tm := (tmf t0 incs).
  Local Notation due := (filter (fun m => Qltb m (tm n))).

  Lemma incs_sorted : sorted incs.
  Proof. now apply sorted_cons_iff in Hsorted. Qed.

  Lemma tm_lt : forall i j, (i < j)%nat -> (j <= n)%nat -> tm i < tm j.
  Proof. intros. unfold tmf. apply sorted_nth_lt; [assumption|lia|cbn; lia]. Qed.

  Lemma tm_le : forall i j, (i <= j)%nat -> (j <= n)%nat -> tm i <= tm j.
  Proof. intros. unfold tmf. apply sorted_nth_le; [assumption|lia|cbn; lia]. Qed.

  (* the batch selection always advances, never beyond the table and never
     beyond the next pending measurement epoch *)
  Lemma fb_step : forall idx p',
    (idx < n)%nat ->
    match p' with [] => True | m :: _ => tm (S idx) <= m end ->
    let next_time := min_inf (add_step (tm idx)) (head_inf p') in
    let nidx := searchsorted_right incs next_time in
    let nidx' := if Nat.eqb nidx idx then S nidx else nidx in
    (idx < nidx' <= n)%nat /\
    match p' with [] => True | m :: _ => tm nidx' <= m end /\
    (nidx' = S idx \/ tm nidx' <= add_step (tm idx)).
  Proof.
    intros idx p' Hidx Hp next_time nidx nidx'.
    pose proof (Hstep (tm idx)) as Hs.
    pose proof (tm_lt idx (S idx) ltac:(lia) ltac:(lia)) as Hlt.
    assert (Hlow : tm idx <= next_time).
    { subst next_time. destruct p' as [|m p]; cbn [min_inf head_inf]; [assumption|].
      destruct (Qltb m (add_step (tm idx))); lra. }
    assert (Hup : next_time <= add_step (tm idx)).
    { subst next_time. destruct p' as [|m p]; cbn [min_inf head_inf]; [lra|].
      destruct (Qltb m (add_step (tm idx))) eqn:E; [apply Qltb_true in E|]; lra. }
    assert (Hupm : match p' with [] => True | m :: _ => next_time <= m end).
    { subst next_time. destruct p' as [|m p]; cbn [min_inf head_inf]; [exact I|].
      destruct (Qltb m (add_step (tm idx))) eqn:E; [lra|]. now apply Qltb_false in E. }
    assert (Hge : (idx <= nidx)%nat).
    { destruct idx as [|i]; [lia|]. subst nidx.
      apply (ss_lower incs next_time i incs_sorted); [lia|exact Hlow]. }
    assert (Hlen : (nidx <= n)%nat) by apply ss_le_len.
    subst nidx'. destruct (Nat.eqb_spec nidx idx) as [He|Hne].
    - rewrite He. split; [lia|]. split; [|now left]. exact Hp.
    - assert (Hpre : tm nidx <= next_time).
      { destruct nidx as [|k] eqn:Ek; [lia|]. unfold tmf; cbn [nth].
        apply ss_prefix. fold nidx. lia. }
      split; [lia|]. split; [|right; lra].
      destruct p' as [|m p]; [exact I|]. lra.
  Qed.

  Lemma fb_loop_done : forall fuel pending,
    fb_loop fuel add_step incs sensors (tm n) (tm n) n pending = [].
  Proof.
    intros fuel pending.
    assert (E : Qltb (tm n) (tm n) = false) by (apply Qltb_false; lra).
    destruct fuel; cbn [fb_loop]; now rewrite E.
  Qed.

  Lemma fb_loop_step : forall fuel idx pending, (idx < n)%nat ->
    fb_loop (S fuel) add_step incs sensors (tm n) (tm idx) idx pending =
    let (ev, pending') := inner sensors (tm idx) (tm (S idx)) pending in
    let next_time := min_inf (add_step (tm idx)) (head_inf pending') in
    let nidx := searchsorted_right incs next_time in
    let nidx' := if Nat.eqb nidx idx then S nidx else nidx in
    ev ++ Record (tm idx) :: Integrate idx nidx'
       :: fb_loop fuel add_step incs sensors (tm n)
            (last (batch incs idx nidx') (tm idx)) nidx' pending'.
  Proof.
    intros fuel idx pending Hidx. cbn [fb_loop].
    assert (E : Qltb (tm idx) (tm n) = true) by (apply Qltb_true, tm_lt; lia).
    rewrite E. rewrite (nth_error_nth' incs 0 Hidx). reflexivity.
  Qed.

  Definition fb_spec (idx : nat) (pending : list Q) (tr : list event) : Prop :=
    completed tr = true /\
    integrated tr = seq idx (n - idx) /\
    (forall a b, In (Integrate a b) tr -> (idx <= a < b)%nat /\ (b <= n)%nat) /\
    (forall k, innov_epochs k tr = flat_map (sel sensors k) (due pending)) /\
    (forall k m t, In (Innov k m t) tr ->
       In m (due pending) /\
       (exists s, nth_error sensors k = Some s /\ stamped m s = true) /\
       exists i, (idx <= i < n)%nat /\ t = tm i /\ tm i <= m /\ m < tm (S i)) /\
    sorted (record_times tr) /\
    (forall t, In t (record_times tr) -> exists i, (idx <= i < n)%nat /\ t = tm i) /\
    ((idx < n)%nat -> exists r, record_times tr = tm idx :: r).

  Lemma fb_loop_spec : forall fuel idx pending,
    (n - idx <= fuel)%nat -> (idx <= n)%nat ->
    sorted pending -> Forall (fun m => tm idx <= m) pending ->
    fb_spec idx pending
            (fb_loop fuel add_step incs sensors (tm n) (tm idx) idx pending).
  Proof.
    induction fuel as [|fuel IH]; intros idx pending Hfuel Hidx Hsp Hlow.
    - (* no fuel needed: idx = n *)
      assert (idx = n) as -> by lia. rewrite fb_loop_done.
      assert (Hdue : due pending = []).
      { apply filter_all_false. intros x Hx. rewrite Forall_forall in Hlow.
        apply Qltb_false. auto. }
      unfold fb_spec. rewrite Hdue, Nat.sub_diag.
      split; [|split; [|split; [|split; [|split; [|split; [|split]]]]]];
        try reflexivity; try (intros; contradiction); try (intros; lia).
      constructor.
    - destruct (Nat.eq_dec idx n) as [->|Hne].
      { rewrite fb_loop_done.
        assert (Hdue : due pending = []).
        { apply filter_all_false. intros x Hx. rewrite Forall_forall in Hlow.
          apply Qltb_false. auto. }
        unfold fb_spec. rewrite Hdue, Nat.sub_diag.
        split; [|split; [|split; [|split; [|split; [|split; [|split]]]]]];
          try reflexivity; try (intros; contradiction); try (intros; lia).
        constructor. }
      assert (Hlt : (idx < n)%nat) by lia.
      rewrite (fb_loop_step fuel idx pending Hlt).
      destruct (inner sensors (tm idx) (tm (S idx)) pending) as [ev p'] eqn:Einner.
      apply inner_spec in Einner as (pre & Hsplit & Hev & Hpre & Hhead).
      destruct (fb_step idx p' Hlt Hhead) as (Hn' & Hhead' & _).
      cbv zeta.
      set (nidx' := if Nat.eqb (searchsorted_right incs
                        (min_inf (add_step (tm idx)) (head_inf p'))) idx
                    then S (searchsorted_right incs
                        (min_inf (add_step (tm idx)) (head_inf p')))
                    else searchsorted_right incs
                        (min_inf (add_step (tm idx)) (head_inf p'))) in *.
      assert (Hlast : last (batch incs idx nidx') (tm idx) = tm nidx').
      { rewrite batch_last by lia. unfold tmf.
        destruct nidx' as [|k]; [lia|]. cbn [nth]. f_equal. lia. }
      rewrite Hlast.
      assert (Hsp' : sorted p') by (subst pending; now apply sorted_app_r in Hsp).
      assert (Hlow' : Forall (fun m => tm nidx' <= m) p').
      { destruct p' as [|m p]; [constructor|]. now apply sorted_head_le. }
      specialize (IH nidx' p' ltac:(lia) ltac:(lia) Hsp' Hlow').
      set (tr' := fb_loop fuel add_step incs sensors (tm n) (tm nidx') nidx' p') in *.
      destruct IH as (I1 & I2 & I3 & I4 & I5 & I6 & I7 & I8).
      pose proof (events_all_innov sensors (tm idx) pre) as Hall. rewrite <- Hev in Hall.
      assert (Hdue : due pending = pre ++ due p').
      { subst pending. apply (filter_lt_split pre p' (tm (S idx))); [assumption|].
        apply tm_le; lia. }
      unfold fb_spec.
      change (ev ++ Record (tm idx) :: Integrate idx nidx' :: tr')
        with (ev ++ [Record (tm idx); Integrate idx nidx'] ++ tr').
      split; [|split; [|split; [|split; [|split; [|split; [|split]]]]]].
      + rewrite !completed_app, I1, (all_innov_completed ev Hall). reflexivity.
      + rewrite !integrated_app, I2, (all_innov_integrated ev Hall). cbn [integrated flat_map app].
        rewrite app_nil_r.
        replace (n - idx)%nat with ((nidx' - idx) + (n - nidx'))%nat by lia.
        rewrite seq_app. do 2 f_equal. lia.
      + intros a b H.
        apply in_app_or in H as [H|H]; [now apply all_innov_no_integrate in H|].
        apply in_app_or in H as [H|H].
        * destruct H as [H|[H|[]]]; inversion H; subst. lia.
        * apply I3 in H. lia.
      + intro k. rewrite !innov_epochs_app, I4, Hdue, flat_map_app. f_equal.
        subst ev. apply events_epochs.
      + intros k m t H. apply in_app_or in H as [H|H].
        * subst ev. apply events_In in H as (Hm & -> & Hs).
          split; [rewrite Hdue; apply in_or_app; now left|].
          split; [assumption|].
          exists idx. split; [lia|]. split; [reflexivity|].
          rewrite Forall_forall in Hlow, Hpre. split.
          -- apply Hlow. subst pending. apply in_or_app. now left.
          -- now apply Hpre.
        * apply in_app_or in H as [H|H]; [destruct H as [H|[H|[]]]; discriminate H|].
          apply I5 in H as (Hm & Hs & i & Hi & Hrest).
          split; [rewrite Hdue; apply in_or_app; now right|].
          split; [assumption|].
          exists i. split; [lia|assumption].
      + rewrite !record_times_app, (all_innov_records ev Hall). cbn [record_times flat_map app].
        apply sorted_cons_iff. split; [assumption|].
        apply Forall_forall. intros x Hx. apply I7 in Hx as (i & Hi & ->).
        apply tm_lt; lia.
      + intros t H. rewrite !record_times_app, (all_innov_records ev Hall) in H.
        cbn [record_times flat_map app] in H. destruct H as [<-|H].
        * exists idx. split; [lia|reflexivity].
        * apply I7 in H as (i & Hi & ->). exists i. split; [lia|reflexivity].
      + intros _. rewrite !record_times_app, (all_innov_records ev Hall).
        cbn [record_times flat_map app]. eexists. reflexivity.
  Qed.
End Feedback.

(* ---------- feedback: whole function -------------------------------------- *)

Lemma batches_integrated : forall incs tr,
  (forall a b, In (Integrate a b) tr -> (a <= b)%nat /\ (b <= length incs)%nat) ->
  flat_map (fun e => match e with Integrate a b => batch incs a b | _ => [] end) tr =
  map (fun i => nth i incs 0) (integrated tr).
Proof.
  intros incs tr. induction tr as [|e tr IH]; intro H; [reflexivity|].
  cbn [flat_map]. unfold integrated. cbn [flat_map]. fold (integrated tr).
  rewrite map_app, IH by (intros a b Hab; apply H; now right). f_equal.
  destruct e; try reflexivity.
  destruct (H a b ltac:(now left)) as [H1 H2]. now apply batch_seq.
Qed.

Lemma InQ_filter_range : forall lo hi s x,
  InQ x (filter (in_range lo hi) s) <-> InQ x s /\ lo <= x /\ x < hi.
Proof.
  intros lo hi s x. split.
  - intros [y [Hin He]]. apply filter_In in Hin as [Hin Hr]. apply in_range_true in Hr.
    split; [now exists y|lra].
  - intros [[y [Hin He]] Hr]. exists y. split; [|assumption].
    apply filter_In. split; [assumption|]. apply in_range_true. lra.
Qed.

Section FeedbackTop.
  Variable add_step : Q -> Q.
  Variable t0 : Q.
  Variable incs : list Q.
  Variable sensors : list (list Q).
  Variable fuel : nat.
  Hypothesis Hstep : forall t, t <= add_step t.
  Hypothesis Hsorted : sorted (t0 :: incs).
  Hypothesis Hne : incs <> [].
  Hypothesis Hfuel : (length incs <= fuel)%nat.

  Local Notation n := (length incs).
  Local Notation tend := (last incs t0).
  Local Notation tr := (fb_run fuel add_step t0 incs sensors).

  Lemma fb_run_spec :
    fb_spec t0 incs sensors 0 (clip t0 tend (merge_times sensors)) tr.
  Proof.
    unfold fb_run. destruct incs as [|a l] eqn:E; [congruence|]. rewrite <- E in *.
    rewrite (last_tmf t0 incs Hne).
    change t0 with (tmf t0 incs 0) at 3.
    apply fb_loop_spec; try assumption; try lia.
    - apply clip_sorted, merge_times_sorted.
    - apply Forall_forall. intros m Hm. apply clip_In in Hm. unfold tmf. cbn [nth]. tauto.
  Qed.

  Lemma fb_due_clip :
    filter (fun m => Qltb m (tmf t0 incs n)) (clip t0 tend (merge_times sensors)) =
    filter (in_range t0 tend) (merge_times sensors).
  Proof. rewrite <- (last_tmf t0 incs Hne). apply filter_lt_clip. Qed.

  Theorem fb_terminates_sec : completed tr = true.
  Proof. apply fb_run_spec. Qed.

  Theorem fb_imu_exactly_once_sec :
    integrated tr = seq 0 n /\
    (forall a b, In (Integrate a b) tr -> (a < b)%nat /\ (b <= n)%nat) /\
    fb_trajectory_index t0 incs tr = t0 :: incs.
  Proof.
    destruct fb_run_spec as (_ & H2 & H3 & _). rewrite Nat.sub_0_r in H2.
    split; [assumption|]. split.
    - intros a b H. apply H3 in H. lia.
    - unfold fb_trajectory_index. f_equal. rewrite batches_integrated.
      + rewrite H2. apply map_nth_seq.
      + intros a b H. apply H3 in H. lia.
  Qed.

  Theorem fb_meas_exactly_once_sec :
    (forall k s, nth_error sensors k = Some s ->
       sorted (innov_epochs k tr) /\
       (forall x, InQ x (innov_epochs k tr) <-> InQ x s /\ t0 <= x /\ x < tend) /\
       Forall2 Qeq (innov_epochs k tr) (sort_unique (filter (in_range t0 tend) s))) /\
    (forall k, nth_error sensors k = None -> innov_epochs k tr = []).
  Proof.
    destruct fb_run_spec as (_ & _ & _ & H4 & _).
    split.
    - intros k s Hk. rewrite H4, fb_due_clip.
      destruct (sensor_epochs_spec sensors k s t0 tend Hk) as [S1 S2].
      split; [assumption|]. split; [assumption|].
      apply sorted_same_elements; [assumption|apply sort_unique_sorted|].
      intro x. rewrite S2, sort_unique_InQ, InQ_filter_range. tauto.
    - intros k Hk. rewrite H4. now apply sel_none.
  Qed.

  Theorem fb_innov_sound_sec : forall k m t, In (Innov k m t) tr ->
    t0 <= m /\ m < tend /\
    (exists s, nth_error sensors k = Some s /\ InQ m s) /\
    exists i, (i < n)%nat /\ t = tmf t0 incs i /\ t <= m /\ m < tmf t0 incs (S i).
  Proof.
    destruct fb_run_spec as (_ & _ & _ & _ & H5 & _).
    intros k m t H. apply H5 in H as (Hm & (s & Hs & Hst) & i & Hi & -> & Hrest).
    rewrite fb_due_clip in Hm. apply filter_In in Hm as [_ Hr]. apply in_range_true in Hr.
    split; [tauto|]. split; [tauto|]. split.
    - exists s. split; [assumption|]. now apply stamped_true.
    - exists i. split; [lia|]. tauto.
  Qed.

  Theorem fb_records_increasing_sec :
    sorted (record_times tr) /\
    (forall t, In t (record_times tr) -> In t (t0 :: incs) /\ t < tend) /\
    exists r, record_times tr = t0 :: r.
  Proof.
    destruct fb_run_spec as (_ & _ & _ & _ & _ & H6 & H7 & H8).
    split; [assumption|]. split.
    - intros t H. apply H7 in H as (i & Hi & ->). split.
      + unfold tmf. apply nth_In. cbn [length]. lia.
      + rewrite (last_tmf t0 incs Hne). apply (tm_lt t0 incs Hsorted); lia.
    - apply H8. destruct incs; [congruence|cbn; lia].
  Qed.

  Theorem fb_no_meas_single_pass_sec :
    (forall s x, In s sensors -> In x s -> ~ (t0 <= x /\ x < tend)) ->
    forall k m t, ~ In (Innov k m t) tr.
  Proof.
    intros Hnone k m t H. apply fb_innov_sound_sec in H as (H1 & H2 & (s & Hs & y & Hy & He) & _).
    apply (Hnone s y); [now apply nth_error_In with k|assumption|lra].
  Qed.
End FeedbackTop.

(* ---------- C09 theorems, closed statements ------------------------------- *)

(* termination for an arbitrary outcome of `time + time_step` (>= time) *)
Theorem fb_terminates_oracle : forall add_step t0 incs sensors fuel,
  (forall t, t <= add_step t) -> sorted (t0 :: incs) -> incs <> [] ->
  (length incs <= fuel)%nat ->
  completed (fb_run fuel add_step t0 incs sensors) = true.
Proof. intros. now apply fb_terminates_sec. Qed.

Theorem fb_imu_exactly_once_oracle : forall add_step t0 incs sensors fuel,
  (forall t, t <= add_step t) -> sorted (t0 :: incs) -> incs <> [] ->
  (length incs <= fuel)%nat ->
  let tr := fb_run fuel add_step t0 incs sensors in
  integrated tr = seq 0 (length incs) /\
  (forall a b, In (Integrate a b) tr -> (a < b)%nat /\ (b <= length incs)%nat) /\
  fb_trajectory_index t0 incs tr = t0 :: incs.
Proof. intros. now apply fb_imu_exactly_once_sec. Qed.

Theorem fb_meas_exactly_once_oracle : forall add_step t0 incs sensors fuel,
  (forall t, t <= add_step t) -> sorted (t0 :: incs) -> incs <> [] ->
  (length incs <= fuel)%nat ->
  let tr := fb_run fuel add_step t0 incs sensors in
  let tend := last incs t0 in
  (forall k s, nth_error sensors k = Some s ->
     sorted (innov_epochs k tr) /\
     (forall x, InQ x (innov_epochs k tr) <-> InQ x s /\ t0 <= x /\ x < tend) /\
     Forall2 Qeq (innov_epochs k tr) (sort_unique (filter (in_range t0 tend) s))) /\
  (forall k, nth_error sensors k = None -> innov_epochs k tr = []).
Proof. intros. now apply fb_meas_exactly_once_sec. Qed.

Theorem fb_innov_sound_oracle : forall add_step t0 incs sensors fuel,
  (forall t, t <= add_step t) -> sorted (t0 :: incs) -> incs <> [] ->
  (length incs <= fuel)%nat ->
  forall k m t, In (Innov k m t) (fb_run fuel add_step t0 incs sensors) ->
  t0 <= m /\ m < last incs t0 /\
  (exists s, nth_error sensors k = Some s /\ InQ m s) /\
  exists i, (i < length incs)%nat /\ t = tmf t0 incs i /\ t <= m /\ m < tmf t0 incs (S i).
Proof. intros until 4. now apply fb_innov_sound_sec. Qed.

Theorem fb_records_increasing_oracle : forall add_step t0 incs sensors fuel,
  (forall t, t <= add_step t) -> sorted (t0 :: incs) -> incs <> [] ->
  (length incs <= fuel)%nat ->
  let tr := fb_run fuel add_step t0 incs sensors in
  sorted (record_times tr) /\
  (forall t, In t (record_times tr) -> In t (t0 :: incs) /\ t < last incs t0) /\
  exists r, record_times tr = t0 :: r.
Proof. intros. now apply fb_records_increasing_sec. Qed.

Theorem fb_no_meas_single_pass_oracle : forall add_step t0 incs sensors fuel,
  (forall t, t <= add_step t) -> sorted (t0 :: incs) -> incs <> [] ->
  (length incs <= fuel)%nat ->
  (forall s x, In s sensors -> In x s -> ~ (t0 <= x /\ x < last incs t0)) ->
  forall k m t, ~ In (Innov k m t) (fb_run fuel add_step t0 incs sensors).
Proof. intros until 5. now apply fb_no_meas_single_pass_sec. Qed.

(* exact rational arithmetic: add_step t = t + time_step *)
Lemma exact_step : forall time_step, 0 <= time_step -> forall t, t <= t + time_step.
Proof. intros. lra. Qed.

Theorem fb_terminates : forall time_step t0 incs sensors fuel,
  0 <= time_step -> sorted (t0 :: incs) -> incs <> [] -> (length incs <= fuel)%nat ->
  completed (fb_run_exact fuel time_step t0 incs sensors) = true.
Proof. intros. apply fb_terminates_oracle; auto using exact_step. Qed.

Theorem fb_imu_exactly_once : forall time_step t0 incs sensors fuel,
  0 <= time_step -> sorted (t0 :: incs) -> incs <> [] -> (length incs <= fuel)%nat ->
  let tr := fb_run_exact fuel time_step t0 incs sensors in
  integrated tr = seq 0 (length incs) /\
  (forall a b, In (Integrate a b) tr -> (a < b)%nat /\ (b <= length incs)%nat) /\
  fb_trajectory_index t0 incs tr = t0 :: incs.
Proof. intros. apply fb_imu_exactly_once_oracle; auto using exact_step. Qed.

Theorem fb_meas_exactly_once : forall time_step t0 incs sensors fuel,
  0 <= time_step -> sorted (t0 :: incs) -> incs <> [] -> (length incs <= fuel)%nat ->
  let tr := fb_run_exact fuel time_step t0 incs sensors in
  let tend := last incs t0 in
  (forall k s, nth_error sensors k = Some s ->
     sorted (innov_epochs k tr) /\
     (forall x, InQ x (innov_epochs k tr) <-> InQ x s /\ t0 <= x /\ x < tend) /\
     Forall2 Qeq (innov_epochs k tr) (sort_unique (filter (in_range t0 tend) s))) /\
  (forall k, nth_error sensors k = None -> innov_epochs k tr = []).
Proof. intros. apply fb_meas_exactly_once_oracle; auto using exact_step. Qed.

Theorem fb_innov_sound : forall time_step t0 incs sensors fuel,
  0 <= time_step -> sorted (t0 :: incs) -> incs <> [] -> (length incs <= fuel)%nat ->
  forall k m t, In (Innov k m t) (fb_run_exact fuel time_step t0 incs sensors) ->
  t0 <= m /\ m < last incs t0 /\
  (exists s, nth_error sensors k = Some s /\ InQ m s) /\
  exists i, (i < length incs)%nat /\ t = tmf t0 incs i /\ t <= m /\ m < tmf t0 incs (S i).
Proof. intros until 4. apply fb_innov_sound_oracle; auto using exact_step. Qed.

Theorem fb_records_increasing : forall time_step t0 incs sensors fuel,
  0 <= time_step -> sorted (t0 :: incs) -> incs <> [] -> (length incs <= fuel)%nat ->
  let tr := fb_run_exact fuel time_step t0 incs sensors in
  sorted (record_times tr) /\
  (forall t, In t (record_times tr) -> In t (t0 :: incs) /\ t < last incs t0) /\
  exists r, record_times tr = t0 :: r.
Proof. intros. apply fb_records_increasing_oracle; auto using exact_step. Qed.

Theorem fb_no_meas_single_pass : forall time_step t0 incs sensors fuel,
  0 <= time_step -> sorted (t0 :: incs) -> incs <> [] -> (length incs <= fuel)%nat ->
  (forall s x, In s sensors -> In x s -> ~ (t0 <= x /\ x < last incs t0)) ->
  forall k m t, ~ In (Innov k m t) (fb_run_exact fuel time_step t0 incs sensors).
Proof. intros until 5. apply fb_no_meas_single_pass_oracle; auto using exact_step. Qed.

(* ========================================================================= *)
(*  Part D : the feedforward loop (C10)                                      *)
(* ========================================================================= *)

(* consecutive propagation steps: each one starts where the previous ended *)
Fixpoint chain (a : nat) (l : list (nat * nat)) (b : nat) : Prop :=
  match l with
  | [] => a = b
  | (i, j) :: r => i = a /\ chain j r b
  end.

Lemma epochs_rows_related : forall (R : Q -> Q -> Prop) k tr,
  (forall m t, In (Innov k m t) tr -> R m t) ->
  Forall2 R (innov_epochs k tr) (innov_rows k tr).
Proof.
  intros R k tr. induction tr as [|e tr IH]; intro H; [constructor|].
  unfold innov_epochs, innov_rows. cbn [flat_map].
  fold (innov_epochs k tr). fold (innov_rows k tr).
  assert (IH' : Forall2 R (innov_epochs k tr) (innov_rows k tr)).
  { apply IH. intros m t Hin. apply H. now right. }
  destruct e; try exact IH'.
  destruct (Nat.eqb_spec k sensor) as [->|Hne]; [|exact IH'].
  cbn [app]. constructor; [|exact IH']. apply H. now left.
Qed.

Section Feedforward.
  Variable add_step : Q -> Q.
  Variable times : list Q.
  Variable sensors : list (list Q).
  Hypothesis Hsorted : sorted times.

  Local Notation len := (length times).
  Local Notation tt := (fun i => nth i times 0).
  Local Notation due := (filter (fun m => Qltb m (nth (len - 1) times 0))).

  Lemma tt_lt : forall i j, (i < j)%nat -> (j < len)%nat -> nth i times 0 < nth j times 0.
  Proof. intros. now apply sorted_nth_lt. Qed.

  Lemma tt_le : forall i j, (i <= j)%nat -> (j < len)%nat -> nth i times 0 <= nth j times 0.
  Proof. intros. now apply sorted_nth_le. Qed.

  (* the row cursor always advances by at least one row, stays inside the
     table, never passes the next pending measurement epoch and never passes
     `time + time_step` unless it advances by exactly one row *)
  Lemma ff_step : forall index p',
    (index + 1 < len)%nat ->
    match p' with [] => True | m :: _ => nth (index + 1) times 0 <= m end ->
    let next_time := min_inf (add_step (nth index times 0)) (head_inf p') in
    let next_index := Nat.max (searchsorted_right times next_time - 1) (index + 1) in
    (index < next_index < len)%nat /\
    match p' with [] => True | m :: _ => nth next_index times 0 <= m end /\
    (next_index = (index + 1)%nat \/ nth next_index times 0 <= add_step (nth index times 0)).
  Proof.
    intros index p' Hidx Hp next_time next_index.
    assert (Hup : next_time <= add_step (nth index times 0)).
    { subst next_time. destruct p' as [|m p]; cbn [min_inf head_inf]; [lra|].
      destruct (Qltb m (add_step (nth index times 0))) eqn:E;
        [apply Qltb_true in E|]; lra. }
    assert (Hupm : match p' with [] => True | m :: _ => next_time <= m end).
    { subst next_time. destruct p' as [|m p]; cbn [min_inf head_inf]; [exact I|].
      destruct (Qltb m (add_step (nth index times 0))) eqn:E; [lra|].
      now apply Qltb_false in E. }
    pose proof (ss_le_len times next_time) as Hlen.
    subst next_index.
    destruct (Nat.max_spec (searchsorted_right times next_time - 1) (index + 1))
      as [[Hlt ->]|[Hge ->]].
    - split; [lia|]. split; [exact Hp|now left].
    - assert (Hpre : nth (searchsorted_right times next_time - 1) times 0 <= next_time).
      { apply ss_prefix. lia. }
      split; [lia|]. split; [|right; lra].
      destruct p' as [|m p]; [exact I|]. lra.
  Qed.

  Lemma ff_loop_done : forall fuel index pending, ~ (index + 1 < len)%nat ->
    ff_loop fuel add_step times sensors index pending = [].
  Proof.
    intros fuel index pending H.
    assert (E : Nat.ltb (index + 1) len = false) by (apply Nat.ltb_ge; lia).
    destruct fuel; cbn [ff_loop]; now rewrite E.
  Qed.

  Lemma ff_loop_step : forall fuel index pending, (index + 1 < len)%nat ->
    ff_loop (S fuel) add_step times sensors index pending =
    let (ev, pending') :=
      inner sensors (nth index times 0) (nth (index + 1) times 0) pending in
    let next_time := min_inf (add_step (nth index times 0)) (head_inf pending') in
    let next_index := Nat.max (searchsorted_right times next_time - 1) (index + 1) in
    match nth_error times next_index with
    | None => ev ++ [Record (nth index times 0); Crash]
    | Some _ =>
        ev ++ Record (nth index times 0) :: Propagate index next_index
           :: ff_loop fuel add_step times sensors next_index pending'
    end.
  Proof.
    intros fuel index pending H. cbn [ff_loop].
    assert (E : Nat.ltb (index + 1) len = true) by (apply Nat.ltb_lt; lia).
    rewrite E.
    rewrite (nth_error_nth' times 0 (n:=index)) by lia.
    rewrite (nth_error_nth' times 0 (n:=(index + 1)%nat)) by lia.
    reflexivity.
  Qed.

  Definition ff_spec (index : nat) (pending : list Q) (tr : list event) : Prop :=
    completed tr = true /\
    (forall k, innov_epochs k tr = flat_map (sel sensors k) (due pending)) /\
    (forall k m t, In (Innov k m t) tr ->
       In m (due pending) /\
       (exists s, nth_error sensors k = Some s /\ stamped m s = true) /\
       exists i, (index <= i)%nat /\ (i + 1 < len)%nat /\ t = nth i times 0 /\
                 nth i times 0 <= m /\ m < nth (i + 1) times 0) /\
    sorted (record_times tr) /\
    (forall t, In t (record_times tr) ->
       exists i, (index <= i)%nat /\ (i + 1 < len)%nat /\ t = nth i times 0) /\
    ((index + 1 < len)%nat -> exists r, record_times tr = nth index times 0 :: r) /\
    (forall i j, In (i, j) (propagations tr) ->
       (index <= i < j)%nat /\ (j < len)%nat /\
       (j = (i + 1)%nat \/ nth j times 0 <= add_step (nth i times 0))) /\
    chain index (propagations tr) (len - 1) /\
    record_times tr = map (fun p => nth (fst p) times 0) (propagations tr).

  Lemma ff_loop_spec : forall fuel index pending,
    (len - 1 - index <= fuel)%nat -> (index < len)%nat ->
    sorted pending -> Forall (fun m => nth index times 0 <= m) pending ->
    ff_spec index pending (ff_loop fuel add_step times sensors index pending).
  Proof.
    assert (Base : forall fuel index pending, (index < len)%nat -> ~ (index + 1 < len)%nat ->
              Forall (fun m => nth index times 0 <= m) pending ->
              ff_spec index pending (ff_loop fuel add_step times sensors index pending)).
    { intros fuel index pending Hidx Hdone Hlow. rewrite ff_loop_done by assumption.
      assert (index = len - 1)%nat as -> by lia.
      assert (Hdue : due pending = []).
      { apply filter_all_false. intros x Hx. rewrite Forall_forall in Hlow.
        apply Qltb_false. auto. }
      unfold ff_spec. rewrite Hdue.
      split; [|split; [|split; [|split; [|split; [|split; [|split; [|split]]]]]]];
        try reflexivity; try (intros; contradiction); try (intros; lia).
      constructor. }
    induction fuel as [|fuel IH]; intros index pending Hfuel Hidx Hsp Hlow.
    - apply Base; [assumption|lia|assumption].
    - destruct (Nat.lt_ge_cases (index + 1) len) as [Hlt|Hge];
        [|apply Base; [assumption|lia|assumption]].
      rewrite (ff_loop_step fuel index pending Hlt).
      destruct (inner sensors (nth index times 0) (nth (index + 1) times 0) pending)
        as [ev p'] eqn:Einner.
      apply inner_spec in Einner as (pre & Hsplit & Hev & Hpre & Hhead).
      destruct (ff_step index p' Hlt Hhead) as (Hn' & Hhead' & Hbound).
      cbv zeta.
      set (nidx := Nat.max (searchsorted_right times
                      (min_inf (add_step (nth index times 0)) (head_inf p')) - 1)
                      (index + 1)) in *.
      rewrite (nth_error_nth' times 0 (n:=nidx)) by lia.
      assert (Hsp' : sorted p') by (subst pending; now apply sorted_app_r in Hsp).
      assert (Hlow' : Forall (fun m => nth nidx times 0 <= m) p').
      { destruct p' as [|m p]; [constructor|]. now apply sorted_head_le. }
      specialize (IH nidx p' ltac:(lia) ltac:(lia) Hsp' Hlow').
      set (tr' := ff_loop fuel add_step times sensors nidx p') in *.
      destruct IH as (I1 & I2 & I3 & I4 & I5 & I6 & I7 & I8 & I9).
      pose proof (events_all_innov sensors (nth index times 0) pre) as Hall.
      rewrite <- Hev in Hall.
      assert (Hdue : due pending = pre ++ due p').
      { subst pending. apply (filter_lt_split pre p' (nth (index + 1) times 0));
          [assumption|]. apply tt_le; lia. }
      unfold ff_spec.
      change (ev ++ Record (nth index times 0) :: Propagate index nidx :: tr')
        with (ev ++ [Record (nth index times 0); Propagate index nidx] ++ tr').
      split; [|split; [|split; [|split; [|split; [|split; [|split; [|split]]]]]]].
      + rewrite !completed_app, I1, (all_innov_completed ev Hall). reflexivity.
      + intro k. rewrite !innov_epochs_app, I2, Hdue, flat_map_app. f_equal.
        subst ev. apply events_epochs.
      + intros k m t H. apply in_app_or in H as [H|H].
        * subst ev. apply events_In in H as (Hm & -> & Hs).
          split; [rewrite Hdue; apply in_or_app; now left|].
          split; [assumption|].
          exists index. split; [lia|]. split; [lia|]. split; [reflexivity|].
          rewrite Forall_forall in Hlow, Hpre. split.
          -- apply Hlow. subst pending. apply in_or_app. now left.
          -- now apply Hpre.
        * apply in_app_or in H as [H|H]; [destruct H as [H|[H|[]]]; discriminate H|].
          apply I3 in H as (Hm & Hs & i & Hi & Hrest).
          split; [rewrite Hdue; apply in_or_app; now right|].
          split; [assumption|].
          exists i. split; [lia|assumption].
      + rewrite !record_times_app, (all_innov_records ev Hall).
        cbn [record_times flat_map app].
        apply sorted_cons_iff. split; [assumption|].
        apply Forall_forall. intros x Hx. apply I5 in Hx as (i & Hi & Hi' & ->).
        apply tt_lt; lia.
      + intros t H. rewrite !record_times_app, (all_innov_records ev Hall) in H.
        cbn [record_times flat_map app] in H. destruct H as [<-|H].
        * exists index. split; [lia|]. split; [lia|reflexivity].
        * apply I5 in H as (i & Hi & Hi' & ->). exists i. split; [lia|]. now split.
      + intros _. rewrite !record_times_app, (all_innov_records ev Hall).
        cbn [record_times flat_map app]. eexists. reflexivity.
      + intros i j H. rewrite !propagations_app, (all_innov_propagations ev Hall) in H.
        cbn [propagations flat_map app] in H. destruct H as [H|H].
        * inversion H; subst i j. split; [lia|]. split; [lia|exact Hbound].
        * apply I7 in H as (H1 & H2 & H3). split; [lia|]. now split.
      + rewrite !propagations_app, (all_innov_propagations ev Hall).
        cbn [propagations flat_map app chain]. now split.
      + rewrite !record_times_app, !propagations_app, (all_innov_records ev Hall),
          (all_innov_propagations ev Hall).
        cbn [record_times propagations flat_map app map fst]. now rewrite I9.
  Qed.
End Feedforward.

(* ---------- feedforward: whole function ----------------------------------- *)

Section FeedforwardTop.
  Variable add_step : Q -> Q.
  Variable times : list Q.
  Variable sensors : list (list Q).
  Variable fuel : nat.
  Hypothesis Hsorted : sorted times.
  Hypothesis Hlen : (2 <= length times)%nat.
  Hypothesis Hfuel : (length times - 1 <= fuel)%nat.

  Local Notation len := (length times).
  Local Notation tstart := (nth 0 times 0).
  Local Notation tend := (nth (len - 1) times 0).
  Local Notation tr := (ff_run fuel add_step times sensors).

  Lemma ff_run_spec :
    ff_spec add_step times sensors 0 (clip tstart tend (merge_times sensors)) tr.
  Proof.
    unfold ff_run. destruct times as [|a l] eqn:E; [cbn in Hlen; lia|]. rewrite <- E in *.
    assert (Hl : last times a = tend).
    { apply last_nth_len. rewrite E. discriminate. }
    rewrite Hl. replace a with tstart by (rewrite E; reflexivity).
    apply ff_loop_spec; try assumption; try lia.
    - apply clip_sorted, merge_times_sorted.
    - apply Forall_forall. intros m Hm. apply clip_In in Hm. tauto.
  Qed.

  Lemma ff_due_clip :
    filter (fun m => Qltb m tend) (clip tstart tend (merge_times sensors)) =
    filter (in_range tstart tend) (merge_times sensors).
  Proof. apply filter_lt_clip. Qed.

  Theorem ff_terminates_sec : completed tr = true.
  Proof. apply ff_run_spec. Qed.

  Theorem ff_records_sec :
    sorted (record_times tr) /\
    (forall t, In t (record_times tr) -> In t times /\ t < tend) /\
    (exists r, record_times tr = tstart :: r) /\
    record_times tr = map (fun p => nth (fst p) times 0) (propagations tr).
  Proof.
    destruct ff_run_spec as (_ & _ & _ & H4 & H5 & H6 & _ & _ & H9).
    split; [assumption|]. split; [|split; [apply H6; lia|assumption]].
    intros t H. apply H5 in H as (i & _ & Hi & ->). split.
    - apply nth_In. lia.
    - apply (tt_lt times Hsorted); lia.
  Qed.

  Theorem ff_positive_propagate_sec :
    (forall i j, In (i, j) (propagations tr) -> (i < j)%nat /\ (j < len)%nat /\
                                               nth i times 0 < nth j times 0) /\
    chain 0 (propagations tr) (len - 1).
  Proof.
    destruct ff_run_spec as (_ & _ & _ & _ & _ & _ & H7 & H8 & _).
    split; [|assumption].
    intros i j H. apply H7 in H as (H1 & H2 & _). split; [lia|]. split; [lia|].
    apply (tt_lt times Hsorted); lia.
  Qed.

  Theorem ff_step_bound_sec : forall i j, In (i, j) (propagations tr) ->
    j = (i + 1)%nat \/ nth j times 0 <= add_step (nth i times 0).
  Proof.
    destruct ff_run_spec as (_ & _ & _ & _ & _ & _ & H7 & _).
    intros i j H. now apply H7 in H.
  Qed.

  Theorem ff_meas_exactly_once_sec :
    (forall k s, nth_error sensors k = Some s ->
       sorted (innov_epochs k tr) /\
       (forall x, InQ x (innov_epochs k tr) <-> InQ x s /\ tstart <= x /\ x < tend) /\
       Forall2 Qeq (innov_epochs k tr) (sort_unique (filter (in_range tstart tend) s)) /\
       Forall2 (fun m t => exists i, (i + 1 < len)%nat /\ t = nth i times 0 /\
                                     t <= m /\ m < nth (i + 1) times 0)
               (innov_epochs k tr) (innov_rows k tr)) /\
    (forall k, nth_error sensors k = None -> innov_epochs k tr = []).
  Proof.
    destruct ff_run_spec as (_ & H2 & H3 & _).
    split.
    - intros k s Hk. rewrite H2, ff_due_clip.
      destruct (sensor_epochs_spec sensors k s tstart tend Hk) as [S1 S2].
      split; [assumption|]. split; [assumption|]. split.
      + apply sorted_same_elements; [assumption|apply sort_unique_sorted|].
        intro x. rewrite S2, sort_unique_InQ, InQ_filter_range. tauto.
      + rewrite <- ff_due_clip, <- H2. apply epochs_rows_related.
        intros m t H. apply H3 in H as (_ & _ & i & _ & Hi & -> & Hrest).
        exists i. tauto.
    - intros k Hk. rewrite H2. now apply sel_none.
  Qed.

  Theorem ff_innov_sound_sec : forall k m t, In (Innov k m t) tr ->
    tstart <= m /\ m < tend /\
    (exists s, nth_error sensors k = Some s /\ InQ m s) /\
    exists i, (i + 1 < len)%nat /\ t = nth i times 0 /\ t <= m /\ m < nth (i + 1) times 0.
  Proof.
    destruct ff_run_spec as (_ & _ & H3 & _).
    intros k m t H. apply H3 in H as (Hm & (s & Hs & Hst) & i & _ & Hi & -> & Hrest).
    rewrite ff_due_clip in Hm. apply filter_In in Hm as [_ Hr]. apply in_range_true in Hr.
    split; [tauto|]. split; [tauto|]. split.
    - exists s. split; [assumption|]. now apply stamped_true.
    - exists i. tauto.
  Qed.
End FeedforwardTop.

(* ---------- C10 theorems, closed statements ------------------------------- *)

Theorem ff_terminates_oracle : forall add_step times sensors fuel,
  sorted times -> (2 <= length times)%nat ->
  (length times - 1 <= fuel)%nat ->
  completed (ff_run fuel add_step times sensors) = true.
Proof. intros. now apply ff_terminates_sec. Qed.

Theorem ff_records_oracle : forall add_step times sensors fuel,
  sorted times -> (2 <= length times)%nat ->
  (length times - 1 <= fuel)%nat ->
  let tr := ff_run fuel add_step times sensors in
  sorted (record_times tr) /\
  (forall t, In t (record_times tr) -> In t times /\ t < nth (length times - 1) times 0) /\
  (exists r, record_times tr = nth 0 times 0 :: r) /\
  record_times tr = map (fun p => nth (fst p) times 0) (propagations tr).
Proof. intros. now apply ff_records_sec. Qed.

Theorem ff_positive_propagate_oracle : forall add_step times sensors fuel,
  sorted times -> (2 <= length times)%nat ->
  (length times - 1 <= fuel)%nat ->
  let tr := ff_run fuel add_step times sensors in
  (forall i j, In (i, j) (propagations tr) ->
     (i < j)%nat /\ (j < length times)%nat /\ nth i times 0 < nth j times 0) /\
  chain 0 (propagations tr) (length times - 1).
Proof. intros. now apply ff_positive_propagate_sec. Qed.

Theorem ff_step_bound_oracle : forall add_step times sensors fuel,
  sorted times -> (2 <= length times)%nat ->
  (length times - 1 <= fuel)%nat ->
  forall i j, In (i, j) (propagations (ff_run fuel add_step times sensors)) ->
  j = (i + 1)%nat \/ nth j times 0 <= add_step (nth i times 0).
Proof. intros until 3. now apply ff_step_bound_sec. Qed.

Theorem ff_meas_exactly_once_oracle : forall add_step times sensors fuel,
  sorted times -> (2 <= length times)%nat ->
  (length times - 1 <= fuel)%nat ->
  let tr := ff_run fuel add_step times sensors in
  let tstart := nth 0 times 0 in
  let tend := nth (length times - 1) times 0 in
  (forall k s, nth_error sensors k = Some s ->
     sorted (innov_epochs k tr) /\
     (forall x, InQ x (innov_epochs k tr) <-> InQ x s /\ tstart <= x /\ x < tend) /\
     Forall2 Qeq (innov_epochs k tr) (sort_unique (filter (in_range tstart tend) s)) /\
     Forall2 (fun m t => exists i, (i + 1 < length times)%nat /\ t = nth i times 0 /\
                                   t <= m /\ m < nth (i + 1) times 0)
             (innov_epochs k tr) (innov_rows k tr)) /\
  (forall k, nth_error sensors k = None -> innov_epochs k tr = []).
Proof. intros. now apply ff_meas_exactly_once_sec. Qed.

Theorem ff_innov_sound_oracle : forall add_step times sensors fuel,
  sorted times -> (2 <= length times)%nat ->
  (length times - 1 <= fuel)%nat ->
  forall k m t, In (Innov k m t) (ff_run fuel add_step times sensors) ->
  nth 0 times 0 <= m /\ m < nth (length times - 1) times 0 /\
  (exists s, nth_error sensors k = Some s /\ InQ m s) /\
  exists i, (i + 1 < length times)%nat /\ t = nth i times 0 /\ t <= m /\
            m < nth (i + 1) times 0.
Proof. intros until 3. now apply ff_innov_sound_sec. Qed.

(* exact rational arithmetic *)
Theorem ff_terminates : forall time_step times sensors fuel,
  sorted times -> (2 <= length times)%nat ->
  (length times - 1 <= fuel)%nat ->
  completed (ff_run_exact fuel time_step times sensors) = true.
Proof. intros. apply ff_terminates_oracle; auto. Qed.

Theorem ff_records : forall time_step times sensors fuel,
  sorted times -> (2 <= length times)%nat ->
  (length times - 1 <= fuel)%nat ->
  let tr := ff_run_exact fuel time_step times sensors in
  sorted (record_times tr) /\
  (forall t, In t (record_times tr) -> In t times /\ t < nth (length times - 1) times 0) /\
  (exists r, record_times tr = nth 0 times 0 :: r) /\
  record_times tr = map (fun p => nth (fst p) times 0) (propagations tr).
Proof. intros. apply ff_records_oracle; auto. Qed.

Theorem ff_positive_propagate : forall time_step times sensors fuel,
  sorted times -> (2 <= length times)%nat ->
  (length times - 1 <= fuel)%nat ->
  let tr := ff_run_exact fuel time_step times sensors in
  (forall i j, In (i, j) (propagations tr) ->
     (i < j)%nat /\ (j < length times)%nat /\ nth i times 0 < nth j times 0) /\
  chain 0 (propagations tr) (length times - 1).
Proof. intros. apply ff_positive_propagate_oracle; auto. Qed.

Theorem ff_step_bound : forall time_step times sensors fuel,
  sorted times -> (2 <= length times)%nat ->
  (length times - 1 <= fuel)%nat ->
  forall i j, In (i, j) (propagations (ff_run_exact fuel time_step times sensors)) ->
  nth j times 0 - nth i times 0 <=
  Qmax time_step (nth (i + 1) times 0 - nth i times 0).
Proof.
  intros time_step times sensors fuel Hsorted Hlen Hfuel i j H.
  apply ff_step_bound_oracle in H; auto.
  destruct H as [->|H].
  - apply Q.le_max_r.
  - eapply Qle_trans; [|apply Q.le_max_l]. lra.
Qed.

Theorem ff_meas_exactly_once : forall time_step times sensors fuel,
  sorted times -> (2 <= length times)%nat ->
  (length times - 1 <= fuel)%nat ->
  let tr := ff_run_exact fuel time_step times sensors in
  let tstart := nth 0 times 0 in
  let tend := nth (length times - 1) times 0 in
  (forall k s, nth_error sensors k = Some s ->
     sorted (innov_epochs k tr) /\
     (forall x, InQ x (innov_epochs k tr) <-> InQ x s /\ tstart <= x /\ x < tend) /\
     Forall2 Qeq (innov_epochs k tr) (sort_unique (filter (in_range tstart tend) s)) /\
     Forall2 (fun m t => exists i, (i + 1 < length times)%nat /\ t = nth i times 0 /\
                                   t <= m /\ m < nth (i + 1) times 0)
             (innov_epochs k tr) (innov_rows k tr)) /\
  (forall k, nth_error sensors k = None -> innov_epochs k tr = []).
Proof. intros. apply ff_meas_exactly_once_oracle; auto. Qed.

Theorem ff_innov_sound : forall time_step times sensors fuel,
  sorted times -> (2 <= length times)%nat ->
  (length times - 1 <= fuel)%nat ->
  forall k m t, In (Innov k m t) (ff_run_exact fuel time_step times sensors) ->
  nth 0 times 0 <= m /\ m < nth (length times - 1) times 0 /\
  (exists s, nth_error sensors k = Some s /\ InQ m s) /\
  exists i, (i + 1 < length times)%nat /\ t = nth i times 0 /\ t <= m /\
            m < nth (i + 1) times 0.
Proof. intros until 3. apply ff_innov_sound_oracle; auto. Qed.

(* ---------- the step bound read off the result tables ---------------------- *)

(* `adjacent P l e`: P holds of every element of l and its successor, the
   successor of the last element being e *)
Fixpoint adjacent (P : Q -> Q -> Prop) (l : list Q) (e : Q) : Prop :=
  match l with
  | [] => True
  | a :: r => P a (hd e r) /\ adjacent P r e
  end.

Lemma chain_adjacent : forall (f : nat -> Q) (P : nat -> nat -> Prop) l a b,
  chain a l b -> (forall i j, In (i, j) l -> P i j) ->
  adjacent (fun x y => exists i j, x = f i /\ y = f j /\ P i j)
           (map (fun p => f (fst p)) l) (f b).
Proof.
  intros f P l. induction l as [|[i j] r IH]; intros a b Hc HP; [exact I|].
  cbn [chain] in Hc. destruct Hc as [-> Hc].
  cbn [map fst adjacent]. split.
  - exists a, j. split; [reflexivity|]. split; [|apply HP; now left].
    destruct r as [|[i' j'] r']; cbn [map hd fst].
    + cbn [chain] in Hc. now subst.
    + cbn [chain] in Hc. destruct Hc as [-> _]. reflexivity.
  - apply (IH j b Hc). intros i' j' H. apply HP. now right.
Qed.

(* every row of the result tables and the next row (for the last row: the end
   of the data) are one propagation step apart *)
Theorem ff_table_step_bound_oracle : forall add_step times sensors fuel,
  sorted times -> (2 <= length times)%nat ->
  (length times - 1 <= fuel)%nat ->
  adjacent (fun a b => exists i, (i + 1 < length times)%nat /\ a = nth i times 0 /\ a < b /\
                                 (b = nth (i + 1) times 0 \/ b <= add_step a))
           (record_times (ff_run fuel add_step times sensors))
           (nth (length times - 1) times 0).
Proof.
  intros add_step times sensors fuel Hsorted Hlen Hfuel.
  destruct (ff_records_oracle add_step times sensors fuel Hsorted Hlen Hfuel)
    as (_ & _ & _ & Hrec).
  destruct (ff_positive_propagate_oracle add_step times sensors fuel Hsorted Hlen Hfuel)
    as (Hpos & Hchain).
  pose proof (ff_step_bound_oracle add_step times sensors fuel Hsorted Hlen Hfuel) as Hb.
  cbv zeta in Hrec, Hpos, Hchain. rewrite Hrec.
  pose proof (chain_adjacent (fun i => nth i times 0)
    (fun i j => (i < j)%nat /\ (j < length times)%nat /\
                nth i times 0 < nth j times 0 /\
                (j = (i + 1)%nat \/ nth j times 0 <= add_step (nth i times 0)))
    _ _ _ Hchain) as Hadj.
  assert (HP : forall i j, In (i, j) (propagations (ff_run fuel add_step times sensors)) ->
             (i < j)%nat /\ (j < length times)%nat /\ nth i times 0 < nth j times 0 /\
             (j = (i + 1)%nat \/ nth j times 0 <= add_step (nth i times 0))).
  { intros i j H. destruct (Hpos i j H) as (H1 & H2 & H3). specialize (Hb i j H). tauto. }
  specialize (Hadj HP). clear - Hadj.
  induction (propagations (ff_run fuel add_step times sensors)) as [|p r IH]; [exact I|].
  cbn [map adjacent] in *. destruct Hadj as [H1 H2]. split; [|now apply IH].
  destruct H1 as (i & j & Ha & Hbj & Hij & Hj & Hlt & Hor).
  exists i. split; [lia|]. split; [assumption|]. rewrite Hbj, Ha. split; [assumption|].
  destruct Hor as [->|Hor]; [now left|now right].
Qed.

Theorem ff_table_step_bound : forall time_step times sensors fuel,
  sorted times -> (2 <= length times)%nat ->
  (length times - 1 <= fuel)%nat ->
  adjacent (fun a b => exists i, (i + 1 < length times)%nat /\ a = nth i times 0 /\ a < b /\
                                 b - a <= Qmax time_step (nth (i + 1) times 0 - nth i times 0))
           (record_times (ff_run_exact fuel time_step times sensors))
           (nth (length times - 1) times 0).
Proof.
  intros time_step times sensors fuel Hsorted Hlen Hfuel.
  pose proof (ff_table_step_bound_oracle (fun t => t + time_step) times sensors fuel
                Hsorted Hlen Hfuel) as H.
  unfold ff_run_exact.
  induction (record_times (ff_run fuel (fun t => t + time_step) times sensors)) as [|a r IH];
    [exact I|].
  cbn [adjacent] in *. destruct H as [H1 H2]. split; [|now apply IH].
  destruct H1 as (i & Hi & Ha & Hlt & Hor). exists i. split; [assumption|].
  split; [assumption|]. split; [assumption|].
  destruct Hor as [Hb|Hb].
  - rewrite Hb, Ha. apply Q.le_max_r.
  - eapply Qle_trans; [|apply Q.le_max_l]. lra.
Qed.

(* ========================================================================= *)
(*  The guards are necessary: the same loops without them are refuted         *)
(* ========================================================================= *)

(* feedforward without `max(., index + 1)`  (the loop before commit 7949717):
   time_step smaller than the sampling gap and no pending measurement *)
Fixpoint ff_loop_noguard (fuel : nat) (add_step : Q -> Q) (times : list Q)
         (sensors : list (list Q)) (index : nat) (pending : list Q) : list event :=
  if Nat.ltb (index + 1) (length times) then
    match fuel with
    | O => [OutOfFuel]
    | S fuel' =>
        match nth_error times index, nth_error times (index + 1) with
        | Some time, Some bound =>
            let (ev, pending') := inner sensors time bound pending in
            let next_time := min_inf (add_step time) (head_inf pending') in
            let next_index := (searchsorted_right times next_time - 1)%nat in
            ev ++ Record time :: Propagate index next_index
               :: ff_loop_noguard fuel' add_step times sensors next_index pending'
        | _, _ => [Crash]
        end
    end
  else [].

Lemma ff_noguard_refuted : exists times step,
  sorted times /\ 0 < step /\
  forall fuel, completed (ff_loop_noguard fuel (fun t => t + step) times [] 0 []) = false.
Proof.
  exists [0; 1#8], (1#16). split; [|split; [reflexivity|]].
  - repeat constructor.
  - induction fuel as [|fuel IH]; [reflexivity|].
    cbn [ff_loop_noguard]. exact IH.
Qed.

(* feedback with a single `if measurement_time < increment.name` instead of the
   inner `while` (the loop before commit 93d9afe): one epoch per iteration *)
Fixpoint fb_loop_pinned (fuel : nat) (add_step : Q -> Q) (incs : list Q)
         (sensors : list (list Q)) (end_time : Q)
         (itime : Q) (idx : nat) (pending : list Q) : list event :=
  if Qltb itime end_time then
    match fuel with
    | O => [OutOfFuel]
    | S fuel' =>
        match nth_error incs idx with
        | None => [Crash]
        | Some bound =>
            let (ev, pending') :=
              match pending with
              | m :: rest => if Qltb m bound then (epoch_events sensors m itime, rest)
                             else ([], pending)
              | [] => ([], [])
              end in
            let next_time := min_inf (add_step itime) (head_inf pending') in
            let nidx := searchsorted_right incs next_time in
            let nidx' := if Nat.eqb nidx idx then S nidx else nidx in
            let itime' := last (batch incs idx nidx') itime in
            ev ++ Record itime :: Integrate idx nidx'
               :: fb_loop_pinned fuel' add_step incs sensors end_time itime' nidx' pending'
        end
    end
  else [].

Definition fb_run_pinned (fuel : nat) (step t0 : Q) (incs : list Q)
           (sensors : list (list Q)) : list event :=
  fb_loop_pinned fuel (fun t => t + step) incs sensors (last incs t0) t0 0
                 (clip t0 (last incs t0) (merge_times sensors)).

(* (a) three sensors stamped at three distinct times inside one IMU interval:
   the `== -> += 1` guard is not enough, a batch is empty (iloc[1:0]), the cursor
   moves back and increment 0 is integrated twice *)
Lemma fb_pinned_refuted_cluster : exists t0 incs sensors step,
  sorted (t0 :: incs) /\ 0 < step /\
  let tr := fb_run_pinned 10 step t0 incs sensors in
  completed tr = true /\ In (Integrate 1 0) tr /\
  integrated tr = [0; 0; 1; 2]%nat.
Proof.
  exists 1, [9#8; 10#8; 11#8], [[129#128]; [130#128]; [131#128]], (1#8).
  split; [repeat constructor|]. split; [reflexivity|].
  vm_compute. repeat split. right; right; right; right; right; now left.
Qed.

(* (b) two epochs inside the last IMU interval: the second one is in
   [start, end) and produces no innovation row *)
Lemma fb_pinned_refuted_last_interval : exists t0 incs sensors step,
  sorted (t0 :: incs) /\ 0 < step /\
  let tr := fb_run_pinned 10 step t0 incs sensors in
  completed tr = true /\ innov_epochs 0 tr = [149#128] /\ innov_epochs 1 tr = [].
Proof.
  exists 1, [9#8; 10#8], [[149#128]; [153#128]], (1#8).
  split; [repeat constructor|]. split; [reflexivity|].
  vm_compute. repeat split.
Qed.

(* the hypothesis `t <= add_step t` of the feedback theorems is necessary: with
   a negative step the guard fails in the same way *)
Lemma fb_negative_step_refuted : exists t0 incs,
  sorted (t0 :: incs) /\
  integrated (fb_run 4 (fun t => t - 1) t0 incs []) <> seq 0 (length incs).
Proof.
  exists 0, [1; 2; 3]. split; [repeat constructor|].
  vm_compute. discriminate.
Qed.
