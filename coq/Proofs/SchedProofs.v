(* ------------------------------------------------------------------------- *)
(*  C09 / C10 — proofs about the scheduling models of the two filter loops     *)
(*  (Model/FeedbackSched.v, Model/FeedforwardSched.v).                         *)
(*                                                                             *)
(*  Part A  order / list / sort / searchsorted lemmas                          *)
(*  Part B  the shared inner loop and the per-sensor projections               *)
(*  Part C  feedback loop   (C09):  fb_*_oracle  and the exact corollaries fb_* *)
(*  Part D  feedforward loop (C10): ff_*_oracle  and the exact corollaries ff_* *)
(*                                                                             *)
(*  `*_oracle` theorems: the float expression `time + time_step` is replaced   *)
(*  by an arbitrary function add_step with the only hypothesis                 *)
(*  `forall t, t <= add_step t`; since the integrator time strictly increases  *)
(*  from one iteration to the next this is a value chosen adversarially at     *)
(*  each iteration.  Theorems without the suffix are the instances             *)
(*  add_step t = t + time_step with 0 <= time_step (exact arithmetic).         *)
(* ------------------------------------------------------------------------- *)
From Coq Require Import List QArith Bool Arith Lia Lqa Sorted Qminmax ZifyBool.
From PV Require Import Model.FeedbackSched Model.FeedforwardSched.
Import ListNotations.
Open Scope Q_scope.

(* ========================================================================= *)
(*  Part A                                                                   *)
(* ========================================================================= *)

Lemma Qltb_true : forall x y, Qltb x y = true <-> x < y.
Proof.
  intros x y. unfold Qltb. rewrite negb_true_iff. split; intro H.
  - apply Qnot_le_lt. intro Hle. apply Qle_bool_iff in Hle. congruence.
  - destruct (Qle_bool y x) eqn:E; [|reflexivity].
    apply Qle_bool_iff in E. lra.
Qed.

Lemma Qltb_false : forall x y, Qltb x y = false <-> y <= x.
Proof.
  intros x y. unfold Qltb. rewrite negb_false_iff. apply Qle_bool_iff.
Qed.

Lemma Qle_bool_false : forall x y, Qle_bool x y = false <-> y < x.
Proof.
  intros x y. split; intro H.
  - apply Qnot_le_lt. intro Hle. apply Qle_bool_iff in Hle. congruence.
  - destruct (Qle_bool x y) eqn:E; [|reflexivity].
    apply Qle_bool_iff in E. lra.
Qed.

(* membership up to the equality of rationals *)
Definition InQ (x : Q) (l : list Q) : Prop := exists y, In y l /\ y == x.

Lemma InQ_nil : forall x, ~ InQ x [].
Proof. intros x [y [[] _]]. Qed.

Lemma InQ_cons : forall x a l, InQ x (a :: l) <-> a == x \/ InQ x l.
Proof.
  intros x a l. split.
  - intros [y [[->|Hin] He]]; [now left|right; now exists y].
  - intros [He|[y [Hin He]]]; [exists a|exists y]; split; auto; now (left + right).
Qed.

Lemma InQ_app : forall x l1 l2, InQ x (l1 ++ l2) <-> InQ x l1 \/ InQ x l2.
Proof.
  intros x l1 l2. split.
  - intros [y [Hin He]]. apply in_app_or in Hin as [H|H]; [left|right]; now exists y.
  - intros [[y [Hin He]]|[y [Hin He]]]; exists y; split; auto; apply in_or_app; auto.
Qed.

Lemma In_InQ : forall x l, In x l -> InQ x l.
Proof. intros x l H. exists x. split; [assumption|reflexivity]. Qed.

Lemma InQ_eq : forall x y l, x == y -> InQ x l -> InQ y l.
Proof. intros x y l He [z [Hin Hz]]. exists z. split; [assumption|lra]. Qed.

Lemma stamped_true : forall m s, stamped m s = true <-> InQ m s.
Proof.
  intros m s. unfold stamped. rewrite existsb_exists. split.
  - intros [y [Hin He]]. apply Qeq_bool_iff in He. exists y. split; [assumption|lra].
  - intros [y [Hin He]]. exists y. split; [assumption|]. apply Qeq_bool_iff. lra.
Qed.

Lemma stamped_eq : forall x y s, x == y -> stamped x s = stamped y s.
Proof.
  intros x y s He.
  destruct (stamped x s) eqn:Ex, (stamped y s) eqn:Ey; try reflexivity.
  - apply stamped_true in Ex. apply (InQ_eq _ _ _ He), stamped_true in Ex. congruence.
  - apply stamped_true in Ey. assert (Hs : y == x) by lra.
    apply (InQ_eq _ _ _ Hs), stamped_true in Ey. congruence.
Qed.

(* ---------- strictly increasing lists ------------------------------------ *)

Notation sorted := (StronglySorted Qlt).

Lemma sorted_nil : sorted [].
Proof. constructor. Qed.

Lemma sorted_cons_iff : forall a l, sorted (a :: l) <-> sorted l /\ Forall (Qlt a) l.
Proof.
  intros a l. split.
  - apply StronglySorted_inv.
  - intros [H1 H2]. now constructor.
Qed.

Lemma sorted_app_r : forall l1 l2, sorted (l1 ++ l2) -> sorted l2.
Proof.
  induction l1 as [|a l1 IH]; intros l2 H; [assumption|].
  apply IH. now apply sorted_cons_iff in H.
Qed.

Lemma sorted_filter : forall f l, sorted l -> sorted (filter f l).
Proof.
  intros f l. induction l as [|a l IH]; intro H; cbn; [constructor|].
  apply sorted_cons_iff in H as [Hs Hf].
  destruct (f a).
  - apply sorted_cons_iff. split; [auto|].
    apply Forall_forall. intros x Hx. apply filter_In in Hx as [Hx _].
    rewrite Forall_forall in Hf. auto.
  - auto.
Qed.

Lemma sorted_nth_lt : forall l i j, sorted l ->
  (i < j)%nat -> (j < length l)%nat -> nth i l 0 < nth j l 0.
Proof.
  induction l as [|a l IH]; intros i j Hs Hij Hj; cbn in Hj; [lia|].
  apply sorted_cons_iff in Hs as [Hs Hf].
  destruct j as [|j]; [lia|]. destruct i as [|i]; cbn.
  - rewrite Forall_forall in Hf. apply Hf. apply nth_In. lia.
  - apply IH; [assumption|lia|lia].
Qed.

Lemma sorted_nth_le : forall l i j, sorted l ->
  (i <= j)%nat -> (j < length l)%nat -> nth i l 0 <= nth j l 0.
Proof.
  intros l i j Hs Hij Hj. destruct (Nat.eq_dec i j) as [->|Hne]; [lra|].
  apply Qlt_le_weak. apply sorted_nth_lt; [assumption|lia|lia].
Qed.

Lemma sorted_head_le : forall x m p, sorted (m :: p) -> x <= m -> Forall (fun y => x <= y) (m :: p).
Proof.
  intros x m p Hs Hx. apply sorted_cons_iff in Hs as [_ Hf].
  constructor; [assumption|]. rewrite Forall_forall in *. intros y Hy.
  specialize (Hf y Hy). lra.
Qed.

Lemma last_nth_len : forall (l : list Q) d, l <> [] -> last l d = nth (length l - 1) l 0.
Proof.
  induction l as [|a l IH]; intros d Hne; [congruence|].
  destruct l as [|b l]; [reflexivity|].
  change (last (a :: b :: l) d) with (last (b :: l) d).
  rewrite IH by discriminate. cbn [length].
  replace (S (S (length l)) - 1)%nat with (S (S (length l) - 1))%nat by lia.
  reflexivity.
Qed.

(* ---------- filter helpers ----------------------------------------------- *)

Lemma filter_all_false : forall (f : Q -> bool) l,
  (forall x, In x l -> f x = false) -> filter f l = [].
Proof.
  intros f l. induction l as [|a l IH]; intro H; cbn; [reflexivity|].
  rewrite (H a) by now left. apply IH. intros x Hx. apply H. now right.
Qed.

Lemma filter_all_true : forall (f : Q -> bool) l,
  (forall x, In x l -> f x = true) -> filter f l = l.
Proof.
  intros f l. induction l as [|a l IH]; intro H; cbn; [reflexivity|].
  rewrite (H a) by now left. f_equal. apply IH. intros x Hx. apply H. now right.
Qed.

Lemma filter_filter : forall (f g : Q -> bool) l,
  filter f (filter g l) = filter (fun x => g x && f x) l.
Proof.
  intros f g l. induction l as [|a l IH]; cbn; [reflexivity|].
  destruct (g a); cbn; [destruct (f a)|]; now rewrite IH.
Qed.

Lemma flat_map_if_filter : forall (f : Q -> bool) l,
  flat_map (fun m => if f m then [m] else []) l = filter f l.
Proof.
  intros f l. induction l as [|a l IH]; cbn; [reflexivity|].
  rewrite IH. now destruct (f a).
Qed.

(* ---------- sort_unique / merge_times / clip ----------------------------- *)

Lemma insert_u_lower : forall a x l, a < x -> Forall (Qlt a) l -> Forall (Qlt a) (insert_u x l).
Proof.
  intros a x l Hax. induction l as [|y r IH]; intro Hf; cbn.
  - constructor; [assumption|constructor].
  - inversion Hf as [|? ? Hy Hr]; subst.
    destruct (Qltb x y); [constructor; assumption|].
    destruct (Qeq_bool x y); [assumption|].
    constructor; [assumption|auto].
Qed.

Lemma insert_u_sorted : forall x l, sorted l -> sorted (insert_u x l).
Proof.
  intros x l. induction l as [|y r IH]; intro Hs; cbn.
  - apply sorted_cons_iff. split; constructor.
  - pose proof Hs as Hs0. apply sorted_cons_iff in Hs as [Hr Hf].
    destruct (Qltb x y) eqn:E1.
    + apply Qltb_true in E1. apply sorted_cons_iff. split; [assumption|].
      constructor; [assumption|]. rewrite Forall_forall in *. intros z Hz.
      specialize (Hf z Hz). lra.
    + destruct (Qeq_bool x y) eqn:E2; [assumption|].
      apply Qltb_false in E1.
      assert (Hne : ~ x == y).
      { intro He. apply Qeq_bool_iff in He. congruence. }
      apply sorted_cons_iff. split; [auto|].
      apply insert_u_lower; [|assumption].
      destruct (Qlt_le_dec y x) as [H|H]; [assumption|]. exfalso. apply Hne. lra.
Qed.

Lemma insert_u_InQ : forall z x l, InQ z (insert_u x l) <-> x == z \/ InQ z l.
Proof.
  intros z x l. induction l as [|y r IH]; cbn.
  - rewrite InQ_cons. tauto.
  - destruct (Qltb x y) eqn:E1; [rewrite InQ_cons; tauto|].
    destruct (Qeq_bool x y) eqn:E2.
    + apply Qeq_bool_iff in E2. split; [tauto|].
      intros [He|H]; [|assumption]. apply InQ_cons. left. lra.
    + rewrite !InQ_cons, IH. tauto.
Qed.

Lemma sort_unique_sorted : forall l, sorted (sort_unique l).
Proof.
  induction l as [|a l IH]; cbn; [constructor|]. now apply insert_u_sorted.
Qed.

Lemma sort_unique_InQ : forall z l, InQ z (sort_unique l) <-> InQ z l.
Proof.
  intros z l. induction l as [|a l IH]; cbn; [tauto|].
  rewrite insert_u_InQ, InQ_cons, IH. tauto.
Qed.

Lemma merge_times_sorted : forall sensors, sorted (merge_times sensors).
Proof. intro. apply sort_unique_sorted. Qed.

Lemma merge_times_InQ : forall z sensors,
  InQ z (merge_times sensors) <-> exists s, In s sensors /\ InQ z s.
Proof.
  intros z sensors. unfold merge_times. rewrite sort_unique_InQ. split.
  - intros [y [Hin He]]. apply in_concat in Hin as [s [Hs Hy]].
    exists s. split; [assumption|]. now exists y.
  - intros [s [Hs [y [Hy He]]]]. exists y. split; [|assumption].
    apply in_concat. now exists s.
Qed.

Lemma clip_sorted : forall lo hi l, sorted l -> sorted (clip lo hi l).
Proof. intros. now apply sorted_filter. Qed.

Lemma clip_In : forall lo hi l y, In y (clip lo hi l) <-> In y l /\ lo <= y /\ y <= hi.
Proof.
  intros lo hi l y. unfold clip. rewrite filter_In, andb_true_iff, !Qle_bool_iff. tauto.
Qed.

(* the epochs that are actually processed: lo <= m < hi *)
Definition in_range (lo hi : Q) (m : Q) : bool := Qle_bool lo m && Qltb m hi.

Lemma in_range_true : forall lo hi m, in_range lo hi m = true <-> lo <= m /\ m < hi.
Proof.
  intros. unfold in_range. now rewrite andb_true_iff, Qle_bool_iff, Qltb_true.
Qed.

Lemma filter_lt_clip : forall lo hi l,
  filter (fun m => Qltb m hi) (clip lo hi l) = filter (in_range lo hi) l.
Proof.
  intros lo hi l. unfold clip. rewrite filter_filter. apply filter_ext. intro m.
  unfold in_range. destruct (Qle_bool lo m); cbn; [|reflexivity].
  destruct (Qltb m hi) eqn:E; [|now rewrite andb_false_r].
  apply Qltb_true in E. rewrite andb_true_r. apply Qle_bool_iff. lra.
Qed.

(* ---------- searchsorted -------------------------------------------------- *)

Lemma ss_le_len : forall a x, (searchsorted_right a x <= length a)%nat.
Proof.
  induction a as [|y r IH]; intro x; cbn; [lia|].
  destruct (Qle_bool y x); [specialize (IH x)|]; lia.
Qed.

Lemma ss_prefix : forall a x i, (i < searchsorted_right a x)%nat -> nth i a 0 <= x.
Proof.
  induction a as [|y r IH]; intros x i Hi; cbn in Hi; [lia|].
  destruct (Qle_bool y x) eqn:E; [|lia].
  destruct i as [|i]; cbn; [now apply Qle_bool_iff|]. apply IH. lia.
Qed.

Lemma ss_next : forall a x, (searchsorted_right a x < length a)%nat ->
  x < nth (searchsorted_right a x) a 0.
Proof.
  induction a as [|y r IH]; intros x H; cbn in *; [lia|].
  destruct (Qle_bool y x) eqn:E.
  - apply IH. lia.
  - now apply Qle_bool_false.
Qed.

Lemma ss_lower : forall a x i, sorted a -> (i < length a)%nat -> nth i a 0 <= x ->
  (i < searchsorted_right a x)%nat.
Proof.
  intros a x i Hs Hi Hle.
  destruct (Nat.lt_ge_cases i (searchsorted_right a x)) as [H|H]; [assumption|exfalso].
  assert (Hk : (searchsorted_right a x < length a)%nat) by lia.
  pose proof (ss_next a x Hk) as Hn.
  pose proof (sorted_nth_le a _ i Hs H Hi) as Hm. lra.
Qed.

(* ---------- iloc[a:b] ------------------------------------------------------ *)

Lemma firstn_skipn_seq : forall (l : list Q) a k, (a + k <= length l)%nat ->
  firstn k (skipn a l) = map (fun i => nth i l 0) (seq a k).
Proof.
  induction l as [|x l IH]; intros a k H; cbn in H.
  - assert (a = 0 /\ k = 0)%nat as [-> ->] by lia. reflexivity.
  - destruct a as [|a].
    + cbn [skipn]. destruct k as [|k]; [reflexivity|].
      cbn [firstn seq map nth]. f_equal.
      specialize (IH 0%nat k). cbn [skipn] in IH.
      assert (Hs : skipn 0 l = l) by reflexivity.
      rewrite IH by lia. rewrite <- seq_shift, map_map. reflexivity.
    + cbn [skipn]. rewrite IH by lia. rewrite <- seq_shift, map_map. reflexivity.
Qed.

Lemma batch_seq : forall incs a b, (a <= b)%nat -> (b <= length incs)%nat ->
  batch incs a b = map (fun i => nth i incs 0) (seq a (b - a)).
Proof. intros. unfold batch. apply firstn_skipn_seq. lia. Qed.

Lemma batch_last : forall incs a b d, (a < b)%nat -> (b <= length incs)%nat ->
  last (batch incs a b) d = nth (b - 1) incs 0.
Proof.
  intros incs a b d Hab Hb. rewrite batch_seq by lia.
  replace (b - a)%nat with (S (b - a - 1)) by lia.
  rewrite seq_S, map_app. cbn [map]. rewrite last_last. f_equal. lia.
Qed.

Lemma map_nth_seq : forall (l : list Q), map (fun i => nth i l 0) (seq 0 (length l)) = l.
Proof.
  induction l as [|x l IH]; [reflexivity|].
  cbn [length seq map nth]. f_equal.
  rewrite <- seq_shift, map_map. exact IH.
Qed.

(* ========================================================================= *)
(*  Part B : events, the sensor loop, the inner while                        *)
(* ========================================================================= *)

Definition is_innov (e : event) : bool :=
  match e with Innov _ _ _ => true | _ => false end.

Definition all_innov (l : list event) : Prop := Forall (fun e => is_innov e = true) l.

Lemma all_innov_app : forall l1 l2, all_innov l1 -> all_innov l2 -> all_innov (l1 ++ l2).
Proof. intros. apply Forall_app. now split. Qed.

Lemma flat_map_nil_all : forall (A B : Type) (f : A -> list B) (l : list A),
  (forall x, In x l -> f x = []) -> flat_map f l = [].
Proof.
  intros A B f l. induction l as [|a l IH]; intro H; cbn; [reflexivity|].
  rewrite (H a) by now left. apply IH. intros x Hx. apply H. now right.
Qed.

Section AllInnov.
  Variable l : list event.
  Hypothesis H : all_innov l.

  Lemma all_innov_completed : completed l = true.
  Proof.
    unfold completed. apply forallb_forall. intros e He.
    unfold all_innov in H. rewrite Forall_forall in H. specialize (H e He).
    now destruct e.
  Qed.

  Lemma all_innov_flat_map : forall (B : Type) (f : event -> list B),
    (forall k m t, f (Innov k m t) = []) -> flat_map f l = [].
  Proof.
    intros B f Hf. unfold all_innov in H. rewrite Forall_forall in H.
    apply flat_map_nil_all. intros e He. specialize (H e He).
    destruct e; try discriminate H. apply Hf.
  Qed.

  Lemma all_innov_records : record_times l = [].
  Proof. apply all_innov_flat_map. reflexivity. Qed.

  Lemma all_innov_integrated : integrated l = [].
  Proof. apply all_innov_flat_map. reflexivity. Qed.

  Lemma all_innov_propagations : propagations l = [].
  Proof. apply all_innov_flat_map. reflexivity. Qed.

  Lemma all_innov_batches : forall incs,
    flat_map (fun e => match e with Integrate a b => batch incs a b | _ => [] end) l = [].
  Proof. intro. apply all_innov_flat_map. reflexivity. Qed.

  Lemma all_innov_no_integrate : forall a b, ~ In (Integrate a b) l.
  Proof.
    intros a b Hin. unfold all_innov in H. rewrite Forall_forall in H.
    specialize (H _ Hin). discriminate.
  Qed.

  Lemma all_innov_no_propagate : forall a b, ~ In (Propagate a b) l.
  Proof.
    intros a b Hin. unfold all_innov in H. rewrite Forall_forall in H.
    specialize (H _ Hin). discriminate.
  Qed.
End AllInnov.

(* what sensor k contributes at epoch m *)
Definition sel (sensors : list (list Q)) (k : nat) (m : Q) : list Q :=
  match nth_error sensors k with
  | Some s => if stamped m s then [m] else []
  | None => []
  end.

Lemma innov_epochs_app : forall k l1 l2,
  innov_epochs k (l1 ++ l2) = innov_epochs k l1 ++ innov_epochs k l2.
Proof. intros. apply flat_map_app. Qed.

Lemma innov_rows_app : forall k l1 l2,
  innov_rows k (l1 ++ l2) = innov_rows k l1 ++ innov_rows k l2.
Proof. intros. apply flat_map_app. Qed.

Lemma record_times_app : forall l1 l2,
  record_times (l1 ++ l2) = record_times l1 ++ record_times l2.
Proof. intros. apply flat_map_app. Qed.

Lemma integrated_app : forall l1 l2, integrated (l1 ++ l2) = integrated l1 ++ integrated l2.
Proof. intros. apply flat_map_app. Qed.

Lemma propagations_app : forall l1 l2,
  propagations (l1 ++ l2) = propagations l1 ++ propagations l2.
Proof. intros. apply flat_map_app. Qed.

Lemma completed_app : forall l1 l2, completed (l1 ++ l2) = completed l1 && completed l2.
Proof. intros. apply forallb_app. Qed.

Section SensorLoop.
  Variable m t : Q.
  Let f := fun ks : nat * list Q =>
             if stamped m (snd ks) then [Innov (fst ks) m t] else [].

  Lemma sensor_loop_all_innov : forall ss a,
    all_innov (flat_map f (combine (seq a (length ss)) ss)).
  Proof.
    induction ss as [|s r IH]; intro a; cbn; [constructor|].
    apply all_innov_app; [|apply IH].
    unfold f; cbn [fst snd]. unfold all_innov.
    destruct (stamped m s); [|constructor].
    constructor; [reflexivity|constructor].
  Qed.

  Lemma sensor_loop_epochs : forall ss a k,
    innov_epochs k (flat_map f (combine (seq a (length ss)) ss)) =
    if (a <=? k)%nat then sel ss (k - a) m else [].
  Proof.
    induction ss as [|s r IH]; intros a k.
    - cbn. unfold sel. destruct (k - a)%nat; cbn; now destruct (a <=? k)%nat.
    - cbn [length seq combine flat_map]. rewrite innov_epochs_app, IH.
      unfold f at 1; cbn [fst snd].
      destruct (Nat.leb_spec a k) as [Hak|Hak].
      + destruct (Nat.eq_dec k a) as [->|Hne].
        * replace (a - a)%nat with 0%nat by lia. unfold sel; cbn [nth_error].
          destruct (Nat.leb_spec (S a) a); [lia|].
          destruct (stamped m s); cbn; [rewrite Nat.eqb_refl|]; reflexivity.
        * destruct (Nat.leb_spec (S a) k); [|lia].
          replace (k - a)%nat with (S (k - S a)) by lia.
          unfold sel at 2; cbn [nth_error]. fold (sel r (k - S a) m).
          destruct (stamped m s); cbn; [|reflexivity].
          destruct (Nat.eqb_spec k a); [lia|reflexivity].
      + destruct (Nat.leb_spec (S a) k); [lia|].
        destruct (stamped m s); cbn; [|reflexivity].
        destruct (Nat.eqb_spec k a); [lia|reflexivity].
  Qed.

  Lemma sensor_loop_rows : forall ss a k,
    innov_rows k (flat_map f (combine (seq a (length ss)) ss)) =
    map (fun _ => t) (if (a <=? k)%nat then sel ss (k - a) m else []).
  Proof.
    induction ss as [|s r IH]; intros a k.
    - cbn. unfold sel. destruct (k - a)%nat; cbn; now destruct (a <=? k)%nat.
    - cbn [length seq combine flat_map]. rewrite innov_rows_app, IH.
      unfold f at 1; cbn [fst snd].
      destruct (Nat.leb_spec a k) as [Hak|Hak].
      + destruct (Nat.eq_dec k a) as [->|Hne].
        * replace (a - a)%nat with 0%nat by lia. unfold sel; cbn [nth_error].
          destruct (Nat.leb_spec (S a) a); [lia|].
          destruct (stamped m s); cbn; [rewrite Nat.eqb_refl|]; reflexivity.
        * destruct (Nat.leb_spec (S a) k); [|lia].
          replace (k - a)%nat with (S (k - S a)) by lia.
          unfold sel at 2; cbn [nth_error]. fold (sel r (k - S a) m).
          destruct (stamped m s); cbn; [|reflexivity].
          destruct (Nat.eqb_spec k a); [lia|reflexivity].
      + destruct (Nat.leb_spec (S a) k); [lia|].
        destruct (stamped m s); cbn; [|reflexivity].
        destruct (Nat.eqb_spec k a); [lia|reflexivity].
  Qed.

  Lemma sensor_loop_In : forall ss a k m' t',
    In (Innov k m' t') (flat_map f (combine (seq a (length ss)) ss)) ->
    m' = m /\ t' = t /\ (a <= k)%nat /\
    exists s, nth_error ss (k - a) = Some s /\ stamped m s = true.
  Proof.
    induction ss as [|s r IH]; intros a k m' t' Hin; [destruct Hin|].
    cbn [length seq combine flat_map] in Hin. apply in_app_or in Hin as [Hin|Hin].
    - unfold f in Hin; cbn [fst snd] in Hin.
      destruct (stamped m s) eqn:E; [|destruct Hin].
      destruct Hin as [Heq|[]]. inversion Heq; subst.
      repeat split; [lia|]. exists s. replace (k - k)%nat with 0%nat by lia. now split.
    - apply IH in Hin as (H1 & H2 & H3 & s' & H4 & H5).
      repeat split; [assumption|assumption|lia|].
      exists s'. replace (k - a)%nat with (S (k - S a)) by lia. now split.
  Qed.
End SensorLoop.

Lemma epoch_events_all_innov : forall sensors m t, all_innov (epoch_events sensors m t).
Proof. intros. apply sensor_loop_all_innov. Qed.

Lemma epoch_events_epochs : forall sensors m t k,
  innov_epochs k (epoch_events sensors m t) = sel sensors k m.
Proof.
  intros. unfold epoch_events. rewrite sensor_loop_epochs. cbn. now rewrite Nat.sub_0_r.
Qed.

Lemma epoch_events_rows : forall sensors m t k,
  innov_rows k (epoch_events sensors m t) = map (fun _ => t) (sel sensors k m).
Proof.
  intros. unfold epoch_events. rewrite sensor_loop_rows. cbn. now rewrite Nat.sub_0_r.
Qed.

Lemma epoch_events_In : forall sensors m t k m' t',
  In (Innov k m' t') (epoch_events sensors m t) ->
  m' = m /\ t' = t /\ exists s, nth_error sensors k = Some s /\ stamped m s = true.
Proof.
  intros sensors m t k m' t' Hin. unfold epoch_events in Hin.
  apply sensor_loop_In in Hin as (H1 & H2 & _ & s & H3 & H4).
  rewrite Nat.sub_0_r in H3. repeat split; try assumption. now exists s.
Qed.

(* the inner while: the processed epochs are the longest prefix of the pending
   stamps that lies strictly before `bound` *)
Lemma inner_spec : forall sensors t bound pending ev p',
  inner sensors t bound pending = (ev, p') ->
  exists pre,
    pending = pre ++ p' /\
    ev = flat_map (fun m => epoch_events sensors m t) pre /\
    Forall (fun m => m < bound) pre /\
    match p' with [] => True | m :: _ => bound <= m end.
Proof.
  intros sensors t bound. induction pending as [|m rest IH]; intros ev p' H; cbn in H.
  - inversion H; subst. exists []. repeat split; constructor.
  - destruct (Qltb m bound) eqn:E.
    + destruct (inner sensors t bound rest) as [ev0 p0] eqn:E0.
      inversion H; subst. destruct (IH _ _ eq_refl) as (pre & H1 & H2 & H3 & H4).
      exists (m :: pre). subst rest ev0. repeat split; try assumption.
      constructor; [now apply Qltb_true|assumption].
    + inversion H; subst. exists []. repeat split; [constructor|].
      now apply Qltb_false.
Qed.

Lemma events_all_innov : forall sensors t pre,
  all_innov (flat_map (fun m => epoch_events sensors m t) pre).
Proof.
  intros sensors t. induction pre as [|m pre IH]; cbn; [constructor|].
  apply all_innov_app; [apply epoch_events_all_innov|assumption].
Qed.

Lemma events_epochs : forall sensors t k pre,
  innov_epochs k (flat_map (fun m => epoch_events sensors m t) pre) =
  flat_map (sel sensors k) pre.
Proof.
  intros sensors t k. induction pre as [|m pre IH]; cbn; [reflexivity|].
  now rewrite innov_epochs_app, epoch_events_epochs, IH.
Qed.

Lemma events_rows : forall sensors t k pre,
  innov_rows k (flat_map (fun m => epoch_events sensors m t) pre) =
  map (fun _ => t) (flat_map (sel sensors k) pre).
Proof.
  intros sensors t k. induction pre as [|m pre IH]; cbn; [reflexivity|].
  now rewrite innov_rows_app, epoch_events_rows, IH, map_app.
Qed.

Lemma events_In : forall sensors t pre k m' t',
  In (Innov k m' t') (flat_map (fun m => epoch_events sensors m t) pre) ->
  In m' pre /\ t' = t /\ exists s, nth_error sensors k = Some s /\ stamped m' s = true.
Proof.
  intros sensors t pre k m' t' Hin. apply in_flat_map in Hin as [m [Hm Hin]].
  apply epoch_events_In in Hin as (-> & -> & Hs). now repeat split.
Qed.

(* splitting the processed part off the list of epochs due before `hi` *)
Lemma filter_lt_split : forall pre p' bound hi,
  Forall (fun m => m < bound) pre -> bound <= hi ->
  filter (fun m => Qltb m hi) (pre ++ p') = pre ++ filter (fun m => Qltb m hi) p'.
Proof.
  intros pre p' bound hi Hpre Hb. rewrite filter_app. f_equal.
  apply filter_all_true. intros x Hx. rewrite Forall_forall in Hpre.
  specialize (Hpre x Hx). apply Qltb_true. lra.
Qed.

(* ---------- the per-sensor statement from the merged list ----------------- *)

Lemma sel_filter : forall sensors k s l, nth_error sensors k = Some s ->
  flat_map (sel sensors k) l = filter (fun m => stamped m s) l.
Proof.
  intros sensors k s l H. unfold sel. rewrite H. apply flat_map_if_filter.
Qed.

Lemma sel_none : forall sensors k l, nth_error sensors k = None ->
  flat_map (sel sensors k) l = [].
Proof.
  intros sensors k l H. unfold sel. rewrite H. induction l; cbn; auto.
Qed.

Lemma sensor_epochs_spec : forall sensors k s lo hi,
  nth_error sensors k = Some s ->
  let l := flat_map (sel sensors k) (filter (in_range lo hi) (merge_times sensors)) in
  sorted l /\ forall x, InQ x l <-> InQ x s /\ lo <= x /\ x < hi.
Proof.
  intros sensors k s lo hi Hk l. subst l. rewrite (sel_filter _ _ s) by assumption.
  split.
  - apply sorted_filter, sorted_filter, merge_times_sorted.
  - intro x. split.
    + intros [y [Hin He]]. apply filter_In in Hin as [Hin Hst].
      apply filter_In in Hin as [Hin Hr]. apply in_range_true in Hr.
      apply stamped_true in Hst. split; [now apply (InQ_eq y)|lra].
    + intros [Hs Hr].
      assert (Hm : InQ x (merge_times sensors)).
      { apply merge_times_InQ. exists s. split; [|assumption].
        now apply nth_error_In with k. }
      destruct Hm as [y [Hin He]]. exists y. split; [|assumption].
      apply filter_In. split.
      * apply filter_In. split; [assumption|]. apply in_range_true. lra.
      * apply stamped_true. apply (InQ_eq x); [lra|assumption].
Qed.

(* two strictly increasing lists with the same elements are equal pointwise *)
Lemma sorted_same_elements : forall l1 l2, sorted l1 -> sorted l2 ->
  (forall x, InQ x l1 <-> InQ x l2) -> Forall2 Qeq l1 l2.
Proof.
  induction l1 as [|a l1 IH]; intros l2 H1 H2 H.
  - destruct l2 as [|b l2]; [constructor|].
    exfalso. apply (InQ_nil b). apply H. apply InQ_cons. now left.
  - destruct l2 as [|b l2].
    { exfalso. apply (InQ_nil a). apply H. apply InQ_cons. now left. }
    apply sorted_cons_iff in H1 as [H1 F1]. apply sorted_cons_iff in H2 as [H2 F2].
    rewrite Forall_forall in F1, F2.
    assert (Lower1 : forall x, InQ x l1 -> a < x).
    { intros x [y [Hy He]]. specialize (F1 y Hy). lra. }
    assert (Lower2 : forall x, InQ x l2 -> b < x).
    { intros x [y [Hy He]]. specialize (F2 y Hy). lra. }
    assert (Hab : a == b).
    { assert (Ha : InQ a (b :: l2)) by (apply H, InQ_cons; now left).
      assert (Hb : InQ b (a :: l1)) by (apply H, InQ_cons; now left).
      apply InQ_cons in Ha as [Ha|Ha]; [lra|].
      apply InQ_cons in Hb as [Hb|Hb]; [lra|].
      apply Lower2 in Ha. apply Lower1 in Hb. lra. }
    constructor; [assumption|]. apply IH; try assumption.
    intro x. split; intro Hx.
    + assert (Hx' : InQ x (b :: l2)) by (apply H, InQ_cons; now right).
      apply InQ_cons in Hx' as [Hx'|Hx']; [|assumption].
      apply Lower1 in Hx. lra.
    + assert (Hx' : InQ x (a :: l1)) by (apply H, InQ_cons; now right).
      apply InQ_cons in Hx' as [Hx'|Hx']; [|assumption].
      apply Lower2 in Hx. lra.
Qed.
