(** C17: attitude representations and rotation primitives are consistent.
    Theorems about the GENERATED definitions (mat_from_rotvec of Gen/NumbaIntegrate.v,
    mat_from_rph and mat_to_rph_of_rph of Gen/Transform.v, phi_to_delta_rph of Gen/C17Gen.v)
    against the closed-form exponential map and the as_euler spec of Spec/LibSpecs.v. *)
From Coq Require Import Reals ZArith Lra Lia.
From Coquelicot Require Import Coquelicot.
From Interval Require Import Tactic.
From PV Require Import Base.RealTac Spec.LibSpecs Spec.LibSpecsFacts.
From PV Require Import Gen.NumbaIntegrate Gen.Transform Gen.C17Gen.
Open Scope R_scope.

(** * Vocabulary used in the statements (3x3 matrices as nine scalars, row-major) *)

(** A^T A = I (six independent equations) *)
Definition orthonormal3 (a00 a01 a02 a10 a11 a12 a20 a21 a22 : R) : Prop :=
  a00*a00 + a10*a10 + a20*a20 = 1 /\ a01*a01 + a11*a11 + a21*a21 = 1 /\
  a02*a02 + a12*a12 + a22*a22 = 1 /\ a00*a01 + a10*a11 + a20*a21 = 0 /\
  a00*a02 + a10*a12 + a20*a22 = 0 /\ a01*a02 + a11*a12 + a21*a22 = 0.

Definition det3 (a00 a01 a02 a10 a11 a12 a20 a21 a22 : R) : R :=
  a00 * (a11*a22 - a12*a21) - a01 * (a10*a22 - a12*a20) + a02 * (a10*a21 - a11*a20).

(** entrywise |A - B| <= eps *)
Definition mat_close (eps a00 a01 a02 a10 a11 a12 a20 a21 a22
                          b00 b01 b02 b10 b11 b12 b20 b21 b22 : R) : Prop :=
  Rabs (a00 - b00) <= eps /\ Rabs (a01 - b01) <= eps /\ Rabs (a02 - b02) <= eps /\
  Rabs (a10 - b10) <= eps /\ Rabs (a11 - b11) <= eps /\ Rabs (a12 - b12) <= eps /\
  Rabs (a20 - b20) <= eps /\ Rabs (a21 - b21) <= eps /\ Rabs (a22 - b22) <= eps.

(** entrywise A = B *)
Definition mat_eq (a00 a01 a02 a10 a11 a12 a20 a21 a22
                   b00 b01 b02 b10 b11 b12 b20 b21 b22 : R) : Prop :=
  a00 = b00 /\ a01 = b01 /\ a02 = b02 /\ a10 = b10 /\ a11 = b11 /\ a12 = b12 /\
  a20 = b20 /\ a21 = b21 /\ a22 = b22.

(** * 1. mat_from_rotvec, large branch: exact Rodrigues rotation *)

Ltac unf_rv_p0 :=
  unfold mat_from_rotvec_m00__p0, mat_from_rotvec_m01__p0, mat_from_rotvec_m02__p0,
    mat_from_rotvec_m10__p0, mat_from_rotvec_m11__p0, mat_from_rotvec_m12__p0,
    mat_from_rotvec_m20__p0, mat_from_rotvec_m21__p0, mat_from_rotvec_m22__p0;
  repeat autounfold with mat_from_rotvec_db.

Ltac unf_rv_p1 :=
  unfold mat_from_rotvec_m00__p1, mat_from_rotvec_m01__p1, mat_from_rotvec_m02__p1,
    mat_from_rotvec_m10__p1, mat_from_rotvec_m11__p1, mat_from_rotvec_m12__p1,
    mat_from_rotvec_m20__p1, mat_from_rotvec_m21__p1, mat_from_rotvec_m22__p1;
  repeat autounfold with mat_from_rotvec_db.

Ltac unf_rv_top :=
  unfold mat_from_rotvec_m00, mat_from_rotvec_m01, mat_from_rotvec_m02,
    mat_from_rotvec_m10, mat_from_rotvec_m11, mat_from_rotvec_m12,
    mat_from_rotvec_m20, mat_from_rotvec_m21, mat_from_rotvec_m22;
  unfold mat_from_rotvec__0.

Ltac unf_spec :=
  unfold rotvec_m00, rotvec_m01, rotvec_m02, rotvec_m10, rotvec_m11, rotvec_m12,
    rotvec_m20, rotvec_m21, rotvec_m22, rv_k1, rv_k2, rv_cos, rv_norm.

(** which branch is taken *)
Lemma rv_branch_large x y z : x*x + y*y + z*z > 1/1000000 ->
  mat_eq (mat_from_rotvec_m00 x y z) (mat_from_rotvec_m01 x y z) (mat_from_rotvec_m02 x y z)
         (mat_from_rotvec_m10 x y z) (mat_from_rotvec_m11 x y z) (mat_from_rotvec_m12 x y z)
         (mat_from_rotvec_m20 x y z) (mat_from_rotvec_m21 x y z) (mat_from_rotvec_m22 x y z)
         (mat_from_rotvec_m00__p0 x y z) (mat_from_rotvec_m01__p0 x y z) (mat_from_rotvec_m02__p0 x y z)
         (mat_from_rotvec_m10__p0 x y z) (mat_from_rotvec_m11__p0 x y z) (mat_from_rotvec_m12__p0 x y z)
         (mat_from_rotvec_m20__p0 x y z) (mat_from_rotvec_m21__p0 x y z) (mat_from_rotvec_m22__p0 x y z).
Proof.
  intro H. unfold mat_eq. unf_rv_top.
  destruct (Rgt_dec (x*x + y*y + z*z) (1/1000000)) as [_|N]; [|contradiction].
  repeat split; reflexivity.
Qed.

Lemma rv_branch_small x y z : x*x + y*y + z*z <= 1/1000000 ->
  mat_eq (mat_from_rotvec_m00 x y z) (mat_from_rotvec_m01 x y z) (mat_from_rotvec_m02 x y z)
         (mat_from_rotvec_m10 x y z) (mat_from_rotvec_m11 x y z) (mat_from_rotvec_m12 x y z)
         (mat_from_rotvec_m20 x y z) (mat_from_rotvec_m21 x y z) (mat_from_rotvec_m22 x y z)
         (mat_from_rotvec_m00__p1 x y z) (mat_from_rotvec_m01__p1 x y z) (mat_from_rotvec_m02__p1 x y z)
         (mat_from_rotvec_m10__p1 x y z) (mat_from_rotvec_m11__p1 x y z) (mat_from_rotvec_m12__p1 x y z)
         (mat_from_rotvec_m20__p1 x y z) (mat_from_rotvec_m21__p1 x y z) (mat_from_rotvec_m22__p1 x y z).
Proof.
  intro H. unfold mat_eq. unf_rv_top.
  destruct (Rgt_dec (x*x + y*y + z*z) (1/1000000)) as [G|_]; [unfold Rgt in G; lra|].
  repeat split; reflexivity.
Qed.

(* n := |v|, c := cos n, s := sin n with the two polynomial facts that [ring] needs *)
Ltac rv_abstract x y z Hpos :=
  let n := fresh "n" in let c := fresh "c" in let s := fresh "s" in
  set (n := sqrt (x*x + y*y + z*z)) in *;
  assert (Hn2 : n * n = x*x + y*y + z*z) by (apply sqrt_sqrt; lra);
  assert (Hn : 0 < n) by (apply sqrt_lt_R0; lra);
  rewrite <- Hn2 in *;
  assert (Hz : z*z = n*n - x*x - y*y) by lra;
  set (c := cos n) in *; set (s := sin n) in *;
  assert (Hs : s*s = 1 - c*c) by (pose proof (sc1 n); unfold s, c; lra).

(** the p0 formulas are a rotation about v by |v| for every v <> 0 *)
Lemma p0_is_rotation x y z : 0 < x*x + y*y + z*z ->
  let n := rv_norm x y z in
  let m00 := mat_from_rotvec_m00__p0 x y z in let m01 := mat_from_rotvec_m01__p0 x y z in
  let m02 := mat_from_rotvec_m02__p0 x y z in let m10 := mat_from_rotvec_m10__p0 x y z in
  let m11 := mat_from_rotvec_m11__p0 x y z in let m12 := mat_from_rotvec_m12__p0 x y z in
  let m20 := mat_from_rotvec_m20__p0 x y z in let m21 := mat_from_rotvec_m21__p0 x y z in
  let m22 := mat_from_rotvec_m22__p0 x y z in
  orthonormal3 m00 m01 m02 m10 m11 m12 m20 m21 m22 /\
  det3 m00 m01 m02 m10 m11 m12 m20 m21 m22 = 1 /\
  (m00 * x + m01 * y + m02 * z = x /\ m10 * x + m11 * y + m12 * z = y /\
   m20 * x + m21 * y + m22 * z = z) /\
  m00 + m11 + m22 = 1 + 2 * cos n /\
  ((m21 - m12) / 2 = sin n / n * x /\ (m02 - m20) / 2 = sin n / n * y /\
   (m10 - m01) / 2 = sin n / n * z).
Proof.
  intro Hpos. cbv zeta. unfold orthonormal3, det3, rv_norm. unf_rv_p0.
  rv_abstract x y z Hpos.
  repeat split; (field_simplify_eq; [ring [Hs Hz] | lra]).
Qed.

Lemma p0_is_spec x y z : 0 < x*x + y*y + z*z ->
  mat_eq (mat_from_rotvec_m00__p0 x y z) (mat_from_rotvec_m01__p0 x y z) (mat_from_rotvec_m02__p0 x y z)
         (mat_from_rotvec_m10__p0 x y z) (mat_from_rotvec_m11__p0 x y z) (mat_from_rotvec_m12__p0 x y z)
         (mat_from_rotvec_m20__p0 x y z) (mat_from_rotvec_m21__p0 x y z) (mat_from_rotvec_m22__p0 x y z)
         (rotvec_m00 x y z) (rotvec_m01 x y z) (rotvec_m02 x y z)
         (rotvec_m10 x y z) (rotvec_m11 x y z) (rotvec_m12 x y z)
         (rotvec_m20 x y z) (rotvec_m21 x y z) (rotvec_m22 x y z).
Proof.
  intro Hpos. unfold mat_eq. unf_spec. unf_rv_p0.
  assert (Hn : 0 < sqrt (x*x + y*y + z*z)) by (apply sqrt_lt_R0; lra).
  destruct (Req_EM_T (sqrt (x*x + y*y + z*z)) 0) as [E|_]; [lra|].
  repeat split; (field; split; lra).
Qed.

Lemma rotvec_large_is_rotation x y z : x*x + y*y + z*z > 1/1000000 ->
  let n := rv_norm x y z in
  let m00 := mat_from_rotvec_m00 x y z in let m01 := mat_from_rotvec_m01 x y z in
  let m02 := mat_from_rotvec_m02 x y z in let m10 := mat_from_rotvec_m10 x y z in
  let m11 := mat_from_rotvec_m11 x y z in let m12 := mat_from_rotvec_m12 x y z in
  let m20 := mat_from_rotvec_m20 x y z in let m21 := mat_from_rotvec_m21 x y z in
  let m22 := mat_from_rotvec_m22 x y z in
  orthonormal3 m00 m01 m02 m10 m11 m12 m20 m21 m22 /\
  det3 m00 m01 m02 m10 m11 m12 m20 m21 m22 = 1 /\
  (m00 * x + m01 * y + m02 * z = x /\ m10 * x + m11 * y + m12 * z = y /\
   m20 * x + m21 * y + m22 * z = z) /\
  m00 + m11 + m22 = 1 + 2 * cos n /\
  ((m21 - m12) / 2 = sin n / n * x /\ (m02 - m20) / 2 = sin n / n * y /\
   (m10 - m01) / 2 = sin n / n * z).
Proof.
  intro H. cbv zeta.
  destruct (rv_branch_large x y z H) as (E00 & E01 & E02 & E10 & E11 & E12 & E20 & E21 & E22).
  rewrite E00, E01, E02, E10, E11, E12, E20, E21, E22.
  apply p0_is_rotation. unfold Rgt in H. lra.
Qed.

Lemma rotvec_large_is_expmap x y z : x*x + y*y + z*z > 1/1000000 ->
  mat_eq (mat_from_rotvec_m00 x y z) (mat_from_rotvec_m01 x y z) (mat_from_rotvec_m02 x y z)
         (mat_from_rotvec_m10 x y z) (mat_from_rotvec_m11 x y z) (mat_from_rotvec_m12 x y z)
         (mat_from_rotvec_m20 x y z) (mat_from_rotvec_m21 x y z) (mat_from_rotvec_m22 x y z)
         (rotvec_m00 x y z) (rotvec_m01 x y z) (rotvec_m02 x y z)
         (rotvec_m10 x y z) (rotvec_m11 x y z) (rotvec_m12 x y z)
         (rotvec_m20 x y z) (rotvec_m21 x y z) (rotvec_m22 x y z).
Proof.
  intro H.
  destruct (rv_branch_large x y z H) as (E00 & E01 & E02 & E10 & E11 & E12 & E20 & E21 & E22).
  assert (Hpos : 0 < x*x + y*y + z*z) by (unfold Rgt in H; lra).
  destruct (p0_is_spec x y z Hpos) as (F00 & F01 & F02 & F10 & F11 & F12 & F20 & F21 & F22).
  unfold mat_eq. repeat split; congruence.
Qed.

(** * 2. mat_from_rotvec, Taylor branch: accurate to 1e-20 *)

Lemma taylor_sin t : 0 <= t <= 1/1000 ->
  Rabs (t * (1 - t*t/6 + (t*t)*(t*t)/120) - sin t) <= 1/10^24.
Proof. intro H. interval with (i_taylor t, i_degree 9, i_prec 120). Qed.

Lemma taylor_cos t : 0 <= t <= 1/1000 ->
  Rabs ((1 - t*t/2 + (t*t)*(t*t)/24) - cos t) <= 2/10^21.
Proof. intro H. interval with (i_taylor t, i_degree 9, i_prec 120). Qed.

Lemma taylor_1mcos t : 0 <= t <= 1/1000 ->
  Rabs (t*t * (1/2 - t*t/24 + (t*t)*(t*t)/720) - (1 - cos t)) <= 1/10^27.
Proof. intro H. interval with (i_taylor t, i_degree 11, i_prec 150). Qed.

Lemma abs_le_norm n x y z : 0 < n -> n * n = x*x + y*y + z*z ->
  Rabs (x / n) <= 1 /\ Rabs (y / n) <= 1 /\ Rabs (z / n) <= 1.
Proof.
  intros Hn H.
  assert (A : forall w, w * w <= n * n -> Rabs (w / n) <= 1).
  { intros w Hw. unfold Rdiv. rewrite Rabs_mult, (Rabs_right (/ n)).
    2:{ apply Rle_ge. left. apply Rinv_0_lt_compat. exact Hn. }
    apply (Rmult_le_reg_r n); [exact Hn|]. rewrite Rmult_assoc, Rinv_l by lra.
    unfold Rabs. destruct (Rcase_abs w); nra. }
  repeat split; apply A; nra.
Qed.

Lemma abs3 a u v A : Rabs a <= A -> Rabs u <= 1 -> Rabs v <= 1 -> Rabs (a * u * v) <= A.
Proof.
  intros Ha Hu Hv. rewrite !Rabs_mult.
  pose proof (Rabs_pos a). pose proof (Rabs_pos u). pose proof (Rabs_pos v).
  assert (Rabs a * Rabs u <= A) by nra. nra.
Qed.

Lemma abs2 a u A : Rabs a <= A -> Rabs u <= 1 -> Rabs (a * u) <= A.
Proof.
  intros Ha Hu. rewrite Rabs_mult. pose proof (Rabs_pos a). pose proof (Rabs_pos u). nra.
Qed.

Lemma abs_add a b A B : Rabs a <= A -> Rabs b <= B -> Rabs (a + b) <= A + B.
Proof. intros. pose proof (Rabs_triang a b). lra. Qed.

Lemma abs_sub a b A B : Rabs a <= A -> Rabs b <= B -> Rabs (a - b) <= A + B.
Proof.
  intros. unfold Rminus. pose proof (Rabs_triang a (- b)). rewrite Rabs_Ropp in *. lra.
Qed.

(** entries of (polynomial Rodrigues) - (exact Rodrigues), abstractly in the coefficients *)
Section SmallEntries.
  Variables n c s k1t k2t ct E0 E1 E2 : R.
  Hypothesis Hn : 0 < n.
  Hypothesis H0 : Rabs (ct - c) <= E0.
  Hypothesis H1 : Rabs (n * k1t - s) <= E1.
  Hypothesis H2 : Rabs (n * n * k2t - (1 - c)) <= E2.

  Lemma entry_diag p : Rabs (p / n) <= 1 ->
    Rabs ((k2t * p * p + ct) - ((1 - c) / (n * n) * p * p + c)) <= E2 + E0.
  Proof.
    intro Hp.
    replace ((k2t * p * p + ct) - ((1 - c) / (n * n) * p * p + c))
      with ((n * n * k2t - (1 - c)) * (p / n) * (p / n) + (ct - c)) by (field; lra).
    apply abs_add; [apply abs3|]; assumption.
  Qed.

  Lemma entry_minus p q w : Rabs (p / n) <= 1 -> Rabs (q / n) <= 1 -> Rabs (w / n) <= 1 ->
    Rabs ((k2t * p * q - k1t * w) - ((1 - c) / (n * n) * p * q - s / n * w)) <= E2 + E1.
  Proof.
    intros Hp Hq Hw.
    replace ((k2t * p * q - k1t * w) - ((1 - c) / (n * n) * p * q - s / n * w))
      with ((n * n * k2t - (1 - c)) * (p / n) * (q / n) - (n * k1t - s) * (w / n)) by (field; lra).
    apply abs_sub; [apply abs3|apply abs2]; assumption.
  Qed.

  Lemma entry_plus p q w : Rabs (p / n) <= 1 -> Rabs (q / n) <= 1 -> Rabs (w / n) <= 1 ->
    Rabs ((k2t * p * q + k1t * w) - ((1 - c) / (n * n) * p * q + s / n * w)) <= E2 + E1.
  Proof.
    intros Hp Hq Hw.
    replace ((k2t * p * q + k1t * w) - ((1 - c) / (n * n) * p * q + s / n * w))
      with ((n * n * k2t - (1 - c)) * (p / n) * (q / n) + (n * k1t - s) * (w / n)) by (field; lra).
    apply abs_add; [apply abs3|apply abs2]; assumption.
  Qed.
  (* the same, for any expressions equal to those shapes (robust against harmless rewrites) *)
  Lemma entry_diag' a b p : a = k2t * p * p + ct -> b = (1 - c) / (n * n) * p * p + c ->
    Rabs (p / n) <= 1 -> Rabs (a - b) <= E2 + E0.
  Proof. intros -> ->. apply entry_diag. Qed.

  Lemma entry_minus' a b p q w : a = k2t * p * q - k1t * w -> b = (1 - c) / (n * n) * p * q - s / n * w ->
    Rabs (p / n) <= 1 -> Rabs (q / n) <= 1 -> Rabs (w / n) <= 1 -> Rabs (a - b) <= E2 + E1.
  Proof. intros -> ->. apply entry_minus. Qed.

  Lemma entry_plus' a b p q w : a = k2t * p * q + k1t * w -> b = (1 - c) / (n * n) * p * q + s / n * w ->
    Rabs (p / n) <= 1 -> Rabs (q / n) <= 1 -> Rabs (w / n) <= 1 -> Rabs (a - b) <= E2 + E1.
  Proof. intros -> ->. apply entry_plus. Qed.
End SmallEntries.

(** the Taylor branch formulas against the closed form, on 0 <= |v|^2 <= 1e-6 *)
Lemma p1_accurate x y z : x*x + y*y + z*z <= 1/1000000 ->
  mat_close (1/10^20)
    (mat_from_rotvec_m00__p1 x y z) (mat_from_rotvec_m01__p1 x y z) (mat_from_rotvec_m02__p1 x y z)
    (mat_from_rotvec_m10__p1 x y z) (mat_from_rotvec_m11__p1 x y z) (mat_from_rotvec_m12__p1 x y z)
    (mat_from_rotvec_m20__p1 x y z) (mat_from_rotvec_m21__p1 x y z) (mat_from_rotvec_m22__p1 x y z)
    (rotvec_m00 x y z) (rotvec_m01 x y z) (rotvec_m02 x y z)
    (rotvec_m10 x y z) (rotvec_m11 x y z) (rotvec_m12 x y z)
    (rotvec_m20 x y z) (rotvec_m21 x y z) (rotvec_m22 x y z).
Proof.
  intro Hle. unfold mat_close. unf_spec. unf_rv_p1.
  destruct (Req_EM_T (sqrt (x*x + y*y + z*z)) 0) as [E|NE].
  - (* v = 0: both sides are the identity exactly *)
    assert (E2 : x*x + y*y + z*z = 0) by (apply sqrt_eq_0; [nra|exact E]).
    assert (x = 0) by nra. assert (y = 0) by nra. assert (z = 0) by nra. subst x y z.
    replace (0*0 + 0*0 + 0*0) with 0 by ring. rewrite sqrt_0, cos_0.
    repeat split; match goal with |- Rabs ?e <= _ => replace e with 0 by field end;
      rewrite Rabs_R0; lra.
  - set (n := sqrt (x*x + y*y + z*z)) in *.
    assert (Hn2 : n * n = x*x + y*y + z*z) by (apply sqrt_sqrt; nra).
    assert (Hn0 : 0 <= n) by apply sqrt_pos.
    assert (Hn : 0 < n) by lra.
    rewrite <- Hn2 in *.
    assert (Ht : 0 <= n <= 1/1000) by (split; [lra|nra]).
    pose proof (taylor_sin n Ht) as T1. pose proof (taylor_cos n Ht) as T0.
    pose proof (taylor_1mcos n Ht) as T2.
    set (k1t := 1 - n*n/6 + (n*n)*(n*n)/120) in T1.
    set (ct := 1 - n*n/2 + (n*n)*(n*n)/24) in T0.
    set (k2t := 1/2 - n*n/24 + (n*n)*(n*n)/720) in T2.
    destruct (abs_le_norm n x y z Hn Hn2) as (Ux & Uy & Uz).
    assert (B1 : 1/10^27 + 2/10^21 <= 1/10^20) by lra.
    assert (B2 : 1/10^27 + 1/10^24 <= 1/10^20) by lra.
    assert (Hnn : n * n <> 0) by nra.
    repeat split.
    + eapply Rle_trans; [|exact B1].
      apply (entry_diag' n (cos n) k2t ct _ _ Hn T0 T2 _ _ x); [unfold k2t, ct; field|reflexivity|exact Ux].
    + eapply Rle_trans; [|exact B2].
      apply (entry_minus' n (cos n) (sin n) k1t k2t _ _ Hn T1 T2 _ _ x y z);
        [unfold k2t, k1t; field|reflexivity|exact Ux|exact Uy|exact Uz].
    + eapply Rle_trans; [|exact B2].
      apply (entry_plus' n (cos n) (sin n) k1t k2t _ _ Hn T1 T2 _ _ x z y);
        [unfold k2t, k1t; field|reflexivity|exact Ux|exact Uz|exact Uy].
    + eapply Rle_trans; [|exact B2].
      apply (entry_plus' n (cos n) (sin n) k1t k2t _ _ Hn T1 T2 _ _ y x z);
        [unfold k2t, k1t; field|reflexivity|exact Uy|exact Ux|exact Uz].
    + eapply Rle_trans; [|exact B1].
      apply (entry_diag' n (cos n) k2t ct _ _ Hn T0 T2 _ _ y); [unfold k2t, ct; field|reflexivity|exact Uy].
    + eapply Rle_trans; [|exact B2].
      apply (entry_minus' n (cos n) (sin n) k1t k2t _ _ Hn T1 T2 _ _ y z x);
        [unfold k2t, k1t; field|reflexivity|exact Uy|exact Uz|exact Ux].
    + eapply Rle_trans; [|exact B2].
      apply (entry_minus' n (cos n) (sin n) k1t k2t _ _ Hn T1 T2 _ _ z x y);
        [unfold k2t, k1t; field|reflexivity|exact Uz|exact Ux|exact Uy].
    + eapply Rle_trans; [|exact B2].
      apply (entry_plus' n (cos n) (sin n) k1t k2t _ _ Hn T1 T2 _ _ z y x);
        [unfold k2t, k1t; field|reflexivity|exact Uz|exact Uy|exact Ux].
    + eapply Rle_trans; [|exact B1].
      apply (entry_diag' n (cos n) k2t ct _ _ Hn T0 T2 _ _ z); [unfold k2t, ct; field|reflexivity|exact Uz].
Qed.

Lemma rotvec_small_accurate x y z : x*x + y*y + z*z <= 1/1000000 ->
  mat_close (1/10^20)
    (mat_from_rotvec_m00 x y z) (mat_from_rotvec_m01 x y z) (mat_from_rotvec_m02 x y z)
    (mat_from_rotvec_m10 x y z) (mat_from_rotvec_m11 x y z) (mat_from_rotvec_m12 x y z)
    (mat_from_rotvec_m20 x y z) (mat_from_rotvec_m21 x y z) (mat_from_rotvec_m22 x y z)
    (rotvec_m00 x y z) (rotvec_m01 x y z) (rotvec_m02 x y z)
    (rotvec_m10 x y z) (rotvec_m11 x y z) (rotvec_m12 x y z)
    (rotvec_m20 x y z) (rotvec_m21 x y z) (rotvec_m22 x y z).
Proof.
  intro H.
  destruct (rv_branch_small x y z H) as (E00 & E01 & E02 & E10 & E11 & E12 & E20 & E21 & E22).
  rewrite E00, E01, E02, E10, E11, E12, E20, E21, E22. apply p1_accurate. exact H.
Qed.

(** for EVERY rotation vector the routine is within 1e-20 of the exponential map *)
Lemma rotvec_is_expmap x y z :
  mat_close (1/10^20)
    (mat_from_rotvec_m00 x y z) (mat_from_rotvec_m01 x y z) (mat_from_rotvec_m02 x y z)
    (mat_from_rotvec_m10 x y z) (mat_from_rotvec_m11 x y z) (mat_from_rotvec_m12 x y z)
    (mat_from_rotvec_m20 x y z) (mat_from_rotvec_m21 x y z) (mat_from_rotvec_m22 x y z)
    (rotvec_m00 x y z) (rotvec_m01 x y z) (rotvec_m02 x y z)
    (rotvec_m10 x y z) (rotvec_m11 x y z) (rotvec_m12 x y z)
    (rotvec_m20 x y z) (rotvec_m21 x y z) (rotvec_m22 x y z).
Proof.
  destruct (Rle_or_lt (x*x + y*y + z*z) (1/1000000)) as [H|H].
  - apply rotvec_small_accurate. exact H.
  - assert (G : x*x + y*y + z*z > 1/1000000) by (unfold Rgt; exact H).
    destruct (rotvec_large_is_expmap x y z G) as (E00 & E01 & E02 & E10 & E11 & E12 & E20 & E21 & E22).
    unfold mat_close. rewrite E00, E01, E02, E10, E11, E12, E20, E21, E22.
    unfold Rminus. rewrite !Rplus_opp_r, Rabs_R0. repeat split; lra.
Qed.

Lemma rotvec_zero_is_identity :
  mat_eq (mat_from_rotvec_m00 0 0 0) (mat_from_rotvec_m01 0 0 0) (mat_from_rotvec_m02 0 0 0)
         (mat_from_rotvec_m10 0 0 0) (mat_from_rotvec_m11 0 0 0) (mat_from_rotvec_m12 0 0 0)
         (mat_from_rotvec_m20 0 0 0) (mat_from_rotvec_m21 0 0 0) (mat_from_rotvec_m22 0 0 0)
         1 0 0 0 1 0 0 0 1.
Proof.
  assert (H : 0*0 + 0*0 + 0*0 <= 1/1000000) by lra.
  destruct (rv_branch_small 0 0 0 H) as (E00 & E01 & E02 & E10 & E11 & E12 & E20 & E21 & E22).
  unfold mat_eq. rewrite E00, E01, E02, E10, E11, E12, E20, E21, E22. unf_rv_p1.
  repeat split; field.
Qed.

(** continuity across the branch threshold: wherever both formulas are defined and the
    Taylor branch may be taken (0 < |v|^2 <= 1e-6, in particular AT |v|^2 = 1e-6) the two
    branch formulas agree to 1e-20 *)
Lemma rotvec_branches_agree x y z : 0 < x*x + y*y + z*z <= 1/1000000 ->
  mat_close (1/10^20)
    (mat_from_rotvec_m00__p1 x y z) (mat_from_rotvec_m01__p1 x y z) (mat_from_rotvec_m02__p1 x y z)
    (mat_from_rotvec_m10__p1 x y z) (mat_from_rotvec_m11__p1 x y z) (mat_from_rotvec_m12__p1 x y z)
    (mat_from_rotvec_m20__p1 x y z) (mat_from_rotvec_m21__p1 x y z) (mat_from_rotvec_m22__p1 x y z)
    (mat_from_rotvec_m00__p0 x y z) (mat_from_rotvec_m01__p0 x y z) (mat_from_rotvec_m02__p0 x y z)
    (mat_from_rotvec_m10__p0 x y z) (mat_from_rotvec_m11__p0 x y z) (mat_from_rotvec_m12__p0 x y z)
    (mat_from_rotvec_m20__p0 x y z) (mat_from_rotvec_m21__p0 x y z) (mat_from_rotvec_m22__p0 x y z).
Proof.
  intros [Hpos Hle].
  destruct (p0_is_spec x y z Hpos) as (F00 & F01 & F02 & F10 & F11 & F12 & F20 & F21 & F22).
  rewrite F00, F01, F02, F10, F11, F12, F20, F21, F22. apply p1_accurate. exact Hle.
Qed.

Lemma rotvec_continuous_at_threshold x y z : x*x + y*y + z*z = 1/1000000 ->
  mat_close (1/10^20)
    (mat_from_rotvec_m00 x y z) (mat_from_rotvec_m01 x y z) (mat_from_rotvec_m02 x y z)
    (mat_from_rotvec_m10 x y z) (mat_from_rotvec_m11 x y z) (mat_from_rotvec_m12 x y z)
    (mat_from_rotvec_m20 x y z) (mat_from_rotvec_m21 x y z) (mat_from_rotvec_m22 x y z)
    (mat_from_rotvec_m00__p0 x y z) (mat_from_rotvec_m01__p0 x y z) (mat_from_rotvec_m02__p0 x y z)
    (mat_from_rotvec_m10__p0 x y z) (mat_from_rotvec_m11__p0 x y z) (mat_from_rotvec_m12__p0 x y z)
    (mat_from_rotvec_m20__p0 x y z) (mat_from_rotvec_m21__p0 x y z) (mat_from_rotvec_m22__p0 x y z).
Proof.
  intro H. assert (Hle : x*x + y*y + z*z <= 1/1000000) by lra.
  destruct (rv_branch_small x y z Hle) as (E00 & E01 & E02 & E10 & E11 & E12 & E20 & E21 & E22).
  rewrite E00, E01, E02, E10, E11, E12, E20, E21, E22. apply rotvec_branches_agree. lra.
Qed.

(** * 3. mat_from_rph: proper rotation, axis conventions *)

Ltac unf_rph :=
  unfold mat_from_rph_m00, mat_from_rph_m01, mat_from_rph_m02,
    mat_from_rph_m10, mat_from_rph_m11, mat_from_rph_m12,
    mat_from_rph_m20, mat_from_rph_m21, mat_from_rph_m22;
  repeat autounfold with mat_from_rph_db.

Ltac trig_facts r p h :=
  assert (Hr : sin r * sin r = 1 - cos r * cos r) by (pose proof (sc1 r); lra);
  assert (Hp : sin p * sin p = 1 - cos p * cos p) by (pose proof (sc1 p); lra);
  assert (Hh : sin h * sin h = 1 - cos h * cos h) by (pose proof (sc1 h); lra).

Lemma rph_is_proper_rotation roll pitch heading :
  let m00 := mat_from_rph_m00 roll pitch heading in let m01 := mat_from_rph_m01 roll pitch heading in
  let m02 := mat_from_rph_m02 roll pitch heading in let m10 := mat_from_rph_m10 roll pitch heading in
  let m11 := mat_from_rph_m11 roll pitch heading in let m12 := mat_from_rph_m12 roll pitch heading in
  let m20 := mat_from_rph_m20 roll pitch heading in let m21 := mat_from_rph_m21 roll pitch heading in
  let m22 := mat_from_rph_m22 roll pitch heading in
  orthonormal3 m00 m01 m02 m10 m11 m12 m20 m21 m22 /\
  orthonormal3 m00 m10 m20 m01 m11 m21 m02 m12 m22 /\
  det3 m00 m01 m02 m10 m11 m12 m20 m21 m22 = 1.
Proof.
  cbv zeta. unfold orthonormal3, det3. unf_rph.
  set (r := roll * (PI/180)). set (p := pitch * (PI/180)). set (h := heading * (PI/180)).
  trig_facts r p h.
  repeat split; ring [Hr Hp Hh].
Qed.

(** the matrix is Rz(heading) Ry(pitch) Rx(roll), angles in degrees *)
Lemma rph_is_RzRyRx roll pitch heading :
  let r := roll * d2r in let p := pitch * d2r in let h := heading * d2r in
  mat_eq (mat_from_rph_m00 roll pitch heading) (mat_from_rph_m01 roll pitch heading)
         (mat_from_rph_m02 roll pitch heading) (mat_from_rph_m10 roll pitch heading)
         (mat_from_rph_m11 roll pitch heading) (mat_from_rph_m12 roll pitch heading)
         (mat_from_rph_m20 roll pitch heading) (mat_from_rph_m21 roll pitch heading)
         (mat_from_rph_m22 roll pitch heading)
         (cos h * cos p) (cos h * sin p * sin r - sin h * cos r) (cos h * sin p * cos r + sin h * sin r)
         (sin h * cos p) (sin h * sin p * sin r + cos h * cos r) (sin h * sin p * cos r - cos h * sin r)
         (- sin p)       (cos p * sin r)                         (cos p * cos r).
Proof.
  cbv zeta. unfold mat_eq, d2r. unf_rph. repeat split; ring.
Qed.

(** conventions: image of the body axes in NED *)
Lemma rph_conventions roll pitch heading :
  let r := roll * d2r in let p := pitch * d2r in let h := heading * d2r in
  (* body x axis (nose) -> (north, east, down) *)
  (mat_from_rph_m00 roll pitch heading = cos p * cos h /\
   mat_from_rph_m10 roll pitch heading = cos p * sin h /\
   mat_from_rph_m20 roll pitch heading = - sin p) /\
  (* down components of the body y axis (right wing) and body z axis (belly) *)
  mat_from_rph_m21 roll pitch heading = sin r * cos p /\
  mat_from_rph_m22 roll pitch heading = cos r * cos p.
Proof.
  cbv zeta. unfold d2r. unf_rph. repeat split; ring.
Qed.

(** stacked input: row k of the (n,3) form equals the single form *)
Lemma rph_array_form_equal roll pitch heading :
  mat_eq (mat_from_rph_arr_m00 roll pitch heading) (mat_from_rph_arr_m01 roll pitch heading)
         (mat_from_rph_arr_m02 roll pitch heading) (mat_from_rph_arr_m10 roll pitch heading)
         (mat_from_rph_arr_m11 roll pitch heading) (mat_from_rph_arr_m12 roll pitch heading)
         (mat_from_rph_arr_m20 roll pitch heading) (mat_from_rph_arr_m21 roll pitch heading)
         (mat_from_rph_arr_m22 roll pitch heading)
         (mat_from_rph_m00 roll pitch heading) (mat_from_rph_m01 roll pitch heading)
         (mat_from_rph_m02 roll pitch heading) (mat_from_rph_m10 roll pitch heading)
         (mat_from_rph_m11 roll pitch heading) (mat_from_rph_m12 roll pitch heading)
         (mat_from_rph_m20 roll pitch heading) (mat_from_rph_m21 roll pitch heading)
         (mat_from_rph_m22 roll pitch heading).
Proof.
  unfold mat_eq.
  unfold mat_from_rph_arr_m00, mat_from_rph_arr_m01, mat_from_rph_arr_m02,
    mat_from_rph_arr_m10, mat_from_rph_arr_m11, mat_from_rph_arr_m12,
    mat_from_rph_arr_m20, mat_from_rph_arr_m21, mat_from_rph_arr_m22.
  repeat autounfold with mat_from_rph_arr_db. unf_rph. repeat split; ring.
Qed.

Lemma to_rph_array_form_equal roll pitch heading :
  mat_to_rph_arr_roll roll pitch heading = mat_to_rph_of_rph_roll roll pitch heading /\
  mat_to_rph_arr_pitch roll pitch heading = mat_to_rph_of_rph_pitch roll pitch heading /\
  mat_to_rph_arr_heading roll pitch heading = mat_to_rph_of_rph_heading roll pitch heading.
Proof.
  unfold mat_to_rph_arr_roll, mat_to_rph_arr_pitch, mat_to_rph_arr_heading,
    mat_to_rph_of_rph_roll, mat_to_rph_of_rph_pitch, mat_to_rph_of_rph_heading.
  repeat autounfold with mat_to_rph_arr_db. repeat autounfold with mat_to_rph_of_rph_db.
  repeat split; reflexivity.
Qed.

(** * 4. Euler round trip through the as_euler spec *)

Ltac unf_to_rph :=
  unfold mat_to_rph_of_rph_roll, mat_to_rph_of_rph_pitch, mat_to_rph_of_rph_heading,
    euler_roll, euler_pitch, euler_heading;
  repeat autounfold with mat_to_rph_of_rph_db.

Lemma deg_principal a : -180 < a <= 180 -> - PI < a * (PI / 180) <= PI.
Proof. intros [H1 H2]. pose proof PI_RGT_0. split; nra. Qed.

Lemma deg_back a : a * (PI / 180) * (180 / PI) = a.
Proof. field. apply PI_neq0. Qed.

Lemma rad_back a : a * (180 / PI) * (PI / 180) = a.
Proof. field. apply PI_neq0. Qed.

Lemma sqrt_kk k s c : 0 < k -> s * s + c * c = 1 -> sqrt (k * s * (k * s) + k * c * (k * c)) = k.
Proof.
  intros Hk H. replace (k * s * (k * s) + k * c * (k * c)) with (k * k) by nra.
  apply sqrt_square. lra.
Qed.

(** exact recovery on the principal ranges *)
Lemma rph_round_trip_exact roll pitch heading :
  -90 < pitch < 90 ->
  (-180 < roll <= 180 -> mat_to_rph_of_rph_roll roll pitch heading = roll) /\
  mat_to_rph_of_rph_pitch roll pitch heading = pitch /\
  (-180 < heading <= 180 -> mat_to_rph_of_rph_heading roll pitch heading = heading).
Proof.
  intro Hp. pose proof (cos_d2r_pos pitch Hp) as Hc.
  unf_to_rph. split; [|split].
  - intro Hr. rewrite atan2_sin_cos by (try apply deg_principal; assumption). apply deg_back.
  - rewrite sqrt_kk by (try apply sc1; assumption).
    replace (- - sin (pitch * (PI/180))) with (1 * sin (pitch * (PI/180))) by ring.
    replace (cos (pitch * (PI/180))) with (1 * cos (pitch * (PI/180))) by ring.
    rewrite atan2_sin_cos; [apply deg_back|lra|].
    pose proof PI_RGT_0. destruct Hp. split; nra.
  - intro Hh. rewrite (Rmult_comm (sin _)), (Rmult_comm (cos (heading * _))).
    rewrite atan2_sin_cos by (try apply deg_principal; assumption). apply deg_back.
Qed.

(** the recovered angles depend on roll and heading only through their sine and cosine *)
Lemma to_rph_periodic roll pitch heading (k1 k2 : Z) :
  mat_to_rph_of_rph_roll (roll + 360 * IZR k1) pitch (heading + 360 * IZR k2) =
    mat_to_rph_of_rph_roll roll pitch heading /\
  mat_to_rph_of_rph_pitch (roll + 360 * IZR k1) pitch (heading + 360 * IZR k2) =
    mat_to_rph_of_rph_pitch roll pitch heading /\
  mat_to_rph_of_rph_heading (roll + 360 * IZR k1) pitch (heading + 360 * IZR k2) =
    mat_to_rph_of_rph_heading roll pitch heading.
Proof.
  unf_to_rph.
  replace ((roll + 360 * IZR k1) * (PI / 180)) with (roll * (PI / 180) + 2 * IZR k1 * PI)
    by (field; apply PI_neq0).
  replace ((heading + 360 * IZR k2) * (PI / 180)) with (heading * (PI / 180) + 2 * IZR k2 * PI)
    by (field; apply PI_neq0).
  rewrite !sin_period_Z, !cos_period_Z. repeat split; reflexivity.
Qed.

(** for ALL roll and heading (|pitch| < 90): the same angles modulo 360 degrees, delivered
    in (-180, 180] *)
Lemma rph_round_trip roll pitch heading :
  -90 < pitch < 90 ->
  exists k1 k2 : Z,
    mat_to_rph_of_rph_roll roll pitch heading = roll + 360 * IZR k1 /\
    -180 < mat_to_rph_of_rph_roll roll pitch heading <= 180 /\
    mat_to_rph_of_rph_pitch roll pitch heading = pitch /\
    mat_to_rph_of_rph_heading roll pitch heading = heading + 360 * IZR k2 /\
    -180 < mat_to_rph_of_rph_heading roll pitch heading <= 180.
Proof.
  intro Hp. destruct (wrap_180 roll) as [k1 Hk1]. destruct (wrap_180 heading) as [k2 Hk2].
  exists k1, k2.
  destruct (to_rph_periodic roll pitch heading k1 k2) as (P1 & P2 & P3).
  destruct (rph_round_trip_exact (roll + 360 * IZR k1) pitch (heading + 360 * IZR k2) Hp)
    as (R1 & R2 & R3).
  rewrite <- P1, <- P2, <- P3. rewrite (R1 Hk1), R2, (R3 Hk2).
  repeat split; lra.
Qed.

Lemma rph_round_trip_sincos roll pitch heading :
  -90 < pitch < 90 ->
  sin (mat_to_rph_of_rph_roll roll pitch heading * d2r) = sin (roll * d2r) /\
  cos (mat_to_rph_of_rph_roll roll pitch heading * d2r) = cos (roll * d2r) /\
  mat_to_rph_of_rph_pitch roll pitch heading = pitch /\
  sin (mat_to_rph_of_rph_heading roll pitch heading * d2r) = sin (heading * d2r) /\
  cos (mat_to_rph_of_rph_heading roll pitch heading * d2r) = cos (heading * d2r).
Proof.
  intro Hp. destruct (rph_round_trip roll pitch heading Hp) as (k1 & k2 & E1 & _ & E2 & E3 & _).
  rewrite E1, E2, E3. unfold d2r.
  replace ((roll + 360 * IZR k1) * (PI / 180)) with (roll * (PI / 180) + 2 * IZR k1 * PI)
    by (field; apply PI_neq0).
  replace ((heading + 360 * IZR k2) * (PI / 180)) with (heading * (PI / 180) + 2 * IZR k2 * PI)
    by (field; apply PI_neq0).
  rewrite !sin_period_Z, !cos_period_Z. repeat split; reflexivity.
Qed.

(** for every pitch with cos pitch <> 0 (also |pitch| > 90, where as_euler returns the other
    Euler triple of the same rotation): the recovered angles give back the same matrix *)
Lemma rph_round_trip_matrix roll pitch heading :
  cos (pitch * d2r) <> 0 ->
  let r' := mat_to_rph_of_rph_roll roll pitch heading in
  let p' := mat_to_rph_of_rph_pitch roll pitch heading in
  let h' := mat_to_rph_of_rph_heading roll pitch heading in
  mat_eq (mat_from_rph_m00 r' p' h') (mat_from_rph_m01 r' p' h') (mat_from_rph_m02 r' p' h')
         (mat_from_rph_m10 r' p' h') (mat_from_rph_m11 r' p' h') (mat_from_rph_m12 r' p' h')
         (mat_from_rph_m20 r' p' h') (mat_from_rph_m21 r' p' h') (mat_from_rph_m22 r' p' h')
         (mat_from_rph_m00 roll pitch heading) (mat_from_rph_m01 roll pitch heading)
         (mat_from_rph_m02 roll pitch heading) (mat_from_rph_m10 roll pitch heading)
         (mat_from_rph_m11 roll pitch heading) (mat_from_rph_m12 roll pitch heading)
         (mat_from_rph_m20 roll pitch heading) (mat_from_rph_m21 roll pitch heading)
         (mat_from_rph_m22 roll pitch heading).
Proof.
  unfold d2r. intro Hk. cbv zeta. unfold mat_eq. unf_rph. unf_to_rph. rewrite !rad_back.
  set (r := roll * (PI/180)). set (p := pitch * (PI/180)). set (h := heading * (PI/180)).
  fold p in Hk. set (k := cos p) in *.
  pose proof (sc1 r) as Er. pose proof (sc1 p) as Ep. pose proof (sc1 h) as Eh. fold k in Ep.
  set (a := sqrt (k * sin r * (k * sin r) + k * cos r * (k * cos r))).
  assert (Hkk : 0 < k * k) by nra.
  assert (Ha2 : a * a = k * k).
  { unfold a. rewrite sqrt_sqrt by nra. nra. }
  assert (Ha : 0 < a).
  { unfold a. apply sqrt_lt_R0. nra. }
  assert (Sr : sin (atan2 (k * sin r) (k * cos r)) = k * sin r / a).
  { rewrite sin_atan2 by nra. unfold a. f_equal. f_equal. ring. }
  assert (Cr : cos (atan2 (k * sin r) (k * cos r)) = k * cos r / a).
  { rewrite cos_atan2 by nra. unfold a. f_equal. f_equal. ring. }
  assert (Q1 : sqrt (a * a + - - sin p * - - sin p) = 1).
  { replace (a * a + - - sin p * - - sin p) with 1 by nra. apply sqrt_1. }
  assert (Sp : sin (atan2 (- - sin p) a) = sin p).
  { rewrite sin_atan2 by nra. rewrite Q1. field. }
  assert (Cp : cos (atan2 (- - sin p) a) = a).
  { rewrite cos_atan2 by nra. rewrite Q1. field. }
  assert (Q2 : sqrt (cos h * k * (cos h * k) + sin h * k * (sin h * k)) = a).
  { apply sqrt_lem_1; [nra|lra|nra]. }
  assert (Sh : sin (atan2 (sin h * k) (cos h * k)) = sin h * k / a).
  { rewrite sin_atan2 by nra. rewrite Q2. reflexivity. }
  assert (Ch : cos (atan2 (sin h * k) (cos h * k)) = cos h * k / a).
  { rewrite cos_atan2 by nra. rewrite Q2. reflexivity. }
  rewrite Sr, Cr, Sp, Cp, Sh, Ch.
  assert (Hk2 : k * k = a * a) by lra.
  repeat split; (field_simplify_eq; [ring [Hk2] | lra]).
Qed.

(** * 5. _phi_to_delta_rph is the derivative of the Euler angles under C -> Rot(-phi) C *)

Ltac unf_T :=
  unfold phi_to_delta_rph_t00, phi_to_delta_rph_t01, phi_to_delta_rph_t02,
    phi_to_delta_rph_t10, phi_to_delta_rph_t11, phi_to_delta_rph_t12,
    phi_to_delta_rph_t20, phi_to_delta_rph_t21, phi_to_delta_rph_t22;
  repeat autounfold with phi_to_delta_rph_db.

Lemma phi_to_delta_array_form_equal roll pitch heading :
  mat_eq (phi_to_delta_rph_arr_t00 roll pitch heading) (phi_to_delta_rph_arr_t01 roll pitch heading)
         (phi_to_delta_rph_arr_t02 roll pitch heading) (phi_to_delta_rph_arr_t10 roll pitch heading)
         (phi_to_delta_rph_arr_t11 roll pitch heading) (phi_to_delta_rph_arr_t12 roll pitch heading)
         (phi_to_delta_rph_arr_t20 roll pitch heading) (phi_to_delta_rph_arr_t21 roll pitch heading)
         (phi_to_delta_rph_arr_t22 roll pitch heading)
         (phi_to_delta_rph_t00 roll pitch heading) (phi_to_delta_rph_t01 roll pitch heading)
         (phi_to_delta_rph_t02 roll pitch heading) (phi_to_delta_rph_t10 roll pitch heading)
         (phi_to_delta_rph_t11 roll pitch heading) (phi_to_delta_rph_t12 roll pitch heading)
         (phi_to_delta_rph_t20 roll pitch heading) (phi_to_delta_rph_t21 roll pitch heading)
         (phi_to_delta_rph_t22 roll pitch heading).
Proof.
  unfold mat_eq.
  unfold phi_to_delta_rph_arr_t00, phi_to_delta_rph_arr_t01, phi_to_delta_rph_arr_t02,
    phi_to_delta_rph_arr_t10, phi_to_delta_rph_arr_t11, phi_to_delta_rph_arr_t12,
    phi_to_delta_rph_arr_t20, phi_to_delta_rph_arr_t21, phi_to_delta_rph_arr_t22.
  repeat autounfold with phi_to_delta_rph_arr_db. unf_T. repeat split; reflexivity.
Qed.

(** Let d = T(rph) phi (degrees; phi in radians).  Moving the Euler angles along d changes the
    attitude matrix, to first order, exactly as the rotation Rot(-eps phi) applied on the left:
      d/d eps C(rph + eps d) at 0  =  - [phi x] C(rph)  =  d/d eps (Rot(-eps phi) C(rph)) at 0. *)
Lemma euler_jacobian roll pitch heading f0 f1 f2 :
  cos (pitch * d2r) <> 0 ->
  let d0 := phi_to_delta_rph_t00 roll pitch heading * f0 + phi_to_delta_rph_t01 roll pitch heading * f1
            + phi_to_delta_rph_t02 roll pitch heading * f2 in
  let d1 := phi_to_delta_rph_t10 roll pitch heading * f0 + phi_to_delta_rph_t11 roll pitch heading * f1
            + phi_to_delta_rph_t12 roll pitch heading * f2 in
  let d2 := phi_to_delta_rph_t20 roll pitch heading * f0 + phi_to_delta_rph_t21 roll pitch heading * f1
            + phi_to_delta_rph_t22 roll pitch heading * f2 in
  let c00 := mat_from_rph_m00 roll pitch heading in let c01 := mat_from_rph_m01 roll pitch heading in
  let c02 := mat_from_rph_m02 roll pitch heading in let c10 := mat_from_rph_m10 roll pitch heading in
  let c11 := mat_from_rph_m11 roll pitch heading in let c12 := mat_from_rph_m12 roll pitch heading in
  let c20 := mat_from_rph_m20 roll pitch heading in let c21 := mat_from_rph_m21 roll pitch heading in
  let c22 := mat_from_rph_m22 roll pitch heading in
  is_derive (fun e => mat_from_rph_m00 (roll + e * d0) (pitch + e * d1) (heading + e * d2)) 0 (f2 * c10 - f1 * c20) /\
  is_derive (fun e => mat_from_rph_m01 (roll + e * d0) (pitch + e * d1) (heading + e * d2)) 0 (f2 * c11 - f1 * c21) /\
  is_derive (fun e => mat_from_rph_m02 (roll + e * d0) (pitch + e * d1) (heading + e * d2)) 0 (f2 * c12 - f1 * c22) /\
  is_derive (fun e => mat_from_rph_m10 (roll + e * d0) (pitch + e * d1) (heading + e * d2)) 0 (f0 * c20 - f2 * c00) /\
  is_derive (fun e => mat_from_rph_m11 (roll + e * d0) (pitch + e * d1) (heading + e * d2)) 0 (f0 * c21 - f2 * c01) /\
  is_derive (fun e => mat_from_rph_m12 (roll + e * d0) (pitch + e * d1) (heading + e * d2)) 0 (f0 * c22 - f2 * c02) /\
  is_derive (fun e => mat_from_rph_m20 (roll + e * d0) (pitch + e * d1) (heading + e * d2)) 0 (f1 * c00 - f0 * c10) /\
  is_derive (fun e => mat_from_rph_m21 (roll + e * d0) (pitch + e * d1) (heading + e * d2)) 0 (f1 * c01 - f0 * c11) /\
  is_derive (fun e => mat_from_rph_m22 (roll + e * d0) (pitch + e * d1) (heading + e * d2)) 0 (f1 * c02 - f0 * c12).
Proof.
  intros Hk d0 d1 d2. cbv zeta. unfold d2r in Hk.
  assert (E0 : d0 = (- cos (heading * (PI/180)) * f0 - sin (heading * (PI/180)) * f1)
                    / cos (pitch * (PI/180)) * (180 / PI)).
  { unfold d0. unf_T. field. split; [apply PI_neq0|exact Hk]. }
  assert (E1 : d1 = (sin (heading * (PI/180)) * f0 - cos (heading * (PI/180)) * f1) * (180 / PI)).
  { unfold d1. unf_T. field. apply PI_neq0. }
  assert (E2 : d2 = ((- cos (heading * (PI/180)) * f0 - sin (heading * (PI/180)) * f1)
                     * sin (pitch * (PI/180)) / cos (pitch * (PI/180)) - f2) * (180 / PI)).
  { unfold d2. unf_T. field. split; [apply PI_neq0|exact Hk]. }
  clearbody d0 d1 d2. unf_rph.
  repeat match goal with |- _ /\ _ => split end; (auto_derive; [exact I|]);
    rewrite ?Rmult_0_l, ?Rplus_0_r; rewrite ?E0, ?E1, ?E2;
    set (r := roll * (PI/180)); set (p := pitch * (PI/180)); set (h := heading * (PI/180));
    fold p in Hk; trig_facts r p h;
    (field_simplify_eq; [ring [Hr Hp Hh] | repeat match goal with |- _ /\ _ => split end; first [exact Hk | apply PI_neq0]]).
Qed.

Lemma mul_zero a b : a <> 0 -> a * b = 0 -> b = 0.
Proof. intros Ha H. destruct (Rmult_integral _ _ H); [contradiction|assumption]. Qed.

(** the partial derivatives of C with respect to (roll, pitch, heading) are linearly
    independent when cos pitch <> 0: the Euler-angle change d that reproduces a given
    first-order change of C is unique, so T phi above is THE derivative of the angles *)
Lemma euler_partials_injective roll pitch heading d0 d1 d2 :
  cos (pitch * d2r) <> 0 ->
  is_derive (fun e => mat_from_rph_m00 (roll + e * d0) (pitch + e * d1) (heading + e * d2)) 0 0 ->
  is_derive (fun e => mat_from_rph_m10 (roll + e * d0) (pitch + e * d1) (heading + e * d2)) 0 0 ->
  is_derive (fun e => mat_from_rph_m20 (roll + e * d0) (pitch + e * d1) (heading + e * d2)) 0 0 ->
  is_derive (fun e => mat_from_rph_m21 (roll + e * d0) (pitch + e * d1) (heading + e * d2)) 0 0 ->
  is_derive (fun e => mat_from_rph_m22 (roll + e * d0) (pitch + e * d1) (heading + e * d2)) 0 0 ->
  d0 = 0 /\ d1 = 0 /\ d2 = 0.
Proof.
  unfold d2r. intros Hk H00 H10 H20 H21 H22.
  set (r := roll * (PI/180)). set (p := pitch * (PI/180)). set (h := heading * (PI/180)).
  set (k := PI / 180). assert (Hk0 : k <> 0) by (unfold k; pose proof PI_RGT_0; lra).
  assert (D20 : is_derive (fun e => mat_from_rph_m20 (roll + e * d0) (pitch + e * d1) (heading + e * d2)) 0
                  (- (cos p * (d1 * k)))).
  { unf_rph. auto_derive; [exact I|]. rewrite ?Rmult_0_l, ?Rplus_0_r. unfold p, k. ring. }
  assert (D21 : is_derive (fun e => mat_from_rph_m21 (roll + e * d0) (pitch + e * d1) (heading + e * d2)) 0
                  (cos p * cos r * (d0 * k) - sin p * sin r * (d1 * k))).
  { unf_rph. auto_derive; [exact I|]. rewrite ?Rmult_0_l, ?Rplus_0_r. unfold p, r, k. ring. }
  assert (D22 : is_derive (fun e => mat_from_rph_m22 (roll + e * d0) (pitch + e * d1) (heading + e * d2)) 0
                  (- (cos p * sin r * (d0 * k)) - sin p * cos r * (d1 * k))).
  { unf_rph. auto_derive; [exact I|]. rewrite ?Rmult_0_l, ?Rplus_0_r. unfold p, r, k. ring. }
  assert (D00 : is_derive (fun e => mat_from_rph_m00 (roll + e * d0) (pitch + e * d1) (heading + e * d2)) 0
                  (- (sin h * cos p * (d2 * k)) - cos h * sin p * (d1 * k))).
  { unf_rph. auto_derive; [exact I|]. rewrite ?Rmult_0_l, ?Rplus_0_r. unfold p, h, k. ring. }
  assert (D10 : is_derive (fun e => mat_from_rph_m10 (roll + e * d0) (pitch + e * d1) (heading + e * d2)) 0
                  (cos h * cos p * (d2 * k) - sin h * sin p * (d1 * k))).
  { unf_rph. auto_derive; [exact I|]. rewrite ?Rmult_0_l, ?Rplus_0_r. unfold p, h, k. ring. }
  pose proof (eq_trans (eq_sym (is_derive_unique _ _ _ D20)) (is_derive_unique _ _ _ H20)) as L20.
  pose proof (eq_trans (eq_sym (is_derive_unique _ _ _ D21)) (is_derive_unique _ _ _ H21)) as L21.
  pose proof (eq_trans (eq_sym (is_derive_unique _ _ _ D22)) (is_derive_unique _ _ _ H22)) as L22.
  pose proof (eq_trans (eq_sym (is_derive_unique _ _ _ D00)) (is_derive_unique _ _ _ H00)) as L00.
  pose proof (eq_trans (eq_sym (is_derive_unique _ _ _ D10)) (is_derive_unique _ _ _ H10)) as L10.
  fold p in Hk.
  assert (Z1 : d1 = 0).
  { apply (mul_zero k); [exact Hk0|]. apply (mul_zero (cos p)); [exact Hk|]. lra. }
  subst d1.
  pose proof (sc1 r) as Er. pose proof (sc1 h) as Eh.
  assert (A0 : cos r * (d0 * k) = 0) by (apply (mul_zero (cos p)); [exact Hk|]; lra).
  assert (B0 : sin r * (d0 * k) = 0) by (apply (mul_zero (cos p)); [exact Hk|]; lra).
  assert (Z0 : d0 = 0).
  { apply (mul_zero k); [exact Hk0|].
    replace (k * d0) with ((sin r * sin r + cos r * cos r) * (d0 * k)) by (rewrite Er; ring).
    replace ((sin r * sin r + cos r * cos r) * (d0 * k))
      with (sin r * (sin r * (d0 * k)) + cos r * (cos r * (d0 * k))) by ring.
    rewrite A0, B0. ring. }
  assert (A2 : cos h * (d2 * k) = 0) by (apply (mul_zero (cos p)); [exact Hk|]; lra).
  assert (B2 : sin h * (d2 * k) = 0) by (apply (mul_zero (cos p)); [exact Hk|]; lra).
  assert (Z2 : d2 = 0).
  { apply (mul_zero k); [exact Hk0|].
    replace (k * d2) with ((sin h * sin h + cos h * cos h) * (d2 * k)) by (rewrite Eh; ring).
    replace ((sin h * sin h + cos h * cos h) * (d2 * k))
      with (sin h * (sin h * (d2 * k)) + cos h * (cos h * (d2 * k))) by ring.
    rewrite A2, B2. ring. }
  repeat split; assumption.
Qed.

(** * 6. The derivative of the exponential map at 0 is the skew matrix
    (so that - [phi x] C above is indeed d/d eps of Rot(-eps phi) C at eps = 0,
    Rot = scipy's from_rotvec as specified in LibSpecs) *)

Section ExpmapLine.
  Variables f0 f1 f2 : R.
  Let N := sqrt (f0*f0 + f1*f1 + f2*f2).
  Hypothesis HN : 0 < N.

  Lemma line_norm e : sqrt (e*f0*(e*f0) + e*f1*(e*f1) + e*f2*(e*f2)) = Rabs e * N.
  Proof.
    replace (e*f0*(e*f0) + e*f1*(e*f1) + e*f2*(e*f2)) with (e² * (f0*f0 + f1*f1 + f2*f2))
      by (unfold Rsqr; ring).
    rewrite sqrt_mult; [|apply Rle_0_sqr|nra]. rewrite sqrt_Rsqr_abs. reflexivity.
  Qed.

  Lemma line_cos e : rv_cos (e*f0) (e*f1) (e*f2) = cos (e * N).
  Proof.
    unfold rv_cos, rv_norm. rewrite line_norm. unfold Rabs. destruct (Rcase_abs e); [|reflexivity].
    replace (- e * N) with (- (e * N)) by ring. apply cos_neg.
  Qed.

  Lemma line_k1 e : rv_k1 (e*f0) (e*f1) (e*f2) * e = sin (e * N) / N.
  Proof.
    unfold rv_k1, rv_norm. rewrite line_norm.
    destruct (Req_EM_T (Rabs e * N) 0) as [E|NE].
    - assert (e = 0).
      { destruct (Rmult_integral _ _ E) as [A|A]; [|lra].
        destruct (Req_dec e 0) as [Z|Z]; [exact Z|]. apply Rabs_no_R0 in Z. contradiction. }
      subst e. rewrite Rmult_0_l, sin_0. field. lra.
    - unfold Rabs in *. destruct (Rcase_abs e) as [Hneg|Hpos].
      + replace (- e * N) with (- (e * N)) by ring. rewrite sin_neg. field. split; [lra|].
        intro Z. apply NE. rewrite Z. ring.
      + field. split; [lra|]. intro Z. apply NE. rewrite Z. ring.
  Qed.

  Lemma line_k2 e : rv_k2 (e*f0) (e*f1) (e*f2) * e * e = (1 - cos (e * N)) / (N * N).
  Proof.
    pose proof (line_cos e) as HC. unfold rv_cos, rv_norm in HC.
    unfold rv_k2, rv_norm. rewrite HC. rewrite line_norm.
    assert (HNN : N * N = f0*f0 + f1*f1 + f2*f2) by (apply sqrt_sqrt; nra).
    destruct (Req_EM_T (Rabs e * N) 0) as [E|NE].
    - assert (e = 0).
      { destruct (Rmult_integral _ _ E) as [A|A]; [|lra].
        destruct (Req_dec e 0) as [Z|Z]; [exact Z|]. apply Rabs_no_R0 in Z. contradiction. }
      subst e. rewrite Rmult_0_l, cos_0. field. lra.
    - assert (e <> 0) by (intro Z; apply NE; rewrite Z, Rabs_R0; ring).
      replace (e*f0*(e*f0) + e*f1*(e*f1) + e*f2*(e*f2)) with (e * e * (N * N)) by (rewrite HNN; ring).
      field. split; lra.
  Qed.

  Lemma line_entries e :
    mat_eq (rotvec_m00 (e*f0) (e*f1) (e*f2)) (rotvec_m01 (e*f0) (e*f1) (e*f2)) (rotvec_m02 (e*f0) (e*f1) (e*f2))
           (rotvec_m10 (e*f0) (e*f1) (e*f2)) (rotvec_m11 (e*f0) (e*f1) (e*f2)) (rotvec_m12 (e*f0) (e*f1) (e*f2))
           (rotvec_m20 (e*f0) (e*f1) (e*f2)) (rotvec_m21 (e*f0) (e*f1) (e*f2)) (rotvec_m22 (e*f0) (e*f1) (e*f2))
           ((1 - cos (e*N)) / (N*N) * f0 * f0 + cos (e*N))
           ((1 - cos (e*N)) / (N*N) * f0 * f1 - sin (e*N) / N * f2)
           ((1 - cos (e*N)) / (N*N) * f0 * f2 + sin (e*N) / N * f1)
           ((1 - cos (e*N)) / (N*N) * f1 * f0 + sin (e*N) / N * f2)
           ((1 - cos (e*N)) / (N*N) * f1 * f1 + cos (e*N))
           ((1 - cos (e*N)) / (N*N) * f1 * f2 - sin (e*N) / N * f0)
           ((1 - cos (e*N)) / (N*N) * f2 * f0 - sin (e*N) / N * f1)
           ((1 - cos (e*N)) / (N*N) * f2 * f1 + sin (e*N) / N * f0)
           ((1 - cos (e*N)) / (N*N) * f2 * f2 + cos (e*N)).
  Proof.
    unfold mat_eq, rotvec_m00, rotvec_m01, rotvec_m02, rotvec_m10, rotvec_m11, rotvec_m12,
      rotvec_m20, rotvec_m21, rotvec_m22.
    rewrite <- (line_k1 e), <- (line_k2 e), (line_cos e). repeat split; ring.
  Qed.
End ExpmapLine.

(** d/d eps [Rot(-eps phi) c] at 0 = - phi x c for every vector c (a column of C) *)
Lemma platform_rotation_derivative f0 f1 f2 c0 c1 c2 :
  is_derive (fun e => rotvec_m00 (-e*f0) (-e*f1) (-e*f2) * c0 + rotvec_m01 (-e*f0) (-e*f1) (-e*f2) * c1
                      + rotvec_m02 (-e*f0) (-e*f1) (-e*f2) * c2) 0 (f2 * c1 - f1 * c2) /\
  is_derive (fun e => rotvec_m10 (-e*f0) (-e*f1) (-e*f2) * c0 + rotvec_m11 (-e*f0) (-e*f1) (-e*f2) * c1
                      + rotvec_m12 (-e*f0) (-e*f1) (-e*f2) * c2) 0 (f0 * c2 - f2 * c0) /\
  is_derive (fun e => rotvec_m20 (-e*f0) (-e*f1) (-e*f2) * c0 + rotvec_m21 (-e*f0) (-e*f1) (-e*f2) * c1
                      + rotvec_m22 (-e*f0) (-e*f1) (-e*f2) * c2) 0 (f1 * c0 - f0 * c1).
Proof.
  destruct (Req_dec (f0*f0 + f1*f1 + f2*f2) 0) as [Z|NZ].
  - assert (f0 = 0) by nra. assert (f1 = 0) by nra. assert (f2 = 0) by nra. subst f0 f1 f2.
    repeat match goal with |- _ /\ _ => split end;
      (eapply is_derive_ext; [intro t; symmetry; replace (- t * 0) with 0 by ring; reflexivity|]);
      (auto_derive; [exact I|ring]).
  - set (N := sqrt (f0*f0 + f1*f1 + f2*f2)).
    assert (HN : 0 < N) by (apply sqrt_lt_R0; nra).
    repeat match goal with |- _ /\ _ => split end.
    + eapply is_derive_ext.
      { intro t. symmetry. destruct (line_entries f0 f1 f2 HN (- t)) as (E00 & E01 & E02 & _).
        rewrite E00, E01, E02. reflexivity. }
      fold N. auto_derive; [exact I|]. rewrite ?Ropp_0, ?Rmult_0_l, sin_0, cos_0. field. lra.
    + eapply is_derive_ext.
      { intro t. symmetry. destruct (line_entries f0 f1 f2 HN (- t)) as (_ & _ & _ & E10 & E11 & E12 & _).
        rewrite E10, E11, E12. reflexivity. }
      fold N. auto_derive; [exact I|]. rewrite ?Ropp_0, ?Rmult_0_l, sin_0, cos_0. field. lra.
    + eapply is_derive_ext.
      { intro t. symmetry. destruct (line_entries f0 f1 f2 HN (- t)) as (_ & _ & _ & _ & _ & _ & E20 & E21 & E22).
        rewrite E20, E21, E22. reflexivity. }
      fold N. auto_derive; [exact I|]. rewrite ?Ropp_0, ?Rmult_0_l, sin_0, cos_0. field. lra.
Qed.

(** * Non-vacuity: the hypotheses are satisfiable, and concrete values show the senses *)

Lemma ex_large_branch : 1*1 + 0*0 + 0*0 > 1/1000000.
Proof. lra. Qed.

Lemma ex_small_branch : 0 < (1/2000)*(1/2000) + 0*0 + 0*0 <= 1/1000000.
Proof. lra. Qed.

Lemma ex_threshold : (1/1000)*(1/1000) + 0*0 + 0*0 = 1/1000000.
Proof. lra. Qed.

Lemma ex_pitch : -90 < 30 < 90 /\ cos (30 * d2r) <> 0 /\ cos (100 * d2r) <> 0.
Proof.
  unfold d2r. split; [lra|]. split.
  - assert (0 < cos (30 * (PI / 180))) by interval. lra.
  - assert (cos (100 * (PI / 180)) < 0) by interval. lra.
Qed.

(** rotation by +90 deg about z (down) takes x (north) to y (east): right-handed sense *)
Lemma ex_rotvec_sense :
  mat_from_rotvec_m10 0 0 (PI/2) = 1 /\ mat_from_rotvec_m01 0 0 (PI/2) = -1 /\
  mat_from_rotvec_m22 0 0 (PI/2) = 1.
Proof.
  assert (G : 0*0 + 0*0 + (PI/2)*(PI/2) > 1/1000000).
  { assert (3 < PI) by interval. unfold Rgt. nra. }
  destruct (rv_branch_large _ _ _ G) as (E00 & E01 & E02 & E10 & E11 & E12 & E20 & E21 & E22).
  rewrite E10, E01, E22. unf_rv_p0.
  replace (0*0 + 0*0 + PI/2*(PI/2)) with ((PI/2)*(PI/2)) by ring.
  assert (HP : 0 < PI/2) by (pose proof PI_RGT_0; lra).
  rewrite sqrt_square by lra. rewrite sin_PI2, cos_PI2.
  repeat split; field; lra.
Qed.

(** heading 90: nose to east; pitch 90: nose up (down component -1); roll 90: right wing down *)
Lemma ex_rph_senses :
  mat_from_rph_m10 0 0 90 = 1 /\ mat_from_rph_m20 0 90 0 = -1 /\ mat_from_rph_m21 90 0 0 = 1.
Proof.
  unf_rph. replace (90 * (PI / 180)) with (PI / 2) by field.
  rewrite Rmult_0_l, sin_PI2, cos_0. repeat split; ring.
Qed.

(** a round trip that needs the wrap: roll 350 comes back as -10, heading -200 as 160 *)
Lemma ex_round_trip_wraps :
  mat_to_rph_of_rph_roll 350 30 (-200) = -10 /\ mat_to_rph_of_rph_pitch 350 30 (-200) = 30 /\
  mat_to_rph_of_rph_heading 350 30 (-200) = 160.
Proof.
  destruct (to_rph_periodic 350 30 (-200) (-1) 1) as (P1 & P2 & P3).
  assert (Hp : -90 < 30 < 90) by lra.
  destruct (rph_round_trip_exact (350 + 360 * IZR (-1)) 30 (-200 + 360 * IZR 1) Hp) as (R1 & R2 & R3).
  rewrite <- P1, <- P2, <- P3. rewrite R1, R2, R3 by lra. repeat split; lra.
Qed.
