(** Proofs about the Integrator model (C02; generic invariant for C13).

    Everything is proved for arbitrary row types and arbitrary
    [kstep / to_pub / of_pub / zero_vd / inc_time / garbage], any initial
    capacity >= 1 and both altitude modes, by induction over the operation list. *)
From Coq Require Import List Arith Bool ZArith Lia.
From PV Require Import Model.Integrator.
Import ListNotations.

(** * Lists *)

Lemma upd_app_here {A} (pre : list A) x l y :
  upd (pre ++ x :: l) (length pre) y = Some (pre ++ y :: l).
Proof.
  induction pre as [|h t IH]; cbn; [reflexivity|]. rewrite IH. reflexivity.
Qed.

Lemma upd_app_next {A} (pre : list A) x l y :
  upd (pre ++ x :: l) (S (length pre)) y =
  match l with [] => None | _ :: l' => Some (pre ++ x :: y :: l') end.
Proof.
  induction pre as [|h t IH]; cbn.
  - destruct l; reflexivity.
  - rewrite IH. destruct l; reflexivity.
Qed.

Lemma upd_Some_length {A} (l : list A) i x l' :
  upd l i x = Some l' -> i < length l /\ length l' = length l.
Proof.
  revert i l'. induction l as [|h t IH]; intros i l' H; cbn in H; [discriminate|].
  destruct i as [|i].
  - inversion H; subst. cbn. lia.
  - destruct (upd t i x) as [t'|] eqn:E; [|discriminate]. inversion H; subst.
    destruct (IH _ _ E). cbn. lia.
Qed.

Lemma nth_error_app_here {A} (pre : list A) x l :
  nth_error (pre ++ x :: l) (length pre) = Some x.
Proof. induction pre; cbn; auto. Qed.

Lemma skipn_zip {A} (pre : list A) x l : skipn (S (length pre)) (pre ++ x :: l) = l.
Proof. induction pre; cbn; auto. Qed.

Lemma firstn_app_exact {A} (l1 l2 : list A) n :
  length l1 = n -> firstn n (l1 ++ l2) = l1.
Proof.
  revert n. induction l1 as [|h t IH]; intros n H; cbn in *; subst; cbn; [reflexivity|].
  f_equal. apply IH. reflexivity.
Qed.

Lemma firstn_zip {A} (pre : list A) x l n :
  S (length pre) = n -> firstn n (pre ++ x :: l) = pre ++ [x].
Proof.
  intros H. replace (pre ++ x :: l) with ((pre ++ [x]) ++ l)
    by (rewrite <- app_assoc; reflexivity).
  apply firstn_app_exact. rewrite app_length. cbn. lia.
Qed.

Lemma skipn_app_exact {A} (l1 l2 : list A) n :
  length l1 = n -> skipn n (l1 ++ l2) = l2.
Proof.
  revert n. induction l1 as [|h t IH]; intros n H; cbn in *; subst; cbn; [reflexivity|].
  apply IH. reflexivity.
Qed.

Lemma last_cons_default {A} (l : list A) x d : last (x :: l) d = last l x.
Proof.
  revert x d. induction l as [|y l IH]; intros x d; [reflexivity|].
  change (last (x :: y :: l) d) with (last (y :: l) d).
  rewrite (IH y d), (IH y x). reflexivity.
Qed.

Lemma last_app_default {A} (l1 l2 : list A) d : last (l1 ++ l2) d = last l2 (last l1 d).
Proof.
  revert d. induction l1 as [|x l1 IH]; intros d; [reflexivity|].
  change ((x :: l1) ++ l2) with (x :: (l1 ++ l2)).
  rewrite !last_cons_default. apply IH.
Qed.

Lemma snoc_view {A} (l : list A) d : l <> [] -> l = removelast l ++ [last l d].
Proof. apply app_removelast_last. Qed.

Lemma nonempty_snoc {A} (l : list A) : 1 <= length l -> exists l' x, l = l' ++ [x].
Proof.
  intros H. destruct l as [|a l]; [cbn in H; lia|].
  exists (removelast (a :: l)), (last (a :: l) a). apply snoc_view. discriminate.
Qed.

Lemma last_opt_snoc {A} (l : list A) x : last_opt (l ++ [x]) = Some x.
Proof.
  induction l as [|h t IH]; [reflexivity|].
  cbn [app last_opt]. destruct (t ++ [x]) eqn:E.
  - destruct t; discriminate.
  - exact IH.
Qed.

Lemma lastn_app_exact {A} (l1 l2 : list A) k :
  length l2 = k -> lastn k (l1 ++ l2) = l2.
Proof.
  intros H. unfold lastn. apply skipn_app_exact. rewrite app_length. lia.
Qed.

Lemma lastn_app_le {A} (l1 l2 : list A) k :
  k <= length l2 -> lastn k (l1 ++ l2) = lastn k l2.
Proof.
  intros H. unfold lastn. rewrite app_length, skipn_app.
  rewrite skipn_all2 by lia. cbn [app]. f_equal. lia.
Qed.

Lemma combine_app {A B} (l1 l2 : list A) (m1 m2 : list B) :
  length l1 = length m1 ->
  combine (l1 ++ l2) (m1 ++ m2) = combine l1 m1 ++ combine l2 m2.
Proof.
  revert m1. induction l1 as [|a l1 IH]; intros [|b m1] H; cbn in *; try discriminate; auto.
  f_equal. apply IH. lia.
Qed.

Lemma map_fst_combine {A B} (l : list A) (m : list B) :
  length l = length m -> map fst (combine l m) = l.
Proof.
  revert m. induction l as [|a l IH]; intros [|b m] H; cbn in *; try discriminate; auto.
  f_equal. apply IH. lia.
Qed.

Lemma scanl_length {A B} (f : A -> B -> A) a l : length (scanl f a l) = length l.
Proof. revert a. induction l; intros; cbn; auto. Qed.

Lemma scanl_app {A B} (f : A -> B -> A) a l1 l2 :
  scanl f a (l1 ++ l2) = scanl f a l1 ++ scanl f (last (scanl f a l1) a) l2.
Proof.
  revert a. induction l1 as [|b l1 IH]; intros a; [reflexivity|].
  cbn [app scanl]. rewrite IH, last_cons_default. reflexivity.
Qed.

Lemma Forall2_len {A B} (R : A -> B -> Prop) l1 l2 :
  Forall2 R l1 l2 -> length l1 = length l2.
Proof. induction 1; cbn; congruence. Qed.

(** advancing the zipper over freshly written rows *)
Lemma zip_advance {A} (rows : list A) : forall pre cur Y,
  exists pre', pre ++ cur :: rows ++ Y = pre' ++ last rows cur :: Y /\
               length pre' = length pre + length rows.
Proof.
  induction rows as [|r rs IH]; intros pre cur Y.
  - exists pre. cbn. split; [reflexivity|lia].
  - destruct (IH (pre ++ [cur]) r Y) as [pre' [E L]].
    exists pre'. rewrite last_cons_default. split.
    + rewrite <- E, <- app_assoc. reflexivity.
    + rewrite L, app_length. cbn. lia.
Qed.

(** decidable equality of provenance terms *)
Scheme bterm_mut := Induction for bterm Sort Prop
  with pterm_mut := Induction for pterm Sort Prop.
Combined Scheme bterm_pterm_mutind from bterm_mut, pterm_mut.

Lemma bterm_pterm_eqb_spec :
  (forall a b, bterm_eqb a b = true <-> a = b) /\
  (forall a b, pterm_eqb a b = true <-> a = b).
Proof.
  apply bterm_pterm_mutind.
  - intros f r IH i b. destruct b as [f' r' i'|p'|]; cbn; split; intros H; try discriminate.
    + apply andb_true_iff in H. destruct H as [H H3].
      apply andb_true_iff in H. destruct H as [H1 H2].
      apply Bool.eqb_prop in H1. apply Nat.eqb_eq in H2. apply IH in H3. subst. reflexivity.
    + inversion H; subst. rewrite Bool.eqb_reflx, Nat.eqb_refl. cbn. apply IH. reflexivity.
  - intros p IH b. destruct b as [f' r' i'|p'|]; cbn; split; intros H; try discriminate.
    + apply IH in H. subst. reflexivity.
    + inversion H; subst. apply IH. reflexivity.
  - intros b. destruct b; cbn; split; intros H; try discriminate; reflexivity.
  - intros r IH b. destruct b as [r'|i'|p']; cbn; split; intros H; try discriminate.
    + apply IH in H. subst. reflexivity.
    + inversion H; subst. apply IH. reflexivity.
  - intros i b. destruct b as [r'|i'|p']; cbn; split; intros H; try discriminate.
    + apply Nat.eqb_eq in H. subst. reflexivity.
    + inversion H; subst. apply Nat.eqb_refl.
  - intros p IH b. destruct b as [r'|i'|p']; cbn; split; intros H; try discriminate.
    + apply IH in H. subst. reflexivity.
    + inversion H; subst. apply IH. reflexivity.
Qed.

(** * The model *)

Section IntegratorProofs.
  Variables brow prow inc time : Type.
  Variable kstep : bool -> brow -> inc -> brow.
  Variable to_pub : brow -> prow.
  Variable of_pub : prow -> brow.
  Variable zero_vd : prow -> prow.
  Variable inc_time : inc -> time.

  Local Notation State := (state brow prow time).
  Local Notation Op := (op prow inc).
  Local Notation Obs := (obs prow time).
  Local Notation stepg g := (step kstep to_pub of_pub zero_vd inc_time g).
  Local Notation rung g := (run kstep to_pub of_pub zero_vd inc_time g).
  Local Notation initg g := (init of_pub zero_vd g).
  Local Notation run_initg g := (run_init kstep to_pub of_pub zero_vd inc_time g).
  Local Notation sup := (supplied zero_vd).
  Local Notation rows := (rows_from kstep to_pub inc_time).

  (** ** The kernel loop on a zipper [pre ++ r :: cells], reading at [length pre] *)

  Lemma kernel_zip b chunk : forall pre r cells,
    kernel kstep b (pre ++ r :: cells) (length pre) chunk =
    if length chunk <=? length cells
    then Some (pre ++ r :: scanl (kstep b) r chunk ++ skipn (length chunk) cells)
    else None.
  Proof.
    induction chunk as [|i rest IH]; intros pre r cells.
    - reflexivity.
    - cbn [kernel]. rewrite nth_error_app_here, upd_app_next.
      destruct cells as [|c cs]; [reflexivity|].
      replace (pre ++ r :: kstep b r i :: cs) with ((pre ++ [r]) ++ kstep b r i :: cs)
        by (rewrite <- app_assoc; reflexivity).
      replace (S (length pre)) with (length (pre ++ [r]))
        by (rewrite app_length; cbn; lia).
      rewrite IH. cbn [length scanl skipn Nat.leb].
      destruct (length rest <=? length cs); [|reflexivity].
      rewrite <- app_assoc. reflexivity.
  Qed.

  Lemma grow_spec g (bf : list brow) req :
    exists extra, grow g bf req = bf ++ extra /\ req <= length bf + length extra.
  Proof.
    unfold grow. destruct (Nat.ltb_spec (length bf) req) as [H|H].
    - eexists. split; [reflexivity|]. rewrite repeat_length. lia.
    - exists []. rewrite app_nil_r. split; [reflexivity|]. cbn. lia.
  Qed.

  Lemma rows_length b r c : length (rows b r c) = length c.
  Proof.
    unfold rows_from. rewrite combine_length, !map_length, scanl_length. lia.
  Qed.

  Lemma rows_app b r l1 l2 :
    rows b r (l1 ++ l2) = rows b r l1 ++ rows b (last (scanl (kstep b) r l1) r) l2.
  Proof.
    unfold rows_from. rewrite scanl_app, !map_app, combine_app; [reflexivity|].
    rewrite !map_length, scanl_length. reflexivity.
  Qed.

  Lemma rows_fst b r c : map fst (rows b r c) = map inc_time c.
  Proof.
    unfold rows_from. apply map_fst_combine. rewrite !map_length, scanl_length. reflexivity.
  Qed.

  (** [Zip s pre cur cells]: the buffer is [pre ++ cur :: cells] and [cur] is row [n_data - 1]. *)
  Definition Zip (s : State) (pre : list brow) (cur : brow) (cells : list brow) : Prop :=
    buf s = pre ++ cur :: cells /\ S (length pre) = length (traj s).

  Lemma integrate_core_zip g s c pre cur cells :
    Zip s pre cur cells ->
    exists cells',
      integrate_core kstep to_pub inc_time g s c =
      Some (pre ++ cur :: scanl (kstep (with_alt s)) cur c ++ cells', rows (with_alt s) cur c).
  Proof.
    intros [Hb Hl]. unfold integrate_core. rewrite <- Hl.
    destruct (grow_spec g (buf s) (S (length pre) + length c)) as [extra [Hg Hle]].
    rewrite Hg, Hb, <- app_assoc. cbn [app]. rewrite kernel_zip.
    rewrite Hb, !app_length in Hle. cbn [length] in Hle.
    replace (length c <=? length (cells ++ extra)) with true
      by (symmetry; apply Nat.leb_le; rewrite app_length; lia).
    rewrite skipn_zip, firstn_app_exact by apply scanl_length.
    rewrite scanl_length, Nat.eqb_refl.
    eexists. reflexivity.
  Qed.

  Lemma step_integrate_zip g s c pre cur cells :
    Zip s pre cur cells ->
    exists cells',
      stepg g s (Integrate c) =
      Some (mkState (with_alt s) (traj s ++ rows (with_alt s) cur c)
                    (pre ++ cur :: scanl (kstep (with_alt s)) cur c ++ cells'),
            OFrame (lastn (S (length c)) (traj s ++ rows (with_alt s) cur c))).
  Proof.
    intros HZ. destruct (integrate_core_zip g s c _ _ _ HZ) as [cells' E].
    exists cells'. cbn [step]. rewrite E. reflexivity.
  Qed.

  Lemma step_predict_zip g s i pre cur cells :
    Zip s pre cur cells ->
    exists cells',
      stepg g s (Predict i) =
      Some (mkState (with_alt s) (traj s) (pre ++ cur :: kstep (with_alt s) cur i :: cells'),
            ORow (inc_time i, to_pub (kstep (with_alt s) cur i))).
  Proof.
    intros HZ. destruct (integrate_core_zip g s [i] _ _ _ HZ) as [cells' E].
    exists cells'. cbn [step]. rewrite E. reflexivity.
  Qed.

  Lemma step_get_snoc g s tpre tl :
    traj s = tpre ++ [tl] ->
    stepg g s GetPva = Some (s, ORow tl) /\ stepg g s GetTime = Some (s, OTime (fst tl)).
  Proof.
    intros E. cbn [step]. rewrite E, last_opt_snoc. auto.
  Qed.

  Lemma step_setpva_zip g s p pre cur cells tpre tl :
    Zip s pre cur cells -> traj s = tpre ++ [tl] ->
    stepg g s (SetPva p) =
    Some (mkState (with_alt s) (tpre ++ [(fst tl, sup (with_alt s) p)])
                  (pre ++ of_pub (sup (with_alt s) p) :: cells), OUnit).
  Proof.
    intros [Hb Hl] E. cbn [step]. rewrite E in *. rewrite app_length in *. cbn [length] in *.
    rewrite Nat.add_1_r in *. rewrite nth_error_app_here.
    assert (Hlen : length pre = length tpre) by lia.
    rewrite Hb, <- Hlen, upd_app_here, Hlen, upd_app_here. reflexivity.
  Qed.

  (** ** (a) Invariant: non-empty trajectory, valid prefix, all accesses in bounds *)

  Local Notation row_ok := (row_ok to_pub of_pub).
  Local Notation valid_prefix := (valid_prefix to_pub of_pub).
  Local Notation Inv := (Inv to_pub of_pub).

  Lemma Inv_bounds (s : State) : Inv s -> 1 <= length (traj s) <= length (buf s).
  Proof.
    intros [H1 H2]. split; [exact H1|].
    apply Forall2_len in H2. rewrite firstn_length in H2. lia.
  Qed.

  Lemma bounds_Zip (s : State) :
    1 <= length (traj s) <= length (buf s) ->
    exists pre cur cells tpre tl,
      Zip s pre cur cells /\ traj s = tpre ++ [tl] /\
      firstn (length (traj s)) (buf s) = pre ++ [cur].
  Proof.
    intros [H1 H2].
    destruct (nonempty_snoc (traj s) H1) as [tpre [tl Et]].
    assert (Hn : length (traj s) = S (length tpre))
      by (rewrite Et, app_length; cbn; lia).
    pose proof (firstn_skipn (length tpre) (buf s)) as Hsplit.
    destruct (skipn (length tpre) (buf s)) as [|cur cells] eqn:Esk.
    { apply (f_equal (@length _)) in Esk. rewrite skipn_length in Esk. cbn in Esk. lia. }
    exists (firstn (length tpre) (buf s)), cur, cells, tpre, tl.
    assert (Hfl : length (firstn (length tpre) (buf s)) = length tpre)
      by (rewrite firstn_length; lia).
    split; [|split].
    - split; [symmetry; exact Hsplit|]. rewrite Hfl. lia.
    - exact Et.
    - rewrite <- Hsplit at 1. rewrite Hn.
      replace (firstn (length tpre) (buf s) ++ cur :: cells)
        with ((firstn (length tpre) (buf s) ++ [cur]) ++ cells)
        by (rewrite <- app_assoc; reflexivity).
      apply firstn_app_exact. rewrite app_length, Hfl. cbn. lia.
  Qed.

  Lemma Zip_firstn s pre cur cells :
    Zip s pre cur cells -> firstn (length (traj s)) (buf s) = pre ++ [cur].
  Proof.
    intros [Hb Hl]. rewrite Hb. apply firstn_zip. exact Hl.
  Qed.

  Lemma Forall2_snoc_inv {A B} (R : A -> B -> Prop) l1 x l2 y :
    Forall2 R (l1 ++ [x]) (l2 ++ [y]) -> Forall2 R l1 l2 /\ R x y.
  Proof.
    intros H. apply Forall2_app_inv_l in H. destruct H as [m1 [m2 [H1 [H2 E]]]].
    inversion H2 as [|? b ? m2' Hxy Hnil]; subst. inversion Hnil; subst.
    apply app_inj_tail in E. destruct E; subst. auto.
  Qed.

  Lemma rows_ok b cur c :
    Forall2 row_ok (scanl (kstep b) cur c) (rows b cur c).
  Proof.
    unfold rows_from. revert cur. induction c as [|i c IH]; intros cur; cbn; constructor.
    - left. reflexivity.
    - apply IH.
  Qed.

  (** every operation succeeds from a state satisfying the invariant, and re-establishes it *)
  Theorem step_Inv g s o :
    Inv s -> exists s' ob, stepg g s o = Some (s', ob) /\ Inv s' /\ with_alt s' = with_alt s.
  Proof.
    intros HI. pose proof (Inv_bounds s HI) as Hbd. destruct HI as [_ Hvp].
    destruct (bounds_Zip s Hbd) as [pre [cur [cells [tpre [tl [HZ [Et Hf]]]]]]].
    unfold Integrator.valid_prefix in Hvp. rewrite Hf in Hvp.
    destruct o as [c|i| | |p].
    - destruct (step_integrate_zip g s c _ _ _ HZ) as [cells' E].
      eexists _, _. split; [exact E|]. split; [|reflexivity].
      split; cbn [traj buf].
      + rewrite app_length. lia.
      + unfold Integrator.valid_prefix. cbn [traj buf].
        replace (pre ++ cur :: scanl (kstep (with_alt s)) cur c ++ cells')
          with (((pre ++ [cur]) ++ scanl (kstep (with_alt s)) cur c) ++ cells')
          by (rewrite <- !app_assoc; reflexivity).
        rewrite firstn_app_exact.
        * apply Forall2_app; [exact Hvp|apply rows_ok].
        * destruct HZ as [_ Hl].
          rewrite !app_length, rows_length, scanl_length, <- Hl. cbn. lia.
    - destruct (step_predict_zip g s i _ _ _ HZ) as [cells' E].
      eexists _, _. split; [exact E|]. split; [|reflexivity].
      split; cbn [traj buf]; [lia|].
      unfold Integrator.valid_prefix. cbn [traj buf].
      rewrite firstn_zip by apply HZ. exact Hvp.
    - destruct (step_get_snoc g s _ _ Et) as [E _].
      eexists _, _. split; [exact E|]. split; [|reflexivity].
      split; [lia|]. unfold Integrator.valid_prefix. rewrite Hf. exact Hvp.
    - destruct (step_get_snoc g s _ _ Et) as [_ E].
      eexists _, _. split; [exact E|]. split; [|reflexivity].
      split; [lia|]. unfold Integrator.valid_prefix. rewrite Hf. exact Hvp.
    - pose proof (step_setpva_zip g s p _ _ _ _ _ HZ Et) as E.
      eexists _, _. split; [exact E|]. split; [|reflexivity].
      rewrite Et in Hvp. apply Forall2_snoc_inv in Hvp. destruct Hvp as [Hvp _].
      split; cbn [traj buf].
      + rewrite app_length. cbn. lia.
      + unfold Integrator.valid_prefix. cbn [traj buf].
        rewrite firstn_zip.
        * apply Forall2_app; [exact Hvp|]. constructor; [|constructor].
          right. reflexivity.
        * destruct HZ as [_ Hl]. rewrite Hl, Et, !app_length. reflexivity.
  Qed.

  Theorem run_Inv g ops : forall s,
    Inv s -> exists s' os, rung g s ops = Some (s', os) /\ Inv s' /\ with_alt s' = with_alt s
                           /\ length os = length ops.
  Proof.
    induction ops as [|o ops IH]; intros s HI.
    - exists s, []. cbn. auto.
    - destruct (step_Inv g s o HI) as [s1 [ob [E [HI1 Hw1]]]].
      destruct (IH s1 HI1) as [s2 [os [E2 [HI2 [Hw2 Hlen]]]]].
      exists s2, (ob :: os). cbn [run]. rewrite E, E2. cbn [length].
      repeat split; try apply HI2; congruence.
  Qed.

  Lemma init_Some g b cap (t0 : time) p :
    1 <= cap ->
    initg g b cap t0 p =
    Some (mkState b [(t0, sup b p)] (of_pub (sup b p) :: repeat g (cap - 1))).
  Proof.
    intros H. unfold init. destruct cap as [|k]; [lia|]. cbn. rewrite Nat.sub_0_r. reflexivity.
  Qed.

  Lemma init_None g b (t0 : time) p : initg g b 0 t0 p = None.
  Proof. reflexivity. Qed.

  Lemma init_Inv g b cap (t0 : time) p s :
    initg g b cap t0 p = Some s ->
    Inv s /\ with_alt s = b /\ traj s = [(t0, sup b p)] /\ length (buf s) = cap.
  Proof.
    intros H. destruct cap as [|k]; [discriminate|].
    rewrite init_Some in H by lia. inversion H; subst; clear H. cbn [traj buf with_alt].
    repeat split; cbn.
    - lia.
    - unfold Integrator.valid_prefix. cbn. constructor; [|constructor]. right. reflexivity.
    - rewrite repeat_length. lia.
  Qed.

  Theorem writes_in_bounds_gen g b cap (t0 : time) p ops :
    1 <= cap ->
    exists s os, run_initg g b cap t0 p ops = Some (s, os) /\ Inv s /\
                 1 <= length (traj s) <= length (buf s) /\ length os = length ops.
  Proof.
    intros Hc. unfold run_init. rewrite init_Some by exact Hc.
    destruct (init_Inv g b cap t0 p _ (init_Some g b cap t0 p Hc)) as [HI _].
    destruct (run_Inv g ops _ HI) as [s [os [E [HI' [_ Hlen]]]]].
    exists s, os. repeat split; try apply (Inv_bounds s HI'); auto; apply HI'.
  Qed.

  (** ** (e) integrate returns the previous last row followed by the appended rows;
         (c) predict returns the row the next integrate of that increment appends *)

  Theorem integrate_returns_tail_gen g s c s' ob :
    Inv s -> stepg g s (Integrate c) = Some (s', ob) ->
    exists tpre tl new,
      traj s = tpre ++ [tl] /\ traj s' = traj s ++ new /\ length new = length c /\
      map fst new = map inc_time c /\ ob = OFrame (tl :: new).
  Proof.
    intros HI E. pose proof (Inv_bounds s HI) as Hbd.
    destruct (bounds_Zip s Hbd) as [pre [cur [cells [tpre [tl [HZ [Et _]]]]]]].
    destruct (step_integrate_zip g s c _ _ _ HZ) as [cells' E'].
    rewrite E' in E. inversion E; subst; clear E. cbn [traj].
    exists tpre, tl, (rows (with_alt s) cur c).
    repeat split; auto using rows_length, rows_fst.
    f_equal. rewrite Et, <- app_assoc. apply lastn_app_exact.
    cbn. rewrite rows_length. reflexivity.
  Qed.

  Theorem predict_is_next_row_gen g g' s i s1 ob1 s2 ob2 :
    Inv s ->
    stepg g s (Predict i) = Some (s1, ob1) ->
    stepg g' s (Integrate [i]) = Some (s2, ob2) ->
    exists r, ob1 = ORow r /\ fst r = inc_time i /\ traj s2 = traj s ++ [r] /\ traj s1 = traj s.
  Proof.
    intros HI E1 E2. pose proof (Inv_bounds s HI) as Hbd.
    destruct (bounds_Zip s Hbd) as [pre [cur [cells [tpre [tl [HZ [Et _]]]]]]].
    destruct (step_predict_zip g s i _ _ _ HZ) as [c1 E1'].
    destruct (step_integrate_zip g' s [i] _ _ _ HZ) as [c2 E2'].
    rewrite E1' in E1. rewrite E2' in E2. inversion E1; inversion E2; subst; clear E1 E2.
    eexists. split; [reflexivity|]. cbn. auto.
  Qed.

  (** ** (c) States that differ only beyond the valid prefix (cells at index
         >= length traj, capacity, garbage) are indistinguishable *)

  Lemma equiv_refl (s : State) : equiv s s.
  Proof. repeat split. Qed.

  Lemma equiv_sym (s1 s2 : State) : equiv s1 s2 -> equiv s2 s1.
  Proof. intros [A [B C]]. repeat split; auto. Qed.

  Lemma equiv_trans (s1 s2 s3 : State) : equiv s1 s2 -> equiv s2 s3 -> equiv s1 s3.
  Proof. intros [A [B C]] [A' [B' C']]. repeat split; congruence. Qed.

  (** [step] respects [equiv], even across different garbage values *)
  Theorem step_equiv g1 g2 s1 s2 o :
    Inv s1 -> Inv s2 -> equiv s1 s2 ->
    exists s1' s2' ob,
      stepg g1 s1 o = Some (s1', ob) /\ stepg g2 s2 o = Some (s2', ob) /\ equiv s1' s2'.
  Proof.
    intros HI1 HI2 [Hw [Ht Hf]].
    pose proof (Inv_bounds _ HI1) as Hb1. pose proof (Inv_bounds _ HI2) as Hb2.
    destruct (bounds_Zip s1 Hb1) as [pre [cur [cells1 [tpre [tl [HZ1 [Et1 Hf1]]]]]]].
    destruct (bounds_Zip s2 Hb2) as [pre2 [cur2 [cells2 [tpre2 [tl2 [HZ2 [Et2 Hf2]]]]]]].
    rewrite Hf1, Hf2 in Hf. apply app_inj_tail in Hf. destruct Hf; subst pre2 cur2.
    rewrite Et1 in Ht. rewrite <- Ht in Et2. apply app_inj_tail in Et2.
    destruct Et2; subst tpre2 tl2. rewrite <- Et1 in Ht.
    assert (Hl1 : S (length pre) = length (traj s1)) by apply HZ1.
    destruct o as [c|i| | |p].
    - destruct (step_integrate_zip g1 s1 c _ _ _ HZ1) as [c1 E1].
      destruct (step_integrate_zip g2 s2 c _ _ _ HZ2) as [c2 E2].
      rewrite <- Hw, <- Ht in E2.
      eexists _, _, _. split; [exact E1|]. split; [exact E2|].
      split; [reflexivity|]. split; [reflexivity|]. cbn [traj buf].
      set (rs := scanl (kstep (with_alt s1)) cur c).
      replace (pre ++ cur :: rs ++ c1) with ((pre ++ cur :: rs) ++ c1)
        by (rewrite <- app_assoc; reflexivity).
      replace (pre ++ cur :: rs ++ c2) with ((pre ++ cur :: rs) ++ c2)
        by (rewrite <- app_assoc; reflexivity).
      assert (L : length (pre ++ cur :: rs) =
                  length (traj s1 ++ rows (with_alt s1) cur c)).
      { subst rs. rewrite !app_length, rows_length. cbn [length].
        rewrite scanl_length. lia. }
      rewrite !firstn_app_exact by exact L. reflexivity.
    - destruct (step_predict_zip g1 s1 i _ _ _ HZ1) as [c1 E1].
      destruct (step_predict_zip g2 s2 i _ _ _ HZ2) as [c2 E2].
      rewrite <- Hw, <- Ht in E2.
      eexists _, _, _. split; [exact E1|]. split; [exact E2|].
      split; [reflexivity|]. split; [reflexivity|]. cbn [traj buf].
      rewrite !firstn_zip by exact Hl1. reflexivity.
    - destruct (step_get_snoc g1 s1 _ _ Et1) as [E1 _].
      assert (Et2 : traj s2 = tpre ++ [tl]) by congruence.
      destruct (step_get_snoc g2 s2 _ _ Et2) as [E2 _].
      eexists _, _, _. split; [exact E1|]. split; [exact E2|].
      repeat split; auto. rewrite Hf1, Hf2. reflexivity.
    - destruct (step_get_snoc g1 s1 _ _ Et1) as [_ E1].
      assert (Et2 : traj s2 = tpre ++ [tl]) by congruence.
      destruct (step_get_snoc g2 s2 _ _ Et2) as [_ E2].
      eexists _, _, _. split; [exact E1|]. split; [exact E2|].
      repeat split; auto. rewrite Hf1, Hf2. reflexivity.
    - assert (Et2 : traj s2 = tpre ++ [tl]) by congruence.
      pose proof (step_setpva_zip g1 s1 p _ _ _ _ _ HZ1 Et1) as E1.
      pose proof (step_setpva_zip g2 s2 p _ _ _ _ _ HZ2 Et2) as E2.
      rewrite <- Hw in E2.
      eexists _, _, _. split; [exact E1|]. split; [exact E2|].
      split; [reflexivity|]. split; [reflexivity|]. cbn [traj buf].
      assert (L : S (length pre) = length (tpre ++ [(fst tl, sup (with_alt s1) p)])).
      { rewrite Hl1, Et1, !app_length. reflexivity. }
      rewrite !firstn_zip by exact L. reflexivity.
  Qed.

  Lemma step_equiv_Inv g1 g2 s1 s2 o s1' ob :
    Inv s1 -> Inv s2 -> equiv s1 s2 -> stepg g1 s1 o = Some (s1', ob) ->
    exists s2', stepg g2 s2 o = Some (s2', ob) /\ equiv s1' s2' /\ Inv s1' /\ Inv s2'.
  Proof.
    intros HI1 HI2 He E.
    destruct (step_equiv g1 g2 s1 s2 o HI1 HI2 He) as [x1 [x2 [ob' [E1 [E2 He']]]]].
    rewrite E1 in E. inversion E; subst; clear E.
    exists x2. split; [exact E2|]. split; [exact He'|].
    destruct (step_Inv g1 s1 o HI1) as [y1 [o1 [F1 [I1 _]]]].
    destruct (step_Inv g2 s2 o HI2) as [y2 [o2 [F2 [I2 _]]]].
    rewrite E1 in F1. rewrite E2 in F2. inversion F1; inversion F2; subst. auto.
  Qed.

  Lemma predict_equiv g s i s1 ob :
    Inv s -> stepg g s (Predict i) = Some (s1, ob) -> equiv s s1 /\ Inv s1.
  Proof.
    intros HI E. pose proof (Inv_bounds s HI) as Hbd.
    destruct (bounds_Zip s Hbd) as [pre [cur [cells [tpre [tl [HZ [Et Hf]]]]]]].
    destruct (step_predict_zip g s i _ _ _ HZ) as [c1 E1].
    destruct (step_Inv g s (Predict i) HI) as [y [o1 [F [I1 _]]]].
    rewrite E in F. inversion F; subst; clear F. split; [|exact I1].
    rewrite E1 in E. inversion E; subst; clear E.
    split; [reflexivity|]. split; [reflexivity|]. cbn [traj buf].
    rewrite Hf. rewrite firstn_zip by apply HZ. reflexivity.
  Qed.

  Theorem run_equiv g1 g2 ops : forall s1 s2 s1' os,
    Inv s1 -> Inv s2 -> equiv s1 s2 -> rung g1 s1 ops = Some (s1', os) ->
    exists s2', rung g2 s2 ops = Some (s2', os) /\ equiv s1' s2'.
  Proof.
    induction ops as [|o ops IH]; intros s1 s2 s1' os HI1 HI2 He E.
    - cbn in E. inversion E; subst. exists s2. cbn. auto.
    - cbn [run] in E. destruct (stepg g1 s1 o) as [[x1 ob]|] eqn:E1; [|discriminate].
      destruct (rung g1 x1 ops) as [[y1 os1]|] eqn:R1; [|discriminate].
      inversion E; subst; clear E.
      destruct (step_equiv_Inv g1 g2 s1 s2 o x1 ob HI1 HI2 He E1) as [x2 [E2 [He' [I1 I2]]]].
      destruct (IH x1 x2 s1' os1 I1 I2 He' R1) as [y2 [R2 He2]].
      exists y2. cbn [run]. rewrite E2, R2. auto.
  Qed.

  (** removing every [Predict] from a history changes neither the trajectory nor
      the valid buffer prefix nor the result of any other operation *)
  Theorem predict_unobservable_gen g1 g2 ops : forall s1 s2 s1' os,
    Inv s1 -> Inv s2 -> equiv s1 s2 -> rung g1 s1 ops = Some (s1', os) ->
    exists s2',
      rung g2 s2 (filter (fun o => negb (is_predict o)) ops)
      = Some (s2', obs_without_predict ops os) /\ equiv s1' s2'.
  Proof.
    induction ops as [|o ops IH]; intros s1 s2 s1' os HI1 HI2 He E.
    - cbn in E. inversion E; subst. exists s2. cbn. auto.
    - cbn [run] in E. destruct (stepg g1 s1 o) as [[x1 ob]|] eqn:E1; [|discriminate].
      destruct (rung g1 x1 ops) as [[y1 os1]|] eqn:R1; [|discriminate].
      inversion E; subst; clear E.
      destruct (is_predict o) eqn:Hp.
      + destruct o; try discriminate.
        destruct (predict_equiv g1 s1 i x1 ob HI1 E1) as [He1 I1].
        cbn [filter is_predict negb obs_without_predict].
        apply (IH x1 s2 s1' os1 I1 HI2); auto.
        eapply equiv_trans; [apply equiv_sym; exact He1|exact He].
      + destruct (step_equiv_Inv g1 g2 s1 s2 o x1 ob HI1 HI2 He E1) as [x2 [E2 [He' [I1 I2]]]].
        destruct (IH x1 x2 s1' os1 I1 I2 He' R1) as [y2 [R2 He2]].
        exists y2. cbn [filter obs_without_predict]. rewrite Hp. cbn [negb run].
        rewrite E2, R2. auto.
  Qed.

  (** ** Specification by history summary

      A summary records: the rows fixed before the most recent supply
      (constructor or [SetPva]), the time and pva of that supply, and the
      increments integrated since.  It never mentions capacity, garbage or
      [Predict]. *)

  Record summary := mkSum {
    sm_pre : list (time * prow);
    sm_t : time;
    sm_q : prow;
    sm_incs : list inc
  }.

  Definition sm_row b m : time * prow := (sm_t m, sup b (sm_q m)).
  Definition sm_r0 b m : brow := of_pub (sup b (sm_q m)).
  Definition sm_seg b m : list (time * prow) := sm_row b m :: rows b (sm_r0 b m) (sm_incs m).
  Definition sm_traj b m : list (time * prow) := sm_pre m ++ sm_seg b m.
  Definition sm_cur b m : brow := last (scanl (kstep b) (sm_r0 b m) (sm_incs m)) (sm_r0 b m).
  Definition sm_last b m : time * prow := last (sm_seg b m) (sm_row b m).

  Definition sm_step b (m : summary) (o : Op) : summary :=
    match o with
    | Integrate c => mkSum (sm_pre m) (sm_t m) (sm_q m) (sm_incs m ++ c)
    | SetPva p => mkSum (sm_pre m ++ removelast (sm_seg b m)) (fst (sm_last b m)) p []
    | _ => m
    end.

  Definition sm_obs b (m : summary) (o : Op) : Obs :=
    match o with
    | Integrate c => OFrame (lastn (S (length c)) (sm_traj b (sm_step b m o)))
    | Predict i => ORow (inc_time i, to_pub (kstep b (sm_cur b m) i))
    | GetPva => ORow (sm_last b m)
    | GetTime => OTime (fst (sm_last b m))
    | SetPva _ => OUnit
    end.

  Fixpoint sm_run b (m : summary) (ops : list Op) : summary * list Obs :=
    match ops with
    | [] => (m, [])
    | o :: rest => let '(m', os) := sm_run b (sm_step b m o) rest in (m', sm_obs b m o :: os)
    end.

  Definition Rep b (s : State) (m : summary) : Prop :=
    with_alt s = b /\ traj s = sm_traj b m /\
    exists pre cells, Zip s pre (sm_cur b m) cells.

  Lemma sm_traj_snoc b m : sm_traj b m = (sm_pre m ++ removelast (sm_seg b m)) ++ [sm_last b m].
  Proof.
    unfold sm_traj, sm_last. rewrite <- app_assoc. f_equal.
    apply snoc_view. unfold sm_seg. discriminate.
  Qed.

  Lemma sm_traj_integrate b m c :
    sm_traj b (sm_step b m (Integrate c)) = sm_traj b m ++ rows b (sm_cur b m) c.
  Proof.
    unfold sm_traj, sm_seg, sm_cur, sm_row, sm_r0. cbn [sm_step sm_pre sm_t sm_q sm_incs].
    rewrite rows_app, <- app_assoc. reflexivity.
  Qed.

  Lemma sm_cur_integrate b m c :
    sm_cur b (sm_step b m (Integrate c)) = last (scanl (kstep b) (sm_cur b m) c) (sm_cur b m).
  Proof.
    unfold sm_cur, sm_r0. cbn [sm_step sm_pre sm_t sm_q sm_incs].
    rewrite scanl_app, last_app_default. reflexivity.
  Qed.

  Theorem Rep_step g b s m o :
    Rep b s m -> exists s', stepg g s o = Some (s', sm_obs b m o) /\ Rep b s' (sm_step b m o).
  Proof.
    intros [Hw [Ht [pre [cells HZ]]]]. subst b.
    destruct o as [c|i| | |p].
    - destruct (step_integrate_zip g s c _ _ _ HZ) as [cells' E].
      eexists. split.
      + rewrite E. cbn [sm_obs]. rewrite sm_traj_integrate, <- Ht. reflexivity.
      + split; [reflexivity|]. split.
        * cbn [traj]. rewrite sm_traj_integrate, <- Ht. reflexivity.
        * rewrite sm_cur_integrate.
          destruct (zip_advance (scanl (kstep (with_alt s)) (sm_cur (with_alt s) m) c)
                      pre (sm_cur (with_alt s) m) cells') as [pre' [Ez Lz]].
          exists pre', cells'. split; cbn [traj buf]; [exact Ez|].
          destruct HZ as [_ Hl].
          rewrite Lz, scanl_length, app_length, rows_length. lia.
    - destruct (step_predict_zip g s i _ _ _ HZ) as [cells' E].
      eexists. split; [rewrite E; reflexivity|].
      split; [reflexivity|]. split; [exact Ht|].
      eexists pre, _. split; [reflexivity|apply HZ].
    - rewrite sm_traj_snoc in Ht. destruct (step_get_snoc g s _ _ Ht) as [E _].
      exists s. split; [exact E|]. split; [reflexivity|]. split.
      + rewrite Ht, <- sm_traj_snoc. reflexivity.
      + exists pre, cells. exact HZ.
    - rewrite sm_traj_snoc in Ht. destruct (step_get_snoc g s _ _ Ht) as [_ E].
      exists s. split; [exact E|]. split; [reflexivity|]. split.
      + rewrite Ht, <- sm_traj_snoc. reflexivity.
      + exists pre, cells. exact HZ.
    - rewrite sm_traj_snoc in Ht.
      pose proof (step_setpva_zip g s p _ _ _ _ _ HZ Ht) as E.
      eexists. split; [exact E|]. split; [reflexivity|]. split.
      + reflexivity.
      + exists pre, cells. split; [reflexivity|]. cbn [traj].
        destruct HZ as [_ Hl]. rewrite Hl, Ht, !app_length. reflexivity.
  Qed.

  Theorem Rep_run g b ops : forall s m,
    Rep b s m ->
    exists s', rung g s ops = Some (s', snd (sm_run b m ops)) /\ Rep b s' (fst (sm_run b m ops)).
  Proof.
    induction ops as [|o ops IH]; intros s m HR.
    - exists s. cbn. auto.
    - destruct (Rep_step g b s m o HR) as [s1 [E HR1]].
      destruct (IH s1 _ HR1) as [s2 [E2 HR2]].
      exists s2. cbn [run sm_run]. rewrite E, E2.
      destruct (sm_run b (sm_step b m o) ops) as [m' os]. cbn in *. auto.
  Qed.

  Definition sm_init (t0 : time) (p : prow) : summary := mkSum [] t0 p [].

  Lemma Rep_init g b cap t0 p s :
    initg g b cap t0 p = Some s -> Rep b s (sm_init t0 p).
  Proof.
    intros H. destruct cap as [|k]; [discriminate|].
    rewrite init_Some in H by lia. inversion H; subst; clear H.
    split; [reflexivity|]. split; [reflexivity|].
    exists [], (repeat g (S k - 1)). split; reflexivity.
  Qed.

  (** the complete behaviour of any history is given by its summary *)
  Theorem run_init_spec g b cap t0 p ops :
    1 <= cap ->
    exists s, run_initg g b cap t0 p ops = Some (s, snd (sm_run b (sm_init t0 p) ops)) /\
              Rep b s (fst (sm_run b (sm_init t0 p) ops)).
  Proof.
    intros Hc. unfold run_init.
    pose proof (init_Some g b cap t0 p Hc) as Ei. rewrite Ei.
    apply Rep_run. eapply Rep_init. exact Ei.
  Qed.

  (** ** Facts about summaries (pure) *)

  Lemma sm_run_cons_fst b m o ops :
    fst (sm_run b m (o :: ops)) = fst (sm_run b (sm_step b m o) ops).
  Proof. cbn [sm_run]. destruct (sm_run b (sm_step b m o) ops). reflexivity. Qed.

  Lemma sm_run_cons_snd b m o ops :
    snd (sm_run b m (o :: ops)) = sm_obs b m o :: snd (sm_run b (sm_step b m o) ops).
  Proof. cbn [sm_run]. destruct (sm_run b (sm_step b m o) ops). reflexivity. Qed.

  Lemma sm_run_app_fst b ops1 ops2 : forall m,
    fst (sm_run b m (ops1 ++ ops2)) = fst (sm_run b (fst (sm_run b m ops1)) ops2).
  Proof.
    induction ops1 as [|o ops1 IH]; intros m; [reflexivity|].
    cbn [app]. rewrite !sm_run_cons_fst. apply IH.
  Qed.

  Lemma sm_run_app_snd b ops1 ops2 : forall m,
    snd (sm_run b m (ops1 ++ ops2)) =
    snd (sm_run b m ops1) ++ snd (sm_run b (fst (sm_run b m ops1)) ops2).
  Proof.
    induction ops1 as [|o ops1 IH]; intros m; [reflexivity|].
    cbn [app]. rewrite !sm_run_cons_snd, sm_run_cons_fst, IH. reflexivity.
  Qed.

  Lemma sm_traj_length b m : length (sm_traj b m) = length (sm_pre m) + S (length (sm_incs m)).
  Proof. unfold sm_traj, sm_seg. rewrite app_length. cbn [length]. rewrite rows_length. reflexivity. Qed.

  Lemma sm_traj_setpva b m p :
    sm_traj b (sm_step b m (SetPva p)) =
    (sm_pre m ++ removelast (sm_seg b m)) ++ [(fst (sm_last b m), sup b p)].
  Proof. reflexivity. Qed.

  Lemma sm_q_run b ops : forall m, sm_q (fst (sm_run b m ops)) = latest_pva (sm_q m) ops.
  Proof.
    induction ops as [|o ops IH]; intros m; [reflexivity|].
    rewrite sm_run_cons_fst, IH. destruct o; reflexivity.
  Qed.

  Lemma sm_incs_run b ops : forall m,
    sm_incs (fst (sm_run b m ops)) = incs_since (sm_incs m) ops.
  Proof.
    induction ops as [|o ops IH]; intros m; [reflexivity|].
    rewrite sm_run_cons_fst, IH. destruct o; reflexivity.
  Qed.

  Lemma sm_run_no_setpva b ops : forall m,
    existsb is_setpva ops = false ->
    fst (sm_run b m ops) = mkSum (sm_pre m) (sm_t m) (sm_q m) (sm_incs m ++ all_incs ops).
  Proof.
    induction ops as [|o ops IH]; intros m H.
    - cbn. rewrite app_nil_r. destruct m; reflexivity.
    - cbn [existsb] in H. apply orb_false_iff in H. destruct H as [Ho H].
      rewrite sm_run_cons_fst, IH by exact H.
      destruct o; try discriminate; cbn [sm_step sm_pre sm_t sm_q sm_incs all_incs];
        try reflexivity.
      rewrite app_assoc. reflexivity.
  Qed.

  (** (f) the time index: start time, then every integrated increment's time once *)
  Lemma sm_times b ops : forall m,
    map fst (sm_traj b (fst (sm_run b m ops))) =
    map fst (sm_traj b m) ++ map inc_time (all_incs ops).
  Proof.
    induction ops as [|o ops IH]; intros m.
    - cbn. rewrite app_nil_r. reflexivity.
    - rewrite sm_run_cons_fst, IH. destruct o as [c|i| | |p].
      + rewrite sm_traj_integrate. cbn [all_incs].
        rewrite !map_app, rows_fst, app_assoc. reflexivity.
      + reflexivity.
      + reflexivity.
      + reflexivity.
      + rewrite sm_traj_setpva, (sm_traj_snoc b m). cbn [all_incs].
        rewrite !map_app. reflexivity.
  Qed.

  (** shifting the frozen prefix: the continuation does not look at it *)
  Definition sm_shift (tpre : list (time * prow)) (m : summary) : summary :=
    mkSum (tpre ++ sm_pre m) (sm_t m) (sm_q m) (sm_incs m).

  Lemma sm_shift_traj b tpre m : sm_traj b (sm_shift tpre m) = tpre ++ sm_traj b m.
  Proof. unfold sm_traj. cbn [sm_shift sm_pre]. rewrite <- app_assoc. reflexivity. Qed.

  Lemma sm_shift_step b tpre m o :
    sm_step b (sm_shift tpre m) o = sm_shift tpre (sm_step b m o).
  Proof.
    destruct o; try reflexivity.
    unfold sm_shift. cbn [sm_step sm_pre sm_t sm_q sm_incs].
    rewrite <- app_assoc. reflexivity.
  Qed.

  Lemma sm_shift_obs b tpre m o : sm_obs b (sm_shift tpre m) o = sm_obs b m o.
  Proof.
    destruct o as [c|i| | |p]; try reflexivity.
    unfold sm_obs. rewrite sm_shift_step, sm_shift_traj. f_equal.
    apply lastn_app_le. rewrite sm_traj_length. cbn [sm_step sm_incs].
    rewrite app_length. lia.
  Qed.

  Lemma sm_shift_run b tpre ops : forall m,
    sm_run b (sm_shift tpre m) ops =
    (sm_shift tpre (fst (sm_run b m ops)), snd (sm_run b m ops)).
  Proof.
    induction ops as [|o ops IH]; intros m; [reflexivity|].
    cbn [sm_run]. rewrite sm_shift_step, IH, sm_shift_obs.
    destruct (sm_run b (sm_step b m o) ops). reflexivity.
  Qed.

  (** ** (b) chunking, (f) times, (d) restart — from the constructor *)

  Theorem integrate_chunks_gen g g' b cap cap' (t0 : time) p ops :
    1 <= cap -> 1 <= cap' -> existsb is_setpva ops = false ->
    exists s os s1 os1,
      run_initg g b cap t0 p ops = Some (s, os) /\
      run_initg g' b cap' t0 p [Integrate (all_incs ops)] = Some (s1, os1) /\
      traj s = traj s1 /\
      traj s = (t0, sup b p) :: rows b (of_pub (sup b p)) (all_incs ops).
  Proof.
    intros Hc Hc' Hns.
    destruct (run_init_spec g b cap t0 p ops Hc) as [s [E [_ [Ht _]]]].
    destruct (run_init_spec g' b cap' t0 p [Integrate (all_incs ops)] Hc') as [s1 [E1 [_ [Ht1 _]]]].
    eexists s, _, s1, _. split; [exact E|]. split; [exact E1|].
    rewrite sm_run_no_setpva in Ht by exact Hns.
    rewrite sm_run_no_setpva in Ht1 by reflexivity.
    cbn [all_incs] in Ht1. rewrite app_nil_r in Ht1.
    split; [congruence|]. exact Ht.
  Qed.

  Theorem since_last_supply_gen g b cap (t0 : time) p ops :
    1 <= cap ->
    exists s os pre t,
      run_initg g b cap t0 p ops = Some (s, os) /\
      traj s = pre ++ (t, sup b (latest_pva p ops))
                   :: rows b (of_pub (sup b (latest_pva p ops))) (incs_since [] ops).
  Proof.
    intros Hc. destruct (run_init_spec g b cap t0 p ops Hc) as [s [E [_ [Ht _]]]].
    eexists s, _, _, _. split; [exact E|]. rewrite Ht.
    unfold sm_traj, sm_seg, sm_row, sm_r0. rewrite sm_q_run, sm_incs_run. reflexivity.
  Qed.

  Theorem times_exactly_once_gen g b cap (t0 : time) p ops :
    1 <= cap ->
    exists s os, run_initg g b cap t0 p ops = Some (s, os) /\
                 map fst (traj s) = t0 :: map inc_time (all_incs ops).
  Proof.
    intros Hc. destruct (run_init_spec g b cap t0 p ops Hc) as [s [E [_ [Ht _]]]].
    eexists s, _. split; [exact E|]. rewrite Ht, sm_times. reflexivity.
  Qed.

  Theorem set_pva_restart_gen g g' b cap cap' (t0 : time) p0 ops1 p ops2 :
    1 <= cap -> 1 <= cap' ->
    exists s1 os1 s os tpre tl f osf,
      run_initg g b cap t0 p0 ops1 = Some (s1, os1) /\ traj s1 = tpre ++ [tl] /\
      run_initg g b cap t0 p0 (ops1 ++ SetPva p :: ops2) = Some (s, os) /\
      run_initg g' b cap' (fst tl) p ops2 = Some (f, osf) /\
      traj s = tpre ++ traj f /\ os = os1 ++ OUnit :: osf.
  Proof.
    intros Hc Hc'.
    destruct (run_init_spec g b cap t0 p0 ops1 Hc) as [s1 [E1 [_ [Ht1 _]]]].
    destruct (run_init_spec g b cap t0 p0 (ops1 ++ SetPva p :: ops2) Hc) as [s [E [_ [Ht _]]]].
    set (m1 := fst (sm_run b (sm_init t0 p0) ops1)) in *.
    destruct (run_init_spec g' b cap' (fst (sm_last b m1)) p ops2 Hc') as [f [Ef [_ [Htf _]]]].
    eexists s1, _, s, _, (sm_pre m1 ++ removelast (sm_seg b m1)), (sm_last b m1), f, _.
    split; [exact E1|]. split; [rewrite Ht1; apply sm_traj_snoc|].
    split; [exact E|]. split; [exact Ef|].
    assert (Esh : sm_step b m1 (SetPva p) =
                  sm_shift (sm_pre m1 ++ removelast (sm_seg b m1)) (sm_init (fst (sm_last b m1)) p)).
    { unfold sm_shift, sm_init. cbn [sm_step sm_pre sm_t sm_q sm_incs].
      rewrite app_nil_r. reflexivity. }
    split.
    - rewrite Ht, Htf, sm_run_app_fst. fold m1. rewrite sm_run_cons_fst, Esh, sm_shift_run.
      cbn [fst]. apply sm_shift_traj.
    - rewrite sm_run_app_snd. fold m1. rewrite sm_run_cons_snd, Esh, sm_shift_run.
      reflexivity.
  Qed.

  (** ** (c) from the constructor: capacity, garbage and predicts are unobservable *)

  Lemma init_equiv g g' b cap cap' (t0 : time) p s s' :
    initg g b cap t0 p = Some s -> initg g' b cap' t0 p = Some s' -> equiv s s'.
  Proof.
    intros H H'. destruct cap as [|k]; [discriminate|]. destruct cap' as [|k']; [discriminate|].
    rewrite init_Some in H, H' by lia. inversion H; inversion H'; subst.
    repeat split.
  Qed.

  Theorem predict_unobservable_init g g' b cap cap' (t0 : time) p ops s os :
    1 <= cap' ->
    run_initg g b cap t0 p ops = Some (s, os) ->
    exists s2,
      run_initg g' b cap' t0 p (filter (fun o => negb (is_predict o)) ops)
      = Some (s2, obs_without_predict ops os) /\ traj s2 = traj s /\ equiv s s2.
  Proof.
    intros Hc' E. unfold run_init in *.
    destruct (initg g b cap t0 p) as [s0|] eqn:Ei; [|discriminate].
    pose proof (init_Some g' b cap' t0 p Hc') as Ei'. rewrite Ei'.
    destruct (init_Inv g b cap t0 p _ Ei) as [HI _].
    destruct (init_Inv g' b cap' t0 p _ Ei') as [HI' _].
    destruct (predict_unobservable_gen g g' ops s0 _ s os HI HI'
                (init_equiv g g' b cap cap' t0 p _ _ Ei Ei') E) as [s2 [E2 He]].
    exists s2. split; [exact E2|]. split; [symmetry; apply He|exact He].
  Qed.

  Theorem capacity_garbage_irrelevant_gen g g' b cap cap' (t0 : time) p ops s os :
    1 <= cap' ->
    run_initg g b cap t0 p ops = Some (s, os) ->
    exists s2, run_initg g' b cap' t0 p ops = Some (s2, os) /\ traj s2 = traj s /\ equiv s s2.
  Proof.
    intros Hc' E. unfold run_init in *.
    destruct (initg g b cap t0 p) as [s0|] eqn:Ei; [|discriminate].
    pose proof (init_Some g' b cap' t0 p Hc') as Ei'. rewrite Ei'.
    destruct (init_Inv g b cap t0 p _ Ei) as [HI _].
    destruct (init_Inv g' b cap' t0 p _ Ei') as [HI' _].
    destruct (run_equiv g g' ops s0 _ s os HI HI'
                (init_equiv g g' b cap cap' t0 p _ _ Ei Ei') E) as [s2 [E2 He]].
    exists s2. split; [exact E2|]. split; [symmetry; apply He|exact He].
  Qed.

  (** ** (c), (e) stated for every reachable state *)

  Theorem predict_is_next_row_reach g b cap (t0 : time) p ops i :
    1 <= cap ->
    exists s os s1 r s2 fr s3,
      run_initg g b cap t0 p ops = Some (s, os) /\
      stepg g s (Predict i) = Some (s1, ORow r) /\ fst r = inc_time i /\ traj s1 = traj s /\
      stepg g s (Integrate [i]) = Some (s2, fr) /\ traj s2 = traj s ++ [r] /\
      stepg g s1 (Integrate [i]) = Some (s3, fr) /\ traj s3 = traj s ++ [r].
  Proof.
    intros Hc.
    destruct (writes_in_bounds_gen g b cap t0 p ops Hc) as [s [os [E [HI _]]]].
    destruct (step_Inv g s (Predict i) HI) as [s1 [ob1 [E1 [HI1 _]]]].
    destruct (step_Inv g s (Integrate [i]) HI) as [s2 [fr [E2 _]]].
    destruct (predict_is_next_row_gen g g s i s1 ob1 s2 fr HI E1 E2) as [r [Hob [Hfst [Ht2 Ht1]]]].
    subst ob1.
    destruct (predict_equiv g s i s1 _ HI E1) as [He _].
    destruct (step_equiv_Inv g g s s1 (Integrate [i]) s2 fr HI HI1 He E2) as [s3 [E3 [He3 _]]].
    exists s, os, s1, r, s2, fr, s3.
    repeat split; auto. destruct He3 as [_ [Ht3 _]]. congruence.
  Qed.

  Theorem integrate_returns_tail_reach g b cap (t0 : time) p ops c :
    1 <= cap ->
    exists s os s' tpre tl new,
      run_initg g b cap t0 p ops = Some (s, os) /\ traj s = tpre ++ [tl] /\
      stepg g s (Integrate c) = Some (s', OFrame (tl :: new)) /\
      traj s' = traj s ++ new /\ length new = length c /\ map fst new = map inc_time c.
  Proof.
    intros Hc.
    destruct (writes_in_bounds_gen g b cap t0 p ops Hc) as [s [os [E [HI _]]]].
    destruct (step_Inv g s (Integrate c) HI) as [s' [ob [E' _]]].
    destruct (integrate_returns_tail_gen g s c s' ob HI E') as [tpre [tl [new [A [B [C [D F]]]]]]].
    subst ob. exists s, os, s', tpre, tl, new. auto 10.
  Qed.

  (** ** (g) Generic 2D-mode invariant (instantiated in C13 with P := (VD = 0), key := altitude) *)

  Section Inv2D.
    Variable K : Type.
    Variable P : brow -> Prop.
    Variable key : brow -> K.
    Hypothesis Hstep : forall r i, P r -> P (kstep false r i) /\ key (kstep false r i) = key r.
    Hypothesis Hsup : forall p, P (of_pub (zero_vd p)).

    Lemma scanl_keeps k0 incs : forall r,
      P r -> key r = k0 ->
      Forall (fun r' => P r' /\ key r' = k0) (scanl (kstep false) r incs) /\
      P (last (scanl (kstep false) r incs) r) /\ key (last (scanl (kstep false) r incs) r) = k0.
    Proof.
      induction incs as [|i incs IH]; intros r HP Hk.
      - cbn. auto.
      - destruct (Hstep r i HP) as [HP' Hk'].
        destruct (IH (kstep false r i) HP' (eq_trans Hk' Hk)) as [HF [HL HK]].
        cbn [scanl]. rewrite last_cons_default. split; [|auto].
        constructor; [split; congruence|exact HF].
    Qed.

    (** In every reachable 2D state: the rows since the latest supply [q] are
        [to_pub] of buffer rows satisfying [P] with the key of [of_pub (zero_vd q)],
        and so is the last valid buffer row (the one every later step starts from). *)
    Theorem inv2d_since_supply_gen g cap (t0 : time) p ops :
      1 <= cap ->
      exists s os pre t rs cur,
        run_initg g false cap t0 p ops = Some (s, os) /\
        traj s = pre ++ (t, zero_vd (latest_pva p ops))
                     :: combine (map inc_time (incs_since [] ops)) (map to_pub rs) /\
        rs = scanl (kstep false) (of_pub (zero_vd (latest_pva p ops))) (incs_since [] ops) /\
        Forall (fun r => P r /\ key r = key (of_pub (zero_vd (latest_pva p ops)))) rs /\
        nth_error (buf s) (length (traj s) - 1) = Some cur /\
        P cur /\ key cur = key (of_pub (zero_vd (latest_pva p ops))).
    Proof.
      intros Hc.
      destruct (run_init_spec g false cap t0 p ops Hc) as [s [E [_ [Ht [bp [cells [Hb Hl]]]]]]].
      set (m := fst (sm_run false (sm_init t0 p) ops)) in *.
      assert (Hq : sm_q m = latest_pva p ops) by apply sm_q_run.
      assert (Hi : sm_incs m = incs_since [] ops) by apply sm_incs_run.
      destruct (scanl_keeps (key (of_pub (zero_vd (sm_q m)))) (sm_incs m)
                  (of_pub (zero_vd (sm_q m))) (Hsup _) eq_refl) as [HF [HL HK]].
      eexists s, _, (sm_pre m), (sm_t m), _, (sm_cur false m).
      split; [exact E|]. split; [|split; [reflexivity|]].
      - rewrite Ht. unfold sm_traj, sm_seg, sm_row, sm_r0, rows_from. cbn [supplied].
        rewrite Hq, Hi. reflexivity.
      - rewrite <- Hq, <- Hi. split; [exact HF|]. split; [|split; [exact HL|exact HK]].
        rewrite Hb, <- Hl. cbn [Nat.sub]. rewrite Nat.sub_0_r. apply nth_error_app_here.
    Qed.

    (** Step form: what [Integrate] appends and what [Predict] returns in a reachable 2D state. *)
    Theorem inv2d_step_gen g cap (t0 : time) p ops s os :
      run_initg g false cap t0 p ops = Some (s, os) ->
      (forall g' c s' ob, stepg g' s (Integrate c) = Some (s', ob) ->
         exists rs, traj s' = traj s ++ combine (map inc_time c) (map to_pub rs) /\
                    length rs = length c /\
                    Forall (fun r => P r /\ key r = key (of_pub (zero_vd (latest_pva p ops)))) rs) /\
      (forall g' i s' ob, stepg g' s (Predict i) = Some (s', ob) ->
         exists r, ob = ORow (inc_time i, to_pub r) /\ traj s' = traj s /\
                   P r /\ key r = key (of_pub (zero_vd (latest_pva p ops)))).
    Proof.
      intros E.
      assert (Hc : 1 <= cap).
      { destruct cap; [|lia]. unfold run_init in E. rewrite init_None in E. discriminate. }
      destruct (run_init_spec g false cap t0 p ops Hc) as [s0 [E0 HR]].
      rewrite E0 in E. inversion E; subst s0; clear E.
      set (m := fst (sm_run false (sm_init t0 p) ops)) in *.
      assert (Hq : sm_q m = latest_pva p ops) by apply sm_q_run.
      destruct (scanl_keeps (key (of_pub (zero_vd (sm_q m)))) (sm_incs m)
                  (of_pub (zero_vd (sm_q m))) (Hsup _) eq_refl) as [_ [HL HK]].
      change (P (sm_cur false m)) in HL.
      change (key (sm_cur false m) = key (of_pub (zero_vd (sm_q m)))) in HK.
      rewrite Hq in HK.
      pose proof HR as [Hw [Ht [bp [cells HZ]]]].
      split.
      - intros g' c s' ob Es.
        destruct (step_integrate_zip g' s c _ _ _ HZ) as [cells' Es'].
        rewrite Es' in Es. inversion Es; subst; clear Es. cbn [traj]. rewrite Hw.
        exists (scanl (kstep false) (sm_cur false m) c).
        split; [reflexivity|]. split; [apply scanl_length|].
        apply (scanl_keeps _ c _ HL HK).
      - intros g' i s' ob Es.
        destruct (step_predict_zip g' s i _ _ _ HZ) as [cells' Es'].
        rewrite Es' in Es. inversion Es; subst; clear Es. cbn [traj]. rewrite Hw.
        exists (kstep false (sm_cur false m) i).
        split; [reflexivity|]. split; [reflexivity|].
        destruct (Hstep (sm_cur false m) i HL) as [A B]. split; [exact A|congruence].
    Qed.
  End Inv2D.
End IntegratorProofs.
