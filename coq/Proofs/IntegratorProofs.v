(** Proofs about the Integrator model (C02; generic invariant for C13).

    Everything is proved for arbitrary row types and arbitrary
    [kstep / to_pub / of_pub / zero_vd / inc_time / garbage], any initial
    capacity >= 1 and both altitude modes, by induction over the operation list. *)
From Coq Require Import List Arith Bool ZArith Lia.
From PV Require Import Model.Integrator.
Import ListNotations.

(** * Lists *)

Lemma upd_app_here {A} (pre : list A) x l y :
  upd (pre ++ x :: l) (length pre) y = Some (pre ++ y :: l).
Proof.
  induction pre as [|h t IH]; cbn; [reflexivity|]. rewrite IH. reflexivity.
Qed.

Lemma upd_app_next {A} (pre : list A) x l y :
  upd (pre ++ x :: l) (S (length pre)) y =
  match l with [] => None | _ :: l' => Some (pre ++ x :: y :: l') end.
Proof.
  induction pre as [|h t IH]; cbn.
  - destruct l; reflexivity.
  - rewrite IH. destruct l; reflexivity.
Qed.

Lemma upd_Some_length {A} (l : list A) i x l' :
  upd l i x = Some l' -> i < length l /\ length l' = length l.
Proof.
  revert i l'. induction l as [|h t IH]; intros i l' H; cbn in H; [discriminate|].
  destruct i as [|i].
  - inversion H; subst. cbn. lia.
  - destruct (upd t i x) as [t'|] eqn:E; [|discriminate]. inversion H; subst.
    destruct (IH _ _ E). cbn. lia.
Qed.

Lemma nth_error_app_here {A} (pre : list A) x l :
  nth_error (pre ++ x :: l) (length pre) = Some x.
Proof. induction pre; cbn; auto. Qed.

Lemma skipn_zip {A} (pre : list A) x l : skipn (S (length pre)) (pre ++ x :: l) = l.
Proof. induction pre; cbn; auto. Qed.

Lemma firstn_app_exact {A} (l1 l2 : list A) n :
  length l1 = n -> firstn n (l1 ++ l2) = l1.
Proof.
  revert n. induction l1 as [|h t IH]; intros n H; cbn in *; subst; cbn; [reflexivity|].
  f_equal. apply IH. reflexivity.
Qed.

Lemma skipn_app_exact {A} (l1 l2 : list A) n :
  length l1 = n -> skipn n (l1 ++ l2) = l2.
Proof.
  revert n. induction l1 as [|h t IH]; intros n H; cbn in *; subst; cbn; [reflexivity|].
  apply IH. reflexivity.
Qed.

Lemma last_cons_default {A} (l : list A) x d : last (x :: l) d = last l x.
Proof.
  revert x. induction l as [|y l IH]; intros x; [reflexivity|].
  change (last (x :: y :: l) d) with (last (y :: l) d). rewrite IH, IH. reflexivity.
Qed.

Lemma last_app_default {A} (l1 l2 : list A) d : last (l1 ++ l2) d = last l2 (last l1 d).
Proof.
  revert d. induction l1 as [|x l1 IH]; intros d; [reflexivity|].
  change ((x :: l1) ++ l2) with (x :: (l1 ++ l2)).
  rewrite !last_cons_default. apply IH.
Qed.

Lemma snoc_view {A} (l : list A) d : l <> [] -> l = removelast l ++ [last l d].
Proof. apply app_removelast_last. Qed.

Lemma nonempty_snoc {A} (l : list A) : 1 <= length l -> exists l' x, l = l' ++ [x].
Proof.
  intros H. destruct l as [|a l]; [cbn in H; lia|].
  exists (removelast (a :: l)), (last (a :: l) a). apply snoc_view. discriminate.
Qed.

Lemma last_opt_snoc {A} (l : list A) x : last_opt (l ++ [x]) = Some x.
Proof.
  induction l as [|h t IH]; [reflexivity|].
  cbn [app last_opt]. destruct (t ++ [x]) eqn:E.
  - destruct t; discriminate.
  - exact IH.
Qed.

Lemma lastn_app_exact {A} (l1 l2 : list A) k :
  length l2 = k -> lastn k (l1 ++ l2) = l2.
Proof.
  intros H. unfold lastn. apply skipn_app_exact. rewrite app_length. lia.
Qed.

Lemma lastn_app_le {A} (l1 l2 : list A) k :
  k <= length l2 -> lastn k (l1 ++ l2) = lastn k l2.
Proof.
  intros H. unfold lastn. rewrite app_length, skipn_app.
  rewrite skipn_all2 by lia. cbn [app]. f_equal. lia.
Qed.

Lemma combine_app {A B} (l1 l2 : list A) (m1 m2 : list B) :
  length l1 = length m1 ->
  combine (l1 ++ l2) (m1 ++ m2) = combine l1 m1 ++ combine l2 m2.
Proof.
  revert m1. induction l1 as [|a l1 IH]; intros [|b m1] H; cbn in *; try discriminate; auto.
  f_equal. apply IH. lia.
Qed.

Lemma map_fst_combine {A B} (l : list A) (m : list B) :
  length l = length m -> map fst (combine l m) = l.
Proof.
  revert m. induction l as [|a l IH]; intros [|b m] H; cbn in *; try discriminate; auto.
  f_equal. apply IH. lia.
Qed.

Lemma scanl_length {A B} (f : A -> B -> A) a l : length (scanl f a l) = length l.
Proof. revert a. induction l; intros; cbn; auto. Qed.

Lemma scanl_app {A B} (f : A -> B -> A) a l1 l2 :
  scanl f a (l1 ++ l2) = scanl f a l1 ++ scanl f (last (scanl f a l1) a) l2.
Proof.
  revert a. induction l1 as [|b l1 IH]; intros a; [reflexivity|].
  cbn [app scanl]. rewrite IH, last_cons_default. reflexivity.
Qed.

(** advancing the zipper over freshly written rows *)
Lemma zip_advance {A} (rows : list A) : forall pre cur Y,
  exists pre', pre ++ cur :: rows ++ Y = pre' ++ last rows cur :: Y /\
               length pre' = length pre + length rows.
Proof.
  induction rows as [|r rs IH]; intros pre cur Y.
  - exists pre. cbn. split; [reflexivity|lia].
  - destruct (IH (pre ++ [cur]) r Y) as [pre' [E L]].
    exists pre'. rewrite last_cons_default. split.
    + rewrite <- E, <- app_assoc. reflexivity.
    + rewrite L, app_length. cbn. lia.
Qed.

(** decidable equality of provenance terms *)
Lemma bterm_pterm_eqb_spec :
  (forall a b, bterm_eqb a b = true <-> a = b) /\
  (forall a b, pterm_eqb a b = true <-> a = b).
Proof.
  assert (H : forall n,
    (forall a, (fix sz (t : bterm) := match t with
                  | BStep _ r _ => S (sz r) | BOfPub p => S (szp p) | BGarbage => 0 end
                with szp (t : pterm) := match t with
                  | PToPub r => S (sz r) | PGiven _ => 0 | PZeroVd p => S (szp p) end
                for sz) a <= n -> forall b, bterm_eqb a b = true <-> a = b) /\
    (forall a, (fix sz (t : bterm) := match t with
                  | BStep _ r _ => S (sz r) | BOfPub p => S (szp p) | BGarbage => 0 end
                with szp (t : pterm) := match t with
                  | PToPub r => S (sz r) | PGiven _ => 0 | PZeroVd p => S (szp p) end
                for szp) a <= n -> forall b, pterm_eqb a b = true <-> a = b)).
  { induction n as [|n [IHb IHp]]; split; intros a Ha b.
    - destruct a; cbn in Ha; try lia. destruct b; cbn; split; intros; try discriminate; auto.
    - destruct a; cbn in Ha; try lia. destruct b; cbn; split; intros H; try discriminate.
      + apply Nat.eqb_eq in H. subst; auto.
      + inversion H; subst. apply Nat.eqb_refl.
    - destruct a as [f r i|p|]; destruct b as [f' r' i'|p'|]; cbn;
        split; intros H; try discriminate; auto.
      + apply andb_true_iff in H. destruct H as [H H3].
        apply andb_true_iff in H. destruct H as [H1 H2].
        apply Bool.eqb_prop in H1. apply Nat.eqb_eq in H2.
        apply IHb in H3; [|cbn in Ha; lia]. subst. reflexivity.
      + inversion H; subst. rewrite Bool.eqb_reflx, Nat.eqb_refl. cbn.
        apply IHb; [cbn in Ha; lia|reflexivity].
      + apply IHp in H; [|cbn in Ha; lia]. subst; reflexivity.
      + inversion H; subst. apply IHp; [cbn in Ha; lia|reflexivity].
    - destruct a as [r|i|p]; destruct b as [r'|i'|p']; cbn;
        split; intros H; try discriminate; auto.
      + apply IHb in H; [|cbn in Ha; lia]. subst; reflexivity.
      + inversion H; subst. apply IHb; [cbn in Ha; lia|reflexivity].
      + apply Nat.eqb_eq in H. subst; auto.
      + inversion H; subst. apply Nat.eqb_refl.
      + apply IHp in H; [|cbn in Ha; lia]. subst; reflexivity.
      + inversion H; subst. apply IHp; [cbn in Ha; lia|reflexivity]. }
  split; intros a b.
  - eapply (proj1 (H _)). apply le_n.
  - eapply (proj2 (H _)). apply le_n.
Qed.
