(** C16, Tier B: accuracy of Olson's series guess on the ellipsoid surface, by interval arithmetic.
    Built and checked in the thorough tier only (loading Interval slows every Print Assumptions). *)
From Coq Require Import Reals.
From Interval Require Import Tactic.
From PV Require Import Base.RealTac Spec.LibSpecs Spec.Ellipsoid Gen.Transform.
Open Scope R_scope.

Lemma olson_guess_surface_bound_partial phi :
  let x := R_transverse A_ E2_ phi * cos phi in
  let z := (1 - E2_) * R_transverse A_ E2_ phi * sin phi in
  (0 <= phi <= 1 -> Rabs (ecef_to_lla__10 x 0 z - sin phi) <= 1 / 10000000) /\
  (99 / 100 <= phi <= 155 / 100 -> Rabs (ecef_to_lla__24 x 0 z - cos phi) <= 1 / 10000000).
Proof.
  cbv zeta. unfold R_transverse, W2, A_, E2_. split; intro H.
  - unfold ecef_to_lla__10. repeat autounfold with ecef_to_lla_db.
    interval with (i_bisect phi, i_taylor phi, i_degree 6, i_prec 60, i_depth 25).
  - unfold ecef_to_lla__24. repeat autounfold with ecef_to_lla_db.
    interval with (i_bisect phi, i_taylor phi, i_degree 6, i_prec 60, i_depth 25).
Qed.
