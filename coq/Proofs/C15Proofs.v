(** C15 — coning/sculling increments are high-order accurate body-frame integrals.
    Lemmas about the GENERATED per-row formulas of strapdown.compute_increments_from_imu
    (Gen/C15Gen.v: [cii_rate_*], [cii_incr_*], traced on a 3-sample table) against the
    hand-written Peano-Baker series of Spec/PeanoBaker.v. *)
From Coq Require Import Reals Lra Lia List.
From Coquelicot Require Import Coquelicot.
From PV Require Import Spec.LibSpecs Spec.PeanoBaker Gen.C15Gen.
Import ListNotations.
Open Scope R_scope.

(** * Vector view of the generated functions *)

(** one IMU sample: gyro and accelerometer readings *)
Record Smp := mkSmp { gy : V3; ac : V3 }.

(** apply a generated 21-argument function to three samples, the first stamp and the two
    interval lengths (stamps are t0, t0 + dt1, t0 + dt1 + dt2) *)
Definition app21
  (F : R -> R -> R -> R -> R -> R -> R -> R -> R -> R -> R -> R -> R -> R -> R -> R -> R -> R ->
       R -> R -> R -> R) (p0 p1 p2 : Smp) (t0 dt1 dt2 : R) : R :=
  F (vx (gy p0)) (vy (gy p0)) (vz (gy p0)) (vx (ac p0)) (vy (ac p0)) (vz (ac p0))
    (vx (gy p1)) (vy (gy p1)) (vz (gy p1)) (vx (ac p1)) (vy (ac p1)) (vz (ac p1))
    (vx (gy p2)) (vy (gy p2)) (vz (gy p2)) (vx (ac p2)) (vy (ac p2)) (vz (ac p2))
    t0 dt1 dt2.

Definition app21v (F0 F1 F2 : _) (p0 p1 p2 : Smp) (t0 dt1 dt2 : R) : V3 :=
  mkV (app21 F0 p0 p1 p2 t0 dt1 dt2) (app21 F1 p0 p1 p2 t0 dt1 dt2) (app21 F2 p0 p1 p2 t0 dt1 dt2).

(** sensor_type = 'rate' : result rows 1 and 2 *)
Definition rate_stamp1 := app21 cii_rate_r1_stamp.
Definition rate_dt1 := app21 cii_rate_r1_dt.
Definition rate_th1 := app21v cii_rate_r1_th0 cii_rate_r1_th1 cii_rate_r1_th2.
Definition rate_dv1 := app21v cii_rate_r1_dv0 cii_rate_r1_dv1 cii_rate_r1_dv2.
Definition rate_stamp2 := app21 cii_rate_r2_stamp.
Definition rate_dt2 := app21 cii_rate_r2_dt.
Definition rate_th2 := app21v cii_rate_r2_th0 cii_rate_r2_th1 cii_rate_r2_th2.
Definition rate_dv2 := app21v cii_rate_r2_dv0 cii_rate_r2_dv1 cii_rate_r2_dv2.
(** sensor_type = 'increment' *)
Definition incr_stamp1 := app21 cii_incr_r1_stamp.
Definition incr_dt1 := app21 cii_incr_r1_dt.
Definition incr_th1 := app21v cii_incr_r1_th0 cii_incr_r1_th1 cii_incr_r1_th2.
Definition incr_dv1 := app21v cii_incr_r1_dv0 cii_incr_r1_dv1 cii_incr_r1_dv2.
Definition incr_stamp2 := app21 cii_incr_r2_stamp.
Definition incr_dt2 := app21 cii_incr_r2_dt.
Definition incr_th2 := app21v cii_incr_r2_th0 cii_incr_r2_th1 cii_incr_r2_th2.
Definition incr_dv2 := app21v cii_incr_r2_dv0 cii_incr_r2_dv1 cii_incr_r2_dv2.

(** the claimed series (coefficients of 1, t, t^2, t^3) *)
Definition theta_lin (a b : V3) : ser V3 :=
  mkS vzero a (vscale (/ 2) b) (vscale (/ 12) (cross a b)).
Definition dv_lin (a b d e : V3) : ser V3 :=
  mkS vzero d (vscale (/ 2) (vadd e (cross a d)))
      (vadd (vscale (/ 3) (cross a e)) (vscale (/ 6) (cross b d))).
(** the neglected second-order rotation term *)
Definition dv_gap (a d : V3) : ser V3 :=
  mkS vzero vzero vzero (vscale (- / 6) (cross a (cross a d))).

(** the inputs of the theorems: samples of linear signals *)
(** 'rate': readings of w = a + b s, f = d + e s at time s *)
Definition smp_rate (a b d e : V3) (s : R) : Smp := mkSmp (lin a b s) (lin d e s).
(** 'increment': integrals of w, f over [x, y] *)
Definition smp_int (a b d e : V3) (x y : R) : Smp := mkSmp (int_lin a b x y) (int_lin d e x y).
(** t^4 term of the generated dv (a polynomial of degree 4 in t) *)
Definition dv_t4 (b e : V3) (t : R) : V3 := vscale (t * t * t * t) (vscale (/ 8) (cross b e)).
(** factor of the discrepancy for unequal adjacent intervals t1 (previous), t2 (current) *)
Definition uneq_factor (t1 t2 : R) : R := t2 * (t1 - t2) * (t1 + 2 * t2) / 24.

(** * Extensionality of the records, tactics *)
Lemma V3_eq (u v : V3) : vx u = vx v -> vy u = vy v -> vz u = vz v -> u = v.
Proof. destruct u, v; cbn; intros; subst; reflexivity. Qed.

Lemma M3_eq (A B : M3) :
  m00 A = m00 B -> m01 A = m01 B -> m02 A = m02 B ->
  m10 A = m10 B -> m11 A = m11 B -> m12 A = m12 B ->
  m20 A = m20 B -> m21 A = m21 B -> m22 A = m22 B -> A = B.
Proof. destruct A, B; cbn; intros; subst; reflexivity. Qed.

Lemma ser_eq {A} (x y : ser A) : s0 x = s0 y -> s1 x = s1 y -> s2 x = s2 y -> s3 x = s3 y -> x = y.
Proof. destruct x, y; cbn; intros; subst; reflexivity. Qed.

Ltac unf_spec :=
  cbv [C_PB u_PB pb_C pb_u exp_rv3 omega_lin f_lin theta_lin dv_lin dv_gap lin int_lin
       smulMM smulMV saddM sscaleM ssubV sI szeroM sskew veval
       mmul madd mscale mvec skew I3 mzero vzero vadd vsub vscale cross
       s0 s1 s2 s3 vx vy vz m00 m01 m02 m10 m11 m12 m20 m21 m22 gy ac].
Ltac unf_gen :=
  cbv [rate_stamp1 rate_dt1 rate_th1 rate_dv1 rate_stamp2 rate_dt2 rate_th2 rate_dv2
       incr_stamp1 incr_dt1 incr_th1 incr_dv1 incr_stamp2 incr_dt2 incr_th2 incr_dv2
       app21 app21v];
  unfold cii_rate_r1_stamp, cii_rate_r1_dt, cii_rate_r1_th0, cii_rate_r1_th1, cii_rate_r1_th2,
         cii_rate_r1_dv0, cii_rate_r1_dv1, cii_rate_r1_dv2,
         cii_rate_r2_stamp, cii_rate_r2_dt, cii_rate_r2_th0, cii_rate_r2_th1, cii_rate_r2_th2,
         cii_rate_r2_dv0, cii_rate_r2_dv1, cii_rate_r2_dv2,
         cii_incr_r1_stamp, cii_incr_r1_dt, cii_incr_r1_th0, cii_incr_r1_th1, cii_incr_r1_th2,
         cii_incr_r1_dv0, cii_incr_r1_dv1, cii_incr_r1_dv2,
         cii_incr_r2_stamp, cii_incr_r2_dt, cii_incr_r2_th0, cii_incr_r2_th1, cii_incr_r2_th2,
         cii_incr_r2_dv0, cii_incr_r2_dv1, cii_incr_r2_dv2;
  repeat autounfold with cii_rate_db; repeat autounfold with cii_incr_db.
Ltac v3_ring := apply V3_eq; unfold smp_rate, smp_int, dv_t4, uneq_factor; unf_gen; unf_spec; field.
Ltac m3_ring := apply M3_eq; unf_spec; field.
Ltac serM_ring := apply ser_eq; m3_ring.
Ltac serV_ring := apply ser_eq; apply V3_eq; unf_spec; field.

(** * 0. The specification is what it says *)

(** the recursion-defined series solve the ODEs coefficient by coefficient ... *)
Lemma pb_C_solves W : solves_C W (pb_C W).
Proof. destruct W as [[] [] [] []]. repeat split; m3_ring. Qed.

Lemma pb_u_solves C F : solves_u C F (pb_u C F).
Proof. destruct C as [[] [] [] []], F as [[] [] [] []]. repeat split; apply V3_eq; unf_spec; field. Qed.

(** ... and are the only series that do *)
Lemma mscale_inj k A B : k <> 0 -> mscale k A = mscale k B -> A = B.
Proof.
  intros Hk H. destruct A, B. unfold mscale in H; cbn in H. injection H; intros.
  f_equal; eapply Rmult_eq_reg_l; eauto.
Qed.

Lemma vscale_inj k u v : k <> 0 -> vscale k u = vscale k v -> u = v.
Proof.
  intros Hk H. destruct u, v. unfold vscale in H; cbn in H. injection H; intros.
  f_equal; eapply Rmult_eq_reg_l; eauto.
Qed.

Lemma pb_C_unique W C : solves_C W C -> C = pb_C W.
Proof.
  intros (H0 & H1 & H2 & H3). destruct C as [c0 c1 c2 c3]. cbn [s0 s1 s2 s3] in *.
  unfold smulMM in *; cbn [s0 s1 s2 s3] in *. subst c0. subst c1.
  assert (E2 : c2 = s2 (pb_C W)).
  { apply (mscale_inj 2); [lra|]. rewrite H2. destruct W as [[] [] [] []]. m3_ring. }
  subst c2.
  assert (E3 : c3 = s3 (pb_C W)).
  { apply (mscale_inj 3); [lra|]. rewrite H3. destruct W as [[] [] [] []]. m3_ring. }
  subst c3. apply ser_eq; reflexivity.
Qed.

Lemma pb_u_unique C F u : solves_u C F u -> u = pb_u C F.
Proof.
  intros (H0 & H1 & H2 & H3). destruct u as [u0 u1 u2 u3]. cbn [s0 s1 s2 s3] in *.
  subst u0 u1.
  assert (E2 : u2 = s2 (pb_u C F)).
  { apply (vscale_inj 2); [lra|]. rewrite H2.
    destruct C as [[] [] [] []], F as [[] [] [] []]. apply V3_eq; unf_spec; field. }
  assert (E3 : u3 = s3 (pb_u C F)).
  { apply (vscale_inj 3); [lra|]. rewrite H3.
    destruct C as [[] [] [] []], F as [[] [] [] []]. apply V3_eq; unf_spec; field. }
  subst u2 u3. apply ser_eq; reflexivity.
Qed.

Lemma spec_PB_solves W F : solves_C W (pb_C W) /\ solves_u (pb_C W) F (pb_u (pb_C W) F).
Proof. split; [exact (pb_C_solves W)|exact (pb_u_solves (pb_C W) F)]. Qed.

Lemma spec_PB_unique W C F u :
  solves_C W C -> solves_u C F u -> C = pb_C W /\ u = pb_u (pb_C W) F.
Proof.
  intros HC Hu. pose proof (pb_C_unique W C HC) as E. subst C.
  split; [reflexivity|exact (pb_u_unique _ F u Hu)].
Qed.

(** a cubic vector polynomial determines its coefficients *)
Lemma cubic_zero c0 c1 c2 c3 :
  (forall t, c0 + t * c1 + (t * t * c2 + t * t * t * c3) = 0) -> c0 = 0 /\ c1 = 0 /\ c2 = 0 /\ c3 = 0.
Proof.
  intro H. pose proof (H 0) as A0. pose proof (H 1) as A1. pose proof (H (-1)) as A2.
  pose proof (H 2) as A3. repeat split; lra.
Qed.

Ltac unf_vec_in H := cbv [veval vadd vscale vx vy vz s0 s1 s2 s3] in H.
Ltac proj_simpl := cbn [s0 s1 s2 s3 vx vy vz].

Lemma veval_inj (p q : ser V3) : (forall t, veval p t = veval q t) -> p = q.
Proof.
  intro H.
  assert (Hx : forall t, vx (veval p t) = vx (veval q t)) by (intro t; rewrite H; reflexivity).
  assert (Hy : forall t, vy (veval p t) = vy (veval q t)) by (intro t; rewrite H; reflexivity).
  assert (Hz : forall t, vz (veval p t) = vz (veval q t)) by (intro t; rewrite H; reflexivity).
  destruct p as [[] [] [] []], q as [[] [] [] []].
  unf_vec_in Hx; unf_vec_in Hy; unf_vec_in Hz.
  match type of Hx with forall t, ?a0 + t * ?a1 + (t * t * ?a2 + t * t * t * ?a3)
                                  = ?b0 + t * ?b1 + (t * t * ?b2 + t * t * t * ?b3) =>
    destruct (cubic_zero (a0 - b0) (a1 - b1) (a2 - b2) (a3 - b3)) as (X0 & X1 & X2 & X3);
      [intro t; specialize (Hx t); lra|] end.
  match type of Hy with forall t, ?a0 + t * ?a1 + (t * t * ?a2 + t * t * t * ?a3)
                                  = ?b0 + t * ?b1 + (t * t * ?b2 + t * t * t * ?b3) =>
    destruct (cubic_zero (a0 - b0) (a1 - b1) (a2 - b2) (a3 - b3)) as (Y0 & Y1 & Y2 & Y3);
      [intro t; specialize (Hy t); lra|] end.
  match type of Hz with forall t, ?a0 + t * ?a1 + (t * t * ?a2 + t * t * t * ?a3)
                                  = ?b0 + t * ?b1 + (t * t * ?b2 + t * t * t * ?b3) =>
    destruct (cubic_zero (a0 - b0) (a1 - b1) (a2 - b2) (a3 - b3)) as (Z0 & Z1 & Z2 & Z3);
      [intro t; specialize (Hz t); lra|] end.
  apply ser_eq; apply V3_eq; proj_simpl; lra.
Qed.

(** K = [th x] with th(0) = 0 is nilpotent mod t^4: the exponential series stops at K^3 *)
Lemma skew_pow4_zero th : s0 th = vzero ->
  let K := sskew th in smulMM (smulMM (smulMM K K) K) K = szeroM.
Proof.
  destruct th as [[] [] [] []]. cbn [s0]. intro H. injection H; intros; subst.
  cbv zeta. serM_ring.
Qed.

(** int_lin is the integral of the linear signal, component by component *)
Lemma int_lin_1d (a b x y : R) :
  is_RInt (fun s => a + s * b) x y ((y - x) * a + (y * y - x * x) / 2 * b).
Proof.
  replace ((y - x) * a + (y * y - x * x) / 2 * b)
    with (minus ((fun s => a * s + b * (s * s) / 2) y) ((fun s => a * s + b * (s * s) / 2) x))
    by (unfold minus, plus, opp; cbn; field).
  apply (is_RInt_derive (fun s => a * s + b * (s * s) / 2)).
  - intros s _. auto_derive; [exact I|field].
  - intros s _. apply (ex_derive_continuous (fun s => a + s * b)). auto_derive. exact I.
Qed.

Lemma int_lin_is_RInt (a b : V3) (x y : R) :
  is_RInt (fun s => vx (lin a b s)) x y (vx (int_lin a b x y)) /\
  is_RInt (fun s => vy (lin a b s)) x y (vy (int_lin a b x y)) /\
  is_RInt (fun s => vz (lin a b s)) x y (vz (int_lin a b x y)).
Proof. destruct a, b. unf_spec. repeat split; apply int_lin_1d. Qed.

(** * 1. exp[theta x] = C_PB mod t^4 for theta = a t + b t^2/2 + (a x b) t^3/12 *)
Lemma exp_theta_lin_is_PB a b : exp_rv3 (theta_lin a b) = C_PB a b.
Proof. destruct a, b. serM_ring. Qed.

(** the PB velocity series is dv_lin plus the second-order rotation term *)
Lemma dv_lin_minus_PB a b d e : ssubV (dv_lin a b d e) (u_PB a b d e) = dv_gap a d.
Proof. destruct a, b, d, e. serV_ring. Qed.

(** * 2. sensor_type = 'rate' : samples of w = a + b s, f = d + e s at the two ends of an
       interval of length t.  Row 2 (samples 1,2; px, tx arbitrary) and row 1 (samples 0,1). *)

Lemma rate_theta_row2 a b d e px t0 tx t :
  rate_th2 px (smp_rate a b d e 0) (smp_rate a b d e t) t0 tx t = veval (theta_lin a b) t.
Proof. destruct a, b, d, e, px as [[] []]. v3_ring. Qed.

Lemma rate_theta_row1 a b d e px t0 tx t :
  rate_th1 (smp_rate a b d e 0) (smp_rate a b d e t) px t0 t tx = veval (theta_lin a b) t.
Proof. destruct a, b, d, e, px as [[] []]. v3_ring. Qed.

(** dv is a polynomial of degree 4 in t; its t^4 coefficient is (b x e)/8 *)

Lemma rate_dv_row2 a b d e px t0 tx t :
  rate_dv2 px (smp_rate a b d e 0) (smp_rate a b d e t) t0 tx t
  = vadd (veval (dv_lin a b d e) t) (dv_t4 b e t).
Proof. destruct a, b, d, e, px as [[] []]. unfold dv_t4. v3_ring. Qed.

Lemma rate_dv_row1 a b d e px t0 tx t :
  rate_dv1 (smp_rate a b d e 0) (smp_rate a b d e t) px t0 t tx
  = vadd (veval (dv_lin a b d e) t) (dv_t4 b e t).
Proof. destruct a, b, d, e, px as [[] []]. unfold dv_t4. v3_ring. Qed.

(** * 3. sensor_type = 'increment' : samples are the integrals of w, f over the intervals
       [-t1, 0] (previous) and [0, t2] (current); time 0 = start of the current interval. *)

(** general t1, t2: exact generated formulas *)

Lemma incr_theta_row2_gen a b d e px t0 t1 t2 :
  incr_th2 px (smp_int a b d e (- t1) 0) (smp_int a b d e 0 t2) t0 t1 t2
  = vadd (vadd (vscale t2 a) (vscale (t2 * t2 / 2) b))
         (vscale (t1 * t2 * (t1 + t2) / 24) (cross a b)).
Proof. destruct a, b, d, e, px as [[] []]. v3_ring. Qed.

Lemma incr_theta_row2_uneq a b d e px t0 t1 t2 :
  incr_th2 px (smp_int a b d e (- t1) 0) (smp_int a b d e 0 t2) t0 t1 t2
  = vadd (veval (theta_lin a b) t2) (vscale (uneq_factor t1 t2) (cross a b)).
Proof. destruct a, b, d, e, px as [[] []]. unfold uneq_factor. v3_ring. Qed.

Lemma incr_dv_row2_uneq a b d e px t0 t1 t2 :
  incr_dv2 px (smp_int a b d e (- t1) 0) (smp_int a b d e 0 t2) t0 t1 t2
  = vadd (vadd (veval (dv_lin a b d e) t2) (dv_t4 b e t2))
         (vscale (uneq_factor t1 t2) (vadd (cross a e) (cross d b))).
Proof. destruct a, b, d, e, px as [[] []]. unfold uneq_factor, dv_t4. v3_ring. Qed.

Lemma incr_theta_row1_uneq a b d e px t0 t1 t2 :
  incr_th1 (smp_int a b d e (- t1) 0) (smp_int a b d e 0 t2) px t0 t2 t1
  = vadd (veval (theta_lin a b) t2) (vscale (uneq_factor t1 t2) (cross a b)).
Proof. destruct a, b, d, e, px as [[] []]. unfold uneq_factor. v3_ring. Qed.

Lemma incr_dv_row1_uneq a b d e px t0 t1 t2 :
  incr_dv1 (smp_int a b d e (- t1) 0) (smp_int a b d e 0 t2) px t0 t2 t1
  = vadd (vadd (veval (dv_lin a b d e) t2) (dv_t4 b e t2))
         (vscale (uneq_factor t1 t2) (vadd (cross a e) (cross d b))).
Proof. destruct a, b, d, e, px as [[] []]. unfold uneq_factor, dv_t4. v3_ring. Qed.

Lemma uneq_factor_eq t : uneq_factor t t = 0.
Proof. unfold uneq_factor. field. Qed.

Lemma uneq_factor_zero_iff t1 t2 : 0 < t1 -> 0 < t2 -> (uneq_factor t1 t2 = 0 <-> t1 = t2).
Proof.
  intros H1 H2. unfold uneq_factor. split.
  - intro H. assert (E : t2 * (t1 - t2) * (t1 + 2 * t2) = 0) by lra.
    apply Rmult_integral in E. destruct E as [E|E]; [|lra].
    apply Rmult_integral in E. destruct E as [E|E]; lra.
  - intros ->. field.
Qed.

Lemma vadd_zero_r v k w : k = 0 -> vadd v (vscale k w) = v.
Proof. intros ->. destruct v, w. apply V3_eq; unf_spec; ring. Qed.

(** equal adjacent intervals *)
Lemma incr_theta_row2 a b d e px t0 t :
  incr_th2 px (smp_int a b d e (- t) 0) (smp_int a b d e 0 t) t0 t t = veval (theta_lin a b) t.
Proof. rewrite incr_theta_row2_uneq. apply vadd_zero_r, uneq_factor_eq. Qed.

Lemma incr_dv_row2 a b d e px t0 t :
  incr_dv2 px (smp_int a b d e (- t) 0) (smp_int a b d e 0 t) t0 t t
  = vadd (veval (dv_lin a b d e) t) (dv_t4 b e t).
Proof. rewrite incr_dv_row2_uneq. apply vadd_zero_r, uneq_factor_eq. Qed.

Lemma incr_theta_row1 a b d e px t0 t tx :
  incr_th1 (smp_int a b d e (- t) 0) (smp_int a b d e 0 t) px t0 t tx = veval (theta_lin a b) t.
Proof. destruct a, b, d, e, px as [[] []]. v3_ring. Qed.

Lemma incr_dv_row1 a b d e px t0 t tx :
  incr_dv1 (smp_int a b d e (- t) 0) (smp_int a b d e 0 t) px t0 t tx
  = vadd (veval (dv_lin a b d e) t) (dv_t4 b e t).
Proof. destruct a, b, d, e, px as [[] []]. unfold dv_t4. v3_ring. Qed.

(** * 4. The statements of Props/C15.v *)

Lemma theta_rate_cubic a b d e px t0 tx t :
  rate_th2 px (smp_rate a b d e 0) (smp_rate a b d e t) t0 tx t = veval (theta_lin a b) t /\
  rate_th1 (smp_rate a b d e 0) (smp_rate a b d e t) px t0 t tx = veval (theta_lin a b) t /\
  exp_rv3 (theta_lin a b) = C_PB a b.
Proof.
  split; [apply rate_theta_row2|]. split; [apply rate_theta_row1|]. apply exp_theta_lin_is_PB.
Qed.

Lemma dv_rate_cubic a b d e px t0 tx t :
  rate_dv2 px (smp_rate a b d e 0) (smp_rate a b d e t) t0 tx t
    = vadd (veval (dv_lin a b d e) t) (dv_t4 b e t) /\
  rate_dv1 (smp_rate a b d e 0) (smp_rate a b d e t) px t0 t tx
    = vadd (veval (dv_lin a b d e) t) (dv_t4 b e t) /\
  ssubV (dv_lin a b d e) (u_PB a b d e) = dv_gap a d.
Proof.
  split; [apply rate_dv_row2|]. split; [apply rate_dv_row1|]. apply dv_lin_minus_PB.
Qed.

Lemma theta_incr_cubic a b d e px t0 tx t :
  incr_th2 px (smp_int a b d e (- t) 0) (smp_int a b d e 0 t) t0 t t = veval (theta_lin a b) t /\
  incr_th1 (smp_int a b d e (- t) 0) (smp_int a b d e 0 t) px t0 t tx = veval (theta_lin a b) t /\
  exp_rv3 (theta_lin a b) = C_PB a b.
Proof.
  split; [apply incr_theta_row2|]. split; [apply incr_theta_row1|]. apply exp_theta_lin_is_PB.
Qed.

Lemma dv_incr_cubic a b d e px t0 tx t :
  incr_dv2 px (smp_int a b d e (- t) 0) (smp_int a b d e 0 t) t0 t t
    = vadd (veval (dv_lin a b d e) t) (dv_t4 b e t) /\
  incr_dv1 (smp_int a b d e (- t) 0) (smp_int a b d e 0 t) px t0 t tx
    = vadd (veval (dv_lin a b d e) t) (dv_t4 b e t) /\
  ssubV (dv_lin a b d e) (u_PB a b d e) = dv_gap a d.
Proof.
  split; [apply incr_dv_row2|]. split; [apply incr_dv_row1|]. apply dv_lin_minus_PB.
Qed.

Lemma incr_unequal_discrepancy a b d e px t0 t1 t2 :
  (* the generated coning term is (a x b) t1 t2 (t1 + t2) / 24 ... *)
  incr_th2 px (smp_int a b d e (- t1) 0) (smp_int a b d e 0 t2) t0 t1 t2
    = vadd (vadd (vscale t2 a) (vscale (t2 * t2 / 2) b))
           (vscale (t1 * t2 * (t1 + t2) / 24) (cross a b)) /\
  (* ... i.e. it differs from the series that is exact through t^3 by a cubic term ... *)
  incr_th2 px (smp_int a b d e (- t1) 0) (smp_int a b d e 0 t2) t0 t1 t2
    = vadd (veval (theta_lin a b) t2) (vscale (uneq_factor t1 t2) (cross a b)) /\
  (* ... and so does the sculling term of dv ... *)
  incr_dv2 px (smp_int a b d e (- t1) 0) (smp_int a b d e 0 t2) t0 t1 t2
    = vadd (vadd (veval (dv_lin a b d e) t2) (dv_t4 b e t2))
           (vscale (uneq_factor t1 t2) (vadd (cross a e) (cross d b))) /\
  (* ... which vanishes exactly when the two intervals are equal *)
  (0 < t1 -> 0 < t2 -> (uneq_factor t1 t2 = 0 <-> t1 = t2)).
Proof.
  split; [apply incr_theta_row2_gen|]. split; [apply incr_theta_row2_uneq|].
  split; [apply incr_dv_row2_uneq|]. apply uneq_factor_zero_iff.
Qed.

(** * 5. Rows and stamps *)

(** traced table (3 samples -> exactly 2 rows, asserted by the tracer): labels and dt *)
Lemma traced_stamps p0 p1 p2 t0 dt1 dt2 :
  (rate_stamp1 p0 p1 p2 t0 dt1 dt2 = t0 + dt1 /\ rate_dt1 p0 p1 p2 t0 dt1 dt2 = dt1 /\
   rate_stamp2 p0 p1 p2 t0 dt1 dt2 = t0 + dt1 + dt2 /\ rate_dt2 p0 p1 p2 t0 dt1 dt2 = dt2) /\
  (incr_stamp1 p0 p1 p2 t0 dt1 dt2 = t0 + dt1 /\ incr_dt1 p0 p1 p2 t0 dt1 dt2 = dt1 /\
   incr_stamp2 p0 p1 p2 t0 dt1 dt2 = t0 + dt1 + dt2 /\ incr_dt2 p0 p1 p2 t0 dt1 dt2 = dt2).
Proof. unf_gen. repeat split; ring. Qed.

(** both rows are the same formula of (previous sample, current sample, own interval) *)
Lemma rows_uniform p0 p1 p2 px t0 dt1 dt2 tx :
  rate_th2 p0 p1 p2 t0 dt1 dt2 = rate_th1 p1 p2 px (t0 + dt1) dt2 tx /\
  rate_dv2 p0 p1 p2 t0 dt1 dt2 = rate_dv1 p1 p2 px (t0 + dt1) dt2 tx /\
  incr_th2 p0 p1 p2 t0 dt1 dt2 = incr_th1 p1 p2 px (t0 + dt1) dt2 tx /\
  incr_dv2 p0 p1 p2 t0 dt1 dt2 = incr_dv1 p1 p2 px (t0 + dt1) dt2 tx.
Proof.
  destruct p0 as [[] []], p1 as [[] []], p2 as [[] []], px as [[] []].
  repeat split; v3_ring.
Qed.

(** the per-row formulas as functions of two consecutive samples and the interval *)
Definition rate_row (sp s : Smp) (dt : R) : V3 * V3 :=
  (rate_th1 sp s s 0 dt 0, rate_dv1 sp s s 0 dt 0).
Definition incr_row (sp s : Smp) (dt : R) : V3 * V3 :=
  (incr_th1 sp s s 0 dt 0, incr_dv1 sp s s 0 dt 0).

Lemma pair_eq {A B} (a a' : A) (b b' : B) : a = a' -> b = b' -> (a, b) = (a', b').
Proof. intros; subst; reflexivity. Qed.

Lemma list2_eq {A} (a a' b b' : A) : a = a' -> b = b' -> [a; b] = [a'; b'].
Proof. intros; subst; reflexivity. Qed.

(** the list model at n = 3 is the traced table *)
Lemma rows_match_traced p0 p1 p2 t0 dt1 dt2 :
  rows Rminus rate_row [(t0, p0); (t0 + dt1, p1); (t0 + dt1 + dt2, p2)]
  = [(rate_stamp1 p0 p1 p2 t0 dt1 dt2, rate_dt1 p0 p1 p2 t0 dt1 dt2,
      (rate_th1 p0 p1 p2 t0 dt1 dt2, rate_dv1 p0 p1 p2 t0 dt1 dt2));
     (rate_stamp2 p0 p1 p2 t0 dt1 dt2, rate_dt2 p0 p1 p2 t0 dt1 dt2,
      (rate_th2 p0 p1 p2 t0 dt1 dt2, rate_dv2 p0 p1 p2 t0 dt1 dt2))] /\
  rows Rminus incr_row [(t0, p0); (t0 + dt1, p1); (t0 + dt1 + dt2, p2)]
  = [(incr_stamp1 p0 p1 p2 t0 dt1 dt2, incr_dt1 p0 p1 p2 t0 dt1 dt2,
      (incr_th1 p0 p1 p2 t0 dt1 dt2, incr_dv1 p0 p1 p2 t0 dt1 dt2));
     (incr_stamp2 p0 p1 p2 t0 dt1 dt2, incr_dt2 p0 p1 p2 t0 dt1 dt2,
      (incr_th2 p0 p1 p2 t0 dt1 dt2, incr_dv2 p0 p1 p2 t0 dt1 dt2))].
Proof.
  destruct p0 as [[] []], p1 as [[] []], p2 as [[] []].
  cbn [rows rows_from]. unfold rate_row, incr_row.
  split; apply list2_eq; repeat apply pair_eq; try (unf_gen; ring); v3_ring.
Qed.

Section RowsFacts.
  Variables (T S O : Type) (sub : T -> T -> T) (f : S -> S -> T -> O).

  Lemma rows_from_length tp sp rest : length (rows_from sub f tp sp rest) = length rest.
  Proof.
    revert tp sp. induction rest as [|[t s] r IH]; intros tp sp; cbn; [reflexivity|].
    rewrite IH. reflexivity.
  Qed.

  (** n - 1 rows (none for n = 0 or 1) *)
  Lemma rows_length imu : length (rows sub f imu) = (length imu - 1)%nat.
  Proof.
    destruct imu as [|[t0 s0] r]; cbn; [reflexivity|]. rewrite rows_from_length. lia.
  Qed.

  Lemma rows_from_nth tp sp rest i :
    nth_error (rows_from sub f tp sp rest) i =
    match nth_error ((tp, sp) :: rest) i, nth_error rest i with
    | Some (t, s), Some (t', s') => Some (t', sub t' t, f s s' (sub t' t))
    | _, _ => None
    end.
  Proof.
    revert tp sp i. induction rest as [|[t s] r IH]; intros tp sp i.
    - destruct i; cbn; [reflexivity|]. destruct i; reflexivity.
    - destruct i; cbn [rows_from nth_error]; [reflexivity|]. rewrite IH. reflexivity.
  Qed.

  (** row i is stamped with the time of sample i+1, its dt is the difference of the stamps
      of samples i+1 and i, and its data are f (sample i) (sample i+1) dt *)
  Lemma rows_nth imu i t s t' s' :
    nth_error imu i = Some (t, s) -> nth_error imu (Datatypes.S i) = Some (t', s') ->
    nth_error (rows sub f imu) i = Some (t', sub t' t, f s s' (sub t' t)).
  Proof.
    destruct imu as [|[t0 s0] r]; [destruct i; discriminate|].
    intros H1 H2. cbn [rows]. rewrite rows_from_nth. rewrite H1.
    cbn [nth_error] in H2. rewrite H2. reflexivity.
  Qed.
End RowsFacts.

Lemma rows_and_stamps (T S O : Type) (sub : T -> T -> T) (f : S -> S -> T -> O) (imu : list (T * S)) :
  length (rows sub f imu) = (length imu - 1)%nat /\
  (forall i t s t' s', nth_error imu i = Some (t, s) -> nth_error imu (Datatypes.S i) = Some (t', s') ->
     nth_error (rows sub f imu) i = Some (t', sub t' t, f s s' (sub t' t))).
Proof. split; [apply rows_length|]. intros. apply rows_nth; assumption. Qed.

(** * 6. Non-vacuity: concrete instances *)
Example coning_term_nonzero : s3 (theta_lin (mkV 1 0 0) (mkV 0 1 0)) = mkV 0 0 (/ 12).
Proof. apply V3_eq; unf_spec; field. Qed.

Example dv_gap_nonzero : s3 (dv_gap (mkV 1 0 0) (mkV 0 1 0)) = mkV 0 (/ 6) 0.
Proof. apply V3_eq; unf_spec; field. Qed.

(** w = (1, s, 0): previous interval of length 1/2, current of length 1: the generated z
    component is 1/32, the exact cubic truncation is 1/12 *)
Example unequal_instance :
  let a := mkV 1 0 0 in let b := mkV 0 1 0 in
  vz (incr_th2 (mkSmp vzero vzero) (smp_int a b vzero vzero (- (1 / 2)) 0)
               (smp_int a b vzero vzero 0 1) 0 (1 / 2) 1) = 1 / 32 /\
  vz (veval (theta_lin a b) 1) = 1 / 12 /\ uneq_factor (1 / 2) 1 = - (5 / 96).
Proof.
  cbv zeta. unfold smp_int, uneq_factor. repeat split; [unf_gen; unf_spec; field|unf_spec; field|field].
Qed.

Example rows_instance :
  rows Nat.sub (fun p c dt => (p, c, dt)) [(10, 0); (12, 1); (17, 2); (18, 3)]%nat
  = [(12, 2, (0, 1, 2)); (17, 5, (1, 2, 5)); (18, 1, (2, 3, 1))]%nat.
Proof. reflexivity. Qed.
