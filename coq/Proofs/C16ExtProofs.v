(** C16 (extension): statements that were previously only checked numerically, now theorems about
    the GENERATED definitions (Gen/Earth.v, Gen/Transform.v):
      2. lla_to_ned o perturb_lla has Jacobian I at 0           (lla_to_ned_first_order)
      1. curvature_matrix is the rotation of the NED frame under displacement
                                                                (curvature_is_frame_rotation)
      3. Olson's last step of ecef_to_lla is a Newton step with the exact guess as fixed point
         (olson_newton_step), exact inverse on the equatorial plane and on the polar axis,
         longitude round trip for every point off the axis. *)
From Coq Require Import Reals Lra Lia.
From Coquelicot Require Import Coquelicot.
From PV Require Import Base.RealTac Spec.LibSpecs Spec.LibSpecsFacts Spec.Ellipsoid.
From PV Require Import Gen.Earth Gen.Transform Proofs.C16Proofs.
Open Scope R_scope.

(** * 2. local NED coordinates of a metre-perturbed point: first order = identity *)
Ltac unf_ned := unfold lla_to_ned_n0, lla_to_ned_n1, lla_to_ned_n2;
                repeat autounfold with lla_to_ned_db.

Lemma lla_to_ned_as_frame lat lon alt lat0 lon0 alt0 :
  let dx := lla_to_ecef_r0 lat lon alt - lla_to_ecef_r0 lat0 lon0 alt0 in
  let dy := lla_to_ecef_r1 lat lon alt - lla_to_ecef_r1 lat0 lon0 alt0 in
  let dz := lla_to_ecef_r2 lat lon alt - lla_to_ecef_r2 lat0 lon0 alt0 in
  lla_to_ned_n0 lat lon alt lat0 lon0 alt0 =
    mat_en_from_ll_m00 lat0 lon0 * dx + mat_en_from_ll_m10 lat0 lon0 * dy + mat_en_from_ll_m20 lat0 lon0 * dz /\
  lla_to_ned_n1 lat lon alt lat0 lon0 alt0 =
    mat_en_from_ll_m01 lat0 lon0 * dx + mat_en_from_ll_m11 lat0 lon0 * dy + mat_en_from_ll_m21 lat0 lon0 * dz /\
  lla_to_ned_n2 lat lon alt lat0 lon0 alt0 =
    mat_en_from_ll_m02 lat0 lon0 * dx + mat_en_from_ll_m12 lat0 lon0 * dy + mat_en_from_ll_m22 lat0 lon0 * dz.
Proof.
  cbv zeta. unf_ned. unf_en. unf_ecef. repeat split; ring.
Qed.

Lemma derive_along (f : R -> R) (x0 l c : R) :
  is_derive f x0 l -> is_derive (fun d => f (x0 + d * c)) 0 (c * l).
Proof.
  intro H.
  replace (c * l) with (scal c l) by reflexivity.
  apply (is_derive_comp f (fun d => x0 + d * c)).
  - cbv beta. replace (x0 + 0 * c) with x0 by ring. exact H.
  - auto_derive; [exact I|ring].
Qed.

Lemma derive_lin3 (F0 F1 F2 : R -> R) (a0 a1 a2 c0 c1 c2 l0 l1 l2 : R) :
  is_derive F0 0 l0 -> is_derive F1 0 l1 -> is_derive F2 0 l2 ->
  is_derive (fun d => a0 * (F0 d - c0) + a1 * (F1 d - c1) + a2 * (F2 d - c2)) 0
            (a0 * l0 + a1 * l1 + a2 * l2).
Proof.
  intros H0 H1 H2.
  auto_derive.
  - repeat split; eexists; eassumption.
  - replace (Derive (fun x : R => F0 x) 0) with l0 by (symmetry; apply is_derive_unique; exact H0).
    replace (Derive (fun x : R => F1 x) 0) with l1 by (symmetry; apply is_derive_unique; exact H1).
    replace (Derive (fun x : R => F2 x) 0) with l2 by (symmetry; apply is_derive_unique; exact H2).
    ring.
Qed.

(* minimum of the meridian radius is a(1-e2) > 6.3e6 m: altitudes above -6000 km keep Rn + alt > 0 *)
Lemma rn_pos6 lat alt : -6000000 < alt ->
  0 < 6378137 / sqrt (1 - 66943799901413 / 10000000000000000 * (sin lat * sin lat)) *
      (9933056200098587 / 10000000000000000) /
      (1 - 66943799901413 / 10000000000000000 * (sin lat * sin lat)) + alt.
Proof.
  intro Ha. pose proof (rn_pos lat (-1000000)) as H.
  assert (H' := H ltac:(lra)). clear H.
  with_q lat.
  match goal with H : ?q * ?q = _ |- _ => rewrite <- H in * end.
  assert (q * q <= 1) by (pose proof (sin2_le1 lat); nra).
  assert (q <= 1) by nra.
  assert (6000000 <= 6378137 / q * (9933056200098587 / 10000000000000000) / (q * q)).
  { apply Rmult_le_reg_r with (q * q * q); [nra|].
    replace (6378137 / q * (9933056200098587 / 10000000000000000) / (q * q) * (q * q * q))
      with (6378137 * (9933056200098587 / 10000000000000000)) by (field; lra).
    assert (q * q * q <= 1) by nra. nra. }
  lra.
Qed.

Lemma re_pos6 lat alt : -6000000 < alt ->
  0 < 6378137 / sqrt (1 - 66943799901413 / 10000000000000000 * (sin lat * sin lat)) + alt.
Proof.
  intro Ha. pose proof (re_pos lat 0 ltac:(lra)) as H. 
  with_q lat.
  assert (q * q <= 1) by (pose proof (sin2_le1 lat); nra).
  assert (q <= 1) by nra.
  assert (6378137 <= 6378137 / q).
  { apply Rmult_le_reg_r with q; [lra|]. replace (6378137 / q * q) with 6378137 by (field; lra). nra. }
  lra.
Qed.

Lemma perturb_north lat lon alt d :
  perturb_lla_lat lat lon alt d 0 0 = lat + d * (/ principal_radii_rn lat alt * (180 / PI)) /\
  perturb_lla_lon lat lon alt d 0 0 = lon /\ perturb_lla_alt lat lon alt d 0 0 = alt.
Proof.
  unfold perturb_lla_lat, perturb_lla_lon, perturb_lla_alt. unf_radii.
  repeat autounfold with perturb_lla_db. canon_W. unfold Rdiv. repeat split; ring.
Qed.

Lemma perturb_east lat lon alt d :
  perturb_lla_lat lat lon alt 0 d 0 = lat /\
  perturb_lla_lon lat lon alt 0 d 0 = lon + d * (/ principal_radii_rp lat alt * (180 / PI)) /\
  perturb_lla_alt lat lon alt 0 d 0 = alt.
Proof.
  unfold perturb_lla_lat, perturb_lla_lon, perturb_lla_alt. unf_radii.
  repeat autounfold with perturb_lla_db. canon_W. unfold Rdiv. repeat split; ring.
Qed.

Lemma perturb_down lat lon alt d :
  perturb_lla_lat lat lon alt 0 0 d = lat /\
  perturb_lla_lon lat lon alt 0 0 d = lon /\
  perturb_lla_alt lat lon alt 0 0 d = alt + d * (-1).
Proof.
  unfold perturb_lla_lat, perturb_lla_lon, perturb_lla_alt. 
  repeat autounfold with perturb_lla_db. canon_W. unfold Rdiv. repeat split; ring.
Qed.

(* the generated radii against the specification radii, without any restriction on the latitude *)
Lemma radii_char lat alt :
  principal_radii_rn lat alt = R_meridian A_ E2_ (lat * (PI / 180)) + alt /\
  principal_radii_re lat alt = R_transverse A_ E2_ (lat * (PI / 180)) + alt /\
  principal_radii_rp lat alt =
    (R_transverse A_ E2_ (lat * (PI / 180)) + alt) * sqrt (1 - sin (lat * (PI / 180)) * sin (lat * (PI / 180))).
Proof.
  unfold R_meridian, R_transverse, W2, A_, E2_. unf_radii. canon.
  set (phi := lat * (PI/180)). with_q phi. repeat split; field; lra.
Qed.

Lemma rn_neq0 lat alt : -6000000 < alt -> principal_radii_rn lat alt <> 0.
Proof.
  intro H. rewrite (proj1 (radii_char lat alt)).
  pose proof (R_meridian_ge (lat * (PI / 180))). lra.
Qed.

Lemma rp_neq0 lat alt : -90 < lat < 90 -> -6000000 < alt -> principal_radii_rp lat alt <> 0.
Proof.
  intros Hl H. rewrite (proj2 (proj2 (radii_char lat alt))).
  rewrite (sqrt_1msin2 (lat * (PI/180))) by (apply cos_d2r_nonneg; lra).
  pose proof (R_transverse_ge (lat * (PI / 180))). pose proof (cos_d2r_pos lat Hl).
  apply Rgt_not_eq. apply Rmult_lt_0_compat; lra.
Qed.


Lemma is_derive_val (f : R -> R) (x l l' : R) : is_derive f x l -> l = l' -> is_derive f x l'.
Proof. intros H <-. exact H. Qed.

(* lla_to_ned along any curve d -> (glat d, glon d, galt d) whose ECEF image is (F0, F1, F2) *)
Lemma ned_along lat lon alt (glat glon galt F0 F1 F2 : R -> R) (l0 l1 l2 : R) :
  (forall d, lla_to_ecef_r0 (glat d) (glon d) (galt d) = F0 d) ->
  (forall d, lla_to_ecef_r1 (glat d) (glon d) (galt d) = F1 d) ->
  (forall d, lla_to_ecef_r2 (glat d) (glon d) (galt d) = F2 d) ->
  is_derive F0 0 l0 -> is_derive F1 0 l1 -> is_derive F2 0 l2 ->
  is_derive (fun d => lla_to_ned_n0 (glat d) (glon d) (galt d) lat lon alt) 0
    (mat_en_from_ll_m00 lat lon * l0 + mat_en_from_ll_m10 lat lon * l1 + mat_en_from_ll_m20 lat lon * l2) /\
  is_derive (fun d => lla_to_ned_n1 (glat d) (glon d) (galt d) lat lon alt) 0
    (mat_en_from_ll_m01 lat lon * l0 + mat_en_from_ll_m11 lat lon * l1 + mat_en_from_ll_m21 lat lon * l2) /\
  is_derive (fun d => lla_to_ned_n2 (glat d) (glon d) (galt d) lat lon alt) 0
    (mat_en_from_ll_m02 lat lon * l0 + mat_en_from_ll_m12 lat lon * l1 + mat_en_from_ll_m22 lat lon * l2).
Proof.
  intros E0 E1 E2 H0 H1 H2.
  split; [|split];
    (eapply is_derive_ext;
      [ intro d; destruct (lla_to_ned_as_frame (glat d) (glon d) (galt d) lat lon alt) as [Q0 [Q1 Q2]];
        cbv zeta in Q0, Q1, Q2; symmetry;
        first [ rewrite Q0 | rewrite Q1 | rewrite Q2 ]; rewrite E0, E1, E2; reflexivity
      | apply derive_lin3; assumption ]).
Qed.


Lemma dot_scaled (a0 a1 a2 b0 b1 b2 c k v : R) : c * k = 1 -> a0 * b0 + a1 * b1 + a2 * b2 = v ->
  a0 * (c * (k * b0)) + a1 * (c * (k * b1)) + a2 * (c * (k * b2)) = v.
Proof.
  intros Hck <-. transitivity ((c * k) * (a0 * b0 + a1 * b1 + a2 * b2)); [ring|rewrite Hck; ring].
Qed.

Lemma lla_to_ned_first_order lat lon alt :
  -90 < lat < 90 -> -6000000 < alt ->
  let ned0 d0 d1 d2 := lla_to_ned_n0 (perturb_lla_lat lat lon alt d0 d1 d2) (perturb_lla_lon lat lon alt d0 d1 d2)
                         (perturb_lla_alt lat lon alt d0 d1 d2) lat lon alt in
  let ned1 d0 d1 d2 := lla_to_ned_n1 (perturb_lla_lat lat lon alt d0 d1 d2) (perturb_lla_lon lat lon alt d0 d1 d2)
                         (perturb_lla_alt lat lon alt d0 d1 d2) lat lon alt in
  let ned2 d0 d1 d2 := lla_to_ned_n2 (perturb_lla_lat lat lon alt d0 d1 d2) (perturb_lla_lon lat lon alt d0 d1 d2)
                         (perturb_lla_alt lat lon alt d0 d1 d2) lat lon alt in
  (is_derive (fun d => ned0 d 0 0) 0 1 /\ is_derive (fun d => ned1 d 0 0) 0 0 /\ is_derive (fun d => ned2 d 0 0) 0 0) /\
  (is_derive (fun d => ned0 0 d 0) 0 0 /\ is_derive (fun d => ned1 0 d 0) 0 1 /\ is_derive (fun d => ned2 0 d 0) 0 0) /\
  (is_derive (fun d => ned0 0 0 d) 0 0 /\ is_derive (fun d => ned1 0 0 d) 0 0 /\ is_derive (fun d => ned2 0 0 d) 0 1).
Proof.
  intros Hlat Halt. cbv zeta.
  assert (Hlat' : -90 <= lat <= 90) by lra.
  pose proof (rn_neq0 lat alt Halt) as Hrn.
  pose proof (rp_neq0 lat alt Hlat Halt) as Hrp.
  pose proof PI_neq0 as Hpi.
  destruct (ecef_partial_lat lat lon alt Hlat') as [Ln0 [Ln1 Ln2]].
  destruct (ecef_partial_lon lat lon alt Hlat') as [Le0 [Le1 Le2]].
  destruct (ecef_partial_alt lat lon alt) as [Ld0 [Ld1 Ld2]].
  destruct (mat_en_columns lat lon) as [[N0 [N1 N2]] [[E0 [E1 E2]] [D0 [D1 D2]]]].
  destruct (frame_orthonormal (lat * d2r) (lon * d2r)) as [O1 [O2 [O3 [O4 [O5 O6]]]]].
  cbv zeta in *.
  set (cn := / principal_radii_rn lat alt * (180 / PI)) in *.
  set (ce := / principal_radii_rp lat alt * (180 / PI)) in *.
  assert (Hcn : cn * (d2r * principal_radii_rn lat alt) = 1) by (unfold cn, d2r; field; auto).
  assert (Hce : ce * (d2r * principal_radii_rp lat alt) = 1) by (unfold ce, d2r; field; auto).
  pose proof (derive_along _ _ _ cn Ln0) as An0. pose proof (derive_along _ _ _ cn Ln1) as An1.
  pose proof (derive_along _ _ _ cn Ln2) as An2.
  pose proof (derive_along _ _ _ ce Le0) as Ae0. pose proof (derive_along _ _ _ ce Le1) as Ae1.
  pose proof (derive_along _ _ _ ce Le2) as Ae2.
  pose proof (derive_along _ _ _ (-1) Ld0) as Ad0. pose proof (derive_along _ _ _ (-1) Ld1) as Ad1.
  pose proof (derive_along _ _ _ (-1) Ld2) as Ad2.
  cbv beta in *.
  set (phi := lat * d2r) in *. set (lam := lon * d2r) in *.

  assert (Pn : forall d, perturb_lla_lat lat lon alt d 0 0 = lat + d * cn /\
                         perturb_lla_lon lat lon alt d 0 0 = lon /\ perturb_lla_alt lat lon alt d 0 0 = alt)
    by (intro d; apply perturb_north).
  assert (Pe : forall d, perturb_lla_lat lat lon alt 0 d 0 = lat /\
                         perturb_lla_lon lat lon alt 0 d 0 = lon + d * ce /\ perturb_lla_alt lat lon alt 0 d 0 = alt)
    by (intro d; apply perturb_east).
  assert (Pd : forall d, perturb_lla_lat lat lon alt 0 0 d = lat /\
                         perturb_lla_lon lat lon alt 0 0 d = lon /\ perturb_lla_alt lat lon alt 0 0 d = alt + d * (-1))
    by (intro d; apply perturb_down).
  split; [|split].
  - destruct (ned_along lat lon alt
        (fun d => perturb_lla_lat lat lon alt d 0 0) (fun d => perturb_lla_lon lat lon alt d 0 0)
        (fun d => perturb_lla_alt lat lon alt d 0 0) _ _ _ _ _ _
        (fun d => f_equal3 _ (proj1 (Pn d)) (proj1 (proj2 (Pn d))) (proj2 (proj2 (Pn d))))
        (fun d => f_equal3 _ (proj1 (Pn d)) (proj1 (proj2 (Pn d))) (proj2 (proj2 (Pn d))))
        (fun d => f_equal3 _ (proj1 (Pn d)) (proj1 (proj2 (Pn d))) (proj2 (proj2 (Pn d))))
        An0 An1 An2) as [R0 [R1 R2]].
    cbv beta in R0, R1, R2. rewrite N0, N1, N2, E0, E1, E2, D0, D1, D2 in *.
    split; [|split]; [eapply is_derive_val; [exact R0|] | eapply is_derive_val; [exact R1|]
                     | eapply is_derive_val; [exact R2|]]; (apply dot_scaled; [exact Hcn|lra]).
  - destruct (ned_along lat lon alt
        (fun d => perturb_lla_lat lat lon alt 0 d 0) (fun d => perturb_lla_lon lat lon alt 0 d 0)
        (fun d => perturb_lla_alt lat lon alt 0 d 0) _ _ _ _ _ _
        (fun d => f_equal3 _ (proj1 (Pe d)) (proj1 (proj2 (Pe d))) (proj2 (proj2 (Pe d))))
        (fun d => f_equal3 _ (proj1 (Pe d)) (proj1 (proj2 (Pe d))) (proj2 (proj2 (Pe d))))
        (fun d => f_equal3 _ (proj1 (Pe d)) (proj1 (proj2 (Pe d))) (proj2 (proj2 (Pe d))))
        Ae0 Ae1 Ae2) as [R0 [R1 R2]].
    cbv beta in R0, R1, R2. rewrite N0, N1, N2, E0, E1, E2, D0, D1, D2 in *.
    split; [|split]; [eapply is_derive_val; [exact R0|] | eapply is_derive_val; [exact R1|]
                     | eapply is_derive_val; [exact R2|]]; (apply dot_scaled; [exact Hce|lra]).
  - destruct (ned_along lat lon alt
        (fun d => perturb_lla_lat lat lon alt 0 0 d) (fun d => perturb_lla_lon lat lon alt 0 0 d)
        (fun d => perturb_lla_alt lat lon alt 0 0 d) _ _ _ _ _ _
        (fun d => f_equal3 _ (proj1 (Pd d)) (proj1 (proj2 (Pd d))) (proj2 (proj2 (Pd d))))
        (fun d => f_equal3 _ (proj1 (Pd d)) (proj1 (proj2 (Pd d))) (proj2 (proj2 (Pd d))))
        (fun d => f_equal3 _ (proj1 (Pd d)) (proj1 (proj2 (Pd d))) (proj2 (proj2 (Pd d))))
        Ad0 Ad1 Ad2) as [R0 [R1 R2]].
    cbv beta in R0, R1, R2. rewrite N0, N1, N2, E0, E1, E2, D0, D1, D2 in *.
    split; [|split]; [eapply is_derive_val; [exact R0|] | eapply is_derive_val; [exact R1|]
                     | eapply is_derive_val; [exact R2|]]; lra.
Qed.

(** * 1. curvature matrix = rotation of the NED frame under displacement *)

Ltac unf_curv := unfold curvature_matrix_F00, curvature_matrix_F01, curvature_matrix_F02,
                   curvature_matrix_F10, curvature_matrix_F11, curvature_matrix_F12,
                   curvature_matrix_F20, curvature_matrix_F21, curvature_matrix_F22;
                 repeat autounfold with curvature_matrix_db.

Lemma perturb_dir lat lon alt d0 d1 d2 :
  perturb_lla_lat lat lon alt d0 d1 d2 = lat + d0 * (/ principal_radii_rn lat alt * (180 / PI)) /\
  perturb_lla_lon lat lon alt d0 d1 d2 = lon + d1 * (/ principal_radii_rp lat alt * (180 / PI)) /\
  perturb_lla_alt lat lon alt d0 d1 d2 = alt - d2.
Proof.
  unfold perturb_lla_lat, perturb_lla_lon, perturb_lla_alt. unf_radii.
  repeat autounfold with perturb_lla_db. canon_W. unfold Rdiv. repeat split; ring.
Qed.

(* the generated curvature matrix in terms of the generated principal radii *)
Lemma curvature_entries lat alt :
  -90 < lat < 90 ->
  curvature_matrix_F00 lat alt = 0 /\ curvature_matrix_F01 lat alt = / principal_radii_re lat alt /\
  curvature_matrix_F02 lat alt = 0 /\
  curvature_matrix_F10 lat alt = - / principal_radii_rn lat alt /\ curvature_matrix_F11 lat alt = 0 /\
  curvature_matrix_F12 lat alt = 0 /\
  curvature_matrix_F20 lat alt = 0 /\
  curvature_matrix_F21 lat alt = - (sin (lat * d2r) / principal_radii_rp lat alt) /\
  curvature_matrix_F22 lat alt = 0.
Proof.
  intro Hlat. unf_curv. unf_radii. unfold d2r, tan.
  rewrite (sqrt_1msin2 (lat * (PI/180))) by (apply cos_d2r_nonneg; lra).
  pose proof (cos_d2r_pos lat Hlat) as Hc.
  repeat split; try reflexivity; unfold Rdiv; try ring.
  rewrite Rinv_mult. ring.
Qed.

Lemma frame_rotation_core (phi lam a b : R) :
  let ph s := phi + s * a in let la s := lam + s * b in
  let rel (r0 r1 r2 : R) (c0 c1 c2 : R -> R -> R) :=
    fun s => r0 * c0 (ph s) (la s) + r1 * c1 (ph s) (la s) + r2 * c2 (ph s) (la s) in
  let w0 := b * cos phi in let w1 := - a in let w2 := - (b * sin phi) in
  let dx p l := - up_x p l in let dy p l := - up_y p l in let dz p l := - up_z p l in
  (is_derive (rel (north_x phi lam) (north_y phi lam) (north_z phi lam) north_x north_y north_z) 0 0 /\
   is_derive (rel (north_x phi lam) (north_y phi lam) (north_z phi lam) east_x east_y east_z) 0 (- w2) /\
   is_derive (rel (north_x phi lam) (north_y phi lam) (north_z phi lam) dx dy dz) 0 w1) /\
  (is_derive (rel (east_x phi lam) (east_y phi lam) (east_z phi lam) north_x north_y north_z) 0 w2 /\
   is_derive (rel (east_x phi lam) (east_y phi lam) (east_z phi lam) east_x east_y east_z) 0 0 /\
   is_derive (rel (east_x phi lam) (east_y phi lam) (east_z phi lam) dx dy dz) 0 (- w0)) /\
  (is_derive (rel (dx phi lam) (dy phi lam) (dz phi lam) north_x north_y north_z) 0 (- w1) /\
   is_derive (rel (dx phi lam) (dy phi lam) (dz phi lam) east_x east_y east_z) 0 w0 /\
   is_derive (rel (dx phi lam) (dy phi lam) (dz phi lam) dx dy dz) 0 0).
Proof.
  cbv zeta. unfold north_x, north_y, north_z, east_x, east_y, east_z, up_x, up_y, up_z. cbv beta.
  assert (Hp : sin phi * sin phi = 1 - cos phi * cos phi) by (pose proof (sc1 phi); lra).
  assert (Hl : sin lam * sin lam = 1 - cos lam * cos lam) by (pose proof (sc1 lam); lra).
  split; [|split]; (split; [|split]); (auto_derive; [exact I|]);
    replace (phi + 0 * a) with phi by ring; replace (lam + 0 * b) with lam by ring; ring [Hp Hl].
Qed.

Lemma curvature_is_frame_rotation lat lon alt e0 e1 e2 :
  -90 < lat < 90 -> -6000000 < alt ->
  let lat' s := perturb_lla_lat lat lon alt (s * e0) (s * e1) (s * e2) in
  let lon' s := perturb_lla_lon lat lon alt (s * e0) (s * e1) (s * e2) in
  let rel (r0 r1 r2 : R) (c0 c1 c2 : R -> R -> R) :=
    fun s => r0 * c0 (lat' s) (lon' s) + r1 * c1 (lat' s) (lon' s) + r2 * c2 (lat' s) (lon' s) in
  let w0 := curvature_matrix_F00 lat alt * e0 + curvature_matrix_F01 lat alt * e1 + curvature_matrix_F02 lat alt * e2 in
  let w1 := curvature_matrix_F10 lat alt * e0 + curvature_matrix_F11 lat alt * e1 + curvature_matrix_F12 lat alt * e2 in
  let w2 := curvature_matrix_F20 lat alt * e0 + curvature_matrix_F21 lat alt * e1 + curvature_matrix_F22 lat alt * e2 in
  let n0 := mat_en_from_ll_m00 lat lon in let n1 := mat_en_from_ll_m10 lat lon in let n2 := mat_en_from_ll_m20 lat lon in
  let a0 := mat_en_from_ll_m01 lat lon in let a1 := mat_en_from_ll_m11 lat lon in let a2 := mat_en_from_ll_m21 lat lon in
  let d0 := mat_en_from_ll_m02 lat lon in let d1 := mat_en_from_ll_m12 lat lon in let d2 := mat_en_from_ll_m22 lat lon in
  (is_derive (rel n0 n1 n2 mat_en_from_ll_m00 mat_en_from_ll_m10 mat_en_from_ll_m20) 0 0 /\
   is_derive (rel n0 n1 n2 mat_en_from_ll_m01 mat_en_from_ll_m11 mat_en_from_ll_m21) 0 (- w2) /\
   is_derive (rel n0 n1 n2 mat_en_from_ll_m02 mat_en_from_ll_m12 mat_en_from_ll_m22) 0 w1) /\
  (is_derive (rel a0 a1 a2 mat_en_from_ll_m00 mat_en_from_ll_m10 mat_en_from_ll_m20) 0 w2 /\
   is_derive (rel a0 a1 a2 mat_en_from_ll_m01 mat_en_from_ll_m11 mat_en_from_ll_m21) 0 0 /\
   is_derive (rel a0 a1 a2 mat_en_from_ll_m02 mat_en_from_ll_m12 mat_en_from_ll_m22) 0 (- w0)) /\
  (is_derive (rel d0 d1 d2 mat_en_from_ll_m00 mat_en_from_ll_m10 mat_en_from_ll_m20) 0 (- w1) /\
   is_derive (rel d0 d1 d2 mat_en_from_ll_m01 mat_en_from_ll_m11 mat_en_from_ll_m21) 0 w0 /\
   is_derive (rel d0 d1 d2 mat_en_from_ll_m02 mat_en_from_ll_m12 mat_en_from_ll_m22) 0 0).
Proof.
  intros Hlat Halt. cbv zeta.
  pose proof (rn_neq0 lat alt Halt) as Hrn.
  pose proof (rp_neq0 lat alt Hlat Halt) as Hrp.
  pose proof PI_neq0 as Hpi.
  destruct (curvature_entries lat alt Hlat) as [F00 [F01 [F02 [F10 [F11 [F12 [F20 [F21 F22]]]]]]]].
  rewrite F00, F01, F02, F10, F11, F12, F20, F21, F22.
  assert (Hre : principal_radii_rp lat alt = principal_radii_re lat alt * cos (lat * d2r)).
  { unf_radii. unfold d2r. rewrite (sqrt_1msin2 (lat * (PI/180))) by (apply cos_d2r_nonneg; lra). reflexivity. }
  pose proof (cos_d2r_pos lat Hlat) as Hc. fold d2r in Hc.
  assert (Hre0 : principal_radii_re lat alt <> 0).
  { intro E. rewrite E in Hre. apply Hrp. rewrite Hre. ring. }
  set (a := e0 * (/ principal_radii_rn lat alt * (180 / PI)) * d2r).
  set (b := e1 * (/ principal_radii_rp lat alt * (180 / PI)) * d2r).
  destruct (frame_rotation_core (lat * d2r) (lon * d2r) a b)
    as [[C00 [C01 C02]] [[C10 [C11 C12]] [C20 [C21 C22]]]].
  cbv zeta in *.
  destruct (mat_en_columns lat lon) as [[N0 [N1 N2]] [[E0 [E1 E2]] [D0 [D1 D2]]]].
  cbv zeta in *. rewrite N0, N1, N2, E0, E1, E2, D0, D1, D2.
  assert (Hext : forall s,
     let la' := perturb_lla_lat lat lon alt (s * e0) (s * e1) (s * e2) in
     let lo' := perturb_lla_lon lat lon alt (s * e0) (s * e1) (s * e2) in
     (mat_en_from_ll_m00 la' lo' = north_x (lat * d2r + s * a) (lon * d2r + s * b) /\
      mat_en_from_ll_m10 la' lo' = north_y (lat * d2r + s * a) (lon * d2r + s * b) /\
      mat_en_from_ll_m20 la' lo' = north_z (lat * d2r + s * a) (lon * d2r + s * b)) /\
     (mat_en_from_ll_m01 la' lo' = east_x (lat * d2r + s * a) (lon * d2r + s * b) /\
      mat_en_from_ll_m11 la' lo' = east_y (lat * d2r + s * a) (lon * d2r + s * b) /\
      mat_en_from_ll_m21 la' lo' = east_z (lat * d2r + s * a) (lon * d2r + s * b)) /\
     (mat_en_from_ll_m02 la' lo' = - up_x (lat * d2r + s * a) (lon * d2r + s * b) /\
      mat_en_from_ll_m12 la' lo' = - up_y (lat * d2r + s * a) (lon * d2r + s * b) /\
      mat_en_from_ll_m22 la' lo' = - up_z (lat * d2r + s * a) (lon * d2r + s * b))).
  { intro s. cbv zeta.
    destruct (perturb_dir lat lon alt (s * e0) (s * e1) (s * e2)) as [P1 [P2 _]].
    rewrite P1, P2.
    replace (lat * d2r + s * a) with ((lat + s * e0 * (/ principal_radii_rn lat alt * (180 / PI))) * d2r)
      by (unfold a; ring).
    replace (lon * d2r + s * b) with ((lon + s * e1 * (/ principal_radii_rp lat alt * (180 / PI))) * d2r)
      by (unfold b; ring).
    apply mat_en_columns. }
  assert (Ha : a = e0 / principal_radii_rn lat alt) by (unfold a, d2r; field; auto).
  assert (Hb : b = e1 / principal_radii_rp lat alt) by (unfold b, d2r; field; auto).
  split; [|split]; (split; [|split]);
    (eapply is_derive_val;
     [ eapply is_derive_ext;
       [ intro s; destruct (Hext s) as [[X0 [X1 X2]] [[Y0 [Y1 Y2]] [Z0 [Z1 Z2]]]]; cbv zeta in *; cbv beta;
         rewrite ?X0, ?X1, ?X2, ?Y0, ?Y1, ?Y2, ?Z0, ?Z1, ?Z2; reflexivity
       | first [exact C00|exact C01|exact C02|exact C10|exact C11|exact C12|exact C20|exact C21|exact C22] ]
     | rewrite ?Ha, ?Hb, ?Hre; field; repeat split; auto; apply Rgt_not_eq; exact Hc ]).
Qed.

(** * 3. ecef_to_lla (Olson): the final step is a Newton step; exact sub-domains; longitude *)

(** Olson's final step = one Newton step: if the guess (sg, cg) = (sin, cos) of the true reduced
    latitude, the residual (u, v) is altitude times the normal, so m = 0, p = 0, f = altitude. *)

(* branch c2 > 0.3: the guess is the sine [ecef_to_lla__10] *)
Lemma olson_step_sin x y z sg cg h :
  ecef_to_lla__10 x y z = sg -> sqrt (1 - sg * sg) = cg -> sg * sg + cg * cg = 1 ->
  let N := 6378137 / sqrt (1 - 66943799901413 / 10000000000000000 * (sg * sg)) in
  ecef_to_lla__0 x y = (N + h) * cg ->
  Rabs z = (9933056200098587 / 10000000000000000 * N + h) * sg ->
  ecef_to_lla__18 x y z = h /\ ecef_to_lla__19 x y z = 0 /\ ecef_to_lla__20 x y z = 0 /\
  ecef_to_lla__21 x y z = asin sg /\ ecef_to_lla__23 x y z = h.
Proof.
  intros G C SC N W Z.
  assert (H11 : ecef_to_lla__11 x y z = sg * sg) by (unfold ecef_to_lla__11; rewrite G; reflexivity).
  assert (H12 : ecef_to_lla__12 x y z = 1 - 66943799901413 / 10000000000000000 * (sg * sg))
    by (unfold ecef_to_lla__12; rewrite H11; reflexivity).
  assert (H13 : ecef_to_lla__13 x y z = N) by (unfold ecef_to_lla__13; rewrite H12; reflexivity).
  assert (H14 : ecef_to_lla__14 x y z = 9933056200098587 / 10000000000000000 * N)
    by (unfold ecef_to_lla__14; rewrite H13; reflexivity).
  assert (H15 : ecef_to_lla__15 x y z = h * sg)
    by (unfold ecef_to_lla__15, ecef_to_lla__9; rewrite H14, G, Z; ring).
  assert (H16 : ecef_to_lla__16 x y z = cg) by (unfold ecef_to_lla__16; rewrite H11; exact C).
  assert (H17 : ecef_to_lla__17 x y z = h * cg)
    by (unfold ecef_to_lla__17; rewrite H13, H16, W; ring).
  assert (H18 : ecef_to_lla__18 x y z = h).
  { unfold ecef_to_lla__18. rewrite H16, H17, G, H15.
    transitivity (h * (sg * sg + cg * cg)); [ring|rewrite SC; ring]. }
  assert (H19 : ecef_to_lla__19 x y z = 0)
    by (unfold ecef_to_lla__19; rewrite H16, H17, G, H15; ring).
  assert (H20 : ecef_to_lla__20 x y z = 0)
    by (unfold ecef_to_lla__20; rewrite H19; unfold Rdiv; ring).
  repeat split; auto.
  - unfold ecef_to_lla__21. rewrite G, H20. unfold Rdiv; ring.
  - unfold ecef_to_lla__23. rewrite H18, H19, H20. unfold Rdiv; ring.
Qed.

(* branch c2 <= 0.3: the guess is the cosine [ecef_to_lla__24] *)
Lemma olson_step_cos x y z sg cg h :
  ecef_to_lla__24 x y z = cg -> sqrt (1 - cg * cg) = sg -> sg * sg + cg * cg = 1 ->
  let N := 6378137 / sqrt (1 - 66943799901413 / 10000000000000000 * (sg * sg)) in
  ecef_to_lla__0 x y = (N + h) * cg ->
  Rabs z = (9933056200098587 / 10000000000000000 * N + h) * sg ->
  ecef_to_lla__32 x y z = h /\ ecef_to_lla__33 x y z = 0 /\ ecef_to_lla__34 x y z = 0 /\
  ecef_to_lla__35 x y z = acos cg /\ ecef_to_lla__36 x y z = h.
Proof.
  intros G C SC N W Z.
  assert (H25 : ecef_to_lla__25 x y z = sg * sg) by (unfold ecef_to_lla__25; rewrite G; lra).
  assert (H26 : ecef_to_lla__26 x y z = sg).
  { unfold ecef_to_lla__26, ecef_to_lla__25. rewrite G. exact C. }
  assert (H27 : ecef_to_lla__27 x y z = 1 - 66943799901413 / 10000000000000000 * (sg * sg))
    by (unfold ecef_to_lla__27; rewrite H25; reflexivity).
  assert (H28 : ecef_to_lla__28 x y z = N) by (unfold ecef_to_lla__28; rewrite H27; reflexivity).
  assert (H29 : ecef_to_lla__29 x y z = 9933056200098587 / 10000000000000000 * N)
    by (unfold ecef_to_lla__29; rewrite H28; reflexivity).
  assert (H30 : ecef_to_lla__30 x y z = h * sg)
    by (unfold ecef_to_lla__30, ecef_to_lla__9; rewrite H29, H26, Z; ring).
  assert (H31 : ecef_to_lla__31 x y z = h * cg)
    by (unfold ecef_to_lla__31; rewrite H28, G, W; ring).
  assert (H32 : ecef_to_lla__32 x y z = h).
  { unfold ecef_to_lla__32. rewrite G, H31, H26, H30.
    transitivity (h * (sg * sg + cg * cg)); [ring|rewrite SC; ring]. }
  assert (H33 : ecef_to_lla__33 x y z = 0)
    by (unfold ecef_to_lla__33; rewrite G, H31, H26, H30; ring).
  assert (H34 : ecef_to_lla__34 x y z = 0)
    by (unfold ecef_to_lla__34; rewrite H33; unfold Rdiv; ring).
  repeat split; auto.
  - unfold ecef_to_lla__35. rewrite G, H34. unfold Rdiv; ring.
  - unfold ecef_to_lla__36. rewrite H32, H33, H34. unfold Rdiv; ring.
Qed.

Lemma sin_abs_d2r lat : -90 <= lat <= 90 ->
  sin (Rabs lat * (PI / 180)) = Rabs (sin (lat * (PI / 180))) /\
  cos (Rabs lat * (PI / 180)) = cos (lat * (PI / 180)) /\
  0 <= Rabs lat * (PI / 180) <= PI / 2.
Proof.
  intros [H1 H2]. pose proof PI_RGT_0 as Hpi.
  destruct (Rle_dec 0 lat) as [Hl|Hl].
  - rewrite (Rabs_right lat) by lra.
    assert (0 <= sin (lat * (PI / 180))) by (apply sin_ge_0; nra).
    rewrite Rabs_right by lra. repeat split; try reflexivity; nra.
  - rewrite (Rabs_left lat) by lra.
    replace (- lat * (PI / 180)) with (- (lat * (PI / 180))) by ring.
    rewrite sin_neg, cos_neg.
    assert (sin (lat * (PI / 180)) < 0) by (apply sin_lt_0_var; nra).
    rewrite Rabs_left1 by lra. repeat split; try reflexivity; nra.
Qed.

Lemma rf_pos6 lat alt : -6000000 < alt ->
  0 < 9933056200098587 / 10000000000000000 *
      (6378137 / sqrt (1 - 66943799901413 / 10000000000000000 * (sin lat * sin lat))) + alt.
Proof.
  intro Ha. with_q lat.
  assert (q * q <= 1) by (pose proof (sin2_le1 lat); nra).
  assert (q <= 1) by nra.
  assert (6378137 <= 6378137 / q).
  { apply Rmult_le_reg_r with q; [lra|]. replace (6378137 / q * q) with 6378137 by (field; lra). nra. }
  lra.
Qed.

(* the generated lla_to_ecef in one fixed spelling *)
Lemma ecef_char lat lon alt :
  let phi := lat * (PI / 180) in let lam := lon * (PI / 180) in
  let N := 6378137 / sqrt (1 - 66943799901413 / 10000000000000000 * (sin phi * sin phi)) in
  lla_to_ecef_r0 lat lon alt = (N + alt) * cos phi * cos lam /\
  lla_to_ecef_r1 lat lon alt = (N + alt) * cos phi * sin lam /\
  lla_to_ecef_r2 lat lon alt = (9933056200098587 / 10000000000000000 * N + alt) * sin phi.
Proof.
  cbv zeta. unf_ecef. canon. set (phi := lat * (PI/180)). with_q phi. repeat split; field; lra.
Qed.

(* the ECEF image of a geodetic point in cylindrical form, as ecef_to_lla sees it *)
Lemma ecef_cylindrical lat lon alt :
  -90 < lat < 90 -> -6000000 < alt ->
  let sg := sin (Rabs lat * (PI / 180)) in let cg := cos (lat * (PI / 180)) in
  let N := 6378137 / sqrt (1 - 66943799901413 / 10000000000000000 * (sg * sg)) in
  let x := lla_to_ecef_r0 lat lon alt in let y := lla_to_ecef_r1 lat lon alt in
  let z := lla_to_ecef_r2 lat lon alt in
  (sg * sg + cg * cg = 1 /\ sqrt (1 - sg * sg) = cg /\ sqrt (1 - cg * cg) = sg) /\
  (0 < (N + alt) * cg /\ x = (N + alt) * cg * cos (lon * (PI / 180)) /\
   y = (N + alt) * cg * sin (lon * (PI / 180)) /\ ecef_to_lla__0 x y = (N + alt) * cg) /\
  (Rabs z = (9933056200098587 / 10000000000000000 * N + alt) * sg /\ (z < 0 <-> lat < 0)).
Proof.
  intros Hlat Halt. cbv zeta.
  destruct (sin_abs_d2r lat ltac:(lra)) as [Hs [Hc Hr]].
  pose proof (cos_d2r_pos lat Hlat) as Hcp.
  pose proof (re_pos6 (lat * (PI/180)) alt Halt) as Hre.
  pose proof (rf_pos6 (lat * (PI/180)) alt Halt) as Hrf.
  pose proof PI_RGT_0 as Hpi.
  assert (Hss : sin (Rabs lat * (PI / 180)) * sin (Rabs lat * (PI / 180)) =
                sin (lat * (PI / 180)) * sin (lat * (PI / 180))).
  { rewrite Hs. unfold Rabs. destruct (Rcase_abs _); ring. }
  rewrite Hss.
  set (phi := lat * (PI / 180)) in *. set (lam := lon * (PI / 180)).
  assert (Hsg0 : 0 <= sin (Rabs lat * (PI / 180))) by (rewrite Hs; apply Rabs_pos).
  destruct (ecef_char lat lon alt) as [X0 [X1 X2]]. cbv zeta in X0, X1, X2. fold phi lam in X0, X1, X2.
  rewrite X0, X1, X2. clear X0 X1 X2.
  split; [|split].
  - split; [|split].
    + pose proof (sc1 phi). lra.
    + apply sqrt_1msin2. fold phi. lra.
    + replace (1 - cos phi * cos phi) with
        (sin (Rabs lat * (PI / 180)) * sin (Rabs lat * (PI / 180))) by (rewrite Hss; pose proof (sc1 phi); lra).
      apply sqrt_square. exact Hsg0.
  - assert (Hk : 0 < (6378137 / sqrt (1 - 66943799901413 / 10000000000000000 * (sin phi * sin phi)) + alt) * cos phi)
      by (apply Rmult_lt_0_compat; assumption).
    split; [exact Hk|]. split; [reflexivity|]. split; [reflexivity|].
    unfold ecef_to_lla__0.
    set (k := (6378137 / sqrt (1 - 66943799901413 / 10000000000000000 * (sin phi * sin phi)) + alt) * cos phi) in *.
    replace (k * cos lam * (k * cos lam) + k * sin lam * (k * sin lam)) with (k * k)
      by (pose proof (sc1 lam); nra).
    apply sqrt_square. lra.
  - set (K := 9933056200098587 / 10000000000000000 *
        (6378137 / sqrt (1 - 66943799901413 / 10000000000000000 * (sin phi * sin phi))) + alt) in *.
    split.
    + rewrite Rabs_mult, (Rabs_right K) by lra. rewrite Hs. reflexivity.
    + split; intro Hz.
      * destruct (Rlt_dec lat 0) as [|Hn]; [assumption|exfalso].
        assert (0 <= sin phi) by (apply sin_ge_0; unfold phi; nra). nra.
      * assert (sin phi < 0) by (apply sin_lt_0_var; unfold phi; nra). nra.
Qed.

Lemma ecef_to_lla_lon_is_atan2 x y z : ecef_to_lla_lon x y z = atan2 y x * r2d.
Proof.
  unfold ecef_to_lla_lon, ecef_to_lla_lon__p0, ecef_to_lla_lon__p1, ecef_to_lla_lon__p2,
    ecef_to_lla_lon__p3, ecef_to_lla__22, r2d.
  destruct (Rgt_dec _ _); destruct (Rlt_dec z 0); reflexivity.
Qed.

Lemma lon_round_trip lat lon alt z' :
  -90 < lat < 90 -> -180 < lon <= 180 -> -6000000 < alt ->
  ecef_to_lla_lon (lla_to_ecef_r0 lat lon alt) (lla_to_ecef_r1 lat lon alt) z' = lon.
Proof.
  intros Hlat Hlon Halt.
  destruct (ecef_cylindrical lat lon alt Hlat Halt) as [_ [[Hk [Hx [Hy _]]] _]].
  cbv zeta in *. rewrite ecef_to_lla_lon_is_atan2, Hx, Hy.
  pose proof PI_RGT_0 as Hpi.
  rewrite atan2_sin_cos; [unfold r2d; field; lra|exact Hk|].
  split; nra.
Qed.

(** If the series guess is exact, the Newton correction vanishes and the output is the exact
    geodetic triple. *)
Lemma olson_newton_step lat lon alt :
  -90 < lat < 90 -> -180 < lon <= 180 -> -6000000 < alt ->
  let x := lla_to_ecef_r0 lat lon alt in let y := lla_to_ecef_r1 lat lon alt in
  let z := lla_to_ecef_r2 lat lon alt in
  (ecef_to_lla__4 x y z > 3 / 10 -> ecef_to_lla__10 x y z = sin (Rabs lat * d2r)) ->
  (~ ecef_to_lla__4 x y z > 3 / 10 -> ecef_to_lla__24 x y z = cos (lat * d2r)) ->
  ((ecef_to_lla__4 x y z > 3 / 10 -> ecef_to_lla__19 x y z = 0 /\ ecef_to_lla__20 x y z = 0) /\
   (~ ecef_to_lla__4 x y z > 3 / 10 -> ecef_to_lla__33 x y z = 0 /\ ecef_to_lla__34 x y z = 0)) /\
  ecef_to_lla_lat x y z = lat /\ ecef_to_lla_lon x y z = lon /\ ecef_to_lla_alt x y z = alt.
Proof.
  intros Hlat Hlon Halt. cbv zeta. unfold d2r. intros GA GB.
  destruct (ecef_cylindrical lat lon alt Hlat Halt) as [[SC [C1 C2]] [[Hk [Hx [Hy HW]]] [HZ Hsign]]].
  destruct (sin_abs_d2r lat ltac:(lra)) as [Hs [Hc Hr]].
  cbv zeta in *.
  set (x := lla_to_ecef_r0 lat lon alt) in *. set (y := lla_to_ecef_r1 lat lon alt) in *.
  set (z := lla_to_ecef_r2 lat lon alt) in *.
  pose proof PI_RGT_0 as Hpi.
  assert (Hasin : asin (sin (Rabs lat * (PI / 180))) = Rabs lat * (PI / 180)) by (apply asin_sin; lra).
  assert (Hacos : acos (cos (lat * (PI / 180))) = Rabs lat * (PI / 180))
    by (rewrite <- Hc; apply acos_cos; lra).
  assert (Hlon' : ecef_to_lla_lon x y z = lon) by (apply lon_round_trip; assumption).
  split; [split|split; [|split; [exact Hlon'|]]].
  - intro Hb. destruct (olson_step_sin x y z _ _ alt (GA Hb) C1 SC HW HZ) as [_ [H19 [H20 _]]]. auto.
  - intro Hb. destruct (olson_step_cos x y z _ _ alt (GB Hb) C2 SC HW HZ) as [_ [H33 [H34 _]]]. auto.
  - unfold ecef_to_lla_lat, ecef_to_lla_lat__p0, ecef_to_lla_lat__p1, ecef_to_lla_lat__p2, ecef_to_lla_lat__p3.
    destruct (Rgt_dec _ _) as [Hb|Hb].
    + destruct (olson_step_sin x y z _ _ alt (GA Hb) C1 SC HW HZ) as [_ [_ [_ [H21 _]]]].
      rewrite H21, Hasin.
      destruct (Rlt_dec z 0) as [Hz|Hz].
      * rewrite Rabs_left by (apply Hsign; exact Hz). field. lra.
      * rewrite Rabs_right by (apply Rnot_lt_ge; intro Hl; apply Hz, Hsign; exact Hl). field. lra.
    + destruct (olson_step_cos x y z _ _ alt (GB Hb) C2 SC HW HZ) as [_ [_ [_ [H35 _]]]].
      rewrite H35, Hacos.
      destruct (Rlt_dec z 0) as [Hz|Hz].
      * rewrite Rabs_left by (apply Hsign; exact Hz). field. lra.
      * rewrite Rabs_right by (apply Rnot_lt_ge; intro Hl; apply Hz, Hsign; exact Hl). field. lra.
  - unfold ecef_to_lla_alt, ecef_to_lla_alt__p0, ecef_to_lla_alt__p1, ecef_to_lla_alt__p2, ecef_to_lla_alt__p3.
    destruct (Rgt_dec _ _) as [Hb|Hb].
    + destruct (olson_step_sin x y z _ _ alt (GA Hb) C1 SC HW HZ) as [_ [_ [_ [_ H23]]]].
      destruct (Rlt_dec z 0); exact H23.
    + destruct (olson_step_cos x y z _ _ alt (GB Hb) C2 SC HW HZ) as [_ [_ [_ [_ H36]]]].
      destruct (Rlt_dec z 0); exact H36.
Qed.

(** Sub-domains where the series guess is exact by construction. *)

(* every point of the equatorial plane (off the axis) *)
Lemma ecef_to_lla_equatorial_plane x y :
  0 < x * x + y * y ->
  ecef_to_lla_lat x y 0 = 0 /\ ecef_to_lla_lon x y 0 = atan2 y x * r2d /\
  ecef_to_lla_alt x y 0 = sqrt (x * x + y * y) - A_.
Proof.
  intro Hxy.
  assert (Hw : 0 < sqrt (x * x + y * y)) by (apply sqrt_lt_R0; exact Hxy).
  set (w := sqrt (x * x + y * y)) in *.
  assert (H4 : ecef_to_lla__4 x y 0 = 1).
  { unfold ecef_to_lla__4, ecef_to_lla__3, ecef_to_lla__2, ecef_to_lla__1, ecef_to_lla__0. fold w.
    field. lra. }
  assert (H10 : ecef_to_lla__10 x y 0 = 0).
  { unfold ecef_to_lla__10, ecef_to_lla__9. rewrite Rabs_R0. unfold Rdiv. ring. }
  assert (Hq : sqrt (1 - 66943799901413 / 10000000000000000 * (0 * 0)) = 1)
    by (replace (1 - 66943799901413 / 10000000000000000 * (0 * 0)) with 1 by ring; apply sqrt_1).
  assert (Hc : sqrt (1 - 0 * 0) = 1) by (replace (1 - 0 * 0) with 1 by ring; apply sqrt_1).
  destruct (olson_step_sin x y 0 0 1 (w - 6378137) H10 Hc ltac:(ring)) as [_ [_ [_ [H21 H23]]]].
  { unfold ecef_to_lla__0. fold w. rewrite Hq. field. }
  { rewrite Rabs_R0. ring. }
  split; [|split; [apply ecef_to_lla_lon_is_atan2|]].
  - unfold ecef_to_lla_lat. destruct (Rgt_dec _ _) as [Hb|Hb]; [|exfalso; apply Hb; rewrite H4; lra].
    destruct (Rlt_dec 0 0) as [Hz|Hz]; [lra|].
    unfold ecef_to_lla_lat__p1. rewrite H21, asin_0. ring.
  - unfold ecef_to_lla_alt. destruct (Rgt_dec _ _) as [Hb|Hb]; [|exfalso; apply Hb; rewrite H4; lra].
    destruct (Rlt_dec 0 0) as [Hz|Hz]; [lra|].
    unfold ecef_to_lla_alt__p1, A_. exact H23.
Qed.

Lemma ecef_at_equator lon alt :
  lla_to_ecef_r0 0 lon alt = (6378137 + alt) * cos (lon * (PI / 180)) /\
  lla_to_ecef_r1 0 lon alt = (6378137 + alt) * sin (lon * (PI / 180)) /\
  lla_to_ecef_r2 0 lon alt = 0.
Proof.
  destruct (ecef_char 0 lon alt) as [X0 [X1 X2]]. cbv zeta in X0, X1, X2. rewrite X0, X1, X2.
  replace (0 * (PI / 180)) with 0 by ring. rewrite sin_0, cos_0.
  replace (1 - 66943799901413 / 10000000000000000 * (0 * 0)) with 1 by ring. rewrite sqrt_1.
  repeat split; field.
Qed.

Lemma equator_round_trip lon alt :
  -180 < lon <= 180 -> - A_ < alt ->
  let x := lla_to_ecef_r0 0 lon alt in let y := lla_to_ecef_r1 0 lon alt in
  let z := lla_to_ecef_r2 0 lon alt in
  ecef_to_lla_lat x y z = 0 /\ ecef_to_lla_lon x y z = lon /\ ecef_to_lla_alt x y z = alt.
Proof.
  intros Hlon Halt. unfold A_ in Halt. cbv zeta.
  pose proof PI_RGT_0 as Hpi.
  destruct (ecef_at_equator lon alt) as [Hx [Hy Hz]].
  rewrite Hz, Hx, Hy.
  set (k := 6378137 + alt). set (lam := lon * (PI / 180)).
  assert (Hk : 0 < k) by (unfold k; lra).
  assert (Hn : k * cos lam * (k * cos lam) + k * sin lam * (k * sin lam) = k * k)
    by (pose proof (sc1 lam); nra).
  destruct (ecef_to_lla_equatorial_plane (k * cos lam) (k * sin lam)) as [E1 [E2 E3]]; [nra|].
  split; [exact E1|split].
  - rewrite E2, atan2_sin_cos; [unfold r2d, lam; field; lra|exact Hk|unfold lam; split; nra].
  - rewrite E3, Hn, sqrt_square by lra. unfold k, A_. ring.
Qed.

(* non-vacuity of the hypotheses of [olson_newton_step]: on the equator the series guess IS exact *)
Lemma olson_guess_exact_on_equator lon alt :
  -180 < lon <= 180 -> - A_ < alt ->
  let x := lla_to_ecef_r0 0 lon alt in let y := lla_to_ecef_r1 0 lon alt in
  let z := lla_to_ecef_r2 0 lon alt in
  (ecef_to_lla__4 x y z > 3 / 10 -> ecef_to_lla__10 x y z = sin (Rabs 0 * d2r)) /\
  (~ ecef_to_lla__4 x y z > 3 / 10 -> ecef_to_lla__24 x y z = cos (0 * d2r)).
Proof.
  intros Hlon Halt. unfold A_ in Halt. cbv zeta.
  destruct (ecef_at_equator lon alt) as [Hx [Hy Hz]].
  rewrite Hz, Hx, Hy.
  set (k := 6378137 + alt). set (lam := lon * (PI / 180)).
  assert (Hk : 0 < k) by (unfold k; lra).
  assert (Hn : 0 < k * cos lam * (k * cos lam) + k * sin lam * (k * sin lam))
    by (pose proof (sc1 lam); nra).
  assert (Hw : 0 < sqrt (k * cos lam * (k * cos lam) + k * sin lam * (k * sin lam)))
    by (apply sqrt_lt_R0; exact Hn).
  split.
  - intros _. unfold ecef_to_lla__10, ecef_to_lla__9. rewrite Rabs_R0.
    replace (0 * d2r) with 0 by ring. rewrite sin_0. unfold Rdiv. ring.
  - intro Hb. exfalso. apply Hb.
    unfold ecef_to_lla__4, ecef_to_lla__3, ecef_to_lla__2, ecef_to_lla__1, ecef_to_lla__0.
    set (w := sqrt (k * cos lam * (k * cos lam) + k * sin lam * (k * sin lam))) in *.
    replace (w * w / (0 * 0 + w * w)) with 1 by (field; lra). lra.
Qed.

(* (1-e2) * a / sqrt(1-e2) is the semi-minor axis b = sqrt(a^2 (1-e2)) *)
Lemma semi_minor_axis :
  9933056200098587 / 10000000000000000 *
    (6378137 / sqrt (1 - 66943799901413 / 10000000000000000 * (1 * 1))) = sqrt (b2 A_ E2_).
Proof.
  unfold b2, A_, E2_.
  replace (1 - 66943799901413 / 10000000000000000 * (1 * 1)) with (9933056200098587 / 10000000000000000) by lra.
  replace (1 - 66943799901413 / 10000000000000000) with (9933056200098587 / 10000000000000000) by lra.
  set (t := 9933056200098587 / 10000000000000000).
  assert (Ht : 0 < t) by (unfold t; lra).
  assert (Hs : 0 < sqrt t) by (apply sqrt_lt_R0; exact Ht).
  assert (Hss : sqrt t * sqrt t = t) by (apply sqrt_sqrt; lra).
  rewrite sqrt_mult by lra. rewrite sqrt_square by lra.
  rewrite <- Hss at 1. field. lra.
Qed.


(* the polar axis: latitude +-90 deg, altitude above the pole |z| - b, longitude reported as 0 *)
Lemma ecef_to_lla_polar_axis z :
  z <> 0 ->
  ecef_to_lla_lat 0 0 z = (if Rlt_dec z 0 then -90 else 90) /\ ecef_to_lla_lon 0 0 z = 0 /\
  ecef_to_lla_alt 0 0 z = Rabs z - sqrt (b2 A_ E2_).
Proof.
  intro Hz0.
  pose proof PI_RGT_0 as Hpi.
  assert (Hw : ecef_to_lla__0 0 0 = 0).
  { unfold ecef_to_lla__0. replace (0 * 0 + 0 * 0) with 0 by ring. apply sqrt_0. }
  assert (H4 : ecef_to_lla__4 0 0 z = 0).
  { unfold ecef_to_lla__4, ecef_to_lla__1. rewrite Hw. unfold Rdiv. ring. }
  assert (H24 : ecef_to_lla__24 0 0 z = 0).
  { unfold ecef_to_lla__24. rewrite Hw. unfold Rdiv. ring. }
  assert (Hc : sqrt (1 - 0 * 0) = 1) by (replace (1 - 0 * 0) with 1 by ring; apply sqrt_1).
  set (N := 6378137 / sqrt (1 - 66943799901413 / 10000000000000000 * (1 * 1))).
  destruct (olson_step_cos 0 0 z 1 0 (Rabs z - 9933056200098587 / 10000000000000000 * N) H24 Hc ltac:(ring))
    as [_ [_ [_ [H35 H36]]]].
  { rewrite Hw. ring. }
  { fold N. ring. }
  assert (Hb : 9933056200098587 / 10000000000000000 * N = sqrt (b2 A_ E2_)) by (apply semi_minor_axis).
  split; [|split].
  - unfold ecef_to_lla_lat. destruct (Rgt_dec _ _) as [Hg|Hg]; [rewrite H4 in Hg; lra|].
    destruct (Rlt_dec z 0) as [Hz|Hz].
    + unfold ecef_to_lla_lat__p2. rewrite H35, acos_0. field. lra.
    + unfold ecef_to_lla_lat__p3. rewrite H35, acos_0. field. lra.
  - rewrite ecef_to_lla_lon_is_atan2. unfold atan2.
    destruct (Rlt_dec 0 0) as [H|H]; [lra|]. unfold r2d. ring.
  - unfold ecef_to_lla_alt. destruct (Rgt_dec _ _) as [Hg|Hg]; [rewrite H4 in Hg; lra|].
    rewrite <- Hb. destruct (Rlt_dec z 0); [unfold ecef_to_lla_alt__p2|unfold ecef_to_lla_alt__p3]; exact H36.
Qed.

Lemma ecef_at_poles lon alt :
  (lla_to_ecef_r0 90 lon alt = 0 /\ lla_to_ecef_r1 90 lon alt = 0 /\
   lla_to_ecef_r2 90 lon alt = sqrt (b2 A_ E2_) + alt) /\
  (lla_to_ecef_r0 (-90) lon alt = 0 /\ lla_to_ecef_r1 (-90) lon alt = 0 /\
   lla_to_ecef_r2 (-90) lon alt = - (sqrt (b2 A_ E2_) + alt)).
Proof.
  pose proof PI_RGT_0 as Hpi.
  assert (A1 : 90 * (PI / 180) = PI / 2) by field.
  assert (A2 : -90 * (PI / 180) = - (PI / 2)) by field.
  pose proof semi_minor_axis as Hb.
  split.
  - destruct (ecef_char 90 lon alt) as [X0 [X1 X2]]. cbv zeta in X0, X1, X2. rewrite X0, X1, X2.
    rewrite A1, cos_PI2, sin_PI2, Hb. repeat split; ring.
  - destruct (ecef_char (-90) lon alt) as [X0 [X1 X2]]. cbv zeta in X0, X1, X2. rewrite X0, X1, X2.
    rewrite A2, cos_neg, sin_neg, cos_PI2, sin_PI2.
    replace (- (1) * - (1)) with (1 * 1) by ring. rewrite Hb. repeat split; ring.
Qed.

Lemma pole_round_trip lon alt :
  -6000000 < alt ->
  (let x := lla_to_ecef_r0 90 lon alt in let y := lla_to_ecef_r1 90 lon alt in
   let z := lla_to_ecef_r2 90 lon alt in
   ecef_to_lla_lat x y z = 90 /\ ecef_to_lla_alt x y z = alt) /\
  (let x := lla_to_ecef_r0 (-90) lon alt in let y := lla_to_ecef_r1 (-90) lon alt in
   let z := lla_to_ecef_r2 (-90) lon alt in
   ecef_to_lla_lat x y z = -90 /\ ecef_to_lla_alt x y z = alt).
Proof.
  intro Halt. cbv zeta.
  pose proof semi_minor_axis as Hb.
  assert (Hbpos : 0 < sqrt (b2 A_ E2_) + alt).
  { rewrite <- Hb. pose proof (rf_pos6 (PI / 2) alt Halt) as H. rewrite sin_PI2 in H. exact H. }
  destruct (ecef_at_poles lon alt) as [[Hx [Hy Hz]] [Hx' [Hy' Hz']]].
  split.
  - rewrite Hx, Hy, Hz.
    destruct (ecef_to_lla_polar_axis (sqrt (b2 A_ E2_) + alt)) as [E1 [_ E3]]; [lra|].
    rewrite E1, E3. destruct (Rlt_dec _ 0) as [H|H]; [lra|]. rewrite Rabs_right by lra. split; [reflexivity|ring].
  - rewrite Hx', Hy', Hz'.
    destruct (ecef_to_lla_polar_axis (- (sqrt (b2 A_ E2_) + alt))) as [E1 [_ E3]]; [lra|].
    rewrite E1, E3. destruct (Rlt_dec _ 0) as [H|H]; [|lra]. rewrite Rabs_left by lra. split; [reflexivity|ring].
Qed.

(** The final step of ecef_to_lla, read against Spec/Ellipsoid.v: with the guess latitude phi,
    (u, v) is the residual of the forward map (altitude 0) in the meridian plane, f / m its
    normal / tangential components, and the latitude correction is the Newton step
    p = m / (R_meridian(phi) + f)  (d(forward)/d(phi) = (R_meridian + h) * tangent: C16_ecef_partial_lat);
    the altitude is f + m p / 2. *)
Lemma olson_step_is_newton_sin x y z phi :
  0 <= cos phi -> ecef_to_lla__10 x y z = sin phi ->
  let u := ecef_to_lla__0 x y - R_transverse A_ E2_ phi * cos phi in
  let v := Rabs z - (1 - E2_) * R_transverse A_ E2_ phi * sin phi in
  let f := cos phi * u + sin phi * v in
  let m := cos phi * v - sin phi * u in
  let p := m / (R_meridian A_ E2_ phi + f) in
  ecef_to_lla__18 x y z = f /\ ecef_to_lla__19 x y z = m /\ ecef_to_lla__20 x y z = p /\
  ecef_to_lla__21 x y z = asin (sin phi) + p /\ ecef_to_lla__23 x y z = f + 1 / 2 * m * p.
Proof.
  intros Hc G. cbv zeta. unfold R_meridian, R_transverse, W2, A_, E2_.
  pose proof (W_pos' phi) as HW. pose proof (sqrtW_pos phi) as HQ.
  assert (H11 : ecef_to_lla__11 x y z = sin phi * sin phi) by (unfold ecef_to_lla__11; rewrite G; reflexivity).
  assert (H12 : ecef_to_lla__12 x y z = 1 - 66943799901413 / 10000000000000000 * (sin phi * sin phi))
    by (unfold ecef_to_lla__12; rewrite H11; reflexivity).
  assert (H13 : ecef_to_lla__13 x y z =
                6378137 / sqrt (1 - 66943799901413 / 10000000000000000 * (sin phi * sin phi)))
    by (unfold ecef_to_lla__13; rewrite H12; reflexivity).
  assert (H16 : ecef_to_lla__16 x y z = cos phi)
    by (unfold ecef_to_lla__16; rewrite H11; apply sqrt_1msin2; exact Hc).
  set (g := 1 - 66943799901413 / 10000000000000000 * (sin phi * sin phi)) in *.
  assert (H14 : ecef_to_lla__14 x y z = (1 - 66943799901413 / 10000000000000000) * (6378137 / sqrt g))
    by (unfold ecef_to_lla__14; rewrite H13; lra).
  assert (H15 : ecef_to_lla__15 x y z =
                Rabs z - (1 - 66943799901413 / 10000000000000000) * (6378137 / sqrt g) * sin phi)
    by (unfold ecef_to_lla__15, ecef_to_lla__9; rewrite H14, G; reflexivity).
  assert (H17 : ecef_to_lla__17 x y z = ecef_to_lla__0 x y - 6378137 / sqrt g * cos phi)
    by (unfold ecef_to_lla__17; rewrite H13, H16; reflexivity).
  assert (H18 : ecef_to_lla__18 x y z =
      cos phi * (ecef_to_lla__0 x y - 6378137 / sqrt g * cos phi) +
      sin phi * (Rabs z - (1 - 66943799901413 / 10000000000000000) * (6378137 / sqrt g) * sin phi))
    by (unfold ecef_to_lla__18; rewrite H16, H17, G, H15; reflexivity).
  assert (H19 : ecef_to_lla__19 x y z =
      cos phi * (Rabs z - (1 - 66943799901413 / 10000000000000000) * (6378137 / sqrt g) * sin phi) -
      sin phi * (ecef_to_lla__0 x y - 6378137 / sqrt g * cos phi))
    by (unfold ecef_to_lla__19; rewrite H16, H17, G, H15; reflexivity).
  assert (Hrn : ecef_to_lla__14 x y z / ecef_to_lla__12 x y z =
                6378137 * (1 - 66943799901413 / 10000000000000000) / (g * sqrt g))
    by (rewrite H14, H12; field; split; lra).
  assert (H20 : ecef_to_lla__20 x y z = ecef_to_lla__19 x y z /
      (6378137 * (1 - 66943799901413 / 10000000000000000) / (g * sqrt g) + ecef_to_lla__18 x y z))
    by (unfold ecef_to_lla__20; rewrite Hrn; reflexivity).
  split; [exact H18|]. split; [exact H19|].
  split; [rewrite H20, H19, H18; reflexivity|].
  split.
  - unfold ecef_to_lla__21. rewrite G, H20, H19, H18. unfold Rdiv; ring.
  - unfold ecef_to_lla__23. rewrite H20, H19, H18. unfold Rdiv; ring.
Qed.

Lemma olson_step_is_newton_cos x y z phi :
  0 <= sin phi -> ecef_to_lla__24 x y z = cos phi ->
  let u := ecef_to_lla__0 x y - R_transverse A_ E2_ phi * cos phi in
  let v := Rabs z - (1 - E2_) * R_transverse A_ E2_ phi * sin phi in
  let f := cos phi * u + sin phi * v in
  let m := cos phi * v - sin phi * u in
  let p := m / (R_meridian A_ E2_ phi + f) in
  ecef_to_lla__32 x y z = f /\ ecef_to_lla__33 x y z = m /\ ecef_to_lla__34 x y z = p /\
  ecef_to_lla__35 x y z = acos (cos phi) + p /\ ecef_to_lla__36 x y z = f + 1 / 2 * m * p.
Proof.
  intros Hs G. cbv zeta. unfold R_meridian, R_transverse, W2, A_, E2_.
  pose proof (W_pos' phi) as HW. pose proof (sqrtW_pos phi) as HQ.
  assert (H25 : ecef_to_lla__25 x y z = sin phi * sin phi)
    by (unfold ecef_to_lla__25; rewrite G; pose proof (sc1 phi); lra).
  assert (H26 : ecef_to_lla__26 x y z = sin phi)
    by (unfold ecef_to_lla__26; rewrite H25; apply sqrt_square; exact Hs).
  assert (H27 : ecef_to_lla__27 x y z = 1 - 66943799901413 / 10000000000000000 * (sin phi * sin phi))
    by (unfold ecef_to_lla__27; rewrite H25; reflexivity).
  assert (H28 : ecef_to_lla__28 x y z =
                6378137 / sqrt (1 - 66943799901413 / 10000000000000000 * (sin phi * sin phi)))
    by (unfold ecef_to_lla__28; rewrite H27; reflexivity).
  set (g := 1 - 66943799901413 / 10000000000000000 * (sin phi * sin phi)) in *.
  assert (H29 : ecef_to_lla__29 x y z = (1 - 66943799901413 / 10000000000000000) * (6378137 / sqrt g))
    by (unfold ecef_to_lla__29; rewrite H28; lra).
  assert (H30 : ecef_to_lla__30 x y z =
                Rabs z - (1 - 66943799901413 / 10000000000000000) * (6378137 / sqrt g) * sin phi)
    by (unfold ecef_to_lla__30, ecef_to_lla__9; rewrite H29, H26; reflexivity).
  assert (H31 : ecef_to_lla__31 x y z = ecef_to_lla__0 x y - 6378137 / sqrt g * cos phi)
    by (unfold ecef_to_lla__31; rewrite H28, G; reflexivity).
  assert (H32 : ecef_to_lla__32 x y z =
      cos phi * (ecef_to_lla__0 x y - 6378137 / sqrt g * cos phi) +
      sin phi * (Rabs z - (1 - 66943799901413 / 10000000000000000) * (6378137 / sqrt g) * sin phi))
    by (unfold ecef_to_lla__32; rewrite G, H31, H26, H30; reflexivity).
  assert (H33 : ecef_to_lla__33 x y z =
      cos phi * (Rabs z - (1 - 66943799901413 / 10000000000000000) * (6378137 / sqrt g) * sin phi) -
      sin phi * (ecef_to_lla__0 x y - 6378137 / sqrt g * cos phi))
    by (unfold ecef_to_lla__33; rewrite G, H31, H26, H30; reflexivity).
  assert (Hrn : ecef_to_lla__29 x y z / ecef_to_lla__27 x y z =
                6378137 * (1 - 66943799901413 / 10000000000000000) / (g * sqrt g))
    by (rewrite H29, H27; field; split; lra).
  assert (H34 : ecef_to_lla__34 x y z = ecef_to_lla__33 x y z /
      (6378137 * (1 - 66943799901413 / 10000000000000000) / (g * sqrt g) + ecef_to_lla__32 x y z))
    by (unfold ecef_to_lla__34; rewrite Hrn; reflexivity).
  split; [exact H32|]. split; [exact H33|].
  split; [rewrite H34, H33, H32; reflexivity|].
  split.
  - unfold ecef_to_lla__35. rewrite G, H34, H33, H32. unfold Rdiv; ring.
  - unfold ecef_to_lla__36. rewrite H34, H33, H32. unfold Rdiv; ring.
Qed.

(** concrete instances for the non-vacuity Examples of Props/C16.v *)
Lemma ext_domain_instance : -90 < 45 < 90 /\ -180 < 30 <= 180 /\ -6000000 < 100 /\ - A_ < 100.
Proof. unfold A_. lra. Qed.

Lemma ext_plane_instance : 0 < 3 * 3 + 4 * 4 /\ (7 : R) <> 0.
Proof. lra. Qed.
