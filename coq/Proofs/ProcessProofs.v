(** C08: kalman.compute_process_matrices (generated: Gen/Kalman.v), Van Loan's
    method.  [expm] is a library primitive; its specification is the formal
    power series of Spec/ExpSeries.v. *)
From mathcomp Require Import all_ssreflect all_algebra.
From PV Require Import Spec.LibSpecsMx Spec.Gaussian Spec.ExpSeries Gen.Kalman.
Set Implicit Arguments.
Unset Strict Implicit.
Import GRing.Theory.
Local Open Scope ring_scope.

(* ------------------------------------------------------------------ *)
(** * Characterising lemmas: the only place where the generated
      definitions are unfolded. *)
Section Characterise.
Variable F : fieldType.
Variable n : nat.
Variable expm : 'M[F]_(n + n) -> 'M[F]_(n + n).
Variables (A Q : 'M[F]_n) (dt : F).

Lemma cpm_H0_eq : cpm_H0 A Q = vl_mx A Q.
Proof. by []. Qed.

Lemma cpm_H1_eq : cpm_H1 expm A Q dt = expm (dt *: vl_mx A Q).
Proof. by []. Qed.

Lemma cpm_ret0_eq : cpm_ret0 expm A Q dt = ulsubmx (expm (dt *: vl_mx A Q)).
Proof. by []. Qed.

Lemma cpm_ret1_eq :
  cpm_ret1 expm A Q dt =
  ursubmx (expm (dt *: vl_mx A Q)) *m (ulsubmx (expm (dt *: vl_mx A Q)))^T.
Proof. by []. Qed.

End Characterise.

(* ------------------------------------------------------------------ *)
(** * Powers of square matrices of arbitrary size *)
Section MxPow.
Variable F : fieldType.
Variable n : nat.
Implicit Types A B : 'M[F]_n.

Lemma mx_pow0 A : mx_pow A 0 = 1%:M.
Proof. by []. Qed.

Lemma mx_powS A k : mx_pow A k.+1 = A *m mx_pow A k.
Proof. by []. Qed.

Lemma mx_pow1 A : mx_pow A 1 = A.
Proof. by rewrite mx_powS mx_pow0 mulmx1. Qed.

Lemma mx_powSr A k : mx_pow A k.+1 = mx_pow A k *m A.
Proof.
elim: k => [|k IH]; first by rewrite mx_pow1 mx_pow0 mul1mx.
by rewrite mx_powS {1}IH mulmxA -mx_powS.
Qed.

Lemma mx_powD A i j : mx_pow A (i + j) = mx_pow A i *m mx_pow A j.
Proof.
elim: i => [|i IH]; first by rewrite add0n mx_pow0 mul1mx.
by rewrite addSn !mx_powS IH mulmxA.
Qed.

Lemma mx_pow_tr A k : mx_pow A^T k = (mx_pow A k)^T.
Proof.
elim: k => [|k IH]; first by rewrite !mx_pow0 trmx1.
by rewrite mx_powS mx_powSr trmx_mul IH.
Qed.

Lemma mx_pow_scale (t : F) A k : mx_pow (t *: A) k = t ^+ k *: mx_pow A k.
Proof.
elim: k => [|k IH]; first by rewrite !mx_pow0 expr0 scale1r.
by rewrite !mx_powS IH -scalemxAl -scalemxAr scalerA exprS.
Qed.

Lemma mx_pow_opp A k : mx_pow (- A) k = (-1) ^+ k *: mx_pow A k.
Proof. by rewrite -scaleN1r mx_pow_scale. Qed.

Lemma mx_pow_0mx k : mx_pow (0 : 'M[F]_n) k.+1 = 0.
Proof. by rewrite mx_powS mul0mx. Qed.

Lemma mx_pow_1mx k : mx_pow (1%:M : 'M[F]_n) k = 1%:M.
Proof. by elim: k => // k IH; rewrite mx_powS IH mulmx1. Qed.

End MxPow.

Lemma mx_powE (F : fieldType) (n : nat) (A : 'M[F]_n.+1) k : mx_pow A k = A ^+ k.
Proof. by elim: k => [|k IH]; rewrite ?expr0 // mx_powS exprS IH. Qed.

Lemma exp_uptoE (F : fieldType) (n : nat) (A : 'M[F]_n.+1) N :
  exp_upto N A = \sum_(k < N) (k`!%:R)^-1 *: A ^+ k.
Proof. by apply: eq_bigr => k _; rewrite /exp_coeff mx_powE. Qed.

(* ------------------------------------------------------------------ *)
(** * (1) Powers and truncated exponentials of a block triangular matrix *)
Section BlockTriangular.
Variable F : fieldType.
Variables n1 n2 : nat.
Variables (A : 'M[F]_n1) (B : 'M[F]_(n1, n2)) (D : 'M[F]_n2).

Local Notation M := (block_mx A B 0 D).
Local Notation G := (ur_pow A B D).

Lemma ur_pow0 : G 0 = 0.
Proof. by []. Qed.

Lemma ur_powS k : G k.+1 = A *m G k + B *m mx_pow D k.
Proof. by []. Qed.

Lemma pow_block_gen k :
  mx_pow M k = block_mx (mx_pow A k) (G k) 0 (mx_pow D k).
Proof.
elim: k => [|k IH]; first by rewrite !mx_pow0 -scalar_mx_block.
rewrite mx_powS IH mulmx_block !mx_powS ur_powS.
by rewrite !mulmx0 !mul0mx !addr0 !add0r.
Qed.

Lemma sum_block_mx (I : Type) (r : seq I) (P : pred I)
  (a : I -> 'M[F]_n1) (b : I -> 'M[F]_(n1, n2)) (c : I -> 'M[F]_(n2, n1)) (d : I -> 'M[F]_n2) :
  \sum_(i <- r | P i) block_mx (a i) (b i) (c i) (d i) =
  block_mx (\sum_(i <- r | P i) a i) (\sum_(i <- r | P i) b i)
           (\sum_(i <- r | P i) c i) (\sum_(i <- r | P i) d i).
Proof.
elim: r => [|i r IH]; first by rewrite !big_nil block_mx0.
by rewrite !big_cons; case: (P i); rewrite // IH add_block_mx.
Qed.

(** exp_upto of t*M is block triangular, with the same truncated series of
    t*A and t*D on the diagonal *)
Lemma exp_upto_block N (t : F) :
  exp_upto N (t *: M) =
  block_mx (exp_upto N (t *: A))
           (\sum_(k < N) ((k`!%:R)^-1 * t ^+ k) *: G k)
           0
           (exp_upto N (t *: D)).
Proof.
rewrite /exp_upto /exp_coeff.
under eq_bigr => k _ do
  rewrite mx_pow_scale pow_block_gen scalerA scale_block_mx scaler0.
rewrite sum_block_mx big1_eq.
by congr block_mx; apply: eq_bigr => k _; rewrite mx_pow_scale scalerA.
Qed.

End BlockTriangular.

(* ------------------------------------------------------------------ *)
(** * (1),(2) The generated code with [expm := exp_upto N] *)
Section Series.
Variable F : fieldType.
Variable n : nat.
Variables (A Q : 'M[F]_n).

Local Notation G := (ur_pow A Q (- A^T)).

(** (1) powers of Van Loan's matrix *)
Theorem pow_block k :
  mx_pow (cpm_H0 A Q) k = block_mx (mx_pow A k) (G k) 0 (mx_pow (- A^T) k)
  /\ G 0 = 0 /\ G k.+1 = A *m G k + Q *m mx_pow (- A^T) k.
Proof. by rewrite cpm_H0_eq /vl_mx pow_block_gen. Qed.

(** upper-right block of the truncated series *)
Definition E12_upto (N : nat) (t : F) : 'M[F]_n :=
  \sum_(k < N) ((k`!%:R)^-1 * t ^+ k) *: G k.

Theorem cpm_H1_series N (dt : F) :
  cpm_H1 (@exp_upto F (n + n) N) A Q dt =
  block_mx (exp_upto N (dt *: A)) (E12_upto N dt) 0 (exp_upto N (dt *: - A^T)).
Proof. by rewrite cpm_H1_eq /vl_mx exp_upto_block. Qed.

(** Phi is the same functional calculus applied to A alone *)
Theorem cpm_ret0_series N (dt : F) :
  cpm_ret0 (@exp_upto F (n + n) N) A Q dt = exp_upto N (dt *: A).
Proof. by rewrite cpm_ret0_eq /vl_mx exp_upto_block block_mxKul. Qed.

Theorem cpm_ret1_series N (dt : F) :
  cpm_ret1 (@exp_upto F (n + n) N) A Q dt =
  E12_upto N dt *m (exp_upto N (dt *: A))^T.
Proof. by rewrite cpm_ret1_eq /vl_mx exp_upto_block block_mxKul block_mxKur. Qed.

(** (2) zero step *)
Lemma exp_upto_0 p (B : 'M[F]_p) N : exp_upto N.+1 (0 *: B) = 1%:M.
Proof.
rewrite /exp_upto big_ord_recl /exp_coeff fact0 invr1 scale1r mx_pow0 big1 ?addr0 //.
by move=> i _; rewrite lift0 mx_pow_scale exprS mul0r scale0r scaler0.
Qed.

Lemma E12_upto_0 N : E12_upto N 0 = 0.
Proof.
rewrite /E12_upto big1 // => -[[|k] lt_k] _ /=; first by rewrite scaler0.
by rewrite exprS mul0r mulr0 scale0r.
Qed.

Theorem zero_step N : (0 < N)%N ->
  cpm_ret0 (@exp_upto F (n + n) N) A Q 0 = 1%:M /\
  cpm_ret1 (@exp_upto F (n + n) N) A Q 0 = 0.
Proof.
case: N => // N _; rewrite cpm_ret0_series cpm_ret1_series exp_upto_0.
by rewrite E12_upto_0 mul0mx.
Qed.

End Series.

(* ------------------------------------------------------------------ *)
(** * (5) Composition over sub-steps, for any exponential obeying the laws of
      the exact one (hypotheses explicit: [vl_exp_laws]) *)
Section Composition.
Variable F : fieldType.
Variable n : nat.
Variable E : F -> 'M[F]_(n + n).

Definition vl_Phi (t : F) : 'M[F]_n := ulsubmx (E t).
Definition vl_Qd (t : F) : 'M[F]_n := ursubmx (E t) *m (ulsubmx (E t))^T.

Hypothesis laws : vl_exp_laws E.

Local Notation E11 t := (ulsubmx (E t)).
Local Notation E12 t := (ursubmx (E t)).
Local Notation E22 t := (drsubmx (E t)).

Lemma E_semigroup s t : E (s + t) = E s *m E t.
Proof. by case: laws. Qed.

Lemma E_dl0 t : dlsubmx (E t) = 0.
Proof. by case: laws. Qed.

Lemma E22_E11T t : E22 t *m (E11 t)^T = 1%:M.
Proof. by case: laws. Qed.

Lemma E_block t : E t = block_mx (E11 t) (E12 t) 0 (E22 t).
Proof. by rewrite -[LHS]submxK E_dl0. Qed.

Lemma E_block_add s t :
  E (s + t) = block_mx (E11 s *m E11 t) (E11 s *m E12 t + E12 s *m E22 t)
                       0 (E22 s *m E22 t).
Proof.
rewrite E_semigroup [in LHS](E_block s) [in LHS](E_block t) mulmx_block.
by rewrite !mulmx0 !mul0mx !addr0 !add0r.
Qed.

(** the transitions multiply *)
Lemma vl_Phi_add s t : vl_Phi (s + t) = vl_Phi s *m vl_Phi t.
Proof. by rewrite /vl_Phi E_block_add block_mxKul. Qed.

Lemma E12_add s t : E12 (s + t) = E11 s *m E12 t + E12 s *m E22 t.
Proof. by rewrite E_block_add block_mxKur. Qed.

(** the noise accumulates through the later transition *)
Lemma vl_Qd_add s t :
  vl_Qd (s + t) = vl_Phi s *m vl_Qd t *m (vl_Phi s)^T + vl_Qd s.
Proof.
rewrite /vl_Qd E12_add -/(vl_Phi (s + t)) vl_Phi_add /vl_Phi trmx_mul.
rewrite mulmxDl !mulmxA; congr (_ + _).
by rewrite -(mulmxA (E12 s)) E22_E11T mulmx1.
Qed.

(** one step of s+t = step t followed by step s *)
Lemma propagate_add s t (P : 'M[F]_n) :
  propagate (vl_Phi (s + t)) (vl_Qd (s + t)) P =
  propagate (vl_Phi s) (vl_Qd s) (propagate (vl_Phi t) (vl_Qd t) P).
Proof.
rewrite /propagate vl_Qd_add vl_Phi_add trmx_mul addrA; congr (_ + _).
by rewrite mulmxDr mulmxDl !mulmxA.
Qed.

(** covariance propagation over a list of sub-steps, first element first *)
Definition propagate_steps (P : 'M[F]_n) (ts : seq F) : 'M[F]_n :=
  foldl (fun P t => propagate (vl_Phi t) (vl_Qd t) P) P ts.

(** product of the transitions of the sub-steps, later steps on the left *)
Definition transition_steps (ts : seq F) : 'M[F]_n :=
  foldl (fun M t => vl_Phi t *m M) 1%:M ts.

Lemma propagate_partition (P : 'M[F]_n) (t0 : F) (ts : seq F) :
  propagate_steps P (t0 :: ts) =
  propagate (vl_Phi (\sum_(t <- t0 :: ts) t)) (vl_Qd (\sum_(t <- t0 :: ts) t)) P.
Proof.
rewrite /propagate_steps.
elim: ts t0 P => [|t1 ts IH] t0 P; first by rewrite big_cons big_nil addr0.
by rewrite big_cons addrC propagate_add -IH.
Qed.

Lemma transition_partition (t0 : F) (ts : seq F) :
  transition_steps (t0 :: ts) = vl_Phi (\sum_(t <- t0 :: ts) t).
Proof.
rewrite /transition_steps /= mulmx1.
elim: ts t0 => [|t1 ts IH] t0; first by rewrite big_cons big_nil addr0.
by rewrite /= -vl_Phi_add IH !big_cons addrA [t1 + t0]addrC.
Qed.

(** hence any two partitions of the same total step agree *)
Lemma propagate_partition_indep (P : 'M[F]_n) (t0 u0 : F) (ts us : seq F) :
  \sum_(t <- t0 :: ts) t = \sum_(u <- u0 :: us) u ->
  propagate_steps P (t0 :: ts) = propagate_steps P (u0 :: us).
Proof. by move=> eq_sum; rewrite !propagate_partition eq_sum. Qed.

End Composition.

(* ------------------------------------------------------------------ *)
(** * (5) instantiated to the generated code *)
Section CompositionGen.
Variable F : fieldType.
Variable n : nat.
Variable expm : 'M[F]_(n + n) -> 'M[F]_(n + n).
Variables (A Q : 'M[F]_n).

Local Notation E := (fun t : F => expm (t *: vl_mx A Q)).
Local Notation Phi := (cpm_ret0 expm A Q).
Local Notation Qd := (cpm_ret1 expm A Q).

Lemma cpm_ret0_Phi t : Phi t = vl_Phi E t.
Proof. by rewrite cpm_ret0_eq. Qed.

Lemma cpm_ret1_Qd t : Qd t = vl_Qd E t.
Proof. by rewrite cpm_ret1_eq. Qed.

(** covariance propagation through the generated code over a list of sub-steps *)
Definition cpm_propagate_steps (P : 'M[F]_n) (ts : seq F) : 'M[F]_n :=
  foldl (fun P t => propagate (Phi t) (Qd t) P) P ts.

Lemma cpm_propagate_stepsE P ts :
  cpm_propagate_steps P ts = propagate_steps E P ts.
Proof.
rewrite /cpm_propagate_steps /propagate_steps.
by elim: ts P => //= t ts IH P; rewrite IH cpm_ret0_Phi cpm_ret1_Qd.
Qed.

Hypothesis laws : vl_exp_laws E.

Theorem composition :
  [/\ forall s t, Phi (s + t) = Phi s *m Phi t,
      forall s t, Qd (s + t) = Phi s *m Qd t *m (Phi s)^T + Qd s,
      forall s t P, propagate (Phi (s + t)) (Qd (s + t)) P
                    = propagate (Phi s) (Qd s) (propagate (Phi t) (Qd t) P)
    & forall P t0 ts,
        cpm_propagate_steps P (t0 :: ts)
        = propagate (Phi (\sum_(t <- t0 :: ts) t)) (Qd (\sum_(t <- t0 :: ts) t)) P].
Proof.
split.
- by move=> s t; rewrite !cpm_ret0_Phi (vl_Phi_add laws).
- by move=> s t; rewrite !cpm_ret0_Phi !cpm_ret1_Qd (vl_Qd_add laws).
- by move=> s t P; rewrite !cpm_ret0_Phi !cpm_ret1_Qd (propagate_add laws).
- move=> P t0 ts; rewrite cpm_propagate_stepsE (propagate_partition laws).
  by rewrite cpm_ret0_Phi cpm_ret1_Qd.
Qed.

Corollary partition_independent P t0 ts u0 us :
  \sum_(t <- t0 :: ts) t = \sum_(u <- u0 :: us) u ->
  cpm_propagate_steps P (t0 :: ts) = cpm_propagate_steps P (u0 :: us).
Proof. by case: composition => _ _ _ part eq_sum; rewrite !part eq_sum. Qed.

End CompositionGen.
