(** C08: kalman.compute_process_matrices (generated: Gen/Kalman.v), Van Loan's
    method.  [expm] is a library primitive; its specification is the formal
    power series of Spec/ExpSeries.v. *)
From mathcomp Require Import all_ssreflect all_algebra.
From PV Require Import Spec.LibSpecsMx Spec.Gaussian Spec.ExpSeries Gen.Kalman.
Set Implicit Arguments.
Unset Strict Implicit.
Import GRing.Theory Num.Theory.
Local Open Scope ring_scope.

(* ------------------------------------------------------------------ *)
(** * The shape of the code, written by hand.  Gen/Kalman.v contains ONLY the two returned
      values of `compute_process_matrices` as fully inlined terms; the intermediates are named
      here in terms of the specification (Van Loan's block matrix [vl_mx]). *)
Section CodeShape.
Variable F : fieldType.
Variable n : nat.
Variable expm : 'M[F]_(n + n) -> 'M[F]_(n + n).
Variables (A Q : 'M[F]_n) (dt : F).
Definition cpm_H0 : 'M[F]_(n + n) := vl_mx A Q.
Definition cpm_H1 : 'M[F]_(n + n) := expm (dt *: cpm_H0).
End CodeShape.

(* ------------------------------------------------------------------ *)
(** * Characterising lemmas: the only place where the generated
      definitions are unfolded. *)
Section Characterise.
Variable F : fieldType.
Variable n : nat.
Variable expm : 'M[F]_(n + n) -> 'M[F]_(n + n).
Variables (A Q : 'M[F]_n) (dt : F).

Lemma cpm_H0_eq : cpm_H0 A Q = vl_mx A Q.
Proof. by []. Qed.

Lemma cpm_H1_eq : cpm_H1 expm A Q dt = expm (dt *: vl_mx A Q).
Proof. by []. Qed.

Lemma cpm_ret0_eq : cpm_ret0 expm A Q dt = ulsubmx (expm (dt *: vl_mx A Q)).
Proof. by []. Qed.

Lemma cpm_ret1_eq :
  cpm_ret1 expm A Q dt =
  ursubmx (expm (dt *: vl_mx A Q)) *m (ulsubmx (expm (dt *: vl_mx A Q)))^T.
Proof. by []. Qed.

End Characterise.

(* ------------------------------------------------------------------ *)
(** * Powers of square matrices of arbitrary size *)
Section MxPow.
Variable F : fieldType.
Variable n : nat.
Implicit Types A B : 'M[F]_n.

Lemma mx_pow0 A : mx_pow A 0 = 1%:M.
Proof. by []. Qed.

Lemma mx_powS A k : mx_pow A k.+1 = A *m mx_pow A k.
Proof. by []. Qed.

Lemma mx_pow1 A : mx_pow A 1 = A.
Proof. by rewrite mx_powS mx_pow0 mulmx1. Qed.

Lemma mx_powSr A k : mx_pow A k.+1 = mx_pow A k *m A.
Proof.
elim: k => [|k IH]; first by rewrite mx_pow1 mx_pow0 mul1mx.
by rewrite mx_powS {1}IH mulmxA -mx_powS.
Qed.

Lemma mx_powD A i j : mx_pow A (i + j) = mx_pow A i *m mx_pow A j.
Proof.
elim: i => [|i IH]; first by rewrite add0n mx_pow0 mul1mx.
by rewrite addSn !mx_powS IH mulmxA.
Qed.

Lemma mx_pow_tr A k : mx_pow A^T k = (mx_pow A k)^T.
Proof.
elim: k => [|k IH]; first by rewrite !mx_pow0 trmx1.
by rewrite mx_powS mx_powSr trmx_mul IH.
Qed.

Lemma mx_pow_scale (t : F) A k : mx_pow (t *: A) k = t ^+ k *: mx_pow A k.
Proof.
elim: k => [|k IH]; first by rewrite !mx_pow0 expr0 scale1r.
by rewrite !mx_powS IH -scalemxAl -scalemxAr scalerA exprS.
Qed.

Lemma mx_pow_opp A k : mx_pow (- A) k = (-1) ^+ k *: mx_pow A k.
Proof. by rewrite -scaleN1r mx_pow_scale. Qed.

Lemma mx_pow_0mx k : mx_pow (0 : 'M[F]_n) k.+1 = 0.
Proof. by rewrite mx_powS mul0mx. Qed.

Lemma mx_pow_1mx k : mx_pow (1%:M : 'M[F]_n) k = 1%:M.
Proof. by elim: k => // k IH; rewrite mx_powS IH mulmx1. Qed.

End MxPow.

Lemma mx_powE (F : fieldType) (n : nat) (A : 'M[F]_n.+1) k : mx_pow A k = A ^+ k.
Proof. by elim: k => [|k IH]; rewrite ?expr0 // mx_powS exprS IH. Qed.

Lemma exp_uptoE (F : fieldType) (n : nat) (A : 'M[F]_n.+1) N :
  exp_upto N A = \sum_(k < N) (k`!%:R)^-1 *: A ^+ k.
Proof. by apply: eq_bigr => k _; rewrite /exp_coeff mx_powE. Qed.

(* ------------------------------------------------------------------ *)
(** * (1) Powers and truncated exponentials of a block triangular matrix *)
Section BlockTriangular.
Variable F : fieldType.
Variables n1 n2 : nat.
Variables (A : 'M[F]_n1) (B : 'M[F]_(n1, n2)) (D : 'M[F]_n2).

Local Notation M := (block_mx A B 0 D).
Local Notation G := (ur_pow A B D).

Lemma ur_pow0 : G 0 = 0.
Proof. by []. Qed.

Lemma ur_powS k : G k.+1 = A *m G k + B *m mx_pow D k.
Proof. by []. Qed.

Lemma pow_block_gen k :
  mx_pow M k = block_mx (mx_pow A k) (G k) 0 (mx_pow D k).
Proof.
elim: k => [|k IH]; first by rewrite !mx_pow0 -scalar_mx_block.
rewrite mx_powS IH mulmx_block !mx_powS ur_powS.
by rewrite !mulmx0 !mul0mx !addr0 !add0r.
Qed.

Lemma sum_block_mx (I : Type) (r : seq I) (P : pred I)
  (a : I -> 'M[F]_n1) (b : I -> 'M[F]_(n1, n2)) (c : I -> 'M[F]_(n2, n1)) (d : I -> 'M[F]_n2) :
  \sum_(i <- r | P i) block_mx (a i) (b i) (c i) (d i) =
  block_mx (\sum_(i <- r | P i) a i) (\sum_(i <- r | P i) b i)
           (\sum_(i <- r | P i) c i) (\sum_(i <- r | P i) d i).
Proof.
elim: r => [|i r IH]; first by rewrite !big_nil block_mx0.
by rewrite !big_cons; case: (P i); rewrite // IH add_block_mx.
Qed.

(** exp_upto of t*M is block triangular, with the same truncated series of
    t*A and t*D on the diagonal *)
Lemma exp_upto_block N (t : F) :
  exp_upto N (t *: M) =
  block_mx (exp_upto N (t *: A))
           (\sum_(k < N) ((k`!%:R)^-1 * t ^+ k) *: G k)
           0
           (exp_upto N (t *: D)).
Proof.
rewrite /exp_upto /exp_coeff.
under eq_bigr => k _ do
  rewrite mx_pow_scale pow_block_gen scalerA scale_block_mx scaler0.
rewrite sum_block_mx big1_eq.
by congr block_mx; apply: eq_bigr => k _; rewrite mx_pow_scale scalerA.
Qed.

End BlockTriangular.

(* ------------------------------------------------------------------ *)
(** * (1),(2) The generated code with [expm := exp_upto N] *)
Section Series.
Variable F : fieldType.
Variable n : nat.
Variables (A Q : 'M[F]_n).

Local Notation G := (ur_pow A Q (- A^T)).

(** (1) powers of Van Loan's matrix *)
Theorem pow_block k :
  mx_pow (cpm_H0 A Q) k = block_mx (mx_pow A k) (G k) 0 (mx_pow (- A^T) k)
  /\ G 0 = 0 /\ G k.+1 = A *m G k + Q *m mx_pow (- A^T) k.
Proof. by rewrite cpm_H0_eq /vl_mx pow_block_gen. Qed.

(** upper-right block of the truncated series *)
Definition E12_upto (N : nat) (t : F) : 'M[F]_n :=
  \sum_(k < N) ((k`!%:R)^-1 * t ^+ k) *: G k.

Theorem cpm_H1_series N (dt : F) :
  cpm_H1 (@exp_upto F (n + n) N) A Q dt =
  block_mx (exp_upto N (dt *: A)) (E12_upto N dt) 0 (exp_upto N (dt *: - A^T)).
Proof. by rewrite cpm_H1_eq /vl_mx exp_upto_block. Qed.

(** Phi is the same functional calculus applied to A alone *)
Theorem cpm_ret0_series N (dt : F) :
  cpm_ret0 (@exp_upto F (n + n) N) A Q dt = exp_upto N (dt *: A).
Proof. by rewrite cpm_ret0_eq /vl_mx exp_upto_block block_mxKul. Qed.

Theorem cpm_ret1_series N (dt : F) :
  cpm_ret1 (@exp_upto F (n + n) N) A Q dt =
  E12_upto N dt *m (exp_upto N (dt *: A))^T.
Proof. by rewrite cpm_ret1_eq /vl_mx exp_upto_block block_mxKul block_mxKur. Qed.

(** (2) zero step *)
Lemma exp_upto_0 p (B : 'M[F]_p) N : exp_upto N.+1 (0 *: B) = 1%:M.
Proof.
rewrite /exp_upto big_ord_recl /exp_coeff fact0 invr1 scale1r mx_pow0 big1 ?addr0 //.
by move=> i _; rewrite lift0 mx_pow_scale exprS mul0r scale0r scaler0.
Qed.

Lemma E12_upto_0 N : E12_upto N 0 = 0.
Proof.
rewrite /E12_upto big1 // => -[[|k] lt_k] _ /=; first by rewrite scaler0.
by rewrite exprS mul0r mulr0 scale0r.
Qed.

Theorem zero_step N : (0 < N)%N ->
  cpm_ret0 (@exp_upto F (n + n) N) A Q 0 = 1%:M /\
  cpm_ret1 (@exp_upto F (n + n) N) A Q 0 = 0.
Proof.
case: N => // N _; rewrite cpm_ret0_series cpm_ret1_series exp_upto_0.
by rewrite E12_upto_0 mul0mx.
Qed.

End Series.

(* ------------------------------------------------------------------ *)
(** * (5) Composition over sub-steps, for any exponential obeying the laws of
      the exact one (hypotheses explicit: [vl_exp_laws]) *)
Section Composition.
Variable F : fieldType.
Variable n : nat.
Variable E : F -> 'M[F]_(n + n).

Definition vl_Phi (t : F) : 'M[F]_n := ulsubmx (E t).
Definition vl_Qd (t : F) : 'M[F]_n := ursubmx (E t) *m (ulsubmx (E t))^T.

Hypothesis laws : vl_exp_laws E.

Local Notation E11 t := (ulsubmx (E t)).
Local Notation E12 t := (ursubmx (E t)).
Local Notation E22 t := (drsubmx (E t)).

Lemma E_semigroup s t : E (s + t) = E s *m E t.
Proof. by case: laws. Qed.

Lemma E_dl0 t : dlsubmx (E t) = 0.
Proof. by case: laws. Qed.

Lemma E22_E11T t : E22 t *m (E11 t)^T = 1%:M.
Proof. by case: laws. Qed.

Lemma E_block t : E t = block_mx (E11 t) (E12 t) 0 (E22 t).
Proof. by rewrite -[LHS]submxK E_dl0. Qed.

Lemma E_block_add s t :
  E (s + t) = block_mx (E11 s *m E11 t) (E11 s *m E12 t + E12 s *m E22 t)
                       0 (E22 s *m E22 t).
Proof.
rewrite E_semigroup [in LHS](E_block s) [in LHS](E_block t) mulmx_block.
by rewrite !mulmx0 !mul0mx !addr0 !add0r.
Qed.

(** the transitions multiply *)
Lemma vl_Phi_add s t : vl_Phi (s + t) = vl_Phi s *m vl_Phi t.
Proof. by rewrite /vl_Phi E_block_add block_mxKul. Qed.

Lemma E12_add s t : E12 (s + t) = E11 s *m E12 t + E12 s *m E22 t.
Proof. by rewrite E_block_add block_mxKur. Qed.

(** the noise accumulates through the later transition *)
Lemma vl_Qd_add s t :
  vl_Qd (s + t) = vl_Phi s *m vl_Qd t *m (vl_Phi s)^T + vl_Qd s.
Proof.
rewrite /vl_Qd E12_add -/(vl_Phi (s + t)) vl_Phi_add /vl_Phi trmx_mul.
rewrite mulmxDl !mulmxA; congr (_ + _).
by rewrite -(mulmxA (E12 s)) E22_E11T mulmx1.
Qed.

(** one step of s+t = step t followed by step s *)
Lemma propagate_add s t (P : 'M[F]_n) :
  propagate (vl_Phi (s + t)) (vl_Qd (s + t)) P =
  propagate (vl_Phi s) (vl_Qd s) (propagate (vl_Phi t) (vl_Qd t) P).
Proof.
rewrite /propagate vl_Qd_add vl_Phi_add trmx_mul addrA; congr (_ + _).
by rewrite mulmxDr mulmxDl !mulmxA.
Qed.

(** covariance propagation over a list of sub-steps, first element first *)
Definition propagate_steps (P : 'M[F]_n) (ts : seq F) : 'M[F]_n :=
  foldl (fun P t => propagate (vl_Phi t) (vl_Qd t) P) P ts.

(** product of the transitions of the sub-steps, later steps on the left *)
Definition transition_steps (ts : seq F) : 'M[F]_n :=
  foldl (fun M t => vl_Phi t *m M) 1%:M ts.

Lemma propagate_partition (P : 'M[F]_n) (t0 : F) (ts : seq F) :
  propagate_steps P (t0 :: ts) =
  propagate (vl_Phi (\sum_(t <- t0 :: ts) t)) (vl_Qd (\sum_(t <- t0 :: ts) t)) P.
Proof.
rewrite /propagate_steps.
elim: ts t0 P => [|t1 ts IH] t0 P; first by rewrite big_cons big_nil addr0.
by rewrite big_cons addrC propagate_add -IH.
Qed.

Lemma transition_partition (t0 : F) (ts : seq F) :
  transition_steps (t0 :: ts) = vl_Phi (\sum_(t <- t0 :: ts) t).
Proof.
rewrite /transition_steps /= mulmx1.
elim: ts t0 => [|t1 ts IH] t0; first by rewrite big_cons big_nil addr0.
by rewrite /= -vl_Phi_add IH !big_cons addrA [t1 + t0]addrC.
Qed.

(** hence any two partitions of the same total step agree *)
Lemma propagate_partition_indep (P : 'M[F]_n) (t0 u0 : F) (ts us : seq F) :
  \sum_(t <- t0 :: ts) t = \sum_(u <- u0 :: us) u ->
  propagate_steps P (t0 :: ts) = propagate_steps P (u0 :: us).
Proof. by move=> eq_sum; rewrite !propagate_partition eq_sum. Qed.

End Composition.

(* ------------------------------------------------------------------ *)
(** * (5) instantiated to the generated code *)
Section CompositionGen.
Variable F : fieldType.
Variable n : nat.
Variable expm : 'M[F]_(n + n) -> 'M[F]_(n + n).
Variables (A Q : 'M[F]_n).

Local Notation E := (fun t : F => expm (t *: vl_mx A Q)).
Local Notation Phi := (cpm_ret0 expm A Q).
Local Notation Qd := (cpm_ret1 expm A Q).

Lemma cpm_ret0_Phi t : Phi t = vl_Phi E t.
Proof. by rewrite cpm_ret0_eq. Qed.

Lemma cpm_ret1_Qd t : Qd t = vl_Qd E t.
Proof. by rewrite cpm_ret1_eq. Qed.

(** covariance propagation through the generated code over a list of sub-steps *)
Definition cpm_propagate_steps (P : 'M[F]_n) (ts : seq F) : 'M[F]_n :=
  foldl (fun P t => propagate (Phi t) (Qd t) P) P ts.

Lemma cpm_propagate_stepsE P ts :
  cpm_propagate_steps P ts = propagate_steps E P ts.
Proof.
rewrite /cpm_propagate_steps /propagate_steps.
by elim: ts P => //= t ts IH P; rewrite IH cpm_ret0_Phi cpm_ret1_Qd.
Qed.

Hypothesis laws : vl_exp_laws E.

Theorem composition :
  [/\ forall s t, Phi (s + t) = Phi s *m Phi t,
      forall s t, Qd (s + t) = Phi s *m Qd t *m (Phi s)^T + Qd s,
      forall s t P, propagate (Phi (s + t)) (Qd (s + t)) P
                    = propagate (Phi s) (Qd s) (propagate (Phi t) (Qd t) P)
    & forall P t0 ts,
        cpm_propagate_steps P (t0 :: ts)
        = propagate (Phi (\sum_(t <- t0 :: ts) t)) (Qd (\sum_(t <- t0 :: ts) t)) P].
Proof.
split.
- by move=> s t; rewrite !cpm_ret0_Phi (vl_Phi_add laws).
- by move=> s t; rewrite !cpm_ret0_Phi !cpm_ret1_Qd (vl_Qd_add laws).
- by move=> s t P; rewrite !cpm_ret0_Phi !cpm_ret1_Qd (propagate_add laws).
- move=> P t0 ts; rewrite cpm_propagate_stepsE (propagate_partition laws).
  by rewrite cpm_ret0_Phi cpm_ret1_Qd.
Qed.

Corollary partition_independent P t0 ts u0 us :
  \sum_(t <- t0 :: ts) t = \sum_(u <- u0 :: us) u ->
  cpm_propagate_steps P (t0 :: ts) = cpm_propagate_steps P (u0 :: us).
Proof. by case: composition => _ _ _ part eq_sum; rewrite !part eq_sum. Qed.

End CompositionGen.

(* ------------------------------------------------------------------ *)
(** * Calculus of formal power series with matrix coefficients:
      Cauchy product, formal derivative, Leibniz rule, uniqueness of the
      solution of a first-order recurrence.  Characteristic 0 is needed
      ([numFieldType]): k! must be invertible. *)
Section CauchyAlgebra.
Variable F : fieldType.
Variable n : nat.
Implicit Types (a b u v : nat -> 'M[F]_n) (C : 'M[F]_n).

Lemma eq_cauchy a a' b b' : a =1 a' -> b =1 b' -> cauchy a b =1 cauchy a' b'.
Proof. by move=> ea eb d; apply: eq_bigr => i _; rewrite ea eb. Qed.

Lemma cauchy0 a b : cauchy a b 0 = a 0%N *m b 0%N.
Proof. by rewrite /cauchy big_ord_recl big_ord0 addr0 subnn. Qed.

Lemma cauchy_mulmxl C a b d : cauchy (fun k => C *m a k) b d = C *m cauchy a b d.
Proof. by rewrite /cauchy mulmx_sumr; apply: eq_bigr => i _; rewrite mulmxA. Qed.

Lemma cauchy_mulmxr a b C d : cauchy a (fun k => b k *m C) d = cauchy a b d *m C.
Proof. by rewrite /cauchy mulmx_suml; apply: eq_bigr => i _; rewrite mulmxA. Qed.

Lemma cauchy_mid a C b d :
  cauchy (fun k => a k *m C) b d = cauchy a (fun k => C *m b k) d.
Proof. by apply: eq_bigr => i _; rewrite mulmxA. Qed.

Lemma cauchy_addl a a' b d :
  cauchy (fun k => a k + a' k) b d = cauchy a b d + cauchy a' b d.
Proof. by rewrite /cauchy -big_split; apply: eq_bigr => i _; rewrite mulmxDl. Qed.

Lemma cauchy_oppl a b d : cauchy (fun k => - a k) b d = - cauchy a b d.
Proof. by rewrite /cauchy -sumrN; apply: eq_bigr => i _; rewrite mulNmx. Qed.

End CauchyAlgebra.

(* ------------------------------------------------------------------ *)
Section FormalSeries.
Variable F : numFieldType.
Variable n : nat.
Implicit Types (a b u v : nat -> 'M[F]_n) (A B C : 'M[F]_n).

(** formal sderivative of a coefficient sequence *)
Definition sderiv a (k : nat) : 'M[F]_n := k.+1%:R *: a k.+1.

Lemma eq_sderiv a a' : a =1 a' -> sderiv a =1 sderiv a'.
Proof. by move=> e k; rewrite /sderiv e. Qed.

(** Leibniz rule for the product of formal series *)
Lemma cauchy_sderiv a b d :
  sderiv (cauchy a b) d = cauchy (sderiv a) b d + cauchy a (sderiv b) d.
Proof.
rewrite /sderiv /cauchy scaler_sumr.
have split_i (i : 'I_d.+2) :
    d.+1%:R *: (a i *m b (d.+1 - i)%N) =
    i%:R *: (a i *m b (d.+1 - i)%N) + (d.+1 - i)%:R *: (a i *m b (d.+1 - i)%N).
  by rewrite -scalerDl -natrD subnKC // -ltnS.
rewrite (eq_bigr _ (fun i _ => split_i i)) big_split /=; congr (_ + _).
- rewrite big_ord_recl /= scale0r add0r; apply: eq_bigr => i _.
  by rewrite /bump /= add1n subSS -scalemxAl.
- rewrite big_ord_recr /= subnn scale0r addr0; apply: eq_bigr => i _.
  by rewrite -scalemxAr subSn // -ltnS.
Qed.

(** a series is determined by a first-order recurrence and its constant term *)
Lemma series_ode_unique (Phi : nat -> 'M[F]_n -> 'M[F]_n) u v :
  (forall k, sderiv u k = Phi k (u k)) -> (forall k, sderiv v k = Phi k (v k)) ->
  u 0%N = v 0%N -> forall k, u k = v k.
Proof.
move=> hu hv h0; elim=> [//|k IH].
have nz : k.+1%:R != 0 :> F by rewrite pnatr_eq0.
by apply: (scalerI nz); rewrite -/(sderiv u k) -/(sderiv v k) hu hv IH.
Qed.

Lemma fact_ratio k : k.+1%:R * (k.+1`!%:R)^-1 = (k`!%:R)^-1 :> F.
Proof.
have nz : k.+1%:R != 0 :> F by rewrite pnatr_eq0.
by rewrite factS natrM invfM mulrA mulfV // mul1r.
Qed.

Lemma sderiv_exp_coeff A k : sderiv (exp_coeff A) k = A *m exp_coeff A k.
Proof. by rewrite /sderiv /exp_coeff scalerA fact_ratio mx_powS -scalemxAr. Qed.

Lemma sderiv_exp_coeff_r A k : sderiv (exp_coeff A) k = exp_coeff A k *m A.
Proof. by rewrite /sderiv /exp_coeff scalerA fact_ratio mx_powSr -scalemxAl. Qed.

Definition delta (k : nat) : 'M[F]_n := if k is 0 then 1%:M else 0.

Lemma sderiv_delta k : sderiv delta k = 0.
Proof. by rewrite /sderiv /= scaler0. Qed.

(** exp(-B s) exp(B s) = 1 as formal series *)
Lemma exp_coeff_inv B d : cauchy (exp_coeff (- B)) (exp_coeff B) d = delta d.
Proof.
apply: (@series_ode_unique (fun _ _ => 0)) d => [k|k|].
- rewrite cauchy_sderiv (eq_cauchy (b:=exp_coeff B) (sderiv_exp_coeff_r (- B)) (fun=> erefl)).
  rewrite (eq_cauchy (a:=exp_coeff (- B)) (fun=> erefl) (sderiv_exp_coeff B)).
  rewrite (eq_cauchy (a':=fun k => - (exp_coeff (- B) k *m B)) (b':=exp_coeff B) _ (fun=> erefl)); last first.
    by move=> j; rewrite mulmxN.
  by rewrite cauchy_oppl cauchy_mid addNr.
- exact: sderiv_delta.
- by rewrite cauchy0 /exp_coeff fact0 invr1 !scale1r !mx_pow0 mulmx1.
Qed.

End FormalSeries.

(* ------------------------------------------------------------------ *)
(** * (2),(3) Van Loan's identity: the coefficients of E12(s) E11(s)^T are those
      of the term-by-term integral of exp(A u) Q exp(A^T u).  Both sequences
      solve the Lyapunov recurrence  X' = A X + X A^T + Q,  X(0) = 0. *)
Section VanLoanCoeff.
Variable F : numFieldType.
Variable n : nat.
Variables (A Q : 'M[F]_n).

Local Notation a := (vl_E12 A Q).
Local Notation bT := (fun k => (vl_E11 A k)^T).
Local Notation qd := (vl_Qd_coeff A Q).
Local Notation w := (integral_coeff A Q).

(** right-hand side of the Lyapunov recurrence  X' = A X + X A^T + Q *)
Definition lyap_rhs (k : nat) (X : 'M[F]_n) : 'M[F]_n :=
  A *m X + X *m A^T + (if k is 0 then Q else 0).

Lemma vl_E11_tr k : (vl_E11 A k)^T = exp_coeff A^T k.
Proof. by rewrite /vl_E11 /exp_coeff linearZ /= mx_pow_tr. Qed.

Lemma sderiv_vl_E12 k : sderiv a k = A *m a k + Q *m vl_E22 A k.
Proof.
rewrite /sderiv /vl_E12 /vl_E22 /exp_coeff scalerA fact_ratio ur_powS scalerDr.
by rewrite -!scalemxAr.
Qed.

Lemma mulmx_delta k : Q *m delta F n k = if k is 0 then Q else 0.
Proof. by case: k => [|k] /=; rewrite ?mulmx1 ?mulmx0. Qed.

Lemma vl_Qd_ode k : sderiv qd k = lyap_rhs k (qd k).
Proof.
rewrite /vl_Qd_coeff cauchy_sderiv /lyap_rhs.
rewrite (eq_cauchy (b:=bT) sderiv_vl_E12 vl_E11_tr).
rewrite cauchy_addl !cauchy_mulmxl.
rewrite [cauchy (vl_E22 A) _ k]exp_coeff_inv mulmx_delta.
have -> : cauchy a (sderiv bT) k = cauchy a bT k *m A^T.
  rewrite -cauchy_mulmxr; apply: eq_cauchy => // j.
  by rewrite (eq_sderiv vl_E11_tr) sderiv_exp_coeff_r vl_E11_tr.
rewrite (eq_cauchy (a:=a) (fun=> erefl) vl_E11_tr).
by rewrite addrAC.
Qed.
End VanLoanCoeff.

Section VanLoanIntegral.
Variable F : numFieldType.
Variable n : nat.
Variables (A Q : 'M[F]_n).

Local Notation qd := (vl_Qd_coeff A Q).
Local Notation w := (integral_coeff A Q).
Local Notation W := (integrand_coeff A Q).

(** the integrand exp(A s) Q exp(A^T s) is a product of formal series *)
Lemma integrand_cauchy d :
  W d = cauchy (exp_coeff A) (fun k => Q *m exp_coeff A^T k) d.
Proof.
apply: eq_bigr => i _.
by rewrite /exp_coeff -scalemxAr -scalemxAl -scalemxAr scalerA mulmxA natrM invfM.
Qed.

Lemma sderiv_integrand d : sderiv W d = A *m W d + W d *m A^T.
Proof.
rewrite (eq_sderiv integrand_cauchy) cauchy_sderiv !integrand_cauchy.
rewrite (eq_cauchy (sderiv_exp_coeff A) (fun=> erefl)) cauchy_mulmxl; congr (_ + _).
rewrite -cauchy_mulmxr; apply: eq_cauchy => // k.
by rewrite /sderiv scalemxAr -/(sderiv _ k) sderiv_exp_coeff_r mulmxA.
Qed.

Lemma sderiv_integral k : sderiv w k = W k.
Proof.
have nz : k.+1%:R != 0 :> F by rewrite pnatr_eq0.
by rewrite /sderiv /= scalerA mulfV // scale1r.
Qed.

Lemma integral_ode k : sderiv w k = lyap_rhs A Q k (w k).
Proof.
rewrite sderiv_integral /lyap_rhs; case: k => [|k].
  rewrite /= mulmx0 mul0mx !add0r integrand_cauchy cauchy0.
  by rewrite /exp_coeff fact0 invr1 !scale1r !mx_pow0 mulmx1 mul1mx.
have nz : k.+1%:R != 0 :> F by rewrite pnatr_eq0.
rewrite addr0 /= -scalemxAr -scalemxAl -scalerDr -sderiv_integrand.
by rewrite /sderiv scalerA mulVf // scale1r.
Qed.

(** (2) Van Loan's identity, coefficient by coefficient *)
Theorem van_loan_coeff d : qd d = w d.
Proof.
apply: (series_ode_unique (Phi:=lyap_rhs A Q)) d.
- exact: vl_Qd_ode.
- exact: integral_ode.
- by rewrite /vl_Qd_coeff cauchy0 /vl_E12 ur_pow0 scaler0 mul0mx.
Qed.

(** (3) symmetry *)
Theorem integral_coeff_sym d : Q^T = Q -> (w d)^T = w d.
Proof.
move=> sQ; apply: (series_ode_unique (Phi:=lyap_rhs A Q) (u:=fun k => (w k)^T)) d.
- move=> k; rewrite /sderiv -linearZ /= -/(sderiv w k) integral_ode /lyap_rhs.
  rewrite !linearD /= !trmx_mul trmxK [X in X + _]addrC; congr (_ + _).
  by case: k => [|k]; rewrite ?sQ ?trmx0.
- exact: integral_ode.
- by rewrite /= trmx0.
Qed.

Corollary vl_Qd_coeff_sym d : Q^T = Q -> (qd d)^T = qd d.
Proof. by move=> sQ; rewrite van_loan_coeff integral_coeff_sym. Qed.

End VanLoanIntegral.

(* ------------------------------------------------------------------ *)
(** * (4) The semigroup law and the other laws of the exponential, for the
      formal series *)
Section Semigroup.
Variable F : numFieldType.
Variable n : nat.
Variable A : 'M[F]_n.

Lemma exp_coeff_comm (c : F) k : A *m exp_coeff (c *: A) k = exp_coeff (c *: A) k *m A.
Proof.
by rewrite /exp_coeff mx_pow_scale -!scalemxAr -!scalemxAl -mx_powS mx_powSr.
Qed.

(** exp((s+t)A) = exp(sA) exp(tA) as formal series *)
Theorem exp_coeff_add (s t : F) d :
  exp_coeff ((s + t) *: A) d = cauchy (exp_coeff (s *: A)) (exp_coeff (t *: A)) d.
Proof.
apply: (series_ode_unique (Phi := fun _ X => (s *: A) *m X + X *m (t *: A))) d.
- move=> k; rewrite sderiv_exp_coeff [X in X *m _]scalerDl mulmxDl; congr (_ + _).
  by rewrite -scalemxAl exp_coeff_comm scalemxAr.
- move=> k; rewrite cauchy_sderiv (eq_cauchy (sderiv_exp_coeff _) (fun=> erefl)) cauchy_mulmxl.
  by rewrite (eq_cauchy (fun=> erefl) (sderiv_exp_coeff_r _)) cauchy_mulmxr.
- by rewrite cauchy0 /exp_coeff fact0 invr1 !scale1r !mx_pow0 mulmx1.
Qed.

End Semigroup.

(** the three laws of [vl_exp_laws], coefficient by coefficient, for the formal
    series  E(t) = sum_k t^k exp_coeff (vl_mx A Q) k *)
Section FormalLaws.
Variable F : numFieldType.
Variable n : nat.
Variables (A Q : 'M[F]_n).

Lemma exp_coeff_block (t : F) k :
  exp_coeff (t *: vl_mx A Q) k =
  block_mx (t ^+ k *: vl_E11 A k) (t ^+ k *: vl_E12 A Q k) 0 (t ^+ k *: vl_E22 A k).
Proof.
rewrite /exp_coeff /vl_E11 /vl_E12 /vl_E22 /exp_coeff mx_pow_scale /vl_mx pow_block_gen.
by rewrite !scalerA !scale_block_mx !scaler0 ![t ^+ k * _]mulrC.
Qed.

Theorem formal_exp_laws :
  [/\ forall (s t : F) d,
        exp_coeff ((s + t) *: vl_mx A Q) d =
        cauchy (exp_coeff (s *: vl_mx A Q)) (exp_coeff (t *: vl_mx A Q)) d,
      forall (t : F) k, dlsubmx (exp_coeff (t *: vl_mx A Q) k) = 0
    & forall d, cauchy (vl_E22 A) (fun k => (vl_E11 A k)^T) d = delta F n d].
Proof.
split; first exact: exp_coeff_add.
- by move=> t k; rewrite exp_coeff_block block_mxKdl.
- by move=> d; rewrite (eq_cauchy (fun=> erefl) (vl_E11_tr A)) exp_coeff_inv.
Qed.

End FormalLaws.

(* ------------------------------------------------------------------ *)
(** * An exact instance: zero dynamics (random-walk states), where the series
      terminates: expm := exp_upto 2 is the exact exponential. *)
Section ZeroDynamics.
Variable F : fieldType.
Variable n : nat.
Variable Q : 'M[F]_n.

Lemma exp_upto2_vl0 (t : F) :
  exp_upto 2 (t *: vl_mx 0 Q) = block_mx 1%:M (t *: Q) 0 1%:M.
Proof.
rewrite /vl_mx exp_upto_block /exp_upto !big_ord_recl !big_ord0 /= !addr0.
rewrite /exp_coeff fact0 /= !mx_pow0 !mx_pow1 trmx0 oppr0 !scaler0 !addr0.
rewrite /bump leqnn /= add0r !invr1 !scale1r ur_powS ur_pow0 mulmx0 add0r mx_pow0 mulmx1.
by rewrite mul1r addn0 expr1.
Qed.

Theorem zero_dynamics_laws : vl_exp_laws (fun t : F => exp_upto 2 (t *: vl_mx 0 Q)).
Proof.
split=> [s t|t|t]; rewrite !exp_upto2_vl0.
- rewrite mulmx_block !mulmx1 !mul1mx !mulmx0 !mul0mx !addr0 add0r.
  by rewrite scalerDl addrC.
- by rewrite block_mxKdl.
- by rewrite block_mxKdr block_mxKul trmx1 mulmx1.
Qed.

Theorem zero_dynamics (dt : F) :
  cpm_ret0 (@exp_upto F (n + n) 2) 0 Q dt = 1%:M /\
  cpm_ret1 (@exp_upto F (n + n) 2) 0 Q dt = dt *: Q.
Proof.
by rewrite cpm_ret0_eq cpm_ret1_eq exp_upto2_vl0 block_mxKul block_mxKur trmx1 mulmx1.
Qed.

End ZeroDynamics.

(* ------------------------------------------------------------------ *)
(** * Tie between the truncated series the generated code computes with
      [expm := exp_upto N] and the coefficient sequences above *)
Section TruncatedProduct.
Variable F : fieldType.
Variable n : nat.
Implicit Types (a b : nat -> 'M[F]_n) (h : nat -> 'M[F]_n).

Lemma shift_sum N i h :
  \sum_(d < N | (i <= d)%N) h (d - i)%N = \sum_(l < N | (i + l < N)%N) h l.
Proof.
transitivity (\sum_(0 <= l < N - i) h l).
  rewrite (eq_bigl (fun d : 'I_N => xpredT d && (i <= d)%N)) //.
  rewrite -(big_geq_mkord i N xpredT (fun d => h (d - i)%N)).
  rewrite -{1}[i]add0n big_addn; apply: eq_bigr => l _.
  by rewrite addnK.
rewrite big_mkord (big_ord_widen _ h (leq_subr i N)).
by apply: eq_bigl => l; rewrite ltn_subRL.
Qed.

(** product of two truncated series = truncated Cauchy product + terms of degree >= N *)
Lemma trunc_prod N a b (t : F) :
  (\sum_(k < N) t ^+ k *: a k) *m (\sum_(l < N) t ^+ l *: b l) =
  \sum_(d < N) t ^+ d *: cauchy a b d +
  \sum_(k < N) \sum_(l < N | (N <= k + l)%N) t ^+ (k + l) *: (a k *m b l).
Proof.
pose g (k l : nat) := t ^+ (k + l) *: (a k *m b l).
have -> : (\sum_(k < N) t ^+ k *: a k) *m (\sum_(l < N) t ^+ l *: b l) =
          \sum_(k < N) \sum_(l < N) g k l.
  rewrite mulmx_suml; apply: eq_bigr => k _; rewrite mulmx_sumr; apply: eq_bigr => l _.
  by rewrite /g -scalemxAl -scalemxAr scalerA exprD.
have -> : \sum_(d < N) t ^+ d *: cauchy a b d = \sum_(k < N) \sum_(l < N | (k + l < N)%N) g k l.
  transitivity (\sum_(d < N) \sum_(i < N | (i < d.+1)%N) g i (d - i)%N).
    apply: eq_bigr => d _; rewrite /cauchy scaler_sumr.
    rewrite (big_ord_widen N (fun i => t ^+ d *: (a i *m b (d - i)%N))) //.
    by apply: eq_bigr => i le_id; rewrite /g subnKC.
  rewrite (exchange_big_dep xpredT) //=; apply: eq_bigr => k _.
  by rewrite -shift_sum.
rewrite -big_split /=; apply: eq_bigr => k _.
rewrite (bigID (fun l : 'I_N => (k + l < N)%N)) /=; congr (_ + _).
by apply: eq_bigl => l; rewrite -leqNgt.
Qed.

End TruncatedProduct.

(** the generated code with the N-term series: every coefficient of dt^d, d < N,
    of the returned noise matrix is the coefficient of the integral *)
Section GeneratedCoefficients.
Variable F : numFieldType.
Variable n : nat.
Variables (A Q : 'M[F]_n).

Lemma exp_upto_scale N (t : F) (B : 'M[F]_n) :
  exp_upto N (t *: B) = \sum_(k < N) t ^+ k *: exp_coeff B k.
Proof.
by apply: eq_bigr => k _; rewrite /exp_coeff mx_pow_scale !scalerA mulrC.
Qed.

Lemma E12_upto_scale N (t : F) :
  E12_upto A Q N t = \sum_(k < N) t ^+ k *: vl_E12 A Q k.
Proof. by apply: eq_bigr => k _; rewrite /vl_E12 scalerA mulrC. Qed.

Theorem cpm_ret0_coeff N (dt : F) :
  cpm_ret0 (@exp_upto F (n + n) N) A Q dt = \sum_(k < N) dt ^+ k *: exp_coeff A k.
Proof. by rewrite cpm_ret0_series exp_upto_scale. Qed.

Theorem cpm_ret1_coeff N (dt : F) :
  cpm_ret1 (@exp_upto F (n + n) N) A Q dt =
  \sum_(d < N) dt ^+ d *: integral_coeff A Q d +
  \sum_(k < N) \sum_(l < N | (N <= k + l)%N)
     dt ^+ (k + l) *: (vl_E12 A Q k *m (vl_E11 A l)^T).
Proof.
rewrite cpm_ret1_series E12_upto_scale exp_upto_scale.
have -> : (\sum_(k < N) dt ^+ k *: exp_coeff A k)^T =
          \sum_(l < N) dt ^+ l *: (vl_E11 A l)^T.
  by rewrite raddf_sum; apply: eq_bigr => l _; rewrite /= linearZ.
rewrite (trunc_prod N (vl_E12 A Q) (fun l => (vl_E11 A l)^T)); congr (_ + _).
by apply: eq_bigr => d _; rewrite -van_loan_coeff.
Qed.

End GeneratedCoefficients.

(* ------------------------------------------------------------------ *)
(** * Positive semidefiniteness of the noise matrix: only for the exact
      zero-dynamics instance (the general statement needs the analytic integral) *)
Section QdPsdPartial.
Variable F : realFieldType.
Variable n : nat.

Lemma psd_scale (Q : 'M[F]_n) (t : F) : 0 <= t -> psd Q -> psd (t *: Q).
Proof.
move=> t0 pQ x; rewrite -scalemxAr -scalemxAl mxE.
by rewrite mulr_ge0.
Qed.

Lemma zero_dynamics_psd (Q : 'M[F]_n) (dt : F) : 0 <= dt -> psd Q ->
  psd (cpm_ret1 (@exp_upto F (n + n) 2) 0 Q dt).
Proof. by move=> t0 pQ; have [_ ->] := zero_dynamics Q dt; apply: psd_scale. Qed.

End QdPsdPartial.

(* ------------------------------------------------------------------ *)
(** * The transition matrix is invertible, with explicit inverse; steps toward
      positive semidefiniteness of the noise matrix *)
Section TransitionInvertible.
Variable F : fieldType.
Variable n : nat.
Variable E : F -> 'M[F]_(n + n).
Hypothesis laws : vl_exp_laws E.

Local Notation E11 t := (ulsubmx (E t)).
Local Notation E22 t := (drsubmx (E t)).

Lemma E11_E22T t : E11 t *m (E22 t)^T = 1%:M.
Proof. by rewrite -[LHS]trmxK trmx_mul trmxK (E22_E11T laws) trmx1. Qed.

Lemma vl_Phi_unit t : vl_Phi E t \in unitmx.
Proof. by have [] := mulmx1_unit (E11_E22T t). Qed.

Lemma vl_Phi_inv t : invmx (vl_Phi E t) = (E22 t)^T.
Proof.
by rewrite -[RHS]mul1mx -(mulVmx (vl_Phi_unit t)) -mulmxA /vl_Phi E11_E22T mulmx1.
Qed.

(** hence Phi(0) = 1 and Phi(-t) = Phi(t)^-1 *)
Lemma vl_Phi_0 : vl_Phi E 0 = 1%:M.
Proof.
have := vl_Phi_add laws 0 0; rewrite addr0 => e.
by rewrite -[LHS]mul1mx -(mulVmx (vl_Phi_unit 0)) -mulmxA -e mulVmx ?vl_Phi_unit.
Qed.

Lemma vl_Phi_opp t : vl_Phi E (- t) = invmx (vl_Phi E t).
Proof.
have e : vl_Phi E t *m vl_Phi E (- t) = 1%:M by rewrite -(vl_Phi_add laws) subrr vl_Phi_0.
by rewrite -[LHS]mul1mx -(mulVmx (vl_Phi_unit t)) -mulmxA e mulmx1.
Qed.

End TransitionInvertible.

Section TransitionInvertibleGen.
Variable F : fieldType.
Variable n : nat.
Variable expm : 'M[F]_(n + n) -> 'M[F]_(n + n).
Variables (A Q : 'M[F]_n).
Hypothesis laws : vl_exp_laws (fun t : F => expm (t *: vl_mx A Q)).

Theorem transition_invertible (dt : F) :
  [/\ cpm_ret0 expm A Q dt \in unitmx,
      invmx (cpm_ret0 expm A Q dt) = (drsubmx (expm (dt *: vl_mx A Q)))^T,
      cpm_ret0 expm A Q 0 = 1%:M
    & cpm_ret0 expm A Q (- dt) = invmx (cpm_ret0 expm A Q dt)].
Proof.
rewrite !cpm_ret0_Phi; split.
- exact: vl_Phi_unit laws dt.
- exact: vl_Phi_inv laws dt.
- exact: vl_Phi_0 laws.
- exact: vl_Phi_opp laws dt.
Qed.

End TransitionInvertibleGen.

(** the same for the formal series: exp(A s) exp(-A s)  = 1, i.e. E11(s) E22(s)^T = 1 *)
Section TransitionInvertibleSeries.
Variable F : numFieldType.
Variable n : nat.
Variable A : 'M[F]_n.

Lemma vl_E22_tr k : (vl_E22 A k)^T = exp_coeff (- A) k.
Proof. by rewrite /vl_E22 /exp_coeff linearZ /= -mx_pow_tr linearN /= trmxK. Qed.

Theorem formal_transition_invertible d :
  cauchy (vl_E11 A) (fun k => (vl_E22 A k)^T) d = delta F n d /\
  cauchy (fun k => (vl_E22 A k)^T) (vl_E11 A) d = delta F n d.
Proof.
split.
- rewrite (eq_cauchy (a':=exp_coeff (- - A)) (b':=exp_coeff (- A)) _ vl_E22_tr) ?exp_coeff_inv //.
  by move=> k; rewrite opprK.
- by rewrite (eq_cauchy (b':=exp_coeff A) vl_E22_tr (fun=> erefl)) exp_coeff_inv.
Qed.

End TransitionInvertibleSeries.

(** toward PSD of the noise matrix *)
Section NoiseGramPartial.
Variable F : realFieldType.
Variable n : nat.
Variable expm : 'M[F]_(n + n) -> 'M[F]_(n + n).
Variables (A Q : 'M[F]_n).
Hypothesis laws : vl_exp_laws (fun t : F => expm (t *: vl_mx A Q)).

Local Notation Phi := (cpm_ret0 expm A Q).
Local Notation Qd := (cpm_ret1 expm A Q).

Lemma psd_step (P1 P2 B : 'M[F]_n) : psd P1 -> psd P2 -> psd (B *m P1 *m B^T + P2).
Proof.
move=> p1 p2 x; rewrite mulmxDr mulmxDl mxE addr_ge0 //.
by have := p1 (B^T *m x); rewrite trmx_mul trmxK !mulmxA.
Qed.

Theorem noise_gram_partial :
  (forall s t, Qd (s + t) - Phi s *m Qd t *m (Phi s)^T = Qd s) /\
  (forall s t, psd (Qd s) -> psd (Qd t) -> psd (Qd (s + t))).
Proof.
have [_ hQ _ _] := composition laws; split=> s t.
- by rewrite hQ addrC addKr.
- by move=> ps pt; rewrite hQ; apply: psd_step.
Qed.

Lemma noise_zero_under_laws : Qd 0 = 0.
Proof.
have [h _] := noise_gram_partial.
have [_ _ h0 _] := transition_invertible laws 0.
by have := h 0 0; rewrite addr0 h0 mul1mx trmx1 mulmx1 subrr => <-.
Qed.

(** PSD on one short step h propagates to every multiple k h of it *)
Theorem noise_psd_multiples (h : F) (k : nat) : psd (Qd h) -> psd (Qd (k%:R * h)).
Proof.
move=> ph; elim: k => [|k IH].
- by rewrite mul0r noise_zero_under_laws => x; rewrite mulmx0 mul0mx mxE.
- by rewrite mulrS mulrDl mul1r; have [_ hp] := noise_gram_partial; apply: hp.
Qed.

End NoiseGramPartial.

Section NoiseFirstOrder.
Variable F : numFieldType.
Variable n : nat.
Variables (A Q : 'M[F]_n).

Theorem noise_first_order :
  vl_Qd_coeff A Q 0 = 0 /\ vl_Qd_coeff A Q 1 = Q.
Proof.
rewrite !van_loan_coeff /=; split=> //.
rewrite /integrand_coeff big_ord_recl big_ord0 addr0 subnn fact0 muln1 !mx_pow0 mulmx1 mul1mx.
by rewrite !invr1 !scale1r.
Qed.

End NoiseFirstOrder.
