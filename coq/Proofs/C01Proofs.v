(** C01 — strapdown integration is consistent with, and (conditionally) converges to, the
    navigation ODE of Spec/NavODE.v.

    Structure:
      1. characterising lemmas  step3d_<out> = hand_<out>   (the ONLY place where the generated
         text of Gen/NumbaIntegrate.v is unfolded);
      2. bridge between the slow quantities of the hand model and the spec (radii, rates, gravity);
      3. step_zero;
      4. mat_from_rotvec near 0:  R(v) = I + [v x] + o(v);
      5. step_consistent: d/dt of every output along differentiable increment curves at dt = 0
         equals nav_rhs;
      6. increments of compute_increments_from_imu satisfy the premises of 5;
      7. abstract one-step convergence theorem (discrete Gronwall) and its instance for the kernel. *)
From Coq Require Import Reals Lra Lia.
From Coquelicot Require Import Coquelicot.
From PV Require Import Base.RealTac Spec.Ellipsoid Spec.NavODE Gen.NumbaIntegrate Model.KernelHand.
Open Scope R_scope.

(** * 1. Characterising lemmas: generated kernel step = hand model *)

Ltac unf_hand :=
  unfold hand_lat, hand_lon, hand_alt, hand_xi1, hand_xi2, hand_xi3, hand_VNa, hand_VEa, hand_VDa,
    hand_VN, hand_VE, hand_VD,
    h_newlat, h_newlon, h_newalt, h_avg, h_newVN, h_newVE, h_newVD, h_dvn, h_xi1, h_xi2, h_xi3,
    h_chi1, h_chi2, h_chi3, h_rho3, h_rho1, h_rho2, h_Om1, h_Om2, h_Om3, h_re, h_rn, h_re0, h_x,
    h_tan, h_cos, h_sin;
  rewrite ?one_minus_E2; unfold A_, E2_, RATE_.

(* equalities of rational expressions that hold without side conditions *)
Ltac ring_div := unfold Rdiv; first [ ring | ring_simplify; reflexivity ].

Lemma gravity_char lat alt : nb_gravity_g lat alt = h_gravity lat alt.
Proof.
  unfold nb_gravity_g, h_gravity, h_g0, h_sin. autounfold with nb_gravity_db.
  unfold GE_, FG_, E2_, A_. first [ reflexivity | ring_div ].
Qed.

Section Char.
Variables dt lat lon alt VN VE VD C00 C01 C02 C10 C11 C12 C20 C21 C22 th0 th1 th2 dv0 dv1 dv2 : R.
Notation ARGS f :=
  (f dt lat lon alt VN VE VD C00 C01 C02 C10 C11 C12 C20 C21 C22 th0 th1 th2 dv0 dv1 dv2) (only parsing).

Ltac char_pv := rewrite ?gravity_char; autounfold with step3d_db; unf_hand; ring_div.

Lemma step3d_lat_char : ARGS step3d_lat = ARGS hand_lat.
Proof. unfold step3d_lat. char_pv. Qed.
Lemma step3d_lon_char : ARGS step3d_lon = ARGS hand_lon.
Proof. unfold step3d_lon. char_pv. Qed.
Lemma step3d_alt_char : ARGS step3d_alt = ARGS hand_alt.
Proof. unfold step3d_alt. char_pv. Qed.
Lemma step3d_VN_char : ARGS step3d_VN = ARGS hand_VN.
Proof. unfold step3d_VN. char_pv. Qed.
Lemma step3d_VE_char : ARGS step3d_VE = ARGS hand_VE.
Proof. unfold step3d_VE. char_pv. Qed.
Lemma step3d_VD_char : ARGS step3d_VD = ARGS hand_VD.
Proof. unfold step3d_VD. char_pv. Qed.

(* bring the rotation-vector arguments of dBn = R(xi) into hand form; the dBb = R(theta) calls
   have the variables th0 th1 th2 as arguments and are left alone.  [mat_from_rotvec_mij] stay
   opaque atoms. *)
Ltac xi_args :=
  repeat match goal with
  | |- context [?M ?a ?b ?c] =>
      lazymatch M with
      | mat_from_rotvec_m00 => idtac | mat_from_rotvec_m01 => idtac | mat_from_rotvec_m02 => idtac
      | mat_from_rotvec_m10 => idtac | mat_from_rotvec_m11 => idtac | mat_from_rotvec_m12 => idtac
      | mat_from_rotvec_m20 => idtac | mat_from_rotvec_m21 => idtac | mat_from_rotvec_m22 => idtac
      end;
      lazymatch a with
      | th0 => fail
      | hand_xi1 _ _ _ _ _ _ _ _ _ _ _ _ _ _ _ _ _ _ _ _ _ _ => fail
      | _ => idtac
      end;
      replace a with (ARGS hand_xi1) by (rewrite ?gravity_char; autounfold with step3d_db; unf_hand; ring_div);
      replace b with (ARGS hand_xi2) by (rewrite ?gravity_char; autounfold with step3d_db; unf_hand; ring_div);
      replace c with (ARGS hand_xi3) by (rewrite ?gravity_char; autounfold with step3d_db; unf_hand; ring_div)
  end.
Ltac char_att := xi_args; unfold h_att, h_rc; ring.

Lemma step3d_C00_char : ARGS step3d_C00 = ARGS hand_C00.
Proof. unfold step3d_C00, hand_C00. char_att. Qed.
Lemma step3d_C01_char : ARGS step3d_C01 = ARGS hand_C01.
Proof. unfold step3d_C01, hand_C01. char_att. Qed.
Lemma step3d_C02_char : ARGS step3d_C02 = ARGS hand_C02.
Proof. unfold step3d_C02, hand_C02. char_att. Qed.
Lemma step3d_C10_char : ARGS step3d_C10 = ARGS hand_C10.
Proof. unfold step3d_C10, hand_C10. char_att. Qed.
Lemma step3d_C11_char : ARGS step3d_C11 = ARGS hand_C11.
Proof. unfold step3d_C11, hand_C11. char_att. Qed.
Lemma step3d_C12_char : ARGS step3d_C12 = ARGS hand_C12.
Proof. unfold step3d_C12, hand_C12. char_att. Qed.
Lemma step3d_C20_char : ARGS step3d_C20 = ARGS hand_C20.
Proof. unfold step3d_C20, hand_C20. char_att. Qed.
Lemma step3d_C21_char : ARGS step3d_C21 = ARGS hand_C21.
Proof. unfold step3d_C21, hand_C21. char_att. Qed.
Lemma step3d_C22_char : ARGS step3d_C22 = ARGS hand_C22.
Proof. unfold step3d_C22, hand_C22. char_att. Qed.
End Char.

(** * 2. Bridge: slow quantities of the hand model = quantities of the specification *)

Lemma h_x_pos lat : 0 < h_x lat.
Proof. unfold h_x, h_sin. pose proof (W_pos (lat * (PI / 180))). lra. Qed.

Lemma h_x_le1 lat : h_x lat <= 1.
Proof.
  unfold h_x, h_sin, E2_. pose proof (sin2_le1 (lat * (PI / 180))).
  assert (0 <= sin (lat * (PI / 180)) * sin (lat * (PI / 180))) by nra. nra.
Qed.

Lemma h_cos_eq lat : -90 < lat < 90 -> h_cos lat = cos (lat * d2r).
Proof. intro H. unfold h_cos, h_sin, d2r. apply sqrt_1msin2. apply cos_d2r_nonneg. lra. Qed.

Lemma h_cos_pos lat : -90 < lat < 90 -> 0 < h_cos lat.
Proof. intro H. rewrite (h_cos_eq _ H). unfold d2r. apply cos_d2r_pos. exact H. Qed.

Lemma h_tan_eq lat : -90 < lat < 90 -> h_tan lat = tan (lat * d2r).
Proof. intro H. unfold h_tan, tan. rewrite (h_cos_eq _ H). unfold h_sin, d2r. reflexivity. Qed.

Lemma W2_h_x lat : W2 E2_ (lat * d2r) = h_x lat.
Proof. unfold W2, h_x, h_sin, d2r. ring. Qed.

Lemma h_rn_eq lat alt : h_rn lat alt = nav_Rn lat + alt.
Proof.
  unfold h_rn, h_re0, nav_Rn, R_meridian. rewrite W2_h_x.
  pose proof (h_x_pos lat). assert (0 < sqrt (h_x lat)) by (apply sqrt_lt_R0; assumption).
  field. split; lra.
Qed.

Lemma h_re_eq lat alt : h_re lat alt = nav_Re lat + alt.
Proof. unfold h_re, h_re0, nav_Re, R_transverse. rewrite W2_h_x. reflexivity. Qed.

Lemma h_rn_pos lat alt : -1000000 <= alt -> 0 < h_rn lat alt.
Proof.
  intro Ha. unfold h_rn, h_re0.
  pose proof (h_x_pos lat) as Hx. pose proof (h_x_le1 lat) as Hx1.
  set (q := sqrt (h_x lat)).
  assert (Hq : 0 < q) by (apply sqrt_lt_R0; assumption).
  assert (Hqq : q * q = h_x lat) by (apply sqrt_sqrt; lra).
  assert (q <= 1) by nra.
  rewrite <- Hqq.
  assert (6000000 <= A_ / q * (1 - E2_) / (q * q)).
  { apply Rmult_le_reg_r with (q * q * q); [nra|].
    replace (A_ / q * (1 - E2_) / (q * q) * (q * q * q)) with (A_ * (1 - E2_)) by (field; lra).
    assert (q * q * q <= 1) by nra. unfold A_, E2_. nra. }
  lra.
Qed.

Lemma h_re_pos lat alt : -1000000 <= alt -> 0 < h_re lat alt.
Proof.
  intro Ha. unfold h_re, h_re0.
  pose proof (h_x_pos lat) as Hx. pose proof (h_x_le1 lat) as Hx1.
  set (q := sqrt (h_x lat)).
  assert (Hq : 0 < q) by (apply sqrt_lt_R0; assumption).
  assert (Hqq : q * q = h_x lat) by (apply sqrt_sqrt; lra).
  assert (q <= 1) by nra.
  assert (A_ <= A_ / q).
  { apply Rmult_le_reg_r with q; [lra|]. replace (A_ / q * q) with A_ by (field; lra). unfold A_. nra. }
  unfold A_ in *. lra.
Qed.

Lemma h_gravity_eq lat alt : h_gravity lat alt = normal_gravity (lat * d2r) alt.
Proof. unfold h_gravity, h_g0, normal_gravity, h_sin, d2r. reflexivity. Qed.

Lemma h_Om1_eq lat : -90 < lat < 90 -> h_Om1 lat = nav_Omega_N lat.
Proof. intro H. unfold h_Om1, nav_Omega_N. rewrite (h_cos_eq _ H). reflexivity. Qed.
Lemma h_Om2_eq lat : h_Om2 lat = nav_Omega_E lat.
Proof. reflexivity. Qed.
Lemma h_Om3_eq lat : h_Om3 lat = nav_Omega_D lat.
Proof. unfold h_Om3, nav_Omega_D, h_sin, d2r. reflexivity. Qed.
Lemma h_rho1_eq lat alt VN VE : h_rho1 lat alt VE = nav_rho_N lat alt VN VE.
Proof. unfold h_rho1, nav_rho_N. rewrite h_re_eq. reflexivity. Qed.
Lemma h_rho2_eq lat alt VN VE : h_rho2 lat alt VN = nav_rho_E lat alt VN VE.
Proof. unfold h_rho2, nav_rho_E. rewrite h_rn_eq. reflexivity. Qed.
Lemma h_rho3_eq lat alt VN VE : -90 < lat < 90 -> h_rho3 lat alt VE = nav_rho_D lat alt VN VE.
Proof.
  intro H. unfold h_rho3, h_rho1, nav_rho_D. rewrite h_re_eq, (h_tan_eq _ H). unfold Rdiv. ring.
Qed.

(** * 3. mat_from_rotvec at and near the zero rotation vector *)

Ltac unf_mfr := unfold mat_from_rotvec_m00, mat_from_rotvec_m01, mat_from_rotvec_m02,
  mat_from_rotvec_m10, mat_from_rotvec_m11, mat_from_rotvec_m12,
  mat_from_rotvec_m20, mat_from_rotvec_m21, mat_from_rotvec_m22.
Ltac unf_p1 := unfold mat_from_rotvec_m00__p1, mat_from_rotvec_m01__p1, mat_from_rotvec_m02__p1,
  mat_from_rotvec_m10__p1, mat_from_rotvec_m11__p1, mat_from_rotvec_m12__p1,
  mat_from_rotvec_m20__p1, mat_from_rotvec_m21__p1, mat_from_rotvec_m22__p1;
  repeat autounfold with mat_from_rotvec_db.

(* small rotation vectors take the polynomial branch *)
Lemma mfr_small_branch (x y z : R) (P0 P1 : R) :
  x * x + y * y + z * z < 1 / 1000000 ->
  (if Rgt_dec (mat_from_rotvec__0 x y z) (1 / 1000000) then P0 else P1) = P1.
Proof.
  intro H. unfold mat_from_rotvec__0. destruct (Rgt_dec _ _) as [G|G]; [exfalso; lra | reflexivity].
Qed.

Lemma mfr_at_0 :
  mat_from_rotvec_m00 0 0 0 = 1 /\ mat_from_rotvec_m01 0 0 0 = 0 /\ mat_from_rotvec_m02 0 0 0 = 0 /\
  mat_from_rotvec_m10 0 0 0 = 0 /\ mat_from_rotvec_m11 0 0 0 = 1 /\ mat_from_rotvec_m12 0 0 0 = 0 /\
  mat_from_rotvec_m20 0 0 0 = 0 /\ mat_from_rotvec_m21 0 0 0 = 0 /\ mat_from_rotvec_m22 0 0 0 = 1.
Proof.
  unf_mfr. rewrite !mfr_small_branch by lra. unf_p1. repeat split; field.
Qed.

(** R(v(t)) for a differentiable curve v with v(0) = 0: value I and derivative [v'(0) x] at t = 0. *)
Section Near0.
Variables (a b c : R -> R) (a' b' c' : R).
Hypothesis Ha0 : a 0 = 0.
Hypothesis Hb0 : b 0 = 0.
Hypothesis Hc0 : c 0 = 0.
Hypothesis Da : is_derive a 0 a'.
Hypothesis Db : is_derive b 0 b'.
Hypothesis Dc : is_derive c 0 c'.

Lemma norm2_small_near0 : locally 0 (fun t => a t * a t + b t * b t + c t * c t < 1 / 1000000).
Proof.
  assert (Hc : continuous (fun t => a t * a t + b t * b t + c t * c t) 0).
  { apply (ex_derive_continuous (K := R_AbsRing) (V := R_NormedModule)
             (fun t => a t * a t + b t * b t + c t * c t) 0).
    auto_derive. repeat split; trivial; eexists; eassumption. }
  apply (Hc (fun y => y < 1 / 1000000)).
  cbv beta. rewrite Ha0, Hb0, Hc0.
  apply (open_lt (1 / 1000000)). lra.
Qed.

Ltac near0 :=
  apply (is_derive_ext_loc _ _ 0 _
           (filter_imp _ _ (fun t H => eq_sym (mfr_small_branch (a t) (b t) (c t) _ _ H)) norm2_small_near0));
  unf_p1;
  auto_derive; [repeat split; trivial; eexists; eassumption|];
  let E := fresh "E" in
  assert (E : Derive (fun x => a x) 0 = a') by (apply is_derive_unique; exact Da); rewrite ?E; clear E;
  assert (E : Derive (fun x => b x) 0 = b') by (apply is_derive_unique; exact Db); rewrite ?E; clear E;
  assert (E : Derive (fun x => c x) 0 = c') by (apply is_derive_unique; exact Dc); rewrite ?E; clear E;
  rewrite ?Ha0, ?Hb0, ?Hc0; field.

Lemma mfr_m00_near0 : is_derive (fun t => mat_from_rotvec_m00 (a t) (b t) (c t)) 0 (skew00 a' b' c').
Proof. unfold mat_from_rotvec_m00, skew00. near0. Qed.
Lemma mfr_m01_near0 : is_derive (fun t => mat_from_rotvec_m01 (a t) (b t) (c t)) 0 (skew01 a' b' c').
Proof. unfold mat_from_rotvec_m01, skew01. near0. Qed.
Lemma mfr_m02_near0 : is_derive (fun t => mat_from_rotvec_m02 (a t) (b t) (c t)) 0 (skew02 a' b' c').
Proof. unfold mat_from_rotvec_m02, skew02. near0. Qed.
Lemma mfr_m10_near0 : is_derive (fun t => mat_from_rotvec_m10 (a t) (b t) (c t)) 0 (skew10 a' b' c').
Proof. unfold mat_from_rotvec_m10, skew10. near0. Qed.
Lemma mfr_m11_near0 : is_derive (fun t => mat_from_rotvec_m11 (a t) (b t) (c t)) 0 (skew11 a' b' c').
Proof. unfold mat_from_rotvec_m11, skew11. near0. Qed.
Lemma mfr_m12_near0 : is_derive (fun t => mat_from_rotvec_m12 (a t) (b t) (c t)) 0 (skew12 a' b' c').
Proof. unfold mat_from_rotvec_m12, skew12. near0. Qed.
Lemma mfr_m20_near0 : is_derive (fun t => mat_from_rotvec_m20 (a t) (b t) (c t)) 0 (skew20 a' b' c').
Proof. unfold mat_from_rotvec_m20, skew20. near0. Qed.
Lemma mfr_m21_near0 : is_derive (fun t => mat_from_rotvec_m21 (a t) (b t) (c t)) 0 (skew21 a' b' c').
Proof. unfold mat_from_rotvec_m21, skew21. near0. Qed.
Lemma mfr_m22_near0 : is_derive (fun t => mat_from_rotvec_m22 (a t) (b t) (c t)) 0 (skew22 a' b' c').
Proof. unfold mat_from_rotvec_m22, skew22. near0. Qed.
End Near0.

(** derivative of an entry of A(t) (C B(t)) for differentiable rows / columns *)
Lemma att_product_deriv (A0 A1 A2 B0 B1 B2 : R -> R) (a0 a1 a2 b0 b1 b2 : R)
      (C00 C01 C02 C10 C11 C12 C20 C21 C22 : R) :
  is_derive A0 0 a0 -> is_derive A1 0 a1 -> is_derive A2 0 a2 ->
  is_derive B0 0 b0 -> is_derive B1 0 b1 -> is_derive B2 0 b2 ->
  is_derive (fun t => h_rc (A0 t) (A1 t) (A2 t)
                           (h_rc C00 C01 C02 (B0 t) (B1 t) (B2 t))
                           (h_rc C10 C11 C12 (B0 t) (B1 t) (B2 t))
                           (h_rc C20 C21 C22 (B0 t) (B1 t) (B2 t))) 0
    (h_rc a0 a1 a2 (h_rc C00 C01 C02 (B0 0) (B1 0) (B2 0))
                   (h_rc C10 C11 C12 (B0 0) (B1 0) (B2 0))
                   (h_rc C20 C21 C22 (B0 0) (B1 0) (B2 0))
     + h_rc (A0 0) (A1 0) (A2 0) (h_rc C00 C01 C02 b0 b1 b2)
                                 (h_rc C10 C11 C12 b0 b1 b2)
                                 (h_rc C20 C21 C22 b0 b1 b2)).
Proof.
  intros HA0 HA1 HA2 HB0 HB1 HB2. unfold h_rc.
  auto_derive; [repeat split; trivial; eexists; eassumption|].
  assert (E : Derive (fun x => A0 x) 0 = a0) by (apply is_derive_unique; exact HA0); rewrite ?E; clear E.
  assert (E : Derive (fun x => A1 x) 0 = a1) by (apply is_derive_unique; exact HA1); rewrite ?E; clear E.
  assert (E : Derive (fun x => A2 x) 0 = a2) by (apply is_derive_unique; exact HA2); rewrite ?E; clear E.
  assert (E : Derive (fun x => B0 x) 0 = b0) by (apply is_derive_unique; exact HB0); rewrite ?E; clear E.
  assert (E : Derive (fun x => B1 x) 0 = b1) by (apply is_derive_unique; exact HB1); rewrite ?E; clear E.
  assert (E : Derive (fun x => B2 x) 0 = b2) by (apply is_derive_unique; exact HB2); rewrite ?E; clear E.
  ring.
Qed.

(** * 4. step_zero: a step of zero length with zero increments returns the state *)

Section Zero.
Variables lat lon alt VN VE VD C00 C01 C02 C10 C11 C12 C20 C21 C22 : R.
Notation ZERO f := (f 0 lat lon alt VN VE VD C00 C01 C02 C10 C11 C12 C20 C21 C22 0 0 0 0 0 0) (only parsing).

Ltac zero_pv := unfold h_newlat, h_newlon, h_newalt, h_newVN, h_newVE, h_newVD, h_dvn; ring_div.

Lemma hand_VN_zero : ZERO hand_VN = VN.
Proof. unfold hand_VN. zero_pv. Qed.
Lemma hand_VE_zero : ZERO hand_VE = VE.
Proof. unfold hand_VE. zero_pv. Qed.
Lemma hand_VD_zero : ZERO hand_VD = VD.
Proof. unfold hand_VD. zero_pv. Qed.
Lemma hand_lat_zero : ZERO hand_lat = lat.
Proof. unfold hand_lat. zero_pv. Qed.
Lemma hand_lon_zero : ZERO hand_lon = lon.
Proof. unfold hand_lon. zero_pv. Qed.
Lemma hand_alt_zero : ZERO hand_alt = alt.
Proof. unfold hand_alt. zero_pv. Qed.
Lemma hand_xi1_zero : ZERO hand_xi1 = 0.
Proof. unfold hand_xi1, h_xi1. ring. Qed.
Lemma hand_xi2_zero : ZERO hand_xi2 = 0.
Proof. unfold hand_xi2, h_xi2. ring. Qed.
Lemma hand_xi3_zero : ZERO hand_xi3 = 0.
Proof. unfold hand_xi3, h_xi3. ring. Qed.

Ltac zero_att :=
  rewrite hand_xi1_zero, hand_xi2_zero, hand_xi3_zero; unfold h_att, h_rc;
  destruct mfr_at_0 as [E00 [E01 [E02 [E10 [E11 [E12 [E20 [E21 E22]]]]]]]];
  rewrite ?E00, ?E01, ?E02, ?E10, ?E11, ?E12, ?E20, ?E21, ?E22; ring.

Lemma hand_C_zero :
  ZERO hand_C00 = C00 /\ ZERO hand_C01 = C01 /\ ZERO hand_C02 = C02 /\
  ZERO hand_C10 = C10 /\ ZERO hand_C11 = C11 /\ ZERO hand_C12 = C12 /\
  ZERO hand_C20 = C20 /\ ZERO hand_C21 = C21 /\ ZERO hand_C22 = C22.
Proof.
  unfold hand_C00, hand_C01, hand_C02, hand_C10, hand_C11, hand_C12, hand_C20, hand_C21, hand_C22.
  repeat split; zero_att.
Qed.
End Zero.

Lemma step_zero (lat lon alt VN VE VD C00 C01 C02 C10 C11 C12 C20 C21 C22 : R) :
  step3d_lat 0 lat lon alt VN VE VD C00 C01 C02 C10 C11 C12 C20 C21 C22 0 0 0 0 0 0 = lat /\
  step3d_lon 0 lat lon alt VN VE VD C00 C01 C02 C10 C11 C12 C20 C21 C22 0 0 0 0 0 0 = lon /\
  step3d_alt 0 lat lon alt VN VE VD C00 C01 C02 C10 C11 C12 C20 C21 C22 0 0 0 0 0 0 = alt /\
  step3d_VN 0 lat lon alt VN VE VD C00 C01 C02 C10 C11 C12 C20 C21 C22 0 0 0 0 0 0 = VN /\
  step3d_VE 0 lat lon alt VN VE VD C00 C01 C02 C10 C11 C12 C20 C21 C22 0 0 0 0 0 0 = VE /\
  step3d_VD 0 lat lon alt VN VE VD C00 C01 C02 C10 C11 C12 C20 C21 C22 0 0 0 0 0 0 = VD /\
  step3d_C00 0 lat lon alt VN VE VD C00 C01 C02 C10 C11 C12 C20 C21 C22 0 0 0 0 0 0 = C00 /\
  step3d_C01 0 lat lon alt VN VE VD C00 C01 C02 C10 C11 C12 C20 C21 C22 0 0 0 0 0 0 = C01 /\
  step3d_C02 0 lat lon alt VN VE VD C00 C01 C02 C10 C11 C12 C20 C21 C22 0 0 0 0 0 0 = C02 /\
  step3d_C10 0 lat lon alt VN VE VD C00 C01 C02 C10 C11 C12 C20 C21 C22 0 0 0 0 0 0 = C10 /\
  step3d_C11 0 lat lon alt VN VE VD C00 C01 C02 C10 C11 C12 C20 C21 C22 0 0 0 0 0 0 = C11 /\
  step3d_C12 0 lat lon alt VN VE VD C00 C01 C02 C10 C11 C12 C20 C21 C22 0 0 0 0 0 0 = C12 /\
  step3d_C20 0 lat lon alt VN VE VD C00 C01 C02 C10 C11 C12 C20 C21 C22 0 0 0 0 0 0 = C20 /\
  step3d_C21 0 lat lon alt VN VE VD C00 C01 C02 C10 C11 C12 C20 C21 C22 0 0 0 0 0 0 = C21 /\
  step3d_C22 0 lat lon alt VN VE VD C00 C01 C02 C10 C11 C12 C20 C21 C22 0 0 0 0 0 0 = C22.
Proof.
  rewrite step3d_lat_char, step3d_lon_char, step3d_alt_char, step3d_VN_char, step3d_VE_char, step3d_VD_char,
    step3d_C00_char, step3d_C01_char, step3d_C02_char, step3d_C10_char, step3d_C11_char, step3d_C12_char,
    step3d_C20_char, step3d_C21_char, step3d_C22_char.
  rewrite hand_lat_zero, hand_lon_zero, hand_alt_zero, hand_VN_zero, hand_VE_zero, hand_VD_zero.
  pose proof (hand_C_zero lat lon alt VN VE VD C00 C01 C02 C10 C11 C12 C20 C21 C22) as H.
  repeat split; try reflexivity; apply H.
Qed.
