(** C01 — strapdown integration is consistent with, and (conditionally) converges to, the
    navigation ODE of Spec/NavODE.v.

    Structure:
      1. characterising lemmas  step3d_<out> = hand_<out>   (the ONLY place where the generated
         text of Gen/NumbaIntegrate.v is unfolded);
      2. bridge between the slow quantities of the hand model and the spec (radii, rates, gravity);
      3. step_zero;
      4. mat_from_rotvec near 0:  R(v) = I + [v x] + o(v);
      5. step_consistent: d/dt of every output along differentiable increment curves at dt = 0
         equals nav_rhs;
      6. increments of compute_increments_from_imu satisfy the premises of 5;
      7. abstract one-step convergence theorem (discrete Gronwall) and its instance for the kernel. *)
From Coq Require Import Reals Lra Lia.
From Coquelicot Require Import Coquelicot.
From PV Require Import Base.RealTac Spec.Ellipsoid Spec.NavODE Gen.NumbaIntegrate Gen.C01Gen Model.KernelHand.
Open Scope R_scope.

(** * 1. Characterising lemmas: generated kernel step = hand model *)

(** The characterising lemmas must survive behaviour-preserving rewrites of the Python source
    (x**0.5 <-> sqrt, s*s hoisted, 0.5*x <-> x/2, -(a*b) <-> -a*b, hoisted common sums, ...), which
    change the helper definitions step3d__k and the shape of every expression.  So nothing below
    refers to a helper by name or to the shape of an expression: everything generated is unfolded
    through the hint databases, the NON-RATIONAL atoms (sin, sqrt, inverses of non-constant terms)
    are brought to the canonical folded forms of the hand model (h_sin, h_w, h_cos, h_x, h_re, h_rn)
    by proving their ARGUMENTS equal as rational expressions, all remaining inverses are
    abstracted into variables, and the goal is closed by [ring] / [field] over numerals only. *)

Ltac unf_gen := unfold nb_gravity_g; repeat autounfold with step3d_db nb_gravity_db.

Ltac const_nz := repeat split; try apply PI_neq0; try (intro; lra).

(* abstract every inverse of a non-numeral into a variable, then decide the rational identity *)
Ltac abs_inv :=
  unfold Rdiv;
  repeat match goal with |- context [/ ?d] =>
    lazymatch d with IZR _ => fail | _ => idtac end;
    let i := fresh "inv" in set (i := / d) in * end.
Ltac rat_eq := abs_inv; first [ reflexivity | ring | field; const_nz ].

(* equalities of rational expressions that hold without side conditions *)
Ltac ring_div := unfold Rdiv; first [ ring | ring_simplify; reflexivity | rat_eq ].

Ltac fold_sin lat :=
  repeat match goal with |- context [sin ?a] =>
    replace (sin a) with (h_sin lat)
      by (unfold h_sin; first [ reflexivity | f_equal; unfold Rdiv; first [ ring | field; const_nz ] ]) end.

Ltac fold_sqrt lat :=
  repeat match goal with |- context [sqrt ?a] =>
    first [ replace (sqrt a) with (h_w lat) by (unfold h_w, h_x, E2_; f_equal; rat_eq)
          | replace (sqrt a) with (h_cos lat) by (unfold h_cos; f_equal; rat_eq) ] end.

Ltac unf_slow := unfold h_rn, h_re, h_re0, h_x, A_, E2_.

Ltac fold_inv lat alt :=
  repeat match goal with |- context [/ ?d] =>
    lazymatch d with
    | IZR _ => fail | PI => fail
    | h_w _ => fail | h_x _ => fail | h_cos _ => fail | h_re _ _ => fail | h_rn _ _ => fail
    | _ => idtac end;
    first [ replace d with (h_w lat) by (unf_slow; rat_eq)
          | replace d with (h_x lat) by (unf_slow; rat_eq)
          | replace d with (h_cos lat) by (unf_slow; rat_eq)
          | replace d with (h_re lat alt) by (unf_slow; rat_eq)
          | replace d with (h_rn lat alt) by (unf_slow; rat_eq) ] end.

(* canonical form of everything generated *)
Ltac gen_norm lat alt := unf_gen; unfold Rdiv; fold_sin lat; fold_sqrt lat; fold_inv lat alt.

(* the hand model down to the same atoms *)
Ltac unf_hand :=
  unfold hand_lat, hand_lon, hand_alt, hand_xi1, hand_xi2, hand_xi3, hand_VNa, hand_VEa, hand_VDa,
    hand_VN, hand_VE, hand_VD,
    h_newlat, h_newlon, h_newalt, h_avg, h_newVN, h_newVE, h_newVD, h_dvn, h_xi1, h_xi2, h_xi3,
    h_chi1, h_chi2, h_chi3, h_rho3, h_rho1, h_rho2, h_Om1, h_Om2, h_Om3, h_tan, h_gravity, h_g0;
  unfold RATE_, GE_, FG_, A_.

Lemma gravity_char lat alt : nb_gravity_g lat alt = h_gravity lat alt.
Proof. gen_norm lat alt. unf_hand. rat_eq. Qed.

Section Char.
Variables dt lat lon alt VN VE VD C00 C01 C02 C10 C11 C12 C20 C21 C22 th0 th1 th2 dv0 dv1 dv2 : R.
Notation ARGS f :=
  (f dt lat lon alt VN VE VD C00 C01 C02 C10 C11 C12 C20 C21 C22 th0 th1 th2 dv0 dv1 dv2) (only parsing).

Ltac char_pv := gen_norm lat alt; unf_hand; rat_eq.

Lemma step3d_lat_char : ARGS step3d_lat = ARGS hand_lat.
Proof. unfold step3d_lat. char_pv. Qed.
Lemma step3d_lon_char : ARGS step3d_lon = ARGS hand_lon.
Proof. unfold step3d_lon. char_pv. Qed.
Lemma step3d_alt_char : ARGS step3d_alt = ARGS hand_alt.
Proof. unfold step3d_alt. char_pv. Qed.
Lemma step3d_VN_char : ARGS step3d_VN = ARGS hand_VN.
Proof. unfold step3d_VN. char_pv. Qed.
Lemma step3d_VE_char : ARGS step3d_VE = ARGS hand_VE.
Proof. unfold step3d_VE. char_pv. Qed.
Lemma step3d_VD_char : ARGS step3d_VD = ARGS hand_VD.
Proof. unfold step3d_VD. char_pv. Qed.

(* bring the rotation-vector arguments of dBn = R(xi) into hand form; the dBb = R(theta) calls
   have the variables th0 th1 th2 as arguments and are left alone.  [mat_from_rotvec_mij] stay
   opaque atoms. *)
Ltac xi_args :=
  repeat match goal with
  | |- context [?M ?a ?b ?c] =>
      lazymatch M with
      | mat_from_rotvec_m00 => idtac | mat_from_rotvec_m01 => idtac | mat_from_rotvec_m02 => idtac
      | mat_from_rotvec_m10 => idtac | mat_from_rotvec_m11 => idtac | mat_from_rotvec_m12 => idtac
      | mat_from_rotvec_m20 => idtac | mat_from_rotvec_m21 => idtac | mat_from_rotvec_m22 => idtac
      end;
      lazymatch a with
      | th0 => fail
      | hand_xi1 _ _ _ _ _ _ _ _ _ _ _ _ _ _ _ _ _ _ _ _ _ _ => fail
      | _ => idtac
      end;
      replace a with (ARGS hand_xi1) by char_pv;
      replace b with (ARGS hand_xi2) by char_pv;
      replace c with (ARGS hand_xi3) by char_pv
  end.
Ltac char_att := xi_args; unfold h_att, h_rc; ring.

Lemma step3d_C00_char : ARGS step3d_C00 = ARGS hand_C00.
Proof. unfold step3d_C00, hand_C00. char_att. Qed.
Lemma step3d_C01_char : ARGS step3d_C01 = ARGS hand_C01.
Proof. unfold step3d_C01, hand_C01. char_att. Qed.
Lemma step3d_C02_char : ARGS step3d_C02 = ARGS hand_C02.
Proof. unfold step3d_C02, hand_C02. char_att. Qed.
Lemma step3d_C10_char : ARGS step3d_C10 = ARGS hand_C10.
Proof. unfold step3d_C10, hand_C10. char_att. Qed.
Lemma step3d_C11_char : ARGS step3d_C11 = ARGS hand_C11.
Proof. unfold step3d_C11, hand_C11. char_att. Qed.
Lemma step3d_C12_char : ARGS step3d_C12 = ARGS hand_C12.
Proof. unfold step3d_C12, hand_C12. char_att. Qed.
Lemma step3d_C20_char : ARGS step3d_C20 = ARGS hand_C20.
Proof. unfold step3d_C20, hand_C20. char_att. Qed.
Lemma step3d_C21_char : ARGS step3d_C21 = ARGS hand_C21.
Proof. unfold step3d_C21, hand_C21. char_att. Qed.
Lemma step3d_C22_char : ARGS step3d_C22 = ARGS hand_C22.
Proof. unfold step3d_C22, hand_C22. char_att. Qed.
End Char.

(** * 2. Bridge: slow quantities of the hand model = quantities of the specification *)

Lemma h_x_pos lat : 0 < h_x lat.
Proof. unfold h_x, h_sin. pose proof (W_pos (lat * (PI / 180))). lra. Qed.

Lemma h_x_le1 lat : h_x lat <= 1.
Proof.
  unfold h_x, h_sin, E2_. pose proof (sin2_le1 (lat * (PI / 180))).
  assert (0 <= sin (lat * (PI / 180)) * sin (lat * (PI / 180))) by nra. nra.
Qed.

Lemma h_cos_eq lat : -90 < lat < 90 -> h_cos lat = cos (lat * d2r).
Proof. intro H. unfold h_cos, h_sin, d2r. apply sqrt_1msin2. apply cos_d2r_nonneg. lra. Qed.

Lemma h_cos_pos lat : -90 < lat < 90 -> 0 < h_cos lat.
Proof. intro H. rewrite (h_cos_eq _ H). unfold d2r. apply cos_d2r_pos. exact H. Qed.

Lemma h_tan_eq lat : -90 < lat < 90 -> h_tan lat = tan (lat * d2r).
Proof. intro H. unfold h_tan, tan. rewrite (h_cos_eq _ H). unfold h_sin, d2r. reflexivity. Qed.

Lemma W2_h_x lat : W2 E2_ (lat * d2r) = h_x lat.
Proof. unfold W2, h_x, h_sin, d2r. ring. Qed.

Lemma h_rn_eq lat alt : h_rn lat alt = nav_Rn lat + alt.
Proof.
  unfold h_rn, h_re0, h_w, nav_Rn, R_meridian. rewrite W2_h_x.
  pose proof (h_x_pos lat). assert (0 < sqrt (h_x lat)) by (apply sqrt_lt_R0; assumption).
  field. split; lra.
Qed.

Lemma h_re_eq lat alt : h_re lat alt = nav_Re lat + alt.
Proof. unfold h_re, h_re0, h_w, nav_Re, R_transverse. rewrite W2_h_x. reflexivity. Qed.

Lemma h_rn_pos lat alt : -1000000 <= alt -> 0 < h_rn lat alt.
Proof.
  intro Ha. unfold h_rn, h_re0, h_w.
  pose proof (h_x_pos lat) as Hx. pose proof (h_x_le1 lat) as Hx1.
  set (q := sqrt (h_x lat)).
  assert (Hq : 0 < q) by (apply sqrt_lt_R0; assumption).
  assert (Hqq : q * q = h_x lat) by (apply sqrt_sqrt; lra).
  assert (q <= 1) by nra.
  rewrite <- Hqq.
  assert (6000000 <= A_ / q * (1 - E2_) / (q * q)).
  { apply Rmult_le_reg_r with (q * q * q); [nra|].
    replace (A_ / q * (1 - E2_) / (q * q) * (q * q * q)) with (A_ * (1 - E2_)) by (field; lra).
    assert (q * q * q <= 1) by nra. unfold A_, E2_. nra. }
  lra.
Qed.

Lemma h_re_pos lat alt : -1000000 <= alt -> 0 < h_re lat alt.
Proof.
  intro Ha. unfold h_re, h_re0, h_w.
  pose proof (h_x_pos lat) as Hx. pose proof (h_x_le1 lat) as Hx1.
  set (q := sqrt (h_x lat)).
  assert (Hq : 0 < q) by (apply sqrt_lt_R0; assumption).
  assert (Hqq : q * q = h_x lat) by (apply sqrt_sqrt; lra).
  assert (q <= 1) by nra.
  assert (A_ <= A_ / q).
  { apply Rmult_le_reg_r with q; [lra|]. replace (A_ / q * q) with A_ by (field; lra). unfold A_. nra. }
  unfold A_ in *. lra.
Qed.

Lemma h_gravity_eq lat alt : h_gravity lat alt = normal_gravity (lat * d2r) alt.
Proof.
  unfold h_gravity, h_g0, h_w, normal_gravity.
  replace (h_x lat) with (1 - E2_ * (sin (lat * d2r) * sin (lat * d2r))) by (unfold h_x, h_sin, d2r; ring).
  unfold h_sin, d2r. reflexivity.
Qed.

Lemma h_Om1_eq lat : -90 < lat < 90 -> h_Om1 lat = nav_Omega_N lat.
Proof. intro H. unfold h_Om1, nav_Omega_N. rewrite (h_cos_eq _ H). reflexivity. Qed.
Lemma h_Om2_eq lat : h_Om2 lat = nav_Omega_E lat.
Proof. reflexivity. Qed.
Lemma h_Om3_eq lat : h_Om3 lat = nav_Omega_D lat.
Proof. unfold h_Om3, nav_Omega_D, h_sin, d2r. reflexivity. Qed.
Lemma h_rho1_eq lat alt VN VE : h_rho1 lat alt VE = nav_rho_N lat alt VN VE.
Proof. unfold h_rho1, nav_rho_N. rewrite h_re_eq. reflexivity. Qed.
Lemma h_rho2_eq lat alt VN VE : h_rho2 lat alt VN = nav_rho_E lat alt VN VE.
Proof. unfold h_rho2, nav_rho_E. rewrite h_rn_eq. reflexivity. Qed.
Lemma h_rho3_eq lat alt VN VE : -90 < lat < 90 -> h_rho3 lat alt VE = nav_rho_D lat alt VN VE.
Proof.
  intro H. unfold h_rho3, h_rho1, nav_rho_D. rewrite h_re_eq, (h_tan_eq _ H). unfold Rdiv. ring.
Qed.

(** * 3. mat_from_rotvec at and near the zero rotation vector *)

Ltac unf_mfr := unfold mat_from_rotvec_m00, mat_from_rotvec_m01, mat_from_rotvec_m02,
  mat_from_rotvec_m10, mat_from_rotvec_m11, mat_from_rotvec_m12,
  mat_from_rotvec_m20, mat_from_rotvec_m21, mat_from_rotvec_m22.
Ltac unf_p1 := unfold mat_from_rotvec_m00__p1, mat_from_rotvec_m01__p1, mat_from_rotvec_m02__p1,
  mat_from_rotvec_m10__p1, mat_from_rotvec_m11__p1, mat_from_rotvec_m12__p1,
  mat_from_rotvec_m20__p1, mat_from_rotvec_m21__p1, mat_from_rotvec_m22__p1;
  repeat autounfold with mat_from_rotvec_db.

(* small rotation vectors take the polynomial branch; the condition term is whatever the translator
   printed for norm2 (it is only unfolded through the hint database, never named) *)
Lemma if_not_gt (n k P0 P1 : R) : ~ n > k -> (if Rgt_dec n k then P0 else P1) = P1.
Proof. intro H. destruct (Rgt_dec n k); [contradiction | reflexivity]. Qed.

Lemma mfr_at_0 :
  mat_from_rotvec_m00 0 0 0 = 1 /\ mat_from_rotvec_m01 0 0 0 = 0 /\ mat_from_rotvec_m02 0 0 0 = 0 /\
  mat_from_rotvec_m10 0 0 0 = 0 /\ mat_from_rotvec_m11 0 0 0 = 1 /\ mat_from_rotvec_m12 0 0 0 = 0 /\
  mat_from_rotvec_m20 0 0 0 = 0 /\ mat_from_rotvec_m21 0 0 0 = 0 /\ mat_from_rotvec_m22 0 0 0 = 1.
Proof.
  unf_mfr.
  rewrite !if_not_gt by (repeat autounfold with mat_from_rotvec_db; intro G; first [ lra | nra ]).
  unf_p1. repeat split; field.
Qed.

(** R(v(t)) for a differentiable curve v with v(0) = 0: value I and derivative [v'(0) x] at t = 0. *)
Section Near0.
Variables (a b c : R -> R) (a' b' c' : R).
Hypothesis Ha0 : a 0 = 0.
Hypothesis Hb0 : b 0 = 0.
Hypothesis Hc0 : c 0 = 0.
Hypothesis Da : is_derive a 0 a'.
Hypothesis Db : is_derive b 0 b'.
Hypothesis Dc : is_derive c 0 c'.

Lemma norm2_small_near0 : locally 0 (fun t => a t * a t + b t * b t + c t * c t < 1 / 1000000).
Proof.
  assert (Hc : continuous (fun t => a t * a t + b t * b t + c t * c t) 0).
  { apply (ex_derive_continuous (K := R_AbsRing) (V := R_NormedModule)
             (fun t => a t * a t + b t * b t + c t * c t) 0).
    auto_derive. repeat split; trivial; eexists; eassumption. }
  apply (Hc (fun y => y < 1 / 1000000)).
  cbv beta. rewrite Ha0, Hb0, Hc0.
  apply (open_lt (1 / 1000000)). lra.
Qed.

Ltac near0 :=
  match goal with |- is_derive (fun t => if Rgt_dec (@?N t) _ then @?P0 t else @?P1 t) 0 _ =>
    apply (is_derive_ext_loc P1)
  end;
  [ apply (filter_imp (fun t => a t * a t + b t * b t + c t * c t < 1 / 1000000)); [|exact norm2_small_near0];
    intros t Ht; cbv beta; symmetry; apply if_not_gt;
    repeat autounfold with mat_from_rotvec_db; intro G; first [ lra | nra ]
  | cbv beta; unf_p1;
    auto_derive; [repeat split; trivial; eexists; eassumption|];
    let E := fresh "E" in
    assert (E : Derive (fun x => a x) 0 = a') by (apply is_derive_unique; exact Da); rewrite ?E; clear E;
    assert (E : Derive (fun x => b x) 0 = b') by (apply is_derive_unique; exact Db); rewrite ?E; clear E;
    assert (E : Derive (fun x => c x) 0 = c') by (apply is_derive_unique; exact Dc); rewrite ?E; clear E;
    rewrite ?Ha0, ?Hb0, ?Hc0; field ].

Lemma mfr_m00_near0 : is_derive (fun t => mat_from_rotvec_m00 (a t) (b t) (c t)) 0 (skew00 a' b' c').
Proof. unfold mat_from_rotvec_m00, skew00. near0. Qed.
Lemma mfr_m01_near0 : is_derive (fun t => mat_from_rotvec_m01 (a t) (b t) (c t)) 0 (skew01 a' b' c').
Proof. unfold mat_from_rotvec_m01, skew01. near0. Qed.
Lemma mfr_m02_near0 : is_derive (fun t => mat_from_rotvec_m02 (a t) (b t) (c t)) 0 (skew02 a' b' c').
Proof. unfold mat_from_rotvec_m02, skew02. near0. Qed.
Lemma mfr_m10_near0 : is_derive (fun t => mat_from_rotvec_m10 (a t) (b t) (c t)) 0 (skew10 a' b' c').
Proof. unfold mat_from_rotvec_m10, skew10. near0. Qed.
Lemma mfr_m11_near0 : is_derive (fun t => mat_from_rotvec_m11 (a t) (b t) (c t)) 0 (skew11 a' b' c').
Proof. unfold mat_from_rotvec_m11, skew11. near0. Qed.
Lemma mfr_m12_near0 : is_derive (fun t => mat_from_rotvec_m12 (a t) (b t) (c t)) 0 (skew12 a' b' c').
Proof. unfold mat_from_rotvec_m12, skew12. near0. Qed.
Lemma mfr_m20_near0 : is_derive (fun t => mat_from_rotvec_m20 (a t) (b t) (c t)) 0 (skew20 a' b' c').
Proof. unfold mat_from_rotvec_m20, skew20. near0. Qed.
Lemma mfr_m21_near0 : is_derive (fun t => mat_from_rotvec_m21 (a t) (b t) (c t)) 0 (skew21 a' b' c').
Proof. unfold mat_from_rotvec_m21, skew21. near0. Qed.
Lemma mfr_m22_near0 : is_derive (fun t => mat_from_rotvec_m22 (a t) (b t) (c t)) 0 (skew22 a' b' c').
Proof. unfold mat_from_rotvec_m22, skew22. near0. Qed.
End Near0.

(** derivative of an entry of A(t) (C B(t)) for differentiable rows / columns *)
Lemma att_product_deriv (A0 A1 A2 B0 B1 B2 : R -> R) (a0 a1 a2 b0 b1 b2 : R)
      (C00 C01 C02 C10 C11 C12 C20 C21 C22 : R) :
  is_derive A0 0 a0 -> is_derive A1 0 a1 -> is_derive A2 0 a2 ->
  is_derive B0 0 b0 -> is_derive B1 0 b1 -> is_derive B2 0 b2 ->
  is_derive (fun t => h_rc (A0 t) (A1 t) (A2 t)
                           (h_rc C00 C01 C02 (B0 t) (B1 t) (B2 t))
                           (h_rc C10 C11 C12 (B0 t) (B1 t) (B2 t))
                           (h_rc C20 C21 C22 (B0 t) (B1 t) (B2 t))) 0
    (h_rc a0 a1 a2 (h_rc C00 C01 C02 (B0 0) (B1 0) (B2 0))
                   (h_rc C10 C11 C12 (B0 0) (B1 0) (B2 0))
                   (h_rc C20 C21 C22 (B0 0) (B1 0) (B2 0))
     + h_rc (A0 0) (A1 0) (A2 0) (h_rc C00 C01 C02 b0 b1 b2)
                                 (h_rc C10 C11 C12 b0 b1 b2)
                                 (h_rc C20 C21 C22 b0 b1 b2)).
Proof.
  intros HA0 HA1 HA2 HB0 HB1 HB2. unfold h_rc.
  auto_derive; [repeat split; trivial; eexists; eassumption|].
  assert (E : Derive (fun x => A0 x) 0 = a0) by (apply is_derive_unique; exact HA0); rewrite ?E; clear E.
  assert (E : Derive (fun x => A1 x) 0 = a1) by (apply is_derive_unique; exact HA1); rewrite ?E; clear E.
  assert (E : Derive (fun x => A2 x) 0 = a2) by (apply is_derive_unique; exact HA2); rewrite ?E; clear E.
  assert (E : Derive (fun x => B0 x) 0 = b0) by (apply is_derive_unique; exact HB0); rewrite ?E; clear E.
  assert (E : Derive (fun x => B1 x) 0 = b1) by (apply is_derive_unique; exact HB1); rewrite ?E; clear E.
  assert (E : Derive (fun x => B2 x) 0 = b2) by (apply is_derive_unique; exact HB2); rewrite ?E; clear E.
  ring.
Qed.

(** * 4. step_zero: a step of zero length with zero increments returns the state *)

Section Zero.
Variables lat lon alt VN VE VD C00 C01 C02 C10 C11 C12 C20 C21 C22 : R.
Notation ZERO f := (f 0 lat lon alt VN VE VD C00 C01 C02 C10 C11 C12 C20 C21 C22 0 0 0 0 0 0) (only parsing).

Ltac zero_pv := unfold h_newlat, h_newlon, h_newalt, h_newVN, h_newVE, h_newVD, h_dvn; ring_div.

Lemma hand_VN_zero : ZERO hand_VN = VN.
Proof. unfold hand_VN. zero_pv. Qed.
Lemma hand_VE_zero : ZERO hand_VE = VE.
Proof. unfold hand_VE. zero_pv. Qed.
Lemma hand_VD_zero : ZERO hand_VD = VD.
Proof. unfold hand_VD. zero_pv. Qed.
Lemma hand_lat_zero : ZERO hand_lat = lat.
Proof. unfold hand_lat. zero_pv. Qed.
Lemma hand_lon_zero : ZERO hand_lon = lon.
Proof. unfold hand_lon. zero_pv. Qed.
Lemma hand_alt_zero : ZERO hand_alt = alt.
Proof. unfold hand_alt. zero_pv. Qed.
Lemma hand_xi1_zero : ZERO hand_xi1 = 0.
Proof. unfold hand_xi1, h_xi1. ring. Qed.
Lemma hand_xi2_zero : ZERO hand_xi2 = 0.
Proof. unfold hand_xi2, h_xi2. ring. Qed.
Lemma hand_xi3_zero : ZERO hand_xi3 = 0.
Proof. unfold hand_xi3, h_xi3. ring. Qed.

Ltac zero_att :=
  rewrite hand_xi1_zero, hand_xi2_zero, hand_xi3_zero; unfold h_att, h_rc;
  destruct mfr_at_0 as [E00 [E01 [E02 [E10 [E11 [E12 [E20 [E21 E22]]]]]]]];
  rewrite ?E00, ?E01, ?E02, ?E10, ?E11, ?E12, ?E20, ?E21, ?E22; ring.

Lemma hand_C_zero :
  ZERO hand_C00 = C00 /\ ZERO hand_C01 = C01 /\ ZERO hand_C02 = C02 /\
  ZERO hand_C10 = C10 /\ ZERO hand_C11 = C11 /\ ZERO hand_C12 = C12 /\
  ZERO hand_C20 = C20 /\ ZERO hand_C21 = C21 /\ ZERO hand_C22 = C22.
Proof.
  unfold hand_C00, hand_C01, hand_C02, hand_C10, hand_C11, hand_C12, hand_C20, hand_C21, hand_C22.
  repeat split; zero_att.
Qed.
End Zero.

Lemma step_zero (lat lon alt VN VE VD C00 C01 C02 C10 C11 C12 C20 C21 C22 : R) :
  step3d_lat 0 lat lon alt VN VE VD C00 C01 C02 C10 C11 C12 C20 C21 C22 0 0 0 0 0 0 = lat /\
  step3d_lon 0 lat lon alt VN VE VD C00 C01 C02 C10 C11 C12 C20 C21 C22 0 0 0 0 0 0 = lon /\
  step3d_alt 0 lat lon alt VN VE VD C00 C01 C02 C10 C11 C12 C20 C21 C22 0 0 0 0 0 0 = alt /\
  step3d_VN 0 lat lon alt VN VE VD C00 C01 C02 C10 C11 C12 C20 C21 C22 0 0 0 0 0 0 = VN /\
  step3d_VE 0 lat lon alt VN VE VD C00 C01 C02 C10 C11 C12 C20 C21 C22 0 0 0 0 0 0 = VE /\
  step3d_VD 0 lat lon alt VN VE VD C00 C01 C02 C10 C11 C12 C20 C21 C22 0 0 0 0 0 0 = VD /\
  step3d_C00 0 lat lon alt VN VE VD C00 C01 C02 C10 C11 C12 C20 C21 C22 0 0 0 0 0 0 = C00 /\
  step3d_C01 0 lat lon alt VN VE VD C00 C01 C02 C10 C11 C12 C20 C21 C22 0 0 0 0 0 0 = C01 /\
  step3d_C02 0 lat lon alt VN VE VD C00 C01 C02 C10 C11 C12 C20 C21 C22 0 0 0 0 0 0 = C02 /\
  step3d_C10 0 lat lon alt VN VE VD C00 C01 C02 C10 C11 C12 C20 C21 C22 0 0 0 0 0 0 = C10 /\
  step3d_C11 0 lat lon alt VN VE VD C00 C01 C02 C10 C11 C12 C20 C21 C22 0 0 0 0 0 0 = C11 /\
  step3d_C12 0 lat lon alt VN VE VD C00 C01 C02 C10 C11 C12 C20 C21 C22 0 0 0 0 0 0 = C12 /\
  step3d_C20 0 lat lon alt VN VE VD C00 C01 C02 C10 C11 C12 C20 C21 C22 0 0 0 0 0 0 = C20 /\
  step3d_C21 0 lat lon alt VN VE VD C00 C01 C02 C10 C11 C12 C20 C21 C22 0 0 0 0 0 0 = C21 /\
  step3d_C22 0 lat lon alt VN VE VD C00 C01 C02 C10 C11 C12 C20 C21 C22 0 0 0 0 0 0 = C22.
Proof.
  rewrite step3d_lat_char, step3d_lon_char, step3d_alt_char, step3d_VN_char, step3d_VE_char, step3d_VD_char,
    step3d_C00_char, step3d_C01_char, step3d_C02_char, step3d_C10_char, step3d_C11_char, step3d_C12_char,
    step3d_C20_char, step3d_C21_char, step3d_C22_char.
  rewrite hand_lat_zero, hand_lon_zero, hand_alt_zero, hand_VN_zero, hand_VE_zero, hand_VD_zero.
  pose proof (hand_C_zero lat lon alt VN VE VD C00 C01 C02 C10 C11 C12 C20 C21 C22) as H.
  repeat split; try reflexivity; apply H.
Qed.
(** * 5. step_consistent: first-order consistency with the navigation ODE *)

Section Consistent.
Variables lat lon alt VN VE VD C00 C01 C02 C10 C11 C12 C20 C21 C22 w0 w1 w2 f0 f1 f2 : R.
Variables th0 th1 th2 dv0 dv1 dv2 : R -> R.
Hypothesis Hlat : -90 < lat < 90.
Hypothesis Halt : -1000000 <= alt.
Hypothesis Hth0 : th0 0 = 0.
Hypothesis Hth1 : th1 0 = 0.
Hypothesis Hth2 : th2 0 = 0.
Hypothesis Hdv0 : dv0 0 = 0.
Hypothesis Hdv1 : dv1 0 = 0.
Hypothesis Hdv2 : dv2 0 = 0.
Hypothesis Dth0 : is_derive th0 0 w0.
Hypothesis Dth1 : is_derive th1 0 w1.
Hypothesis Dth2 : is_derive th2 0 w2.
Hypothesis Ddv0 : is_derive dv0 0 f0.
Hypothesis Ddv1 : is_derive dv1 0 f1.
Hypothesis Ddv2 : is_derive dv2 0 f2.

Notation CURVE f :=
  (fun dt : R => f dt lat lon alt VN VE VD C00 C01 C02 C10 C11 C12 C20 C21 C22
                   (th0 dt) (th1 dt) (th2 dt) (dv0 dt) (dv1 dt) (dv2 dt)) (only parsing).
Notation RHS f := (f lat lon alt VN VE VD C00 C01 C02 C10 C11 C12 C20 C21 C22 w0 w1 w2 f0 f1 f2) (only parsing).

(* expose the dependence on dt, keep the slow quantities (h_rn, h_re, h_cos, h_chi at the old
   velocity, h_g0, ...) folded: they are constants for auto_derive *)
Ltac unf_fast :=
  unfold hand_lat, hand_lon, hand_alt, hand_xi1, hand_xi2, hand_xi3, hand_VNa, hand_VEa, hand_VDa,
    hand_VN, hand_VE, hand_VD,
    h_newlat, h_newlon, h_newalt, h_avg, h_newVN, h_newVE, h_newVD, h_dvn, h_xi1, h_xi2, h_xi3, h_gravity.

(* side conditions of auto_derive: differentiability of the curves, non-zero denominators *)
Ltac side :=
  pose proof (h_rn_pos lat alt Halt); pose proof (h_re_pos lat alt Halt); pose proof (h_cos_pos lat Hlat);
  repeat split; trivial;
  try (eexists; eassumption); try (apply Rgt_not_eq; assumption).

Ltac to_spec :=
  let E := fresh "E" in
  assert (E : Derive (fun x => dv0 x) 0 = f0) by (apply is_derive_unique; exact Ddv0); rewrite ?E; clear E;
  assert (E : Derive (fun x => dv1 x) 0 = f1) by (apply is_derive_unique; exact Ddv1); rewrite ?E; clear E;
  assert (E : Derive (fun x => dv2 x) 0 = f2) by (apply is_derive_unique; exact Ddv2); rewrite ?E; clear E;
  rewrite ?Hdv0, ?Hdv1, ?Hdv2;
  unfold h_chi1, h_chi2, h_chi3;
  rewrite ?(h_rho1_eq lat alt VN VE), ?(h_rho2_eq lat alt VN VE), ?(h_rho3_eq lat alt VN VE Hlat),
          ?(h_Om1_eq lat Hlat), ?h_Om2_eq, ?h_Om3_eq.

Ltac nz := repeat split; try (apply Rgt_not_eq; assumption); try apply PI_neq0; try (unfold A_; lra).

Lemma d_hand_VN : is_derive (CURVE hand_VN) 0 (RHS nav_rhs_VN).
Proof.
  unf_fast. auto_derive; [side|]. to_spec.
  unfold nav_rhs_VN, nav_cor_N, nav_cor_E, nav_cor_D, cross0, dot3. field.
Qed.
Lemma d_hand_VE : is_derive (CURVE hand_VE) 0 (RHS nav_rhs_VE).
Proof.
  unf_fast. auto_derive; [side|]. to_spec.
  unfold nav_rhs_VE, nav_cor_N, nav_cor_E, nav_cor_D, cross1, dot3. field.
Qed.
Lemma d_hand_VD : is_derive (CURVE hand_VD) 0 (RHS nav_rhs_VD).
Proof.
  unf_fast. auto_derive; [side|]. to_spec.
  unfold nav_rhs_VD, nav_cor_N, nav_cor_E, nav_cor_D, cross2, dot3.
  rewrite <- h_gravity_eq. unfold h_gravity. field. nz.
Qed.
Lemma d_hand_alt : is_derive (CURVE hand_alt) 0 (RHS nav_rhs_alt).
Proof.
  unf_fast. auto_derive; [side|]. to_spec. unfold nav_rhs_alt. field. nz.
Qed.
Lemma d_hand_lat : is_derive (CURVE hand_lat) 0 (RHS nav_rhs_lat).
Proof.
  unf_fast. unfold h_rho2. auto_derive; [side|]. to_spec. unfold nav_rhs_lat, r2d.
  rewrite <- (h_rn_eq lat alt). pose proof (h_rn_pos lat alt Halt). field. nz.
Qed.
Lemma d_hand_lon : is_derive (CURVE hand_lon) 0 (RHS nav_rhs_lon).
Proof.
  unf_fast. unfold h_rho1. auto_derive; [side|]. to_spec. unfold nav_rhs_lon, r2d.
  rewrite <- (h_re_eq lat alt), <- (h_cos_eq lat Hlat).
  pose proof (h_re_pos lat alt Halt). pose proof (h_cos_pos lat Hlat). field. nz.
Qed.

(* the rotation vector of the navigation frame: xi(0) = 0, xi'(0) = - (Omega + rho) *)
Lemma d_hand_xi1 : is_derive (CURVE hand_xi1) 0 (- nav_om_N lat alt VN VE).
Proof.
  unf_fast. unfold h_chi1 at 1. unfold h_rho1 at 1. auto_derive; [side|]. to_spec.
  unfold nav_om_N. rewrite <- (h_rho1_eq lat alt VN VE). unfold h_rho1.
  pose proof (h_re_pos lat alt Halt). field. nz.
Qed.
Lemma d_hand_xi2 : is_derive (CURVE hand_xi2) 0 (- nav_om_E lat alt VN VE).
Proof.
  unf_fast. unfold h_chi2 at 1. unfold h_rho2 at 1. auto_derive; [side|]. to_spec.
  unfold nav_om_E. rewrite <- (h_rho2_eq lat alt VN VE). unfold h_rho2.
  pose proof (h_rn_pos lat alt Halt). field. nz.
Qed.
Lemma d_hand_xi3 : is_derive (CURVE hand_xi3) 0 (- nav_om_D lat alt VN VE).
Proof.
  unf_fast. unfold h_chi3 at 1. unfold h_rho3 at 1. unfold h_rho1 at 1. auto_derive; [side|]. to_spec.
  unfold nav_om_D. rewrite <- (h_rho3_eq lat alt VN VE Hlat). unfold h_rho3, h_rho1.
  pose proof (h_re_pos lat alt Halt). field. nz.
Qed.

Lemma hand_xi_dt0 :
  (CURVE hand_xi1) 0 = 0 /\ (CURVE hand_xi2) 0 = 0 /\ (CURVE hand_xi3) 0 = 0.
Proof. cbv beta. unfold hand_xi1, hand_xi2, hand_xi3, h_xi1, h_xi2, h_xi3. repeat split; ring. Qed.

(* the six curves entering an attitude entry: row i of dBn(t) = R(xi(t)), column j of dBb(t) = R(theta(t)) *)
Ltac att_entry Ma Mb Mc Mx My Mz da db dc dx dy dz :=
  destruct hand_xi_dt0 as [X1 [X2 X3]];
  pose proof (da _ _ _ _ _ _ X1 X2 X3 d_hand_xi1 d_hand_xi2 d_hand_xi3) as DA;
  pose proof (db _ _ _ _ _ _ X1 X2 X3 d_hand_xi1 d_hand_xi2 d_hand_xi3) as DB;
  pose proof (dc _ _ _ _ _ _ X1 X2 X3 d_hand_xi1 d_hand_xi2 d_hand_xi3) as DC;
  pose proof (dx _ _ _ _ _ _ Hth0 Hth1 Hth2 Dth0 Dth1 Dth2) as DX;
  pose proof (dy _ _ _ _ _ _ Hth0 Hth1 Hth2 Dth0 Dth1 Dth2) as DY;
  pose proof (dz _ _ _ _ _ _ Hth0 Hth1 Hth2 Dth0 Dth1 Dth2) as DZ;
  pose proof (att_product_deriv _ _ _ _ _ _ _ _ _ _ _ _ C00 C01 C02 C10 C11 C12 C20 C21 C22 DA DB DC DX DY DZ) as P;
  cbv beta in P; cbv beta in X1, X2, X3;
  rewrite X1, X2, X3, Hth0, Hth1, Hth2 in P;
  destruct mfr_at_0 as [E00 [E01 [E02 [E10 [E11 [E12 [E20 [E21 E22]]]]]]]];
  rewrite ?E00, ?E01, ?E02, ?E10, ?E11, ?E12, ?E20, ?E21, ?E22 in P;
  unfold h_att;
  evar_last; [exact P|];
  unfold h_rc, dot3, skew00, skew01, skew02, skew10, skew11, skew12, skew20, skew21, skew22; ring.

Lemma d_hand_C00 : is_derive (CURVE hand_C00) 0 (RHS nav_rhs_C00).
Proof.
  unfold hand_C00, nav_rhs_C00.
  att_entry mat_from_rotvec_m00 mat_from_rotvec_m01 mat_from_rotvec_m02 mat_from_rotvec_m00 mat_from_rotvec_m10 mat_from_rotvec_m20
            mfr_m00_near0 mfr_m01_near0 mfr_m02_near0 mfr_m00_near0 mfr_m10_near0 mfr_m20_near0.
Qed.
Lemma d_hand_C01 : is_derive (CURVE hand_C01) 0 (RHS nav_rhs_C01).
Proof.
  unfold hand_C01, nav_rhs_C01.
  att_entry mat_from_rotvec_m00 mat_from_rotvec_m01 mat_from_rotvec_m02 mat_from_rotvec_m01 mat_from_rotvec_m11 mat_from_rotvec_m21
            mfr_m00_near0 mfr_m01_near0 mfr_m02_near0 mfr_m01_near0 mfr_m11_near0 mfr_m21_near0.
Qed.
Lemma d_hand_C02 : is_derive (CURVE hand_C02) 0 (RHS nav_rhs_C02).
Proof.
  unfold hand_C02, nav_rhs_C02.
  att_entry mat_from_rotvec_m00 mat_from_rotvec_m01 mat_from_rotvec_m02 mat_from_rotvec_m02 mat_from_rotvec_m12 mat_from_rotvec_m22
            mfr_m00_near0 mfr_m01_near0 mfr_m02_near0 mfr_m02_near0 mfr_m12_near0 mfr_m22_near0.
Qed.
Lemma d_hand_C10 : is_derive (CURVE hand_C10) 0 (RHS nav_rhs_C10).
Proof.
  unfold hand_C10, nav_rhs_C10.
  att_entry mat_from_rotvec_m10 mat_from_rotvec_m11 mat_from_rotvec_m12 mat_from_rotvec_m00 mat_from_rotvec_m10 mat_from_rotvec_m20
            mfr_m10_near0 mfr_m11_near0 mfr_m12_near0 mfr_m00_near0 mfr_m10_near0 mfr_m20_near0.
Qed.
Lemma d_hand_C11 : is_derive (CURVE hand_C11) 0 (RHS nav_rhs_C11).
Proof.
  unfold hand_C11, nav_rhs_C11.
  att_entry mat_from_rotvec_m10 mat_from_rotvec_m11 mat_from_rotvec_m12 mat_from_rotvec_m01 mat_from_rotvec_m11 mat_from_rotvec_m21
            mfr_m10_near0 mfr_m11_near0 mfr_m12_near0 mfr_m01_near0 mfr_m11_near0 mfr_m21_near0.
Qed.
Lemma d_hand_C12 : is_derive (CURVE hand_C12) 0 (RHS nav_rhs_C12).
Proof.
  unfold hand_C12, nav_rhs_C12.
  att_entry mat_from_rotvec_m10 mat_from_rotvec_m11 mat_from_rotvec_m12 mat_from_rotvec_m02 mat_from_rotvec_m12 mat_from_rotvec_m22
            mfr_m10_near0 mfr_m11_near0 mfr_m12_near0 mfr_m02_near0 mfr_m12_near0 mfr_m22_near0.
Qed.
Lemma d_hand_C20 : is_derive (CURVE hand_C20) 0 (RHS nav_rhs_C20).
Proof.
  unfold hand_C20, nav_rhs_C20.
  att_entry mat_from_rotvec_m20 mat_from_rotvec_m21 mat_from_rotvec_m22 mat_from_rotvec_m00 mat_from_rotvec_m10 mat_from_rotvec_m20
            mfr_m20_near0 mfr_m21_near0 mfr_m22_near0 mfr_m00_near0 mfr_m10_near0 mfr_m20_near0.
Qed.
Lemma d_hand_C21 : is_derive (CURVE hand_C21) 0 (RHS nav_rhs_C21).
Proof.
  unfold hand_C21, nav_rhs_C21.
  att_entry mat_from_rotvec_m20 mat_from_rotvec_m21 mat_from_rotvec_m22 mat_from_rotvec_m01 mat_from_rotvec_m11 mat_from_rotvec_m21
            mfr_m20_near0 mfr_m21_near0 mfr_m22_near0 mfr_m01_near0 mfr_m11_near0 mfr_m21_near0.
Qed.
Lemma d_hand_C22 : is_derive (CURVE hand_C22) 0 (RHS nav_rhs_C22).
Proof.
  unfold hand_C22, nav_rhs_C22.
  att_entry mat_from_rotvec_m20 mat_from_rotvec_m21 mat_from_rotvec_m22 mat_from_rotvec_m02 mat_from_rotvec_m12 mat_from_rotvec_m22
            mfr_m20_near0 mfr_m21_near0 mfr_m22_near0 mfr_m02_near0 mfr_m12_near0 mfr_m22_near0.
Qed.
End Consistent.

(** the statements about the GENERATED step (closed, outside the section) *)
Ltac via_hand char dlem :=
  eapply is_derive_ext; [ intro t; symmetry; apply char | eapply dlem; eassumption ].

Lemma step_consistent_position (lat lon alt VN VE VD C00 C01 C02 C10 C11 C12 C20 C21 C22 w0 w1 w2 f0 f1 f2 : R)
      (th0 th1 th2 dv0 dv1 dv2 : R -> R) :
  -90 < lat < 90 -> -1000000 <= alt ->
  th0 0 = 0 -> th1 0 = 0 -> th2 0 = 0 -> dv0 0 = 0 -> dv1 0 = 0 -> dv2 0 = 0 ->
  is_derive th0 0 w0 -> is_derive th1 0 w1 -> is_derive th2 0 w2 ->
  is_derive dv0 0 f0 -> is_derive dv1 0 f1 -> is_derive dv2 0 f2 ->
  is_derive (fun dt => step3d_lat dt lat lon alt VN VE VD C00 C01 C02 C10 C11 C12 C20 C21 C22 (th0 dt) (th1 dt) (th2 dt) (dv0 dt) (dv1 dt) (dv2 dt)) 0
    (nav_rhs_lat lat lon alt VN VE VD C00 C01 C02 C10 C11 C12 C20 C21 C22 w0 w1 w2 f0 f1 f2) /\
  is_derive (fun dt => step3d_lon dt lat lon alt VN VE VD C00 C01 C02 C10 C11 C12 C20 C21 C22 (th0 dt) (th1 dt) (th2 dt) (dv0 dt) (dv1 dt) (dv2 dt)) 0
    (nav_rhs_lon lat lon alt VN VE VD C00 C01 C02 C10 C11 C12 C20 C21 C22 w0 w1 w2 f0 f1 f2) /\
  is_derive (fun dt => step3d_alt dt lat lon alt VN VE VD C00 C01 C02 C10 C11 C12 C20 C21 C22 (th0 dt) (th1 dt) (th2 dt) (dv0 dt) (dv1 dt) (dv2 dt)) 0
    (nav_rhs_alt lat lon alt VN VE VD C00 C01 C02 C10 C11 C12 C20 C21 C22 w0 w1 w2 f0 f1 f2).
Proof.
  intros Hlat Halt Hth0 Hth1 Hth2 Hdv0 Hdv1 Hdv2 Dth0 Dth1 Dth2 Ddv0 Ddv1 Ddv2.
  split; [|split; [|]].
  - via_hand step3d_lat_char d_hand_lat.
  - via_hand step3d_lon_char d_hand_lon.
  - via_hand step3d_alt_char d_hand_alt.
Qed.

Lemma step_consistent_velocity (lat lon alt VN VE VD C00 C01 C02 C10 C11 C12 C20 C21 C22 w0 w1 w2 f0 f1 f2 : R)
      (th0 th1 th2 dv0 dv1 dv2 : R -> R) :
  -90 < lat < 90 -> -1000000 <= alt ->
  th0 0 = 0 -> th1 0 = 0 -> th2 0 = 0 -> dv0 0 = 0 -> dv1 0 = 0 -> dv2 0 = 0 ->
  is_derive th0 0 w0 -> is_derive th1 0 w1 -> is_derive th2 0 w2 ->
  is_derive dv0 0 f0 -> is_derive dv1 0 f1 -> is_derive dv2 0 f2 ->
  is_derive (fun dt => step3d_VN dt lat lon alt VN VE VD C00 C01 C02 C10 C11 C12 C20 C21 C22 (th0 dt) (th1 dt) (th2 dt) (dv0 dt) (dv1 dt) (dv2 dt)) 0
    (nav_rhs_VN lat lon alt VN VE VD C00 C01 C02 C10 C11 C12 C20 C21 C22 w0 w1 w2 f0 f1 f2) /\
  is_derive (fun dt => step3d_VE dt lat lon alt VN VE VD C00 C01 C02 C10 C11 C12 C20 C21 C22 (th0 dt) (th1 dt) (th2 dt) (dv0 dt) (dv1 dt) (dv2 dt)) 0
    (nav_rhs_VE lat lon alt VN VE VD C00 C01 C02 C10 C11 C12 C20 C21 C22 w0 w1 w2 f0 f1 f2) /\
  is_derive (fun dt => step3d_VD dt lat lon alt VN VE VD C00 C01 C02 C10 C11 C12 C20 C21 C22 (th0 dt) (th1 dt) (th2 dt) (dv0 dt) (dv1 dt) (dv2 dt)) 0
    (nav_rhs_VD lat lon alt VN VE VD C00 C01 C02 C10 C11 C12 C20 C21 C22 w0 w1 w2 f0 f1 f2).
Proof.
  intros Hlat Halt Hth0 Hth1 Hth2 Hdv0 Hdv1 Hdv2 Dth0 Dth1 Dth2 Ddv0 Ddv1 Ddv2.
  split; [|split; [|]].
  - via_hand step3d_VN_char d_hand_VN.
  - via_hand step3d_VE_char d_hand_VE.
  - via_hand step3d_VD_char d_hand_VD.
Qed.

Lemma step_consistent_attitude (lat lon alt VN VE VD C00 C01 C02 C10 C11 C12 C20 C21 C22 w0 w1 w2 f0 f1 f2 : R)
      (th0 th1 th2 dv0 dv1 dv2 : R -> R) :
  -90 < lat < 90 -> -1000000 <= alt ->
  th0 0 = 0 -> th1 0 = 0 -> th2 0 = 0 -> dv0 0 = 0 -> dv1 0 = 0 -> dv2 0 = 0 ->
  is_derive th0 0 w0 -> is_derive th1 0 w1 -> is_derive th2 0 w2 ->
  is_derive dv0 0 f0 -> is_derive dv1 0 f1 -> is_derive dv2 0 f2 ->
  is_derive (fun dt => step3d_C00 dt lat lon alt VN VE VD C00 C01 C02 C10 C11 C12 C20 C21 C22 (th0 dt) (th1 dt) (th2 dt) (dv0 dt) (dv1 dt) (dv2 dt)) 0
    (nav_rhs_C00 lat lon alt VN VE VD C00 C01 C02 C10 C11 C12 C20 C21 C22 w0 w1 w2 f0 f1 f2) /\
  is_derive (fun dt => step3d_C01 dt lat lon alt VN VE VD C00 C01 C02 C10 C11 C12 C20 C21 C22 (th0 dt) (th1 dt) (th2 dt) (dv0 dt) (dv1 dt) (dv2 dt)) 0
    (nav_rhs_C01 lat lon alt VN VE VD C00 C01 C02 C10 C11 C12 C20 C21 C22 w0 w1 w2 f0 f1 f2) /\
  is_derive (fun dt => step3d_C02 dt lat lon alt VN VE VD C00 C01 C02 C10 C11 C12 C20 C21 C22 (th0 dt) (th1 dt) (th2 dt) (dv0 dt) (dv1 dt) (dv2 dt)) 0
    (nav_rhs_C02 lat lon alt VN VE VD C00 C01 C02 C10 C11 C12 C20 C21 C22 w0 w1 w2 f0 f1 f2) /\
  is_derive (fun dt => step3d_C10 dt lat lon alt VN VE VD C00 C01 C02 C10 C11 C12 C20 C21 C22 (th0 dt) (th1 dt) (th2 dt) (dv0 dt) (dv1 dt) (dv2 dt)) 0
    (nav_rhs_C10 lat lon alt VN VE VD C00 C01 C02 C10 C11 C12 C20 C21 C22 w0 w1 w2 f0 f1 f2) /\
  is_derive (fun dt => step3d_C11 dt lat lon alt VN VE VD C00 C01 C02 C10 C11 C12 C20 C21 C22 (th0 dt) (th1 dt) (th2 dt) (dv0 dt) (dv1 dt) (dv2 dt)) 0
    (nav_rhs_C11 lat lon alt VN VE VD C00 C01 C02 C10 C11 C12 C20 C21 C22 w0 w1 w2 f0 f1 f2) /\
  is_derive (fun dt => step3d_C12 dt lat lon alt VN VE VD C00 C01 C02 C10 C11 C12 C20 C21 C22 (th0 dt) (th1 dt) (th2 dt) (dv0 dt) (dv1 dt) (dv2 dt)) 0
    (nav_rhs_C12 lat lon alt VN VE VD C00 C01 C02 C10 C11 C12 C20 C21 C22 w0 w1 w2 f0 f1 f2) /\
  is_derive (fun dt => step3d_C20 dt lat lon alt VN VE VD C00 C01 C02 C10 C11 C12 C20 C21 C22 (th0 dt) (th1 dt) (th2 dt) (dv0 dt) (dv1 dt) (dv2 dt)) 0
    (nav_rhs_C20 lat lon alt VN VE VD C00 C01 C02 C10 C11 C12 C20 C21 C22 w0 w1 w2 f0 f1 f2) /\
  is_derive (fun dt => step3d_C21 dt lat lon alt VN VE VD C00 C01 C02 C10 C11 C12 C20 C21 C22 (th0 dt) (th1 dt) (th2 dt) (dv0 dt) (dv1 dt) (dv2 dt)) 0
    (nav_rhs_C21 lat lon alt VN VE VD C00 C01 C02 C10 C11 C12 C20 C21 C22 w0 w1 w2 f0 f1 f2) /\
  is_derive (fun dt => step3d_C22 dt lat lon alt VN VE VD C00 C01 C02 C10 C11 C12 C20 C21 C22 (th0 dt) (th1 dt) (th2 dt) (dv0 dt) (dv1 dt) (dv2 dt)) 0
    (nav_rhs_C22 lat lon alt VN VE VD C00 C01 C02 C10 C11 C12 C20 C21 C22 w0 w1 w2 f0 f1 f2).
Proof.
  intros Hlat Halt Hth0 Hth1 Hth2 Hdv0 Hdv1 Hdv2 Dth0 Dth1 Dth2 Ddv0 Ddv1 Ddv2.
  split; [|split; [|split; [|split; [|split; [|split; [|split; [|split; [|]]]]]]]].
  - via_hand step3d_C00_char d_hand_C00.
  - via_hand step3d_C01_char d_hand_C01.
  - via_hand step3d_C02_char d_hand_C02.
  - via_hand step3d_C10_char d_hand_C10.
  - via_hand step3d_C11_char d_hand_C11.
  - via_hand step3d_C12_char d_hand_C12.
  - via_hand step3d_C20_char d_hand_C20.
  - via_hand step3d_C21_char d_hand_C21.
  - via_hand step3d_C22_char d_hand_C22.
Qed.


(** * 6. The increments computed from IMU samples satisfy the premises of step_consistent *)

(** rate-type sensor: samples are the signal values w(t), f(t) at the two ends of the interval;
    epoch = 0, interval length = dt *)
Section RateIncrements.
Variables w0 w1 w2 f0 f1 f2 : R -> R.          (* body angular rate and specific force signals *)
Variables w0' w1' w2' f0' f1' f2' : R.
Hypothesis Dw0 : is_derive w0 0 w0'.
Hypothesis Dw1 : is_derive w1 0 w1'.
Hypothesis Dw2 : is_derive w2 0 w2'.
Hypothesis Df0 : is_derive f0 0 f0'.
Hypothesis Df1 : is_derive f1 0 f1'.
Hypothesis Df2 : is_derive f2 0 f2'.

Ltac unf_inc := unfold h_rate_theta0, h_rate_theta1, h_rate_theta2, h_rate_dv0, h_rate_dv1, h_rate_dv2,
  h_rate_inc, h_cross0, h_cross1, h_cross2.
Ltac inc_deriv := unf_inc; auto_derive; [repeat split; trivial; eexists; eassumption | field].

Lemma rate_increments_zero :
  h_rate_theta0 0 (w0 0) (w1 0) (w2 0) (w0 0) (w1 0) (w2 0) = 0 /\
  h_rate_theta1 0 (w0 0) (w1 0) (w2 0) (w0 0) (w1 0) (w2 0) = 0 /\
  h_rate_theta2 0 (w0 0) (w1 0) (w2 0) (w0 0) (w1 0) (w2 0) = 0 /\
  h_rate_dv0 0 (w0 0) (w1 0) (w2 0) (w0 0) (w1 0) (w2 0) (f0 0) (f1 0) (f2 0) (f0 0) (f1 0) (f2 0) = 0 /\
  h_rate_dv1 0 (w0 0) (w1 0) (w2 0) (w0 0) (w1 0) (w2 0) (f0 0) (f1 0) (f2 0) (f0 0) (f1 0) (f2 0) = 0 /\
  h_rate_dv2 0 (w0 0) (w1 0) (w2 0) (w0 0) (w1 0) (w2 0) (f0 0) (f1 0) (f2 0) (f0 0) (f1 0) (f2 0) = 0.
Proof. unf_inc. repeat split; field. Qed.

Lemma rate_theta0_deriv :
  is_derive (fun dt => h_rate_theta0 dt (w0 0) (w1 0) (w2 0) (w0 dt) (w1 dt) (w2 dt)) 0 (w0 0).
Proof. inc_deriv. Qed.
Lemma rate_dv0_deriv :
  is_derive (fun dt => h_rate_dv0 dt (w0 0) (w1 0) (w2 0) (w0 dt) (w1 dt) (w2 dt)
                                     (f0 0) (f1 0) (f2 0) (f0 dt) (f1 dt) (f2 dt)) 0 (f0 0).
Proof. inc_deriv. Qed.
Lemma rate_theta1_deriv :
  is_derive (fun dt => h_rate_theta1 dt (w0 0) (w1 0) (w2 0) (w0 dt) (w1 dt) (w2 dt)) 0 (w1 0).
Proof. inc_deriv. Qed.
Lemma rate_dv1_deriv :
  is_derive (fun dt => h_rate_dv1 dt (w0 0) (w1 0) (w2 0) (w0 dt) (w1 dt) (w2 dt)
                                     (f0 0) (f1 0) (f2 0) (f0 dt) (f1 dt) (f2 dt)) 0 (f1 0).
Proof. inc_deriv. Qed.
Lemma rate_theta2_deriv :
  is_derive (fun dt => h_rate_theta2 dt (w0 0) (w1 0) (w2 0) (w0 dt) (w1 dt) (w2 dt)) 0 (w2 0).
Proof. inc_deriv. Qed.
Lemma rate_dv2_deriv :
  is_derive (fun dt => h_rate_dv2 dt (w0 0) (w1 0) (w2 0) (w0 dt) (w1 dt) (w2 dt)
                                     (f0 0) (f1 0) (f2 0) (f0 dt) (f1 dt) (f2 dt)) 0 (f2 0).
Proof. inc_deriv. Qed.
End RateIncrements.

(** increment-type sensor: the samples are integrals of the signals over the previous (p) and the
    current (c) interval, here as functions of the interval length dt; gc' = w(0), fc' = f(0) *)
Section IncrIncrements.
Variables gp0 gp1 gp2 gc0 gc1 gc2 fp0 fp1 fp2 fc0 fc1 fc2 : R -> R.
Variables w0 w1 w2 f0 f1 f2 : R.
Hypothesis Zgp0 : gp0 0 = 0.
Hypothesis Zgp1 : gp1 0 = 0.
Hypothesis Zgp2 : gp2 0 = 0.
Hypothesis Zgc0 : gc0 0 = 0.
Hypothesis Zgc1 : gc1 0 = 0.
Hypothesis Zgc2 : gc2 0 = 0.
Hypothesis Zfp0 : fp0 0 = 0.
Hypothesis Zfp1 : fp1 0 = 0.
Hypothesis Zfp2 : fp2 0 = 0.
Hypothesis Zfc0 : fc0 0 = 0.
Hypothesis Zfc1 : fc1 0 = 0.
Hypothesis Zfc2 : fc2 0 = 0.
Hypothesis Egp0 : ex_derive gp0 0.
Hypothesis Egp1 : ex_derive gp1 0.
Hypothesis Egp2 : ex_derive gp2 0.
Hypothesis Efp0 : ex_derive fp0 0.
Hypothesis Efp1 : ex_derive fp1 0.
Hypothesis Efp2 : ex_derive fp2 0.
Hypothesis Dgc0 : is_derive gc0 0 w0.
Hypothesis Dgc1 : is_derive gc1 0 w1.
Hypothesis Dgc2 : is_derive gc2 0 w2.
Hypothesis Dfc0 : is_derive fc0 0 f0.
Hypothesis Dfc1 : is_derive fc1 0 f1.
Hypothesis Dfc2 : is_derive fc2 0 f2.

Ltac unf_incr := unfold h_incr_theta0, h_incr_theta1, h_incr_theta2, h_incr_dv0, h_incr_dv1, h_incr_dv2,
  h_cross0, h_cross1, h_cross2.
Ltac incr_deriv_th :=
  unf_incr; auto_derive; [repeat split; trivial; eexists; eassumption|];
  let E := fresh "E" in
  assert (E : Derive (fun x => gc0 x) 0 = w0) by (apply is_derive_unique; exact Dgc0); rewrite ?E; clear E;
  assert (E : Derive (fun x => gc1 x) 0 = w1) by (apply is_derive_unique; exact Dgc1); rewrite ?E; clear E;
  assert (E : Derive (fun x => gc2 x) 0 = w2) by (apply is_derive_unique; exact Dgc2); rewrite ?E; clear E;
  rewrite ?Zgp0, ?Zgp1, ?Zgp2, ?Zgc0, ?Zgc1, ?Zgc2; field.
Ltac incr_deriv_dv :=
  unf_incr; auto_derive; [repeat split; trivial; eexists; eassumption|];
  let E := fresh "E" in
  assert (E : Derive (fun x => gc0 x) 0 = w0) by (apply is_derive_unique; exact Dgc0); rewrite ?E; clear E;
  assert (E : Derive (fun x => gc1 x) 0 = w1) by (apply is_derive_unique; exact Dgc1); rewrite ?E; clear E;
  assert (E : Derive (fun x => gc2 x) 0 = w2) by (apply is_derive_unique; exact Dgc2); rewrite ?E; clear E;
  assert (E : Derive (fun x => fc0 x) 0 = f0) by (apply is_derive_unique; exact Dfc0); rewrite ?E; clear E;
  assert (E : Derive (fun x => fc1 x) 0 = f1) by (apply is_derive_unique; exact Dfc1); rewrite ?E; clear E;
  assert (E : Derive (fun x => fc2 x) 0 = f2) by (apply is_derive_unique; exact Dfc2); rewrite ?E; clear E;
  rewrite ?Zgp0, ?Zgp1, ?Zgp2, ?Zgc0, ?Zgc1, ?Zgc2, ?Zfp0, ?Zfp1, ?Zfp2, ?Zfc0, ?Zfc1, ?Zfc2; field.

Lemma incr_increments_zero :
  h_incr_theta0 (gp0 0) (gp1 0) (gp2 0) (gc0 0) (gc1 0) (gc2 0) = 0 /\
  h_incr_theta1 (gp0 0) (gp1 0) (gp2 0) (gc0 0) (gc1 0) (gc2 0) = 0 /\
  h_incr_theta2 (gp0 0) (gp1 0) (gp2 0) (gc0 0) (gc1 0) (gc2 0) = 0 /\
  h_incr_dv0 (gp0 0) (gp1 0) (gp2 0) (gc0 0) (gc1 0) (gc2 0) (fp0 0) (fp1 0) (fp2 0) (fc0 0) (fc1 0) (fc2 0) = 0 /\
  h_incr_dv1 (gp0 0) (gp1 0) (gp2 0) (gc0 0) (gc1 0) (gc2 0) (fp0 0) (fp1 0) (fp2 0) (fc0 0) (fc1 0) (fc2 0) = 0 /\
  h_incr_dv2 (gp0 0) (gp1 0) (gp2 0) (gc0 0) (gc1 0) (gc2 0) (fp0 0) (fp1 0) (fp2 0) (fc0 0) (fc1 0) (fc2 0) = 0.
Proof.
  rewrite Zgp0, Zgp1, Zgp2, Zgc0, Zgc1, Zgc2, Zfp0, Zfp1, Zfp2, Zfc0, Zfc1, Zfc2.
  unf_incr. repeat split; field.
Qed.
Lemma incr_theta0_deriv :
  is_derive (fun dt => h_incr_theta0 (gp0 dt) (gp1 dt) (gp2 dt) (gc0 dt) (gc1 dt) (gc2 dt)) 0 w0.
Proof. incr_deriv_th. Qed.
Lemma incr_dv0_deriv :
  is_derive (fun dt => h_incr_dv0 (gp0 dt) (gp1 dt) (gp2 dt) (gc0 dt) (gc1 dt) (gc2 dt)
                                   (fp0 dt) (fp1 dt) (fp2 dt) (fc0 dt) (fc1 dt) (fc2 dt)) 0 f0.
Proof. incr_deriv_dv. Qed.
Lemma incr_theta1_deriv :
  is_derive (fun dt => h_incr_theta1 (gp0 dt) (gp1 dt) (gp2 dt) (gc0 dt) (gc1 dt) (gc2 dt)) 0 w1.
Proof. incr_deriv_th. Qed.
Lemma incr_dv1_deriv :
  is_derive (fun dt => h_incr_dv1 (gp0 dt) (gp1 dt) (gp2 dt) (gc0 dt) (gc1 dt) (gc2 dt)
                                   (fp0 dt) (fp1 dt) (fp2 dt) (fc0 dt) (fc1 dt) (fc2 dt)) 0 f1.
Proof. incr_deriv_dv. Qed.
Lemma incr_theta2_deriv :
  is_derive (fun dt => h_incr_theta2 (gp0 dt) (gp1 dt) (gp2 dt) (gc0 dt) (gc1 dt) (gc2 dt)) 0 w2.
Proof. incr_deriv_th. Qed.
Lemma incr_dv2_deriv :
  is_derive (fun dt => h_incr_dv2 (gp0 dt) (gp1 dt) (gp2 dt) (gc0 dt) (gc1 dt) (gc2 dt)
                                   (fp0 dt) (fp1 dt) (fp2 dt) (fc0 dt) (fc1 dt) (fc2 dt)) 0 f2.
Proof. incr_deriv_dv. Qed.
End IncrIncrements.

(** integrals of a signal with antiderivative W over the current interval [0, dt] and over the
    previous interval [-dt, 0] are curves of the kind assumed above *)
Lemma integral_sample_current (W : R -> R) (w : R) :
  is_derive W 0 w -> h_cur W 0 = 0 /\ is_derive (h_cur W) 0 w.
Proof.
  intro D. unfold h_cur. split; [ring|].
  auto_derive; [eexists; eassumption|].
  assert (E : Derive (fun x => W x) 0 = w) by (apply is_derive_unique; exact D). rewrite E. ring.
Qed.
Lemma integral_sample_previous (W : R -> R) (w : R) :
  is_derive W 0 w -> h_prv W 0 = 0 /\ ex_derive (h_prv W) 0.
Proof.
  intro D. unfold h_prv. split; [rewrite Ropp_0; ring|].
  auto_derive. rewrite Ropp_0. eexists; eassumption.
Qed.

(** closed statements *)
Lemma increments_consistent_rate (w0 w1 w2 f0 f1 f2 : R -> R) :
  ex_derive w0 0 -> ex_derive w1 0 -> ex_derive w2 0 ->
  ex_derive f0 0 -> ex_derive f1 0 -> ex_derive f2 0 ->
  let th0 := fun dt => h_rate_theta0 dt (w0 0) (w1 0) (w2 0) (w0 dt) (w1 dt) (w2 dt) in
  let th1 := fun dt => h_rate_theta1 dt (w0 0) (w1 0) (w2 0) (w0 dt) (w1 dt) (w2 dt) in
  let th2 := fun dt => h_rate_theta2 dt (w0 0) (w1 0) (w2 0) (w0 dt) (w1 dt) (w2 dt) in
  let dv0 := fun dt => h_rate_dv0 dt (w0 0) (w1 0) (w2 0) (w0 dt) (w1 dt) (w2 dt) (f0 0) (f1 0) (f2 0) (f0 dt) (f1 dt) (f2 dt) in
  let dv1 := fun dt => h_rate_dv1 dt (w0 0) (w1 0) (w2 0) (w0 dt) (w1 dt) (w2 dt) (f0 0) (f1 0) (f2 0) (f0 dt) (f1 dt) (f2 dt) in
  let dv2 := fun dt => h_rate_dv2 dt (w0 0) (w1 0) (w2 0) (w0 dt) (w1 dt) (w2 dt) (f0 0) (f1 0) (f2 0) (f0 dt) (f1 dt) (f2 dt) in
  (th0 0 = 0 /\ th1 0 = 0 /\ th2 0 = 0 /\ dv0 0 = 0 /\ dv1 0 = 0 /\ dv2 0 = 0) /\
  (is_derive th0 0 (w0 0) /\ is_derive th1 0 (w1 0) /\ is_derive th2 0 (w2 0)) /\
  (is_derive dv0 0 (f0 0) /\ is_derive dv1 0 (f1 0) /\ is_derive dv2 0 (f2 0)).
Proof.
  intros [w0' Dw0] [w1' Dw1] [w2' Dw2] [f0' Df0] [f1' Df1] [f2' Df2]. cbv zeta.
  split; [exact (rate_increments_zero w0 w1 w2 f0 f1 f2) | split; (split; [|split])].
  - eapply rate_theta0_deriv; eassumption.
  - eapply rate_theta1_deriv; eassumption.
  - eapply rate_theta2_deriv; eassumption.
  - eapply rate_dv0_deriv; eassumption.
  - eapply rate_dv1_deriv; eassumption.
  - eapply rate_dv2_deriv; eassumption.
Qed.

Lemma increments_consistent_increment (G0 G1 G2 F0 F1 F2 : R -> R) (w0 w1 w2 f0 f1 f2 : R) :
  is_derive G0 0 w0 -> is_derive G1 0 w1 -> is_derive G2 0 w2 ->
  is_derive F0 0 f0 -> is_derive F1 0 f1 -> is_derive F2 0 f2 ->
  let cur := h_cur in       (* cur W dt = integral of W' over [0, dt] *)
  let prv := h_prv in       (* prv W dt = integral of W' over [-dt, 0] *)
  let th0 := fun dt => h_incr_theta0 (prv G0 dt) (prv G1 dt) (prv G2 dt) (cur G0 dt) (cur G1 dt) (cur G2 dt) in
  let th1 := fun dt => h_incr_theta1 (prv G0 dt) (prv G1 dt) (prv G2 dt) (cur G0 dt) (cur G1 dt) (cur G2 dt) in
  let th2 := fun dt => h_incr_theta2 (prv G0 dt) (prv G1 dt) (prv G2 dt) (cur G0 dt) (cur G1 dt) (cur G2 dt) in
  let dv0 := fun dt => h_incr_dv0 (prv G0 dt) (prv G1 dt) (prv G2 dt) (cur G0 dt) (cur G1 dt) (cur G2 dt)
                                  (prv F0 dt) (prv F1 dt) (prv F2 dt) (cur F0 dt) (cur F1 dt) (cur F2 dt) in
  let dv1 := fun dt => h_incr_dv1 (prv G0 dt) (prv G1 dt) (prv G2 dt) (cur G0 dt) (cur G1 dt) (cur G2 dt)
                                  (prv F0 dt) (prv F1 dt) (prv F2 dt) (cur F0 dt) (cur F1 dt) (cur F2 dt) in
  let dv2 := fun dt => h_incr_dv2 (prv G0 dt) (prv G1 dt) (prv G2 dt) (cur G0 dt) (cur G1 dt) (cur G2 dt)
                                  (prv F0 dt) (prv F1 dt) (prv F2 dt) (cur F0 dt) (cur F1 dt) (cur F2 dt) in
  (th0 0 = 0 /\ th1 0 = 0 /\ th2 0 = 0 /\ dv0 0 = 0 /\ dv1 0 = 0 /\ dv2 0 = 0) /\
  (is_derive th0 0 w0 /\ is_derive th1 0 w1 /\ is_derive th2 0 w2) /\
  (is_derive dv0 0 f0 /\ is_derive dv1 0 f1 /\ is_derive dv2 0 f2).
Proof.
  intros DG0 DG1 DG2 DF0 DF1 DF2. cbv zeta.
  destruct (integral_sample_current G0 w0 DG0) as [Zc0 Dc0]. destruct (integral_sample_previous G0 w0 DG0) as [Zp0 Ep0].
  destruct (integral_sample_current G1 w1 DG1) as [Zc1 Dc1]. destruct (integral_sample_previous G1 w1 DG1) as [Zp1 Ep1].
  destruct (integral_sample_current G2 w2 DG2) as [Zc2 Dc2]. destruct (integral_sample_previous G2 w2 DG2) as [Zp2 Ep2].
  destruct (integral_sample_current F0 f0 DF0) as [Yc0 Fc0]. destruct (integral_sample_previous F0 f0 DF0) as [Yp0 Fp0].
  destruct (integral_sample_current F1 f1 DF1) as [Yc1 Fc1]. destruct (integral_sample_previous F1 f1 DF1) as [Yp1 Fp1].
  destruct (integral_sample_current F2 f2 DF2) as [Yc2 Fc2]. destruct (integral_sample_previous F2 f2 DF2) as [Yp2 Fp2].
  split; [|split; (split; [|split])].
  - apply (incr_increments_zero (h_prv G0) (h_prv G1) (h_prv G2) (h_cur G0) (h_cur G1) (h_cur G2)
             (h_prv F0) (h_prv F1) (h_prv F2) (h_cur F0) (h_cur F1) (h_cur F2)); assumption.
  - eapply (incr_theta0_deriv (h_prv G0) (h_prv G1) (h_prv G2) (h_cur G0) (h_cur G1) (h_cur G2)); eassumption.
  - eapply (incr_theta1_deriv (h_prv G0) (h_prv G1) (h_prv G2) (h_cur G0) (h_cur G1) (h_cur G2)); eassumption.
  - eapply (incr_theta2_deriv (h_prv G0) (h_prv G1) (h_prv G2) (h_cur G0) (h_cur G1) (h_cur G2)); eassumption.
  - eapply (incr_dv0_deriv (h_prv G0) (h_prv G1) (h_prv G2) (h_cur G0) (h_cur G1) (h_cur G2)
             (h_prv F0) (h_prv F1) (h_prv F2) (h_cur F0) (h_cur F1) (h_cur F2)); eassumption.
  - eapply (incr_dv1_deriv (h_prv G0) (h_prv G1) (h_prv G2) (h_cur G0) (h_cur G1) (h_cur G2)
             (h_prv F0) (h_prv F1) (h_prv F2) (h_cur F0) (h_cur F1) (h_cur F2)); eassumption.
  - eapply (incr_dv2_deriv (h_prv G0) (h_prv G1) (h_prv G2) (h_cur G0) (h_cur G1) (h_cur G2)
             (h_prv F0) (h_prv F1) (h_prv F2) (h_cur F0) (h_cur F1) (h_cur F2)); eassumption.
Qed.

(** the same for the GENERATED per-row formulas of compute_increments_from_imu (Gen/C01Gen.v) *)
Section IncChar.
Variables dt a0 a1 a2 e0 e1 e2 fa0 fa1 fa2 fe0 fe1 fe2 t0 : R.
Notation GARGS f := (f dt a0 a1 a2 e0 e1 e2 fa0 fa1 fa2 fe0 fe1 fe2 t0) (only parsing).
Ltac inc_char :=
  autounfold with inc_rate_db;
  unfold h_rate_theta0, h_rate_theta1, h_rate_theta2, h_rate_dv0, h_rate_dv1, h_rate_dv2, h_rate_inc,
    h_incr_theta0, h_incr_theta1, h_incr_theta2, h_incr_dv0, h_incr_dv1, h_incr_dv2,
    h_cross0, h_cross1, h_cross2; ring_div.
Lemma inc_rate_odt_char : GARGS inc_rate_odt = dt.
Proof. unfold inc_rate_odt. ring. Qed.
Lemma inc_incr_odt_char : GARGS inc_incr_odt = dt.
Proof. unfold inc_incr_odt. ring. Qed.
Lemma inc_rate_th0_char : GARGS inc_rate_th0 = h_rate_theta0 dt a0 a1 a2 e0 e1 e2.
Proof. unfold inc_rate_th0. inc_char. Qed.
Lemma inc_rate_th1_char : GARGS inc_rate_th1 = h_rate_theta1 dt a0 a1 a2 e0 e1 e2.
Proof. unfold inc_rate_th1. inc_char. Qed.
Lemma inc_rate_th2_char : GARGS inc_rate_th2 = h_rate_theta2 dt a0 a1 a2 e0 e1 e2.
Proof. unfold inc_rate_th2. inc_char. Qed.
Lemma inc_rate_dv0_char : GARGS inc_rate_dv0 = h_rate_dv0 dt a0 a1 a2 e0 e1 e2 fa0 fa1 fa2 fe0 fe1 fe2.
Proof. unfold inc_rate_dv0. inc_char. Qed.
Lemma inc_rate_dv1_char : GARGS inc_rate_dv1 = h_rate_dv1 dt a0 a1 a2 e0 e1 e2 fa0 fa1 fa2 fe0 fe1 fe2.
Proof. unfold inc_rate_dv1. inc_char. Qed.
Lemma inc_rate_dv2_char : GARGS inc_rate_dv2 = h_rate_dv2 dt a0 a1 a2 e0 e1 e2 fa0 fa1 fa2 fe0 fe1 fe2.
Proof. unfold inc_rate_dv2. inc_char. Qed.
Lemma inc_incr_th0_char : GARGS inc_incr_th0 = h_incr_theta0 a0 a1 a2 e0 e1 e2.
Proof. unfold inc_incr_th0. inc_char. Qed.
Lemma inc_incr_th1_char : GARGS inc_incr_th1 = h_incr_theta1 a0 a1 a2 e0 e1 e2.
Proof. unfold inc_incr_th1. inc_char. Qed.
Lemma inc_incr_th2_char : GARGS inc_incr_th2 = h_incr_theta2 a0 a1 a2 e0 e1 e2.
Proof. unfold inc_incr_th2. inc_char. Qed.
Lemma inc_incr_dv0_char : GARGS inc_incr_dv0 = h_incr_dv0 a0 a1 a2 e0 e1 e2 fa0 fa1 fa2 fe0 fe1 fe2.
Proof. unfold inc_incr_dv0. inc_char. Qed.
Lemma inc_incr_dv1_char : GARGS inc_incr_dv1 = h_incr_dv1 a0 a1 a2 e0 e1 e2 fa0 fa1 fa2 fe0 fe1 fe2.
Proof. unfold inc_incr_dv1. inc_char. Qed.
Lemma inc_incr_dv2_char : GARGS inc_incr_dv2 = h_incr_dv2 a0 a1 a2 e0 e1 e2 fa0 fa1 fa2 fe0 fe1 fe2.
Proof. unfold inc_incr_dv2. inc_char. Qed.
End IncChar.

(** rate-type sensor, generated formulas: epoch t0, samples w(t0), w(t0 + dt), f(t0), f(t0 + dt) *)
Lemma increments_consistent_rate_gen (w0 w1 w2 f0 f1 f2 : R -> R) (t0 : R) :
  ex_derive w0 t0 -> ex_derive w1 t0 -> ex_derive w2 t0 ->
  ex_derive f0 t0 -> ex_derive f1 t0 -> ex_derive f2 t0 ->
  let row := fun (out : R -> R -> R -> R -> R -> R -> R -> R -> R -> R -> R -> R -> R -> R -> R) (dt : R) =>
    out dt (w0 t0) (w1 t0) (w2 t0) (w0 (t0 + dt)) (w1 (t0 + dt)) (w2 (t0 + dt))
           (f0 t0) (f1 t0) (f2 t0) (f0 (t0 + dt)) (f1 (t0 + dt)) (f2 (t0 + dt)) t0 in
  (forall dt, row inc_rate_odt dt = dt) /\
  (row inc_rate_th0 0 = 0 /\ row inc_rate_th1 0 = 0 /\ row inc_rate_th2 0 = 0 /\
   row inc_rate_dv0 0 = 0 /\ row inc_rate_dv1 0 = 0 /\ row inc_rate_dv2 0 = 0) /\
  (is_derive (row inc_rate_th0) 0 (w0 t0) /\ is_derive (row inc_rate_th1) 0 (w1 t0) /\
   is_derive (row inc_rate_th2) 0 (w2 t0)) /\
  (is_derive (row inc_rate_dv0) 0 (f0 t0) /\ is_derive (row inc_rate_dv1) 0 (f1 t0) /\
   is_derive (row inc_rate_dv2) 0 (f2 t0)).
Proof.
  intros E0 E1 E2 E3 E4 E5. cbv zeta.
  (* shift the epoch to 0 *)
  assert (S : forall g : R -> R, ex_derive g t0 -> ex_derive (fun s => g (t0 + s)) 0).
  { intros g [l Hg]. exists l. auto_derive.
    - replace (t0 + 0) with t0 by ring. eexists; exact Hg.
    - replace (t0 + 0) with t0 by ring.
      assert (E : Derive (fun x => g x) t0 = l) by (apply is_derive_unique; exact Hg). rewrite E. ring. }
  pose proof (increments_consistent_rate (fun s => w0 (t0 + s)) (fun s => w1 (t0 + s)) (fun s => w2 (t0 + s))
                (fun s => f0 (t0 + s)) (fun s => f1 (t0 + s)) (fun s => f2 (t0 + s))
                (S _ E0) (S _ E1) (S _ E2) (S _ E3) (S _ E4) (S _ E5)) as H.
  cbv zeta beta in H. replace (t0 + 0) with t0 in H by ring.
  destruct H as [[Z0 [Z1 [Z2 [Z3 [Z4 Z5]]]]] [[T0 [T1 T2]] [V0 [V1 V2]]]].
  split; [intro dt; apply inc_rate_odt_char|].
  split; [rewrite inc_rate_th0_char, inc_rate_th1_char, inc_rate_th2_char,
            inc_rate_dv0_char, inc_rate_dv1_char, inc_rate_dv2_char;
          replace (t0 + 0) with t0 by ring; repeat split; assumption|].
  split; (split; [|split]).
  - eapply is_derive_ext; [intro t; symmetry; apply inc_rate_th0_char | exact T0].
  - eapply is_derive_ext; [intro t; symmetry; apply inc_rate_th1_char | exact T1].
  - eapply is_derive_ext; [intro t; symmetry; apply inc_rate_th2_char | exact T2].
  - eapply is_derive_ext; [intro t; symmetry; apply inc_rate_dv0_char | exact V0].
  - eapply is_derive_ext; [intro t; symmetry; apply inc_rate_dv1_char | exact V1].
  - eapply is_derive_ext; [intro t; symmetry; apply inc_rate_dv2_char | exact V2].
Qed.

(** increment-type sensor, generated formulas: G, F antiderivatives of the signals around the epoch 0;
    previous-row sample = integral over [-dt, 0], current-row sample = integral over [0, dt] *)
Lemma increments_consistent_increment_gen (G0 G1 G2 F0 F1 F2 : R -> R) (w0 w1 w2 f0 f1 f2 t0 : R) :
  is_derive G0 0 w0 -> is_derive G1 0 w1 -> is_derive G2 0 w2 ->
  is_derive F0 0 f0 -> is_derive F1 0 f1 -> is_derive F2 0 f2 ->
  let row := fun (out : R -> R -> R -> R -> R -> R -> R -> R -> R -> R -> R -> R -> R -> R -> R) (dt : R) =>
    out dt (h_prv G0 dt) (h_prv G1 dt) (h_prv G2 dt) (h_cur G0 dt) (h_cur G1 dt) (h_cur G2 dt)
           (h_prv F0 dt) (h_prv F1 dt) (h_prv F2 dt) (h_cur F0 dt) (h_cur F1 dt) (h_cur F2 dt) t0 in
  (forall dt, row inc_incr_odt dt = dt) /\
  (row inc_incr_th0 0 = 0 /\ row inc_incr_th1 0 = 0 /\ row inc_incr_th2 0 = 0 /\
   row inc_incr_dv0 0 = 0 /\ row inc_incr_dv1 0 = 0 /\ row inc_incr_dv2 0 = 0) /\
  (is_derive (row inc_incr_th0) 0 w0 /\ is_derive (row inc_incr_th1) 0 w1 /\ is_derive (row inc_incr_th2) 0 w2) /\
  (is_derive (row inc_incr_dv0) 0 f0 /\ is_derive (row inc_incr_dv1) 0 f1 /\ is_derive (row inc_incr_dv2) 0 f2).
Proof.
  intros D0 D1 D2 D3 D4 D5. cbv zeta.
  pose proof (increments_consistent_increment G0 G1 G2 F0 F1 F2 w0 w1 w2 f0 f1 f2 D0 D1 D2 D3 D4 D5) as H.
  cbv zeta beta in H.
  destruct H as [[Z0 [Z1 [Z2 [Z3 [Z4 Z5]]]]] [[T0 [T1 T2]] [V0 [V1 V2]]]].
  split; [intro dt; apply inc_incr_odt_char|].
  split; [rewrite inc_incr_th0_char, inc_incr_th1_char, inc_incr_th2_char,
            inc_incr_dv0_char, inc_incr_dv1_char, inc_incr_dv2_char; repeat split; assumption|].
  split; (split; [|split]).
  - eapply is_derive_ext; [intro t; symmetry; apply inc_incr_th0_char | exact T0].
  - eapply is_derive_ext; [intro t; symmetry; apply inc_incr_th1_char | exact T1].
  - eapply is_derive_ext; [intro t; symmetry; apply inc_incr_th2_char | exact T2].
  - eapply is_derive_ext; [intro t; symmetry; apply inc_incr_dv0_char | exact V0].
  - eapply is_derive_ext; [intro t; symmetry; apply inc_incr_dv1_char | exact V1].
  - eapply is_derive_ext; [intro t; symmetry; apply inc_incr_dv2_char | exact V2].
Qed.

(** * 7. One-step methods: stability + local error O(h^2) => global error O(h) (discrete Gronwall) *)

Section OneStep.
Variable X : Type.
Variable dist : X -> X -> R.
Hypothesis dist_triangle : forall x y z, dist x z <= dist x y + dist y z.
Hypothesis dist_refl : forall x, dist x x = 0.
Variable D : X -> Prop.                (* the region on which the step is known to be stable *)
Variable Phi : nat -> X -> X.          (* the n-th step of length h (inputs may differ per step) *)
Variable sol : R -> X.                 (* the exact solution *)
Variables L C T h : R.
Hypothesis HL : 0 < L.
Hypothesis HC : 0 <= C.
Hypothesis Hh : 0 < h.
Hypothesis stability : forall n x y, D x -> D y -> dist (Phi n x) (Phi n y) <= (1 + L * h) * dist x y.
Hypothesis local_error : forall n, INR (S n) * h <= T ->
  dist (Phi n (sol (INR n * h))) (sol (INR (S n) * h)) <= C * (h * h).
Hypothesis sol_in_D : forall n, INR n * h <= T -> D (sol (INR n * h)).
Hypothesis num_in_D : forall n, INR n * h <= T -> D (onestep_run Phi (sol 0) n).

Lemma global_error_pow (n : nat) : INR n * h <= T ->
  dist (onestep_run Phi (sol 0) n) (sol (INR n * h)) <= C * h / L * ((1 + L * h) ^ n - 1).
Proof.
  induction n as [|n IH]; intro Hn.
  - simpl. rewrite Rmult_0_l, dist_refl. lra.
  - assert (Hn' : INR n * h <= T) by (rewrite S_INR in Hn; nra).
    specialize (IH Hn').
    cbn [onestep_run].
    eapply Rle_trans; [apply (dist_triangle _ (Phi n (sol (INR n * h))))|].
    pose proof (stability n _ _ (num_in_D n Hn') (sol_in_D n Hn')) as Hs.
    pose proof (local_error n Hn) as Hl.
    assert (Hq : 0 < 1 + L * h) by nra.
    assert (Hm : (1 + L * h) * dist (onestep_run Phi (sol 0) n) (sol (INR n * h)) <=
                 (1 + L * h) * (C * h / L * ((1 + L * h) ^ n - 1))).
    { apply Rmult_le_compat_l; lra. }
    replace (C * h / L * ((1 + L * h) ^ S n - 1))
      with ((1 + L * h) * (C * h / L * ((1 + L * h) ^ n - 1)) + C * (h * h)) by (simpl; field; lra).
    lra.
Qed.

Lemma pow_le_exp (n : nat) : INR n * h <= T -> (1 + L * h) ^ n <= exp (L * T).
Proof.
  intro Hn.
  assert (H1 : (1 + L * h) ^ n <= exp (L * h) ^ n).
  { apply pow_incr. split; [nra | apply exp_ineq1_le]. }
  assert (H2 : exp (L * h) ^ n = exp (INR n * (L * h))).
  { clear. induction n as [|n IH]; [simpl; rewrite Rmult_0_l, exp_0; reflexivity|].
    rewrite S_INR. simpl. rewrite IH, <- exp_plus. f_equal. ring. }
  rewrite H2 in H1. eapply Rle_trans; [exact H1|].
  destruct (Req_dec (INR n * (L * h)) (L * T)) as [E|NE]; [rewrite E; lra|].
  left. apply exp_increasing. assert (INR n * (L * h) <= L * T) by nra. lra.
Qed.

Lemma one_step_convergence_sec (n : nat) : INR n * h <= T ->
  dist (onestep_run Phi (sol 0) n) (sol (INR n * h)) <= C * h * (exp (L * T) - 1) / L.
Proof.
  intro Hn. pose proof (global_error_pow n Hn) as H.
  pose proof (pow_le_exp n Hn) as Hp.
  assert (0 <= C * h / L).
  { apply Rmult_le_pos; [nra | left; apply Rinv_0_lt_compat; exact HL]. }
  replace (C * h * (exp (L * T) - 1) / L) with (C * h / L * (exp (L * T) - 1)) by (field; lra).
  nra.
Qed.
End OneStep.

Lemma one_step_convergence (X : Type) (dist : X -> X -> R) (D : X -> Prop)
      (Phi : nat -> X -> X) (sol : R -> X) (L C T h : R) :
  (forall x y z, dist x z <= dist x y + dist y z) -> (forall x, dist x x = 0) ->
  0 < L -> 0 <= C -> 0 < h ->
  (forall n x y, D x -> D y -> dist (Phi n x) (Phi n y) <= (1 + L * h) * dist x y) ->
  (forall n, INR (S n) * h <= T -> dist (Phi n (sol (INR n * h))) (sol (INR (S n) * h)) <= C * (h * h)) ->
  (forall n, INR n * h <= T -> D (sol (INR n * h))) ->
  (forall n, INR n * h <= T -> D (onestep_run Phi (sol 0) n)) ->
  forall n, INR n * h <= T ->
  dist (onestep_run Phi (sol 0) n) (sol (INR n * h)) <= C * h * (exp (L * T) - 1) / L.
Proof.
  intros Tri Refl HL HC Hh Stab Loc SD ND n Hn.
  exact (one_step_convergence_sec X dist Tri Refl D Phi sol L C T h HL HC Hh Stab Loc SD ND n Hn).
Qed.

(** the error at h is at most 1/(1-q) times the change under halving whenever halving the interval
    contracts the error by a factor q < 1 (q = 1/2 for a first-order method in its asymptotic regime) *)
Lemma error_le_halving_change (X : Type) (dist : X -> X -> R) (xh xh2 xs : X) (q : R) :
  (forall x y z, dist x z <= dist x y + dist y z) ->
  0 <= q < 1 -> dist xh2 xs <= q * dist xh xs ->
  dist xh xs <= dist xh xh2 / (1 - q).
Proof.
  intros Tri [Hq0 Hq1] Hc. pose proof (Tri xh xh2 xs) as H.
  apply Rmult_le_reg_r with (1 - q); [lra|].
  replace (dist xh xh2 / (1 - q) * (1 - q)) with (dist xh xh2) by (field; lra). nra.
Qed.

(** the bound tends to 0 with h *)
Lemma bound_tends_to_zero (L C T eps : R) : 0 < L -> 0 <= C -> 0 <= T -> 0 < eps ->
  exists h0, 0 < h0 /\ forall h, 0 < h < h0 -> C * h * (exp (L * T) - 1) / L < eps.
Proof.
  intros HL HC HT He.
  assert (HE : 0 <= exp (L * T) - 1).
  { pose proof (exp_ineq1_le (L * T)). assert (0 <= L * T) by nra. lra. }
  exists (eps * L / (C * (exp (L * T) - 1) + 1)).
  assert (Hd : 0 < C * (exp (L * T) - 1) + 1) by nra.
  split.
  - apply Rdiv_lt_0_compat; nra.
  - intros h [Hh0 Hh1].
    apply Rmult_lt_reg_r with L; [exact HL|].
    replace (C * h * (exp (L * T) - 1) / L * L) with (h * (C * (exp (L * T) - 1))) by (field; lra).
    assert (h * (C * (exp (L * T) - 1) + 1) < eps * L).
    { apply Rmult_lt_reg_r with (/ (C * (exp (L * T) - 1) + 1)); [apply Rinv_0_lt_compat; exact Hd|].
      replace (h * (C * (exp (L * T) - 1) + 1) * / (C * (exp (L * T) - 1) + 1)) with h by (field; lra).
      replace (eps * L * / (C * (exp (L * T) - 1) + 1)) with (eps * L / (C * (exp (L * T) - 1) + 1))
        by (unfold Rdiv; ring).
      exact Hh1. }
    nra.
Qed.

(** ** The kernel as a one-step method on 15-tuples *)

Lemma abs_tri (a b c : R) : Rabs (a - c) <= Rabs (a - b) + Rabs (b - c).
Proof. replace (a - c) with ((a - b) + (b - c)) by ring. apply Rabs_triang. Qed.

Lemma kdist_triangle (x y z : kstate) : kdist x z <= kdist x y + kdist y z.
Proof.
  unfold kdist.
  pose proof (abs_tri (k_lat x) (k_lat y) (k_lat z)). pose proof (abs_tri (k_lon x) (k_lon y) (k_lon z)).
  pose proof (abs_tri (k_alt x) (k_alt y) (k_alt z)). pose proof (abs_tri (k_VN x) (k_VN y) (k_VN z)).
  pose proof (abs_tri (k_VE x) (k_VE y) (k_VE z)). pose proof (abs_tri (k_VD x) (k_VD y) (k_VD z)).
  pose proof (abs_tri (k_C00 x) (k_C00 y) (k_C00 z)). pose proof (abs_tri (k_C01 x) (k_C01 y) (k_C01 z)).
  pose proof (abs_tri (k_C02 x) (k_C02 y) (k_C02 z)). pose proof (abs_tri (k_C10 x) (k_C10 y) (k_C10 z)).
  pose proof (abs_tri (k_C11 x) (k_C11 y) (k_C11 z)). pose proof (abs_tri (k_C12 x) (k_C12 y) (k_C12 z)).
  pose proof (abs_tri (k_C20 x) (k_C20 y) (k_C20 z)). pose proof (abs_tri (k_C21 x) (k_C21 y) (k_C21 z)).
  pose proof (abs_tri (k_C22 x) (k_C22 y) (k_C22 z)).
  lra.
Qed.

Lemma kdist_refl (x : kstate) : kdist x x = 0.
Proof. unfold kdist. rewrite !Rminus_eq_0, Rabs_R0. ring. Qed.

(** End-to-end statement, PARTIAL: the two uniformity hypotheses (stability constant L on a region D
    that contains the exact and the numerical solution, local error constant C along the exact
    solution) are NOT proved for the concrete kernel; step_consistent only gives the pointwise
    first-order consistency that makes a finite C plausible. *)
Lemma strapdown_converges_partial (D : kstate -> Prop) (sol : R -> kstate) (inc : R -> nat -> kinc)
      (L C T : R) :
  0 < L -> 0 <= C ->
  (* uniform stability of the kernel step on D *)
  (forall h n x y, 0 < h -> D x -> D y ->
     kdist (kstep h x (inc h n)) (kstep h y (inc h n)) <= (1 + L * h) * kdist x y) ->
  (* uniform second-order local error along the exact solution *)
  (forall h n, 0 < h -> INR (S n) * h <= T ->
     kdist (kstep h (sol (INR n * h)) (inc h n)) (sol (INR (S n) * h)) <= C * (h * h)) ->
  (* the exact and the numerical solution stay in D *)
  (forall t, D (sol t)) ->
  (forall h n, 0 < h -> INR n * h <= T -> D (krun h (inc h) (sol 0) n)) ->
  forall h n, 0 < h -> INR n * h <= T ->
    kdist (krun h (inc h) (sol 0) n) (sol (INR n * h)) <= C * h * (exp (L * T) - 1) / L.
Proof.
  intros HL HC Stab Loc SD ND h n Hh Hn. unfold krun.
  apply (one_step_convergence kstate kdist D (fun m s => kstep h s (inc h m)) sol L C T h
           kdist_triangle kdist_refl HL HC Hh).
  - intros m x y Dx Dy. apply Stab; assumption.
  - intros m Hm. apply Loc; assumption.
  - intros m _. apply SD.
  - intros m Hm. apply (ND h m Hh Hm).
  - exact Hn.
Qed.

Lemma strapdown_converges_limit_partial (D : kstate -> Prop) (sol : R -> kstate) (inc : R -> nat -> kinc)
      (L C T : R) :
  0 < L -> 0 <= C -> 0 <= T ->
  (forall h n x y, 0 < h -> D x -> D y ->
     kdist (kstep h x (inc h n)) (kstep h y (inc h n)) <= (1 + L * h) * kdist x y) ->
  (forall h n, 0 < h -> INR (S n) * h <= T ->
     kdist (kstep h (sol (INR n * h)) (inc h n)) (sol (INR (S n) * h)) <= C * (h * h)) ->
  (forall t, D (sol t)) ->
  (forall h n, 0 < h -> INR n * h <= T -> D (krun h (inc h) (sol 0) n)) ->
  forall eps, 0 < eps -> exists h0, 0 < h0 /\
    forall h n, 0 < h < h0 -> INR n * h <= T ->
      kdist (krun h (inc h) (sol 0) n) (sol (INR n * h)) < eps.
Proof.
  intros HL HC HT Stab Loc SD ND eps He.
  destruct (bound_tends_to_zero L C T eps HL HC HT He) as [h0 [H0 Hb]].
  exists h0. split; [exact H0|]. intros h n Hh Hn.
  eapply Rle_lt_trans; [apply (strapdown_converges_partial D sol inc L C T HL HC Stab Loc SD ND h n); [lra | exact Hn]|].
  apply Hb. exact Hh.
Qed.

(** * 8. Non-vacuity: the hypotheses of the theorems are satisfiable on concrete instances *)

Lemma step_consistent_hyps_example :
  let th0 := fun t : R => 1 * t in let th1 := fun t : R => -2 * t in let th2 := fun t : R => 3 * t in
  let dv0 := fun t : R => 1 / 2 * t in let dv1 := fun t : R => -1 * t in let dv2 := fun t : R => -9 * t in
  -90 < 45 < 90 /\ -1000000 <= 100 /\
  th0 0 = 0 /\ th1 0 = 0 /\ th2 0 = 0 /\ dv0 0 = 0 /\ dv1 0 = 0 /\ dv2 0 = 0 /\
  is_derive th0 0 1 /\ is_derive th1 0 (-2) /\ is_derive th2 0 3 /\
  is_derive dv0 0 (1 / 2) /\ is_derive dv1 0 (-1) /\ is_derive dv2 0 (-9).
Proof.
  cbv zeta.
  split; [lra|]. split; [lra|].
  do 6 (split; [ring|]).
  do 5 (split; [auto_derive; [trivial | ring]|]).
  auto_derive; [trivial | ring].
Qed.

Lemma increments_rate_hyps_example :
  let w := fun t : R => 1 + 2 * t in ex_derive w 0.
Proof. cbv zeta. auto_derive. trivial. Qed.

Lemma increments_increment_hyps_example :
  let G := fun t : R => t + t * t in is_derive G 0 1.
Proof. cbv zeta. auto_derive; [trivial | ring]. Qed.

(** explicit Euler for x' = 1 on R: stable with L = 1, exact (C = 0); all hypotheses of
    one_step_convergence hold with T = 10, h = 1/4 *)
Lemma one_step_convergence_hyps_example :
  let dist := fun x y : R => Rabs (x - y) in
  let Phi := fun (n : nat) (x : R) => x + 1 / 4 in
  let sol := fun t : R => t in
  let D := fun _ : R => True in
  (forall x y z, dist x z <= dist x y + dist y z) /\ (forall x, dist x x = 0) /\
  0 < 1 /\ 0 <= 0 /\ 0 < 1 / 4 /\
  (forall n x y, D x -> D y -> dist (Phi n x) (Phi n y) <= (1 + 1 * (1 / 4)) * dist x y) /\
  (forall n, INR (S n) * (1 / 4) <= 10 ->
     dist (Phi n (sol (INR n * (1 / 4)))) (sol (INR (S n) * (1 / 4))) <= 0 * (1 / 4 * (1 / 4))) /\
  (forall n, INR n * (1 / 4) <= 10 -> D (sol (INR n * (1 / 4)))) /\
  (forall n, INR n * (1 / 4) <= 10 -> D (onestep_run Phi (sol 0) n)).
Proof.
  cbv zeta. repeat split; try lra; trivial.
  - intros x y z. apply abs_tri.
  - intro x. rewrite Rminus_eq_0. apply Rabs_R0.
  - intros n x y _ _. replace (x + 1 / 4 - (y + 1 / 4)) with (x - y) by ring.
    pose proof (Rabs_pos (x - y)). lra.
  - intros n _. rewrite S_INR.
    replace (INR n * (1 / 4) + 1 / 4 - (INR n + 1) * (1 / 4)) with 0 by ring. rewrite Rabs_R0. lra.
Qed.

(** the hypotheses of strapdown_converges_partial are jointly satisfiable, here only in the trivial
    case T = 0 (a single point); satisfiability for T > 0 is exactly the unproved part *)
Lemma strapdown_converges_hyps_example :
  let s0 := mk_kstate 45 10 100 1 2 3 1 0 0 0 1 0 0 0 1 in
  let D := fun s : kstate => s = s0 in
  let sol := fun _ : R => s0 in
  let inc := fun (_ : R) (_ : nat) => mk_kinc 0 0 0 0 0 0 in
  0 < 1 /\ 0 <= 0 /\
  (forall h n x y, 0 < h -> D x -> D y ->
     kdist (kstep h x (inc h n)) (kstep h y (inc h n)) <= (1 + 1 * h) * kdist x y) /\
  (forall h n, 0 < h -> INR (S n) * h <= 0 ->
     kdist (kstep h (sol (INR n * h)) (inc h n)) (sol (INR (S n) * h)) <= 0 * (h * h)) /\
  (forall t, D (sol t)) /\
  (forall h n, 0 < h -> INR n * h <= 0 -> D (krun h (inc h) (sol 0) n)).
Proof.
  cbv zeta. split; [lra|]. split; [lra|]. split; [|split; [|split]].
  - intros h n x y Hh -> ->. rewrite !kdist_refl. lra.
  - intros h n Hh Hn. exfalso. rewrite S_INR in Hn. pose proof (pos_INR n). nra.
  - intro t. reflexivity.
  - intros h n Hh Hn. destruct n as [|n]; [reflexivity|].
    exfalso. rewrite S_INR in Hn. pose proof (pos_INR n). nra.
Qed.
