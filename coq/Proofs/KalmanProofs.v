(** C07: kalman.correct (generated: Gen/Kalman.v) is the conditional-Gaussian
    update of Spec/Gaussian.v.  The Cholesky oracle enters only through
    [cholesky_spec] hypotheses. *)
From mathcomp Require Import all_ssreflect all_algebra.
From PV Require Import Spec.LibSpecsMx Spec.Gaussian Gen.Kalman.
Set Implicit Arguments.
Unset Strict Implicit.
Import Order.Theory GRing.Theory Num.Theory.
Local Open Scope ring_scope.

(* ------------------------------------------------------------------ *)
(** * Generic matrix facts *)
Section MxFacts.
Variable F : fieldType.

Lemma trmx_sub (m n : nat) (A B : 'M[F]_(m, n)) : (A - B)^T = A^T - B^T.
Proof. by rewrite linearB. Qed.

Lemma trmx_add (m n : nat) (A B : 'M[F]_(m, n)) : (A + B)^T = A^T + B^T.
Proof. by rewrite linearD. Qed.

Lemma invmx_sym (n : nat) (A : 'M[F]_n) : A^T = A -> (invmx A)^T = invmx A.
Proof. by move=> sA; rewrite trmx_inv sA. Qed.

(** left inverses of a unit matrix are unique *)
Lemma mulmx_can_unit (p n : nat) (S : 'M[F]_n) (A B : 'M[F]_(p, n)) :
  S \in unitmx -> A *m S = B *m S -> A = B.
Proof.
by move=> uS /(congr1 (mulmx^~ (invmx S))); rewrite -!mulmxA mulmxV // !mulmx1.
Qed.

Lemma invmx_mul (n : nat) (A B : 'M[F]_n) :
  A \in unitmx -> B \in unitmx -> invmx (A *m B) = invmx B *m invmx A.
Proof.
move=> uA uB; have uAB : A *m B \in unitmx by rewrite unitmx_mul uA uB.
rewrite -[RHS]mul1mx -(mulVmx uAB) -!mulmxA (mulmxA B) mulmxV // mul1mx.
by rewrite mulmxV // mulmx1.
Qed.

End MxFacts.

(* ------------------------------------------------------------------ *)
(** * The shape of the code, written by hand.
      Gen/Kalman.v contains ONLY the three returned values of `correct`, as fully inlined
      terms (their text does not depend on the names of the local variables, on helper
      functions or on equivalent numpy spellings).  The intermediates of the algorithm are
      named HERE, in terms of the specification; the characterising lemmas below prove the
      generated outputs equal to these shapes, and nothing else refers to the generated text. *)
Section CodeShape.
Variable F : fieldType.
Variables n m : nat.
Variable cholesky : 'M[F]_m -> 'M[F]_m.
Variables (x : 'cV[F]_n) (P : 'M[F]_n) (z : 'cV[F]_m) (H : 'M[F]_(m, n)) (R : 'M[F]_m).
Definition correct_HP : 'M[F]_(m, n) := H *m P.
Definition correct_S : 'M[F]_m := innov_cov P H R.
Definition correct_e : 'cV[F]_m := z - H *m x.
Definition correct_L : 'M[F]_m := cholesky correct_S.
Definition correct_K : 'M[F]_(n, m) := (cho_solve correct_L correct_HP)^T.
Definition correct_U : 'M[F]_n := 1%:M - correct_K *m H.
End CodeShape.

(* ------------------------------------------------------------------ *)
(** * Characterising lemmas: the only place where the generated
      definitions are unfolded. *)
Section Characterise.
Variable F : fieldType.
Variables n m : nat.
Variable cholesky : 'M[F]_m -> 'M[F]_m.
Variables (x : 'cV[F]_n) (P : 'M[F]_n) (z : 'cV[F]_m) (H : 'M[F]_(m, n)) (R : 'M[F]_m).

Local Notation S := (correct_S P H R).
Local Notation L := (correct_L cholesky P H R).
Local Notation K := (correct_K cholesky P H R).
Local Notation U := (correct_U cholesky P H R).

(** generated text = hand-written shape: by conversion when the code has the original shape, otherwise after
    unfolding both sides and normalising the association of products *)
Ltac code_shape :=
  first [ by []
        | by rewrite /correct_ret0 /correct_ret1 /correct_ret2 /correct_U /correct_K /correct_L /correct_e
                     /correct_S /correct_HP /innov_cov /solve_triangular /cho_solve ?mulmxA ?trmxK ].

Lemma correct_S_eq : S = innov_cov P H R.
Proof. by []. Qed.

Lemma correct_L_eq : L = cholesky S.
Proof. by []. Qed.

Lemma correct_e_eq : correct_e x z H = z - H *m x.
Proof. by []. Qed.

Lemma correct_K_raw : K = (invmx (L *m L^T) *m (H *m P))^T.
Proof. by rewrite /correct_K /cho_solve /correct_HP. Qed.

Lemma correct_U_eq : U = 1%:M - K *m H.
Proof. by []. Qed.

Lemma correct_ret0_eq : correct_ret0 cholesky x P z H R = x + K *m (z - H *m x).
Proof. code_shape. Qed.

Lemma correct_ret1_eq :
  correct_ret1 cholesky P H R = U *m P *m U^T + K *m R *m K^T.
Proof. code_shape. Qed.

Lemma correct_ret2_eq : correct_ret2 cholesky x P z H R = invmx L *m (z - H *m x).
Proof. code_shape. Qed.

End Characterise.

(* ------------------------------------------------------------------ *)
(** * Algebra of the Joseph form, for an arbitrary gain *)
Section Joseph.
Variable F : fieldType.
Variables n m : nat.
Variables (P : 'M[F]_n) (H : 'M[F]_(m, n)) (R : 'M[F]_m).

Local Notation S := (innov_cov P H R).

Definition joseph (K : 'M[F]_(n, m)) : 'M[F]_n :=
  (1%:M - K *m H) *m P *m (1%:M - K *m H)^T + K *m R *m K^T.

Lemma joseph_expand (K : 'M[F]_(n, m)) :
  joseph K = P - K *m H *m P - P *m H^T *m K^T + K *m S *m K^T.
Proof.
rewrite /joseph /innov_cov trmx_sub trmx1 trmx_mul.
rewrite mulmxBl mul1mx mulmxBr mulmx1 mulmxBl.
rewrite (mulmxDr K) (mulmxDl _ _ K^T) !mulmxA opprB !addrA.
by congr (_ + _); rewrite addrAC.
Qed.

(** Any K solving the normal equation K S = P H^T collapses the Joseph form. *)
Lemma joseph_normal_eq (K : 'M[F]_(n, m)) :
  K *m S = P *m H^T -> joseph K = P - K *m H *m P.
Proof. by move=> KS; rewrite joseph_expand KS subrK. Qed.

Lemma joseph_sym (K : 'M[F]_(n, m)) : P^T = P -> R^T = R -> (joseph K)^T = joseph K.
Proof.
move=> sP sR; rewrite /joseph trmx_add !trmx_mul !trmxK sP sR.
by rewrite !mulmxA.
Qed.

Lemma innov_cov_sym : P^T = P -> R^T = R -> S^T = S.
Proof.
by move=> sP sR; rewrite /innov_cov trmx_add !trmx_mul trmxK sP sR mulmxA.
Qed.

Hypothesis uS : S \in unitmx.

Lemma gain_normal_eq : gain P H R *m S = P *m H^T.
Proof. by rewrite /gain -mulmxA mulVmx // mulmx1. Qed.

Lemma normal_eq_gain (K : 'M[F]_(n, m)) : K *m S = P *m H^T -> K = gain P H R.
Proof. by move=> KS; apply: (mulmx_can_unit uS); rewrite gain_normal_eq. Qed.

Lemma joseph_gain : joseph (gain P H R) = cond_cov P H R.
Proof. by rewrite (joseph_normal_eq gain_normal_eq). Qed.

(** P - P+ = K0 S K0^T *)
Lemma prior_minus_post :
  P^T = P -> R^T = R ->
  P - cond_cov P H R = gain P H R *m S *m (gain P H R)^T.
Proof.
move=> sP sR; rewrite /cond_cov opprB addrC subrK.
rewrite gain_normal_eq /gain !trmx_mul trmxK sP (invmx_sym (innov_cov_sym sP sR)).
by rewrite !mulmxA.
Qed.

(** cond_cov is the Schur complement of S in the joint covariance of (x, z) *)
Lemma cond_cov_schur :
  cond_cov P H R = schur_compl P (P *m H^T) (H *m P) S.
Proof. by rewrite /cond_cov /schur_compl /gain !mulmxA. Qed.

(** information form *)
Lemma gain_HPHt :
  gain P H R *m H *m P *m H^T = P *m H^T - gain P H R *m R.
Proof. by rewrite -gain_normal_eq /innov_cov mulmxDr !mulmxA addrK. Qed.

Lemma cond_cov_info : P \in unitmx -> R \in unitmx ->
  cond_cov P H R *m info_mx P H R = 1%:M.
Proof.
move=> uP uR; rewrite /cond_cov /info_mx.
rewrite mulmxDr mulmxBl mulmxV // mulmxBl (mulmxK uP).
rewrite !mulmxA gain_HPHt mulmxBl (mulmxK uR) mulmxBl opprB.
by rewrite [_ + (_ - _)]addrC subrK subrK.
Qed.

Lemma gain_info : R \in unitmx ->
  gain P H R = cond_cov P H R *m H^T *m invmx R.
Proof.
move=> uR; rewrite /cond_cov mulmxBl gain_HPHt opprB addrC subrK.
by rewrite (mulmxK uR).
Qed.

End Joseph.

(* ------------------------------------------------------------------ *)
(** * Positive semidefiniteness (ordered field) *)
Section Psd.
Variable F : realFieldType.

Lemma psd_add (n : nat) (A B : 'M[F]_n) : psd A -> psd B -> psd (A + B).
Proof.
move=> pA pB x; rewrite mulmxDr mulmxDl mxE.
by rewrite addr_ge0 ?pA ?pB.
Qed.

Lemma psd_conj (n p : nat) (A : 'M[F]_n) (B : 'M[F]_(p, n)) :
  psd A -> psd (B *m A *m B^T).
Proof.
move=> pA x; have := pA (B^T *m x).
by rewrite trmx_mul trmxK !mulmxA.
Qed.

Lemma psd0 (n : nat) : psd (0 : 'M[F]_n).
Proof. by move=> x; rewrite mulmx0 mul0mx mxE. Qed.

Section Update.
Variables n m : nat.
Variables (P : 'M[F]_n) (H : 'M[F]_(m, n)) (R : 'M[F]_m).

(** Joseph form is PSD for PSD P, R and ANY gain. *)
Lemma joseph_psd (K : 'M[F]_(n, m)) : psd P -> psd R -> psd (joseph P H R K).
Proof. by move=> pP pR; apply: psd_add; apply: psd_conj. Qed.

Lemma innov_cov_psd : psd P -> psd R -> psd (innov_cov P H R).
Proof. by move=> pP pR; apply: psd_add => //; apply: psd_conj. Qed.

Lemma cond_cov_le_prior :
  innov_cov P H R \in unitmx -> P^T = P -> R^T = R -> psd P -> psd R ->
  loewner_le (cond_cov P H R) P.
Proof.
move=> uS sP sR pP pR; rewrite /loewner_le (prior_minus_post uS sP sR).
exact/psd_conj/innov_cov_psd.
Qed.

End Update.
End Psd.

(* ------------------------------------------------------------------ *)
(** * The generated [correct] (field-level statements) *)
Section Correct.
Variable F : fieldType.
Variables n m : nat.
Variable cholesky : 'M[F]_m -> 'M[F]_m.
Variables (x : 'cV[F]_n) (P : 'M[F]_n) (z : 'cV[F]_m) (H : 'M[F]_(m, n)) (R : 'M[F]_m).

Hypothesis sP : P^T = P.
Hypothesis sR : R^T = R.
Hypothesis cS : cholesky_spec cholesky (correct_S P H R).

Local Notation S := (correct_S P H R).
Local Notation L := (correct_L cholesky P H R).

Lemma chol_LLt : L *m L^T = S.
Proof. by case: cS => _ []. Qed.

Lemma chol_unitL : L \in unitmx.
Proof. by case: cS => _ []. Qed.

Lemma chol_lower : is_lower L.
Proof. by case: cS. Qed.

Lemma chol_unitS : S \in unitmx.
Proof. by rewrite -chol_LLt unitmx_mul unitmx_tr chol_unitL. Qed.

Lemma innov_unit : innov_cov P H R \in unitmx.
Proof. by rewrite -correct_S_eq chol_unitS. Qed.

Lemma correct_K_gain : correct_K cholesky P H R = gain P H R.
Proof.
rewrite correct_K_raw chol_LLt correct_S_eq /gain !trmx_mul sP.
by rewrite (invmx_sym (innov_cov_sym H sP sR)).
Qed.

Lemma correct_ret1_joseph :
  correct_ret1 cholesky P H R = joseph P H R (correct_K cholesky P H R).
Proof. by rewrite correct_ret1_eq correct_U_eq. Qed.

(** (1) conditional mean and covariance *)
Lemma correct_mean :
  correct_ret0 cholesky x P z H R = cond_mean x P z H R.
Proof. by rewrite correct_ret0_eq correct_K_gain. Qed.

Lemma correct_cov :
  correct_ret1 cholesky P H R = cond_cov P H R.
Proof. by rewrite correct_ret1_joseph correct_K_gain (joseph_gain innov_unit). Qed.

Theorem correct_mean_cov :
  correct_ret0 cholesky x P z H R
    = x + (P *m H^T *m invmx (H *m P *m H^T + R)) *m (z - H *m x)
  /\ correct_ret1 cholesky P H R
    = P - (P *m H^T *m invmx (H *m P *m H^T + R)) *m H *m P.
Proof. by rewrite correct_mean correct_cov. Qed.

(** (2a) symmetry *)
Theorem post_symmetric : (correct_ret1 cholesky P H R)^T = correct_ret1 cholesky P H R.
Proof. by rewrite correct_ret1_joseph; apply: joseph_sym. Qed.

(** (3) information form *)
Theorem information_form : P \in unitmx -> R \in unitmx ->
  correct_ret1 cholesky P H R *m (invmx P + H^T *m invmx R *m H) = 1%:M.
Proof. by move=> uP uR; rewrite correct_cov; apply: cond_cov_info innov_unit uP uR. Qed.

Corollary information_form_inv : P \in unitmx -> R \in unitmx ->
  correct_ret1 cholesky P H R = info_cov P H R
  /\ info_mx P H R \in unitmx.
Proof.
move=> uP uR; have PI := information_form uP uR.
have [uI _] := mulmx1_unit PI; have [_ uJ] := mulmx1_unit PI; split=> //.
by rewrite /info_cov -[LHS]mulmx1 -(mulmxV uJ) mulmxA PI mul1mx.
Qed.

(** information-vector form of the mean *)
Theorem information_mean : P \in unitmx -> R \in unitmx ->
  info_mx P H R *m correct_ret0 cholesky x P z H R = info_vec x P z H R.
Proof.
move=> uP uR; have PI := information_form uP uR.
have IP : info_mx P H R *m correct_ret1 cholesky P H R = 1%:M by apply/mulmx1C.
rewrite correct_mean /cond_mean (gain_info innov_unit uR) -correct_cov.
rewrite mulmxDr !mulmxA IP mul1mx /info_vec /info_mx mulmxDl.
rewrite -addrA; congr (_ + _).
by rewrite -(mulmxA _ H x) -mulmxDr addrCA subrr addr0.
Qed.

(** (4) whitened innovation *)
Theorem innovation_whitened :
  [/\ correct_ret2 cholesky x P z H R = invmx L *m correct_e x z H,
      (correct_ret2 cholesky x P z H R)^T *m correct_ret2 cholesky x P z H R
        = (correct_e x z H)^T *m invmx S *m correct_e x z H,
      invmx L *m S *m (invmx L)^T = 1%:M
    & is_lower L /\ L *m L^T = S].
Proof.
have uL := chol_unitL; split.
- by rewrite correct_ret2_eq.
- rewrite correct_ret2_eq correct_e_eq trmx_mul !mulmxA -chol_LLt.
  by rewrite invmx_mul ?unitmx_tr // trmx_inv !mulmxA.
- by rewrite -chol_LLt mulmxA (mulVmx uL) mul1mx trmx_inv mulmxV ?unitmx_tr.
- by split; [apply: chol_lower | apply: chol_LLt].
Qed.

End Correct.

(* ------------------------------------------------------------------ *)
(** * The generated [correct] (order-level statements) *)
Section CorrectOrdered.
Variable F : realFieldType.
Variables n m : nat.
Variable cholesky : 'M[F]_m -> 'M[F]_m.
Variables (P : 'M[F]_n) (H : 'M[F]_(m, n)) (R : 'M[F]_m).

(** (2b) The returned covariance is PSD for PSD P, R -- whatever the
    Cholesky oracle returns (Joseph form, any gain). *)
Theorem post_psd : psd P -> psd R -> psd (correct_ret1 cholesky P H R).
Proof. by move=> pP pR; rewrite correct_ret1_joseph; apply: joseph_psd. Qed.

(** S itself is PSD, so the Cholesky factorisation is asked of a PSD matrix. *)
Lemma correct_S_psd : psd P -> psd R -> psd (correct_S P H R).
Proof. by move=> pP pR; rewrite correct_S_eq; apply: innov_cov_psd. Qed.

(** (2c) never larger than the prior *)
Theorem post_le_prior :
  P^T = P -> R^T = R -> cholesky_spec cholesky (correct_S P H R) ->
  psd P -> psd R ->
  P - correct_ret1 cholesky P H R
     = gain P H R *m correct_S P H R *m (gain P H R)^T
  /\ psd (P - correct_ret1 cholesky P H R).
Proof.
move=> sP sR cS pP pR; have uS := innov_unit cS.
rewrite (correct_cov sP sR cS) correct_S_eq (prior_minus_post uS sP sR); split=> //.
exact/psd_conj/innov_cov_psd.
Qed.

End CorrectOrdered.

(* ------------------------------------------------------------------ *)
(** * (5) Sequential processing of two measurement blocks = joint processing.
      General case: P may be singular; only the innovation covariances that
      the code factorises are required to be invertible.  The argument is the
      uniqueness of the solution K of the normal equation K S = P H^T. *)
Section SeqAbstract.
Variable F : fieldType.
Variables n m1 m2 : nat.
Variables (x : 'cV[F]_n) (P : 'M[F]_n).
Variables (z1 : 'cV[F]_m1) (H1 : 'M[F]_(m1, n)) (R1 : 'M[F]_m1).
Variables (z2 : 'cV[F]_m2) (H2 : 'M[F]_(m2, n)) (R2 : 'M[F]_m2).

Definition joint_z : 'cV[F]_(m1 + m2) := col_mx z1 z2.
Definition joint_H : 'M[F]_(m1 + m2, n) := col_mx H1 H2.
Definition joint_R : 'M[F]_(m1 + m2) := block_mx R1 0 0 R2.

Local Notation z := joint_z.
Local Notation H := joint_H.
Local Notation R := joint_R.

Lemma joint_R_sym : R1^T = R1 -> R2^T = R2 -> R^T = R.
Proof. by move=> s1 s2; rewrite /joint_R tr_block_mx !trmx0 s1 s2. Qed.

Lemma joint_innov_cov :
  innov_cov P H R =
  block_mx (innov_cov P H1 R1) (H1 *m P *m H2^T)
           (H2 *m P *m H1^T)   (innov_cov P H2 R2).
Proof.
rewrite /innov_cov /joint_H /joint_R mul_col_mx tr_col_mx mul_col_row add_block_mx.
by rewrite !addr0.
Qed.

(** Any pair of block gains solving the two block normal equations is the
    joint gain. *)
Section FromGains.
Variables (Ka : 'M[F]_(n, m1)) (Kb : 'M[F]_(n, m2)).
Hypothesis eq1 : Ka *m innov_cov P H1 R1 + Kb *m (H2 *m P *m H1^T) = P *m H1^T.
Hypothesis eq2 : Ka *m (H1 *m P *m H2^T) + Kb *m innov_cov P H2 R2 = P *m H2^T.

Lemma joint_normal_eq : row_mx Ka Kb *m innov_cov P H R = P *m H^T.
Proof.
by rewrite joint_innov_cov mul_row_block eq1 eq2 /joint_H tr_col_mx mul_mx_row.
Qed.

Hypothesis uS : innov_cov P H R \in unitmx.

Lemma joint_gain : gain P H R = row_mx Ka Kb.
Proof. by rewrite -(normal_eq_gain uS joint_normal_eq). Qed.

Lemma joint_mean :
  cond_mean x P z H R = x + Ka *m (z1 - H1 *m x) + Kb *m (z2 - H2 *m x).
Proof.
rewrite /cond_mean joint_gain /joint_z /joint_H mul_col_mx.
by rewrite -[col_mx z1 z2 - _]/(col_mx z1 z2 + - col_mx _ _) opp_col_mx add_col_mx
           mul_row_col addrA.
Qed.

Lemma joint_cov :
  cond_cov P H R = P - Ka *m H1 *m P - Kb *m H2 *m P.
Proof.
by rewrite /cond_cov joint_gain /joint_H mul_row_col mulmxDl opprD addrA.
Qed.

End FromGains.

(** Algebra of the two-stage update with abstract gains:
     K1 solves the normal equation of block 1 for P,
     P1 = P - K1 H1 P,
     K2 solves the normal equation of block 2 for P1. *)
Section TwoStage.
Variables (K1 : 'M[F]_(n, m1)) (K2 : 'M[F]_(n, m2)) (P1 : 'M[F]_n).
Hypothesis hK1 : K1 *m innov_cov P H1 R1 = P *m H1^T.
Hypothesis hP1 : P1 = P - K1 *m H1 *m P.
Hypothesis hK2 : K2 *m innov_cov P1 H2 R2 = P1 *m H2^T.

Lemma two_stage_eq1 :
  (K1 - K2 *m H2 *m K1) *m innov_cov P H1 R1 + K2 *m (H2 *m P *m H1^T) = P *m H1^T.
Proof. by rewrite mulmxBl -(mulmxA _ K1) hK1 !mulmxA subrK. Qed.

Lemma two_stage_eq2 :
  (K1 - K2 *m H2 *m K1) *m (H1 *m P *m H2^T) + K2 *m innov_cov P H2 R2 = P *m H2^T.
Proof.
have -> : K2 *m innov_cov P H2 R2 =
          P1 *m H2^T + K2 *m (H2 *m K1 *m H1 *m P *m H2^T).
  rewrite -hK2 /innov_cov -mulmxDr hP1; congr (_ *m _).
  by rewrite mulmxBr mulmxBl !mulmxA addrAC subrK.
rewrite mulmxBl !mulmxA addrA [X in X + _]addrAC subrK.
by rewrite hP1 mulmxBl addrC subrK.
Qed.

Lemma two_stage_mean :
  (x + K1 *m (z1 - H1 *m x)) + K2 *m (z2 - H2 *m (x + K1 *m (z1 - H1 *m x)))
  = x + (K1 - K2 *m H2 *m K1) *m (z1 - H1 *m x) + K2 *m (z2 - H2 *m x).
Proof.
rewrite [H2 *m (_ + _)]mulmxDr opprD [z2 + _]addrA.
move: (z1 - H1 *m x) (z2 - H2 *m x) => e1 e2.
by rewrite mulmxBr mulmxBl !mulmxA !addrA addrAC.
Qed.

Lemma two_stage_cov :
  P1 - K2 *m H2 *m P1 = P - (K1 - K2 *m H2 *m K1) *m H1 *m P - K2 *m H2 *m P.
Proof.
rewrite hP1 mulmxBr !mulmxBl !mulmxA !opprB !addrA.
by congr (_ + _); rewrite addrAC.
Qed.

End TwoStage.

(** The two-stage update, first block 1 then block 2. *)
Definition seq_P1 : 'M[F]_n := cond_cov P H1 R1.
Definition seq_x1 : 'cV[F]_n := cond_mean x P z1 H1 R1.
Definition seq_P2 : 'M[F]_n := cond_cov seq_P1 H2 R2.
Definition seq_x2 : 'cV[F]_n := cond_mean seq_x1 seq_P1 z2 H2 R2.

Hypothesis uS1 : innov_cov P H1 R1 \in unitmx.
Hypothesis uS2 : innov_cov seq_P1 H2 R2 \in unitmx.
Hypothesis uS : innov_cov P H R \in unitmx.

Let hK1 := gain_normal_eq uS1.
Let hK2 := gain_normal_eq uS2.
Let hP1 : seq_P1 = P - gain P H1 R1 *m H1 *m P := erefl.
Let eq1 := two_stage_eq1 (gain seq_P1 H2 R2) hK1.
Let eq2 := two_stage_eq2 hP1 hK2.

Lemma seq_joint_mean : seq_x2 = cond_mean x P z H R.
Proof.
rewrite (joint_mean eq1 eq2 uS).
by rewrite -(two_stage_mean (gain P H1 R1) (gain seq_P1 H2 R2)).
Qed.

Lemma seq_joint_cov : seq_P2 = cond_cov P H R.
Proof.
rewrite (joint_cov eq1 eq2 uS).
by rewrite -(two_stage_cov (gain seq_P1 H2 R2) hP1).
Qed.

End SeqAbstract.

(** The other order: block 2 first, then block 1 -- same joint result. *)
Section SeqSwap.
Variable F : fieldType.
Variables n m1 m2 : nat.
Variables (x : 'cV[F]_n) (P : 'M[F]_n).
Variables (z1 : 'cV[F]_m1) (H1 : 'M[F]_(m1, n)) (R1 : 'M[F]_m1).
Variables (z2 : 'cV[F]_m2) (H2 : 'M[F]_(m2, n)) (R2 : 'M[F]_m2).

Local Notation z := (joint_z z1 z2).
Local Notation H := (joint_H H1 H2).
Local Notation R := (joint_R R1 R2).
Local Notation P1' := (seq_P1 P H2 R2).

Hypothesis uS2 : innov_cov P H2 R2 \in unitmx.
Hypothesis uS1 : innov_cov P1' H1 R1 \in unitmx.
Hypothesis uS : innov_cov P H R \in unitmx.

Let hK2 := gain_normal_eq uS2.
Let hK1 := gain_normal_eq uS1.
Let hP1 : P1' = P - gain P H2 R2 *m H2 *m P := erefl.

Lemma swap_eq1 :
  gain P1' H1 R1 *m innov_cov P H1 R1
  + (gain P H2 R2 - gain P1' H1 R1 *m H1 *m gain P H2 R2) *m (H2 *m P *m H1^T)
  = P *m H1^T.
Proof. by rewrite addrC (two_stage_eq2 hP1 hK1). Qed.

Lemma swap_eq2 :
  gain P1' H1 R1 *m (H1 *m P *m H2^T)
  + (gain P H2 R2 - gain P1' H1 R1 *m H1 *m gain P H2 R2) *m innov_cov P H2 R2
  = P *m H2^T.
Proof. by rewrite addrC (two_stage_eq1 H1 (gain P1' H1 R1) hK2). Qed.

Lemma seq_swap_joint_mean :
  seq_x2 x P z2 H2 R2 z1 H1 R1 = cond_mean x P z H R.
Proof.
rewrite (joint_mean x z1 z2 swap_eq1 swap_eq2 uS) addrAC.
by rewrite -(two_stage_mean x z2 H2 z1 H1 (gain P H2 R2) (gain P1' H1 R1)).
Qed.

Lemma seq_swap_joint_cov :
  seq_P2 P H2 R2 H1 R1 = cond_cov P H R.
Proof.
rewrite (joint_cov swap_eq1 swap_eq2 uS) addrAC.
by rewrite -(two_stage_cov H1 (gain P1' H1 R1) hP1).
Qed.

End SeqSwap.

(* ------------------------------------------------------------------ *)
(** * (5) for the generated code *)
Section SequentialGen.
Variable F : fieldType.
Variables n m1 m2 : nat.
Variable chol1 : 'M[F]_m1 -> 'M[F]_m1.
Variable chol2 : 'M[F]_m2 -> 'M[F]_m2.
Variable chol12 : 'M[F]_(m1 + m2) -> 'M[F]_(m1 + m2).
Variables (x : 'cV[F]_n) (P : 'M[F]_n).
Variables (z1 : 'cV[F]_m1) (H1 : 'M[F]_(m1, n)) (R1 : 'M[F]_m1).
Variables (z2 : 'cV[F]_m2) (H2 : 'M[F]_(m2, n)) (R2 : 'M[F]_m2).

Hypothesis sP : P^T = P.
Hypothesis sR1 : R1^T = R1.
Hypothesis sR2 : R2^T = R2.

Local Notation z := (col_mx z1 z2).
Local Notation H := (col_mx H1 H2).
Local Notation R := (block_mx R1 0 0 R2).

(** the joint update factorises the joint innovation covariance *)
Hypothesis c12 : cholesky_spec chol12 (correct_S P H R).

Let sR : R^T = R := joint_R_sym sR1 sR2.
Let uS : innov_cov P (joint_H H1 H2) (joint_R R1 R2) \in unitmx := innov_unit c12.

(** block 1 first, then block 2 *)
Section Order12.
Let x1 := correct_ret0 chol1 x P z1 H1 R1.
Let P1 := correct_ret1 chol1 P H1 R1.
Hypothesis c1 : cholesky_spec chol1 (correct_S P H1 R1).
Hypothesis c2 : cholesky_spec chol2 (correct_S P1 H2 R2).

Lemma sequential12 :
  correct_ret0 chol2 x1 P1 z2 H2 R2 = correct_ret0 chol12 x P z H R /\
  correct_ret1 chol2 P1 H2 R2 = correct_ret1 chol12 P H R.
Proof.
have sP1 : P1^T = P1 by apply: post_symmetric.
have uS1 := innov_unit c1; have uS2 := innov_unit c2.
rewrite (correct_mean _ _ sP1 sR2 c2) (correct_cov sP1 sR2 c2).
rewrite (correct_mean _ _ sP sR c12) (correct_cov sP sR c12).
rewrite /x1 /P1 (correct_mean _ _ sP sR1 c1) (correct_cov sP sR1 c1).
rewrite {}/P1 (correct_cov sP sR1 c1) in uS2.
by rewrite -(seq_joint_mean x z1 z2 uS1 uS2 uS) -(seq_joint_cov uS1 uS2 uS).
Qed.
End Order12.

(** block 2 first, then block 1 *)
Section Order21.
Let x1 := correct_ret0 chol2 x P z2 H2 R2.
Let P1 := correct_ret1 chol2 P H2 R2.
Hypothesis c2 : cholesky_spec chol2 (correct_S P H2 R2).
Hypothesis c1 : cholesky_spec chol1 (correct_S P1 H1 R1).

Lemma sequential21 :
  correct_ret0 chol1 x1 P1 z1 H1 R1 = correct_ret0 chol12 x P z H R /\
  correct_ret1 chol1 P1 H1 R1 = correct_ret1 chol12 P H R.
Proof.
have sP1 : P1^T = P1 by apply: post_symmetric.
have uS2 := innov_unit c2; have uS1 := innov_unit c1.
rewrite (correct_mean _ _ sP1 sR1 c1) (correct_cov sP1 sR1 c1).
rewrite (correct_mean _ _ sP sR c12) (correct_cov sP sR c12).
rewrite /x1 /P1 (correct_mean _ _ sP sR2 c2) (correct_cov sP sR2 c2).
rewrite {}/P1 (correct_cov sP sR2 c2) in uS1.
by rewrite -(seq_swap_joint_mean x z1 z2 uS2 uS1 uS) -(seq_swap_joint_cov uS2 uS1 uS).
Qed.
End Order21.

End SequentialGen.

(* ------------------------------------------------------------------ *)
(** * Positive definiteness: S = H P H^T + R is invertible for PSD P and
      positive definite R, so the Cholesky oracle only has to factorise *)
Section Pd.
Variable F : realFieldType.

Lemma pd_psd (n : nat) (A : 'M[F]_n) : pd A -> psd A.
Proof.
move=> pA x; have [->|nz] := eqVneq x 0; last exact/ltW/pA.
by rewrite mulmx0 mxE.
Qed.

Lemma pd_add_psd (n : nat) (A B : 'M[F]_n) : psd A -> pd B -> pd (A + B).
Proof.
move=> pA pB x nz; rewrite mulmxDr mulmxDl mxE.
by rewrite ltr_paddl ?pA ?pB.
Qed.

Lemma pd_unitmx (n : nat) (A : 'M[F]_n) : pd A -> A \in unitmx.
Proof.
move=> pA; rewrite -row_free_unit -kermx_eq0; apply/rowV0P => v /sub_kermxP vA.
apply/eqP; apply: contraT => nz.
have nzT : v^T != 0 by rewrite -trmx0 (inj_eq trmx_inj).
by have := pA _ nzT; rewrite trmxK vA mul0mx mxE ltxx.
Qed.

Lemma pd_block_diag (m1 m2 : nat) (R1 : 'M[F]_m1) (R2 : 'M[F]_m2) :
  pd R1 -> pd R2 -> pd (block_mx R1 0 0 R2).
Proof.
move=> p1 p2 x; rewrite -[x]vsubmxK; set x1 := usubmx x; set x2 := dsubmx x => nz.
rewrite tr_col_mx mul_row_block !mulmx0 addr0 add0r mul_row_col mxE.
have /orP[h|h] : (x1 != 0) || (x2 != 0).
- by rewrite -negb_and; apply: contra nz => /andP[/eqP-> /eqP->]; rewrite col_mx0.
- by rewrite ltr_paddr ?p1 //; apply: pd_psd.
- by rewrite ltr_paddl ?p2 //; apply: pd_psd.
Qed.

Lemma cholesky_spec_pd (m : nat) (chol : 'M[F]_m -> 'M[F]_m) (S : 'M[F]_m) :
  pd S -> cholesky_factor chol S -> cholesky_spec chol S.
Proof.
move=> /pd_unitmx uS [lo LLt]; split=> //; split=> //.
by move: uS; rewrite -{1}LLt unitmx_mul => /andP[].
Qed.

End Pd.

(* ------------------------------------------------------------------ *)
(** * The property as stated: P symmetric PSD, R symmetric positive definite,
      the Cholesky oracle returns a lower factor of S.  Invertibility of S and
      of the factor follow. *)
Section CorrectPD.
Variable F : realFieldType.
Variables n m : nat.
Variable cholesky : 'M[F]_m -> 'M[F]_m.
Variables (x : 'cV[F]_n) (P : 'M[F]_n) (z : 'cV[F]_m) (H : 'M[F]_(m, n)) (R : 'M[F]_m).

Hypothesis sP : P^T = P.
Hypothesis pP : psd P.
Hypothesis sR : R^T = R.
Hypothesis pR : pd R.
Hypothesis cF : cholesky_factor cholesky (correct_S P H R).

Lemma correct_S_pd : pd (correct_S P H R).
Proof. by rewrite correct_S_eq; apply: pd_add_psd => //; apply: psd_conj. Qed.

Lemma correct_chol_spec : cholesky_spec cholesky (correct_S P H R).
Proof. exact: cholesky_spec_pd correct_S_pd cF. Qed.

Let cS := correct_chol_spec.

(** (1) conditional mean and covariance of the linear-Gaussian model *)
Theorem correct_is_conditional :
  [/\ correct_ret0 cholesky x P z H R = cond_mean x P z H R,
      correct_ret1 cholesky P H R = cond_cov P H R,
      cond_cov P H R = schur_compl P (P *m H^T) (H *m P) (innov_cov P H R)
    & innov_cov P H R \in unitmx].
Proof.
split; [exact: correct_mean | exact: correct_cov | exact: cond_cov_schur | exact: innov_unit cS].
Qed.

(** (2) symmetric, PSD, not larger than the prior *)
Theorem correct_cov_properties :
  [/\ (correct_ret1 cholesky P H R)^T = correct_ret1 cholesky P H R,
      psd (correct_ret1 cholesky P H R)
    & loewner_le (correct_ret1 cholesky P H R) P].
Proof.
split; first exact: post_symmetric.
- exact/post_psd/pd_psd.
- by have [] := post_le_prior sP sR cS pP (pd_psd pR).
Qed.

(** (3) information form *)
Theorem correct_information : P \in unitmx ->
  [/\ info_mx P H R \in unitmx,
      correct_ret1 cholesky P H R = info_cov P H R
    & info_mx P H R *m correct_ret0 cholesky x P z H R = info_vec x P z H R].
Proof.
move=> uP; have uR := pd_unitmx pR.
have [eqI uI] := information_form_inv sP sR cS uP uR; split=> //.
exact: information_mean.
Qed.

(** (4) whitened innovation *)
Theorem correct_innovation :
  let L := correct_L cholesky P H R in
  let S := correct_S P H R in
  let e := z - H *m x in
  let nu := correct_ret2 cholesky x P z H R in
  [/\ is_lower L /\ L *m L^T = S,
      L \in unitmx /\ nu = invmx L *m e,
      nu^T *m nu = e^T *m invmx S *m e
    & invmx L *m S *m (invmx L)^T = 1%:M].
Proof.
have [e1 e2 e3 e4] := innovation_whitened x z cS.
split=> //; split=> //; exact: chol_unitL cS.
Qed.

End CorrectPD.

(** (5) two measurement blocks, in either order, against the joint update;
    P may be singular *)
Section SequentialPD.
Variable F : realFieldType.
Variables n m1 m2 : nat.
Variable chol1 : 'M[F]_m1 -> 'M[F]_m1.
Variable chol2 : 'M[F]_m2 -> 'M[F]_m2.
Variable chol12 : 'M[F]_(m1 + m2) -> 'M[F]_(m1 + m2).
Variables (x : 'cV[F]_n) (P : 'M[F]_n).
Variables (z1 : 'cV[F]_m1) (H1 : 'M[F]_(m1, n)) (R1 : 'M[F]_m1).
Variables (z2 : 'cV[F]_m2) (H2 : 'M[F]_(m2, n)) (R2 : 'M[F]_m2).

Hypothesis sP : P^T = P.
Hypothesis pP : psd P.
Hypothesis sR1 : R1^T = R1.
Hypothesis pR1 : pd R1.
Hypothesis sR2 : R2^T = R2.
Hypothesis pR2 : pd R2.

Local Notation z := (col_mx z1 z2).
Local Notation H := (col_mx H1 H2).
Local Notation R := (block_mx R1 0 0 R2).

Hypothesis c12 : cholesky_factor chol12 (correct_S P H R).

Theorem sequential_eq_joint :
  (let x1 := correct_ret0 chol1 x P z1 H1 R1 in
   let P1 := correct_ret1 chol1 P H1 R1 in
   cholesky_factor chol1 (correct_S P H1 R1) ->
   cholesky_factor chol2 (correct_S P1 H2 R2) ->
   correct_ret0 chol2 x1 P1 z2 H2 R2 = correct_ret0 chol12 x P z H R /\
   correct_ret1 chol2 P1 H2 R2 = correct_ret1 chol12 P H R)
  /\
  (let x1 := correct_ret0 chol2 x P z2 H2 R2 in
   let P1 := correct_ret1 chol2 P H2 R2 in
   cholesky_factor chol2 (correct_S P H2 R2) ->
   cholesky_factor chol1 (correct_S P1 H1 R1) ->
   correct_ret0 chol1 x1 P1 z1 H1 R1 = correct_ret0 chol12 x P z H R /\
   correct_ret1 chol1 P1 H1 R1 = correct_ret1 chol12 P H R).
Proof.
have s12 : cholesky_spec chol12 (correct_S P H R).
  by apply: correct_chol_spec => //; apply: pd_block_diag.
split=> /= cA cB.
- have sA := correct_chol_spec pP pR1 cA.
  apply: sequential12 => //.
  apply: correct_chol_spec => //; exact/post_psd/pd_psd.
- have sA := correct_chol_spec pP pR2 cA.
  apply: sequential21 => //.
  apply: correct_chol_spec => //; exact/post_psd/pd_psd.
Qed.

End SequentialPD.

(* ------------------------------------------------------------------ *)
(** * Non-vacuity: the hypotheses of the theorems above are satisfiable *)
Section Examples.
Variable F : realFieldType.

Lemma quad_scalar (n : nat) (a : F) (x : 'cV[F]_n) :
  (x^T *m a%:M *m x) 0 0 = a * \sum_k x k 0 ^+ 2.
Proof.
rewrite mul_mx_scalar -scalemxAl mxE mxE; congr (_ * _).
by apply: eq_bigr => k _; rewrite mxE expr2.
Qed.

Lemma psd_scalar (n : nat) (a : F) : 0 <= a -> psd (a%:M : 'M[F]_n).
Proof.
move=> a0 x; rewrite quad_scalar mulr_ge0 // sumr_ge0 // => k _.
exact: sqr_ge0.
Qed.

Lemma pd_scalar (n : nat) (a : F) : 0 < a -> pd (a%:M : 'M[F]_n).
Proof.
move=> a0 x nz; rewrite quad_scalar mulr_gt0 // lt_def sumr_ge0 ?andbT; last first.
  by move=> k _; exact: sqr_ge0.
apply: contra nz => /eqP/psumr_eq0P s0; apply/eqP/matrixP => i j.
have /eqP := s0 (fun k _ => sqr_ge0 (x k 0)) i isT.
by rewrite sqrf_eq0 ord1 mxE => /eqP.
Qed.

Lemma is_lower_scalar (n : nat) (a : F) : is_lower (a%:M : 'M[F]_n).
Proof. by move=> i j ltij; rewrite mxE -val_eqE (ltn_eqF ltij) mulr0n. Qed.

(** one update, 1 x 1:  P = 3, H = 1, R = 1, S = 4, L = 2 *)
Lemma example_correct :
  let P : 'M[F]_1 := 3%:R%:M in let H : 'M[F]_1 := 1%:M in let R : 'M[F]_1 := 1%:M in
  let chol : 'M[F]_1 -> 'M[F]_1 := fun=> 2%:R%:M in
  [/\ P^T = P /\ psd P, R^T = R /\ pd R, cholesky_factor chol (correct_S P H R)
    & P \in unitmx].
Proof.
split; rewrite ?tr_scalar_mx //.
- by split=> //; apply: psd_scalar; rewrite ler0n.
- by split=> //; apply: pd_scalar; rewrite ltr01.
- split; first exact: is_lower_scalar.
  rewrite /correct_S /innov_cov tr_scalar_mx !mul1mx trmx1 mulmx1.
  by rewrite -scalar_mxM -raddfD /= -natrM -(natrD _ 3 1).
- by rewrite unitmxE det_scalar1 unitfE pnatr_eq0.
Qed.

(** two blocks with a SINGULAR prior covariance: P = 0, R1 = R2 = 1, any H1 H2 *)
Lemma correct_ret1_P0 (n m : nat) (chol : 'M[F]_m -> 'M[F]_m) (H : 'M[F]_(m, n)) (R : 'M[F]_m) :
  correct_ret1 chol 0 H R = 0.
Proof.
rewrite /correct_ret1 /correct_K /correct_HP /cho_solve !mulmx0 trmx0 !mul0mx.
by rewrite addr0.
Qed.

Lemma correct_S_P0 (n m : nat) (H : 'M[F]_(m, n)) (R : 'M[F]_m) : correct_S 0 H R = R.
Proof. by rewrite /correct_S /innov_cov mulmx0 mul0mx add0r. Qed.

Lemma example_sequential (n m1 m2 : nat) (H1 : 'M[F]_(m1, n)) (H2 : 'M[F]_(m2, n)) :
  let P : 'M[F]_n := 0 in
  let R1 : 'M[F]_m1 := 1%:M in let R2 : 'M[F]_m2 := 1%:M in
  let chol1 : 'M[F]_m1 -> 'M[F]_m1 := fun=> 1%:M in
  let chol2 : 'M[F]_m2 -> 'M[F]_m2 := fun=> 1%:M in
  let chol12 : 'M[F]_(m1 + m2) -> 'M[F]_(m1 + m2) := fun=> 1%:M in
  [/\ (P^T = P /\ psd P) /\ (R1^T = R1 /\ pd R1) /\ (R2^T = R2 /\ pd R2),
      cholesky_factor chol12 (correct_S P (col_mx H1 H2) (block_mx R1 0 0 R2)),
      cholesky_factor chol1 (correct_S P H1 R1) /\
      cholesky_factor chol2 (correct_S (correct_ret1 chol1 P H1 R1) H2 R2)
    & cholesky_factor chol2 (correct_S P H2 R2) /\
      cholesky_factor chol1 (correct_S (correct_ret1 chol2 P H2 R2) H1 R1)].
Proof.
have fac k : cholesky_factor (fun=> 1%:M) (1%:M : 'M[F]_k).
  by split; [exact: is_lower_scalar | rewrite trmx1 mulmx1].
split; rewrite /= ?correct_ret1_P0 ?correct_S_P0 -?scalar_mx_block //.
by rewrite trmx0 !trmx1; do !split=> //; by [exact: psd0 | apply: pd_scalar; rewrite ltr01].
Qed.

End Examples.
