(** C07: kalman.correct (generated: Gen/Kalman.v) is the conditional-Gaussian
    update of Spec/Gaussian.v.  The Cholesky oracle enters only through
    [cholesky_spec] hypotheses. *)
From mathcomp Require Import all_ssreflect all_algebra.
From PV Require Import Spec.LibSpecsMx Spec.Gaussian Gen.Kalman.
Set Implicit Arguments.
Unset Strict Implicit.
Import GRing.Theory Num.Theory.
Local Open Scope ring_scope.

(* ------------------------------------------------------------------ *)
(** * Generic matrix facts *)
Section MxFacts.
Variable F : fieldType.

Lemma trmx_sub (m n : nat) (A B : 'M[F]_(m, n)) : (A - B)^T = A^T - B^T.
Proof. by rewrite linearB. Qed.

Lemma trmx_add (m n : nat) (A B : 'M[F]_(m, n)) : (A + B)^T = A^T + B^T.
Proof. by rewrite linearD. Qed.

Lemma invmx_sym (n : nat) (A : 'M[F]_n) : A^T = A -> (invmx A)^T = invmx A.
Proof. by move=> sA; rewrite trmx_inv sA. Qed.

(** left inverses of a unit matrix are unique *)
Lemma mulmx_can_unit (p n : nat) (S : 'M[F]_n) (A B : 'M[F]_(p, n)) :
  S \in unitmx -> A *m S = B *m S -> A = B.
Proof.
by move=> uS /(congr1 (mulmx^~ (invmx S))); rewrite -!mulmxA mulmxV // !mulmx1.
Qed.

End MxFacts.

(* ------------------------------------------------------------------ *)
(** * Characterising lemmas: the only place where the generated
      definitions are unfolded. *)
Section Characterise.
Variable F : fieldType.
Variables n m : nat.
Variable cholesky : 'M[F]_m -> 'M[F]_m.
Variables (x : 'cV[F]_n) (P : 'M[F]_n) (z : 'cV[F]_m) (H : 'M[F]_(m, n)) (R : 'M[F]_m).

Local Notation S := (correct_S P H R).
Local Notation L := (correct_L cholesky P H R).
Local Notation K := (correct_K cholesky P H R).
Local Notation U := (correct_U cholesky P H R).

Lemma correct_S_eq : S = innov_cov P H R.
Proof. by rewrite /correct_S /correct_HP /innov_cov. Qed.

Lemma correct_L_eq : L = cholesky S.
Proof. by []. Qed.

Lemma correct_e_eq : correct_e x z H = z - H *m x.
Proof. by []. Qed.

Lemma correct_K_raw : K = (invmx (L *m L^T) *m (H *m P))^T.
Proof. by rewrite /correct_K /cho_solve /correct_HP. Qed.

Lemma correct_U_eq : U = 1%:M - K *m H.
Proof. by []. Qed.

Lemma correct_ret0_eq : correct_ret0 cholesky x P z H R = x + K *m (z - H *m x).
Proof. by []. Qed.

Lemma correct_ret1_eq :
  correct_ret1 cholesky P H R = U *m P *m U^T + K *m R *m K^T.
Proof. by []. Qed.

Lemma correct_ret2_eq : correct_ret2 cholesky x P z H R = invmx L *m (z - H *m x).
Proof. by rewrite /correct_ret2 /solve_triangular. Qed.

End Characterise.

(* ------------------------------------------------------------------ *)
(** * Algebra of the Joseph form, for an arbitrary gain *)
Section Joseph.
Variable F : fieldType.
Variables n m : nat.
Variables (P : 'M[F]_n) (H : 'M[F]_(m, n)) (R : 'M[F]_m).

Local Notation S := (innov_cov P H R).

Definition joseph (K : 'M[F]_(n, m)) : 'M[F]_n :=
  (1%:M - K *m H) *m P *m (1%:M - K *m H)^T + K *m R *m K^T.

Lemma joseph_expand (K : 'M[F]_(n, m)) :
  joseph K = P - K *m H *m P - P *m H^T *m K^T + K *m S *m K^T.
Proof.
rewrite /joseph /innov_cov trmx_sub trmx1 trmx_mul.
rewrite mulmxBl mul1mx mulmxBr mulmx1 mulmxBr mulmx1.
rewrite (mulmxDr K) (mulmxDl _ _ K^T) !mulmxA.
by rewrite opprB addrA [in LHS]addrA.
Qed.

(** Any K solving the normal equation K S = P H^T collapses the Joseph form. *)
Lemma joseph_normal_eq (K : 'M[F]_(n, m)) :
  K *m S = P *m H^T -> joseph K = P - K *m H *m P.
Proof. by move=> KS; rewrite joseph_expand KS subrK. Qed.

Lemma joseph_sym (K : 'M[F]_(n, m)) : P^T = P -> R^T = R -> (joseph K)^T = joseph K.
Proof.
move=> sP sR; rewrite /joseph trmx_add !trmx_mul !trmxK sP sR.
by rewrite !mulmxA.
Qed.

Lemma innov_cov_sym : P^T = P -> R^T = R -> S^T = S.
Proof.
by move=> sP sR; rewrite /innov_cov trmx_add !trmx_mul trmxK sP sR mulmxA.
Qed.

Hypothesis uS : S \in unitmx.

Lemma gain_normal_eq : gain P H R *m S = P *m H^T.
Proof. by rewrite /gain -mulmxA mulVmx // mulmx1. Qed.

Lemma normal_eq_gain (K : 'M[F]_(n, m)) : K *m S = P *m H^T -> K = gain P H R.
Proof. by move=> KS; apply: (mulmx_can_unit uS); rewrite gain_normal_eq. Qed.

Lemma joseph_gain : joseph (gain P H R) = cond_cov P H R.
Proof. by rewrite (joseph_normal_eq gain_normal_eq). Qed.

(** P - P+ = K0 S K0^T *)
Lemma prior_minus_post :
  P^T = P -> R^T = R ->
  P - cond_cov P H R = gain P H R *m S *m (gain P H R)^T.
Proof.
move=> sP sR; rewrite /cond_cov opprB addrC subrK.
rewrite gain_normal_eq /gain !trmx_mul trmxK sP (invmx_sym (innov_cov_sym sP sR)).
by rewrite !mulmxA.
Qed.

(** cond_cov is the Schur complement of S in the joint covariance of (x, z) *)
Lemma cond_cov_schur :
  cond_cov P H R = schur_compl P (P *m H^T) (H *m P) S.
Proof. by rewrite /cond_cov /schur_compl /gain !mulmxA. Qed.

(** information form *)
Lemma cond_cov_info : P \in unitmx -> R \in unitmx ->
  cond_cov P H R *m info_mx P H R = 1%:M.
Proof.
move=> uP uR; rewrite /cond_cov /info_mx.
have KS := gain_normal_eq; set K := gain P H R in KS *.
have KHPHt : K *m H *m P *m H^T = P *m H^T - K *m R.
  by rewrite -KS /innov_cov mulmxDr !mulmxA addrK.
rewrite mulmxDr mulmxBl mulmxV // mulmxBl -!mulmxA (mulmxA P (invmx P)) mulmxV //.
rewrite mul1mx !mulmxA KHPHt mulmxBl -!mulmxA (mulmxA R) mulmxV // mul1mx.
by rewrite !mulmxA opprB addrA [X in X + _]addrAC subrK addrAC subrK.
Qed.

Lemma gain_info : P \in unitmx -> R \in unitmx ->
  gain P H R = cond_cov P H R *m H^T *m invmx R.
Proof.
move=> uP uR; rewrite /cond_cov.
have KS := gain_normal_eq; set K := gain P H R in KS *.
rewrite mulmxBl -!mulmxA (mulmxA P H^T) -KS /innov_cov mulmxDr !mulmxA.
by rewrite -mulmxBl opprD addrA addrAC subrr sub0r opprK -mulmxA mulmxV // mulmx1.
Qed.

End Joseph.
