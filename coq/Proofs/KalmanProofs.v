(** C07: kalman.correct (generated: Gen/Kalman.v) is the conditional-Gaussian
    update of Spec/Gaussian.v.  The Cholesky oracle enters only through
    [cholesky_spec] hypotheses. *)
From mathcomp Require Import all_ssreflect all_algebra.
From PV Require Import Spec.LibSpecsMx Spec.Gaussian Gen.Kalman.
Set Implicit Arguments.
Unset Strict Implicit.
Import GRing.Theory Num.Theory.
Local Open Scope ring_scope.

(* ------------------------------------------------------------------ *)
(** * Generic matrix facts *)
Section MxFacts.
Variable F : fieldType.

Lemma trmx_sub (m n : nat) (A B : 'M[F]_(m, n)) : (A - B)^T = A^T - B^T.
Proof. by rewrite linearB. Qed.

Lemma trmx_add (m n : nat) (A B : 'M[F]_(m, n)) : (A + B)^T = A^T + B^T.
Proof. by rewrite linearD. Qed.

Lemma invmx_sym (n : nat) (A : 'M[F]_n) : A^T = A -> (invmx A)^T = invmx A.
Proof. by move=> sA; rewrite trmx_inv sA. Qed.

(** left inverses of a unit matrix are unique *)
Lemma mulmx_can_unit (p n : nat) (S : 'M[F]_n) (A B : 'M[F]_(p, n)) :
  S \in unitmx -> A *m S = B *m S -> A = B.
Proof.
by move=> uS /(congr1 (mulmx^~ (invmx S))); rewrite -!mulmxA mulmxV // !mulmx1.
Qed.

End MxFacts.

(* ------------------------------------------------------------------ *)
(** * Characterising lemmas: the only place where the generated
      definitions are unfolded. *)
Section Characterise.
Variable F : fieldType.
Variables n m : nat.
Variable cholesky : 'M[F]_m -> 'M[F]_m.
Variables (x : 'cV[F]_n) (P : 'M[F]_n) (z : 'cV[F]_m) (H : 'M[F]_(m, n)) (R : 'M[F]_m).

Local Notation S := (correct_S P H R).
Local Notation L := (correct_L cholesky P H R).
Local Notation K := (correct_K cholesky P H R).
Local Notation U := (correct_U cholesky P H R).

Lemma correct_S_eq : S = innov_cov P H R.
Proof. by rewrite /correct_S /correct_HP /innov_cov. Qed.

Lemma correct_L_eq : L = cholesky S.
Proof. by []. Qed.

Lemma correct_e_eq : correct_e x z H = z - H *m x.
Proof. by []. Qed.

Lemma correct_K_raw : K = (invmx (L *m L^T) *m (H *m P))^T.
Proof. by rewrite /correct_K /cho_solve /correct_HP. Qed.

Lemma correct_U_eq : U = 1%:M - K *m H.
Proof. by []. Qed.

Lemma correct_ret0_eq : correct_ret0 cholesky x P z H R = x + K *m (z - H *m x).
Proof. by []. Qed.

Lemma correct_ret1_eq :
  correct_ret1 cholesky P H R = U *m P *m U^T + K *m R *m K^T.
Proof. by []. Qed.

Lemma correct_ret2_eq : correct_ret2 cholesky x P z H R = invmx L *m (z - H *m x).
Proof. by rewrite /correct_ret2 /solve_triangular. Qed.

End Characterise.

(* ------------------------------------------------------------------ *)
(** * Algebra of the Joseph form, for an arbitrary gain *)
Section Joseph.
Variable F : fieldType.
Variables n m : nat.
Variables (P : 'M[F]_n) (H : 'M[F]_(m, n)) (R : 'M[F]_m).

Local Notation S := (innov_cov P H R).

Definition joseph (K : 'M[F]_(n, m)) : 'M[F]_n :=
  (1%:M - K *m H) *m P *m (1%:M - K *m H)^T + K *m R *m K^T.

Lemma joseph_expand (K : 'M[F]_(n, m)) :
  joseph K = P - K *m H *m P - P *m H^T *m K^T + K *m S *m K^T.
Proof.
rewrite /joseph /innov_cov trmx_sub trmx1 trmx_mul.
rewrite mulmxBl mul1mx mulmxBr mulmx1 mulmxBl.
rewrite (mulmxDr K) (mulmxDl _ _ K^T) !mulmxA opprB !addrA.
by congr (_ + _); rewrite addrAC.
Qed.

(** Any K solving the normal equation K S = P H^T collapses the Joseph form. *)
Lemma joseph_normal_eq (K : 'M[F]_(n, m)) :
  K *m S = P *m H^T -> joseph K = P - K *m H *m P.
Proof. by move=> KS; rewrite joseph_expand KS subrK. Qed.

Lemma joseph_sym (K : 'M[F]_(n, m)) : P^T = P -> R^T = R -> (joseph K)^T = joseph K.
Proof.
move=> sP sR; rewrite /joseph trmx_add !trmx_mul !trmxK sP sR.
by rewrite !mulmxA.
Qed.

Lemma innov_cov_sym : P^T = P -> R^T = R -> S^T = S.
Proof.
by move=> sP sR; rewrite /innov_cov trmx_add !trmx_mul trmxK sP sR mulmxA.
Qed.

Hypothesis uS : S \in unitmx.

Lemma gain_normal_eq : gain P H R *m S = P *m H^T.
Proof. by rewrite /gain -mulmxA mulVmx // mulmx1. Qed.

Lemma normal_eq_gain (K : 'M[F]_(n, m)) : K *m S = P *m H^T -> K = gain P H R.
Proof. by move=> KS; apply: (mulmx_can_unit uS); rewrite gain_normal_eq. Qed.

Lemma joseph_gain : joseph (gain P H R) = cond_cov P H R.
Proof. by rewrite (joseph_normal_eq gain_normal_eq). Qed.

(** P - P+ = K0 S K0^T *)
Lemma prior_minus_post :
  P^T = P -> R^T = R ->
  P - cond_cov P H R = gain P H R *m S *m (gain P H R)^T.
Proof.
move=> sP sR; rewrite /cond_cov opprB addrC subrK.
rewrite gain_normal_eq /gain !trmx_mul trmxK sP (invmx_sym (innov_cov_sym sP sR)).
by rewrite !mulmxA.
Qed.

(** cond_cov is the Schur complement of S in the joint covariance of (x, z) *)
Lemma cond_cov_schur :
  cond_cov P H R = schur_compl P (P *m H^T) (H *m P) S.
Proof. by rewrite /cond_cov /schur_compl /gain !mulmxA. Qed.

(** information form *)
Lemma gain_HPHt :
  gain P H R *m H *m P *m H^T = P *m H^T - gain P H R *m R.
Proof. by rewrite -gain_normal_eq /innov_cov mulmxDr !mulmxA addrK. Qed.

Lemma cond_cov_info : P \in unitmx -> R \in unitmx ->
  cond_cov P H R *m info_mx P H R = 1%:M.
Proof.
move=> uP uR; rewrite /cond_cov /info_mx.
rewrite mulmxDr mulmxBl mulmxV // mulmxBl (mulmxK uP).
rewrite !mulmxA gain_HPHt mulmxBl (mulmxK uR) mulmxBl opprB.
by rewrite [_ + (_ - _)]addrC subrK subrK.
Qed.

Lemma gain_info : R \in unitmx ->
  gain P H R = cond_cov P H R *m H^T *m invmx R.
Proof.
move=> uR; rewrite /cond_cov mulmxBl gain_HPHt opprB addrC subrK.
by rewrite (mulmxK uR).
Qed.

End Joseph.

(* ------------------------------------------------------------------ *)
(** * Positive semidefiniteness (ordered field) *)
Section Psd.
Variable F : realFieldType.

Lemma psd_add (n : nat) (A B : 'M[F]_n) : psd A -> psd B -> psd (A + B).
Proof.
move=> pA pB x; rewrite mulmxDr mulmxDl mxE.
by rewrite addr_ge0 ?pA ?pB.
Qed.

Lemma psd_conj (n p : nat) (A : 'M[F]_n) (B : 'M[F]_(p, n)) :
  psd A -> psd (B *m A *m B^T).
Proof.
move=> pA x; have := pA (B^T *m x).
by rewrite trmx_mul trmxK !mulmxA.
Qed.

Lemma psd0 (n : nat) : psd (0 : 'M[F]_n).
Proof. by move=> x; rewrite mulmx0 mul0mx mxE. Qed.

Section Update.
Variables n m : nat.
Variables (P : 'M[F]_n) (H : 'M[F]_(m, n)) (R : 'M[F]_m).

(** Joseph form is PSD for PSD P, R and ANY gain. *)
Lemma joseph_psd (K : 'M[F]_(n, m)) : psd P -> psd R -> psd (joseph P H R K).
Proof. by move=> pP pR; apply: psd_add; apply: psd_conj. Qed.

Lemma innov_cov_psd : psd P -> psd R -> psd (innov_cov P H R).
Proof. by move=> pP pR; apply: psd_add => //; apply: psd_conj. Qed.

Lemma cond_cov_le_prior :
  innov_cov P H R \in unitmx -> P^T = P -> R^T = R -> psd P -> psd R ->
  loewner_le (cond_cov P H R) P.
Proof.
move=> uS sP sR pP pR; rewrite /loewner_le (prior_minus_post uS sP sR).
exact/psd_conj/innov_cov_psd.
Qed.

End Update.
End Psd.

(* ------------------------------------------------------------------ *)
(** * The generated [correct] (field-level statements) *)
Section Correct.
Variable F : fieldType.
Variables n m : nat.
Variable cholesky : 'M[F]_m -> 'M[F]_m.
Variables (x : 'cV[F]_n) (P : 'M[F]_n) (z : 'cV[F]_m) (H : 'M[F]_(m, n)) (R : 'M[F]_m).

Hypothesis sP : P^T = P.
Hypothesis sR : R^T = R.
Hypothesis cS : cholesky_spec cholesky (correct_S P H R).

Local Notation S := (correct_S P H R).
Local Notation L := (correct_L cholesky P H R).

Lemma chol_LLt : L *m L^T = S.
Proof. by case: cS => _ []. Qed.

Lemma chol_unitL : L \in unitmx.
Proof. by case: cS => _ []. Qed.

Lemma chol_lower : is_lower L.
Proof. by case: cS. Qed.

Lemma chol_unitS : S \in unitmx.
Proof. by rewrite -chol_LLt unitmx_mul unitmx_tr chol_unitL. Qed.

Lemma innov_unit : innov_cov P H R \in unitmx.
Proof. by rewrite -correct_S_eq chol_unitS. Qed.

Lemma correct_K_gain : correct_K cholesky P H R = gain P H R.
Proof.
rewrite correct_K_raw chol_LLt correct_S_eq /gain !trmx_mul sP.
by rewrite (invmx_sym (innov_cov_sym H sP sR)).
Qed.

Lemma correct_ret1_joseph :
  correct_ret1 cholesky P H R = joseph P H R (correct_K cholesky P H R).
Proof. by rewrite correct_ret1_eq correct_U_eq. Qed.

(** (1) conditional mean and covariance *)
Lemma correct_mean :
  correct_ret0 cholesky x P z H R = cond_mean x P z H R.
Proof. by rewrite correct_ret0_eq correct_K_gain. Qed.

Lemma correct_cov :
  correct_ret1 cholesky P H R = cond_cov P H R.
Proof. by rewrite correct_ret1_joseph correct_K_gain (joseph_gain innov_unit). Qed.

Theorem correct_mean_cov :
  correct_ret0 cholesky x P z H R
    = x + (P *m H^T *m invmx (H *m P *m H^T + R)) *m (z - H *m x)
  /\ correct_ret1 cholesky P H R
    = P - (P *m H^T *m invmx (H *m P *m H^T + R)) *m H *m P.
Proof. by rewrite correct_mean correct_cov. Qed.

(** (2a) symmetry *)
Theorem post_symmetric : (correct_ret1 cholesky P H R)^T = correct_ret1 cholesky P H R.
Proof. by rewrite correct_ret1_joseph; apply: joseph_sym. Qed.

(** (3) information form *)
Theorem information_form : P \in unitmx -> R \in unitmx ->
  correct_ret1 cholesky P H R *m (invmx P + H^T *m invmx R *m H) = 1%:M.
Proof. by move=> uP uR; rewrite correct_cov; apply: cond_cov_info innov_unit uP uR. Qed.

Corollary information_form_inv : P \in unitmx -> R \in unitmx ->
  correct_ret1 cholesky P H R = info_cov P H R
  /\ info_mx P H R \in unitmx.
Proof.
move=> uP uR; have PI := information_form uP uR.
have [uI _] := mulmx1_unit PI; have [_ uJ] := mulmx1_unit PI; split=> //.
by rewrite /info_cov -[LHS]mulmx1 -(mulmxV uJ) mulmxA PI mul1mx.
Qed.

(** information-vector form of the mean *)
Theorem information_mean : P \in unitmx -> R \in unitmx ->
  info_mx P H R *m correct_ret0 cholesky x P z H R = info_vec x P z H R.
Proof.
move=> uP uR; have PI := information_form uP uR.
have IP : info_mx P H R *m correct_ret1 cholesky P H R = 1%:M by apply/mulmx1C.
rewrite correct_mean /cond_mean (gain_info innov_unit uR) -correct_cov.
rewrite mulmxDr !mulmxA IP mul1mx /info_vec /info_mx mulmxDl.
rewrite -addrA; congr (_ + _).
by rewrite -(mulmxA _ H x) -mulmxDr addrCA subrr addr0.
Qed.

(** (4) whitened innovation *)
Theorem innovation_whitened :
  [/\ correct_ret2 cholesky x P z H R = invmx L *m correct_e x z H,
      (correct_ret2 cholesky x P z H R)^T *m correct_ret2 cholesky x P z H R
        = (correct_e x z H)^T *m invmx S *m correct_e x z H,
      invmx L *m S *m (invmx L)^T = 1%:M
    & is_lower L /\ L *m L^T = S].
Proof.
have uL := chol_unitL; split.
- by rewrite correct_ret2_eq.
- rewrite correct_ret2_eq correct_e_eq trmx_mul !mulmxA -chol_LLt.
  by rewrite invmxM ?unitmx_tr // trmx_inv !mulmxA.
- by rewrite -chol_LLt mulmxA (mulVmx uL) mul1mx trmx_inv mulmxV ?unitmx_tr.
- by split; [apply: chol_lower | apply: chol_LLt].
Qed.

End Correct.
