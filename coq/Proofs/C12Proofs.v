(* ------------------------------------------------------------------------- *)
(*  C12 — feedback filter: transparent without data, re-runnable, and equal to  *)
(*  the feedforward filter in the linearised world.                             *)
(*                                                                             *)
(*  Part 1  fb_transparent: no stamp in [t0, t_end)  =>  no correction, the     *)
(*          integrated batches are the increment table in order, and by C02 the *)
(*          trajectory is that of ONE integrate call; correct_increments with   *)
(*          reset estimates is the identity (exact numbers)                     *)
(*  Part 2  rerun_identical: a client of the estimate state whose first         *)
(*          operation is reset_estimates sees the same observations from every  *)
(*          prior state                                                         *)
(*  Part 3  feedback_first_order_partial (MathComp): shift equivariance of the  *)
(*          Kalman corrections; one measurement epoch of the feedback filter    *)
(*          equals the feedforward one when correct_pva is an exact group action*)
(*          and the measurement residuals are related linearly                  *)
(* ------------------------------------------------------------------------- *)
From Coq Require Import List QArith Bool Arith Lia Lqa Sorted Qcanon.
From PV Require Import Model.FeedbackSched Model.FilterFlow Proofs.SchedProofs.
From PV Require Model.Integrator Model.SensorModel Proofs.IntegratorProofs.
Import ListNotations.

(* ========================================================================= *)
(*  Part 1                                                                   *)
(* ========================================================================= *)

Lemma chunk_nth {A : Type} (d : A) (l : list A) : forall a k, (a + k <= length l)%nat ->
  firstn k (skipn a l) = map (fun i => nth i l d) (seq a k).
Proof.
  induction l as [|x l IH]; intros a k H; cbn in H.
  - assert (a = 0 /\ k = 0)%nat as [-> ->] by lia. reflexivity.
  - destruct a as [|a].
    + cbn [skipn]. destruct k as [|k]; [reflexivity|].
      cbn [firstn seq map nth]. f_equal.
      specialize (IH 0%nat k). cbn [skipn] in IH.
      rewrite IH by lia. rewrite <- seq_shift, map_map. reflexivity.
    + cbn [skipn]. rewrite IH by lia. rewrite <- seq_shift, map_map. reflexivity.
Qed.

Lemma map_nth_seq_gen {A : Type} (d : A) (l : list A) :
  map (fun i => nth i l d) (seq 0 (length l)) = l.
Proof.
  induction l as [|x l IH]; [reflexivity|].
  cbn [length seq map nth]. f_equal.
  rewrite <- seq_shift, map_map. exact IH.
Qed.

Section Transparent.
  Variables prow inc : Type.
  Variable on_innov : nat -> Q -> Q -> list (Integrator.op prow inc).
  Variable data : list inc.

  Local Notation ops := (fb_integrator_ops on_innov data).
  Local Notation chunk_of := (fun e => match e with
                                       | Integrate a b => firstn (b - a) (skipn a data)
                                       | _ => [] end).

  Lemma all_incs_app : forall (l1 l2 : list (Integrator.op prow inc)),
    Integrator.all_incs (l1 ++ l2) = Integrator.all_incs l1 ++ Integrator.all_incs l2.
  Proof.
    induction l1 as [|o l1 IH]; intro l2; [reflexivity|].
    destruct o; cbn [app Integrator.all_incs]; rewrite IH; [now rewrite app_assoc| | | |]; reflexivity.
  Qed.

  Lemma ops_no_innov : forall tr, (forall k m t, ~ In (Innov k m t) tr) ->
    Integrator.all_incs (ops tr) = flat_map chunk_of tr /\
    existsb Integrator.is_setpva (ops tr) = false.
  Proof.
    induction tr as [|e tr IH]; intro H; [split; reflexivity|].
    assert (H' : forall k m t, ~ In (Innov k m t) tr) by (intros k m t Hin; apply (H k m t); now right).
    destruct (IH H') as [IH1 IH2].
    unfold fb_integrator_ops in *. cbn [flat_map].
    destruct e as [k m t|t|a b|i j| |]; cbn [app].
    - exfalso. apply (H k m t). now left.
    - split; assumption.
    - split.
      + cbn [Integrator.all_incs]. now rewrite IH1.
      + cbn [existsb Integrator.is_setpva orb]. exact IH2.
    - split; assumption.
    - split; assumption.
    - split; assumption.
  Qed.

  Lemma chunks_by_index : forall (d : inc) tr,
    (forall a b, In (Integrate a b) tr -> (a < b)%nat /\ (b <= length data)%nat) ->
    flat_map chunk_of tr = map (fun i => nth i data d) (integrated tr).
  Proof.
    intros d. induction tr as [|e tr IH]; intro H; [reflexivity|].
    assert (H' : forall a b, In (Integrate a b) tr -> (a < b)%nat /\ (b <= length data)%nat)
      by (intros a b Hin; apply H; now right).
    unfold integrated in *. cbn [flat_map]. rewrite map_app, (IH H').
    destruct e as [k m t|t|a b|i j| |]; try reflexivity.
    f_equal. destruct (H a b ltac:(now left)) as [Hab Hb].
    apply chunk_nth. lia.
  Qed.
End Transparent.

(* (a) fb_transparent.  t0 = initial_pva.name, incs = increments.index, data = the rows of the increment
   table, sensors = the stamps of every measurement object (measurements=None / [] : sensors = []).
   If no stamp lies in [t0, t_end):
     - the loop terminates and performs no correction at all (no Innov event, hence no set_pva, no
       update_estimates: the estimates stay at their reset values);
     - the operations issued to the strapdown integrator contain no set_pva and the concatenation of the
       integrated batches is the increment table, each row once, in order;
     - hence (C02, integrate_chunks) the integrator ends with exactly the trajectory of the single call
       Integrator(initial, with_altitude).integrate(increments), for every kernel step function, both
       altitude modes, every time step and every buffer capacity. *)
Theorem fb_transparent :
  forall (brow prow inc time : Type) (kstep : bool -> brow -> inc -> brow)
         (to_pub : brow -> prow) (of_pub : prow -> brow) (zero_vd : prow -> prow)
         (inc_time : inc -> time) (g g' : brow) (b : bool) (cap cap' : nat) (tinit : time) (p : prow)
         (on_innov : nat -> Q -> Q -> list (Integrator.op prow inc)) (data : list inc)
         add_step t0 incs sensors fuel,
  (forall t, t <= add_step t)%Q -> StronglySorted Qlt (t0 :: incs) -> incs <> [] ->
  (length incs <= fuel)%nat -> length data = length incs -> (1 <= cap)%nat -> (1 <= cap')%nat ->
  (forall s x, In s sensors -> In x s -> ~ (t0 <= x /\ x < last incs t0)%Q) ->
  let tr := fb_run fuel add_step t0 incs sensors in
  let ops := fb_integrator_ops on_innov data tr in
  completed tr = true /\
  (forall k m t, ~ In (Innov k m t) tr) /\
  existsb Integrator.is_setpva ops = false /\
  Integrator.all_incs ops = data /\
  exists s os s1 os1,
    Integrator.run_init kstep to_pub of_pub zero_vd inc_time g b cap tinit p ops = Some (s, os) /\
    Integrator.run_init kstep to_pub of_pub zero_vd inc_time g' b cap' tinit p
      [Integrator.Integrate data] = Some (s1, os1) /\
    Integrator.traj s = Integrator.traj s1.
Proof.
  intros brow prow inc time kstep to_pub of_pub zero_vd inc_time g g' b cap cap' tinit p on_innov data
         add_step t0 incs sensors fuel Hstep Hs Hne Hfuel Hlen Hcap Hcap' Hnone tr ops.
  pose proof (fb_terminates_oracle add_step t0 incs sensors fuel Hstep Hs Hne Hfuel) as Hterm.
  pose proof (fb_no_meas_single_pass_oracle add_step t0 incs sensors fuel Hstep Hs Hne Hfuel Hnone) as Hno.
  destruct (fb_imu_exactly_once_oracle add_step t0 incs sensors fuel Hstep Hs Hne Hfuel) as (Hint & Hbat & _).
  fold tr in Hterm, Hno, Hint, Hbat.
  destruct (ops_no_innov prow inc on_innov data tr Hno) as [Hall Hset]. fold ops in Hall, Hset.
  assert (Hdata : Integrator.all_incs ops = data).
  { rewrite Hall. destruct data as [|d0 data'] eqn:Ed.
    { exfalso. destruct incs; [congruence|discriminate Hlen]. }
    rewrite <- Ed in *.
    rewrite (chunks_by_index inc data d0 tr).
    - rewrite Hint, <- Hlen. apply map_nth_seq_gen.
    - intros a c Hin. rewrite Hlen. now apply Hbat. }
  split; [exact Hterm|]. split; [exact Hno|]. split; [exact Hset|]. split; [exact Hdata|].
  destruct (IntegratorProofs.integrate_chunks_gen brow prow inc time kstep to_pub of_pub zero_vd inc_time
              g g' b cap cap' tinit p ops Hcap Hcap' Hset) as (s & os & s1 & os1 & H1 & H2 & H3 & _).
  rewrite Hdata in H2. now exists s, os, s1, os1.
Qed.

(* correct_increments with reset estimates (transform = I, bias = 0) is the identity on exact numbers:
   solve(I, v - 0 * dt) = v *)
Lemma correct_increments_reset : forall (dt : Qc) (v : SensorModel.V3 Qc),
  SensorModel.correct_increments SensorModel.reset dt v = Some v.
Proof.
  intros dt [a b c].
  unfold SensorModel.correct_increments, SensorModel.reset, SensorModel.solve3.
  cbn [SensorModel.e_T SensorModel.e_b].
  assert (Hdet : SensorModel.det3 SensorModel.ident3 = 1%Qc) by (apply Qc_is_canon; reflexivity).
  rewrite Hdet.
  destruct (Qc_eq_dec 1 0) as [E|_].
  { exfalso. apply (f_equal this) in E. vm_compute in E. discriminate E. }
  f_equal.
  unfold SensorModel.scale3, SensorModel.mv3, SensorModel.adj3, SensorModel.sub3, SensorModel.zero3,
    SensorModel.ident3, SensorModel.dot3.
  cbn [SensorModel.c0 SensorModel.c1 SensorModel.c2].
  f_equal; field; intro E; apply (f_equal this) in E; vm_compute in E; discriminate E.
Qed.

(* ... for a whole batch of rows, and for every state reached by reset *)
Lemma correct_increments_reset_batch : forall (rows : list (Qc * SensorModel.V3 Qc)),
  map (fun r => SensorModel.correct_increments SensorModel.reset (fst r) (snd r)) rows =
  map (fun r => Some (snd r)) rows.
Proof. intro rows. apply map_ext. intros [dt v]. apply correct_increments_reset. Qed.

(* ========================================================================= *)
(*  Part 2                                                                   *)
(* ========================================================================= *)

(* (b) rerun_identical.  Both run functions call reset_estimates() on both models before anything reads
   or changes `transform` / `bias`.  For a client of the estimate state whose FIRST operation is the
   reset -- every later operation may depend on all earlier observations -- the complete sequence of
   observations and the final estimate state are the same from every prior state. *)
Lemma est_step_reset : forall m st, est_step m EReset st = (SensorModel.reset, ONone).
Proof. reflexivity. Qed.

Theorem rerun_identical : forall (m : SensorModel.emodel) (client : list est_obs -> option est_op)
                                 (fuel : nat) (st1 st2 : SensorModel.est),
  client [] = Some EReset ->
  est_play m client (S fuel) [] st1 = est_play m client (S fuel) [] st2.
Proof. intros m client fuel st1 st2 H. cbn [est_play]. rewrite H. reflexivity. Qed.

(* the run from any state IS the run from the reset state *)
Corollary rerun_is_run_from_reset : forall m client fuel st,
  client [] = Some EReset ->
  est_play m client (S fuel) [] st = est_play m client (S fuel) [] SensorModel.reset.
Proof. intros. now apply rerun_identical. Qed.

(* the hypothesis is necessary: a client that reads first (here: corrects an increment with whatever
   bias is stored) distinguishes prior states *)
Lemma rerun_needs_reset : exists m client st1 st2,
  client [] = Some (ECorrect 1%Qc (SensorModel.mk3 0%Qc 0%Qc 0%Qc)) /\
  snd (est_play m client 1 [] st1) <> snd (est_play m client 1 [] st2).
Proof.
  pose (m := SensorModel.mk_emodel [] 0 0 0 [] [] [] [] [] [] []).
  exists m, (fun h => match h with
                      | [] => Some (ECorrect 1%Qc (SensorModel.mk3 0%Qc 0%Qc 0%Qc))
                      | _ => None end),
    SensorModel.reset,
    (SensorModel.mk_est SensorModel.ident3 (SensorModel.mk3 1%Qc 0%Qc 0%Qc)).
  split; [reflexivity|]. vm_compute. intro E. discriminate E.
Qed.

(* ========================================================================= *)
(*  Part 3 (MathComp)                                                        *)
(* ========================================================================= *)
From mathcomp Require Import all_ssreflect all_algebra.
From PV Require Import Spec.LibSpecsMx Spec.Gaussian Gen.Kalman Proofs.KalmanProofs.
Set Implicit Arguments.
Unset Strict Implicit.
Import Order.Theory GRing.Theory Num.Theory.
Local Open Scope ring_scope.

Section CycleProofs.
Variable F : realFieldType.
Variables ni ns : nat.
Local Notation n := (ni + ns)%N.
Variable md : nat -> nat.
Variable Hs : forall k : nat, 'M[F]_(md k, n).
Variable Rs : forall k : nat, 'M[F]_(md k).
Variable chols : forall k : nat, 'M[F]_(md k) -> 'M[F]_(md k).

Hypothesis R_sym : forall k, (Rs k)^T = Rs k.
Hypothesis R_pd : forall k, pd (Rs k).
Hypothesis chol_ok : forall k (P : 'M[F]_n), P^T = P -> psd P ->
  cholesky_factor (@chols k) (correct_S P (Hs k) (Rs k)).

Local Notation crun := (@corr_run F ni ns md Hs Rs chols).

(* the covariance sequence does not depend on the state and on the measured values *)
Lemma corr_run_cov zs zs' N x x' P : (crun zs N (x, P)).2 = (crun zs' N (x', P)).2.
Proof. by elim: N => [|N IH] //=; rewrite IH. Qed.

Lemma corr_run_ok zs N x P : P^T = P -> psd P ->
  (crun zs N (x, P)).2^T = (crun zs N (x, P)).2 /\ psd (crun zs N (x, P)).2.
Proof.
move=> sP pP; elim: N => [|N [sN pN]] //=.
have cF := chol_ok N sN pN.
by have [s1 p1 _] := correct_cov_properties sN pN (R_sym N) (@R_pd N) cF.
Qed.

(* SHIFT EQUIVARIANCE: running the corrections of an epoch from the prior mean x with residuals z_k
   is the same as running them from 0 with residuals z_k - H_k x and adding x afterwards *)
Theorem corr_run_shift zs N x P : P^T = P -> psd P ->
  crun zs N (x, P) =
  ((crun (fun k => zs k - Hs k *m x) N (0, P)).1 + x, (crun (fun k => zs k - Hs k *m x) N (0, P)).2).
Proof.
move=> sP pP; elim: N => [|N IH] /=; first by rewrite add0r.
set zs0 := fun k => zs k - Hs k *m x.
have [sN pN] := corr_run_ok zs0 N 0 sP pP.
have cF := chol_ok N sN pN.
rewrite IH /=.
have [-> _ _ _] := correct_is_conditional ((crun zs0 N (0, P)).1 + x) (zs N) sN pN (R_sym N) (@R_pd N) cF.
have [-> _ _ _] := correct_is_conditional (crun zs0 N (0, P)).1 (zs0 N) sN pN (R_sym N) (@R_pd N) cF.
congr (_, _).
rewrite /cond_mean /zs0.
have -> : zs N - Hs N *m ((crun zs0 N (0, P)).1 + x) = zs N - Hs N *m x - Hs N *m (crun zs0 N (0, P)).1.
  by rewrite mulmxDr opprD addrA addrAC.
by rewrite [LHS]addrAC.
Qed.

Lemma corr_run_ext zs zs' N s : (forall k, zs k = zs' k) -> crun zs N s = crun zs' N s.
Proof. by move=> e; elim: N => [|N IH] //=; rewrite IH e. Qed.

(* ---- one measurement epoch: feedback = feedforward in the linearised world ---- *)
Variable Nav : Type.
Variable sub : Nav -> 'cV[F]_ni -> Nav.
(* correct_pva as an exact action of the additive group of error vectors.  For the real
   error_model.correct_pva this holds to first order in the errors (C05); the second-order defect is
   what makes the two filters differ, and is NOT bounded here. *)
Hypothesis sub_add : forall v a b, sub (sub v a) b = sub v (a + b).

(* (c) feedback_first_order_partial.  Invariant linking the two filters before the epoch:
       nav_fb = nav_raw (-) x_ins      (the feedback filter has already applied the carried error)
       est_fb = x_sensor               (update_estimates accumulates additively: C14)
       same covariance P.
   If the measurement residuals of the two filters are related by z_fb = z_ff - H_full x (the residual is
   evaluated at the corrected / uncorrected trajectory: equality to first order by C06), then after the
   epoch (x := 0; corrections; set_pva(correct_pva(pva, x)); update_estimates(x)) the feedback filter's
   navigation state, sensor estimates and covariance ARE the feedforward filter's outputs. *)
Theorem feedback_first_order_partial
  (zs_ff zs_fb : forall k : nat, 'cV[F]_(md k)) (N : nat)
  (nav_raw : Nav) (x : 'cV[F]_n) (P : 'M[F]_n) :
  P^T = P -> psd P ->
  (forall k, zs_fb k = zs_ff k - Hs k *m x) ->
  @fb_cycle F ni ns md Hs Rs chols Nav sub zs_fb N (sub nav_raw (usubmx x), dsubmx x, P) =
  @ff_output F ni ns Nav sub nav_raw (@ff_cycle F ni ns md Hs Rs chols zs_ff N (x, P)).
Proof.
move=> sP pP ez.
rewrite /fb_cycle /ff_output /ff_cycle /= (corr_run_shift zs_ff N x sP pP).
rewrite (@corr_run_ext zs_fb (fun k => zs_ff k - Hs k *m x) N _ ez) /=.
set x' := (crun _ N (0, P)).1.
by rewrite sub_add !linearD /= [usubmx x + _]addrC [dsubmx x + _]addrC.
Qed.

(* the invariant holds at the start of both runs: x = 0, estimates reset *)
Lemma cycle_invariant_init (nav_raw : Nav) :
  (forall v, sub v 0 = v) ->
  (sub nav_raw (usubmx (0 : 'cV[F]_n)), dsubmx (0 : 'cV[F]_n)) = (nav_raw, (0 : 'cV[F]_ns)).
Proof. by move=> s0; rewrite !linear0 s0. Qed.
End CycleProofs.

(* non-vacuity of the hypotheses of Part 3 over any real field: H = 0, R = 1, and the action
   sub v a = v - a on Nav = vectors *)
Lemma example_cycle_hyps (F : realFieldType) (ni ns : nat) :
  let md := fun _ : nat => 1%N in
  let Hs := fun _ : nat => (0 : 'M[F]_(1, ni + ns)) in
  let Rs := fun _ : nat => (1%:M : 'M[F]_1) in
  let chols := fun (_ : nat) (_ : 'M[F]_1) => (1%:M : 'M[F]_1) in
  let sub := fun (v a : 'cV[F]_ni) => v - a in
  [/\ forall k, (Rs k)^T = Rs k, forall k, pd (Rs k),
      forall k (P : 'M[F]_(ni + ns)), P^T = P -> psd P -> cholesky_factor (chols k) (correct_S P (Hs k) (Rs k))
    & forall v a b, sub (sub v a) b = sub v (a + b)].
Proof.
move=> md Hs Rs chols sub; split=> [k|k|k P _ _|v a b].
- by rewrite trmx1.
- by apply: pd_scalar; rewrite ltr01.
- rewrite correct_S_eq /innov_cov !mul0mx add0r.
  by split; [exact: is_lower_scalar | rewrite mul1mx trmx1].
- by rewrite /sub opprD addrA.
Qed.
