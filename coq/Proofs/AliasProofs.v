(** * C19 — soundness of the purity checker of [Model/Alias.v]

    [checker_sound]: if [check_fun] accepts a function (given ANY points-to solution [h] —
    the solution is validated, not trusted) then in every flow-insensitive execution of its
    statement set from an entry state in which the caller's memory, the receiver's private
    state and numpy's global generator are separate regions,
      - no cell of the caller's region is ever written,
      - no draw from numpy's module-level generator happens, and (unless the function is a
        documented user) no draw from the global generator object,
      - state slots of caller objects are rebound/updated only if white-listed (the
        estimate state of sensor models handed to a filter) and read only if declared
        readable.
    The proof is an invariant over executions: a labelling of every allocated cell by an
    allocation site such that [env x c -> label c ∈ pt x] and
    [edge a b -> label b ∈ cont (label a)]. *)
From Coq Require Import List Arith Bool PArith FMapPositive Relations Lia.
From PV Require Import Model.Alias.
Import ListNotations.

(** ** boolean helpers *)
Lemma memp_In : forall x l, memp x l = true <-> In x l.
Proof.
  intros x l. unfold memp. rewrite existsb_exists. split.
  - intros [y [Hy He]]. apply Pos.eqb_eq in He. subst. exact Hy.
  - intros H. exists x. split; [exact H | apply Pos.eqb_refl].
Qed.

Lemma memp_false : forall x l, memp x l = false -> ~ In x l.
Proof.
  intros x l H Hin. apply memp_In in Hin. rewrite Hin in H. discriminate.
Qed.

Lemma memn_In : forall x l, memn x l = true <-> In x l.
Proof.
  intros x l. unfold memn. rewrite existsb_exists. split.
  - intros [y [Hy He]]. apply Nat.eqb_eq in He. subst. exact Hy.
  - intros H. exists x. split; [exact H | apply Nat.eqb_refl].
Qed.

Lemma inclb_incl : forall a b, inclb a b = true -> forall x, In x a -> In x b.
Proof.
  intros a b H x Hx. unfold inclb in H. rewrite forallb_forall in H.
  apply memp_In. apply H. exact Hx.
Qed.

Lemma reach_closed_step : forall h l o o',
  reach_closed h l = true -> In o l -> In o' (cont h o) -> In o' l.
Proof.
  intros h l o o' H Ho Ho'. unfold reach_closed in H. rewrite forallb_forall in H.
  eapply inclb_incl; [apply H; exact Ho | exact Ho'].
Qed.

(** ** the invariant *)
Section Soundness.
  Variables (h : hints) (s0 : state) (lab0 : cell -> site).

  Record inv (lab : cell -> site) (s : state) : Prop := mkInv {
    i_env : forall x c, env s x c -> In (lab c) (pt h x);
    i_edge : forall a b, edges s a b -> In (lab b) (cont h (lab a));
    i_envalloc : forall x c, env s x c -> alloc s c;
    i_edgealloc : forall a b, edges s a b -> alloc s a /\ alloc s b;
    i_mono : forall c, alloc s0 c -> alloc s c;
    i_entry : forall c, alloc s0 c -> lab c = lab0 c }.

  Lemma inv_reach : forall lab s l d c,
    inv lab s -> reach_closed h l = true -> reach s d c -> In (lab d) l -> In (lab c) l.
  Proof.
    intros lab s l d c Hi Hc Hr. induction Hr as [d | d e c He Hr IH]; intros Hd.
    - exact Hd.
    - apply IH. eapply reach_closed_step; [exact Hc | exact Hd | ].
      apply (i_edge _ _ Hi). exact He.
  Qed.

  (** one step preserves the invariant (for a possibly extended labelling) *)
  Lemma step_inv : forall lab s st oe s',
    inv lab s -> valid_stmt h st = true -> step s st oe s' ->
    exists lab', inv lab' s'.
  Proof.
    intros lab s st oe s' Hi Hv Hs.
    destruct Hs as [x c s' Hna Hx Hy He Ha
                   | x y s' Hx Hz He Ha
                   | x y s' Hx Hz He Ha
                   | x y s' Hx Hz He Ha
                   | x y s' Hz He1 He2 Ha
                   | x c Hc | | r c Hc | g r c Hc | g r c Hc];
      try (exists lab; exact Hi).
    - (* Fresh *)
      exists (fun d => if Nat.eqb d c then x else lab d).
      assert (Hold : forall d, alloc s d -> Nat.eqb d c = false).
      { intros d Hd. apply Nat.eqb_neq. intros ->. exact (Hna Hd). }
      constructor.
      + intros z d Hd. destruct (Pos.eq_dec z x) as [-> | Hne].
        * apply Hx in Hd. subst d. rewrite Nat.eqb_refl.
          cbn in Hv. apply memp_In. exact Hv.
        * apply (Hy z Hne) in Hd. rewrite (Hold d (i_envalloc _ _ Hi _ _ Hd)).
          apply (i_env _ _ Hi). exact Hd.
      + intros a b Hab. apply He in Hab.
        destruct (i_edgealloc _ _ Hi _ _ Hab) as [Haa Hab'].
        rewrite (Hold a Haa), (Hold b Hab'). apply (i_edge _ _ Hi). exact Hab.
      + intros z d Hd. apply Ha. destruct (Pos.eq_dec z x) as [-> | Hne].
        * right. apply Hx. exact Hd.
        * left. apply (i_envalloc _ _ Hi z). apply (Hy z Hne). exact Hd.
      + intros a b Hab. apply He in Hab.
        destruct (i_edgealloc _ _ Hi _ _ Hab) as [Haa Hab'].
        split; apply Ha; left; assumption.
      + intros d Hd. apply Ha. left. apply (i_mono _ _ Hi). exact Hd.
      + intros d Hd. rewrite (Hold d (i_mono _ _ Hi _ Hd)). apply (i_entry _ _ Hi). exact Hd.
    - (* Assign *)
      exists lab. constructor.
      + intros z d Hd. destruct (Pos.eq_dec z x) as [-> | Hne].
        * destruct (Hx d Hd) as [Ho | Hn].
          -- apply (i_env _ _ Hi). exact Ho.
          -- cbn in Hv. eapply inclb_incl; [exact Hv | ]. apply (i_env _ _ Hi). exact Hn.
        * apply (i_env _ _ Hi). apply (Hz z Hne). exact Hd.
      + intros a b Hab. apply (i_edge _ _ Hi). apply He. exact Hab.
      + intros z d Hd. apply Ha. destruct (Pos.eq_dec z x) as [-> | Hne].
        * destruct (Hx d Hd) as [Ho | Hn]; eapply (i_envalloc _ _ Hi); eassumption.
        * eapply (i_envalloc _ _ Hi). apply (Hz z Hne). exact Hd.
      + intros a b Hab. apply He in Hab. destruct (i_edgealloc _ _ Hi _ _ Hab).
        split; apply Ha; assumption.
      + intros d Hd. apply Ha. apply (i_mono _ _ Hi). exact Hd.
      + apply (i_entry _ _ Hi).
    - (* Load *)
      exists lab. constructor.
      + intros z d Hd. destruct (Pos.eq_dec z x) as [-> | Hne].
        * destruct (Hx d Hd) as [Ho | [e [Hye Hed]]].
          -- apply (i_env _ _ Hi). exact Ho.
          -- cbn in Hv. rewrite forallb_forall in Hv.
             eapply inclb_incl; [apply Hv; apply (i_env _ _ Hi); exact Hye | ].
             apply (i_edge _ _ Hi). exact Hed.
        * apply (i_env _ _ Hi). apply (Hz z Hne). exact Hd.
      + intros a b Hab. apply (i_edge _ _ Hi). apply He. exact Hab.
      + intros z d Hd. apply Ha. destruct (Pos.eq_dec z x) as [-> | Hne].
        * destruct (Hx d Hd) as [Ho | [e [Hye Hed]]].
          -- eapply (i_envalloc _ _ Hi). exact Ho.
          -- apply (i_edgealloc _ _ Hi) in Hed. tauto.
        * eapply (i_envalloc _ _ Hi). apply (Hz z Hne). exact Hd.
      + intros a b Hab. apply He in Hab. destruct (i_edgealloc _ _ Hi _ _ Hab).
        split; apply Ha; assumption.
      + intros d Hd. apply Ha. apply (i_mono _ _ Hi). exact Hd.
      + apply (i_entry _ _ Hi).
    - (* Reach *)
      cbn in Hv. apply andb_true_iff in Hv. destruct Hv as [Hv1 Hv2].
      assert (Hreach_alloc : forall d c, reach s d c -> alloc s d -> alloc s c).
      { intros d c Hr. induction Hr as [d | d e c Hde Hr IH]; intros Hd; [exact Hd | ].
        apply IH. apply (i_edgealloc _ _ Hi) in Hde. tauto. }
      exists lab. constructor.
      + intros z d Hd. destruct (Pos.eq_dec z x) as [-> | Hne].
        * destruct (Hx d Hd) as [Ho | [e [Hye Hr]]].
          -- apply (i_env _ _ Hi). exact Ho.
          -- eapply inv_reach; [exact Hi | exact Hv2 | exact Hr | ].
             eapply inclb_incl; [exact Hv1 | ]. apply (i_env _ _ Hi). exact Hye.
        * apply (i_env _ _ Hi). apply (Hz z Hne). exact Hd.
      + intros a b Hab. apply (i_edge _ _ Hi). apply He. exact Hab.
      + intros z d Hd. apply Ha. destruct (Pos.eq_dec z x) as [-> | Hne].
        * destruct (Hx d Hd) as [Ho | [e [Hye Hr]]].
          -- eapply (i_envalloc _ _ Hi). exact Ho.
          -- eapply Hreach_alloc; [exact Hr | ]. eapply (i_envalloc _ _ Hi). exact Hye.
        * eapply (i_envalloc _ _ Hi). apply (Hz z Hne). exact Hd.
      + intros a b Hab. apply He in Hab. destruct (i_edgealloc _ _ Hi _ _ Hab).
        split; apply Ha; assumption.
      + intros d Hd. apply Ha. apply (i_mono _ _ Hi). exact Hd.
      + apply (i_entry _ _ Hi).
    - (* Store *)
      exists lab. constructor.
      + intros z d Hd. apply (i_env _ _ Hi). apply Hz. exact Hd.
      + intros a b Hab. destruct (He2 a b Hab) as [Ho | [Hxa Hyb]].
        * apply (i_edge _ _ Hi). exact Ho.
        * cbn in Hv. rewrite forallb_forall in Hv.
          eapply inclb_incl; [apply Hv; apply (i_env _ _ Hi); exact Hxa | ].
          apply (i_env _ _ Hi). exact Hyb.
      + intros z d Hd. apply Ha. eapply (i_envalloc _ _ Hi). apply Hz. exact Hd.
      + intros a b Hab. destruct (He2 a b Hab) as [Ho | [Hxa Hyb]].
        * destruct (i_edgealloc _ _ Hi _ _ Ho). split; apply Ha; assumption.
        * split; apply Ha; eapply (i_envalloc _ _ Hi); eassumption.
      + intros d Hd. apply Ha. apply (i_mono _ _ Hi). exact Hd.
      + apply (i_entry _ _ Hi).
  Qed.

  (** events of a step are safe under the invariant *)
  Variables (wl rd : list sname) (allow_g : bool) (ps gs : site).
  Variables (Prot GProt : cell -> Prop).
  Hypothesis Prot_lab : forall c, Prot c -> alloc s0 c /\ lab0 c = ps.
  Hypothesis GProt_lab : forall c, GProt c -> alloc s0 c /\ lab0 c = gs.

  Lemma step_safe : forall lab s st e s',
    inv lab s -> stmt_ok wl rd allow_g h ps gs st = true -> step s st (Some e) s' ->
    safe_event wl rd allow_g Prot GProt e.
  Proof.
    intros lab s st e s' Hi Hok Hs. inversion Hs; subst; cbn in Hok |- *.
    - (* Mutate *)
      intros Hp. destruct (Prot_lab _ Hp) as [Hal Hl].
      apply negb_true_iff in Hok. apply memp_false in Hok. apply Hok.
      rewrite <- Hl, <- (i_entry _ _ Hi _ Hal). apply (i_env _ _ Hi). assumption.
    - (* GlobalRng *) discriminate.
    - (* Draw *)
      apply orb_true_iff in Hok. destruct Hok as [Hag | Hok]; [left; exact Hag | right].
      intros Hp. destruct (GProt_lab _ Hp) as [Hal Hl].
      apply negb_true_iff in Hok. apply memp_false in Hok. apply Hok.
      rewrite <- Hl, <- (i_entry _ _ Hi _ Hal). apply (i_env _ _ Hi). assumption.
    - (* StateRead *)
      apply orb_true_iff in Hok. destruct Hok as [Hg | Hok]; [left; apply memn_In; exact Hg | right].
      intros Hp. destruct (Prot_lab _ Hp) as [Hal Hl].
      apply negb_true_iff in Hok. apply memp_false in Hok. apply Hok.
      rewrite <- Hl, <- (i_entry _ _ Hi _ Hal). apply (i_env _ _ Hi). assumption.
    - (* StateWrite *)
      apply orb_true_iff in Hok. destruct Hok as [Hg | Hok]; [left; apply memn_In; exact Hg | right].
      intros Hp. destruct (Prot_lab _ Hp) as [Hal Hl].
      apply negb_true_iff in Hok. apply memp_false in Hok. apply Hok.
      rewrite <- Hl, <- (i_entry _ _ Hi _ Hal). apply (i_env _ _ Hi). assumption.
  Qed.

  Lemma run_safe : forall P s tr s',
    forallb (valid_stmt h) P = true ->
    forallb (stmt_ok wl rd allow_g h ps gs) P = true ->
    run P s tr s' ->
    forall lab, inv lab s -> Forall (safe_event wl rd allow_g Prot GProt) tr.
  Proof.
    intros P s tr s' Hv Hok Hr. rewrite forallb_forall in Hv, Hok.
    induction Hr as [s | s st oe s1 tr s2 Hin Hst Hr IH]; intros lab Hi.
    - constructor.
    - destruct (step_inv lab s st oe s1 Hi (Hv _ Hin) Hst) as [lab' Hi'].
      destruct oe as [e | ]; cbn.
      + constructor.
        * eapply step_safe; [exact Hi | apply Hok; exact Hin | exact Hst].
        * eapply IH. exact Hi'.
      + eapply IH. exact Hi'.
  Qed.
End Soundness.

(** ** soundness of [check_fun] *)

(** the caller's region / the global generator at entry *)
Definition region (kind : cell -> nat) (s0 : state) (k : nat) (c : cell) : Prop :=
  alloc s0 c /\ kind c = k.

Definition label_of (f : func) (kind : cell -> nat) (c : cell) : site :=
  match kind c with
  | 0 => f_psite f
  | 1 => f_osite f
  | 2 => f_grng f
  | _ => f_rsite f
  end.

Theorem checker_sound : forall wl rd allow_g S h f P kind s0 tr s,
  check_fun wl rd allow_g S h f = true ->
  prims S (f_body f) = Some P ->
  entry_ok (f_params f) (f_owned f) (f_ownref f) (f_grng f) kind s0 ->
  run P s0 tr s ->
  Forall (safe_event wl rd allow_g (region kind s0 0) (region kind s0 2)) tr.
Proof.
  intros wl rd allow_g S h f P kind s0 tr s Hc HP He Hr.
  unfold check_fun in Hc. rewrite HP in Hc.
  apply andb_true_iff in Hc; destruct Hc as [Hc Hok].
  apply andb_true_iff in Hc; destruct Hc as [Hc Hnr].
  apply andb_true_iff in Hc; destruct Hc as [Hc Hnos].
  apply andb_true_iff in Hc; destruct Hc as [Hc Hcl].
  apply andb_true_iff in Hc; destruct Hc as [Hc Hincl].
  apply andb_true_iff in Hc; destruct Hc as [Hc Hpr].
  apply andb_true_iff in Hc; destruct Hc as [Hc Hrr].
  apply andb_true_iff in Hc; destruct Hc as [Hc Hgg].
  apply andb_true_iff in Hc; destruct Hc as [Hc Hoo].
  apply andb_true_iff in Hc; destruct Hc as [Hc Hpp].
  apply andb_true_iff in Hc; destruct Hc as [Hc Hg].
  apply andb_true_iff in Hc; destruct Hc as [Hc Href].
  apply andb_true_iff in Hc; destruct Hc as [Hc Hown].
  apply andb_true_iff in Hc; destruct Hc as [Hc Hpar].
  rename Hc into Hv.
  destruct He as [Ea [Ee [Er [Ep [Eo [Eg Erf]]]]]].
  eapply (run_safe h s0 (label_of f kind) wl rd allow_g (f_psite f) (f_grng f)).
  - intros c [Hal Hk]. split; [exact Hal | ]. unfold label_of. rewrite Hk. reflexivity.
  - intros c [Hal Hk]. split; [exact Hal | ]. unfold label_of. rewrite Hk. reflexivity.
  - exact Hv.
  - exact Hok.
  - exact Hr.
  - (* the invariant holds initially *)
    instantiate (1 := label_of f kind).
    rewrite forallb_forall in Hpar, Hown, Href.
    constructor.
    + intros x c Hx. unfold label_of.
      destruct (Er x c Hx) as [Hin | [Hin | [Hin | Hin]]].
      * rewrite (Ep x c Hx Hin). apply memp_In. apply Hpar. exact Hin.
      * rewrite (Eo x c Hx Hin). apply memp_In. apply Hown. exact Hin.
      * subst x. rewrite (Eg c Hx). apply memp_In. exact Hg.
      * rewrite (Erf x c Hx Hin). apply memp_In. apply Href. exact Hin.
    + intros a b Hab. destruct (Ee a b Hab) as [_ [_ Hk]]. unfold label_of.
      destruct Hk as [Hk | [Hk3 Hk0]].
      * rewrite Hk. destruct (kind b) as [ | [ | [ | k]]]; apply memp_In; assumption.
      * rewrite Hk3, Hk0. apply memp_In. exact Hpr.
    + exact Ea.
    + intros a b Hab. destruct (Ee a b Hab) as [H1 [H2 _]]. split; assumption.
    + intros c Hc. exact Hc.
    + intros c Hc. reflexivity.
Qed.

(** cells reachable from a protected root at entry lie in the caller's region *)
Lemma protected_region : forall f kind s0 c,
  entry_ok (f_params f) (f_owned f) (f_ownref f) (f_grng f) kind s0 ->
  protected (f_params f) s0 c -> region kind s0 0 c.
Proof.
  intros f kind s0 c He [p [Hp [d [Hd Hr]]]].
  destruct He as [Ea [Ee [Er [Ep _]]]].
  assert (Hd0 : region kind s0 0 d). { split; [eapply Ea; exact Hd | eapply Ep; eassumption]. }
  clear Hd. induction Hr as [d | d e c Hde Hr IH]; [exact Hd0 | ].
  apply IH. destruct Hd0 as [_ Hk]. destruct (Ee d e Hde) as [_ [Hae Hke]]. split; [exact Hae | ].
  destruct Hke as [Hke | [Hk3 _]]; [congruence | rewrite Hk in Hk3; discriminate].
Qed.

Lemma safe_event_weaken : forall wl rd ag (P P' G G' : cell -> Prop) e,
  (forall c, P' c -> P c) -> (forall c, G' c -> G c) ->
  safe_event wl rd ag P G e -> safe_event wl rd ag P' G' e.
Proof.
  intros wl rd ag P P' G G' e HP HG. destruct e; cbn; intuition.
Qed.

(** the same statement for "reachable from a parameter / from the global generator at entry" *)
Corollary checker_sound_reachable : forall wl rd allow_g S h f P kind s0 tr s,
  check_fun wl rd allow_g S h f = true ->
  prims S (f_body f) = Some P ->
  entry_ok (f_params f) (f_owned f) (f_ownref f) (f_grng f) kind s0 ->
  run P s0 tr s ->
  Forall (safe_event wl rd allow_g (protected (f_params f) s0)
                     (fun c => exists d, env s0 (f_grng f) d /\ reach s0 d c)) tr.
Proof.
  intros wl rd allow_g S h f P kind s0 tr s Hc HP He Hr.
  eapply Forall_impl; [ | eapply checker_sound; eassumption].
  intros e. apply safe_event_weaken.
  - intros c Hp. eapply protected_region; eassumption.
  - intros c [d [Hd Hrc]]. destruct He as [Ea [Ee [Er [Ep [Eo [Eg Erf]]]]]].
    assert (Hd0 : region kind s0 2 d). { split; [eapply Ea; exact Hd | eapply Eg; exact Hd]. }
    clear Hd. induction Hrc as [d | d e' c Hde Hrc IH]; [exact Hd0 | ].
    apply IH. destruct Hd0 as [_ Hk]. destruct (Ee d e' Hde) as [_ [Hae Hke]]. split; [exact Hae | ].
    destruct Hke as [Hke | [Hk3 _]]; [congruence | rewrite Hk in Hk3; discriminate].
Qed.

(** * The generated program: policy and whole-API statements *)
From Coq Require Import String.
From PV Require Import Gen.AliasIR.

(** the documented exception: the estimate state of sensor models handed to a filter *)
Definition estimate_slots : list sname :=
  [sl_inertial_sensor_EstimationModel_transform; sl_inertial_sensor_EstimationModel_bias].

Definition filter_fnames : list fname :=
  [fn_filters_run_feedback_filter; fn_filters_run_feedforward_filter].

(** [apply_imu_parameters] with default [Parameters()] uses numpy's global generator
    (documented: "None corresponds to nondeterministic seeding") and, like [Parameters.apply],
    stores the documented attribute [data_frame] on the [Parameters] objects it is given *)
Definition global_rng_users : list fname := [fn_inertial_sensor_apply_imu_parameters].

Definition C19_policy : policy := fun n =>
  if memn n filter_fnames then (estimate_slots, readonly_slots ++ estimate_slots, false)
  else if memn n global_rng_users
       then ([sl_inertial_sensor_Parameters_data_frame],
             readonly_slots ++ [sl_inertial_sensor_Parameters_data_frame], true)
  else ([], readonly_slots, false).

Definition gen_summaries : summaries := summaries_of generated_progs.

Definition is_public (e : entry) : bool := memn (e_name e) public_fnames.

Lemma all_public_pure :
  forallb (fun e => negb (is_public e) || check_entry C19_policy gen_summaries e) generated_progs = true.
Proof. vm_compute. reflexivity. Qed.

Lemma all_summaries_ok :
  forallb (fun e => summary_ok gen_summaries (e_hints_sum e) (e_reach e) (e_fun e) (e_sum e))
          generated_progs = true.
Proof. vm_compute. reflexivity. Qed.

Lemma all_seed_plumbed :
  forallb (fun e => negb (is_public e && draws gen_summaries (e_fun e))
                    || memn (e_name e) global_rng_users
                    || seed_plumbed gen_summaries (e_hints e) (e_fun e)) generated_progs = true.
Proof. vm_compute. reflexivity. Qed.

(** some public function does draw random numbers (the statement above is not vacuous) *)
Lemma some_public_draws :
  existsb (fun e => is_public e && draws gen_summaries (e_fun e)
                    && seed_plumbed gen_summaries (e_hints e) (e_fun e)) generated_progs = true.
Proof. vm_compute. reflexivity. Qed.

(** the slots readable on caller objects are never written outside constructors *)
Lemma readonly_ok :
  forallb (fun g => negb (memn g (written_slots gen_summaries
                       (filter (fun e => negb (memn (e_name e) init_fnames)) generated_progs))))
          readonly_slots = true.
Proof. vm_compute. reflexivity. Qed.

(** every public name is translated; names are unique; every callee has a summary *)
Lemma public_translated :
  forallb (fun n => existsb (fun e => Nat.eqb (e_name e) n) generated_progs) public_fnames = true
  /\ Nat.ltb 0 (List.length public_fnames) = true.
Proof. split; vm_compute; reflexivity. Qed.

Lemma names_unique :
  forallb (fun ie => Nat.eqb (e_name (snd ie)) (fst ie))
          (combine (seq 0 (List.length generated_progs)) generated_progs) = true.
Proof. vm_compute. reflexivity. Qed.

Lemma all_expand :
  forallb (fun e => match prims gen_summaries (f_body (e_fun e)) with Some _ => true | None => false end)
          generated_progs = true.
Proof. vm_compute. reflexivity. Qed.

Theorem public_functions_pure : forall e,
  In e generated_progs -> is_public e = true ->
  forall P kind s0 tr s,
    prims gen_summaries (f_body (e_fun e)) = Some P ->
    entry_ok (f_params (e_fun e)) (f_owned (e_fun e)) (f_ownref (e_fun e)) (f_grng (e_fun e)) kind s0 ->
    run P s0 tr s ->
    Forall (safe_event (fst (fst (C19_policy (e_name e)))) (snd (fst (C19_policy (e_name e))))
                       (snd (C19_policy (e_name e))) (region kind s0 0) (region kind s0 2)) tr.
Proof.
  intros e Hin Hpub P kind s0 tr s HP He Hr.
  pose proof all_public_pure as H. rewrite forallb_forall in H. specialize (H e Hin).
  rewrite Hpub in H. cbn in H. unfold check_entry in H.
  destruct (C19_policy (e_name e)) as [[wl rd] ag]. cbn.
  eapply checker_sound; eassumption.
Qed.

(** ** schema constants *)
Fixpoint nodupb (l : list string) : bool :=
  match l with
  | [] => true
  | x :: t => negb (existsb (String.eqb x) t) && nodupb t
  end.

Lemma nodupb_NoDup : forall l, nodupb l = true -> NoDup l.
Proof.
  induction l as [ | x t IH]; intros H; [constructor | ].
  cbn in H. apply andb_true_iff in H. destruct H as [Hx Ht]. constructor; [ | apply IH; exact Ht].
  intros Hin. apply negb_true_iff in Hx.
  assert (existsb (String.eqb x) t = true) as Hc.
  { apply existsb_exists. exists x. split; [exact Hin | apply String.eqb_refl]. }
  rewrite Hc in Hx. discriminate.
Qed.

Lemma schema_constants :
  TRAJECTORY_COLS = LLA_COLS ++ VEL_COLS ++ RPH_COLS /\
  TRAJECTORY_ERROR_COLS = NED_COLS ++ VEL_COLS ++ RPH_COLS /\
  TRAJECTORY_COLS = DOC_Trajectory /\
  GYRO_COLS ++ ACCEL_COLS = DOC_Imu /\
  LIT_Increments = DOC_Increments /\
  ("dt"%string :: THETA_COLS ++ DV_COLS) = DOC_Increments /\
  TRAJECTORY_ERROR_COLS = DOC_TrajectoryError /\
  LIT_BodyVelocity = ["VX"; "VY"; "VZ"]%string /\
  NoDup DOC_Trajectory /\ NoDup DOC_Imu /\ NoDup DOC_Increments /\ NoDup DOC_TrajectoryError /\
  NoDup (LLA_COLS ++ VEL_COLS ++ RPH_COLS ++ RATE_COLS ++ GYRO_COLS ++ ACCEL_COLS
         ++ THETA_COLS ++ DV_COLS ++ NED_COLS).
Proof.
  repeat split; try reflexivity; apply nodupb_NoDup; vm_compute; reflexivity.
Qed.

(** ** non-vacuity *)
Local Open Scope positive_scope.

(** [def f(a): a += 1]   (1 = module root, 2 = a, 3 = global generator, 4, 5 = reserved sites) *)
Definition bad_f : func :=
  mkFunc [1; 2] [] [] 3 1 4 5 [[2]; [6]; [1]; [7]; [3]; [8]] [0%nat; 2%nat; 4%nat] []
         [Mutate 2; Fresh 9; Assign 9 2; Assign 10 9] 10 11.

(** rejected whatever points-to solution is offered *)
Lemma bad_rejected : forall h, check_fun [] [] false [] h bad_f = false.
Proof.
  intros h. unfold check_fun. cbn.
  destruct (memp 1 (pt h 2)); cbn; rewrite ?andb_false_r; reflexivity.
Qed.

(** and indeed it has an execution that writes a cell of the caller *)
Lemma bad_run_unsafe :
  exists kind s0 tr s,
    entry_ok (f_params bad_f) (f_owned bad_f) (f_ownref bad_f) (f_grng bad_f) kind s0 /\
    run (f_body bad_f) s0 tr s /\
    ~ Forall (safe_event [] [] false (region kind s0 0) (region kind s0 2)) tr.
Proof.
  exists (fun _ => 0%nat).
  exists (mkSt (fun x c => x = 2 /\ c = 0%nat) (fun _ _ => False) (fun c => c = 0%nat)).
  exists [EWrite 0%nat].
  exists (mkSt (fun x c => x = 2 /\ c = 0%nat) (fun _ _ => False) (fun c => c = 0%nat)).
  split; [ | split].
  - unfold entry_ok; cbn. repeat split; try tauto; try (intros; intuition congruence).
  - change [EWrite 0%nat] with (ev_list (Some (EWrite 0%nat)) ++ []).
    eapply run_cons; [left; reflexivity | apply step_mutate; cbn; split; reflexivity | apply run_nil].
  - intros H. inversion H as [ | e l Hs _]; subst. cbn in Hs. apply Hs. split; reflexivity.
Qed.

(** [def g(a): b = a.copy(); b += 1; return b]  is accepted (with the obvious solution) *)
Definition good_f : func :=
  mkFunc [1; 2] [] [] 3 1 4 5 [[2]; [6]; [1]; [7]; [3]; [8]] [0%nat; 2%nat; 4%nat] []
         [Fresh 9; Mutate 9; Fresh 10; Assign 10 9; Assign 11 10] 11 12.

Definition good_h : hints :=
  mkHints (of_list [(1, [1]); (2, [1]); (3, [3]); (9, [9]); (10, [10; 9]); (11, [10; 9])])
          (of_list [(1, [1]); (3, [3]); (4, [4]); (5, [5; 1])]).

Lemma good_accepted : check_fun [] [] false [] good_h good_f = true.
Proof. vm_compute. reflexivity. Qed.

(** a draw from the global generator, a write to module state and an unseeded draw are rejected *)
Definition bad_rng : func :=
  mkFunc [1] [] [] 3 1 4 5 [[1]; [7]; [3]; [8]] [0%nat; 2%nat] [] [Assign 9 3; Draw 9] 10 11.

Lemma bad_rng_rejected : forall h, check_fun [] [] false [] h bad_rng = false.
Proof.
  intros h. unfold check_fun. cbn.
  destruct (memp 3 (pt h 9)) eqn:E9; cbn; rewrite ?andb_false_r; try reflexivity.
  destruct (memp 3 (pt h 3)) eqn:E3; cbn; rewrite ?andb_false_r; try reflexivity.
  (* valid_stmt (Assign 9 3) demands pt 3 ⊆ pt 9 *)
  destruct (inclb (pt h 3) (pt h 9)) eqn:Ei; cbn; rewrite ?andb_false_r; try reflexivity.
  exfalso. apply memp_In in E3. apply (inclb_incl _ _ Ei) in E3. apply memp_In in E3. congruence.
Qed.

Definition bad_global : func :=
  mkFunc [1] [] [] 3 1 4 5 [[1]; [7]; [3]; [8]] [0%nat; 2%nat] [] [GlobalRng] 10 11.

Lemma bad_global_rejected : forall h, check_fun [] [] false [] h bad_global = false.
Proof. intros h. unfold check_fun. cbn. rewrite ?andb_false_r. reflexivity. Qed.
