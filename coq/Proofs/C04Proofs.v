(** C04 -- the INS error model is the linearisation of strapdown error growth.

    Objects:
      - the hub specification Spec/NavODE.v (nav_rhs_*: 15 scalar right-hand sides, hand-written from the physics);
      - the GENERATED system matrices Gen/C04Gen.v (sysmat3d_F/G/A, sysmat2d_F/G/A: traced from the live
        InsErrorModel.system_matrices; prop3d/prop2d: one step of propagate_errors' recursion);
      - the library's own error coordinates: [pdelta s x] = P(s) x is the first-order displacement of the
        navigation state when the error-state vector is x (the first-order inverse of correct_pva:
        position by perturb_lla(+dr), v_ins = v - phi x v + dv, C_ins = C - [phi x] C).

    Main statement (continuous form).  Let s(t) follow nav_rhs and let the INS state be s_ins = s + P(s) x.
    Then P(s) x' = nav_rhs(s + P(s) x) - nav_rhs(s) - (D P(s)[nav_rhs s]) x, and the derivative of the
    right-hand side with respect to x at x = 0 is   P(s) (F + N) x   with F the generated model matrix and
    N the EXPLICIT matrix of the terms the model neglects (21 closed-form entries, see [N00] ... [N82]).
    The generated B_gyro / B_accel are exact:  D_(w,f) nav_rhs(s) [dw, df] = P(s) (B_gyro dw + B_accel df). *)
From Coq Require Import Reals Lra Lia.
From Coquelicot Require Import Coquelicot.
From Interval Require Import Tactic.
From PV Require Import Base.RealTac Spec.LibSpecs Spec.Ellipsoid Spec.NavODE.
From PV Require Import Gen.Transform Gen.C04Gen.
Open Scope R_scope.

(** * 0. States, sensor inputs, error vectors *)

Record nstate : Type := mkS {
  s_lat : R; s_lon : R; s_alt : R; s_VN : R; s_VE : R; s_VD : R;
  s_C00 : R; s_C01 : R; s_C02 : R; s_C10 : R; s_C11 : R; s_C12 : R; s_C20 : R; s_C21 : R; s_C22 : R }.
Record imu : Type := mkI { i_w0 : R; i_w1 : R; i_w2 : R; i_f0 : R; i_f1 : R; i_f2 : R }.
(** error-state vector in the library's order: DR1 DR2 DR3 DV1 DV2 DV3 PHI1 PHI2 PHI3 *)
Record err : Type := mkX { e0 : R; e1 : R; e2 : R; e3 : R; e4 : R; e5 : R; e6 : R; e7 : R; e8 : R }.

Definition rhs21 : Type :=
  R -> R -> R -> R -> R -> R -> R -> R -> R -> R -> R -> R -> R -> R -> R -> R -> R -> R -> R -> R -> R -> R.

(** a right-hand side of Spec/NavODE.v applied to a state and an IMU input *)
Definition app (g : rhs21) (s : nstate) (m : imu) : R :=
  g (s_lat s) (s_lon s) (s_alt s) (s_VN s) (s_VE s) (s_VD s)
    (s_C00 s) (s_C01 s) (s_C02 s) (s_C10 s) (s_C11 s) (s_C12 s) (s_C20 s) (s_C21 s) (s_C22 s)
    (i_w0 m) (i_w1 m) (i_w2 m) (i_f0 m) (i_f1 m) (i_f2 m).

(** the vector field of the hub specification *)
Definition nav_field (s : nstate) (m : imu) : nstate :=
  mkS (app nav_rhs_lat s m) (app nav_rhs_lon s m) (app nav_rhs_alt s m)
      (app nav_rhs_VN s m) (app nav_rhs_VE s m) (app nav_rhs_VD s m)
      (app nav_rhs_C00 s m) (app nav_rhs_C01 s m) (app nav_rhs_C02 s m)
      (app nav_rhs_C10 s m) (app nav_rhs_C11 s m) (app nav_rhs_C12 s m)
      (app nav_rhs_C20 s m) (app nav_rhs_C21 s m) (app nav_rhs_C22 s m).

(** s + u d, componentwise *)
Definition sadd (s : nstate) (u : R) (d : nstate) : nstate :=
  mkS (s_lat s + u * s_lat d) (s_lon s + u * s_lon d) (s_alt s + u * s_alt d)
      (s_VN s + u * s_VN d) (s_VE s + u * s_VE d) (s_VD s + u * s_VD d)
      (s_C00 s + u * s_C00 d) (s_C01 s + u * s_C01 d) (s_C02 s + u * s_C02 d)
      (s_C10 s + u * s_C10 d) (s_C11 s + u * s_C11 d) (s_C12 s + u * s_C12 d)
      (s_C20 s + u * s_C20 d) (s_C21 s + u * s_C21 d) (s_C22 s + u * s_C22 d).
Definition iadd (m : imu) (u : R) (d : imu) : imu :=
  mkI (i_w0 m + u * i_w0 d) (i_w1 m + u * i_w1 d) (i_w2 m + u * i_w2 d)
      (i_f0 m + u * i_f0 d) (i_f1 m + u * i_f1 d) (i_f2 m + u * i_f2 d).
Definition xscale (u : R) (x : err) : err :=
  mkX (u * e0 x) (u * e1 x) (u * e2 x) (u * e3 x) (u * e4 x) (u * e5 x) (u * e6 x) (u * e7 x) (u * e8 x).

(** * 1. The library's error coordinates: P(s) x

    position:  perturb_lla(lla, +dr):  lat + (180/pi) dr_N / (Rn + h),  lon + (180/pi) dr_E / ((Re + h) cos lat),  alt - dr_D
    velocity:  v_ins = v - phi x v + dv          (correct_pva: v = Rot(phi) (v_ins - dv))
    attitude:  C_ins = C - [phi x] C            (correct_pva: C = Rot(phi) C_ins)                                     *)
Definition pd_lat (lat alt x0 : R) : R := r2d * (x0 / (nav_Rn lat + alt)).
Definition pd_lon (lat alt x1 : R) : R := r2d * (x1 / ((nav_Re lat + alt) * cos (lat * d2r))).
Definition pd_alt (x2 : R) : R := - x2.
Definition pd_v0 (v0 v1 v2 d0 d1 d2 p0 p1 p2 : R) : R := d0 - cross0 p0 p1 p2 v0 v1 v2.
Definition pd_v1 (v0 v1 v2 d0 d1 d2 p0 p1 p2 : R) : R := d1 - cross1 p0 p1 p2 v0 v1 v2.
Definition pd_v2 (v0 v1 v2 d0 d1 d2 p0 p1 p2 : R) : R := d2 - cross2 p0 p1 p2 v0 v1 v2.

Definition pdelta (s : nstate) (x : err) : nstate :=
  mkS (pd_lat (s_lat s) (s_alt s) (e0 x)) (pd_lon (s_lat s) (s_alt s) (e1 x)) (pd_alt (e2 x))
      (pd_v0 (s_VN s) (s_VE s) (s_VD s) (e3 x) (e4 x) (e5 x) (e6 x) (e7 x) (e8 x))
      (pd_v1 (s_VN s) (s_VE s) (s_VD s) (e3 x) (e4 x) (e5 x) (e6 x) (e7 x) (e8 x))
      (pd_v2 (s_VN s) (s_VE s) (s_VD s) (e3 x) (e4 x) (e5 x) (e6 x) (e7 x) (e8 x))
      (* column j of C is (C0j, C1j, C2j) *)
      (pd_v0 (s_C00 s) (s_C10 s) (s_C20 s) 0 0 0 (e6 x) (e7 x) (e8 x))
      (pd_v0 (s_C01 s) (s_C11 s) (s_C21 s) 0 0 0 (e6 x) (e7 x) (e8 x))
      (pd_v0 (s_C02 s) (s_C12 s) (s_C22 s) 0 0 0 (e6 x) (e7 x) (e8 x))
      (pd_v1 (s_C00 s) (s_C10 s) (s_C20 s) 0 0 0 (e6 x) (e7 x) (e8 x))
      (pd_v1 (s_C01 s) (s_C11 s) (s_C21 s) 0 0 0 (e6 x) (e7 x) (e8 x))
      (pd_v1 (s_C02 s) (s_C12 s) (s_C22 s) 0 0 0 (e6 x) (e7 x) (e8 x))
      (pd_v2 (s_C00 s) (s_C10 s) (s_C20 s) 0 0 0 (e6 x) (e7 x) (e8 x))
      (pd_v2 (s_C01 s) (s_C11 s) (s_C21 s) 0 0 0 (e6 x) (e7 x) (e8 x))
      (pd_v2 (s_C02 s) (s_C12 s) (s_C22 s) 0 0 0 (e6 x) (e7 x) (e8 x)).

(** the perturbed ("INS") state whose correction by x gives back s, to first order *)
Definition pert (s : nstate) (x : err) : nstate := sadd s 1 (pdelta s x).

(** the linearised error-growth residual, one scalar component [pr] of the state at a time:
      u |->  nav_rhs_pr (s + u P(s) x)  -  [P(s + u nav_rhs(s)) x]_pr        (s + u P(s) x = pert s (u x), lemma pert_scale)
    Its derivative at u = 0 is  (D nav_rhs(s) [P(s) x])_pr - ((D P(s)[nav_rhs s]) x)_pr  =  (P(s) x')_pr . *)
Definition lin (g : rhs21) (pr : nstate -> R) (s : nstate) (m : imu) (x : err) (u : R) : R :=
  app g (sadd s u (pdelta s x)) m - pr (pdelta (sadd s u (nav_field s m)) x).

(** sensitivity to the sensor inputs *)
Definition linB (g : rhs21) (s : nstate) (m d : imu) (u : R) : R := app g s (iadd m u d).

(** * 2. Closed-form geometry derivatives and the neglected-terms matrix N *)

Definition W2l (lat : R) : R := W2 E2_ (lat * d2r).
(** d Rn / d phi and d Re / d phi (per radian of latitude) *)
Definition dRn_dphi (lat : R) : R :=
  3 * A_ * (1 - E2_) * E2_ * sin (lat * d2r) * cos (lat * d2r) / (W2l lat * W2l lat * sqrt (W2l lat)).
Definition dRe_dphi (lat : R) : R :=
  A_ * E2_ * sin (lat * d2r) * cos (lat * d2r) / (W2l lat * sqrt (W2l lat)).
(** normal gravity on the ellipsoid, and its derivative with respect to phi *)
Definition g0 (phi : R) : R := GE_ * (1 + FG_ * (sin phi * sin phi)) / sqrt (1 - E2_ * (sin phi * sin phi)).
Definition dg0 (phi : R) : R :=
  GE_ * (2 * FG_ * sin phi * cos phi) / sqrt (1 - E2_ * (sin phi * sin phi))
  + GE_ * (1 + FG_ * (sin phi * sin phi)) * (E2_ * sin phi * cos phi)
    / ((1 - E2_ * (sin phi * sin phi)) * sqrt (1 - E2_ * (sin phi * sin phi))).

Definition rn (s : nstate) : R := nav_Rn (s_lat s) + s_alt s.
Definition re (s : nstate) : R := nav_Re (s_lat s) + s_alt s.
Definition sphi (s : nstate) : R := sin (s_lat s * d2r).
Definition cphi (s : nstate) : R := cos (s_lat s * d2r).
Definition tphi (s : nstate) : R := tan (s_lat s * d2r).

(** N: what the modified phi-angle model as implemented leaves out (row = error-state rate, column = error state).
    DR rows: rotation of the local-level frame under the feet of the position error (rho x dr terms);
    DV rows: position dependence of the Earth rate (Omega x v / R) and of gravity with latitude, and the
             term (Omega x phi) x v;
    PHI rows: position dependence of the radii / of tan(lat) in the transport rate. *)
Definition N00 s := - s_VD s / rn s.
Definition N02 s := s_VN s / rn s.
Definition N10 s := s_VE s * (tphi s * re s - dRe_dphi (s_lat s)) / (re s * rn s).
Definition N11 s := (- s_VD s * rn s - s_VN s * tphi s * re s + s_VN s * dRe_dphi (s_lat s)) / (re s * rn s).
Definition N12 s := s_VE s / re s.
Definition N30 s := - RATE_ * s_VE s * cphi s / rn s.
Definition N36 s := - RATE_ * s_VD s * sphi s.
Definition N37 s := - RATE_ * s_VE s * cphi s.
Definition N38 s := - RATE_ * s_VD s * cphi s.
Definition N40 s := RATE_ * (s_VN s * cphi s - s_VD s * sphi s) / rn s.
Definition N47 s := RATE_ * (s_VN s * cphi s - s_VD s * sphi s).
Definition N50 s := (RATE_ * s_VE s * sphi s + dg0 (s_lat s * d2r) * (1 - 2 * s_alt s / A_)) / rn s.
Definition N56 s := RATE_ * s_VN s * sphi s.
Definition N57 s := RATE_ * s_VE s * sphi s.
Definition N58 s := RATE_ * s_VN s * cphi s.
Definition N60 s := - s_VE s * dRe_dphi (s_lat s) / (re s * re s * rn s).
Definition N62 s := s_VE s / (re s * re s).
Definition N70 s := s_VN s * dRn_dphi (s_lat s) / (rn s * rn s * rn s).
Definition N72 s := - s_VN s / (rn s * rn s).
Definition N80 s := - s_VE s * (1 + tphi s * tphi s) / (re s * rn s)
                    + s_VE s * tphi s * dRe_dphi (s_lat s) / (re s * re s * rn s).
Definition N82 s := - s_VE s * tphi s / (re s * re s).

(** N x *)
Definition negl0 (s : nstate) (x : err) : R := N00 s * e0 x + N02 s * e2 x.
Definition negl1 (s : nstate) (x : err) : R := N10 s * e0 x + N11 s * e1 x + N12 s * e2 x.
Definition negl2 (s : nstate) (x : err) : R := 0.
Definition negl3 (s : nstate) (x : err) : R := N30 s * e0 x + N36 s * e6 x + N37 s * e7 x + N38 s * e8 x.
Definition negl4 (s : nstate) (x : err) : R := N40 s * e0 x + N47 s * e7 x.
Definition negl5 (s : nstate) (x : err) : R := N50 s * e0 x + N56 s * e6 x + N57 s * e7 x + N58 s * e8 x.
Definition negl6 (s : nstate) (x : err) : R := N60 s * e0 x + N62 s * e2 x.
Definition negl7 (s : nstate) (x : err) : R := N70 s * e0 x + N72 s * e2 x.
Definition negl8 (s : nstate) (x : err) : R := N80 s * e0 x + N82 s * e2 x.

(** the model alone: F x with F the GENERATED matrix (roll pitch heading are ignored by F) *)
Definition model0 (s : nstate) (roll pitch heading : R) (x : err) : R :=
  sysmat3d_F00 (s_lat s) (s_lon s) (s_alt s) (s_VN s) (s_VE s) (s_VD s) roll pitch heading * e0 x
  + sysmat3d_F01 (s_lat s) (s_lon s) (s_alt s) (s_VN s) (s_VE s) (s_VD s) roll pitch heading * e1 x
  + sysmat3d_F02 (s_lat s) (s_lon s) (s_alt s) (s_VN s) (s_VE s) (s_VD s) roll pitch heading * e2 x
  + sysmat3d_F03 (s_lat s) (s_lon s) (s_alt s) (s_VN s) (s_VE s) (s_VD s) roll pitch heading * e3 x
  + sysmat3d_F04 (s_lat s) (s_lon s) (s_alt s) (s_VN s) (s_VE s) (s_VD s) roll pitch heading * e4 x
  + sysmat3d_F05 (s_lat s) (s_lon s) (s_alt s) (s_VN s) (s_VE s) (s_VD s) roll pitch heading * e5 x
  + sysmat3d_F06 (s_lat s) (s_lon s) (s_alt s) (s_VN s) (s_VE s) (s_VD s) roll pitch heading * e6 x
  + sysmat3d_F07 (s_lat s) (s_lon s) (s_alt s) (s_VN s) (s_VE s) (s_VD s) roll pitch heading * e7 x
  + sysmat3d_F08 (s_lat s) (s_lon s) (s_alt s) (s_VN s) (s_VE s) (s_VD s) roll pitch heading * e8 x.
Definition model1 (s : nstate) (roll pitch heading : R) (x : err) : R :=
  sysmat3d_F10 (s_lat s) (s_lon s) (s_alt s) (s_VN s) (s_VE s) (s_VD s) roll pitch heading * e0 x
  + sysmat3d_F11 (s_lat s) (s_lon s) (s_alt s) (s_VN s) (s_VE s) (s_VD s) roll pitch heading * e1 x
  + sysmat3d_F12 (s_lat s) (s_lon s) (s_alt s) (s_VN s) (s_VE s) (s_VD s) roll pitch heading * e2 x
  + sysmat3d_F13 (s_lat s) (s_lon s) (s_alt s) (s_VN s) (s_VE s) (s_VD s) roll pitch heading * e3 x
  + sysmat3d_F14 (s_lat s) (s_lon s) (s_alt s) (s_VN s) (s_VE s) (s_VD s) roll pitch heading * e4 x
  + sysmat3d_F15 (s_lat s) (s_lon s) (s_alt s) (s_VN s) (s_VE s) (s_VD s) roll pitch heading * e5 x
  + sysmat3d_F16 (s_lat s) (s_lon s) (s_alt s) (s_VN s) (s_VE s) (s_VD s) roll pitch heading * e6 x
  + sysmat3d_F17 (s_lat s) (s_lon s) (s_alt s) (s_VN s) (s_VE s) (s_VD s) roll pitch heading * e7 x
  + sysmat3d_F18 (s_lat s) (s_lon s) (s_alt s) (s_VN s) (s_VE s) (s_VD s) roll pitch heading * e8 x.
Definition model2 (s : nstate) (roll pitch heading : R) (x : err) : R :=
  sysmat3d_F20 (s_lat s) (s_lon s) (s_alt s) (s_VN s) (s_VE s) (s_VD s) roll pitch heading * e0 x
  + sysmat3d_F21 (s_lat s) (s_lon s) (s_alt s) (s_VN s) (s_VE s) (s_VD s) roll pitch heading * e1 x
  + sysmat3d_F22 (s_lat s) (s_lon s) (s_alt s) (s_VN s) (s_VE s) (s_VD s) roll pitch heading * e2 x
  + sysmat3d_F23 (s_lat s) (s_lon s) (s_alt s) (s_VN s) (s_VE s) (s_VD s) roll pitch heading * e3 x
  + sysmat3d_F24 (s_lat s) (s_lon s) (s_alt s) (s_VN s) (s_VE s) (s_VD s) roll pitch heading * e4 x
  + sysmat3d_F25 (s_lat s) (s_lon s) (s_alt s) (s_VN s) (s_VE s) (s_VD s) roll pitch heading * e5 x
  + sysmat3d_F26 (s_lat s) (s_lon s) (s_alt s) (s_VN s) (s_VE s) (s_VD s) roll pitch heading * e6 x
  + sysmat3d_F27 (s_lat s) (s_lon s) (s_alt s) (s_VN s) (s_VE s) (s_VD s) roll pitch heading * e7 x
  + sysmat3d_F28 (s_lat s) (s_lon s) (s_alt s) (s_VN s) (s_VE s) (s_VD s) roll pitch heading * e8 x.
Definition model3 (s : nstate) (roll pitch heading : R) (x : err) : R :=
  sysmat3d_F30 (s_lat s) (s_lon s) (s_alt s) (s_VN s) (s_VE s) (s_VD s) roll pitch heading * e0 x
  + sysmat3d_F31 (s_lat s) (s_lon s) (s_alt s) (s_VN s) (s_VE s) (s_VD s) roll pitch heading * e1 x
  + sysmat3d_F32 (s_lat s) (s_lon s) (s_alt s) (s_VN s) (s_VE s) (s_VD s) roll pitch heading * e2 x
  + sysmat3d_F33 (s_lat s) (s_lon s) (s_alt s) (s_VN s) (s_VE s) (s_VD s) roll pitch heading * e3 x
  + sysmat3d_F34 (s_lat s) (s_lon s) (s_alt s) (s_VN s) (s_VE s) (s_VD s) roll pitch heading * e4 x
  + sysmat3d_F35 (s_lat s) (s_lon s) (s_alt s) (s_VN s) (s_VE s) (s_VD s) roll pitch heading * e5 x
  + sysmat3d_F36 (s_lat s) (s_lon s) (s_alt s) (s_VN s) (s_VE s) (s_VD s) roll pitch heading * e6 x
  + sysmat3d_F37 (s_lat s) (s_lon s) (s_alt s) (s_VN s) (s_VE s) (s_VD s) roll pitch heading * e7 x
  + sysmat3d_F38 (s_lat s) (s_lon s) (s_alt s) (s_VN s) (s_VE s) (s_VD s) roll pitch heading * e8 x.
Definition model4 (s : nstate) (roll pitch heading : R) (x : err) : R :=
  sysmat3d_F40 (s_lat s) (s_lon s) (s_alt s) (s_VN s) (s_VE s) (s_VD s) roll pitch heading * e0 x
  + sysmat3d_F41 (s_lat s) (s_lon s) (s_alt s) (s_VN s) (s_VE s) (s_VD s) roll pitch heading * e1 x
  + sysmat3d_F42 (s_lat s) (s_lon s) (s_alt s) (s_VN s) (s_VE s) (s_VD s) roll pitch heading * e2 x
  + sysmat3d_F43 (s_lat s) (s_lon s) (s_alt s) (s_VN s) (s_VE s) (s_VD s) roll pitch heading * e3 x
  + sysmat3d_F44 (s_lat s) (s_lon s) (s_alt s) (s_VN s) (s_VE s) (s_VD s) roll pitch heading * e4 x
  + sysmat3d_F45 (s_lat s) (s_lon s) (s_alt s) (s_VN s) (s_VE s) (s_VD s) roll pitch heading * e5 x
  + sysmat3d_F46 (s_lat s) (s_lon s) (s_alt s) (s_VN s) (s_VE s) (s_VD s) roll pitch heading * e6 x
  + sysmat3d_F47 (s_lat s) (s_lon s) (s_alt s) (s_VN s) (s_VE s) (s_VD s) roll pitch heading * e7 x
  + sysmat3d_F48 (s_lat s) (s_lon s) (s_alt s) (s_VN s) (s_VE s) (s_VD s) roll pitch heading * e8 x.
Definition model5 (s : nstate) (roll pitch heading : R) (x : err) : R :=
  sysmat3d_F50 (s_lat s) (s_lon s) (s_alt s) (s_VN s) (s_VE s) (s_VD s) roll pitch heading * e0 x
  + sysmat3d_F51 (s_lat s) (s_lon s) (s_alt s) (s_VN s) (s_VE s) (s_VD s) roll pitch heading * e1 x
  + sysmat3d_F52 (s_lat s) (s_lon s) (s_alt s) (s_VN s) (s_VE s) (s_VD s) roll pitch heading * e2 x
  + sysmat3d_F53 (s_lat s) (s_lon s) (s_alt s) (s_VN s) (s_VE s) (s_VD s) roll pitch heading * e3 x
  + sysmat3d_F54 (s_lat s) (s_lon s) (s_alt s) (s_VN s) (s_VE s) (s_VD s) roll pitch heading * e4 x
  + sysmat3d_F55 (s_lat s) (s_lon s) (s_alt s) (s_VN s) (s_VE s) (s_VD s) roll pitch heading * e5 x
  + sysmat3d_F56 (s_lat s) (s_lon s) (s_alt s) (s_VN s) (s_VE s) (s_VD s) roll pitch heading * e6 x
  + sysmat3d_F57 (s_lat s) (s_lon s) (s_alt s) (s_VN s) (s_VE s) (s_VD s) roll pitch heading * e7 x
  + sysmat3d_F58 (s_lat s) (s_lon s) (s_alt s) (s_VN s) (s_VE s) (s_VD s) roll pitch heading * e8 x.
Definition model6 (s : nstate) (roll pitch heading : R) (x : err) : R :=
  sysmat3d_F60 (s_lat s) (s_lon s) (s_alt s) (s_VN s) (s_VE s) (s_VD s) roll pitch heading * e0 x
  + sysmat3d_F61 (s_lat s) (s_lon s) (s_alt s) (s_VN s) (s_VE s) (s_VD s) roll pitch heading * e1 x
  + sysmat3d_F62 (s_lat s) (s_lon s) (s_alt s) (s_VN s) (s_VE s) (s_VD s) roll pitch heading * e2 x
  + sysmat3d_F63 (s_lat s) (s_lon s) (s_alt s) (s_VN s) (s_VE s) (s_VD s) roll pitch heading * e3 x
  + sysmat3d_F64 (s_lat s) (s_lon s) (s_alt s) (s_VN s) (s_VE s) (s_VD s) roll pitch heading * e4 x
  + sysmat3d_F65 (s_lat s) (s_lon s) (s_alt s) (s_VN s) (s_VE s) (s_VD s) roll pitch heading * e5 x
  + sysmat3d_F66 (s_lat s) (s_lon s) (s_alt s) (s_VN s) (s_VE s) (s_VD s) roll pitch heading * e6 x
  + sysmat3d_F67 (s_lat s) (s_lon s) (s_alt s) (s_VN s) (s_VE s) (s_VD s) roll pitch heading * e7 x
  + sysmat3d_F68 (s_lat s) (s_lon s) (s_alt s) (s_VN s) (s_VE s) (s_VD s) roll pitch heading * e8 x.
Definition model7 (s : nstate) (roll pitch heading : R) (x : err) : R :=
  sysmat3d_F70 (s_lat s) (s_lon s) (s_alt s) (s_VN s) (s_VE s) (s_VD s) roll pitch heading * e0 x
  + sysmat3d_F71 (s_lat s) (s_lon s) (s_alt s) (s_VN s) (s_VE s) (s_VD s) roll pitch heading * e1 x
  + sysmat3d_F72 (s_lat s) (s_lon s) (s_alt s) (s_VN s) (s_VE s) (s_VD s) roll pitch heading * e2 x
  + sysmat3d_F73 (s_lat s) (s_lon s) (s_alt s) (s_VN s) (s_VE s) (s_VD s) roll pitch heading * e3 x
  + sysmat3d_F74 (s_lat s) (s_lon s) (s_alt s) (s_VN s) (s_VE s) (s_VD s) roll pitch heading * e4 x
  + sysmat3d_F75 (s_lat s) (s_lon s) (s_alt s) (s_VN s) (s_VE s) (s_VD s) roll pitch heading * e5 x
  + sysmat3d_F76 (s_lat s) (s_lon s) (s_alt s) (s_VN s) (s_VE s) (s_VD s) roll pitch heading * e6 x
  + sysmat3d_F77 (s_lat s) (s_lon s) (s_alt s) (s_VN s) (s_VE s) (s_VD s) roll pitch heading * e7 x
  + sysmat3d_F78 (s_lat s) (s_lon s) (s_alt s) (s_VN s) (s_VE s) (s_VD s) roll pitch heading * e8 x.
Definition model8 (s : nstate) (roll pitch heading : R) (x : err) : R :=
  sysmat3d_F80 (s_lat s) (s_lon s) (s_alt s) (s_VN s) (s_VE s) (s_VD s) roll pitch heading * e0 x
  + sysmat3d_F81 (s_lat s) (s_lon s) (s_alt s) (s_VN s) (s_VE s) (s_VD s) roll pitch heading * e1 x
  + sysmat3d_F82 (s_lat s) (s_lon s) (s_alt s) (s_VN s) (s_VE s) (s_VD s) roll pitch heading * e2 x
  + sysmat3d_F83 (s_lat s) (s_lon s) (s_alt s) (s_VN s) (s_VE s) (s_VD s) roll pitch heading * e3 x
  + sysmat3d_F84 (s_lat s) (s_lon s) (s_alt s) (s_VN s) (s_VE s) (s_VD s) roll pitch heading * e4 x
  + sysmat3d_F85 (s_lat s) (s_lon s) (s_alt s) (s_VN s) (s_VE s) (s_VD s) roll pitch heading * e5 x
  + sysmat3d_F86 (s_lat s) (s_lon s) (s_alt s) (s_VN s) (s_VE s) (s_VD s) roll pitch heading * e6 x
  + sysmat3d_F87 (s_lat s) (s_lon s) (s_alt s) (s_VN s) (s_VE s) (s_VD s) roll pitch heading * e7 x
  + sysmat3d_F88 (s_lat s) (s_lon s) (s_alt s) (s_VN s) (s_VE s) (s_VD s) roll pitch heading * e8 x.

(** x' = (F + N) x *)
Definition errdyn0 (s : nstate) (roll pitch heading : R) (x : err) : R :=
  model0 s roll pitch heading x + negl0 s x.
Definition errdyn1 (s : nstate) (roll pitch heading : R) (x : err) : R :=
  model1 s roll pitch heading x + negl1 s x.
Definition errdyn2 (s : nstate) (roll pitch heading : R) (x : err) : R :=
  model2 s roll pitch heading x + negl2 s x.
Definition errdyn3 (s : nstate) (roll pitch heading : R) (x : err) : R :=
  model3 s roll pitch heading x + negl3 s x.
Definition errdyn4 (s : nstate) (roll pitch heading : R) (x : err) : R :=
  model4 s roll pitch heading x + negl4 s x.
Definition errdyn5 (s : nstate) (roll pitch heading : R) (x : err) : R :=
  model5 s roll pitch heading x + negl5 s x.
Definition errdyn6 (s : nstate) (roll pitch heading : R) (x : err) : R :=
  model6 s roll pitch heading x + negl6 s x.
Definition errdyn7 (s : nstate) (roll pitch heading : R) (x : err) : R :=
  model7 s roll pitch heading x + negl7 s x.
Definition errdyn8 (s : nstate) (roll pitch heading : R) (x : err) : R :=
  model8 s roll pitch heading x + negl8 s x.
Definition errdyn (s : nstate) (roll pitch heading : R) (x : err) : err :=
  mkX (errdyn0 s roll pitch heading x) (errdyn1 s roll pitch heading x) (errdyn2 s roll pitch heading x) (errdyn3 s roll pitch heading x) (errdyn4 s roll pitch heading x) (errdyn5 s roll pitch heading x) (errdyn6 s roll pitch heading x) (errdyn7 s roll pitch heading x) (errdyn8 s roll pitch heading x).

(** B_gyro dw + B_accel df with the GENERATED matrices *)
Definition sens0 (s : nstate) (roll pitch heading : R) (d : imu) : R :=
  sysmat3d_G00 (s_lat s) (s_lon s) (s_alt s) (s_VN s) (s_VE s) (s_VD s) roll pitch heading * i_w0 d
  + sysmat3d_G01 (s_lat s) (s_lon s) (s_alt s) (s_VN s) (s_VE s) (s_VD s) roll pitch heading * i_w1 d
  + sysmat3d_G02 (s_lat s) (s_lon s) (s_alt s) (s_VN s) (s_VE s) (s_VD s) roll pitch heading * i_w2 d
  + sysmat3d_A00 (s_lat s) (s_lon s) (s_alt s) (s_VN s) (s_VE s) (s_VD s) roll pitch heading * i_f0 d
  + sysmat3d_A01 (s_lat s) (s_lon s) (s_alt s) (s_VN s) (s_VE s) (s_VD s) roll pitch heading * i_f1 d
  + sysmat3d_A02 (s_lat s) (s_lon s) (s_alt s) (s_VN s) (s_VE s) (s_VD s) roll pitch heading * i_f2 d.
Definition sens1 (s : nstate) (roll pitch heading : R) (d : imu) : R :=
  sysmat3d_G10 (s_lat s) (s_lon s) (s_alt s) (s_VN s) (s_VE s) (s_VD s) roll pitch heading * i_w0 d
  + sysmat3d_G11 (s_lat s) (s_lon s) (s_alt s) (s_VN s) (s_VE s) (s_VD s) roll pitch heading * i_w1 d
  + sysmat3d_G12 (s_lat s) (s_lon s) (s_alt s) (s_VN s) (s_VE s) (s_VD s) roll pitch heading * i_w2 d
  + sysmat3d_A10 (s_lat s) (s_lon s) (s_alt s) (s_VN s) (s_VE s) (s_VD s) roll pitch heading * i_f0 d
  + sysmat3d_A11 (s_lat s) (s_lon s) (s_alt s) (s_VN s) (s_VE s) (s_VD s) roll pitch heading * i_f1 d
  + sysmat3d_A12 (s_lat s) (s_lon s) (s_alt s) (s_VN s) (s_VE s) (s_VD s) roll pitch heading * i_f2 d.
Definition sens2 (s : nstate) (roll pitch heading : R) (d : imu) : R :=
  sysmat3d_G20 (s_lat s) (s_lon s) (s_alt s) (s_VN s) (s_VE s) (s_VD s) roll pitch heading * i_w0 d
  + sysmat3d_G21 (s_lat s) (s_lon s) (s_alt s) (s_VN s) (s_VE s) (s_VD s) roll pitch heading * i_w1 d
  + sysmat3d_G22 (s_lat s) (s_lon s) (s_alt s) (s_VN s) (s_VE s) (s_VD s) roll pitch heading * i_w2 d
  + sysmat3d_A20 (s_lat s) (s_lon s) (s_alt s) (s_VN s) (s_VE s) (s_VD s) roll pitch heading * i_f0 d
  + sysmat3d_A21 (s_lat s) (s_lon s) (s_alt s) (s_VN s) (s_VE s) (s_VD s) roll pitch heading * i_f1 d
  + sysmat3d_A22 (s_lat s) (s_lon s) (s_alt s) (s_VN s) (s_VE s) (s_VD s) roll pitch heading * i_f2 d.
Definition sens3 (s : nstate) (roll pitch heading : R) (d : imu) : R :=
  sysmat3d_G30 (s_lat s) (s_lon s) (s_alt s) (s_VN s) (s_VE s) (s_VD s) roll pitch heading * i_w0 d
  + sysmat3d_G31 (s_lat s) (s_lon s) (s_alt s) (s_VN s) (s_VE s) (s_VD s) roll pitch heading * i_w1 d
  + sysmat3d_G32 (s_lat s) (s_lon s) (s_alt s) (s_VN s) (s_VE s) (s_VD s) roll pitch heading * i_w2 d
  + sysmat3d_A30 (s_lat s) (s_lon s) (s_alt s) (s_VN s) (s_VE s) (s_VD s) roll pitch heading * i_f0 d
  + sysmat3d_A31 (s_lat s) (s_lon s) (s_alt s) (s_VN s) (s_VE s) (s_VD s) roll pitch heading * i_f1 d
  + sysmat3d_A32 (s_lat s) (s_lon s) (s_alt s) (s_VN s) (s_VE s) (s_VD s) roll pitch heading * i_f2 d.
Definition sens4 (s : nstate) (roll pitch heading : R) (d : imu) : R :=
  sysmat3d_G40 (s_lat s) (s_lon s) (s_alt s) (s_VN s) (s_VE s) (s_VD s) roll pitch heading * i_w0 d
  + sysmat3d_G41 (s_lat s) (s_lon s) (s_alt s) (s_VN s) (s_VE s) (s_VD s) roll pitch heading * i_w1 d
  + sysmat3d_G42 (s_lat s) (s_lon s) (s_alt s) (s_VN s) (s_VE s) (s_VD s) roll pitch heading * i_w2 d
  + sysmat3d_A40 (s_lat s) (s_lon s) (s_alt s) (s_VN s) (s_VE s) (s_VD s) roll pitch heading * i_f0 d
  + sysmat3d_A41 (s_lat s) (s_lon s) (s_alt s) (s_VN s) (s_VE s) (s_VD s) roll pitch heading * i_f1 d
  + sysmat3d_A42 (s_lat s) (s_lon s) (s_alt s) (s_VN s) (s_VE s) (s_VD s) roll pitch heading * i_f2 d.
Definition sens5 (s : nstate) (roll pitch heading : R) (d : imu) : R :=
  sysmat3d_G50 (s_lat s) (s_lon s) (s_alt s) (s_VN s) (s_VE s) (s_VD s) roll pitch heading * i_w0 d
  + sysmat3d_G51 (s_lat s) (s_lon s) (s_alt s) (s_VN s) (s_VE s) (s_VD s) roll pitch heading * i_w1 d
  + sysmat3d_G52 (s_lat s) (s_lon s) (s_alt s) (s_VN s) (s_VE s) (s_VD s) roll pitch heading * i_w2 d
  + sysmat3d_A50 (s_lat s) (s_lon s) (s_alt s) (s_VN s) (s_VE s) (s_VD s) roll pitch heading * i_f0 d
  + sysmat3d_A51 (s_lat s) (s_lon s) (s_alt s) (s_VN s) (s_VE s) (s_VD s) roll pitch heading * i_f1 d
  + sysmat3d_A52 (s_lat s) (s_lon s) (s_alt s) (s_VN s) (s_VE s) (s_VD s) roll pitch heading * i_f2 d.
Definition sens6 (s : nstate) (roll pitch heading : R) (d : imu) : R :=
  sysmat3d_G60 (s_lat s) (s_lon s) (s_alt s) (s_VN s) (s_VE s) (s_VD s) roll pitch heading * i_w0 d
  + sysmat3d_G61 (s_lat s) (s_lon s) (s_alt s) (s_VN s) (s_VE s) (s_VD s) roll pitch heading * i_w1 d
  + sysmat3d_G62 (s_lat s) (s_lon s) (s_alt s) (s_VN s) (s_VE s) (s_VD s) roll pitch heading * i_w2 d
  + sysmat3d_A60 (s_lat s) (s_lon s) (s_alt s) (s_VN s) (s_VE s) (s_VD s) roll pitch heading * i_f0 d
  + sysmat3d_A61 (s_lat s) (s_lon s) (s_alt s) (s_VN s) (s_VE s) (s_VD s) roll pitch heading * i_f1 d
  + sysmat3d_A62 (s_lat s) (s_lon s) (s_alt s) (s_VN s) (s_VE s) (s_VD s) roll pitch heading * i_f2 d.
Definition sens7 (s : nstate) (roll pitch heading : R) (d : imu) : R :=
  sysmat3d_G70 (s_lat s) (s_lon s) (s_alt s) (s_VN s) (s_VE s) (s_VD s) roll pitch heading * i_w0 d
  + sysmat3d_G71 (s_lat s) (s_lon s) (s_alt s) (s_VN s) (s_VE s) (s_VD s) roll pitch heading * i_w1 d
  + sysmat3d_G72 (s_lat s) (s_lon s) (s_alt s) (s_VN s) (s_VE s) (s_VD s) roll pitch heading * i_w2 d
  + sysmat3d_A70 (s_lat s) (s_lon s) (s_alt s) (s_VN s) (s_VE s) (s_VD s) roll pitch heading * i_f0 d
  + sysmat3d_A71 (s_lat s) (s_lon s) (s_alt s) (s_VN s) (s_VE s) (s_VD s) roll pitch heading * i_f1 d
  + sysmat3d_A72 (s_lat s) (s_lon s) (s_alt s) (s_VN s) (s_VE s) (s_VD s) roll pitch heading * i_f2 d.
Definition sens8 (s : nstate) (roll pitch heading : R) (d : imu) : R :=
  sysmat3d_G80 (s_lat s) (s_lon s) (s_alt s) (s_VN s) (s_VE s) (s_VD s) roll pitch heading * i_w0 d
  + sysmat3d_G81 (s_lat s) (s_lon s) (s_alt s) (s_VN s) (s_VE s) (s_VD s) roll pitch heading * i_w1 d
  + sysmat3d_G82 (s_lat s) (s_lon s) (s_alt s) (s_VN s) (s_VE s) (s_VD s) roll pitch heading * i_w2 d
  + sysmat3d_A80 (s_lat s) (s_lon s) (s_alt s) (s_VN s) (s_VE s) (s_VD s) roll pitch heading * i_f0 d
  + sysmat3d_A81 (s_lat s) (s_lon s) (s_alt s) (s_VN s) (s_VE s) (s_VD s) roll pitch heading * i_f1 d
  + sysmat3d_A82 (s_lat s) (s_lon s) (s_alt s) (s_VN s) (s_VE s) (s_VD s) roll pitch heading * i_f2 d.
Definition sens (s : nstate) (roll pitch heading : R) (d : imu) : err :=
  mkX (sens0 s roll pitch heading d) (sens1 s roll pitch heading d) (sens2 s roll pitch heading d) (sens3 s roll pitch heading d) (sens4 s roll pitch heading d) (sens5 s roll pitch heading d) (sens6 s roll pitch heading d) (sens7 s roll pitch heading d) (sens8 s roll pitch heading d).

(** the attitude matrix of the state is mat_from_rph(roll, pitch, heading) (generated, Gen/Transform.v) *)
Definition att_is (s : nstate) (roll pitch heading : R) : Prop :=
  s_C00 s = mat_from_rph_m00 roll pitch heading /\ s_C01 s = mat_from_rph_m01 roll pitch heading /\
  s_C02 s = mat_from_rph_m02 roll pitch heading /\ s_C10 s = mat_from_rph_m10 roll pitch heading /\
  s_C11 s = mat_from_rph_m11 roll pitch heading /\ s_C12 s = mat_from_rph_m12 roll pitch heading /\
  s_C20 s = mat_from_rph_m20 roll pitch heading /\ s_C21 s = mat_from_rph_m21 roll pitch heading /\
  s_C22 s = mat_from_rph_m22 roll pitch heading.

(** * 3. Tactics *)

Ltac splits := repeat match goal with |- _ /\ _ => split end.

Ltac unf_nav :=
  unfold nav_rhs_lat, nav_rhs_lon, nav_rhs_alt, nav_rhs_VN, nav_rhs_VE, nav_rhs_VD,
    nav_rhs_C00, nav_rhs_C01, nav_rhs_C02, nav_rhs_C10, nav_rhs_C11, nav_rhs_C12,
    nav_rhs_C20, nav_rhs_C21, nav_rhs_C22,
    nav_cor_N, nav_cor_E, nav_cor_D, nav_om_N, nav_om_E, nav_om_D,
    nav_rho_N, nav_rho_E, nav_rho_D, nav_Omega_N, nav_Omega_E, nav_Omega_D,
    dot3, cross0, cross1, cross2, skew00, skew01, skew02, skew10, skew11, skew12, skew20, skew21, skew22.

Ltac unf_chart :=
  unfold lin, linB, pert, nav_field, app, pdelta, sadd, iadd, xscale;
  cbn [s_lat s_lon s_alt s_VN s_VE s_VD s_C00 s_C01 s_C02 s_C10 s_C11 s_C12 s_C20 s_C21 s_C22
       i_w0 i_w1 i_w2 i_f0 i_f1 i_f2 e0 e1 e2 e3 e4 e5 e6 e7 e8].
Ltac unf_pd := unfold pd_lat, pd_lon, pd_alt, pd_v0, pd_v1, pd_v2.

Ltac unf_sens :=
  unfold sens, sens0, sens1, sens2, sens3, sens4, sens5, sens6, sens7, sens8;
  cbn [e0 e1 e2 e3 e4 e5 e6 e7 e8 i_w0 i_w1 i_w2 i_f0 i_f1 i_f2];
  unfold sysmat3d_G00, sysmat3d_G01, sysmat3d_G02, sysmat3d_G10, sysmat3d_G11, sysmat3d_G12, sysmat3d_G20, sysmat3d_G21, sysmat3d_G22, sysmat3d_G30, sysmat3d_G31, sysmat3d_G32, sysmat3d_G40, sysmat3d_G41, sysmat3d_G42, sysmat3d_G50, sysmat3d_G51, sysmat3d_G52, sysmat3d_G60, sysmat3d_G61, sysmat3d_G62, sysmat3d_G70, sysmat3d_G71, sysmat3d_G72, sysmat3d_G80, sysmat3d_G81, sysmat3d_G82, sysmat3d_A00, sysmat3d_A01, sysmat3d_A02, sysmat3d_A10, sysmat3d_A11, sysmat3d_A12, sysmat3d_A20, sysmat3d_A21, sysmat3d_A22, sysmat3d_A30, sysmat3d_A31, sysmat3d_A32, sysmat3d_A40, sysmat3d_A41, sysmat3d_A42, sysmat3d_A50, sysmat3d_A51, sysmat3d_A52, sysmat3d_A60, sysmat3d_A61, sysmat3d_A62, sysmat3d_A70, sysmat3d_A71, sysmat3d_A72, sysmat3d_A80, sysmat3d_A81, sysmat3d_A82;
  repeat autounfold with sysmat3d_db.

Ltac unf_rph :=
  unfold mat_from_rph_m00, mat_from_rph_m01, mat_from_rph_m02, mat_from_rph_m10, mat_from_rph_m11,
    mat_from_rph_m12, mat_from_rph_m20, mat_from_rph_m21, mat_from_rph_m22;
  repeat autounfold with mat_from_rph_db.

(** * 4. B_gyro and B_accel are exact *)

Ltac b_tac :=
  intros s roll pitch heading m d Hatt;
  destruct s as [lat lon alt VN VE VD C00 C01 C02 C10 C11 C12 C20 C21 C22];
  destruct m as [w0 w1 w2 f0 f1 f2]; destruct d as [dw0 dw1 dw2 df0 df1 df2];
  unfold att_is in Hatt; cbn [s_C00 s_C01 s_C02 s_C10 s_C11 s_C12 s_C20 s_C21 s_C22] in Hatt;
  destruct Hatt as (H00 & H01 & H02 & H10 & H11 & H12 & H20 & H21 & H22);
  unf_chart; unf_pd; unf_nav; auto_derive; [exact I|];
  unf_sens; cbn [s_lat s_lon s_alt s_VN s_VE s_VD];
  rewrite ?H00, ?H01, ?H02, ?H10, ?H11, ?H12, ?H20, ?H21, ?H22; unf_rph; unfold Rdiv;
  pose proof (sc1 (roll * (PI * / 180))) as Hr; pose proof (sc1 (pitch * (PI * / 180))) as Hp;
  pose proof (sc1 (heading * (PI * / 180))) as Hh;
  set (sr := sin (roll * (PI * / 180))) in *; set (cr := cos (roll * (PI * / 180))) in *;
  set (sp := sin (pitch * (PI * / 180))) in *; set (cp := cos (pitch * (PI * / 180))) in *;
  set (sh := sin (heading * (PI * / 180))) in *; set (ch := cos (heading * (PI * / 180))) in *;
  assert (Hr' : sr * sr = 1 - cr * cr) by lra; assert (Hp' : sp * sp = 1 - cp * cp) by lra;
  assert (Hh' : sh * sh = 1 - ch * ch) by lra;
  ring [Hr' Hp' Hh'].

Lemma B_lat : forall s roll pitch heading m d, att_is s roll pitch heading ->
  is_derive (linB nav_rhs_lat s m d) 0 (s_lat (pdelta s (sens s roll pitch heading d))).
Proof. b_tac. Qed.
Lemma B_lon : forall s roll pitch heading m d, att_is s roll pitch heading ->
  is_derive (linB nav_rhs_lon s m d) 0 (s_lon (pdelta s (sens s roll pitch heading d))).
Proof. b_tac. Qed.
Lemma B_alt : forall s roll pitch heading m d, att_is s roll pitch heading ->
  is_derive (linB nav_rhs_alt s m d) 0 (s_alt (pdelta s (sens s roll pitch heading d))).
Proof. b_tac. Qed.
Lemma B_VN : forall s roll pitch heading m d, att_is s roll pitch heading ->
  is_derive (linB nav_rhs_VN s m d) 0 (s_VN (pdelta s (sens s roll pitch heading d))).
Proof. b_tac. Qed.
Lemma B_VE : forall s roll pitch heading m d, att_is s roll pitch heading ->
  is_derive (linB nav_rhs_VE s m d) 0 (s_VE (pdelta s (sens s roll pitch heading d))).
Proof. b_tac. Qed.
Lemma B_VD : forall s roll pitch heading m d, att_is s roll pitch heading ->
  is_derive (linB nav_rhs_VD s m d) 0 (s_VD (pdelta s (sens s roll pitch heading d))).
Proof. b_tac. Qed.
Lemma B_C00 : forall s roll pitch heading m d, att_is s roll pitch heading ->
  is_derive (linB nav_rhs_C00 s m d) 0 (s_C00 (pdelta s (sens s roll pitch heading d))).
Proof. b_tac. Qed.
Lemma B_C01 : forall s roll pitch heading m d, att_is s roll pitch heading ->
  is_derive (linB nav_rhs_C01 s m d) 0 (s_C01 (pdelta s (sens s roll pitch heading d))).
Proof. b_tac. Qed.
Lemma B_C02 : forall s roll pitch heading m d, att_is s roll pitch heading ->
  is_derive (linB nav_rhs_C02 s m d) 0 (s_C02 (pdelta s (sens s roll pitch heading d))).
Proof. b_tac. Qed.
Lemma B_C10 : forall s roll pitch heading m d, att_is s roll pitch heading ->
  is_derive (linB nav_rhs_C10 s m d) 0 (s_C10 (pdelta s (sens s roll pitch heading d))).
Proof. b_tac. Qed.
Lemma B_C11 : forall s roll pitch heading m d, att_is s roll pitch heading ->
  is_derive (linB nav_rhs_C11 s m d) 0 (s_C11 (pdelta s (sens s roll pitch heading d))).
Proof. b_tac. Qed.
Lemma B_C12 : forall s roll pitch heading m d, att_is s roll pitch heading ->
  is_derive (linB nav_rhs_C12 s m d) 0 (s_C12 (pdelta s (sens s roll pitch heading d))).
Proof. b_tac. Qed.
Lemma B_C20 : forall s roll pitch heading m d, att_is s roll pitch heading ->
  is_derive (linB nav_rhs_C20 s m d) 0 (s_C20 (pdelta s (sens s roll pitch heading d))).
Proof. b_tac. Qed.
Lemma B_C21 : forall s roll pitch heading m d, att_is s roll pitch heading ->
  is_derive (linB nav_rhs_C21 s m d) 0 (s_C21 (pdelta s (sens s roll pitch heading d))).
Proof. b_tac. Qed.
Lemma B_C22 : forall s roll pitch heading m d, att_is s roll pitch heading ->
  is_derive (linB nav_rhs_C22 s m d) 0 (s_C22 (pdelta s (sens s roll pitch heading d))).
Proof. b_tac. Qed.

(** * 5. Geometry: positivity and derivatives of the radii and of normal gravity *)

Lemma W2l_pos lat : 0 < W2l lat.
Proof. unfold W2l, W2. apply W_pos. Qed.
Lemma W2l_le1 lat : W2l lat <= 1.
Proof. unfold W2l, W2, E2_. pose proof (sin2_le1 (lat * d2r)).
  assert (0 <= sin (lat * d2r) * sin (lat * d2r)) by nra. nra. Qed.

Lemma nav_Rn_big lat : 6000000 <= nav_Rn lat.
Proof.
  unfold nav_Rn, R_meridian. fold (W2l lat).
  pose proof (W2l_pos lat) as Hx. pose proof (W2l_le1 lat) as Hx1.
  set (q := sqrt (W2l lat)).
  assert (Hq : 0 < q) by (apply sqrt_lt_R0; assumption).
  assert (Hqq : q * q = W2l lat) by (apply sqrt_sqrt; lra).
  assert (q <= 1) by nra.
  rewrite <- Hqq.
  apply Rmult_le_reg_r with (q * q * q); [nra|].
  replace (A_ * (1 - E2_) / (q * q * q) * (q * q * q)) with (A_ * (1 - E2_)) by (field; lra).
  assert (q * q * q <= 1) by nra. unfold A_, E2_. nra.
Qed.
Lemma nav_Re_big lat : 6000000 <= nav_Re lat.
Proof.
  unfold nav_Re, R_transverse. fold (W2l lat).
  pose proof (W2l_pos lat) as Hx. pose proof (W2l_le1 lat) as Hx1.
  set (q := sqrt (W2l lat)).
  assert (Hq : 0 < q) by (apply sqrt_lt_R0; assumption).
  assert (Hqq : q * q = W2l lat) by (apply sqrt_sqrt; lra).
  assert (q <= 1) by nra.
  assert (A_ <= A_ / q).
  { apply Rmult_le_reg_r with q; [lra|]. replace (A_ / q * q) with A_ by (field; lra). unfold A_. nra. }
  unfold A_ in *. lra.
Qed.
Lemma rn_pos lat alt : -1000000 <= alt -> 0 < nav_Rn lat + alt.
Proof. pose proof (nav_Rn_big lat). lra. Qed.
Lemma re_pos lat alt : -1000000 <= alt -> 0 < nav_Re lat + alt.
Proof. pose proof (nav_Re_big lat). lra. Qed.

Ltac geo_side := unfold Rminus in *; repeat split; auto; try (apply Rgt_not_eq; assumption);
  try (apply Rgt_not_eq, Rmult_lt_0_compat; assumption).
Ltac geo_main phi :=
  unfold Rminus in *;
  set (q := sqrt (1 + - (E2_ * (sin phi * sin phi)))) in *;
  assert (Hqq : q * q = 1 + - (E2_ * (sin phi * sin phi))) by (apply sqrt_sqrt; lra);
  assert (Hq0 : q <> 0) by lra;
  rewrite <- Hqq; field_simplify_eq; [ring [Hqq] | try lra; repeat split; lra].

Lemma nav_Rn_derive (lat : R) : is_derive nav_Rn lat (d2r * dRn_dphi lat).
Proof.
  unfold nav_Rn, R_meridian, W2, dRn_dphi, W2l, W2.
  pose proof (W_pos (lat * d2r)) as HW.
  assert (HQ : 0 < sqrt (1 - E2_ * (sin (lat * d2r) * sin (lat * d2r)))) by (apply sqrt_lt_R0; exact HW).
  auto_derive; [geo_side|]. geo_main (lat * d2r).
Qed.
Lemma nav_Re_derive (lat : R) : is_derive nav_Re lat (d2r * dRe_dphi lat).
Proof.
  unfold nav_Re, R_transverse, W2, dRe_dphi, W2l, W2.
  pose proof (W_pos (lat * d2r)) as HW.
  assert (HQ : 0 < sqrt (1 - E2_ * (sin (lat * d2r) * sin (lat * d2r)))) by (apply sqrt_lt_R0; exact HW).
  auto_derive; [geo_side|]. geo_main (lat * d2r).
Qed.
Lemma g0_derive (phi : R) : is_derive g0 phi (dg0 phi).
Proof.
  unfold g0, dg0.
  pose proof (W_pos phi) as HW.
  assert (HQ : 0 < sqrt (1 - E2_ * (sin phi * sin phi))) by (apply sqrt_lt_R0; exact HW).
  auto_derive; [geo_side|]. geo_main phi.
Qed.
Lemma D_Rn (lat : R) : Derive (fun x : R => nav_Rn x) lat = d2r * dRn_dphi lat.
Proof. apply is_derive_unique, nav_Rn_derive. Qed.
Lemma D_Re (lat : R) : Derive (fun x : R => nav_Re x) lat = d2r * dRe_dphi lat.
Proof. apply is_derive_unique, nav_Re_derive. Qed.
Lemma D_g0 (phi : R) : Derive (fun x : R => g0 x) phi = dg0 phi.
Proof. apply is_derive_unique, g0_derive. Qed.
Lemma ng_split phi h : normal_gravity phi h = g0 phi * (1 - 2 * h / A_).
Proof. reflexivity. Qed.
(* the VD right-hand side with normal gravity written as g0(phi) (1 - 2 h / a): convertible to nav_rhs_VD *)
Definition nav_rhs_VD' (lat lon alt VN VE VD C00 C01 C02 C10 C11 C12 C20 C21 C22 w0 w1 w2 f0 f1 f2 : R) : R :=
  dot3 C20 C21 C22 f0 f1 f2 + g0 (lat * d2r) * (1 - 2 * alt / A_)
  - cross2 (nav_cor_N lat alt VN VE) (nav_cor_E lat alt VN VE) (nav_cor_D lat alt VN VE) VN VE VD.
Lemma nav_rhs_VD_g0 : nav_rhs_VD = nav_rhs_VD'.
Proof. reflexivity. Qed.

(** * 6. The generated F in the vocabulary of the specification

    F[DR,DV] = I, F[DR,PHI] = [v x];  F[DV,DV] = -[(2 Omega + rho) x], F[DV,PHI] = -[g x], F[DV3,DR3] = 2 g0 / a;
    F[PHI,DR] = [Omega x] R, F[PHI,DV] = R, F[PHI,PHI] = -[(Omega + rho) x] + R [v x],
    R = curvature matrix ((0, 1/re, 0), (-1/rn, 0, 0), (0, -tan(lat)/re, 0)). *)
Definition corN s := nav_cor_N (s_lat s) (s_alt s) (s_VN s) (s_VE s).
Definition corE s := nav_cor_E (s_lat s) (s_alt s) (s_VN s) (s_VE s).
Definition corD s := nav_cor_D (s_lat s) (s_alt s) (s_VN s) (s_VE s).
Definition omN s := nav_om_N (s_lat s) (s_alt s) (s_VN s) (s_VE s).
Definition omE s := nav_om_E (s_lat s) (s_alt s) (s_VN s) (s_VE s).
Definition omD s := nav_om_D (s_lat s) (s_alt s) (s_VN s) (s_VE s).
Definition OmN s := nav_Omega_N (s_lat s).
Definition OmD s := nav_Omega_D (s_lat s).
Definition grav s := normal_gravity (s_lat s * d2r) (s_alt s).

Definition sm0 s x := e3 x - s_VD s * e7 x + s_VE s * e8 x.
Definition sm1 s x := e4 x + s_VD s * e6 x - s_VN s * e8 x.
Definition sm2 s x := e5 x - s_VE s * e6 x + s_VN s * e7 x.
Definition sm3 s x := corD s * e4 x - corE s * e5 x + grav s * e7 x.
Definition sm4 s x := - corD s * e3 x + corN s * e5 x - grav s * e6 x.
Definition sm5 s x := 2 * g0 (s_lat s * d2r) / A_ * e2 x + corE s * e3 x - corN s * e4 x.
Definition sm6 s x := OmD s / rn s * e0 x + e4 x / re s + s_VD s / re s * e6 x + omD s * e7 x
                      + (- omE s - s_VN s / re s) * e8 x.
Definition sm7 s x := (OmD s / re s + OmN s * tphi s / re s) * e1 x - e3 x / rn s - omD s * e6 x
                      + s_VD s / rn s * e7 x + (omN s - s_VE s / rn s) * e8 x.
Definition sm8 s x := - OmN s / rn s * e0 x - tphi s / re s * e4 x + (omE s - tphi s * s_VD s / re s) * e6 x
                      - omN s * e7 x + tphi s * s_VN s / re s * e8 x.

Ltac to_prims :=
  unfold corN, corE, corD, omN, omE, omD, OmN, OmD, grav, rn, re, sphi, cphi, tphi in *;
  cbn [s_lat s_lon s_alt s_VN s_VE s_VD] in *;
  unfold nav_cor_N, nav_cor_E, nav_cor_D, nav_om_N, nav_om_E, nav_om_D,
    nav_rho_N, nav_rho_E, nav_rho_D, nav_Omega_N, nav_Omega_E, nav_Omega_D, normal_gravity in *;
  unfold nav_Rn, nav_Re, R_meridian, R_transverse, dRn_dphi, dRe_dphi, W2l, W2, g0, dg0, tan in *;
  unfold A_, E2_, RATE_, GE_, FG_, d2r, r2d in *.

Ltac with_q lat :=
  set (phi := lat * (PI / 180)) in *;
  pose proof (W_pos' phi) as HW;
  set (q := sqrt (1 - 66943799901413 / 10000000000000000 * (sin phi * sin phi))) in *;
  assert (Hqq : q * q = 1 - 66943799901413 / 10000000000000000 * (sin phi * sin phi)) by (apply sqrtW_sq);
  assert (Hq : 0 < q) by (apply sqrtW_pos);
  set (sp := sin phi) in *; set (cp := cos phi) in *.

Ltac nzs := repeat split; try (apply Rgt_not_eq; assumption); try apply PI_neq0; try lra.

Lemma gen_Rn (lat : R) :
  nav_Re lat * (9933056200098587 / 10000000000000000) /
    (1 - 66943799901413 / 10000000000000000 * (sin (lat * (PI / 180)) * sin (lat * (PI / 180)))) = nav_Rn lat.
Proof.
  unfold nav_Rn, nav_Re, R_meridian, R_transverse, W2, A_, E2_, d2r.
  pose proof (W_pos' (lat * (PI / 180))) as HW. pose proof (sqrtW_pos (lat * (PI / 180))) as HQ.
  set (ss := sin (lat * (PI / 180)) * sin (lat * (PI / 180))) in *.
  field. repeat split; try lra; apply Rgt_not_eq; assumption.
Qed.

(* fold the generated sub-expressions back into the specification's radii and normal gravity (checked by conversion) *)
Ltac fold_geo lat :=
  repeat match goal with |- context [6378137 / sqrt ?w] => change (6378137 / sqrt w) with (nav_Re lat) end;
  rewrite ?(gen_Rn lat);
  repeat match goal with |- context [?a * (1 + ?b * ?ss) / sqrt ?w] =>
    change (a * (1 + b * ss) / sqrt w) with (g0 (lat * d2r)) end.

Ltac model_tac j :=
  intros s roll pitch heading x;
  destruct s as [lat lon alt VN VE VD C00 C01 C02 C10 C11 C12 C20 C21 C22];
  destruct x as [x0 x1 x2 x3 x4 x5 x6 x7 x8];
  unfold model0, model1, model2, model3, model4, model5, model6, model7, model8,
         sm0, sm1, sm2, sm3, sm4, sm5, sm6, sm7, sm8;
  cbn [e0 e1 e2 e3 e4 e5 e6 e7 e8 s_lat s_lon s_alt s_VN s_VE s_VD];
  unfold sysmat3d_F00, sysmat3d_F01, sysmat3d_F02, sysmat3d_F03, sysmat3d_F04, sysmat3d_F05, sysmat3d_F06, sysmat3d_F07, sysmat3d_F08, sysmat3d_F10, sysmat3d_F11, sysmat3d_F12, sysmat3d_F13, sysmat3d_F14, sysmat3d_F15, sysmat3d_F16, sysmat3d_F17, sysmat3d_F18, sysmat3d_F20, sysmat3d_F21, sysmat3d_F22, sysmat3d_F23, sysmat3d_F24, sysmat3d_F25, sysmat3d_F26, sysmat3d_F27, sysmat3d_F28, sysmat3d_F30, sysmat3d_F31, sysmat3d_F32, sysmat3d_F33, sysmat3d_F34, sysmat3d_F35, sysmat3d_F36, sysmat3d_F37, sysmat3d_F38, sysmat3d_F40, sysmat3d_F41, sysmat3d_F42, sysmat3d_F43, sysmat3d_F44, sysmat3d_F45, sysmat3d_F46, sysmat3d_F47, sysmat3d_F48, sysmat3d_F50, sysmat3d_F51, sysmat3d_F52, sysmat3d_F53, sysmat3d_F54, sysmat3d_F55, sysmat3d_F56, sysmat3d_F57, sysmat3d_F58, sysmat3d_F60, sysmat3d_F61, sysmat3d_F62, sysmat3d_F63, sysmat3d_F64, sysmat3d_F65, sysmat3d_F66, sysmat3d_F67, sysmat3d_F68, sysmat3d_F70, sysmat3d_F71, sysmat3d_F72, sysmat3d_F73, sysmat3d_F74, sysmat3d_F75, sysmat3d_F76, sysmat3d_F77, sysmat3d_F78, sysmat3d_F80, sysmat3d_F81, sysmat3d_F82, sysmat3d_F83, sysmat3d_F84, sysmat3d_F85, sysmat3d_F86, sysmat3d_F87, sysmat3d_F88;
  repeat autounfold with sysmat3d_db; fold_geo lat;
  unfold corN, corE, corD, omN, omE, omD, OmN, OmD, grav, rn, re, sphi, cphi, tphi;
  cbn [s_lat s_lon s_alt s_VN s_VE s_VD];
  unfold nav_cor_N, nav_cor_E, nav_cor_D, nav_om_N, nav_om_E, nav_om_D,
    nav_rho_N, nav_rho_E, nav_rho_D, nav_Omega_N, nav_Omega_E, nav_Omega_D;
  rewrite ?ng_split; unfold RATE_, A_, d2r, Rdiv; ring.

Lemma model0_spec : forall s roll pitch heading x, model0 s roll pitch heading x = sm0 s x.
Proof. model_tac 0. Qed.
Lemma model1_spec : forall s roll pitch heading x, model1 s roll pitch heading x = sm1 s x.
Proof. model_tac 1. Qed.
Lemma model2_spec : forall s roll pitch heading x, model2 s roll pitch heading x = sm2 s x.
Proof. model_tac 2. Qed.
Lemma model3_spec : forall s roll pitch heading x, model3 s roll pitch heading x = sm3 s x.
Proof. model_tac 3. Qed.
Lemma model4_spec : forall s roll pitch heading x, model4 s roll pitch heading x = sm4 s x.
Proof. model_tac 4. Qed.
Lemma model5_spec : forall s roll pitch heading x, model5 s roll pitch heading x = sm5 s x.
Proof. model_tac 5. Qed.
Lemma model6_spec : forall s roll pitch heading x, model6 s roll pitch heading x = sm6 s x.
Proof. model_tac 6. Qed.
Lemma model7_spec : forall s roll pitch heading x, model7 s roll pitch heading x = sm7 s x.
Proof. model_tac 7. Qed.
Lemma model8_spec : forall s roll pitch heading x, model8 s roll pitch heading x = sm8 s x.
Proof. model_tac 8. Qed.

(** * 7. The error dynamics: F + N is the linearisation of the hub specification in the library's coordinates *)

Definition dom (s : nstate) : Prop := -90 < s_lat s < 90 /\ -1000000 <= s_alt s.

Ltac zero_norm :=
  unfold Rdiv;
  repeat (progress rewrite ?Rmult_0_l, ?Rmult_0_r, ?Ropp_0, ?Rplus_0_r, ?Rminus_0_r, ?Rmult_1_l, ?Rplus_0_l).

Ltac side_known :=
  repeat match goal with
  | |- _ /\ _ => split
  | |- True => exact I
  | |- ex_derive (fun x => nav_Rn x) _ => eexists; apply nav_Rn_derive
  | |- ex_derive (fun x => nav_Re x) _ => eexists; apply nav_Re_derive
  | |- ex_derive (fun x => g0 x) _ => eexists; apply g0_derive
  | |- A_ <> 0 => unfold A_; lra
  | |- _ <> 0 => first [ apply Rgt_not_eq; assumption
                       | apply Rgt_not_eq, Rmult_lt_0_compat; assumption ]
  end.

Ltac unf_errdyn :=
  unfold errdyn, errdyn0, errdyn1, errdyn2, errdyn3, errdyn4, errdyn5, errdyn6, errdyn7, errdyn8;
  cbn [e0 e1 e2 e3 e4 e5 e6 e7 e8];
  rewrite ?model0_spec, ?model1_spec, ?model2_spec, ?model3_spec, ?model4_spec, ?model5_spec,
          ?model6_spec, ?model7_spec, ?model8_spec;
  unfold sm0, sm1, sm2, sm3, sm4, sm5, sm6, sm7, sm8,
         negl0, negl1, negl2, negl3, negl4, negl5, negl6, negl7, negl8,
         N00, N02, N10, N11, N12, N30, N36, N37, N38, N40, N47, N50, N56, N57, N58, N60, N62, N70, N72, N80, N82,
         corN, corE, corD, omN, omE, omD, OmN, OmD, grav, rn, re, sphi, cphi, tphi;
  cbn [e0 e1 e2 e3 e4 e5 e6 e7 e8 s_lat s_lon s_alt s_VN s_VE s_VD
       s_C00 s_C01 s_C02 s_C10 s_C11 s_C12 s_C20 s_C21 s_C22].

Ltac row_intro :=
  intros s roll pitch heading m x [Hlat Halt];
  destruct s as [lat lon alt VN VE VD C00 C01 C02 C10 C11 C12 C20 C21 C22];
  destruct m as [w0 w1 w2 f0 f1 f2]; destruct x as [x0 x1 x2 x3 x4 x5 x6 x7 x8];
  cbn [s_lat s_alt] in Hlat, Halt;
  pose proof (rn_pos lat alt Halt) as Hrn; pose proof (re_pos lat alt Halt) as Hre;
  pose proof (cos_d2r_pos lat Hlat) as Hc; fold d2r in Hc;
  unf_errdyn; unf_chart;
  set (Dlat := nav_rhs_lat lat lon alt VN VE VD C00 C01 C02 C10 C11 C12 C20 C21 C22 w0 w1 w2 f0 f1 f2);
  set (Dlon := nav_rhs_lon lat lon alt VN VE VD C00 C01 C02 C10 C11 C12 C20 C21 C22 w0 w1 w2 f0 f1 f2);
  set (Dalt := nav_rhs_alt lat lon alt VN VE VD C00 C01 C02 C10 C11 C12 C20 C21 C22 w0 w1 w2 f0 f1 f2);
  set (DVN := nav_rhs_VN lat lon alt VN VE VD C00 C01 C02 C10 C11 C12 C20 C21 C22 w0 w1 w2 f0 f1 f2);
  set (DVE := nav_rhs_VE lat lon alt VN VE VD C00 C01 C02 C10 C11 C12 C20 C21 C22 w0 w1 w2 f0 f1 f2);
  set (DVD := nav_rhs_VD lat lon alt VN VE VD C00 C01 C02 C10 C11 C12 C20 C21 C22 w0 w1 w2 f0 f1 f2);
  set (DC00 := nav_rhs_C00 lat lon alt VN VE VD C00 C01 C02 C10 C11 C12 C20 C21 C22 w0 w1 w2 f0 f1 f2);
  set (DC01 := nav_rhs_C01 lat lon alt VN VE VD C00 C01 C02 C10 C11 C12 C20 C21 C22 w0 w1 w2 f0 f1 f2);
  set (DC02 := nav_rhs_C02 lat lon alt VN VE VD C00 C01 C02 C10 C11 C12 C20 C21 C22 w0 w1 w2 f0 f1 f2);
  set (DC10 := nav_rhs_C10 lat lon alt VN VE VD C00 C01 C02 C10 C11 C12 C20 C21 C22 w0 w1 w2 f0 f1 f2);
  set (DC11 := nav_rhs_C11 lat lon alt VN VE VD C00 C01 C02 C10 C11 C12 C20 C21 C22 w0 w1 w2 f0 f1 f2);
  set (DC12 := nav_rhs_C12 lat lon alt VN VE VD C00 C01 C02 C10 C11 C12 C20 C21 C22 w0 w1 w2 f0 f1 f2);
  set (DC20 := nav_rhs_C20 lat lon alt VN VE VD C00 C01 C02 C10 C11 C12 C20 C21 C22 w0 w1 w2 f0 f1 f2);
  set (DC21 := nav_rhs_C21 lat lon alt VN VE VD C00 C01 C02 C10 C11 C12 C20 C21 C22 w0 w1 w2 f0 f1 f2);
  set (DC22 := nav_rhs_C22 lat lon alt VN VE VD C00 C01 C02 C10 C11 C12 C20 C21 C22 w0 w1 w2 f0 f1 f2);
  set (dl_lat := pd_lat lat alt x0); set (dl_lon := pd_lon lat alt x1); set (dl_alt := pd_alt x2);
  set (dl_VN := pd_v0 VN VE VD x3 x4 x5 x6 x7 x8); set (dl_VE := pd_v1 VN VE VD x3 x4 x5 x6 x7 x8);
  set (dl_VD := pd_v2 VN VE VD x3 x4 x5 x6 x7 x8);
  set (dl_C00 := pd_v0 C00 C10 C20 0 0 0 x6 x7 x8);
  set (dl_C10 := pd_v1 C00 C10 C20 0 0 0 x6 x7 x8);
  set (dl_C20 := pd_v2 C00 C10 C20 0 0 0 x6 x7 x8);
  set (dl_C01 := pd_v0 C01 C11 C21 0 0 0 x6 x7 x8);
  set (dl_C11 := pd_v1 C01 C11 C21 0 0 0 x6 x7 x8);
  set (dl_C21 := pd_v2 C01 C11 C21 0 0 0 x6 x7 x8);
  set (dl_C02 := pd_v0 C02 C12 C22 0 0 0 x6 x7 x8);
  set (dl_C12 := pd_v1 C02 C12 C22 0 0 0 x6 x7 x8);
  set (dl_C22 := pd_v2 C02 C12 C22 0 0 0 x6 x7 x8);
  change nav_rhs_VD with nav_rhs_VD'; unfold nav_rhs_VD';
  unf_pd; unf_nav; unfold tan.

Ltac row_main :=
  zero_norm; rewrite ?D_Rn, ?D_Re, ?D_g0;
  repeat match goal with D := _ : R |- _ => subst D end;
  unf_pd; unf_nav; rewrite ?ng_split; unfold tan, Rdiv.

Ltac row_tac lat alt :=
  row_intro; auto_derive; [zero_norm; side_known|];
  row_main;
  set (Rn := nav_Rn lat) in *; set (Re := nav_Re lat) in *;
  set (sp := sin (lat * d2r)) in *; set (cp := cos (lat * d2r)) in *;
  set (G0 := g0 (lat * d2r)) in *; set (dG0 := dg0 (lat * d2r)) in *;
  set (dRn := dRn_dphi lat) in *; set (dRe := dRe_dphi lat) in *;
  unfold r2d, d2r, A_; field; nzs.

Lemma row_lat : forall s roll pitch heading m x, dom s ->
  is_derive (lin nav_rhs_lat s_lat s m x) 0 (s_lat (pdelta s (errdyn s roll pitch heading x))).
Proof. row_tac lat alt. Qed.

Lemma row_lon : forall s roll pitch heading m x, dom s ->
  is_derive (lin nav_rhs_lon s_lon s m x) 0 (s_lon (pdelta s (errdyn s roll pitch heading x))).
Proof. row_tac lat alt. Qed.

Lemma row_alt : forall s roll pitch heading m x, dom s ->
  is_derive (lin nav_rhs_alt s_alt s m x) 0 (s_alt (pdelta s (errdyn s roll pitch heading x))).
Proof. row_tac lat alt. Qed.

Lemma row_VN : forall s roll pitch heading m x, dom s ->
  is_derive (lin nav_rhs_VN s_VN s m x) 0 (s_VN (pdelta s (errdyn s roll pitch heading x))).
Proof. row_tac lat alt. Qed.

Lemma row_VE : forall s roll pitch heading m x, dom s ->
  is_derive (lin nav_rhs_VE s_VE s m x) 0 (s_VE (pdelta s (errdyn s roll pitch heading x))).
Proof. row_tac lat alt. Qed.

Lemma row_VD : forall s roll pitch heading m x, dom s ->
  is_derive (lin nav_rhs_VD s_VD s m x) 0 (s_VD (pdelta s (errdyn s roll pitch heading x))).
Proof. row_tac lat alt. Qed.

Lemma row_C00 : forall s roll pitch heading m x, dom s ->
  is_derive (lin nav_rhs_C00 s_C00 s m x) 0 (s_C00 (pdelta s (errdyn s roll pitch heading x))).
Proof. row_tac lat alt. Qed.

Lemma row_C01 : forall s roll pitch heading m x, dom s ->
  is_derive (lin nav_rhs_C01 s_C01 s m x) 0 (s_C01 (pdelta s (errdyn s roll pitch heading x))).
Proof. row_tac lat alt. Qed.

Lemma row_C02 : forall s roll pitch heading m x, dom s ->
  is_derive (lin nav_rhs_C02 s_C02 s m x) 0 (s_C02 (pdelta s (errdyn s roll pitch heading x))).
Proof. row_tac lat alt. Qed.

Lemma row_C10 : forall s roll pitch heading m x, dom s ->
  is_derive (lin nav_rhs_C10 s_C10 s m x) 0 (s_C10 (pdelta s (errdyn s roll pitch heading x))).
Proof. row_tac lat alt. Qed.

Lemma row_C11 : forall s roll pitch heading m x, dom s ->
  is_derive (lin nav_rhs_C11 s_C11 s m x) 0 (s_C11 (pdelta s (errdyn s roll pitch heading x))).
Proof. row_tac lat alt. Qed.

Lemma row_C12 : forall s roll pitch heading m x, dom s ->
  is_derive (lin nav_rhs_C12 s_C12 s m x) 0 (s_C12 (pdelta s (errdyn s roll pitch heading x))).
Proof. row_tac lat alt. Qed.

Lemma row_C20 : forall s roll pitch heading m x, dom s ->
  is_derive (lin nav_rhs_C20 s_C20 s m x) 0 (s_C20 (pdelta s (errdyn s roll pitch heading x))).
Proof. row_tac lat alt. Qed.

Lemma row_C21 : forall s roll pitch heading m x, dom s ->
  is_derive (lin nav_rhs_C21 s_C21 s m x) 0 (s_C21 (pdelta s (errdyn s roll pitch heading x))).
Proof. row_tac lat alt. Qed.

Lemma row_C22 : forall s roll pitch heading m x, dom s ->
  is_derive (lin nav_rhs_C22 s_C22 s m x) 0 (s_C22 (pdelta s (errdyn s roll pitch heading x))).
Proof. row_tac lat alt. Qed.

(** * 8. Assembly *)

(** s + u P(s) x is the perturbed state for the error u x (the chart is linear in x) *)
Lemma mkS_ext : forall a0 a1 a2 a3 a4 a5 a6 a7 a8 a9 a10 a11 a12 a13 a14 b0 b1 b2 b3 b4 b5 b6 b7 b8 b9 b10 b11 b12 b13 b14 : R,
  a0 = b0 -> a1 = b1 -> a2 = b2 -> a3 = b3 -> a4 = b4 -> a5 = b5 -> a6 = b6 -> a7 = b7 -> a8 = b8 -> a9 = b9 -> a10 = b10 -> a11 = b11 -> a12 = b12 -> a13 = b13 -> a14 = b14 -> mkS a0 a1 a2 a3 a4 a5 a6 a7 a8 a9 a10 a11 a12 a13 a14 = mkS b0 b1 b2 b3 b4 b5 b6 b7 b8 b9 b10 b11 b12 b13 b14.
Proof. intros; subst; reflexivity. Qed.

Lemma pert_scale : forall s x u, pert s (xscale u x) = sadd s u (pdelta s x).
Proof.
  intros s x u. destruct s, x. unfold pert, sadd, pdelta, xscale.
  cbn [s_lat s_lon s_alt s_VN s_VE s_VD s_C00 s_C01 s_C02 s_C10 s_C11 s_C12 s_C20 s_C21 s_C22
       e0 e1 e2 e3 e4 e5 e6 e7 e8].
  unfold pd_lat, pd_lon, pd_alt, pd_v0, pd_v1, pd_v2, cross0, cross1, cross2, Rdiv.
  apply mkS_ext; ring.
Qed.

Lemma errdyn_is_linearisation : forall s roll pitch heading m x, dom s ->
  is_derive (lin nav_rhs_lat s_lat s m x) 0 (s_lat (pdelta s (errdyn s roll pitch heading x))) /\
  is_derive (lin nav_rhs_lon s_lon s m x) 0 (s_lon (pdelta s (errdyn s roll pitch heading x))) /\
  is_derive (lin nav_rhs_alt s_alt s m x) 0 (s_alt (pdelta s (errdyn s roll pitch heading x))) /\
  is_derive (lin nav_rhs_VN s_VN s m x) 0 (s_VN (pdelta s (errdyn s roll pitch heading x))) /\
  is_derive (lin nav_rhs_VE s_VE s m x) 0 (s_VE (pdelta s (errdyn s roll pitch heading x))) /\
  is_derive (lin nav_rhs_VD s_VD s m x) 0 (s_VD (pdelta s (errdyn s roll pitch heading x))) /\
  is_derive (lin nav_rhs_C00 s_C00 s m x) 0 (s_C00 (pdelta s (errdyn s roll pitch heading x))) /\
  is_derive (lin nav_rhs_C01 s_C01 s m x) 0 (s_C01 (pdelta s (errdyn s roll pitch heading x))) /\
  is_derive (lin nav_rhs_C02 s_C02 s m x) 0 (s_C02 (pdelta s (errdyn s roll pitch heading x))) /\
  is_derive (lin nav_rhs_C10 s_C10 s m x) 0 (s_C10 (pdelta s (errdyn s roll pitch heading x))) /\
  is_derive (lin nav_rhs_C11 s_C11 s m x) 0 (s_C11 (pdelta s (errdyn s roll pitch heading x))) /\
  is_derive (lin nav_rhs_C12 s_C12 s m x) 0 (s_C12 (pdelta s (errdyn s roll pitch heading x))) /\
  is_derive (lin nav_rhs_C20 s_C20 s m x) 0 (s_C20 (pdelta s (errdyn s roll pitch heading x))) /\
  is_derive (lin nav_rhs_C21 s_C21 s m x) 0 (s_C21 (pdelta s (errdyn s roll pitch heading x))) /\
  is_derive (lin nav_rhs_C22 s_C22 s m x) 0 (s_C22 (pdelta s (errdyn s roll pitch heading x))).
Proof.
  intros s roll pitch heading m x H. splits.
  - apply row_lat; exact H.
  - apply row_lon; exact H.
  - apply row_alt; exact H.
  - apply row_VN; exact H.
  - apply row_VE; exact H.
  - apply row_VD; exact H.
  - apply row_C00; exact H.
  - apply row_C01; exact H.
  - apply row_C02; exact H.
  - apply row_C10; exact H.
  - apply row_C11; exact H.
  - apply row_C12; exact H.
  - apply row_C20; exact H.
  - apply row_C21; exact H.
  - apply row_C22; exact H.
Qed.

Lemma sensor_coupling_exact : forall s roll pitch heading m d, att_is s roll pitch heading ->
  is_derive (linB nav_rhs_lat s m d) 0 (s_lat (pdelta s (sens s roll pitch heading d))) /\
  is_derive (linB nav_rhs_lon s m d) 0 (s_lon (pdelta s (sens s roll pitch heading d))) /\
  is_derive (linB nav_rhs_alt s m d) 0 (s_alt (pdelta s (sens s roll pitch heading d))) /\
  is_derive (linB nav_rhs_VN s m d) 0 (s_VN (pdelta s (sens s roll pitch heading d))) /\
  is_derive (linB nav_rhs_VE s m d) 0 (s_VE (pdelta s (sens s roll pitch heading d))) /\
  is_derive (linB nav_rhs_VD s m d) 0 (s_VD (pdelta s (sens s roll pitch heading d))) /\
  is_derive (linB nav_rhs_C00 s m d) 0 (s_C00 (pdelta s (sens s roll pitch heading d))) /\
  is_derive (linB nav_rhs_C01 s m d) 0 (s_C01 (pdelta s (sens s roll pitch heading d))) /\
  is_derive (linB nav_rhs_C02 s m d) 0 (s_C02 (pdelta s (sens s roll pitch heading d))) /\
  is_derive (linB nav_rhs_C10 s m d) 0 (s_C10 (pdelta s (sens s roll pitch heading d))) /\
  is_derive (linB nav_rhs_C11 s m d) 0 (s_C11 (pdelta s (sens s roll pitch heading d))) /\
  is_derive (linB nav_rhs_C12 s m d) 0 (s_C12 (pdelta s (sens s roll pitch heading d))) /\
  is_derive (linB nav_rhs_C20 s m d) 0 (s_C20 (pdelta s (sens s roll pitch heading d))) /\
  is_derive (linB nav_rhs_C21 s m d) 0 (s_C21 (pdelta s (sens s roll pitch heading d))) /\
  is_derive (linB nav_rhs_C22 s m d) 0 (s_C22 (pdelta s (sens s roll pitch heading d))).
Proof.
  intros s roll pitch heading m d H. splits.
  - apply B_lat; exact H.
  - apply B_lon; exact H.
  - apply B_alt; exact H.
  - apply B_VN; exact H.
  - apply B_VE; exact H.
  - apply B_VD; exact H.
  - apply B_C00; exact H.
  - apply B_C01; exact H.
  - apply B_C02; exact H.
  - apply B_C10; exact H.
  - apply B_C11; exact H.
  - apply B_C12; exact H.
  - apply B_C20; exact H.
  - apply B_C21; exact H.
  - apply B_C22; exact H.
Qed.

(** errdyn = generated model + explicit remainder, and the generated model in the specification's vocabulary *)
Lemma errdyn_split : forall s roll pitch heading x,
  errdyn0 s roll pitch heading x = model0 s roll pitch heading x + negl0 s x /\
  errdyn1 s roll pitch heading x = model1 s roll pitch heading x + negl1 s x /\
  errdyn2 s roll pitch heading x = model2 s roll pitch heading x + negl2 s x /\
  errdyn3 s roll pitch heading x = model3 s roll pitch heading x + negl3 s x /\
  errdyn4 s roll pitch heading x = model4 s roll pitch heading x + negl4 s x /\
  errdyn5 s roll pitch heading x = model5 s roll pitch heading x + negl5 s x /\
  errdyn6 s roll pitch heading x = model6 s roll pitch heading x + negl6 s x /\
  errdyn7 s roll pitch heading x = model7 s roll pitch heading x + negl7 s x /\
  errdyn8 s roll pitch heading x = model8 s roll pitch heading x + negl8 s x.
Proof. intros. splits; reflexivity. Qed.

Lemma model_in_spec_terms : forall s roll pitch heading x,
  model0 s roll pitch heading x = sm0 s x /\ model1 s roll pitch heading x = sm1 s x /\
  model2 s roll pitch heading x = sm2 s x /\ model3 s roll pitch heading x = sm3 s x /\
  model4 s roll pitch heading x = sm4 s x /\ model5 s roll pitch heading x = sm5 s x /\
  model6 s roll pitch heading x = sm6 s x /\ model7 s roll pitch heading x = sm7 s x /\
  model8 s roll pitch heading x = sm8 s x.
Proof.
  intros. splits; [apply model0_spec|apply model1_spec|apply model2_spec|apply model3_spec|apply model4_spec
    |apply model5_spec|apply model6_spec|apply model7_spec|apply model8_spec].
Qed.


(** * 9. The 7-state model is the 9-state model reduced by the library's own matrices

    Matrices as functions of two indices (index bookkeeping over GENERATED entries). *)
Definition mat := nat -> nat -> R.
Definition sum9 (f : nat -> R) : R :=
  f 0%nat + f 1%nat + f 2%nat + f 3%nat + f 4%nat + f 5%nat + f 6%nat + f 7%nat + f 8%nat.
Definition mmul9 (A B : mat) : mat := fun i j => sum9 (fun k => A i k * B k j).

Definition F3m (lat lon alt VN VE VD roll pitch heading : R) (i j : nat) : R :=
  match i, j with
  | 0, 0 => sysmat3d_F00 lat lon alt VN VE VD roll pitch heading | 0, 1 => sysmat3d_F01 lat lon alt VN VE VD roll pitch heading | 0, 2 => sysmat3d_F02 lat lon alt VN VE VD roll pitch heading | 0, 3 => sysmat3d_F03 lat lon alt VN VE VD roll pitch heading | 0, 4 => sysmat3d_F04 lat lon alt VN VE VD roll pitch heading | 0, 5 => sysmat3d_F05 lat lon alt VN VE VD roll pitch heading | 0, 6 => sysmat3d_F06 lat lon alt VN VE VD roll pitch heading | 0, 7 => sysmat3d_F07 lat lon alt VN VE VD roll pitch heading | 0, 8 => sysmat3d_F08 lat lon alt VN VE VD roll pitch heading
  | 1, 0 => sysmat3d_F10 lat lon alt VN VE VD roll pitch heading | 1, 1 => sysmat3d_F11 lat lon alt VN VE VD roll pitch heading | 1, 2 => sysmat3d_F12 lat lon alt VN VE VD roll pitch heading | 1, 3 => sysmat3d_F13 lat lon alt VN VE VD roll pitch heading | 1, 4 => sysmat3d_F14 lat lon alt VN VE VD roll pitch heading | 1, 5 => sysmat3d_F15 lat lon alt VN VE VD roll pitch heading | 1, 6 => sysmat3d_F16 lat lon alt VN VE VD roll pitch heading | 1, 7 => sysmat3d_F17 lat lon alt VN VE VD roll pitch heading | 1, 8 => sysmat3d_F18 lat lon alt VN VE VD roll pitch heading
  | 2, 0 => sysmat3d_F20 lat lon alt VN VE VD roll pitch heading | 2, 1 => sysmat3d_F21 lat lon alt VN VE VD roll pitch heading | 2, 2 => sysmat3d_F22 lat lon alt VN VE VD roll pitch heading | 2, 3 => sysmat3d_F23 lat lon alt VN VE VD roll pitch heading | 2, 4 => sysmat3d_F24 lat lon alt VN VE VD roll pitch heading | 2, 5 => sysmat3d_F25 lat lon alt VN VE VD roll pitch heading | 2, 6 => sysmat3d_F26 lat lon alt VN VE VD roll pitch heading | 2, 7 => sysmat3d_F27 lat lon alt VN VE VD roll pitch heading | 2, 8 => sysmat3d_F28 lat lon alt VN VE VD roll pitch heading
  | 3, 0 => sysmat3d_F30 lat lon alt VN VE VD roll pitch heading | 3, 1 => sysmat3d_F31 lat lon alt VN VE VD roll pitch heading | 3, 2 => sysmat3d_F32 lat lon alt VN VE VD roll pitch heading | 3, 3 => sysmat3d_F33 lat lon alt VN VE VD roll pitch heading | 3, 4 => sysmat3d_F34 lat lon alt VN VE VD roll pitch heading | 3, 5 => sysmat3d_F35 lat lon alt VN VE VD roll pitch heading | 3, 6 => sysmat3d_F36 lat lon alt VN VE VD roll pitch heading | 3, 7 => sysmat3d_F37 lat lon alt VN VE VD roll pitch heading | 3, 8 => sysmat3d_F38 lat lon alt VN VE VD roll pitch heading
  | 4, 0 => sysmat3d_F40 lat lon alt VN VE VD roll pitch heading | 4, 1 => sysmat3d_F41 lat lon alt VN VE VD roll pitch heading | 4, 2 => sysmat3d_F42 lat lon alt VN VE VD roll pitch heading | 4, 3 => sysmat3d_F43 lat lon alt VN VE VD roll pitch heading | 4, 4 => sysmat3d_F44 lat lon alt VN VE VD roll pitch heading | 4, 5 => sysmat3d_F45 lat lon alt VN VE VD roll pitch heading | 4, 6 => sysmat3d_F46 lat lon alt VN VE VD roll pitch heading | 4, 7 => sysmat3d_F47 lat lon alt VN VE VD roll pitch heading | 4, 8 => sysmat3d_F48 lat lon alt VN VE VD roll pitch heading
  | 5, 0 => sysmat3d_F50 lat lon alt VN VE VD roll pitch heading | 5, 1 => sysmat3d_F51 lat lon alt VN VE VD roll pitch heading | 5, 2 => sysmat3d_F52 lat lon alt VN VE VD roll pitch heading | 5, 3 => sysmat3d_F53 lat lon alt VN VE VD roll pitch heading | 5, 4 => sysmat3d_F54 lat lon alt VN VE VD roll pitch heading | 5, 5 => sysmat3d_F55 lat lon alt VN VE VD roll pitch heading | 5, 6 => sysmat3d_F56 lat lon alt VN VE VD roll pitch heading | 5, 7 => sysmat3d_F57 lat lon alt VN VE VD roll pitch heading | 5, 8 => sysmat3d_F58 lat lon alt VN VE VD roll pitch heading
  | 6, 0 => sysmat3d_F60 lat lon alt VN VE VD roll pitch heading | 6, 1 => sysmat3d_F61 lat lon alt VN VE VD roll pitch heading | 6, 2 => sysmat3d_F62 lat lon alt VN VE VD roll pitch heading | 6, 3 => sysmat3d_F63 lat lon alt VN VE VD roll pitch heading | 6, 4 => sysmat3d_F64 lat lon alt VN VE VD roll pitch heading | 6, 5 => sysmat3d_F65 lat lon alt VN VE VD roll pitch heading | 6, 6 => sysmat3d_F66 lat lon alt VN VE VD roll pitch heading | 6, 7 => sysmat3d_F67 lat lon alt VN VE VD roll pitch heading | 6, 8 => sysmat3d_F68 lat lon alt VN VE VD roll pitch heading
  | 7, 0 => sysmat3d_F70 lat lon alt VN VE VD roll pitch heading | 7, 1 => sysmat3d_F71 lat lon alt VN VE VD roll pitch heading | 7, 2 => sysmat3d_F72 lat lon alt VN VE VD roll pitch heading | 7, 3 => sysmat3d_F73 lat lon alt VN VE VD roll pitch heading | 7, 4 => sysmat3d_F74 lat lon alt VN VE VD roll pitch heading | 7, 5 => sysmat3d_F75 lat lon alt VN VE VD roll pitch heading | 7, 6 => sysmat3d_F76 lat lon alt VN VE VD roll pitch heading | 7, 7 => sysmat3d_F77 lat lon alt VN VE VD roll pitch heading | 7, 8 => sysmat3d_F78 lat lon alt VN VE VD roll pitch heading
  | 8, 0 => sysmat3d_F80 lat lon alt VN VE VD roll pitch heading | 8, 1 => sysmat3d_F81 lat lon alt VN VE VD roll pitch heading | 8, 2 => sysmat3d_F82 lat lon alt VN VE VD roll pitch heading | 8, 3 => sysmat3d_F83 lat lon alt VN VE VD roll pitch heading | 8, 4 => sysmat3d_F84 lat lon alt VN VE VD roll pitch heading | 8, 5 => sysmat3d_F85 lat lon alt VN VE VD roll pitch heading | 8, 6 => sysmat3d_F86 lat lon alt VN VE VD roll pitch heading | 8, 7 => sysmat3d_F87 lat lon alt VN VE VD roll pitch heading | 8, 8 => sysmat3d_F88 lat lon alt VN VE VD roll pitch heading
  | _, _ => 0%R
  end%nat.
Definition G3m (lat lon alt VN VE VD roll pitch heading : R) (i j : nat) : R :=
  match i, j with
  | 0, 0 => sysmat3d_G00 lat lon alt VN VE VD roll pitch heading | 0, 1 => sysmat3d_G01 lat lon alt VN VE VD roll pitch heading | 0, 2 => sysmat3d_G02 lat lon alt VN VE VD roll pitch heading
  | 1, 0 => sysmat3d_G10 lat lon alt VN VE VD roll pitch heading | 1, 1 => sysmat3d_G11 lat lon alt VN VE VD roll pitch heading | 1, 2 => sysmat3d_G12 lat lon alt VN VE VD roll pitch heading
  | 2, 0 => sysmat3d_G20 lat lon alt VN VE VD roll pitch heading | 2, 1 => sysmat3d_G21 lat lon alt VN VE VD roll pitch heading | 2, 2 => sysmat3d_G22 lat lon alt VN VE VD roll pitch heading
  | 3, 0 => sysmat3d_G30 lat lon alt VN VE VD roll pitch heading | 3, 1 => sysmat3d_G31 lat lon alt VN VE VD roll pitch heading | 3, 2 => sysmat3d_G32 lat lon alt VN VE VD roll pitch heading
  | 4, 0 => sysmat3d_G40 lat lon alt VN VE VD roll pitch heading | 4, 1 => sysmat3d_G41 lat lon alt VN VE VD roll pitch heading | 4, 2 => sysmat3d_G42 lat lon alt VN VE VD roll pitch heading
  | 5, 0 => sysmat3d_G50 lat lon alt VN VE VD roll pitch heading | 5, 1 => sysmat3d_G51 lat lon alt VN VE VD roll pitch heading | 5, 2 => sysmat3d_G52 lat lon alt VN VE VD roll pitch heading
  | 6, 0 => sysmat3d_G60 lat lon alt VN VE VD roll pitch heading | 6, 1 => sysmat3d_G61 lat lon alt VN VE VD roll pitch heading | 6, 2 => sysmat3d_G62 lat lon alt VN VE VD roll pitch heading
  | 7, 0 => sysmat3d_G70 lat lon alt VN VE VD roll pitch heading | 7, 1 => sysmat3d_G71 lat lon alt VN VE VD roll pitch heading | 7, 2 => sysmat3d_G72 lat lon alt VN VE VD roll pitch heading
  | 8, 0 => sysmat3d_G80 lat lon alt VN VE VD roll pitch heading | 8, 1 => sysmat3d_G81 lat lon alt VN VE VD roll pitch heading | 8, 2 => sysmat3d_G82 lat lon alt VN VE VD roll pitch heading
  | _, _ => 0%R
  end%nat.
Definition A3m (lat lon alt VN VE VD roll pitch heading : R) (i j : nat) : R :=
  match i, j with
  | 0, 0 => sysmat3d_A00 lat lon alt VN VE VD roll pitch heading | 0, 1 => sysmat3d_A01 lat lon alt VN VE VD roll pitch heading | 0, 2 => sysmat3d_A02 lat lon alt VN VE VD roll pitch heading
  | 1, 0 => sysmat3d_A10 lat lon alt VN VE VD roll pitch heading | 1, 1 => sysmat3d_A11 lat lon alt VN VE VD roll pitch heading | 1, 2 => sysmat3d_A12 lat lon alt VN VE VD roll pitch heading
  | 2, 0 => sysmat3d_A20 lat lon alt VN VE VD roll pitch heading | 2, 1 => sysmat3d_A21 lat lon alt VN VE VD roll pitch heading | 2, 2 => sysmat3d_A22 lat lon alt VN VE VD roll pitch heading
  | 3, 0 => sysmat3d_A30 lat lon alt VN VE VD roll pitch heading | 3, 1 => sysmat3d_A31 lat lon alt VN VE VD roll pitch heading | 3, 2 => sysmat3d_A32 lat lon alt VN VE VD roll pitch heading
  | 4, 0 => sysmat3d_A40 lat lon alt VN VE VD roll pitch heading | 4, 1 => sysmat3d_A41 lat lon alt VN VE VD roll pitch heading | 4, 2 => sysmat3d_A42 lat lon alt VN VE VD roll pitch heading
  | 5, 0 => sysmat3d_A50 lat lon alt VN VE VD roll pitch heading | 5, 1 => sysmat3d_A51 lat lon alt VN VE VD roll pitch heading | 5, 2 => sysmat3d_A52 lat lon alt VN VE VD roll pitch heading
  | 6, 0 => sysmat3d_A60 lat lon alt VN VE VD roll pitch heading | 6, 1 => sysmat3d_A61 lat lon alt VN VE VD roll pitch heading | 6, 2 => sysmat3d_A62 lat lon alt VN VE VD roll pitch heading
  | 7, 0 => sysmat3d_A70 lat lon alt VN VE VD roll pitch heading | 7, 1 => sysmat3d_A71 lat lon alt VN VE VD roll pitch heading | 7, 2 => sysmat3d_A72 lat lon alt VN VE VD roll pitch heading
  | 8, 0 => sysmat3d_A80 lat lon alt VN VE VD roll pitch heading | 8, 1 => sysmat3d_A81 lat lon alt VN VE VD roll pitch heading | 8, 2 => sysmat3d_A82 lat lon alt VN VE VD roll pitch heading
  | _, _ => 0%R
  end%nat.
Definition F2m (lat lon alt VN VE VD roll pitch heading : R) (i j : nat) : R :=
  match i, j with
  | 0, 0 => sysmat2d_F00 lat lon alt VN VE VD roll pitch heading | 0, 1 => sysmat2d_F01 lat lon alt VN VE VD roll pitch heading | 0, 2 => sysmat2d_F02 lat lon alt VN VE VD roll pitch heading | 0, 3 => sysmat2d_F03 lat lon alt VN VE VD roll pitch heading | 0, 4 => sysmat2d_F04 lat lon alt VN VE VD roll pitch heading | 0, 5 => sysmat2d_F05 lat lon alt VN VE VD roll pitch heading | 0, 6 => sysmat2d_F06 lat lon alt VN VE VD roll pitch heading
  | 1, 0 => sysmat2d_F10 lat lon alt VN VE VD roll pitch heading | 1, 1 => sysmat2d_F11 lat lon alt VN VE VD roll pitch heading | 1, 2 => sysmat2d_F12 lat lon alt VN VE VD roll pitch heading | 1, 3 => sysmat2d_F13 lat lon alt VN VE VD roll pitch heading | 1, 4 => sysmat2d_F14 lat lon alt VN VE VD roll pitch heading | 1, 5 => sysmat2d_F15 lat lon alt VN VE VD roll pitch heading | 1, 6 => sysmat2d_F16 lat lon alt VN VE VD roll pitch heading
  | 2, 0 => sysmat2d_F20 lat lon alt VN VE VD roll pitch heading | 2, 1 => sysmat2d_F21 lat lon alt VN VE VD roll pitch heading | 2, 2 => sysmat2d_F22 lat lon alt VN VE VD roll pitch heading | 2, 3 => sysmat2d_F23 lat lon alt VN VE VD roll pitch heading | 2, 4 => sysmat2d_F24 lat lon alt VN VE VD roll pitch heading | 2, 5 => sysmat2d_F25 lat lon alt VN VE VD roll pitch heading | 2, 6 => sysmat2d_F26 lat lon alt VN VE VD roll pitch heading
  | 3, 0 => sysmat2d_F30 lat lon alt VN VE VD roll pitch heading | 3, 1 => sysmat2d_F31 lat lon alt VN VE VD roll pitch heading | 3, 2 => sysmat2d_F32 lat lon alt VN VE VD roll pitch heading | 3, 3 => sysmat2d_F33 lat lon alt VN VE VD roll pitch heading | 3, 4 => sysmat2d_F34 lat lon alt VN VE VD roll pitch heading | 3, 5 => sysmat2d_F35 lat lon alt VN VE VD roll pitch heading | 3, 6 => sysmat2d_F36 lat lon alt VN VE VD roll pitch heading
  | 4, 0 => sysmat2d_F40 lat lon alt VN VE VD roll pitch heading | 4, 1 => sysmat2d_F41 lat lon alt VN VE VD roll pitch heading | 4, 2 => sysmat2d_F42 lat lon alt VN VE VD roll pitch heading | 4, 3 => sysmat2d_F43 lat lon alt VN VE VD roll pitch heading | 4, 4 => sysmat2d_F44 lat lon alt VN VE VD roll pitch heading | 4, 5 => sysmat2d_F45 lat lon alt VN VE VD roll pitch heading | 4, 6 => sysmat2d_F46 lat lon alt VN VE VD roll pitch heading
  | 5, 0 => sysmat2d_F50 lat lon alt VN VE VD roll pitch heading | 5, 1 => sysmat2d_F51 lat lon alt VN VE VD roll pitch heading | 5, 2 => sysmat2d_F52 lat lon alt VN VE VD roll pitch heading | 5, 3 => sysmat2d_F53 lat lon alt VN VE VD roll pitch heading | 5, 4 => sysmat2d_F54 lat lon alt VN VE VD roll pitch heading | 5, 5 => sysmat2d_F55 lat lon alt VN VE VD roll pitch heading | 5, 6 => sysmat2d_F56 lat lon alt VN VE VD roll pitch heading
  | 6, 0 => sysmat2d_F60 lat lon alt VN VE VD roll pitch heading | 6, 1 => sysmat2d_F61 lat lon alt VN VE VD roll pitch heading | 6, 2 => sysmat2d_F62 lat lon alt VN VE VD roll pitch heading | 6, 3 => sysmat2d_F63 lat lon alt VN VE VD roll pitch heading | 6, 4 => sysmat2d_F64 lat lon alt VN VE VD roll pitch heading | 6, 5 => sysmat2d_F65 lat lon alt VN VE VD roll pitch heading | 6, 6 => sysmat2d_F66 lat lon alt VN VE VD roll pitch heading
  | _, _ => 0%R
  end%nat.
Definition G2m (lat lon alt VN VE VD roll pitch heading : R) (i j : nat) : R :=
  match i, j with
  | 0, 0 => sysmat2d_G00 lat lon alt VN VE VD roll pitch heading | 0, 1 => sysmat2d_G01 lat lon alt VN VE VD roll pitch heading | 0, 2 => sysmat2d_G02 lat lon alt VN VE VD roll pitch heading
  | 1, 0 => sysmat2d_G10 lat lon alt VN VE VD roll pitch heading | 1, 1 => sysmat2d_G11 lat lon alt VN VE VD roll pitch heading | 1, 2 => sysmat2d_G12 lat lon alt VN VE VD roll pitch heading
  | 2, 0 => sysmat2d_G20 lat lon alt VN VE VD roll pitch heading | 2, 1 => sysmat2d_G21 lat lon alt VN VE VD roll pitch heading | 2, 2 => sysmat2d_G22 lat lon alt VN VE VD roll pitch heading
  | 3, 0 => sysmat2d_G30 lat lon alt VN VE VD roll pitch heading | 3, 1 => sysmat2d_G31 lat lon alt VN VE VD roll pitch heading | 3, 2 => sysmat2d_G32 lat lon alt VN VE VD roll pitch heading
  | 4, 0 => sysmat2d_G40 lat lon alt VN VE VD roll pitch heading | 4, 1 => sysmat2d_G41 lat lon alt VN VE VD roll pitch heading | 4, 2 => sysmat2d_G42 lat lon alt VN VE VD roll pitch heading
  | 5, 0 => sysmat2d_G50 lat lon alt VN VE VD roll pitch heading | 5, 1 => sysmat2d_G51 lat lon alt VN VE VD roll pitch heading | 5, 2 => sysmat2d_G52 lat lon alt VN VE VD roll pitch heading
  | 6, 0 => sysmat2d_G60 lat lon alt VN VE VD roll pitch heading | 6, 1 => sysmat2d_G61 lat lon alt VN VE VD roll pitch heading | 6, 2 => sysmat2d_G62 lat lon alt VN VE VD roll pitch heading
  | _, _ => 0%R
  end%nat.
Definition A2m (lat lon alt VN VE VD roll pitch heading : R) (i j : nat) : R :=
  match i, j with
  | 0, 0 => sysmat2d_A00 lat lon alt VN VE VD roll pitch heading | 0, 1 => sysmat2d_A01 lat lon alt VN VE VD roll pitch heading | 0, 2 => sysmat2d_A02 lat lon alt VN VE VD roll pitch heading
  | 1, 0 => sysmat2d_A10 lat lon alt VN VE VD roll pitch heading | 1, 1 => sysmat2d_A11 lat lon alt VN VE VD roll pitch heading | 1, 2 => sysmat2d_A12 lat lon alt VN VE VD roll pitch heading
  | 2, 0 => sysmat2d_A20 lat lon alt VN VE VD roll pitch heading | 2, 1 => sysmat2d_A21 lat lon alt VN VE VD roll pitch heading | 2, 2 => sysmat2d_A22 lat lon alt VN VE VD roll pitch heading
  | 3, 0 => sysmat2d_A30 lat lon alt VN VE VD roll pitch heading | 3, 1 => sysmat2d_A31 lat lon alt VN VE VD roll pitch heading | 3, 2 => sysmat2d_A32 lat lon alt VN VE VD roll pitch heading
  | 4, 0 => sysmat2d_A40 lat lon alt VN VE VD roll pitch heading | 4, 1 => sysmat2d_A41 lat lon alt VN VE VD roll pitch heading | 4, 2 => sysmat2d_A42 lat lon alt VN VE VD roll pitch heading
  | 5, 0 => sysmat2d_A50 lat lon alt VN VE VD roll pitch heading | 5, 1 => sysmat2d_A51 lat lon alt VN VE VD roll pitch heading | 5, 2 => sysmat2d_A52 lat lon alt VN VE VD roll pitch heading
  | 6, 0 => sysmat2d_A60 lat lon alt VN VE VD roll pitch heading | 6, 1 => sysmat2d_A61 lat lon alt VN VE VD roll pitch heading | 6, 2 => sysmat2d_A62 lat lon alt VN VE VD roll pitch heading
  | _, _ => 0%R
  end%nat.
Definition T32m (VN VE : R) (i j : nat) : R :=
  match i, j with
  | 0, 0 => tr32_t00 VN VE | 0, 1 => tr32_t01 VN VE | 0, 2 => tr32_t02 VN VE | 0, 3 => tr32_t03 VN VE | 0, 4 => tr32_t04 VN VE | 0, 5 => tr32_t05 VN VE | 0, 6 => tr32_t06 VN VE
  | 1, 0 => tr32_t10 VN VE | 1, 1 => tr32_t11 VN VE | 1, 2 => tr32_t12 VN VE | 1, 3 => tr32_t13 VN VE | 1, 4 => tr32_t14 VN VE | 1, 5 => tr32_t15 VN VE | 1, 6 => tr32_t16 VN VE
  | 2, 0 => tr32_t20 VN VE | 2, 1 => tr32_t21 VN VE | 2, 2 => tr32_t22 VN VE | 2, 3 => tr32_t23 VN VE | 2, 4 => tr32_t24 VN VE | 2, 5 => tr32_t25 VN VE | 2, 6 => tr32_t26 VN VE
  | 3, 0 => tr32_t30 VN VE | 3, 1 => tr32_t31 VN VE | 3, 2 => tr32_t32 VN VE | 3, 3 => tr32_t33 VN VE | 3, 4 => tr32_t34 VN VE | 3, 5 => tr32_t35 VN VE | 3, 6 => tr32_t36 VN VE
  | 4, 0 => tr32_t40 VN VE | 4, 1 => tr32_t41 VN VE | 4, 2 => tr32_t42 VN VE | 4, 3 => tr32_t43 VN VE | 4, 4 => tr32_t44 VN VE | 4, 5 => tr32_t45 VN VE | 4, 6 => tr32_t46 VN VE
  | 5, 0 => tr32_t50 VN VE | 5, 1 => tr32_t51 VN VE | 5, 2 => tr32_t52 VN VE | 5, 3 => tr32_t53 VN VE | 5, 4 => tr32_t54 VN VE | 5, 5 => tr32_t55 VN VE | 5, 6 => tr32_t56 VN VE
  | 6, 0 => tr32_t60 VN VE | 6, 1 => tr32_t61 VN VE | 6, 2 => tr32_t62 VN VE | 6, 3 => tr32_t63 VN VE | 6, 4 => tr32_t64 VN VE | 6, 5 => tr32_t65 VN VE | 6, 6 => tr32_t66 VN VE
  | 7, 0 => tr32_t70 VN VE | 7, 1 => tr32_t71 VN VE | 7, 2 => tr32_t72 VN VE | 7, 3 => tr32_t73 VN VE | 7, 4 => tr32_t74 VN VE | 7, 5 => tr32_t75 VN VE | 7, 6 => tr32_t76 VN VE
  | 8, 0 => tr32_t80 VN VE | 8, 1 => tr32_t81 VN VE | 8, 2 => tr32_t82 VN VE | 8, 3 => tr32_t83 VN VE | 8, 4 => tr32_t84 VN VE | 8, 5 => tr32_t85 VN VE | 8, 6 => tr32_t86 VN VE
  | _, _ => 0%R
  end%nat.
Definition T23m (i j : nat) : R :=
  match i, j with
  | 0, 0 => tr23_t00 | 0, 1 => tr23_t01 | 0, 2 => tr23_t02 | 0, 3 => tr23_t03 | 0, 4 => tr23_t04 | 0, 5 => tr23_t05 | 0, 6 => tr23_t06 | 0, 7 => tr23_t07 | 0, 8 => tr23_t08
  | 1, 0 => tr23_t10 | 1, 1 => tr23_t11 | 1, 2 => tr23_t12 | 1, 3 => tr23_t13 | 1, 4 => tr23_t14 | 1, 5 => tr23_t15 | 1, 6 => tr23_t16 | 1, 7 => tr23_t17 | 1, 8 => tr23_t18
  | 2, 0 => tr23_t20 | 2, 1 => tr23_t21 | 2, 2 => tr23_t22 | 2, 3 => tr23_t23 | 2, 4 => tr23_t24 | 2, 5 => tr23_t25 | 2, 6 => tr23_t26 | 2, 7 => tr23_t27 | 2, 8 => tr23_t28
  | 3, 0 => tr23_t30 | 3, 1 => tr23_t31 | 3, 2 => tr23_t32 | 3, 3 => tr23_t33 | 3, 4 => tr23_t34 | 3, 5 => tr23_t35 | 3, 6 => tr23_t36 | 3, 7 => tr23_t37 | 3, 8 => tr23_t38
  | 4, 0 => tr23_t40 | 4, 1 => tr23_t41 | 4, 2 => tr23_t42 | 4, 3 => tr23_t43 | 4, 4 => tr23_t44 | 4, 5 => tr23_t45 | 4, 6 => tr23_t46 | 4, 7 => tr23_t47 | 4, 8 => tr23_t48
  | 5, 0 => tr23_t50 | 5, 1 => tr23_t51 | 5, 2 => tr23_t52 | 5, 3 => tr23_t53 | 5, 4 => tr23_t54 | 5, 5 => tr23_t55 | 5, 6 => tr23_t56 | 5, 7 => tr23_t57 | 5, 8 => tr23_t58
  | 6, 0 => tr23_t60 | 6, 1 => tr23_t61 | 6, 2 => tr23_t62 | 6, 3 => tr23_t63 | 6, 4 => tr23_t64 | 6, 5 => tr23_t65 | 6, 6 => tr23_t66 | 6, 7 => tr23_t67 | 6, 8 => tr23_t68
  | _, _ => 0%R
  end%nat.

Ltac red_tac :=
  unfold mmul9, sum9; cbn [F3m G3m A3m F2m G2m A2m T32m T23m];
  unfold sysmat2d_F00, sysmat2d_F01, sysmat2d_F02, sysmat2d_F03, sysmat2d_F04, sysmat2d_F05, sysmat2d_F06, sysmat2d_F10, sysmat2d_F11, sysmat2d_F12, sysmat2d_F13, sysmat2d_F14, sysmat2d_F15, sysmat2d_F16, sysmat2d_F20, sysmat2d_F21, sysmat2d_F22, sysmat2d_F23, sysmat2d_F24, sysmat2d_F25, sysmat2d_F26, sysmat2d_F30, sysmat2d_F31, sysmat2d_F32, sysmat2d_F33, sysmat2d_F34, sysmat2d_F35, sysmat2d_F36, sysmat2d_F40, sysmat2d_F41, sysmat2d_F42, sysmat2d_F43, sysmat2d_F44, sysmat2d_F45, sysmat2d_F46, sysmat2d_F50, sysmat2d_F51, sysmat2d_F52, sysmat2d_F53, sysmat2d_F54, sysmat2d_F55, sysmat2d_F56, sysmat2d_F60, sysmat2d_F61, sysmat2d_F62, sysmat2d_F63, sysmat2d_F64, sysmat2d_F65, sysmat2d_F66, sysmat2d_G00, sysmat2d_G01, sysmat2d_G02, sysmat2d_G10, sysmat2d_G11, sysmat2d_G12, sysmat2d_G20, sysmat2d_G21, sysmat2d_G22, sysmat2d_G30, sysmat2d_G31, sysmat2d_G32, sysmat2d_G40, sysmat2d_G41, sysmat2d_G42, sysmat2d_G50, sysmat2d_G51, sysmat2d_G52, sysmat2d_G60, sysmat2d_G61, sysmat2d_G62, sysmat2d_A00, sysmat2d_A01, sysmat2d_A02, sysmat2d_A10, sysmat2d_A11, sysmat2d_A12, sysmat2d_A20, sysmat2d_A21, sysmat2d_A22, sysmat2d_A30, sysmat2d_A31, sysmat2d_A32, sysmat2d_A40, sysmat2d_A41, sysmat2d_A42, sysmat2d_A50, sysmat2d_A51, sysmat2d_A52, sysmat2d_A60, sysmat2d_A61, sysmat2d_A62;
  unfold sysmat3d_F00, sysmat3d_F01, sysmat3d_F02, sysmat3d_F03, sysmat3d_F04, sysmat3d_F05, sysmat3d_F06, sysmat3d_F07, sysmat3d_F08, sysmat3d_F10, sysmat3d_F11, sysmat3d_F12, sysmat3d_F13, sysmat3d_F14, sysmat3d_F15, sysmat3d_F16, sysmat3d_F17, sysmat3d_F18, sysmat3d_F20, sysmat3d_F21, sysmat3d_F22, sysmat3d_F23, sysmat3d_F24, sysmat3d_F25, sysmat3d_F26, sysmat3d_F27, sysmat3d_F28, sysmat3d_F30, sysmat3d_F31, sysmat3d_F32, sysmat3d_F33, sysmat3d_F34, sysmat3d_F35, sysmat3d_F36, sysmat3d_F37, sysmat3d_F38, sysmat3d_F40, sysmat3d_F41, sysmat3d_F42, sysmat3d_F43, sysmat3d_F44, sysmat3d_F45, sysmat3d_F46, sysmat3d_F47, sysmat3d_F48, sysmat3d_F50, sysmat3d_F51, sysmat3d_F52, sysmat3d_F53, sysmat3d_F54, sysmat3d_F55, sysmat3d_F56, sysmat3d_F57, sysmat3d_F58, sysmat3d_F60, sysmat3d_F61, sysmat3d_F62, sysmat3d_F63, sysmat3d_F64, sysmat3d_F65, sysmat3d_F66, sysmat3d_F67, sysmat3d_F68, sysmat3d_F70, sysmat3d_F71, sysmat3d_F72, sysmat3d_F73, sysmat3d_F74, sysmat3d_F75, sysmat3d_F76, sysmat3d_F77, sysmat3d_F78, sysmat3d_F80, sysmat3d_F81, sysmat3d_F82, sysmat3d_F83, sysmat3d_F84, sysmat3d_F85, sysmat3d_F86, sysmat3d_F87, sysmat3d_F88, sysmat3d_G00, sysmat3d_G01, sysmat3d_G02, sysmat3d_G10, sysmat3d_G11, sysmat3d_G12, sysmat3d_G20, sysmat3d_G21, sysmat3d_G22, sysmat3d_G30, sysmat3d_G31, sysmat3d_G32, sysmat3d_G40, sysmat3d_G41, sysmat3d_G42, sysmat3d_G50, sysmat3d_G51, sysmat3d_G52, sysmat3d_G60, sysmat3d_G61, sysmat3d_G62, sysmat3d_G70, sysmat3d_G71, sysmat3d_G72, sysmat3d_G80, sysmat3d_G81, sysmat3d_G82, sysmat3d_A00, sysmat3d_A01, sysmat3d_A02, sysmat3d_A10, sysmat3d_A11, sysmat3d_A12, sysmat3d_A20, sysmat3d_A21, sysmat3d_A22, sysmat3d_A30, sysmat3d_A31, sysmat3d_A32, sysmat3d_A40, sysmat3d_A41, sysmat3d_A42, sysmat3d_A50, sysmat3d_A51, sysmat3d_A52, sysmat3d_A60, sysmat3d_A61, sysmat3d_A62, sysmat3d_A70, sysmat3d_A71, sysmat3d_A72, sysmat3d_A80, sysmat3d_A81, sysmat3d_A82;
  unfold tr32_t00, tr32_t01, tr32_t02, tr32_t03, tr32_t04, tr32_t05, tr32_t06, tr32_t10, tr32_t11, tr32_t12, tr32_t13, tr32_t14, tr32_t15, tr32_t16, tr32_t20, tr32_t21, tr32_t22, tr32_t23, tr32_t24, tr32_t25, tr32_t26, tr32_t30, tr32_t31, tr32_t32, tr32_t33, tr32_t34, tr32_t35, tr32_t36, tr32_t40, tr32_t41, tr32_t42, tr32_t43, tr32_t44, tr32_t45, tr32_t46, tr32_t50, tr32_t51, tr32_t52, tr32_t53, tr32_t54, tr32_t55, tr32_t56, tr32_t60, tr32_t61, tr32_t62, tr32_t63, tr32_t64, tr32_t65, tr32_t66, tr32_t70, tr32_t71, tr32_t72, tr32_t73, tr32_t74, tr32_t75, tr32_t76, tr32_t80, tr32_t81, tr32_t82, tr32_t83, tr32_t84, tr32_t85, tr32_t86, tr23_t00, tr23_t01, tr23_t02, tr23_t03, tr23_t04, tr23_t05, tr23_t06, tr23_t07, tr23_t08, tr23_t10, tr23_t11, tr23_t12, tr23_t13, tr23_t14, tr23_t15, tr23_t16, tr23_t17, tr23_t18, tr23_t20, tr23_t21, tr23_t22, tr23_t23, tr23_t24, tr23_t25, tr23_t26, tr23_t27, tr23_t28, tr23_t30, tr23_t31, tr23_t32, tr23_t33, tr23_t34, tr23_t35, tr23_t36, tr23_t37, tr23_t38, tr23_t40, tr23_t41, tr23_t42, tr23_t43, tr23_t44, tr23_t45, tr23_t46, tr23_t47, tr23_t48, tr23_t50, tr23_t51, tr23_t52, tr23_t53, tr23_t54, tr23_t55, tr23_t56, tr23_t57, tr23_t58, tr23_t60, tr23_t61, tr23_t62, tr23_t63, tr23_t64, tr23_t65, tr23_t66, tr23_t67, tr23_t68;
  repeat autounfold with sysmat2d_db; repeat autounfold with sysmat3d_db; unfold Rdiv; ring.

Lemma lt3_cases (P : nat -> Prop) : P 0%nat -> P 1%nat -> P 2%nat -> forall i, (i < 3)%nat -> P i.
Proof. intros; do 3 (destruct i; [assumption|]); lia. Qed.
Lemma lt7_cases (P : nat -> Prop) : P 0%nat -> P 1%nat -> P 2%nat -> P 3%nat -> P 4%nat -> P 5%nat -> P 6%nat ->
  forall i, (i < 7)%nat -> P i.
Proof. intros; do 7 (destruct i; [assumption|]); lia. Qed.
Lemma lt9_cases (P : nat -> Prop) : P 0%nat -> P 1%nat -> P 2%nat -> P 3%nat -> P 4%nat -> P 5%nat -> P 6%nat ->
  P 7%nat -> P 8%nat -> forall i, (i < 9)%nat -> P i.
Proof. intros; do 9 (destruct i; [assumption|]); lia. Qed.

Lemma reduction_2d_F : forall lat lon alt VN VE VD roll pitch heading (i j : nat), (i < 7)%nat -> (j < 7)%nat ->
  F2m lat lon alt VN VE VD roll pitch heading i j = mmul9 T23m (mmul9 (F3m lat lon alt VN VE VD roll pitch heading) (T32m VN VE)) i j.
Proof.
  intros lat lon alt VN VE VD roll pitch heading i j Hi Hj.
  revert j Hj; pattern i; revert i Hi; apply lt7_cases; intros j Hj; pattern j; revert j Hj; apply lt7_cases;
    red_tac.
Qed.

Lemma reduction_2d_B : forall lat lon alt VN VE VD roll pitch heading (i j : nat), (i < 7)%nat -> (j < 3)%nat ->
  G2m lat lon alt VN VE VD roll pitch heading i j = mmul9 T23m (G3m lat lon alt VN VE VD roll pitch heading) i j /\
  A2m lat lon alt VN VE VD roll pitch heading i j = mmul9 T23m (A3m lat lon alt VN VE VD roll pitch heading) i j.
Proof.
  intros lat lon alt VN VE VD roll pitch heading i j Hi Hj.
  revert j Hj; pattern i; revert i Hi; apply lt7_cases; intros j Hj; pattern j; revert j Hj; apply lt3_cases;
    split; red_tac.
Qed.


(** TRANSFORM_2D_3D selects the states DR1 DR2 DV1 DV2 PHI1 PHI2 PHI3 (rows 0 1 3 4 6 7 8), and
    _transform_3d_2d(VN, VE) is a right inverse of it whose DV3 row carries the constraint dv3 = VE phi1 - VN phi2 *)
Definition sel7 (i : nat) : nat :=
  match i with 0 => 0 | 1 => 1 | 2 => 3 | 3 => 4 | 4 => 6 | 5 => 7 | _ => 8 end%nat.
Lemma t23_is_selection : forall i j : nat, (i < 7)%nat -> (j < 9)%nat ->
  T23m i j = if Nat.eqb j (sel7 i) then 1 else 0.
Proof.
  intros i j Hi Hj.
  revert j Hj; pattern i; revert i Hi; apply lt7_cases; intros j Hj; pattern j; revert j Hj; apply lt9_cases;
    reflexivity.
Qed.
Lemma t23_t32_identity : forall (VN VE : R) (i j : nat), (i < 7)%nat -> (j < 7)%nat ->
  mmul9 T23m (T32m VN VE) i j = if Nat.eqb i j then 1 else 0.
Proof.
  intros VN VE i j Hi Hj.
  revert j Hj; pattern i; revert i Hi; apply lt7_cases; intros j Hj; pattern j; revert j Hj; apply lt7_cases;
    cbn [Nat.eqb]; red_tac.
Qed.
Lemma t32_constraint_row : forall (VN VE : R),
  T32m VN VE 5%nat 4%nat = VE /\ T32m VN VE 5%nat 5%nat = - VN /\
  T32m VN VE 2%nat 0%nat = 0 /\ T32m VN VE 2%nat 1%nat = 0 /\ T32m VN VE 2%nat 2%nat = 0 /\ T32m VN VE 2%nat 3%nat = 0 /\
  T32m VN VE 2%nat 4%nat = 0 /\ T32m VN VE 2%nat 5%nat = 0 /\ T32m VN VE 2%nat 6%nat = 0.
Proof. intros. cbn [T32m]. repeat split; reflexivity. Qed.


(** * 10. One step of propagate_errors is consistent with  x' = F x + B_gyro e_g + B_accel e_a

    [prop3 i dt Fa Fb Ga Gb Aa Ab x eg ea] is the GENERATED component i of the second row of model_error as a
    function of the step dt, the system matrices at the two epochs (a = start, b = end), the initial error x and the
    constant sensor errors. *)
Definition prop3 (i : nat) (dt : R) (Fa Fb Ga Gb Aa Ab : mat) (x eg ea : nat -> R) : R :=
  match i with
  | 0 => prop3d_x0 dt (Fa 0%nat 0%nat) (Fa 0%nat 1%nat) (Fa 0%nat 2%nat) (Fa 0%nat 3%nat) (Fa 0%nat 4%nat) (Fa 0%nat 5%nat) (Fa 0%nat 6%nat) (Fa 0%nat 7%nat) (Fa 0%nat 8%nat) (Fa 1%nat 0%nat) (Fa 1%nat 1%nat) (Fa 1%nat 2%nat) (Fa 1%nat 3%nat) (Fa 1%nat 4%nat) (Fa 1%nat 5%nat) (Fa 1%nat 6%nat) (Fa 1%nat 7%nat) (Fa 1%nat 8%nat) (Fa 2%nat 0%nat) (Fa 2%nat 1%nat) (Fa 2%nat 2%nat) (Fa 2%nat 3%nat) (Fa 2%nat 4%nat) (Fa 2%nat 5%nat) (Fa 2%nat 6%nat) (Fa 2%nat 7%nat) (Fa 2%nat 8%nat) (Fa 3%nat 0%nat) (Fa 3%nat 1%nat) (Fa 3%nat 2%nat) (Fa 3%nat 3%nat) (Fa 3%nat 4%nat) (Fa 3%nat 5%nat) (Fa 3%nat 6%nat) (Fa 3%nat 7%nat) (Fa 3%nat 8%nat) (Fa 4%nat 0%nat) (Fa 4%nat 1%nat) (Fa 4%nat 2%nat) (Fa 4%nat 3%nat) (Fa 4%nat 4%nat) (Fa 4%nat 5%nat) (Fa 4%nat 6%nat) (Fa 4%nat 7%nat) (Fa 4%nat 8%nat) (Fa 5%nat 0%nat) (Fa 5%nat 1%nat) (Fa 5%nat 2%nat) (Fa 5%nat 3%nat) (Fa 5%nat 4%nat) (Fa 5%nat 5%nat) (Fa 5%nat 6%nat) (Fa 5%nat 7%nat) (Fa 5%nat 8%nat) (Fa 6%nat 0%nat) (Fa 6%nat 1%nat) (Fa 6%nat 2%nat) (Fa 6%nat 3%nat) (Fa 6%nat 4%nat) (Fa 6%nat 5%nat) (Fa 6%nat 6%nat) (Fa 6%nat 7%nat) (Fa 6%nat 8%nat) (Fa 7%nat 0%nat) (Fa 7%nat 1%nat) (Fa 7%nat 2%nat) (Fa 7%nat 3%nat) (Fa 7%nat 4%nat) (Fa 7%nat 5%nat) (Fa 7%nat 6%nat) (Fa 7%nat 7%nat) (Fa 7%nat 8%nat) (Fa 8%nat 0%nat) (Fa 8%nat 1%nat) (Fa 8%nat 2%nat) (Fa 8%nat 3%nat) (Fa 8%nat 4%nat) (Fa 8%nat 5%nat) (Fa 8%nat 6%nat) (Fa 8%nat 7%nat) (Fa 8%nat 8%nat) (Fb 0%nat 0%nat) (Fb 0%nat 1%nat) (Fb 0%nat 2%nat) (Fb 0%nat 3%nat) (Fb 0%nat 4%nat) (Fb 0%nat 5%nat) (Fb 0%nat 6%nat) (Fb 0%nat 7%nat) (Fb 0%nat 8%nat) (Fb 1%nat 0%nat) (Fb 1%nat 1%nat) (Fb 1%nat 2%nat) (Fb 1%nat 3%nat) (Fb 1%nat 4%nat) (Fb 1%nat 5%nat) (Fb 1%nat 6%nat) (Fb 1%nat 7%nat) (Fb 1%nat 8%nat) (Fb 2%nat 0%nat) (Fb 2%nat 1%nat) (Fb 2%nat 2%nat) (Fb 2%nat 3%nat) (Fb 2%nat 4%nat) (Fb 2%nat 5%nat) (Fb 2%nat 6%nat) (Fb 2%nat 7%nat) (Fb 2%nat 8%nat) (Fb 3%nat 0%nat) (Fb 3%nat 1%nat) (Fb 3%nat 2%nat) (Fb 3%nat 3%nat) (Fb 3%nat 4%nat) (Fb 3%nat 5%nat) (Fb 3%nat 6%nat) (Fb 3%nat 7%nat) (Fb 3%nat 8%nat) (Fb 4%nat 0%nat) (Fb 4%nat 1%nat) (Fb 4%nat 2%nat) (Fb 4%nat 3%nat) (Fb 4%nat 4%nat) (Fb 4%nat 5%nat) (Fb 4%nat 6%nat) (Fb 4%nat 7%nat) (Fb 4%nat 8%nat) (Fb 5%nat 0%nat) (Fb 5%nat 1%nat) (Fb 5%nat 2%nat) (Fb 5%nat 3%nat) (Fb 5%nat 4%nat) (Fb 5%nat 5%nat) (Fb 5%nat 6%nat) (Fb 5%nat 7%nat) (Fb 5%nat 8%nat) (Fb 6%nat 0%nat) (Fb 6%nat 1%nat) (Fb 6%nat 2%nat) (Fb 6%nat 3%nat) (Fb 6%nat 4%nat) (Fb 6%nat 5%nat) (Fb 6%nat 6%nat) (Fb 6%nat 7%nat) (Fb 6%nat 8%nat) (Fb 7%nat 0%nat) (Fb 7%nat 1%nat) (Fb 7%nat 2%nat) (Fb 7%nat 3%nat) (Fb 7%nat 4%nat) (Fb 7%nat 5%nat) (Fb 7%nat 6%nat) (Fb 7%nat 7%nat) (Fb 7%nat 8%nat) (Fb 8%nat 0%nat) (Fb 8%nat 1%nat) (Fb 8%nat 2%nat) (Fb 8%nat 3%nat) (Fb 8%nat 4%nat) (Fb 8%nat 5%nat) (Fb 8%nat 6%nat) (Fb 8%nat 7%nat) (Fb 8%nat 8%nat) (Ga 0%nat 0%nat) (Ga 0%nat 1%nat) (Ga 0%nat 2%nat) (Ga 1%nat 0%nat) (Ga 1%nat 1%nat) (Ga 1%nat 2%nat) (Ga 2%nat 0%nat) (Ga 2%nat 1%nat) (Ga 2%nat 2%nat) (Ga 3%nat 0%nat) (Ga 3%nat 1%nat) (Ga 3%nat 2%nat) (Ga 4%nat 0%nat) (Ga 4%nat 1%nat) (Ga 4%nat 2%nat) (Ga 5%nat 0%nat) (Ga 5%nat 1%nat) (Ga 5%nat 2%nat) (Ga 6%nat 0%nat) (Ga 6%nat 1%nat) (Ga 6%nat 2%nat) (Ga 7%nat 0%nat) (Ga 7%nat 1%nat) (Ga 7%nat 2%nat) (Ga 8%nat 0%nat) (Ga 8%nat 1%nat) (Ga 8%nat 2%nat) (Gb 0%nat 0%nat) (Gb 0%nat 1%nat) (Gb 0%nat 2%nat) (Gb 1%nat 0%nat) (Gb 1%nat 1%nat) (Gb 1%nat 2%nat) (Gb 2%nat 0%nat) (Gb 2%nat 1%nat) (Gb 2%nat 2%nat) (Gb 3%nat 0%nat) (Gb 3%nat 1%nat) (Gb 3%nat 2%nat) (Gb 4%nat 0%nat) (Gb 4%nat 1%nat) (Gb 4%nat 2%nat) (Gb 5%nat 0%nat) (Gb 5%nat 1%nat) (Gb 5%nat 2%nat) (Gb 6%nat 0%nat) (Gb 6%nat 1%nat) (Gb 6%nat 2%nat) (Gb 7%nat 0%nat) (Gb 7%nat 1%nat) (Gb 7%nat 2%nat) (Gb 8%nat 0%nat) (Gb 8%nat 1%nat) (Gb 8%nat 2%nat) (Aa 0%nat 0%nat) (Aa 0%nat 1%nat) (Aa 0%nat 2%nat) (Aa 1%nat 0%nat) (Aa 1%nat 1%nat) (Aa 1%nat 2%nat) (Aa 2%nat 0%nat) (Aa 2%nat 1%nat) (Aa 2%nat 2%nat) (Aa 3%nat 0%nat) (Aa 3%nat 1%nat) (Aa 3%nat 2%nat) (Aa 4%nat 0%nat) (Aa 4%nat 1%nat) (Aa 4%nat 2%nat) (Aa 5%nat 0%nat) (Aa 5%nat 1%nat) (Aa 5%nat 2%nat) (Aa 6%nat 0%nat) (Aa 6%nat 1%nat) (Aa 6%nat 2%nat) (Aa 7%nat 0%nat) (Aa 7%nat 1%nat) (Aa 7%nat 2%nat) (Aa 8%nat 0%nat) (Aa 8%nat 1%nat) (Aa 8%nat 2%nat) (Ab 0%nat 0%nat) (Ab 0%nat 1%nat) (Ab 0%nat 2%nat) (Ab 1%nat 0%nat) (Ab 1%nat 1%nat) (Ab 1%nat 2%nat) (Ab 2%nat 0%nat) (Ab 2%nat 1%nat) (Ab 2%nat 2%nat) (Ab 3%nat 0%nat) (Ab 3%nat 1%nat) (Ab 3%nat 2%nat) (Ab 4%nat 0%nat) (Ab 4%nat 1%nat) (Ab 4%nat 2%nat) (Ab 5%nat 0%nat) (Ab 5%nat 1%nat) (Ab 5%nat 2%nat) (Ab 6%nat 0%nat) (Ab 6%nat 1%nat) (Ab 6%nat 2%nat) (Ab 7%nat 0%nat) (Ab 7%nat 1%nat) (Ab 7%nat 2%nat) (Ab 8%nat 0%nat) (Ab 8%nat 1%nat) (Ab 8%nat 2%nat) (x 0%nat) (x 1%nat) (x 2%nat) (x 3%nat) (x 4%nat) (x 5%nat) (x 6%nat) (x 7%nat) (x 8%nat) (eg 0%nat) (eg 1%nat) (eg 2%nat) (ea 0%nat) (ea 1%nat) (ea 2%nat)
  | 1 => prop3d_x1 dt (Fa 0%nat 0%nat) (Fa 0%nat 1%nat) (Fa 0%nat 2%nat) (Fa 0%nat 3%nat) (Fa 0%nat 4%nat) (Fa 0%nat 5%nat) (Fa 0%nat 6%nat) (Fa 0%nat 7%nat) (Fa 0%nat 8%nat) (Fa 1%nat 0%nat) (Fa 1%nat 1%nat) (Fa 1%nat 2%nat) (Fa 1%nat 3%nat) (Fa 1%nat 4%nat) (Fa 1%nat 5%nat) (Fa 1%nat 6%nat) (Fa 1%nat 7%nat) (Fa 1%nat 8%nat) (Fa 2%nat 0%nat) (Fa 2%nat 1%nat) (Fa 2%nat 2%nat) (Fa 2%nat 3%nat) (Fa 2%nat 4%nat) (Fa 2%nat 5%nat) (Fa 2%nat 6%nat) (Fa 2%nat 7%nat) (Fa 2%nat 8%nat) (Fa 3%nat 0%nat) (Fa 3%nat 1%nat) (Fa 3%nat 2%nat) (Fa 3%nat 3%nat) (Fa 3%nat 4%nat) (Fa 3%nat 5%nat) (Fa 3%nat 6%nat) (Fa 3%nat 7%nat) (Fa 3%nat 8%nat) (Fa 4%nat 0%nat) (Fa 4%nat 1%nat) (Fa 4%nat 2%nat) (Fa 4%nat 3%nat) (Fa 4%nat 4%nat) (Fa 4%nat 5%nat) (Fa 4%nat 6%nat) (Fa 4%nat 7%nat) (Fa 4%nat 8%nat) (Fa 5%nat 0%nat) (Fa 5%nat 1%nat) (Fa 5%nat 2%nat) (Fa 5%nat 3%nat) (Fa 5%nat 4%nat) (Fa 5%nat 5%nat) (Fa 5%nat 6%nat) (Fa 5%nat 7%nat) (Fa 5%nat 8%nat) (Fa 6%nat 0%nat) (Fa 6%nat 1%nat) (Fa 6%nat 2%nat) (Fa 6%nat 3%nat) (Fa 6%nat 4%nat) (Fa 6%nat 5%nat) (Fa 6%nat 6%nat) (Fa 6%nat 7%nat) (Fa 6%nat 8%nat) (Fa 7%nat 0%nat) (Fa 7%nat 1%nat) (Fa 7%nat 2%nat) (Fa 7%nat 3%nat) (Fa 7%nat 4%nat) (Fa 7%nat 5%nat) (Fa 7%nat 6%nat) (Fa 7%nat 7%nat) (Fa 7%nat 8%nat) (Fa 8%nat 0%nat) (Fa 8%nat 1%nat) (Fa 8%nat 2%nat) (Fa 8%nat 3%nat) (Fa 8%nat 4%nat) (Fa 8%nat 5%nat) (Fa 8%nat 6%nat) (Fa 8%nat 7%nat) (Fa 8%nat 8%nat) (Fb 0%nat 0%nat) (Fb 0%nat 1%nat) (Fb 0%nat 2%nat) (Fb 0%nat 3%nat) (Fb 0%nat 4%nat) (Fb 0%nat 5%nat) (Fb 0%nat 6%nat) (Fb 0%nat 7%nat) (Fb 0%nat 8%nat) (Fb 1%nat 0%nat) (Fb 1%nat 1%nat) (Fb 1%nat 2%nat) (Fb 1%nat 3%nat) (Fb 1%nat 4%nat) (Fb 1%nat 5%nat) (Fb 1%nat 6%nat) (Fb 1%nat 7%nat) (Fb 1%nat 8%nat) (Fb 2%nat 0%nat) (Fb 2%nat 1%nat) (Fb 2%nat 2%nat) (Fb 2%nat 3%nat) (Fb 2%nat 4%nat) (Fb 2%nat 5%nat) (Fb 2%nat 6%nat) (Fb 2%nat 7%nat) (Fb 2%nat 8%nat) (Fb 3%nat 0%nat) (Fb 3%nat 1%nat) (Fb 3%nat 2%nat) (Fb 3%nat 3%nat) (Fb 3%nat 4%nat) (Fb 3%nat 5%nat) (Fb 3%nat 6%nat) (Fb 3%nat 7%nat) (Fb 3%nat 8%nat) (Fb 4%nat 0%nat) (Fb 4%nat 1%nat) (Fb 4%nat 2%nat) (Fb 4%nat 3%nat) (Fb 4%nat 4%nat) (Fb 4%nat 5%nat) (Fb 4%nat 6%nat) (Fb 4%nat 7%nat) (Fb 4%nat 8%nat) (Fb 5%nat 0%nat) (Fb 5%nat 1%nat) (Fb 5%nat 2%nat) (Fb 5%nat 3%nat) (Fb 5%nat 4%nat) (Fb 5%nat 5%nat) (Fb 5%nat 6%nat) (Fb 5%nat 7%nat) (Fb 5%nat 8%nat) (Fb 6%nat 0%nat) (Fb 6%nat 1%nat) (Fb 6%nat 2%nat) (Fb 6%nat 3%nat) (Fb 6%nat 4%nat) (Fb 6%nat 5%nat) (Fb 6%nat 6%nat) (Fb 6%nat 7%nat) (Fb 6%nat 8%nat) (Fb 7%nat 0%nat) (Fb 7%nat 1%nat) (Fb 7%nat 2%nat) (Fb 7%nat 3%nat) (Fb 7%nat 4%nat) (Fb 7%nat 5%nat) (Fb 7%nat 6%nat) (Fb 7%nat 7%nat) (Fb 7%nat 8%nat) (Fb 8%nat 0%nat) (Fb 8%nat 1%nat) (Fb 8%nat 2%nat) (Fb 8%nat 3%nat) (Fb 8%nat 4%nat) (Fb 8%nat 5%nat) (Fb 8%nat 6%nat) (Fb 8%nat 7%nat) (Fb 8%nat 8%nat) (Ga 0%nat 0%nat) (Ga 0%nat 1%nat) (Ga 0%nat 2%nat) (Ga 1%nat 0%nat) (Ga 1%nat 1%nat) (Ga 1%nat 2%nat) (Ga 2%nat 0%nat) (Ga 2%nat 1%nat) (Ga 2%nat 2%nat) (Ga 3%nat 0%nat) (Ga 3%nat 1%nat) (Ga 3%nat 2%nat) (Ga 4%nat 0%nat) (Ga 4%nat 1%nat) (Ga 4%nat 2%nat) (Ga 5%nat 0%nat) (Ga 5%nat 1%nat) (Ga 5%nat 2%nat) (Ga 6%nat 0%nat) (Ga 6%nat 1%nat) (Ga 6%nat 2%nat) (Ga 7%nat 0%nat) (Ga 7%nat 1%nat) (Ga 7%nat 2%nat) (Ga 8%nat 0%nat) (Ga 8%nat 1%nat) (Ga 8%nat 2%nat) (Gb 0%nat 0%nat) (Gb 0%nat 1%nat) (Gb 0%nat 2%nat) (Gb 1%nat 0%nat) (Gb 1%nat 1%nat) (Gb 1%nat 2%nat) (Gb 2%nat 0%nat) (Gb 2%nat 1%nat) (Gb 2%nat 2%nat) (Gb 3%nat 0%nat) (Gb 3%nat 1%nat) (Gb 3%nat 2%nat) (Gb 4%nat 0%nat) (Gb 4%nat 1%nat) (Gb 4%nat 2%nat) (Gb 5%nat 0%nat) (Gb 5%nat 1%nat) (Gb 5%nat 2%nat) (Gb 6%nat 0%nat) (Gb 6%nat 1%nat) (Gb 6%nat 2%nat) (Gb 7%nat 0%nat) (Gb 7%nat 1%nat) (Gb 7%nat 2%nat) (Gb 8%nat 0%nat) (Gb 8%nat 1%nat) (Gb 8%nat 2%nat) (Aa 0%nat 0%nat) (Aa 0%nat 1%nat) (Aa 0%nat 2%nat) (Aa 1%nat 0%nat) (Aa 1%nat 1%nat) (Aa 1%nat 2%nat) (Aa 2%nat 0%nat) (Aa 2%nat 1%nat) (Aa 2%nat 2%nat) (Aa 3%nat 0%nat) (Aa 3%nat 1%nat) (Aa 3%nat 2%nat) (Aa 4%nat 0%nat) (Aa 4%nat 1%nat) (Aa 4%nat 2%nat) (Aa 5%nat 0%nat) (Aa 5%nat 1%nat) (Aa 5%nat 2%nat) (Aa 6%nat 0%nat) (Aa 6%nat 1%nat) (Aa 6%nat 2%nat) (Aa 7%nat 0%nat) (Aa 7%nat 1%nat) (Aa 7%nat 2%nat) (Aa 8%nat 0%nat) (Aa 8%nat 1%nat) (Aa 8%nat 2%nat) (Ab 0%nat 0%nat) (Ab 0%nat 1%nat) (Ab 0%nat 2%nat) (Ab 1%nat 0%nat) (Ab 1%nat 1%nat) (Ab 1%nat 2%nat) (Ab 2%nat 0%nat) (Ab 2%nat 1%nat) (Ab 2%nat 2%nat) (Ab 3%nat 0%nat) (Ab 3%nat 1%nat) (Ab 3%nat 2%nat) (Ab 4%nat 0%nat) (Ab 4%nat 1%nat) (Ab 4%nat 2%nat) (Ab 5%nat 0%nat) (Ab 5%nat 1%nat) (Ab 5%nat 2%nat) (Ab 6%nat 0%nat) (Ab 6%nat 1%nat) (Ab 6%nat 2%nat) (Ab 7%nat 0%nat) (Ab 7%nat 1%nat) (Ab 7%nat 2%nat) (Ab 8%nat 0%nat) (Ab 8%nat 1%nat) (Ab 8%nat 2%nat) (x 0%nat) (x 1%nat) (x 2%nat) (x 3%nat) (x 4%nat) (x 5%nat) (x 6%nat) (x 7%nat) (x 8%nat) (eg 0%nat) (eg 1%nat) (eg 2%nat) (ea 0%nat) (ea 1%nat) (ea 2%nat)
  | 2 => prop3d_x2 dt (Fa 0%nat 0%nat) (Fa 0%nat 1%nat) (Fa 0%nat 2%nat) (Fa 0%nat 3%nat) (Fa 0%nat 4%nat) (Fa 0%nat 5%nat) (Fa 0%nat 6%nat) (Fa 0%nat 7%nat) (Fa 0%nat 8%nat) (Fa 1%nat 0%nat) (Fa 1%nat 1%nat) (Fa 1%nat 2%nat) (Fa 1%nat 3%nat) (Fa 1%nat 4%nat) (Fa 1%nat 5%nat) (Fa 1%nat 6%nat) (Fa 1%nat 7%nat) (Fa 1%nat 8%nat) (Fa 2%nat 0%nat) (Fa 2%nat 1%nat) (Fa 2%nat 2%nat) (Fa 2%nat 3%nat) (Fa 2%nat 4%nat) (Fa 2%nat 5%nat) (Fa 2%nat 6%nat) (Fa 2%nat 7%nat) (Fa 2%nat 8%nat) (Fa 3%nat 0%nat) (Fa 3%nat 1%nat) (Fa 3%nat 2%nat) (Fa 3%nat 3%nat) (Fa 3%nat 4%nat) (Fa 3%nat 5%nat) (Fa 3%nat 6%nat) (Fa 3%nat 7%nat) (Fa 3%nat 8%nat) (Fa 4%nat 0%nat) (Fa 4%nat 1%nat) (Fa 4%nat 2%nat) (Fa 4%nat 3%nat) (Fa 4%nat 4%nat) (Fa 4%nat 5%nat) (Fa 4%nat 6%nat) (Fa 4%nat 7%nat) (Fa 4%nat 8%nat) (Fa 5%nat 0%nat) (Fa 5%nat 1%nat) (Fa 5%nat 2%nat) (Fa 5%nat 3%nat) (Fa 5%nat 4%nat) (Fa 5%nat 5%nat) (Fa 5%nat 6%nat) (Fa 5%nat 7%nat) (Fa 5%nat 8%nat) (Fa 6%nat 0%nat) (Fa 6%nat 1%nat) (Fa 6%nat 2%nat) (Fa 6%nat 3%nat) (Fa 6%nat 4%nat) (Fa 6%nat 5%nat) (Fa 6%nat 6%nat) (Fa 6%nat 7%nat) (Fa 6%nat 8%nat) (Fa 7%nat 0%nat) (Fa 7%nat 1%nat) (Fa 7%nat 2%nat) (Fa 7%nat 3%nat) (Fa 7%nat 4%nat) (Fa 7%nat 5%nat) (Fa 7%nat 6%nat) (Fa 7%nat 7%nat) (Fa 7%nat 8%nat) (Fa 8%nat 0%nat) (Fa 8%nat 1%nat) (Fa 8%nat 2%nat) (Fa 8%nat 3%nat) (Fa 8%nat 4%nat) (Fa 8%nat 5%nat) (Fa 8%nat 6%nat) (Fa 8%nat 7%nat) (Fa 8%nat 8%nat) (Fb 0%nat 0%nat) (Fb 0%nat 1%nat) (Fb 0%nat 2%nat) (Fb 0%nat 3%nat) (Fb 0%nat 4%nat) (Fb 0%nat 5%nat) (Fb 0%nat 6%nat) (Fb 0%nat 7%nat) (Fb 0%nat 8%nat) (Fb 1%nat 0%nat) (Fb 1%nat 1%nat) (Fb 1%nat 2%nat) (Fb 1%nat 3%nat) (Fb 1%nat 4%nat) (Fb 1%nat 5%nat) (Fb 1%nat 6%nat) (Fb 1%nat 7%nat) (Fb 1%nat 8%nat) (Fb 2%nat 0%nat) (Fb 2%nat 1%nat) (Fb 2%nat 2%nat) (Fb 2%nat 3%nat) (Fb 2%nat 4%nat) (Fb 2%nat 5%nat) (Fb 2%nat 6%nat) (Fb 2%nat 7%nat) (Fb 2%nat 8%nat) (Fb 3%nat 0%nat) (Fb 3%nat 1%nat) (Fb 3%nat 2%nat) (Fb 3%nat 3%nat) (Fb 3%nat 4%nat) (Fb 3%nat 5%nat) (Fb 3%nat 6%nat) (Fb 3%nat 7%nat) (Fb 3%nat 8%nat) (Fb 4%nat 0%nat) (Fb 4%nat 1%nat) (Fb 4%nat 2%nat) (Fb 4%nat 3%nat) (Fb 4%nat 4%nat) (Fb 4%nat 5%nat) (Fb 4%nat 6%nat) (Fb 4%nat 7%nat) (Fb 4%nat 8%nat) (Fb 5%nat 0%nat) (Fb 5%nat 1%nat) (Fb 5%nat 2%nat) (Fb 5%nat 3%nat) (Fb 5%nat 4%nat) (Fb 5%nat 5%nat) (Fb 5%nat 6%nat) (Fb 5%nat 7%nat) (Fb 5%nat 8%nat) (Fb 6%nat 0%nat) (Fb 6%nat 1%nat) (Fb 6%nat 2%nat) (Fb 6%nat 3%nat) (Fb 6%nat 4%nat) (Fb 6%nat 5%nat) (Fb 6%nat 6%nat) (Fb 6%nat 7%nat) (Fb 6%nat 8%nat) (Fb 7%nat 0%nat) (Fb 7%nat 1%nat) (Fb 7%nat 2%nat) (Fb 7%nat 3%nat) (Fb 7%nat 4%nat) (Fb 7%nat 5%nat) (Fb 7%nat 6%nat) (Fb 7%nat 7%nat) (Fb 7%nat 8%nat) (Fb 8%nat 0%nat) (Fb 8%nat 1%nat) (Fb 8%nat 2%nat) (Fb 8%nat 3%nat) (Fb 8%nat 4%nat) (Fb 8%nat 5%nat) (Fb 8%nat 6%nat) (Fb 8%nat 7%nat) (Fb 8%nat 8%nat) (Ga 0%nat 0%nat) (Ga 0%nat 1%nat) (Ga 0%nat 2%nat) (Ga 1%nat 0%nat) (Ga 1%nat 1%nat) (Ga 1%nat 2%nat) (Ga 2%nat 0%nat) (Ga 2%nat 1%nat) (Ga 2%nat 2%nat) (Ga 3%nat 0%nat) (Ga 3%nat 1%nat) (Ga 3%nat 2%nat) (Ga 4%nat 0%nat) (Ga 4%nat 1%nat) (Ga 4%nat 2%nat) (Ga 5%nat 0%nat) (Ga 5%nat 1%nat) (Ga 5%nat 2%nat) (Ga 6%nat 0%nat) (Ga 6%nat 1%nat) (Ga 6%nat 2%nat) (Ga 7%nat 0%nat) (Ga 7%nat 1%nat) (Ga 7%nat 2%nat) (Ga 8%nat 0%nat) (Ga 8%nat 1%nat) (Ga 8%nat 2%nat) (Gb 0%nat 0%nat) (Gb 0%nat 1%nat) (Gb 0%nat 2%nat) (Gb 1%nat 0%nat) (Gb 1%nat 1%nat) (Gb 1%nat 2%nat) (Gb 2%nat 0%nat) (Gb 2%nat 1%nat) (Gb 2%nat 2%nat) (Gb 3%nat 0%nat) (Gb 3%nat 1%nat) (Gb 3%nat 2%nat) (Gb 4%nat 0%nat) (Gb 4%nat 1%nat) (Gb 4%nat 2%nat) (Gb 5%nat 0%nat) (Gb 5%nat 1%nat) (Gb 5%nat 2%nat) (Gb 6%nat 0%nat) (Gb 6%nat 1%nat) (Gb 6%nat 2%nat) (Gb 7%nat 0%nat) (Gb 7%nat 1%nat) (Gb 7%nat 2%nat) (Gb 8%nat 0%nat) (Gb 8%nat 1%nat) (Gb 8%nat 2%nat) (Aa 0%nat 0%nat) (Aa 0%nat 1%nat) (Aa 0%nat 2%nat) (Aa 1%nat 0%nat) (Aa 1%nat 1%nat) (Aa 1%nat 2%nat) (Aa 2%nat 0%nat) (Aa 2%nat 1%nat) (Aa 2%nat 2%nat) (Aa 3%nat 0%nat) (Aa 3%nat 1%nat) (Aa 3%nat 2%nat) (Aa 4%nat 0%nat) (Aa 4%nat 1%nat) (Aa 4%nat 2%nat) (Aa 5%nat 0%nat) (Aa 5%nat 1%nat) (Aa 5%nat 2%nat) (Aa 6%nat 0%nat) (Aa 6%nat 1%nat) (Aa 6%nat 2%nat) (Aa 7%nat 0%nat) (Aa 7%nat 1%nat) (Aa 7%nat 2%nat) (Aa 8%nat 0%nat) (Aa 8%nat 1%nat) (Aa 8%nat 2%nat) (Ab 0%nat 0%nat) (Ab 0%nat 1%nat) (Ab 0%nat 2%nat) (Ab 1%nat 0%nat) (Ab 1%nat 1%nat) (Ab 1%nat 2%nat) (Ab 2%nat 0%nat) (Ab 2%nat 1%nat) (Ab 2%nat 2%nat) (Ab 3%nat 0%nat) (Ab 3%nat 1%nat) (Ab 3%nat 2%nat) (Ab 4%nat 0%nat) (Ab 4%nat 1%nat) (Ab 4%nat 2%nat) (Ab 5%nat 0%nat) (Ab 5%nat 1%nat) (Ab 5%nat 2%nat) (Ab 6%nat 0%nat) (Ab 6%nat 1%nat) (Ab 6%nat 2%nat) (Ab 7%nat 0%nat) (Ab 7%nat 1%nat) (Ab 7%nat 2%nat) (Ab 8%nat 0%nat) (Ab 8%nat 1%nat) (Ab 8%nat 2%nat) (x 0%nat) (x 1%nat) (x 2%nat) (x 3%nat) (x 4%nat) (x 5%nat) (x 6%nat) (x 7%nat) (x 8%nat) (eg 0%nat) (eg 1%nat) (eg 2%nat) (ea 0%nat) (ea 1%nat) (ea 2%nat)
  | 3 => prop3d_x3 dt (Fa 0%nat 0%nat) (Fa 0%nat 1%nat) (Fa 0%nat 2%nat) (Fa 0%nat 3%nat) (Fa 0%nat 4%nat) (Fa 0%nat 5%nat) (Fa 0%nat 6%nat) (Fa 0%nat 7%nat) (Fa 0%nat 8%nat) (Fa 1%nat 0%nat) (Fa 1%nat 1%nat) (Fa 1%nat 2%nat) (Fa 1%nat 3%nat) (Fa 1%nat 4%nat) (Fa 1%nat 5%nat) (Fa 1%nat 6%nat) (Fa 1%nat 7%nat) (Fa 1%nat 8%nat) (Fa 2%nat 0%nat) (Fa 2%nat 1%nat) (Fa 2%nat 2%nat) (Fa 2%nat 3%nat) (Fa 2%nat 4%nat) (Fa 2%nat 5%nat) (Fa 2%nat 6%nat) (Fa 2%nat 7%nat) (Fa 2%nat 8%nat) (Fa 3%nat 0%nat) (Fa 3%nat 1%nat) (Fa 3%nat 2%nat) (Fa 3%nat 3%nat) (Fa 3%nat 4%nat) (Fa 3%nat 5%nat) (Fa 3%nat 6%nat) (Fa 3%nat 7%nat) (Fa 3%nat 8%nat) (Fa 4%nat 0%nat) (Fa 4%nat 1%nat) (Fa 4%nat 2%nat) (Fa 4%nat 3%nat) (Fa 4%nat 4%nat) (Fa 4%nat 5%nat) (Fa 4%nat 6%nat) (Fa 4%nat 7%nat) (Fa 4%nat 8%nat) (Fa 5%nat 0%nat) (Fa 5%nat 1%nat) (Fa 5%nat 2%nat) (Fa 5%nat 3%nat) (Fa 5%nat 4%nat) (Fa 5%nat 5%nat) (Fa 5%nat 6%nat) (Fa 5%nat 7%nat) (Fa 5%nat 8%nat) (Fa 6%nat 0%nat) (Fa 6%nat 1%nat) (Fa 6%nat 2%nat) (Fa 6%nat 3%nat) (Fa 6%nat 4%nat) (Fa 6%nat 5%nat) (Fa 6%nat 6%nat) (Fa 6%nat 7%nat) (Fa 6%nat 8%nat) (Fa 7%nat 0%nat) (Fa 7%nat 1%nat) (Fa 7%nat 2%nat) (Fa 7%nat 3%nat) (Fa 7%nat 4%nat) (Fa 7%nat 5%nat) (Fa 7%nat 6%nat) (Fa 7%nat 7%nat) (Fa 7%nat 8%nat) (Fa 8%nat 0%nat) (Fa 8%nat 1%nat) (Fa 8%nat 2%nat) (Fa 8%nat 3%nat) (Fa 8%nat 4%nat) (Fa 8%nat 5%nat) (Fa 8%nat 6%nat) (Fa 8%nat 7%nat) (Fa 8%nat 8%nat) (Fb 0%nat 0%nat) (Fb 0%nat 1%nat) (Fb 0%nat 2%nat) (Fb 0%nat 3%nat) (Fb 0%nat 4%nat) (Fb 0%nat 5%nat) (Fb 0%nat 6%nat) (Fb 0%nat 7%nat) (Fb 0%nat 8%nat) (Fb 1%nat 0%nat) (Fb 1%nat 1%nat) (Fb 1%nat 2%nat) (Fb 1%nat 3%nat) (Fb 1%nat 4%nat) (Fb 1%nat 5%nat) (Fb 1%nat 6%nat) (Fb 1%nat 7%nat) (Fb 1%nat 8%nat) (Fb 2%nat 0%nat) (Fb 2%nat 1%nat) (Fb 2%nat 2%nat) (Fb 2%nat 3%nat) (Fb 2%nat 4%nat) (Fb 2%nat 5%nat) (Fb 2%nat 6%nat) (Fb 2%nat 7%nat) (Fb 2%nat 8%nat) (Fb 3%nat 0%nat) (Fb 3%nat 1%nat) (Fb 3%nat 2%nat) (Fb 3%nat 3%nat) (Fb 3%nat 4%nat) (Fb 3%nat 5%nat) (Fb 3%nat 6%nat) (Fb 3%nat 7%nat) (Fb 3%nat 8%nat) (Fb 4%nat 0%nat) (Fb 4%nat 1%nat) (Fb 4%nat 2%nat) (Fb 4%nat 3%nat) (Fb 4%nat 4%nat) (Fb 4%nat 5%nat) (Fb 4%nat 6%nat) (Fb 4%nat 7%nat) (Fb 4%nat 8%nat) (Fb 5%nat 0%nat) (Fb 5%nat 1%nat) (Fb 5%nat 2%nat) (Fb 5%nat 3%nat) (Fb 5%nat 4%nat) (Fb 5%nat 5%nat) (Fb 5%nat 6%nat) (Fb 5%nat 7%nat) (Fb 5%nat 8%nat) (Fb 6%nat 0%nat) (Fb 6%nat 1%nat) (Fb 6%nat 2%nat) (Fb 6%nat 3%nat) (Fb 6%nat 4%nat) (Fb 6%nat 5%nat) (Fb 6%nat 6%nat) (Fb 6%nat 7%nat) (Fb 6%nat 8%nat) (Fb 7%nat 0%nat) (Fb 7%nat 1%nat) (Fb 7%nat 2%nat) (Fb 7%nat 3%nat) (Fb 7%nat 4%nat) (Fb 7%nat 5%nat) (Fb 7%nat 6%nat) (Fb 7%nat 7%nat) (Fb 7%nat 8%nat) (Fb 8%nat 0%nat) (Fb 8%nat 1%nat) (Fb 8%nat 2%nat) (Fb 8%nat 3%nat) (Fb 8%nat 4%nat) (Fb 8%nat 5%nat) (Fb 8%nat 6%nat) (Fb 8%nat 7%nat) (Fb 8%nat 8%nat) (Ga 0%nat 0%nat) (Ga 0%nat 1%nat) (Ga 0%nat 2%nat) (Ga 1%nat 0%nat) (Ga 1%nat 1%nat) (Ga 1%nat 2%nat) (Ga 2%nat 0%nat) (Ga 2%nat 1%nat) (Ga 2%nat 2%nat) (Ga 3%nat 0%nat) (Ga 3%nat 1%nat) (Ga 3%nat 2%nat) (Ga 4%nat 0%nat) (Ga 4%nat 1%nat) (Ga 4%nat 2%nat) (Ga 5%nat 0%nat) (Ga 5%nat 1%nat) (Ga 5%nat 2%nat) (Ga 6%nat 0%nat) (Ga 6%nat 1%nat) (Ga 6%nat 2%nat) (Ga 7%nat 0%nat) (Ga 7%nat 1%nat) (Ga 7%nat 2%nat) (Ga 8%nat 0%nat) (Ga 8%nat 1%nat) (Ga 8%nat 2%nat) (Gb 0%nat 0%nat) (Gb 0%nat 1%nat) (Gb 0%nat 2%nat) (Gb 1%nat 0%nat) (Gb 1%nat 1%nat) (Gb 1%nat 2%nat) (Gb 2%nat 0%nat) (Gb 2%nat 1%nat) (Gb 2%nat 2%nat) (Gb 3%nat 0%nat) (Gb 3%nat 1%nat) (Gb 3%nat 2%nat) (Gb 4%nat 0%nat) (Gb 4%nat 1%nat) (Gb 4%nat 2%nat) (Gb 5%nat 0%nat) (Gb 5%nat 1%nat) (Gb 5%nat 2%nat) (Gb 6%nat 0%nat) (Gb 6%nat 1%nat) (Gb 6%nat 2%nat) (Gb 7%nat 0%nat) (Gb 7%nat 1%nat) (Gb 7%nat 2%nat) (Gb 8%nat 0%nat) (Gb 8%nat 1%nat) (Gb 8%nat 2%nat) (Aa 0%nat 0%nat) (Aa 0%nat 1%nat) (Aa 0%nat 2%nat) (Aa 1%nat 0%nat) (Aa 1%nat 1%nat) (Aa 1%nat 2%nat) (Aa 2%nat 0%nat) (Aa 2%nat 1%nat) (Aa 2%nat 2%nat) (Aa 3%nat 0%nat) (Aa 3%nat 1%nat) (Aa 3%nat 2%nat) (Aa 4%nat 0%nat) (Aa 4%nat 1%nat) (Aa 4%nat 2%nat) (Aa 5%nat 0%nat) (Aa 5%nat 1%nat) (Aa 5%nat 2%nat) (Aa 6%nat 0%nat) (Aa 6%nat 1%nat) (Aa 6%nat 2%nat) (Aa 7%nat 0%nat) (Aa 7%nat 1%nat) (Aa 7%nat 2%nat) (Aa 8%nat 0%nat) (Aa 8%nat 1%nat) (Aa 8%nat 2%nat) (Ab 0%nat 0%nat) (Ab 0%nat 1%nat) (Ab 0%nat 2%nat) (Ab 1%nat 0%nat) (Ab 1%nat 1%nat) (Ab 1%nat 2%nat) (Ab 2%nat 0%nat) (Ab 2%nat 1%nat) (Ab 2%nat 2%nat) (Ab 3%nat 0%nat) (Ab 3%nat 1%nat) (Ab 3%nat 2%nat) (Ab 4%nat 0%nat) (Ab 4%nat 1%nat) (Ab 4%nat 2%nat) (Ab 5%nat 0%nat) (Ab 5%nat 1%nat) (Ab 5%nat 2%nat) (Ab 6%nat 0%nat) (Ab 6%nat 1%nat) (Ab 6%nat 2%nat) (Ab 7%nat 0%nat) (Ab 7%nat 1%nat) (Ab 7%nat 2%nat) (Ab 8%nat 0%nat) (Ab 8%nat 1%nat) (Ab 8%nat 2%nat) (x 0%nat) (x 1%nat) (x 2%nat) (x 3%nat) (x 4%nat) (x 5%nat) (x 6%nat) (x 7%nat) (x 8%nat) (eg 0%nat) (eg 1%nat) (eg 2%nat) (ea 0%nat) (ea 1%nat) (ea 2%nat)
  | 4 => prop3d_x4 dt (Fa 0%nat 0%nat) (Fa 0%nat 1%nat) (Fa 0%nat 2%nat) (Fa 0%nat 3%nat) (Fa 0%nat 4%nat) (Fa 0%nat 5%nat) (Fa 0%nat 6%nat) (Fa 0%nat 7%nat) (Fa 0%nat 8%nat) (Fa 1%nat 0%nat) (Fa 1%nat 1%nat) (Fa 1%nat 2%nat) (Fa 1%nat 3%nat) (Fa 1%nat 4%nat) (Fa 1%nat 5%nat) (Fa 1%nat 6%nat) (Fa 1%nat 7%nat) (Fa 1%nat 8%nat) (Fa 2%nat 0%nat) (Fa 2%nat 1%nat) (Fa 2%nat 2%nat) (Fa 2%nat 3%nat) (Fa 2%nat 4%nat) (Fa 2%nat 5%nat) (Fa 2%nat 6%nat) (Fa 2%nat 7%nat) (Fa 2%nat 8%nat) (Fa 3%nat 0%nat) (Fa 3%nat 1%nat) (Fa 3%nat 2%nat) (Fa 3%nat 3%nat) (Fa 3%nat 4%nat) (Fa 3%nat 5%nat) (Fa 3%nat 6%nat) (Fa 3%nat 7%nat) (Fa 3%nat 8%nat) (Fa 4%nat 0%nat) (Fa 4%nat 1%nat) (Fa 4%nat 2%nat) (Fa 4%nat 3%nat) (Fa 4%nat 4%nat) (Fa 4%nat 5%nat) (Fa 4%nat 6%nat) (Fa 4%nat 7%nat) (Fa 4%nat 8%nat) (Fa 5%nat 0%nat) (Fa 5%nat 1%nat) (Fa 5%nat 2%nat) (Fa 5%nat 3%nat) (Fa 5%nat 4%nat) (Fa 5%nat 5%nat) (Fa 5%nat 6%nat) (Fa 5%nat 7%nat) (Fa 5%nat 8%nat) (Fa 6%nat 0%nat) (Fa 6%nat 1%nat) (Fa 6%nat 2%nat) (Fa 6%nat 3%nat) (Fa 6%nat 4%nat) (Fa 6%nat 5%nat) (Fa 6%nat 6%nat) (Fa 6%nat 7%nat) (Fa 6%nat 8%nat) (Fa 7%nat 0%nat) (Fa 7%nat 1%nat) (Fa 7%nat 2%nat) (Fa 7%nat 3%nat) (Fa 7%nat 4%nat) (Fa 7%nat 5%nat) (Fa 7%nat 6%nat) (Fa 7%nat 7%nat) (Fa 7%nat 8%nat) (Fa 8%nat 0%nat) (Fa 8%nat 1%nat) (Fa 8%nat 2%nat) (Fa 8%nat 3%nat) (Fa 8%nat 4%nat) (Fa 8%nat 5%nat) (Fa 8%nat 6%nat) (Fa 8%nat 7%nat) (Fa 8%nat 8%nat) (Fb 0%nat 0%nat) (Fb 0%nat 1%nat) (Fb 0%nat 2%nat) (Fb 0%nat 3%nat) (Fb 0%nat 4%nat) (Fb 0%nat 5%nat) (Fb 0%nat 6%nat) (Fb 0%nat 7%nat) (Fb 0%nat 8%nat) (Fb 1%nat 0%nat) (Fb 1%nat 1%nat) (Fb 1%nat 2%nat) (Fb 1%nat 3%nat) (Fb 1%nat 4%nat) (Fb 1%nat 5%nat) (Fb 1%nat 6%nat) (Fb 1%nat 7%nat) (Fb 1%nat 8%nat) (Fb 2%nat 0%nat) (Fb 2%nat 1%nat) (Fb 2%nat 2%nat) (Fb 2%nat 3%nat) (Fb 2%nat 4%nat) (Fb 2%nat 5%nat) (Fb 2%nat 6%nat) (Fb 2%nat 7%nat) (Fb 2%nat 8%nat) (Fb 3%nat 0%nat) (Fb 3%nat 1%nat) (Fb 3%nat 2%nat) (Fb 3%nat 3%nat) (Fb 3%nat 4%nat) (Fb 3%nat 5%nat) (Fb 3%nat 6%nat) (Fb 3%nat 7%nat) (Fb 3%nat 8%nat) (Fb 4%nat 0%nat) (Fb 4%nat 1%nat) (Fb 4%nat 2%nat) (Fb 4%nat 3%nat) (Fb 4%nat 4%nat) (Fb 4%nat 5%nat) (Fb 4%nat 6%nat) (Fb 4%nat 7%nat) (Fb 4%nat 8%nat) (Fb 5%nat 0%nat) (Fb 5%nat 1%nat) (Fb 5%nat 2%nat) (Fb 5%nat 3%nat) (Fb 5%nat 4%nat) (Fb 5%nat 5%nat) (Fb 5%nat 6%nat) (Fb 5%nat 7%nat) (Fb 5%nat 8%nat) (Fb 6%nat 0%nat) (Fb 6%nat 1%nat) (Fb 6%nat 2%nat) (Fb 6%nat 3%nat) (Fb 6%nat 4%nat) (Fb 6%nat 5%nat) (Fb 6%nat 6%nat) (Fb 6%nat 7%nat) (Fb 6%nat 8%nat) (Fb 7%nat 0%nat) (Fb 7%nat 1%nat) (Fb 7%nat 2%nat) (Fb 7%nat 3%nat) (Fb 7%nat 4%nat) (Fb 7%nat 5%nat) (Fb 7%nat 6%nat) (Fb 7%nat 7%nat) (Fb 7%nat 8%nat) (Fb 8%nat 0%nat) (Fb 8%nat 1%nat) (Fb 8%nat 2%nat) (Fb 8%nat 3%nat) (Fb 8%nat 4%nat) (Fb 8%nat 5%nat) (Fb 8%nat 6%nat) (Fb 8%nat 7%nat) (Fb 8%nat 8%nat) (Ga 0%nat 0%nat) (Ga 0%nat 1%nat) (Ga 0%nat 2%nat) (Ga 1%nat 0%nat) (Ga 1%nat 1%nat) (Ga 1%nat 2%nat) (Ga 2%nat 0%nat) (Ga 2%nat 1%nat) (Ga 2%nat 2%nat) (Ga 3%nat 0%nat) (Ga 3%nat 1%nat) (Ga 3%nat 2%nat) (Ga 4%nat 0%nat) (Ga 4%nat 1%nat) (Ga 4%nat 2%nat) (Ga 5%nat 0%nat) (Ga 5%nat 1%nat) (Ga 5%nat 2%nat) (Ga 6%nat 0%nat) (Ga 6%nat 1%nat) (Ga 6%nat 2%nat) (Ga 7%nat 0%nat) (Ga 7%nat 1%nat) (Ga 7%nat 2%nat) (Ga 8%nat 0%nat) (Ga 8%nat 1%nat) (Ga 8%nat 2%nat) (Gb 0%nat 0%nat) (Gb 0%nat 1%nat) (Gb 0%nat 2%nat) (Gb 1%nat 0%nat) (Gb 1%nat 1%nat) (Gb 1%nat 2%nat) (Gb 2%nat 0%nat) (Gb 2%nat 1%nat) (Gb 2%nat 2%nat) (Gb 3%nat 0%nat) (Gb 3%nat 1%nat) (Gb 3%nat 2%nat) (Gb 4%nat 0%nat) (Gb 4%nat 1%nat) (Gb 4%nat 2%nat) (Gb 5%nat 0%nat) (Gb 5%nat 1%nat) (Gb 5%nat 2%nat) (Gb 6%nat 0%nat) (Gb 6%nat 1%nat) (Gb 6%nat 2%nat) (Gb 7%nat 0%nat) (Gb 7%nat 1%nat) (Gb 7%nat 2%nat) (Gb 8%nat 0%nat) (Gb 8%nat 1%nat) (Gb 8%nat 2%nat) (Aa 0%nat 0%nat) (Aa 0%nat 1%nat) (Aa 0%nat 2%nat) (Aa 1%nat 0%nat) (Aa 1%nat 1%nat) (Aa 1%nat 2%nat) (Aa 2%nat 0%nat) (Aa 2%nat 1%nat) (Aa 2%nat 2%nat) (Aa 3%nat 0%nat) (Aa 3%nat 1%nat) (Aa 3%nat 2%nat) (Aa 4%nat 0%nat) (Aa 4%nat 1%nat) (Aa 4%nat 2%nat) (Aa 5%nat 0%nat) (Aa 5%nat 1%nat) (Aa 5%nat 2%nat) (Aa 6%nat 0%nat) (Aa 6%nat 1%nat) (Aa 6%nat 2%nat) (Aa 7%nat 0%nat) (Aa 7%nat 1%nat) (Aa 7%nat 2%nat) (Aa 8%nat 0%nat) (Aa 8%nat 1%nat) (Aa 8%nat 2%nat) (Ab 0%nat 0%nat) (Ab 0%nat 1%nat) (Ab 0%nat 2%nat) (Ab 1%nat 0%nat) (Ab 1%nat 1%nat) (Ab 1%nat 2%nat) (Ab 2%nat 0%nat) (Ab 2%nat 1%nat) (Ab 2%nat 2%nat) (Ab 3%nat 0%nat) (Ab 3%nat 1%nat) (Ab 3%nat 2%nat) (Ab 4%nat 0%nat) (Ab 4%nat 1%nat) (Ab 4%nat 2%nat) (Ab 5%nat 0%nat) (Ab 5%nat 1%nat) (Ab 5%nat 2%nat) (Ab 6%nat 0%nat) (Ab 6%nat 1%nat) (Ab 6%nat 2%nat) (Ab 7%nat 0%nat) (Ab 7%nat 1%nat) (Ab 7%nat 2%nat) (Ab 8%nat 0%nat) (Ab 8%nat 1%nat) (Ab 8%nat 2%nat) (x 0%nat) (x 1%nat) (x 2%nat) (x 3%nat) (x 4%nat) (x 5%nat) (x 6%nat) (x 7%nat) (x 8%nat) (eg 0%nat) (eg 1%nat) (eg 2%nat) (ea 0%nat) (ea 1%nat) (ea 2%nat)
  | 5 => prop3d_x5 dt (Fa 0%nat 0%nat) (Fa 0%nat 1%nat) (Fa 0%nat 2%nat) (Fa 0%nat 3%nat) (Fa 0%nat 4%nat) (Fa 0%nat 5%nat) (Fa 0%nat 6%nat) (Fa 0%nat 7%nat) (Fa 0%nat 8%nat) (Fa 1%nat 0%nat) (Fa 1%nat 1%nat) (Fa 1%nat 2%nat) (Fa 1%nat 3%nat) (Fa 1%nat 4%nat) (Fa 1%nat 5%nat) (Fa 1%nat 6%nat) (Fa 1%nat 7%nat) (Fa 1%nat 8%nat) (Fa 2%nat 0%nat) (Fa 2%nat 1%nat) (Fa 2%nat 2%nat) (Fa 2%nat 3%nat) (Fa 2%nat 4%nat) (Fa 2%nat 5%nat) (Fa 2%nat 6%nat) (Fa 2%nat 7%nat) (Fa 2%nat 8%nat) (Fa 3%nat 0%nat) (Fa 3%nat 1%nat) (Fa 3%nat 2%nat) (Fa 3%nat 3%nat) (Fa 3%nat 4%nat) (Fa 3%nat 5%nat) (Fa 3%nat 6%nat) (Fa 3%nat 7%nat) (Fa 3%nat 8%nat) (Fa 4%nat 0%nat) (Fa 4%nat 1%nat) (Fa 4%nat 2%nat) (Fa 4%nat 3%nat) (Fa 4%nat 4%nat) (Fa 4%nat 5%nat) (Fa 4%nat 6%nat) (Fa 4%nat 7%nat) (Fa 4%nat 8%nat) (Fa 5%nat 0%nat) (Fa 5%nat 1%nat) (Fa 5%nat 2%nat) (Fa 5%nat 3%nat) (Fa 5%nat 4%nat) (Fa 5%nat 5%nat) (Fa 5%nat 6%nat) (Fa 5%nat 7%nat) (Fa 5%nat 8%nat) (Fa 6%nat 0%nat) (Fa 6%nat 1%nat) (Fa 6%nat 2%nat) (Fa 6%nat 3%nat) (Fa 6%nat 4%nat) (Fa 6%nat 5%nat) (Fa 6%nat 6%nat) (Fa 6%nat 7%nat) (Fa 6%nat 8%nat) (Fa 7%nat 0%nat) (Fa 7%nat 1%nat) (Fa 7%nat 2%nat) (Fa 7%nat 3%nat) (Fa 7%nat 4%nat) (Fa 7%nat 5%nat) (Fa 7%nat 6%nat) (Fa 7%nat 7%nat) (Fa 7%nat 8%nat) (Fa 8%nat 0%nat) (Fa 8%nat 1%nat) (Fa 8%nat 2%nat) (Fa 8%nat 3%nat) (Fa 8%nat 4%nat) (Fa 8%nat 5%nat) (Fa 8%nat 6%nat) (Fa 8%nat 7%nat) (Fa 8%nat 8%nat) (Fb 0%nat 0%nat) (Fb 0%nat 1%nat) (Fb 0%nat 2%nat) (Fb 0%nat 3%nat) (Fb 0%nat 4%nat) (Fb 0%nat 5%nat) (Fb 0%nat 6%nat) (Fb 0%nat 7%nat) (Fb 0%nat 8%nat) (Fb 1%nat 0%nat) (Fb 1%nat 1%nat) (Fb 1%nat 2%nat) (Fb 1%nat 3%nat) (Fb 1%nat 4%nat) (Fb 1%nat 5%nat) (Fb 1%nat 6%nat) (Fb 1%nat 7%nat) (Fb 1%nat 8%nat) (Fb 2%nat 0%nat) (Fb 2%nat 1%nat) (Fb 2%nat 2%nat) (Fb 2%nat 3%nat) (Fb 2%nat 4%nat) (Fb 2%nat 5%nat) (Fb 2%nat 6%nat) (Fb 2%nat 7%nat) (Fb 2%nat 8%nat) (Fb 3%nat 0%nat) (Fb 3%nat 1%nat) (Fb 3%nat 2%nat) (Fb 3%nat 3%nat) (Fb 3%nat 4%nat) (Fb 3%nat 5%nat) (Fb 3%nat 6%nat) (Fb 3%nat 7%nat) (Fb 3%nat 8%nat) (Fb 4%nat 0%nat) (Fb 4%nat 1%nat) (Fb 4%nat 2%nat) (Fb 4%nat 3%nat) (Fb 4%nat 4%nat) (Fb 4%nat 5%nat) (Fb 4%nat 6%nat) (Fb 4%nat 7%nat) (Fb 4%nat 8%nat) (Fb 5%nat 0%nat) (Fb 5%nat 1%nat) (Fb 5%nat 2%nat) (Fb 5%nat 3%nat) (Fb 5%nat 4%nat) (Fb 5%nat 5%nat) (Fb 5%nat 6%nat) (Fb 5%nat 7%nat) (Fb 5%nat 8%nat) (Fb 6%nat 0%nat) (Fb 6%nat 1%nat) (Fb 6%nat 2%nat) (Fb 6%nat 3%nat) (Fb 6%nat 4%nat) (Fb 6%nat 5%nat) (Fb 6%nat 6%nat) (Fb 6%nat 7%nat) (Fb 6%nat 8%nat) (Fb 7%nat 0%nat) (Fb 7%nat 1%nat) (Fb 7%nat 2%nat) (Fb 7%nat 3%nat) (Fb 7%nat 4%nat) (Fb 7%nat 5%nat) (Fb 7%nat 6%nat) (Fb 7%nat 7%nat) (Fb 7%nat 8%nat) (Fb 8%nat 0%nat) (Fb 8%nat 1%nat) (Fb 8%nat 2%nat) (Fb 8%nat 3%nat) (Fb 8%nat 4%nat) (Fb 8%nat 5%nat) (Fb 8%nat 6%nat) (Fb 8%nat 7%nat) (Fb 8%nat 8%nat) (Ga 0%nat 0%nat) (Ga 0%nat 1%nat) (Ga 0%nat 2%nat) (Ga 1%nat 0%nat) (Ga 1%nat 1%nat) (Ga 1%nat 2%nat) (Ga 2%nat 0%nat) (Ga 2%nat 1%nat) (Ga 2%nat 2%nat) (Ga 3%nat 0%nat) (Ga 3%nat 1%nat) (Ga 3%nat 2%nat) (Ga 4%nat 0%nat) (Ga 4%nat 1%nat) (Ga 4%nat 2%nat) (Ga 5%nat 0%nat) (Ga 5%nat 1%nat) (Ga 5%nat 2%nat) (Ga 6%nat 0%nat) (Ga 6%nat 1%nat) (Ga 6%nat 2%nat) (Ga 7%nat 0%nat) (Ga 7%nat 1%nat) (Ga 7%nat 2%nat) (Ga 8%nat 0%nat) (Ga 8%nat 1%nat) (Ga 8%nat 2%nat) (Gb 0%nat 0%nat) (Gb 0%nat 1%nat) (Gb 0%nat 2%nat) (Gb 1%nat 0%nat) (Gb 1%nat 1%nat) (Gb 1%nat 2%nat) (Gb 2%nat 0%nat) (Gb 2%nat 1%nat) (Gb 2%nat 2%nat) (Gb 3%nat 0%nat) (Gb 3%nat 1%nat) (Gb 3%nat 2%nat) (Gb 4%nat 0%nat) (Gb 4%nat 1%nat) (Gb 4%nat 2%nat) (Gb 5%nat 0%nat) (Gb 5%nat 1%nat) (Gb 5%nat 2%nat) (Gb 6%nat 0%nat) (Gb 6%nat 1%nat) (Gb 6%nat 2%nat) (Gb 7%nat 0%nat) (Gb 7%nat 1%nat) (Gb 7%nat 2%nat) (Gb 8%nat 0%nat) (Gb 8%nat 1%nat) (Gb 8%nat 2%nat) (Aa 0%nat 0%nat) (Aa 0%nat 1%nat) (Aa 0%nat 2%nat) (Aa 1%nat 0%nat) (Aa 1%nat 1%nat) (Aa 1%nat 2%nat) (Aa 2%nat 0%nat) (Aa 2%nat 1%nat) (Aa 2%nat 2%nat) (Aa 3%nat 0%nat) (Aa 3%nat 1%nat) (Aa 3%nat 2%nat) (Aa 4%nat 0%nat) (Aa 4%nat 1%nat) (Aa 4%nat 2%nat) (Aa 5%nat 0%nat) (Aa 5%nat 1%nat) (Aa 5%nat 2%nat) (Aa 6%nat 0%nat) (Aa 6%nat 1%nat) (Aa 6%nat 2%nat) (Aa 7%nat 0%nat) (Aa 7%nat 1%nat) (Aa 7%nat 2%nat) (Aa 8%nat 0%nat) (Aa 8%nat 1%nat) (Aa 8%nat 2%nat) (Ab 0%nat 0%nat) (Ab 0%nat 1%nat) (Ab 0%nat 2%nat) (Ab 1%nat 0%nat) (Ab 1%nat 1%nat) (Ab 1%nat 2%nat) (Ab 2%nat 0%nat) (Ab 2%nat 1%nat) (Ab 2%nat 2%nat) (Ab 3%nat 0%nat) (Ab 3%nat 1%nat) (Ab 3%nat 2%nat) (Ab 4%nat 0%nat) (Ab 4%nat 1%nat) (Ab 4%nat 2%nat) (Ab 5%nat 0%nat) (Ab 5%nat 1%nat) (Ab 5%nat 2%nat) (Ab 6%nat 0%nat) (Ab 6%nat 1%nat) (Ab 6%nat 2%nat) (Ab 7%nat 0%nat) (Ab 7%nat 1%nat) (Ab 7%nat 2%nat) (Ab 8%nat 0%nat) (Ab 8%nat 1%nat) (Ab 8%nat 2%nat) (x 0%nat) (x 1%nat) (x 2%nat) (x 3%nat) (x 4%nat) (x 5%nat) (x 6%nat) (x 7%nat) (x 8%nat) (eg 0%nat) (eg 1%nat) (eg 2%nat) (ea 0%nat) (ea 1%nat) (ea 2%nat)
  | 6 => prop3d_x6 dt (Fa 0%nat 0%nat) (Fa 0%nat 1%nat) (Fa 0%nat 2%nat) (Fa 0%nat 3%nat) (Fa 0%nat 4%nat) (Fa 0%nat 5%nat) (Fa 0%nat 6%nat) (Fa 0%nat 7%nat) (Fa 0%nat 8%nat) (Fa 1%nat 0%nat) (Fa 1%nat 1%nat) (Fa 1%nat 2%nat) (Fa 1%nat 3%nat) (Fa 1%nat 4%nat) (Fa 1%nat 5%nat) (Fa 1%nat 6%nat) (Fa 1%nat 7%nat) (Fa 1%nat 8%nat) (Fa 2%nat 0%nat) (Fa 2%nat 1%nat) (Fa 2%nat 2%nat) (Fa 2%nat 3%nat) (Fa 2%nat 4%nat) (Fa 2%nat 5%nat) (Fa 2%nat 6%nat) (Fa 2%nat 7%nat) (Fa 2%nat 8%nat) (Fa 3%nat 0%nat) (Fa 3%nat 1%nat) (Fa 3%nat 2%nat) (Fa 3%nat 3%nat) (Fa 3%nat 4%nat) (Fa 3%nat 5%nat) (Fa 3%nat 6%nat) (Fa 3%nat 7%nat) (Fa 3%nat 8%nat) (Fa 4%nat 0%nat) (Fa 4%nat 1%nat) (Fa 4%nat 2%nat) (Fa 4%nat 3%nat) (Fa 4%nat 4%nat) (Fa 4%nat 5%nat) (Fa 4%nat 6%nat) (Fa 4%nat 7%nat) (Fa 4%nat 8%nat) (Fa 5%nat 0%nat) (Fa 5%nat 1%nat) (Fa 5%nat 2%nat) (Fa 5%nat 3%nat) (Fa 5%nat 4%nat) (Fa 5%nat 5%nat) (Fa 5%nat 6%nat) (Fa 5%nat 7%nat) (Fa 5%nat 8%nat) (Fa 6%nat 0%nat) (Fa 6%nat 1%nat) (Fa 6%nat 2%nat) (Fa 6%nat 3%nat) (Fa 6%nat 4%nat) (Fa 6%nat 5%nat) (Fa 6%nat 6%nat) (Fa 6%nat 7%nat) (Fa 6%nat 8%nat) (Fa 7%nat 0%nat) (Fa 7%nat 1%nat) (Fa 7%nat 2%nat) (Fa 7%nat 3%nat) (Fa 7%nat 4%nat) (Fa 7%nat 5%nat) (Fa 7%nat 6%nat) (Fa 7%nat 7%nat) (Fa 7%nat 8%nat) (Fa 8%nat 0%nat) (Fa 8%nat 1%nat) (Fa 8%nat 2%nat) (Fa 8%nat 3%nat) (Fa 8%nat 4%nat) (Fa 8%nat 5%nat) (Fa 8%nat 6%nat) (Fa 8%nat 7%nat) (Fa 8%nat 8%nat) (Fb 0%nat 0%nat) (Fb 0%nat 1%nat) (Fb 0%nat 2%nat) (Fb 0%nat 3%nat) (Fb 0%nat 4%nat) (Fb 0%nat 5%nat) (Fb 0%nat 6%nat) (Fb 0%nat 7%nat) (Fb 0%nat 8%nat) (Fb 1%nat 0%nat) (Fb 1%nat 1%nat) (Fb 1%nat 2%nat) (Fb 1%nat 3%nat) (Fb 1%nat 4%nat) (Fb 1%nat 5%nat) (Fb 1%nat 6%nat) (Fb 1%nat 7%nat) (Fb 1%nat 8%nat) (Fb 2%nat 0%nat) (Fb 2%nat 1%nat) (Fb 2%nat 2%nat) (Fb 2%nat 3%nat) (Fb 2%nat 4%nat) (Fb 2%nat 5%nat) (Fb 2%nat 6%nat) (Fb 2%nat 7%nat) (Fb 2%nat 8%nat) (Fb 3%nat 0%nat) (Fb 3%nat 1%nat) (Fb 3%nat 2%nat) (Fb 3%nat 3%nat) (Fb 3%nat 4%nat) (Fb 3%nat 5%nat) (Fb 3%nat 6%nat) (Fb 3%nat 7%nat) (Fb 3%nat 8%nat) (Fb 4%nat 0%nat) (Fb 4%nat 1%nat) (Fb 4%nat 2%nat) (Fb 4%nat 3%nat) (Fb 4%nat 4%nat) (Fb 4%nat 5%nat) (Fb 4%nat 6%nat) (Fb 4%nat 7%nat) (Fb 4%nat 8%nat) (Fb 5%nat 0%nat) (Fb 5%nat 1%nat) (Fb 5%nat 2%nat) (Fb 5%nat 3%nat) (Fb 5%nat 4%nat) (Fb 5%nat 5%nat) (Fb 5%nat 6%nat) (Fb 5%nat 7%nat) (Fb 5%nat 8%nat) (Fb 6%nat 0%nat) (Fb 6%nat 1%nat) (Fb 6%nat 2%nat) (Fb 6%nat 3%nat) (Fb 6%nat 4%nat) (Fb 6%nat 5%nat) (Fb 6%nat 6%nat) (Fb 6%nat 7%nat) (Fb 6%nat 8%nat) (Fb 7%nat 0%nat) (Fb 7%nat 1%nat) (Fb 7%nat 2%nat) (Fb 7%nat 3%nat) (Fb 7%nat 4%nat) (Fb 7%nat 5%nat) (Fb 7%nat 6%nat) (Fb 7%nat 7%nat) (Fb 7%nat 8%nat) (Fb 8%nat 0%nat) (Fb 8%nat 1%nat) (Fb 8%nat 2%nat) (Fb 8%nat 3%nat) (Fb 8%nat 4%nat) (Fb 8%nat 5%nat) (Fb 8%nat 6%nat) (Fb 8%nat 7%nat) (Fb 8%nat 8%nat) (Ga 0%nat 0%nat) (Ga 0%nat 1%nat) (Ga 0%nat 2%nat) (Ga 1%nat 0%nat) (Ga 1%nat 1%nat) (Ga 1%nat 2%nat) (Ga 2%nat 0%nat) (Ga 2%nat 1%nat) (Ga 2%nat 2%nat) (Ga 3%nat 0%nat) (Ga 3%nat 1%nat) (Ga 3%nat 2%nat) (Ga 4%nat 0%nat) (Ga 4%nat 1%nat) (Ga 4%nat 2%nat) (Ga 5%nat 0%nat) (Ga 5%nat 1%nat) (Ga 5%nat 2%nat) (Ga 6%nat 0%nat) (Ga 6%nat 1%nat) (Ga 6%nat 2%nat) (Ga 7%nat 0%nat) (Ga 7%nat 1%nat) (Ga 7%nat 2%nat) (Ga 8%nat 0%nat) (Ga 8%nat 1%nat) (Ga 8%nat 2%nat) (Gb 0%nat 0%nat) (Gb 0%nat 1%nat) (Gb 0%nat 2%nat) (Gb 1%nat 0%nat) (Gb 1%nat 1%nat) (Gb 1%nat 2%nat) (Gb 2%nat 0%nat) (Gb 2%nat 1%nat) (Gb 2%nat 2%nat) (Gb 3%nat 0%nat) (Gb 3%nat 1%nat) (Gb 3%nat 2%nat) (Gb 4%nat 0%nat) (Gb 4%nat 1%nat) (Gb 4%nat 2%nat) (Gb 5%nat 0%nat) (Gb 5%nat 1%nat) (Gb 5%nat 2%nat) (Gb 6%nat 0%nat) (Gb 6%nat 1%nat) (Gb 6%nat 2%nat) (Gb 7%nat 0%nat) (Gb 7%nat 1%nat) (Gb 7%nat 2%nat) (Gb 8%nat 0%nat) (Gb 8%nat 1%nat) (Gb 8%nat 2%nat) (Aa 0%nat 0%nat) (Aa 0%nat 1%nat) (Aa 0%nat 2%nat) (Aa 1%nat 0%nat) (Aa 1%nat 1%nat) (Aa 1%nat 2%nat) (Aa 2%nat 0%nat) (Aa 2%nat 1%nat) (Aa 2%nat 2%nat) (Aa 3%nat 0%nat) (Aa 3%nat 1%nat) (Aa 3%nat 2%nat) (Aa 4%nat 0%nat) (Aa 4%nat 1%nat) (Aa 4%nat 2%nat) (Aa 5%nat 0%nat) (Aa 5%nat 1%nat) (Aa 5%nat 2%nat) (Aa 6%nat 0%nat) (Aa 6%nat 1%nat) (Aa 6%nat 2%nat) (Aa 7%nat 0%nat) (Aa 7%nat 1%nat) (Aa 7%nat 2%nat) (Aa 8%nat 0%nat) (Aa 8%nat 1%nat) (Aa 8%nat 2%nat) (Ab 0%nat 0%nat) (Ab 0%nat 1%nat) (Ab 0%nat 2%nat) (Ab 1%nat 0%nat) (Ab 1%nat 1%nat) (Ab 1%nat 2%nat) (Ab 2%nat 0%nat) (Ab 2%nat 1%nat) (Ab 2%nat 2%nat) (Ab 3%nat 0%nat) (Ab 3%nat 1%nat) (Ab 3%nat 2%nat) (Ab 4%nat 0%nat) (Ab 4%nat 1%nat) (Ab 4%nat 2%nat) (Ab 5%nat 0%nat) (Ab 5%nat 1%nat) (Ab 5%nat 2%nat) (Ab 6%nat 0%nat) (Ab 6%nat 1%nat) (Ab 6%nat 2%nat) (Ab 7%nat 0%nat) (Ab 7%nat 1%nat) (Ab 7%nat 2%nat) (Ab 8%nat 0%nat) (Ab 8%nat 1%nat) (Ab 8%nat 2%nat) (x 0%nat) (x 1%nat) (x 2%nat) (x 3%nat) (x 4%nat) (x 5%nat) (x 6%nat) (x 7%nat) (x 8%nat) (eg 0%nat) (eg 1%nat) (eg 2%nat) (ea 0%nat) (ea 1%nat) (ea 2%nat)
  | 7 => prop3d_x7 dt (Fa 0%nat 0%nat) (Fa 0%nat 1%nat) (Fa 0%nat 2%nat) (Fa 0%nat 3%nat) (Fa 0%nat 4%nat) (Fa 0%nat 5%nat) (Fa 0%nat 6%nat) (Fa 0%nat 7%nat) (Fa 0%nat 8%nat) (Fa 1%nat 0%nat) (Fa 1%nat 1%nat) (Fa 1%nat 2%nat) (Fa 1%nat 3%nat) (Fa 1%nat 4%nat) (Fa 1%nat 5%nat) (Fa 1%nat 6%nat) (Fa 1%nat 7%nat) (Fa 1%nat 8%nat) (Fa 2%nat 0%nat) (Fa 2%nat 1%nat) (Fa 2%nat 2%nat) (Fa 2%nat 3%nat) (Fa 2%nat 4%nat) (Fa 2%nat 5%nat) (Fa 2%nat 6%nat) (Fa 2%nat 7%nat) (Fa 2%nat 8%nat) (Fa 3%nat 0%nat) (Fa 3%nat 1%nat) (Fa 3%nat 2%nat) (Fa 3%nat 3%nat) (Fa 3%nat 4%nat) (Fa 3%nat 5%nat) (Fa 3%nat 6%nat) (Fa 3%nat 7%nat) (Fa 3%nat 8%nat) (Fa 4%nat 0%nat) (Fa 4%nat 1%nat) (Fa 4%nat 2%nat) (Fa 4%nat 3%nat) (Fa 4%nat 4%nat) (Fa 4%nat 5%nat) (Fa 4%nat 6%nat) (Fa 4%nat 7%nat) (Fa 4%nat 8%nat) (Fa 5%nat 0%nat) (Fa 5%nat 1%nat) (Fa 5%nat 2%nat) (Fa 5%nat 3%nat) (Fa 5%nat 4%nat) (Fa 5%nat 5%nat) (Fa 5%nat 6%nat) (Fa 5%nat 7%nat) (Fa 5%nat 8%nat) (Fa 6%nat 0%nat) (Fa 6%nat 1%nat) (Fa 6%nat 2%nat) (Fa 6%nat 3%nat) (Fa 6%nat 4%nat) (Fa 6%nat 5%nat) (Fa 6%nat 6%nat) (Fa 6%nat 7%nat) (Fa 6%nat 8%nat) (Fa 7%nat 0%nat) (Fa 7%nat 1%nat) (Fa 7%nat 2%nat) (Fa 7%nat 3%nat) (Fa 7%nat 4%nat) (Fa 7%nat 5%nat) (Fa 7%nat 6%nat) (Fa 7%nat 7%nat) (Fa 7%nat 8%nat) (Fa 8%nat 0%nat) (Fa 8%nat 1%nat) (Fa 8%nat 2%nat) (Fa 8%nat 3%nat) (Fa 8%nat 4%nat) (Fa 8%nat 5%nat) (Fa 8%nat 6%nat) (Fa 8%nat 7%nat) (Fa 8%nat 8%nat) (Fb 0%nat 0%nat) (Fb 0%nat 1%nat) (Fb 0%nat 2%nat) (Fb 0%nat 3%nat) (Fb 0%nat 4%nat) (Fb 0%nat 5%nat) (Fb 0%nat 6%nat) (Fb 0%nat 7%nat) (Fb 0%nat 8%nat) (Fb 1%nat 0%nat) (Fb 1%nat 1%nat) (Fb 1%nat 2%nat) (Fb 1%nat 3%nat) (Fb 1%nat 4%nat) (Fb 1%nat 5%nat) (Fb 1%nat 6%nat) (Fb 1%nat 7%nat) (Fb 1%nat 8%nat) (Fb 2%nat 0%nat) (Fb 2%nat 1%nat) (Fb 2%nat 2%nat) (Fb 2%nat 3%nat) (Fb 2%nat 4%nat) (Fb 2%nat 5%nat) (Fb 2%nat 6%nat) (Fb 2%nat 7%nat) (Fb 2%nat 8%nat) (Fb 3%nat 0%nat) (Fb 3%nat 1%nat) (Fb 3%nat 2%nat) (Fb 3%nat 3%nat) (Fb 3%nat 4%nat) (Fb 3%nat 5%nat) (Fb 3%nat 6%nat) (Fb 3%nat 7%nat) (Fb 3%nat 8%nat) (Fb 4%nat 0%nat) (Fb 4%nat 1%nat) (Fb 4%nat 2%nat) (Fb 4%nat 3%nat) (Fb 4%nat 4%nat) (Fb 4%nat 5%nat) (Fb 4%nat 6%nat) (Fb 4%nat 7%nat) (Fb 4%nat 8%nat) (Fb 5%nat 0%nat) (Fb 5%nat 1%nat) (Fb 5%nat 2%nat) (Fb 5%nat 3%nat) (Fb 5%nat 4%nat) (Fb 5%nat 5%nat) (Fb 5%nat 6%nat) (Fb 5%nat 7%nat) (Fb 5%nat 8%nat) (Fb 6%nat 0%nat) (Fb 6%nat 1%nat) (Fb 6%nat 2%nat) (Fb 6%nat 3%nat) (Fb 6%nat 4%nat) (Fb 6%nat 5%nat) (Fb 6%nat 6%nat) (Fb 6%nat 7%nat) (Fb 6%nat 8%nat) (Fb 7%nat 0%nat) (Fb 7%nat 1%nat) (Fb 7%nat 2%nat) (Fb 7%nat 3%nat) (Fb 7%nat 4%nat) (Fb 7%nat 5%nat) (Fb 7%nat 6%nat) (Fb 7%nat 7%nat) (Fb 7%nat 8%nat) (Fb 8%nat 0%nat) (Fb 8%nat 1%nat) (Fb 8%nat 2%nat) (Fb 8%nat 3%nat) (Fb 8%nat 4%nat) (Fb 8%nat 5%nat) (Fb 8%nat 6%nat) (Fb 8%nat 7%nat) (Fb 8%nat 8%nat) (Ga 0%nat 0%nat) (Ga 0%nat 1%nat) (Ga 0%nat 2%nat) (Ga 1%nat 0%nat) (Ga 1%nat 1%nat) (Ga 1%nat 2%nat) (Ga 2%nat 0%nat) (Ga 2%nat 1%nat) (Ga 2%nat 2%nat) (Ga 3%nat 0%nat) (Ga 3%nat 1%nat) (Ga 3%nat 2%nat) (Ga 4%nat 0%nat) (Ga 4%nat 1%nat) (Ga 4%nat 2%nat) (Ga 5%nat 0%nat) (Ga 5%nat 1%nat) (Ga 5%nat 2%nat) (Ga 6%nat 0%nat) (Ga 6%nat 1%nat) (Ga 6%nat 2%nat) (Ga 7%nat 0%nat) (Ga 7%nat 1%nat) (Ga 7%nat 2%nat) (Ga 8%nat 0%nat) (Ga 8%nat 1%nat) (Ga 8%nat 2%nat) (Gb 0%nat 0%nat) (Gb 0%nat 1%nat) (Gb 0%nat 2%nat) (Gb 1%nat 0%nat) (Gb 1%nat 1%nat) (Gb 1%nat 2%nat) (Gb 2%nat 0%nat) (Gb 2%nat 1%nat) (Gb 2%nat 2%nat) (Gb 3%nat 0%nat) (Gb 3%nat 1%nat) (Gb 3%nat 2%nat) (Gb 4%nat 0%nat) (Gb 4%nat 1%nat) (Gb 4%nat 2%nat) (Gb 5%nat 0%nat) (Gb 5%nat 1%nat) (Gb 5%nat 2%nat) (Gb 6%nat 0%nat) (Gb 6%nat 1%nat) (Gb 6%nat 2%nat) (Gb 7%nat 0%nat) (Gb 7%nat 1%nat) (Gb 7%nat 2%nat) (Gb 8%nat 0%nat) (Gb 8%nat 1%nat) (Gb 8%nat 2%nat) (Aa 0%nat 0%nat) (Aa 0%nat 1%nat) (Aa 0%nat 2%nat) (Aa 1%nat 0%nat) (Aa 1%nat 1%nat) (Aa 1%nat 2%nat) (Aa 2%nat 0%nat) (Aa 2%nat 1%nat) (Aa 2%nat 2%nat) (Aa 3%nat 0%nat) (Aa 3%nat 1%nat) (Aa 3%nat 2%nat) (Aa 4%nat 0%nat) (Aa 4%nat 1%nat) (Aa 4%nat 2%nat) (Aa 5%nat 0%nat) (Aa 5%nat 1%nat) (Aa 5%nat 2%nat) (Aa 6%nat 0%nat) (Aa 6%nat 1%nat) (Aa 6%nat 2%nat) (Aa 7%nat 0%nat) (Aa 7%nat 1%nat) (Aa 7%nat 2%nat) (Aa 8%nat 0%nat) (Aa 8%nat 1%nat) (Aa 8%nat 2%nat) (Ab 0%nat 0%nat) (Ab 0%nat 1%nat) (Ab 0%nat 2%nat) (Ab 1%nat 0%nat) (Ab 1%nat 1%nat) (Ab 1%nat 2%nat) (Ab 2%nat 0%nat) (Ab 2%nat 1%nat) (Ab 2%nat 2%nat) (Ab 3%nat 0%nat) (Ab 3%nat 1%nat) (Ab 3%nat 2%nat) (Ab 4%nat 0%nat) (Ab 4%nat 1%nat) (Ab 4%nat 2%nat) (Ab 5%nat 0%nat) (Ab 5%nat 1%nat) (Ab 5%nat 2%nat) (Ab 6%nat 0%nat) (Ab 6%nat 1%nat) (Ab 6%nat 2%nat) (Ab 7%nat 0%nat) (Ab 7%nat 1%nat) (Ab 7%nat 2%nat) (Ab 8%nat 0%nat) (Ab 8%nat 1%nat) (Ab 8%nat 2%nat) (x 0%nat) (x 1%nat) (x 2%nat) (x 3%nat) (x 4%nat) (x 5%nat) (x 6%nat) (x 7%nat) (x 8%nat) (eg 0%nat) (eg 1%nat) (eg 2%nat) (ea 0%nat) (ea 1%nat) (ea 2%nat)
  | 8 => prop3d_x8 dt (Fa 0%nat 0%nat) (Fa 0%nat 1%nat) (Fa 0%nat 2%nat) (Fa 0%nat 3%nat) (Fa 0%nat 4%nat) (Fa 0%nat 5%nat) (Fa 0%nat 6%nat) (Fa 0%nat 7%nat) (Fa 0%nat 8%nat) (Fa 1%nat 0%nat) (Fa 1%nat 1%nat) (Fa 1%nat 2%nat) (Fa 1%nat 3%nat) (Fa 1%nat 4%nat) (Fa 1%nat 5%nat) (Fa 1%nat 6%nat) (Fa 1%nat 7%nat) (Fa 1%nat 8%nat) (Fa 2%nat 0%nat) (Fa 2%nat 1%nat) (Fa 2%nat 2%nat) (Fa 2%nat 3%nat) (Fa 2%nat 4%nat) (Fa 2%nat 5%nat) (Fa 2%nat 6%nat) (Fa 2%nat 7%nat) (Fa 2%nat 8%nat) (Fa 3%nat 0%nat) (Fa 3%nat 1%nat) (Fa 3%nat 2%nat) (Fa 3%nat 3%nat) (Fa 3%nat 4%nat) (Fa 3%nat 5%nat) (Fa 3%nat 6%nat) (Fa 3%nat 7%nat) (Fa 3%nat 8%nat) (Fa 4%nat 0%nat) (Fa 4%nat 1%nat) (Fa 4%nat 2%nat) (Fa 4%nat 3%nat) (Fa 4%nat 4%nat) (Fa 4%nat 5%nat) (Fa 4%nat 6%nat) (Fa 4%nat 7%nat) (Fa 4%nat 8%nat) (Fa 5%nat 0%nat) (Fa 5%nat 1%nat) (Fa 5%nat 2%nat) (Fa 5%nat 3%nat) (Fa 5%nat 4%nat) (Fa 5%nat 5%nat) (Fa 5%nat 6%nat) (Fa 5%nat 7%nat) (Fa 5%nat 8%nat) (Fa 6%nat 0%nat) (Fa 6%nat 1%nat) (Fa 6%nat 2%nat) (Fa 6%nat 3%nat) (Fa 6%nat 4%nat) (Fa 6%nat 5%nat) (Fa 6%nat 6%nat) (Fa 6%nat 7%nat) (Fa 6%nat 8%nat) (Fa 7%nat 0%nat) (Fa 7%nat 1%nat) (Fa 7%nat 2%nat) (Fa 7%nat 3%nat) (Fa 7%nat 4%nat) (Fa 7%nat 5%nat) (Fa 7%nat 6%nat) (Fa 7%nat 7%nat) (Fa 7%nat 8%nat) (Fa 8%nat 0%nat) (Fa 8%nat 1%nat) (Fa 8%nat 2%nat) (Fa 8%nat 3%nat) (Fa 8%nat 4%nat) (Fa 8%nat 5%nat) (Fa 8%nat 6%nat) (Fa 8%nat 7%nat) (Fa 8%nat 8%nat) (Fb 0%nat 0%nat) (Fb 0%nat 1%nat) (Fb 0%nat 2%nat) (Fb 0%nat 3%nat) (Fb 0%nat 4%nat) (Fb 0%nat 5%nat) (Fb 0%nat 6%nat) (Fb 0%nat 7%nat) (Fb 0%nat 8%nat) (Fb 1%nat 0%nat) (Fb 1%nat 1%nat) (Fb 1%nat 2%nat) (Fb 1%nat 3%nat) (Fb 1%nat 4%nat) (Fb 1%nat 5%nat) (Fb 1%nat 6%nat) (Fb 1%nat 7%nat) (Fb 1%nat 8%nat) (Fb 2%nat 0%nat) (Fb 2%nat 1%nat) (Fb 2%nat 2%nat) (Fb 2%nat 3%nat) (Fb 2%nat 4%nat) (Fb 2%nat 5%nat) (Fb 2%nat 6%nat) (Fb 2%nat 7%nat) (Fb 2%nat 8%nat) (Fb 3%nat 0%nat) (Fb 3%nat 1%nat) (Fb 3%nat 2%nat) (Fb 3%nat 3%nat) (Fb 3%nat 4%nat) (Fb 3%nat 5%nat) (Fb 3%nat 6%nat) (Fb 3%nat 7%nat) (Fb 3%nat 8%nat) (Fb 4%nat 0%nat) (Fb 4%nat 1%nat) (Fb 4%nat 2%nat) (Fb 4%nat 3%nat) (Fb 4%nat 4%nat) (Fb 4%nat 5%nat) (Fb 4%nat 6%nat) (Fb 4%nat 7%nat) (Fb 4%nat 8%nat) (Fb 5%nat 0%nat) (Fb 5%nat 1%nat) (Fb 5%nat 2%nat) (Fb 5%nat 3%nat) (Fb 5%nat 4%nat) (Fb 5%nat 5%nat) (Fb 5%nat 6%nat) (Fb 5%nat 7%nat) (Fb 5%nat 8%nat) (Fb 6%nat 0%nat) (Fb 6%nat 1%nat) (Fb 6%nat 2%nat) (Fb 6%nat 3%nat) (Fb 6%nat 4%nat) (Fb 6%nat 5%nat) (Fb 6%nat 6%nat) (Fb 6%nat 7%nat) (Fb 6%nat 8%nat) (Fb 7%nat 0%nat) (Fb 7%nat 1%nat) (Fb 7%nat 2%nat) (Fb 7%nat 3%nat) (Fb 7%nat 4%nat) (Fb 7%nat 5%nat) (Fb 7%nat 6%nat) (Fb 7%nat 7%nat) (Fb 7%nat 8%nat) (Fb 8%nat 0%nat) (Fb 8%nat 1%nat) (Fb 8%nat 2%nat) (Fb 8%nat 3%nat) (Fb 8%nat 4%nat) (Fb 8%nat 5%nat) (Fb 8%nat 6%nat) (Fb 8%nat 7%nat) (Fb 8%nat 8%nat) (Ga 0%nat 0%nat) (Ga 0%nat 1%nat) (Ga 0%nat 2%nat) (Ga 1%nat 0%nat) (Ga 1%nat 1%nat) (Ga 1%nat 2%nat) (Ga 2%nat 0%nat) (Ga 2%nat 1%nat) (Ga 2%nat 2%nat) (Ga 3%nat 0%nat) (Ga 3%nat 1%nat) (Ga 3%nat 2%nat) (Ga 4%nat 0%nat) (Ga 4%nat 1%nat) (Ga 4%nat 2%nat) (Ga 5%nat 0%nat) (Ga 5%nat 1%nat) (Ga 5%nat 2%nat) (Ga 6%nat 0%nat) (Ga 6%nat 1%nat) (Ga 6%nat 2%nat) (Ga 7%nat 0%nat) (Ga 7%nat 1%nat) (Ga 7%nat 2%nat) (Ga 8%nat 0%nat) (Ga 8%nat 1%nat) (Ga 8%nat 2%nat) (Gb 0%nat 0%nat) (Gb 0%nat 1%nat) (Gb 0%nat 2%nat) (Gb 1%nat 0%nat) (Gb 1%nat 1%nat) (Gb 1%nat 2%nat) (Gb 2%nat 0%nat) (Gb 2%nat 1%nat) (Gb 2%nat 2%nat) (Gb 3%nat 0%nat) (Gb 3%nat 1%nat) (Gb 3%nat 2%nat) (Gb 4%nat 0%nat) (Gb 4%nat 1%nat) (Gb 4%nat 2%nat) (Gb 5%nat 0%nat) (Gb 5%nat 1%nat) (Gb 5%nat 2%nat) (Gb 6%nat 0%nat) (Gb 6%nat 1%nat) (Gb 6%nat 2%nat) (Gb 7%nat 0%nat) (Gb 7%nat 1%nat) (Gb 7%nat 2%nat) (Gb 8%nat 0%nat) (Gb 8%nat 1%nat) (Gb 8%nat 2%nat) (Aa 0%nat 0%nat) (Aa 0%nat 1%nat) (Aa 0%nat 2%nat) (Aa 1%nat 0%nat) (Aa 1%nat 1%nat) (Aa 1%nat 2%nat) (Aa 2%nat 0%nat) (Aa 2%nat 1%nat) (Aa 2%nat 2%nat) (Aa 3%nat 0%nat) (Aa 3%nat 1%nat) (Aa 3%nat 2%nat) (Aa 4%nat 0%nat) (Aa 4%nat 1%nat) (Aa 4%nat 2%nat) (Aa 5%nat 0%nat) (Aa 5%nat 1%nat) (Aa 5%nat 2%nat) (Aa 6%nat 0%nat) (Aa 6%nat 1%nat) (Aa 6%nat 2%nat) (Aa 7%nat 0%nat) (Aa 7%nat 1%nat) (Aa 7%nat 2%nat) (Aa 8%nat 0%nat) (Aa 8%nat 1%nat) (Aa 8%nat 2%nat) (Ab 0%nat 0%nat) (Ab 0%nat 1%nat) (Ab 0%nat 2%nat) (Ab 1%nat 0%nat) (Ab 1%nat 1%nat) (Ab 1%nat 2%nat) (Ab 2%nat 0%nat) (Ab 2%nat 1%nat) (Ab 2%nat 2%nat) (Ab 3%nat 0%nat) (Ab 3%nat 1%nat) (Ab 3%nat 2%nat) (Ab 4%nat 0%nat) (Ab 4%nat 1%nat) (Ab 4%nat 2%nat) (Ab 5%nat 0%nat) (Ab 5%nat 1%nat) (Ab 5%nat 2%nat) (Ab 6%nat 0%nat) (Ab 6%nat 1%nat) (Ab 6%nat 2%nat) (Ab 7%nat 0%nat) (Ab 7%nat 1%nat) (Ab 7%nat 2%nat) (Ab 8%nat 0%nat) (Ab 8%nat 1%nat) (Ab 8%nat 2%nat) (x 0%nat) (x 1%nat) (x 2%nat) (x 3%nat) (x 4%nat) (x 5%nat) (x 6%nat) (x 7%nat) (x 8%nat) (eg 0%nat) (eg 1%nat) (eg 2%nat) (ea 0%nat) (ea 1%nat) (ea 2%nat)
  | _ => 0%R
  end%nat.
Definition rate3 (i : nat) (Fa Fb Ga Gb Aa Ab : mat) (x eg ea : nat -> R) : R :=
  (Fa i 0%nat + Fb i 0%nat) / 2 * x 0%nat + (Fa i 1%nat + Fb i 1%nat) / 2 * x 1%nat + (Fa i 2%nat + Fb i 2%nat) / 2 * x 2%nat + (Fa i 3%nat + Fb i 3%nat) / 2 * x 3%nat + (Fa i 4%nat + Fb i 4%nat) / 2 * x 4%nat + (Fa i 5%nat + Fb i 5%nat) / 2 * x 5%nat + (Fa i 6%nat + Fb i 6%nat) / 2 * x 6%nat + (Fa i 7%nat + Fb i 7%nat) / 2 * x 7%nat + (Fa i 8%nat + Fb i 8%nat) / 2 * x 8%nat
  + (Ga i 0%nat + Gb i 0%nat) / 2 * eg 0%nat + (Ga i 1%nat + Gb i 1%nat) / 2 * eg 1%nat + (Ga i 2%nat + Gb i 2%nat) / 2 * eg 2%nat
  + (Aa i 0%nat + Ab i 0%nat) / 2 * ea 0%nat + (Aa i 1%nat + Ab i 1%nat) / 2 * ea 1%nat + (Aa i 2%nat + Ab i 2%nat) / 2 * ea 2%nat.

Lemma propagate_consistent_3d : forall (Fa Fb Ga Gb Aa Ab : mat) (x eg ea : nat -> R) (i : nat), (i < 9)%nat ->
  prop3 i 0 Fa Fb Ga Gb Aa Ab x eg ea = x i /\
  is_derive (fun dt => prop3 i dt Fa Fb Ga Gb Aa Ab x eg ea) 0 (rate3 i Fa Fb Ga Gb Aa Ab x eg ea).
Proof.
  intros Fa Fb Ga Gb Aa Ab x eg ea i Hi.
  pattern i; revert i Hi; apply lt9_cases;
  (split; [ cbn [prop3]; unfold prop3d_x0, prop3d_x1, prop3d_x2, prop3d_x3, prop3d_x4, prop3d_x5, prop3d_x6, prop3d_x7, prop3d_x8; unfold Rdiv; ring
          | cbn [prop3]; unfold prop3d_x0, prop3d_x1, prop3d_x2, prop3d_x3, prop3d_x4, prop3d_x5, prop3d_x6, prop3d_x7, prop3d_x8, rate3; auto_derive; [exact I | unfold Rdiv; ring] ]).
Qed.

Definition prop2 (i : nat) (dt : R) (Fa Fb Ga Gb Aa Ab : mat) (x eg ea : nat -> R) : R :=
  match i with
  | 0 => prop2d_x0 dt (Fa 0%nat 0%nat) (Fa 0%nat 1%nat) (Fa 0%nat 2%nat) (Fa 0%nat 3%nat) (Fa 0%nat 4%nat) (Fa 0%nat 5%nat) (Fa 0%nat 6%nat) (Fa 1%nat 0%nat) (Fa 1%nat 1%nat) (Fa 1%nat 2%nat) (Fa 1%nat 3%nat) (Fa 1%nat 4%nat) (Fa 1%nat 5%nat) (Fa 1%nat 6%nat) (Fa 2%nat 0%nat) (Fa 2%nat 1%nat) (Fa 2%nat 2%nat) (Fa 2%nat 3%nat) (Fa 2%nat 4%nat) (Fa 2%nat 5%nat) (Fa 2%nat 6%nat) (Fa 3%nat 0%nat) (Fa 3%nat 1%nat) (Fa 3%nat 2%nat) (Fa 3%nat 3%nat) (Fa 3%nat 4%nat) (Fa 3%nat 5%nat) (Fa 3%nat 6%nat) (Fa 4%nat 0%nat) (Fa 4%nat 1%nat) (Fa 4%nat 2%nat) (Fa 4%nat 3%nat) (Fa 4%nat 4%nat) (Fa 4%nat 5%nat) (Fa 4%nat 6%nat) (Fa 5%nat 0%nat) (Fa 5%nat 1%nat) (Fa 5%nat 2%nat) (Fa 5%nat 3%nat) (Fa 5%nat 4%nat) (Fa 5%nat 5%nat) (Fa 5%nat 6%nat) (Fa 6%nat 0%nat) (Fa 6%nat 1%nat) (Fa 6%nat 2%nat) (Fa 6%nat 3%nat) (Fa 6%nat 4%nat) (Fa 6%nat 5%nat) (Fa 6%nat 6%nat) (Fb 0%nat 0%nat) (Fb 0%nat 1%nat) (Fb 0%nat 2%nat) (Fb 0%nat 3%nat) (Fb 0%nat 4%nat) (Fb 0%nat 5%nat) (Fb 0%nat 6%nat) (Fb 1%nat 0%nat) (Fb 1%nat 1%nat) (Fb 1%nat 2%nat) (Fb 1%nat 3%nat) (Fb 1%nat 4%nat) (Fb 1%nat 5%nat) (Fb 1%nat 6%nat) (Fb 2%nat 0%nat) (Fb 2%nat 1%nat) (Fb 2%nat 2%nat) (Fb 2%nat 3%nat) (Fb 2%nat 4%nat) (Fb 2%nat 5%nat) (Fb 2%nat 6%nat) (Fb 3%nat 0%nat) (Fb 3%nat 1%nat) (Fb 3%nat 2%nat) (Fb 3%nat 3%nat) (Fb 3%nat 4%nat) (Fb 3%nat 5%nat) (Fb 3%nat 6%nat) (Fb 4%nat 0%nat) (Fb 4%nat 1%nat) (Fb 4%nat 2%nat) (Fb 4%nat 3%nat) (Fb 4%nat 4%nat) (Fb 4%nat 5%nat) (Fb 4%nat 6%nat) (Fb 5%nat 0%nat) (Fb 5%nat 1%nat) (Fb 5%nat 2%nat) (Fb 5%nat 3%nat) (Fb 5%nat 4%nat) (Fb 5%nat 5%nat) (Fb 5%nat 6%nat) (Fb 6%nat 0%nat) (Fb 6%nat 1%nat) (Fb 6%nat 2%nat) (Fb 6%nat 3%nat) (Fb 6%nat 4%nat) (Fb 6%nat 5%nat) (Fb 6%nat 6%nat) (Ga 0%nat 0%nat) (Ga 0%nat 1%nat) (Ga 0%nat 2%nat) (Ga 1%nat 0%nat) (Ga 1%nat 1%nat) (Ga 1%nat 2%nat) (Ga 2%nat 0%nat) (Ga 2%nat 1%nat) (Ga 2%nat 2%nat) (Ga 3%nat 0%nat) (Ga 3%nat 1%nat) (Ga 3%nat 2%nat) (Ga 4%nat 0%nat) (Ga 4%nat 1%nat) (Ga 4%nat 2%nat) (Ga 5%nat 0%nat) (Ga 5%nat 1%nat) (Ga 5%nat 2%nat) (Ga 6%nat 0%nat) (Ga 6%nat 1%nat) (Ga 6%nat 2%nat) (Gb 0%nat 0%nat) (Gb 0%nat 1%nat) (Gb 0%nat 2%nat) (Gb 1%nat 0%nat) (Gb 1%nat 1%nat) (Gb 1%nat 2%nat) (Gb 2%nat 0%nat) (Gb 2%nat 1%nat) (Gb 2%nat 2%nat) (Gb 3%nat 0%nat) (Gb 3%nat 1%nat) (Gb 3%nat 2%nat) (Gb 4%nat 0%nat) (Gb 4%nat 1%nat) (Gb 4%nat 2%nat) (Gb 5%nat 0%nat) (Gb 5%nat 1%nat) (Gb 5%nat 2%nat) (Gb 6%nat 0%nat) (Gb 6%nat 1%nat) (Gb 6%nat 2%nat) (Aa 0%nat 0%nat) (Aa 0%nat 1%nat) (Aa 0%nat 2%nat) (Aa 1%nat 0%nat) (Aa 1%nat 1%nat) (Aa 1%nat 2%nat) (Aa 2%nat 0%nat) (Aa 2%nat 1%nat) (Aa 2%nat 2%nat) (Aa 3%nat 0%nat) (Aa 3%nat 1%nat) (Aa 3%nat 2%nat) (Aa 4%nat 0%nat) (Aa 4%nat 1%nat) (Aa 4%nat 2%nat) (Aa 5%nat 0%nat) (Aa 5%nat 1%nat) (Aa 5%nat 2%nat) (Aa 6%nat 0%nat) (Aa 6%nat 1%nat) (Aa 6%nat 2%nat) (Ab 0%nat 0%nat) (Ab 0%nat 1%nat) (Ab 0%nat 2%nat) (Ab 1%nat 0%nat) (Ab 1%nat 1%nat) (Ab 1%nat 2%nat) (Ab 2%nat 0%nat) (Ab 2%nat 1%nat) (Ab 2%nat 2%nat) (Ab 3%nat 0%nat) (Ab 3%nat 1%nat) (Ab 3%nat 2%nat) (Ab 4%nat 0%nat) (Ab 4%nat 1%nat) (Ab 4%nat 2%nat) (Ab 5%nat 0%nat) (Ab 5%nat 1%nat) (Ab 5%nat 2%nat) (Ab 6%nat 0%nat) (Ab 6%nat 1%nat) (Ab 6%nat 2%nat) (x 0%nat) (x 1%nat) (x 2%nat) (x 3%nat) (x 4%nat) (x 5%nat) (x 6%nat) (eg 0%nat) (eg 1%nat) (eg 2%nat) (ea 0%nat) (ea 1%nat) (ea 2%nat)
  | 1 => prop2d_x1 dt (Fa 0%nat 0%nat) (Fa 0%nat 1%nat) (Fa 0%nat 2%nat) (Fa 0%nat 3%nat) (Fa 0%nat 4%nat) (Fa 0%nat 5%nat) (Fa 0%nat 6%nat) (Fa 1%nat 0%nat) (Fa 1%nat 1%nat) (Fa 1%nat 2%nat) (Fa 1%nat 3%nat) (Fa 1%nat 4%nat) (Fa 1%nat 5%nat) (Fa 1%nat 6%nat) (Fa 2%nat 0%nat) (Fa 2%nat 1%nat) (Fa 2%nat 2%nat) (Fa 2%nat 3%nat) (Fa 2%nat 4%nat) (Fa 2%nat 5%nat) (Fa 2%nat 6%nat) (Fa 3%nat 0%nat) (Fa 3%nat 1%nat) (Fa 3%nat 2%nat) (Fa 3%nat 3%nat) (Fa 3%nat 4%nat) (Fa 3%nat 5%nat) (Fa 3%nat 6%nat) (Fa 4%nat 0%nat) (Fa 4%nat 1%nat) (Fa 4%nat 2%nat) (Fa 4%nat 3%nat) (Fa 4%nat 4%nat) (Fa 4%nat 5%nat) (Fa 4%nat 6%nat) (Fa 5%nat 0%nat) (Fa 5%nat 1%nat) (Fa 5%nat 2%nat) (Fa 5%nat 3%nat) (Fa 5%nat 4%nat) (Fa 5%nat 5%nat) (Fa 5%nat 6%nat) (Fa 6%nat 0%nat) (Fa 6%nat 1%nat) (Fa 6%nat 2%nat) (Fa 6%nat 3%nat) (Fa 6%nat 4%nat) (Fa 6%nat 5%nat) (Fa 6%nat 6%nat) (Fb 0%nat 0%nat) (Fb 0%nat 1%nat) (Fb 0%nat 2%nat) (Fb 0%nat 3%nat) (Fb 0%nat 4%nat) (Fb 0%nat 5%nat) (Fb 0%nat 6%nat) (Fb 1%nat 0%nat) (Fb 1%nat 1%nat) (Fb 1%nat 2%nat) (Fb 1%nat 3%nat) (Fb 1%nat 4%nat) (Fb 1%nat 5%nat) (Fb 1%nat 6%nat) (Fb 2%nat 0%nat) (Fb 2%nat 1%nat) (Fb 2%nat 2%nat) (Fb 2%nat 3%nat) (Fb 2%nat 4%nat) (Fb 2%nat 5%nat) (Fb 2%nat 6%nat) (Fb 3%nat 0%nat) (Fb 3%nat 1%nat) (Fb 3%nat 2%nat) (Fb 3%nat 3%nat) (Fb 3%nat 4%nat) (Fb 3%nat 5%nat) (Fb 3%nat 6%nat) (Fb 4%nat 0%nat) (Fb 4%nat 1%nat) (Fb 4%nat 2%nat) (Fb 4%nat 3%nat) (Fb 4%nat 4%nat) (Fb 4%nat 5%nat) (Fb 4%nat 6%nat) (Fb 5%nat 0%nat) (Fb 5%nat 1%nat) (Fb 5%nat 2%nat) (Fb 5%nat 3%nat) (Fb 5%nat 4%nat) (Fb 5%nat 5%nat) (Fb 5%nat 6%nat) (Fb 6%nat 0%nat) (Fb 6%nat 1%nat) (Fb 6%nat 2%nat) (Fb 6%nat 3%nat) (Fb 6%nat 4%nat) (Fb 6%nat 5%nat) (Fb 6%nat 6%nat) (Ga 0%nat 0%nat) (Ga 0%nat 1%nat) (Ga 0%nat 2%nat) (Ga 1%nat 0%nat) (Ga 1%nat 1%nat) (Ga 1%nat 2%nat) (Ga 2%nat 0%nat) (Ga 2%nat 1%nat) (Ga 2%nat 2%nat) (Ga 3%nat 0%nat) (Ga 3%nat 1%nat) (Ga 3%nat 2%nat) (Ga 4%nat 0%nat) (Ga 4%nat 1%nat) (Ga 4%nat 2%nat) (Ga 5%nat 0%nat) (Ga 5%nat 1%nat) (Ga 5%nat 2%nat) (Ga 6%nat 0%nat) (Ga 6%nat 1%nat) (Ga 6%nat 2%nat) (Gb 0%nat 0%nat) (Gb 0%nat 1%nat) (Gb 0%nat 2%nat) (Gb 1%nat 0%nat) (Gb 1%nat 1%nat) (Gb 1%nat 2%nat) (Gb 2%nat 0%nat) (Gb 2%nat 1%nat) (Gb 2%nat 2%nat) (Gb 3%nat 0%nat) (Gb 3%nat 1%nat) (Gb 3%nat 2%nat) (Gb 4%nat 0%nat) (Gb 4%nat 1%nat) (Gb 4%nat 2%nat) (Gb 5%nat 0%nat) (Gb 5%nat 1%nat) (Gb 5%nat 2%nat) (Gb 6%nat 0%nat) (Gb 6%nat 1%nat) (Gb 6%nat 2%nat) (Aa 0%nat 0%nat) (Aa 0%nat 1%nat) (Aa 0%nat 2%nat) (Aa 1%nat 0%nat) (Aa 1%nat 1%nat) (Aa 1%nat 2%nat) (Aa 2%nat 0%nat) (Aa 2%nat 1%nat) (Aa 2%nat 2%nat) (Aa 3%nat 0%nat) (Aa 3%nat 1%nat) (Aa 3%nat 2%nat) (Aa 4%nat 0%nat) (Aa 4%nat 1%nat) (Aa 4%nat 2%nat) (Aa 5%nat 0%nat) (Aa 5%nat 1%nat) (Aa 5%nat 2%nat) (Aa 6%nat 0%nat) (Aa 6%nat 1%nat) (Aa 6%nat 2%nat) (Ab 0%nat 0%nat) (Ab 0%nat 1%nat) (Ab 0%nat 2%nat) (Ab 1%nat 0%nat) (Ab 1%nat 1%nat) (Ab 1%nat 2%nat) (Ab 2%nat 0%nat) (Ab 2%nat 1%nat) (Ab 2%nat 2%nat) (Ab 3%nat 0%nat) (Ab 3%nat 1%nat) (Ab 3%nat 2%nat) (Ab 4%nat 0%nat) (Ab 4%nat 1%nat) (Ab 4%nat 2%nat) (Ab 5%nat 0%nat) (Ab 5%nat 1%nat) (Ab 5%nat 2%nat) (Ab 6%nat 0%nat) (Ab 6%nat 1%nat) (Ab 6%nat 2%nat) (x 0%nat) (x 1%nat) (x 2%nat) (x 3%nat) (x 4%nat) (x 5%nat) (x 6%nat) (eg 0%nat) (eg 1%nat) (eg 2%nat) (ea 0%nat) (ea 1%nat) (ea 2%nat)
  | 2 => prop2d_x2 dt (Fa 0%nat 0%nat) (Fa 0%nat 1%nat) (Fa 0%nat 2%nat) (Fa 0%nat 3%nat) (Fa 0%nat 4%nat) (Fa 0%nat 5%nat) (Fa 0%nat 6%nat) (Fa 1%nat 0%nat) (Fa 1%nat 1%nat) (Fa 1%nat 2%nat) (Fa 1%nat 3%nat) (Fa 1%nat 4%nat) (Fa 1%nat 5%nat) (Fa 1%nat 6%nat) (Fa 2%nat 0%nat) (Fa 2%nat 1%nat) (Fa 2%nat 2%nat) (Fa 2%nat 3%nat) (Fa 2%nat 4%nat) (Fa 2%nat 5%nat) (Fa 2%nat 6%nat) (Fa 3%nat 0%nat) (Fa 3%nat 1%nat) (Fa 3%nat 2%nat) (Fa 3%nat 3%nat) (Fa 3%nat 4%nat) (Fa 3%nat 5%nat) (Fa 3%nat 6%nat) (Fa 4%nat 0%nat) (Fa 4%nat 1%nat) (Fa 4%nat 2%nat) (Fa 4%nat 3%nat) (Fa 4%nat 4%nat) (Fa 4%nat 5%nat) (Fa 4%nat 6%nat) (Fa 5%nat 0%nat) (Fa 5%nat 1%nat) (Fa 5%nat 2%nat) (Fa 5%nat 3%nat) (Fa 5%nat 4%nat) (Fa 5%nat 5%nat) (Fa 5%nat 6%nat) (Fa 6%nat 0%nat) (Fa 6%nat 1%nat) (Fa 6%nat 2%nat) (Fa 6%nat 3%nat) (Fa 6%nat 4%nat) (Fa 6%nat 5%nat) (Fa 6%nat 6%nat) (Fb 0%nat 0%nat) (Fb 0%nat 1%nat) (Fb 0%nat 2%nat) (Fb 0%nat 3%nat) (Fb 0%nat 4%nat) (Fb 0%nat 5%nat) (Fb 0%nat 6%nat) (Fb 1%nat 0%nat) (Fb 1%nat 1%nat) (Fb 1%nat 2%nat) (Fb 1%nat 3%nat) (Fb 1%nat 4%nat) (Fb 1%nat 5%nat) (Fb 1%nat 6%nat) (Fb 2%nat 0%nat) (Fb 2%nat 1%nat) (Fb 2%nat 2%nat) (Fb 2%nat 3%nat) (Fb 2%nat 4%nat) (Fb 2%nat 5%nat) (Fb 2%nat 6%nat) (Fb 3%nat 0%nat) (Fb 3%nat 1%nat) (Fb 3%nat 2%nat) (Fb 3%nat 3%nat) (Fb 3%nat 4%nat) (Fb 3%nat 5%nat) (Fb 3%nat 6%nat) (Fb 4%nat 0%nat) (Fb 4%nat 1%nat) (Fb 4%nat 2%nat) (Fb 4%nat 3%nat) (Fb 4%nat 4%nat) (Fb 4%nat 5%nat) (Fb 4%nat 6%nat) (Fb 5%nat 0%nat) (Fb 5%nat 1%nat) (Fb 5%nat 2%nat) (Fb 5%nat 3%nat) (Fb 5%nat 4%nat) (Fb 5%nat 5%nat) (Fb 5%nat 6%nat) (Fb 6%nat 0%nat) (Fb 6%nat 1%nat) (Fb 6%nat 2%nat) (Fb 6%nat 3%nat) (Fb 6%nat 4%nat) (Fb 6%nat 5%nat) (Fb 6%nat 6%nat) (Ga 0%nat 0%nat) (Ga 0%nat 1%nat) (Ga 0%nat 2%nat) (Ga 1%nat 0%nat) (Ga 1%nat 1%nat) (Ga 1%nat 2%nat) (Ga 2%nat 0%nat) (Ga 2%nat 1%nat) (Ga 2%nat 2%nat) (Ga 3%nat 0%nat) (Ga 3%nat 1%nat) (Ga 3%nat 2%nat) (Ga 4%nat 0%nat) (Ga 4%nat 1%nat) (Ga 4%nat 2%nat) (Ga 5%nat 0%nat) (Ga 5%nat 1%nat) (Ga 5%nat 2%nat) (Ga 6%nat 0%nat) (Ga 6%nat 1%nat) (Ga 6%nat 2%nat) (Gb 0%nat 0%nat) (Gb 0%nat 1%nat) (Gb 0%nat 2%nat) (Gb 1%nat 0%nat) (Gb 1%nat 1%nat) (Gb 1%nat 2%nat) (Gb 2%nat 0%nat) (Gb 2%nat 1%nat) (Gb 2%nat 2%nat) (Gb 3%nat 0%nat) (Gb 3%nat 1%nat) (Gb 3%nat 2%nat) (Gb 4%nat 0%nat) (Gb 4%nat 1%nat) (Gb 4%nat 2%nat) (Gb 5%nat 0%nat) (Gb 5%nat 1%nat) (Gb 5%nat 2%nat) (Gb 6%nat 0%nat) (Gb 6%nat 1%nat) (Gb 6%nat 2%nat) (Aa 0%nat 0%nat) (Aa 0%nat 1%nat) (Aa 0%nat 2%nat) (Aa 1%nat 0%nat) (Aa 1%nat 1%nat) (Aa 1%nat 2%nat) (Aa 2%nat 0%nat) (Aa 2%nat 1%nat) (Aa 2%nat 2%nat) (Aa 3%nat 0%nat) (Aa 3%nat 1%nat) (Aa 3%nat 2%nat) (Aa 4%nat 0%nat) (Aa 4%nat 1%nat) (Aa 4%nat 2%nat) (Aa 5%nat 0%nat) (Aa 5%nat 1%nat) (Aa 5%nat 2%nat) (Aa 6%nat 0%nat) (Aa 6%nat 1%nat) (Aa 6%nat 2%nat) (Ab 0%nat 0%nat) (Ab 0%nat 1%nat) (Ab 0%nat 2%nat) (Ab 1%nat 0%nat) (Ab 1%nat 1%nat) (Ab 1%nat 2%nat) (Ab 2%nat 0%nat) (Ab 2%nat 1%nat) (Ab 2%nat 2%nat) (Ab 3%nat 0%nat) (Ab 3%nat 1%nat) (Ab 3%nat 2%nat) (Ab 4%nat 0%nat) (Ab 4%nat 1%nat) (Ab 4%nat 2%nat) (Ab 5%nat 0%nat) (Ab 5%nat 1%nat) (Ab 5%nat 2%nat) (Ab 6%nat 0%nat) (Ab 6%nat 1%nat) (Ab 6%nat 2%nat) (x 0%nat) (x 1%nat) (x 2%nat) (x 3%nat) (x 4%nat) (x 5%nat) (x 6%nat) (eg 0%nat) (eg 1%nat) (eg 2%nat) (ea 0%nat) (ea 1%nat) (ea 2%nat)
  | 3 => prop2d_x3 dt (Fa 0%nat 0%nat) (Fa 0%nat 1%nat) (Fa 0%nat 2%nat) (Fa 0%nat 3%nat) (Fa 0%nat 4%nat) (Fa 0%nat 5%nat) (Fa 0%nat 6%nat) (Fa 1%nat 0%nat) (Fa 1%nat 1%nat) (Fa 1%nat 2%nat) (Fa 1%nat 3%nat) (Fa 1%nat 4%nat) (Fa 1%nat 5%nat) (Fa 1%nat 6%nat) (Fa 2%nat 0%nat) (Fa 2%nat 1%nat) (Fa 2%nat 2%nat) (Fa 2%nat 3%nat) (Fa 2%nat 4%nat) (Fa 2%nat 5%nat) (Fa 2%nat 6%nat) (Fa 3%nat 0%nat) (Fa 3%nat 1%nat) (Fa 3%nat 2%nat) (Fa 3%nat 3%nat) (Fa 3%nat 4%nat) (Fa 3%nat 5%nat) (Fa 3%nat 6%nat) (Fa 4%nat 0%nat) (Fa 4%nat 1%nat) (Fa 4%nat 2%nat) (Fa 4%nat 3%nat) (Fa 4%nat 4%nat) (Fa 4%nat 5%nat) (Fa 4%nat 6%nat) (Fa 5%nat 0%nat) (Fa 5%nat 1%nat) (Fa 5%nat 2%nat) (Fa 5%nat 3%nat) (Fa 5%nat 4%nat) (Fa 5%nat 5%nat) (Fa 5%nat 6%nat) (Fa 6%nat 0%nat) (Fa 6%nat 1%nat) (Fa 6%nat 2%nat) (Fa 6%nat 3%nat) (Fa 6%nat 4%nat) (Fa 6%nat 5%nat) (Fa 6%nat 6%nat) (Fb 0%nat 0%nat) (Fb 0%nat 1%nat) (Fb 0%nat 2%nat) (Fb 0%nat 3%nat) (Fb 0%nat 4%nat) (Fb 0%nat 5%nat) (Fb 0%nat 6%nat) (Fb 1%nat 0%nat) (Fb 1%nat 1%nat) (Fb 1%nat 2%nat) (Fb 1%nat 3%nat) (Fb 1%nat 4%nat) (Fb 1%nat 5%nat) (Fb 1%nat 6%nat) (Fb 2%nat 0%nat) (Fb 2%nat 1%nat) (Fb 2%nat 2%nat) (Fb 2%nat 3%nat) (Fb 2%nat 4%nat) (Fb 2%nat 5%nat) (Fb 2%nat 6%nat) (Fb 3%nat 0%nat) (Fb 3%nat 1%nat) (Fb 3%nat 2%nat) (Fb 3%nat 3%nat) (Fb 3%nat 4%nat) (Fb 3%nat 5%nat) (Fb 3%nat 6%nat) (Fb 4%nat 0%nat) (Fb 4%nat 1%nat) (Fb 4%nat 2%nat) (Fb 4%nat 3%nat) (Fb 4%nat 4%nat) (Fb 4%nat 5%nat) (Fb 4%nat 6%nat) (Fb 5%nat 0%nat) (Fb 5%nat 1%nat) (Fb 5%nat 2%nat) (Fb 5%nat 3%nat) (Fb 5%nat 4%nat) (Fb 5%nat 5%nat) (Fb 5%nat 6%nat) (Fb 6%nat 0%nat) (Fb 6%nat 1%nat) (Fb 6%nat 2%nat) (Fb 6%nat 3%nat) (Fb 6%nat 4%nat) (Fb 6%nat 5%nat) (Fb 6%nat 6%nat) (Ga 0%nat 0%nat) (Ga 0%nat 1%nat) (Ga 0%nat 2%nat) (Ga 1%nat 0%nat) (Ga 1%nat 1%nat) (Ga 1%nat 2%nat) (Ga 2%nat 0%nat) (Ga 2%nat 1%nat) (Ga 2%nat 2%nat) (Ga 3%nat 0%nat) (Ga 3%nat 1%nat) (Ga 3%nat 2%nat) (Ga 4%nat 0%nat) (Ga 4%nat 1%nat) (Ga 4%nat 2%nat) (Ga 5%nat 0%nat) (Ga 5%nat 1%nat) (Ga 5%nat 2%nat) (Ga 6%nat 0%nat) (Ga 6%nat 1%nat) (Ga 6%nat 2%nat) (Gb 0%nat 0%nat) (Gb 0%nat 1%nat) (Gb 0%nat 2%nat) (Gb 1%nat 0%nat) (Gb 1%nat 1%nat) (Gb 1%nat 2%nat) (Gb 2%nat 0%nat) (Gb 2%nat 1%nat) (Gb 2%nat 2%nat) (Gb 3%nat 0%nat) (Gb 3%nat 1%nat) (Gb 3%nat 2%nat) (Gb 4%nat 0%nat) (Gb 4%nat 1%nat) (Gb 4%nat 2%nat) (Gb 5%nat 0%nat) (Gb 5%nat 1%nat) (Gb 5%nat 2%nat) (Gb 6%nat 0%nat) (Gb 6%nat 1%nat) (Gb 6%nat 2%nat) (Aa 0%nat 0%nat) (Aa 0%nat 1%nat) (Aa 0%nat 2%nat) (Aa 1%nat 0%nat) (Aa 1%nat 1%nat) (Aa 1%nat 2%nat) (Aa 2%nat 0%nat) (Aa 2%nat 1%nat) (Aa 2%nat 2%nat) (Aa 3%nat 0%nat) (Aa 3%nat 1%nat) (Aa 3%nat 2%nat) (Aa 4%nat 0%nat) (Aa 4%nat 1%nat) (Aa 4%nat 2%nat) (Aa 5%nat 0%nat) (Aa 5%nat 1%nat) (Aa 5%nat 2%nat) (Aa 6%nat 0%nat) (Aa 6%nat 1%nat) (Aa 6%nat 2%nat) (Ab 0%nat 0%nat) (Ab 0%nat 1%nat) (Ab 0%nat 2%nat) (Ab 1%nat 0%nat) (Ab 1%nat 1%nat) (Ab 1%nat 2%nat) (Ab 2%nat 0%nat) (Ab 2%nat 1%nat) (Ab 2%nat 2%nat) (Ab 3%nat 0%nat) (Ab 3%nat 1%nat) (Ab 3%nat 2%nat) (Ab 4%nat 0%nat) (Ab 4%nat 1%nat) (Ab 4%nat 2%nat) (Ab 5%nat 0%nat) (Ab 5%nat 1%nat) (Ab 5%nat 2%nat) (Ab 6%nat 0%nat) (Ab 6%nat 1%nat) (Ab 6%nat 2%nat) (x 0%nat) (x 1%nat) (x 2%nat) (x 3%nat) (x 4%nat) (x 5%nat) (x 6%nat) (eg 0%nat) (eg 1%nat) (eg 2%nat) (ea 0%nat) (ea 1%nat) (ea 2%nat)
  | 4 => prop2d_x4 dt (Fa 0%nat 0%nat) (Fa 0%nat 1%nat) (Fa 0%nat 2%nat) (Fa 0%nat 3%nat) (Fa 0%nat 4%nat) (Fa 0%nat 5%nat) (Fa 0%nat 6%nat) (Fa 1%nat 0%nat) (Fa 1%nat 1%nat) (Fa 1%nat 2%nat) (Fa 1%nat 3%nat) (Fa 1%nat 4%nat) (Fa 1%nat 5%nat) (Fa 1%nat 6%nat) (Fa 2%nat 0%nat) (Fa 2%nat 1%nat) (Fa 2%nat 2%nat) (Fa 2%nat 3%nat) (Fa 2%nat 4%nat) (Fa 2%nat 5%nat) (Fa 2%nat 6%nat) (Fa 3%nat 0%nat) (Fa 3%nat 1%nat) (Fa 3%nat 2%nat) (Fa 3%nat 3%nat) (Fa 3%nat 4%nat) (Fa 3%nat 5%nat) (Fa 3%nat 6%nat) (Fa 4%nat 0%nat) (Fa 4%nat 1%nat) (Fa 4%nat 2%nat) (Fa 4%nat 3%nat) (Fa 4%nat 4%nat) (Fa 4%nat 5%nat) (Fa 4%nat 6%nat) (Fa 5%nat 0%nat) (Fa 5%nat 1%nat) (Fa 5%nat 2%nat) (Fa 5%nat 3%nat) (Fa 5%nat 4%nat) (Fa 5%nat 5%nat) (Fa 5%nat 6%nat) (Fa 6%nat 0%nat) (Fa 6%nat 1%nat) (Fa 6%nat 2%nat) (Fa 6%nat 3%nat) (Fa 6%nat 4%nat) (Fa 6%nat 5%nat) (Fa 6%nat 6%nat) (Fb 0%nat 0%nat) (Fb 0%nat 1%nat) (Fb 0%nat 2%nat) (Fb 0%nat 3%nat) (Fb 0%nat 4%nat) (Fb 0%nat 5%nat) (Fb 0%nat 6%nat) (Fb 1%nat 0%nat) (Fb 1%nat 1%nat) (Fb 1%nat 2%nat) (Fb 1%nat 3%nat) (Fb 1%nat 4%nat) (Fb 1%nat 5%nat) (Fb 1%nat 6%nat) (Fb 2%nat 0%nat) (Fb 2%nat 1%nat) (Fb 2%nat 2%nat) (Fb 2%nat 3%nat) (Fb 2%nat 4%nat) (Fb 2%nat 5%nat) (Fb 2%nat 6%nat) (Fb 3%nat 0%nat) (Fb 3%nat 1%nat) (Fb 3%nat 2%nat) (Fb 3%nat 3%nat) (Fb 3%nat 4%nat) (Fb 3%nat 5%nat) (Fb 3%nat 6%nat) (Fb 4%nat 0%nat) (Fb 4%nat 1%nat) (Fb 4%nat 2%nat) (Fb 4%nat 3%nat) (Fb 4%nat 4%nat) (Fb 4%nat 5%nat) (Fb 4%nat 6%nat) (Fb 5%nat 0%nat) (Fb 5%nat 1%nat) (Fb 5%nat 2%nat) (Fb 5%nat 3%nat) (Fb 5%nat 4%nat) (Fb 5%nat 5%nat) (Fb 5%nat 6%nat) (Fb 6%nat 0%nat) (Fb 6%nat 1%nat) (Fb 6%nat 2%nat) (Fb 6%nat 3%nat) (Fb 6%nat 4%nat) (Fb 6%nat 5%nat) (Fb 6%nat 6%nat) (Ga 0%nat 0%nat) (Ga 0%nat 1%nat) (Ga 0%nat 2%nat) (Ga 1%nat 0%nat) (Ga 1%nat 1%nat) (Ga 1%nat 2%nat) (Ga 2%nat 0%nat) (Ga 2%nat 1%nat) (Ga 2%nat 2%nat) (Ga 3%nat 0%nat) (Ga 3%nat 1%nat) (Ga 3%nat 2%nat) (Ga 4%nat 0%nat) (Ga 4%nat 1%nat) (Ga 4%nat 2%nat) (Ga 5%nat 0%nat) (Ga 5%nat 1%nat) (Ga 5%nat 2%nat) (Ga 6%nat 0%nat) (Ga 6%nat 1%nat) (Ga 6%nat 2%nat) (Gb 0%nat 0%nat) (Gb 0%nat 1%nat) (Gb 0%nat 2%nat) (Gb 1%nat 0%nat) (Gb 1%nat 1%nat) (Gb 1%nat 2%nat) (Gb 2%nat 0%nat) (Gb 2%nat 1%nat) (Gb 2%nat 2%nat) (Gb 3%nat 0%nat) (Gb 3%nat 1%nat) (Gb 3%nat 2%nat) (Gb 4%nat 0%nat) (Gb 4%nat 1%nat) (Gb 4%nat 2%nat) (Gb 5%nat 0%nat) (Gb 5%nat 1%nat) (Gb 5%nat 2%nat) (Gb 6%nat 0%nat) (Gb 6%nat 1%nat) (Gb 6%nat 2%nat) (Aa 0%nat 0%nat) (Aa 0%nat 1%nat) (Aa 0%nat 2%nat) (Aa 1%nat 0%nat) (Aa 1%nat 1%nat) (Aa 1%nat 2%nat) (Aa 2%nat 0%nat) (Aa 2%nat 1%nat) (Aa 2%nat 2%nat) (Aa 3%nat 0%nat) (Aa 3%nat 1%nat) (Aa 3%nat 2%nat) (Aa 4%nat 0%nat) (Aa 4%nat 1%nat) (Aa 4%nat 2%nat) (Aa 5%nat 0%nat) (Aa 5%nat 1%nat) (Aa 5%nat 2%nat) (Aa 6%nat 0%nat) (Aa 6%nat 1%nat) (Aa 6%nat 2%nat) (Ab 0%nat 0%nat) (Ab 0%nat 1%nat) (Ab 0%nat 2%nat) (Ab 1%nat 0%nat) (Ab 1%nat 1%nat) (Ab 1%nat 2%nat) (Ab 2%nat 0%nat) (Ab 2%nat 1%nat) (Ab 2%nat 2%nat) (Ab 3%nat 0%nat) (Ab 3%nat 1%nat) (Ab 3%nat 2%nat) (Ab 4%nat 0%nat) (Ab 4%nat 1%nat) (Ab 4%nat 2%nat) (Ab 5%nat 0%nat) (Ab 5%nat 1%nat) (Ab 5%nat 2%nat) (Ab 6%nat 0%nat) (Ab 6%nat 1%nat) (Ab 6%nat 2%nat) (x 0%nat) (x 1%nat) (x 2%nat) (x 3%nat) (x 4%nat) (x 5%nat) (x 6%nat) (eg 0%nat) (eg 1%nat) (eg 2%nat) (ea 0%nat) (ea 1%nat) (ea 2%nat)
  | 5 => prop2d_x5 dt (Fa 0%nat 0%nat) (Fa 0%nat 1%nat) (Fa 0%nat 2%nat) (Fa 0%nat 3%nat) (Fa 0%nat 4%nat) (Fa 0%nat 5%nat) (Fa 0%nat 6%nat) (Fa 1%nat 0%nat) (Fa 1%nat 1%nat) (Fa 1%nat 2%nat) (Fa 1%nat 3%nat) (Fa 1%nat 4%nat) (Fa 1%nat 5%nat) (Fa 1%nat 6%nat) (Fa 2%nat 0%nat) (Fa 2%nat 1%nat) (Fa 2%nat 2%nat) (Fa 2%nat 3%nat) (Fa 2%nat 4%nat) (Fa 2%nat 5%nat) (Fa 2%nat 6%nat) (Fa 3%nat 0%nat) (Fa 3%nat 1%nat) (Fa 3%nat 2%nat) (Fa 3%nat 3%nat) (Fa 3%nat 4%nat) (Fa 3%nat 5%nat) (Fa 3%nat 6%nat) (Fa 4%nat 0%nat) (Fa 4%nat 1%nat) (Fa 4%nat 2%nat) (Fa 4%nat 3%nat) (Fa 4%nat 4%nat) (Fa 4%nat 5%nat) (Fa 4%nat 6%nat) (Fa 5%nat 0%nat) (Fa 5%nat 1%nat) (Fa 5%nat 2%nat) (Fa 5%nat 3%nat) (Fa 5%nat 4%nat) (Fa 5%nat 5%nat) (Fa 5%nat 6%nat) (Fa 6%nat 0%nat) (Fa 6%nat 1%nat) (Fa 6%nat 2%nat) (Fa 6%nat 3%nat) (Fa 6%nat 4%nat) (Fa 6%nat 5%nat) (Fa 6%nat 6%nat) (Fb 0%nat 0%nat) (Fb 0%nat 1%nat) (Fb 0%nat 2%nat) (Fb 0%nat 3%nat) (Fb 0%nat 4%nat) (Fb 0%nat 5%nat) (Fb 0%nat 6%nat) (Fb 1%nat 0%nat) (Fb 1%nat 1%nat) (Fb 1%nat 2%nat) (Fb 1%nat 3%nat) (Fb 1%nat 4%nat) (Fb 1%nat 5%nat) (Fb 1%nat 6%nat) (Fb 2%nat 0%nat) (Fb 2%nat 1%nat) (Fb 2%nat 2%nat) (Fb 2%nat 3%nat) (Fb 2%nat 4%nat) (Fb 2%nat 5%nat) (Fb 2%nat 6%nat) (Fb 3%nat 0%nat) (Fb 3%nat 1%nat) (Fb 3%nat 2%nat) (Fb 3%nat 3%nat) (Fb 3%nat 4%nat) (Fb 3%nat 5%nat) (Fb 3%nat 6%nat) (Fb 4%nat 0%nat) (Fb 4%nat 1%nat) (Fb 4%nat 2%nat) (Fb 4%nat 3%nat) (Fb 4%nat 4%nat) (Fb 4%nat 5%nat) (Fb 4%nat 6%nat) (Fb 5%nat 0%nat) (Fb 5%nat 1%nat) (Fb 5%nat 2%nat) (Fb 5%nat 3%nat) (Fb 5%nat 4%nat) (Fb 5%nat 5%nat) (Fb 5%nat 6%nat) (Fb 6%nat 0%nat) (Fb 6%nat 1%nat) (Fb 6%nat 2%nat) (Fb 6%nat 3%nat) (Fb 6%nat 4%nat) (Fb 6%nat 5%nat) (Fb 6%nat 6%nat) (Ga 0%nat 0%nat) (Ga 0%nat 1%nat) (Ga 0%nat 2%nat) (Ga 1%nat 0%nat) (Ga 1%nat 1%nat) (Ga 1%nat 2%nat) (Ga 2%nat 0%nat) (Ga 2%nat 1%nat) (Ga 2%nat 2%nat) (Ga 3%nat 0%nat) (Ga 3%nat 1%nat) (Ga 3%nat 2%nat) (Ga 4%nat 0%nat) (Ga 4%nat 1%nat) (Ga 4%nat 2%nat) (Ga 5%nat 0%nat) (Ga 5%nat 1%nat) (Ga 5%nat 2%nat) (Ga 6%nat 0%nat) (Ga 6%nat 1%nat) (Ga 6%nat 2%nat) (Gb 0%nat 0%nat) (Gb 0%nat 1%nat) (Gb 0%nat 2%nat) (Gb 1%nat 0%nat) (Gb 1%nat 1%nat) (Gb 1%nat 2%nat) (Gb 2%nat 0%nat) (Gb 2%nat 1%nat) (Gb 2%nat 2%nat) (Gb 3%nat 0%nat) (Gb 3%nat 1%nat) (Gb 3%nat 2%nat) (Gb 4%nat 0%nat) (Gb 4%nat 1%nat) (Gb 4%nat 2%nat) (Gb 5%nat 0%nat) (Gb 5%nat 1%nat) (Gb 5%nat 2%nat) (Gb 6%nat 0%nat) (Gb 6%nat 1%nat) (Gb 6%nat 2%nat) (Aa 0%nat 0%nat) (Aa 0%nat 1%nat) (Aa 0%nat 2%nat) (Aa 1%nat 0%nat) (Aa 1%nat 1%nat) (Aa 1%nat 2%nat) (Aa 2%nat 0%nat) (Aa 2%nat 1%nat) (Aa 2%nat 2%nat) (Aa 3%nat 0%nat) (Aa 3%nat 1%nat) (Aa 3%nat 2%nat) (Aa 4%nat 0%nat) (Aa 4%nat 1%nat) (Aa 4%nat 2%nat) (Aa 5%nat 0%nat) (Aa 5%nat 1%nat) (Aa 5%nat 2%nat) (Aa 6%nat 0%nat) (Aa 6%nat 1%nat) (Aa 6%nat 2%nat) (Ab 0%nat 0%nat) (Ab 0%nat 1%nat) (Ab 0%nat 2%nat) (Ab 1%nat 0%nat) (Ab 1%nat 1%nat) (Ab 1%nat 2%nat) (Ab 2%nat 0%nat) (Ab 2%nat 1%nat) (Ab 2%nat 2%nat) (Ab 3%nat 0%nat) (Ab 3%nat 1%nat) (Ab 3%nat 2%nat) (Ab 4%nat 0%nat) (Ab 4%nat 1%nat) (Ab 4%nat 2%nat) (Ab 5%nat 0%nat) (Ab 5%nat 1%nat) (Ab 5%nat 2%nat) (Ab 6%nat 0%nat) (Ab 6%nat 1%nat) (Ab 6%nat 2%nat) (x 0%nat) (x 1%nat) (x 2%nat) (x 3%nat) (x 4%nat) (x 5%nat) (x 6%nat) (eg 0%nat) (eg 1%nat) (eg 2%nat) (ea 0%nat) (ea 1%nat) (ea 2%nat)
  | 6 => prop2d_x6 dt (Fa 0%nat 0%nat) (Fa 0%nat 1%nat) (Fa 0%nat 2%nat) (Fa 0%nat 3%nat) (Fa 0%nat 4%nat) (Fa 0%nat 5%nat) (Fa 0%nat 6%nat) (Fa 1%nat 0%nat) (Fa 1%nat 1%nat) (Fa 1%nat 2%nat) (Fa 1%nat 3%nat) (Fa 1%nat 4%nat) (Fa 1%nat 5%nat) (Fa 1%nat 6%nat) (Fa 2%nat 0%nat) (Fa 2%nat 1%nat) (Fa 2%nat 2%nat) (Fa 2%nat 3%nat) (Fa 2%nat 4%nat) (Fa 2%nat 5%nat) (Fa 2%nat 6%nat) (Fa 3%nat 0%nat) (Fa 3%nat 1%nat) (Fa 3%nat 2%nat) (Fa 3%nat 3%nat) (Fa 3%nat 4%nat) (Fa 3%nat 5%nat) (Fa 3%nat 6%nat) (Fa 4%nat 0%nat) (Fa 4%nat 1%nat) (Fa 4%nat 2%nat) (Fa 4%nat 3%nat) (Fa 4%nat 4%nat) (Fa 4%nat 5%nat) (Fa 4%nat 6%nat) (Fa 5%nat 0%nat) (Fa 5%nat 1%nat) (Fa 5%nat 2%nat) (Fa 5%nat 3%nat) (Fa 5%nat 4%nat) (Fa 5%nat 5%nat) (Fa 5%nat 6%nat) (Fa 6%nat 0%nat) (Fa 6%nat 1%nat) (Fa 6%nat 2%nat) (Fa 6%nat 3%nat) (Fa 6%nat 4%nat) (Fa 6%nat 5%nat) (Fa 6%nat 6%nat) (Fb 0%nat 0%nat) (Fb 0%nat 1%nat) (Fb 0%nat 2%nat) (Fb 0%nat 3%nat) (Fb 0%nat 4%nat) (Fb 0%nat 5%nat) (Fb 0%nat 6%nat) (Fb 1%nat 0%nat) (Fb 1%nat 1%nat) (Fb 1%nat 2%nat) (Fb 1%nat 3%nat) (Fb 1%nat 4%nat) (Fb 1%nat 5%nat) (Fb 1%nat 6%nat) (Fb 2%nat 0%nat) (Fb 2%nat 1%nat) (Fb 2%nat 2%nat) (Fb 2%nat 3%nat) (Fb 2%nat 4%nat) (Fb 2%nat 5%nat) (Fb 2%nat 6%nat) (Fb 3%nat 0%nat) (Fb 3%nat 1%nat) (Fb 3%nat 2%nat) (Fb 3%nat 3%nat) (Fb 3%nat 4%nat) (Fb 3%nat 5%nat) (Fb 3%nat 6%nat) (Fb 4%nat 0%nat) (Fb 4%nat 1%nat) (Fb 4%nat 2%nat) (Fb 4%nat 3%nat) (Fb 4%nat 4%nat) (Fb 4%nat 5%nat) (Fb 4%nat 6%nat) (Fb 5%nat 0%nat) (Fb 5%nat 1%nat) (Fb 5%nat 2%nat) (Fb 5%nat 3%nat) (Fb 5%nat 4%nat) (Fb 5%nat 5%nat) (Fb 5%nat 6%nat) (Fb 6%nat 0%nat) (Fb 6%nat 1%nat) (Fb 6%nat 2%nat) (Fb 6%nat 3%nat) (Fb 6%nat 4%nat) (Fb 6%nat 5%nat) (Fb 6%nat 6%nat) (Ga 0%nat 0%nat) (Ga 0%nat 1%nat) (Ga 0%nat 2%nat) (Ga 1%nat 0%nat) (Ga 1%nat 1%nat) (Ga 1%nat 2%nat) (Ga 2%nat 0%nat) (Ga 2%nat 1%nat) (Ga 2%nat 2%nat) (Ga 3%nat 0%nat) (Ga 3%nat 1%nat) (Ga 3%nat 2%nat) (Ga 4%nat 0%nat) (Ga 4%nat 1%nat) (Ga 4%nat 2%nat) (Ga 5%nat 0%nat) (Ga 5%nat 1%nat) (Ga 5%nat 2%nat) (Ga 6%nat 0%nat) (Ga 6%nat 1%nat) (Ga 6%nat 2%nat) (Gb 0%nat 0%nat) (Gb 0%nat 1%nat) (Gb 0%nat 2%nat) (Gb 1%nat 0%nat) (Gb 1%nat 1%nat) (Gb 1%nat 2%nat) (Gb 2%nat 0%nat) (Gb 2%nat 1%nat) (Gb 2%nat 2%nat) (Gb 3%nat 0%nat) (Gb 3%nat 1%nat) (Gb 3%nat 2%nat) (Gb 4%nat 0%nat) (Gb 4%nat 1%nat) (Gb 4%nat 2%nat) (Gb 5%nat 0%nat) (Gb 5%nat 1%nat) (Gb 5%nat 2%nat) (Gb 6%nat 0%nat) (Gb 6%nat 1%nat) (Gb 6%nat 2%nat) (Aa 0%nat 0%nat) (Aa 0%nat 1%nat) (Aa 0%nat 2%nat) (Aa 1%nat 0%nat) (Aa 1%nat 1%nat) (Aa 1%nat 2%nat) (Aa 2%nat 0%nat) (Aa 2%nat 1%nat) (Aa 2%nat 2%nat) (Aa 3%nat 0%nat) (Aa 3%nat 1%nat) (Aa 3%nat 2%nat) (Aa 4%nat 0%nat) (Aa 4%nat 1%nat) (Aa 4%nat 2%nat) (Aa 5%nat 0%nat) (Aa 5%nat 1%nat) (Aa 5%nat 2%nat) (Aa 6%nat 0%nat) (Aa 6%nat 1%nat) (Aa 6%nat 2%nat) (Ab 0%nat 0%nat) (Ab 0%nat 1%nat) (Ab 0%nat 2%nat) (Ab 1%nat 0%nat) (Ab 1%nat 1%nat) (Ab 1%nat 2%nat) (Ab 2%nat 0%nat) (Ab 2%nat 1%nat) (Ab 2%nat 2%nat) (Ab 3%nat 0%nat) (Ab 3%nat 1%nat) (Ab 3%nat 2%nat) (Ab 4%nat 0%nat) (Ab 4%nat 1%nat) (Ab 4%nat 2%nat) (Ab 5%nat 0%nat) (Ab 5%nat 1%nat) (Ab 5%nat 2%nat) (Ab 6%nat 0%nat) (Ab 6%nat 1%nat) (Ab 6%nat 2%nat) (x 0%nat) (x 1%nat) (x 2%nat) (x 3%nat) (x 4%nat) (x 5%nat) (x 6%nat) (eg 0%nat) (eg 1%nat) (eg 2%nat) (ea 0%nat) (ea 1%nat) (ea 2%nat)
  | _ => 0%R
  end%nat.
Definition rate2 (i : nat) (Fa Fb Ga Gb Aa Ab : mat) (x eg ea : nat -> R) : R :=
  (Fa i 0%nat + Fb i 0%nat) / 2 * x 0%nat + (Fa i 1%nat + Fb i 1%nat) / 2 * x 1%nat + (Fa i 2%nat + Fb i 2%nat) / 2 * x 2%nat + (Fa i 3%nat + Fb i 3%nat) / 2 * x 3%nat + (Fa i 4%nat + Fb i 4%nat) / 2 * x 4%nat + (Fa i 5%nat + Fb i 5%nat) / 2 * x 5%nat + (Fa i 6%nat + Fb i 6%nat) / 2 * x 6%nat
  + (Ga i 0%nat + Gb i 0%nat) / 2 * eg 0%nat + (Ga i 1%nat + Gb i 1%nat) / 2 * eg 1%nat + (Ga i 2%nat + Gb i 2%nat) / 2 * eg 2%nat
  + (Aa i 0%nat + Ab i 0%nat) / 2 * ea 0%nat + (Aa i 1%nat + Ab i 1%nat) / 2 * ea 1%nat + (Aa i 2%nat + Ab i 2%nat) / 2 * ea 2%nat.

Lemma propagate_consistent_2d : forall (Fa Fb Ga Gb Aa Ab : mat) (x eg ea : nat -> R) (i : nat), (i < 7)%nat ->
  prop2 i 0 Fa Fb Ga Gb Aa Ab x eg ea = x i /\
  is_derive (fun dt => prop2 i dt Fa Fb Ga Gb Aa Ab x eg ea) 0 (rate2 i Fa Fb Ga Gb Aa Ab x eg ea).
Proof.
  intros Fa Fb Ga Gb Aa Ab x eg ea i Hi.
  pattern i; revert i Hi; apply lt7_cases;
  (split; [ cbn [prop2]; unfold prop2d_x0, prop2d_x1, prop2d_x2, prop2d_x3, prop2d_x4, prop2d_x5, prop2d_x6; unfold Rdiv; ring
          | cbn [prop2]; unfold prop2d_x0, prop2d_x1, prop2d_x2, prop2d_x3, prop2d_x4, prop2d_x5, prop2d_x6, rate2; auto_derive; [exact I | unfold Rdiv; ring] ]).
Qed.


(** * 11. The neglected terms are small on the flight envelope of the property

    |lat| <= 80 deg, 0 <= alt <= 20 km, each velocity component within +-300 m/s (so any speed <= 300 m/s).
    Units: rows DR in 1/s (per metre of position error) or m/s per rad; rows DV in 1/s^2 per metre, m/s^2 per rad;
    rows PHI in rad/s per metre.  For comparison the retained couplings are |V| <= 300 (DR/PHI), g ~ 9.8 (DV/PHI),
    2 Omega ~ 1.5e-4 (DV/DV), 2 g / a ~ 3e-6 (DV3/DR3), Omega / R ~ 1e-11 (PHI/DR), 1 / R ~ 1.6e-7 (PHI/DV). *)
Definition flight_domain (s : nstate) : Prop :=
  -80 <= s_lat s <= 80 /\ 0 <= s_alt s <= 20000 /\
  -300 <= s_VN s <= 300 /\ -300 <= s_VE s <= 300 /\ -300 <= s_VD s <= 300.

Ltac nb_intro :=
  intros s (Hlat & Halt & HVN & HVE & HVD);
  destruct s as [lat lon alt VN VE VD C00 C01 C02 C10 C11 C12 C20 C21 C22];
  cbn [s_lat s_alt s_VN s_VE s_VD] in *;
  unfold N00, N02, N10, N11, N12, N30, N36, N37, N38, N40, N47, N50, N56, N57, N58, N60, N62, N70, N72, N80, N82,
    rn, re, sphi, cphi, tphi; cbn [s_lat s_alt s_VN s_VE s_VD];
  unfold nav_Rn, nav_Re, R_meridian, R_transverse, dRn_dphi, dRe_dphi, W2l, W2, g0, dg0;
  unfold A_, E2_, RATE_, GE_, FG_, d2r.

Lemma nb_N00 : forall s, flight_domain s -> Rabs (N00 s) <= 5 / 100000.
Proof. nb_intro. interval with (i_bisect lat, i_depth 12). Qed.
Lemma nb_N02 : forall s, flight_domain s -> Rabs (N02 s) <= 5 / 100000.
Proof. nb_intro. interval with (i_bisect lat, i_depth 12). Qed.
Lemma nb_N10 : forall s, flight_domain s -> Rabs (N10 s) <= 3 / 10000.
Proof. nb_intro. interval with (i_bisect lat, i_depth 12). Qed.
Lemma nb_N11 : forall s, flight_domain s -> Rabs (N11 s) <= 33 / 100000.
Proof. nb_intro. interval with (i_bisect lat, i_depth 12). Qed.
Lemma nb_N12 : forall s, flight_domain s -> Rabs (N12 s) <= 5 / 100000.
Proof. nb_intro. interval with (i_bisect lat, i_depth 12). Qed.
Lemma nb_N30 : forall s, flight_domain s -> Rabs (N30 s) <= 4 / 1000000000.
Proof. nb_intro. interval with (i_bisect lat, i_depth 12). Qed.
Lemma nb_N36 : forall s, flight_domain s -> Rabs (N36 s) <= 22 / 1000.
Proof. nb_intro. interval with (i_bisect lat, i_depth 12). Qed.
Lemma nb_N37 : forall s, flight_domain s -> Rabs (N37 s) <= 22 / 1000.
Proof. nb_intro. interval with (i_bisect lat, i_depth 12). Qed.
Lemma nb_N38 : forall s, flight_domain s -> Rabs (N38 s) <= 22 / 1000.
Proof. nb_intro. interval with (i_bisect lat, i_depth 12). Qed.
Lemma nb_N40 : forall s, flight_domain s -> Rabs (N40 s) <= 5 / 1000000000.
Proof. nb_intro. interval with (i_bisect lat, i_depth 12). Qed.
Lemma nb_N47 : forall s, flight_domain s -> Rabs (N47 s) <= 31 / 1000.
Proof. nb_intro. interval with (i_bisect lat, i_depth 12). Qed.
Lemma nb_N50 : forall s, flight_domain s -> Rabs (N50 s) <= 13 / 1000000000.
Proof. nb_intro. interval with (i_bisect lat, i_depth 12). Qed.
Lemma nb_N56 : forall s, flight_domain s -> Rabs (N56 s) <= 22 / 1000.
Proof. nb_intro. interval with (i_bisect lat, i_depth 12). Qed.
Lemma nb_N57 : forall s, flight_domain s -> Rabs (N57 s) <= 22 / 1000.
Proof. nb_intro. interval with (i_bisect lat, i_depth 12). Qed.
Lemma nb_N58 : forall s, flight_domain s -> Rabs (N58 s) <= 22 / 1000.
Proof. nb_intro. interval with (i_bisect lat, i_depth 12). Qed.
Lemma nb_N60 : forall s, flight_domain s -> Rabs (N60 s) <= 3 / 100000000000000.
Proof. nb_intro. interval with (i_bisect lat, i_depth 12). Qed.
Lemma nb_N62 : forall s, flight_domain s -> Rabs (N62 s) <= 8 / 1000000000000.
Proof. nb_intro. interval with (i_bisect lat, i_depth 12). Qed.
Lemma nb_N70 : forall s, flight_domain s -> Rabs (N70 s) <= 8 / 100000000000000.
Proof. nb_intro. interval with (i_bisect lat, i_depth 12). Qed.
Lemma nb_N72 : forall s, flight_domain s -> Rabs (N72 s) <= 8 / 1000000000000.
Proof. nb_intro. interval with (i_bisect lat, i_depth 12). Qed.
Lemma nb_N80 : forall s, flight_domain s -> Rabs (N80 s) <= 3 / 10000000000.
Proof. nb_intro. interval with (i_bisect lat, i_depth 12). Qed.
Lemma nb_N82 : forall s, flight_domain s -> Rabs (N82 s) <= 5 / 100000000000.
Proof. nb_intro. interval with (i_bisect lat, i_depth 12). Qed.

Lemma neglected_small : forall s, flight_domain s ->
  Rabs (N00 s) <= 5 / 100000 /\
  Rabs (N02 s) <= 5 / 100000 /\
  Rabs (N10 s) <= 3 / 10000 /\
  Rabs (N11 s) <= 33 / 100000 /\
  Rabs (N12 s) <= 5 / 100000 /\
  Rabs (N30 s) <= 4 / 1000000000 /\
  Rabs (N36 s) <= 22 / 1000 /\
  Rabs (N37 s) <= 22 / 1000 /\
  Rabs (N38 s) <= 22 / 1000 /\
  Rabs (N40 s) <= 5 / 1000000000 /\
  Rabs (N47 s) <= 31 / 1000 /\
  Rabs (N50 s) <= 13 / 1000000000 /\
  Rabs (N56 s) <= 22 / 1000 /\
  Rabs (N57 s) <= 22 / 1000 /\
  Rabs (N58 s) <= 22 / 1000 /\
  Rabs (N60 s) <= 3 / 100000000000000 /\
  Rabs (N62 s) <= 8 / 1000000000000 /\
  Rabs (N70 s) <= 8 / 100000000000000 /\
  Rabs (N72 s) <= 8 / 1000000000000 /\
  Rabs (N80 s) <= 3 / 10000000000 /\
  Rabs (N82 s) <= 5 / 100000000000.
Proof.
  intros s H. splits.
  - apply nb_N00; exact H.
  - apply nb_N02; exact H.
  - apply nb_N10; exact H.
  - apply nb_N11; exact H.
  - apply nb_N12; exact H.
  - apply nb_N30; exact H.
  - apply nb_N36; exact H.
  - apply nb_N37; exact H.
  - apply nb_N38; exact H.
  - apply nb_N40; exact H.
  - apply nb_N47; exact H.
  - apply nb_N50; exact H.
  - apply nb_N56; exact H.
  - apply nb_N57; exact H.
  - apply nb_N58; exact H.
  - apply nb_N60; exact H.
  - apply nb_N62; exact H.
  - apply nb_N70; exact H.
  - apply nb_N72; exact H.
  - apply nb_N80; exact H.
  - apply nb_N82; exact H.
Qed.

(** * 12. The position part of the chart is the library's perturb_lla (generated, Gen/Transform.v) *)
Lemma pert_position_is_perturb_lla : forall s x, -90 < s_lat s < 90 ->
  s_lat (pert s x) = perturb_lla_lat (s_lat s) (s_lon s) (s_alt s) (e0 x) (e1 x) (e2 x) /\
  s_lon (pert s x) = perturb_lla_lon (s_lat s) (s_lon s) (s_alt s) (e0 x) (e1 x) (e2 x) /\
  s_alt (pert s x) = perturb_lla_alt (s_lat s) (s_lon s) (s_alt s) (e0 x) (e1 x) (e2 x).
Proof.
  intros s x Hlat. destruct s as [lat lon alt VN VE VD C00 C01 C02 C10 C11 C12 C20 C21 C22].
  destruct x as [x0 x1 x2 x3 x4 x5 x6 x7 x8]. cbn [s_lat] in Hlat.
  unfold pert, sadd, pdelta; cbn [s_lat s_lon s_alt e0 e1 e2].
  unfold perturb_lla_lat, perturb_lla_lon, perturb_lla_alt, pd_lat, pd_lon, pd_alt.
  repeat autounfold with perturb_lla_db.
  rewrite (sqrt_1msin2 (lat * (PI / 180))) by (apply cos_d2r_nonneg; lra).
  fold_geo lat. unfold r2d, d2r, Rdiv. splits; ring.
Qed.


(** * 13. No-altitude mode: the 7-state model is the linearisation of the 2D navigation equations

    The 2D integrator keeps altitude and VD = 0 fixed.  The 7-state error y = (DR1 DR2 DV1 DV2 PHI1 PHI2 PHI3) is
    lifted onto the constraint surface dr3 = 0, dv3 = VE phi1 - VN phi2 (so that the perturbed state keeps VD = 0);
    [lift s y] is T32(VN, VE) y (lemma lift_is_T32).  On level trajectories (VD = 0 and the vertical channel of the
    navigation equations in equilibrium) the generated 7-state matrix plus the reduced remainder is the linearisation. *)
Record err7 : Type := mkX7 { y0 : R; y1 : R; y2 : R; y3 : R; y4 : R; y5 : R; y6 : R }.
Definition lift (s : nstate) (y : err7) : err :=
  mkX (y0 y) (y1 y) 0 (y2 y) (y3 y) (s_VE s * y4 y - s_VN s * y5 y) (y4 y) (y5 y) (y6 y).
Definition rhs_zero : rhs21 := fun _ _ _ _ _ _ _ _ _ _ _ _ _ _ _ _ _ _ _ _ _ => 0.
(** the 2D vector field: altitude and vertical velocity do not move *)
Definition nav_field2 (s : nstate) (m : imu) : nstate :=
  mkS (app nav_rhs_lat s m) (app nav_rhs_lon s m) 0
      (app nav_rhs_VN s m) (app nav_rhs_VE s m) 0
      (app nav_rhs_C00 s m) (app nav_rhs_C01 s m) (app nav_rhs_C02 s m)
      (app nav_rhs_C10 s m) (app nav_rhs_C11 s m) (app nav_rhs_C12 s m)
      (app nav_rhs_C20 s m) (app nav_rhs_C21 s m) (app nav_rhs_C22 s m).
Definition lin2 (g : rhs21) (pr : nstate -> R) (s : nstate) (m : imu) (y : err7) (u : R) : R :=
  app g (sadd s u (pdelta s (lift s y))) m
  - pr (pdelta (sadd s u (nav_field2 s m)) (lift (sadd s u (nav_field2 s m)) y)).
(** level flight: no vertical velocity and the vertical channel in equilibrium,
    f_D = -g + ((2 Omega + rho) x v)_D: the trajectories the no-altitude integrator can follow *)
Definition level (s : nstate) (m : imu) : Prop := s_VD s = 0 /\ app nav_rhs_VD s m = 0.

Definition modelR0 (s : nstate) (roll pitch heading : R) (y : err7) : R :=
  sysmat2d_F00 (s_lat s) (s_lon s) (s_alt s) (s_VN s) (s_VE s) (s_VD s) roll pitch heading * y0 y + sysmat2d_F01 (s_lat s) (s_lon s) (s_alt s) (s_VN s) (s_VE s) (s_VD s) roll pitch heading * y1 y + sysmat2d_F02 (s_lat s) (s_lon s) (s_alt s) (s_VN s) (s_VE s) (s_VD s) roll pitch heading * y2 y + sysmat2d_F03 (s_lat s) (s_lon s) (s_alt s) (s_VN s) (s_VE s) (s_VD s) roll pitch heading * y3 y + sysmat2d_F04 (s_lat s) (s_lon s) (s_alt s) (s_VN s) (s_VE s) (s_VD s) roll pitch heading * y4 y + sysmat2d_F05 (s_lat s) (s_lon s) (s_alt s) (s_VN s) (s_VE s) (s_VD s) roll pitch heading * y5 y + sysmat2d_F06 (s_lat s) (s_lon s) (s_alt s) (s_VN s) (s_VE s) (s_VD s) roll pitch heading * y6 y.
Definition modelR1 (s : nstate) (roll pitch heading : R) (y : err7) : R :=
  sysmat2d_F10 (s_lat s) (s_lon s) (s_alt s) (s_VN s) (s_VE s) (s_VD s) roll pitch heading * y0 y + sysmat2d_F11 (s_lat s) (s_lon s) (s_alt s) (s_VN s) (s_VE s) (s_VD s) roll pitch heading * y1 y + sysmat2d_F12 (s_lat s) (s_lon s) (s_alt s) (s_VN s) (s_VE s) (s_VD s) roll pitch heading * y2 y + sysmat2d_F13 (s_lat s) (s_lon s) (s_alt s) (s_VN s) (s_VE s) (s_VD s) roll pitch heading * y3 y + sysmat2d_F14 (s_lat s) (s_lon s) (s_alt s) (s_VN s) (s_VE s) (s_VD s) roll pitch heading * y4 y + sysmat2d_F15 (s_lat s) (s_lon s) (s_alt s) (s_VN s) (s_VE s) (s_VD s) roll pitch heading * y5 y + sysmat2d_F16 (s_lat s) (s_lon s) (s_alt s) (s_VN s) (s_VE s) (s_VD s) roll pitch heading * y6 y.
Definition modelR2 (s : nstate) (roll pitch heading : R) (y : err7) : R :=
  sysmat2d_F20 (s_lat s) (s_lon s) (s_alt s) (s_VN s) (s_VE s) (s_VD s) roll pitch heading * y0 y + sysmat2d_F21 (s_lat s) (s_lon s) (s_alt s) (s_VN s) (s_VE s) (s_VD s) roll pitch heading * y1 y + sysmat2d_F22 (s_lat s) (s_lon s) (s_alt s) (s_VN s) (s_VE s) (s_VD s) roll pitch heading * y2 y + sysmat2d_F23 (s_lat s) (s_lon s) (s_alt s) (s_VN s) (s_VE s) (s_VD s) roll pitch heading * y3 y + sysmat2d_F24 (s_lat s) (s_lon s) (s_alt s) (s_VN s) (s_VE s) (s_VD s) roll pitch heading * y4 y + sysmat2d_F25 (s_lat s) (s_lon s) (s_alt s) (s_VN s) (s_VE s) (s_VD s) roll pitch heading * y5 y + sysmat2d_F26 (s_lat s) (s_lon s) (s_alt s) (s_VN s) (s_VE s) (s_VD s) roll pitch heading * y6 y.
Definition modelR3 (s : nstate) (roll pitch heading : R) (y : err7) : R :=
  sysmat2d_F30 (s_lat s) (s_lon s) (s_alt s) (s_VN s) (s_VE s) (s_VD s) roll pitch heading * y0 y + sysmat2d_F31 (s_lat s) (s_lon s) (s_alt s) (s_VN s) (s_VE s) (s_VD s) roll pitch heading * y1 y + sysmat2d_F32 (s_lat s) (s_lon s) (s_alt s) (s_VN s) (s_VE s) (s_VD s) roll pitch heading * y2 y + sysmat2d_F33 (s_lat s) (s_lon s) (s_alt s) (s_VN s) (s_VE s) (s_VD s) roll pitch heading * y3 y + sysmat2d_F34 (s_lat s) (s_lon s) (s_alt s) (s_VN s) (s_VE s) (s_VD s) roll pitch heading * y4 y + sysmat2d_F35 (s_lat s) (s_lon s) (s_alt s) (s_VN s) (s_VE s) (s_VD s) roll pitch heading * y5 y + sysmat2d_F36 (s_lat s) (s_lon s) (s_alt s) (s_VN s) (s_VE s) (s_VD s) roll pitch heading * y6 y.
Definition modelR4 (s : nstate) (roll pitch heading : R) (y : err7) : R :=
  sysmat2d_F40 (s_lat s) (s_lon s) (s_alt s) (s_VN s) (s_VE s) (s_VD s) roll pitch heading * y0 y + sysmat2d_F41 (s_lat s) (s_lon s) (s_alt s) (s_VN s) (s_VE s) (s_VD s) roll pitch heading * y1 y + sysmat2d_F42 (s_lat s) (s_lon s) (s_alt s) (s_VN s) (s_VE s) (s_VD s) roll pitch heading * y2 y + sysmat2d_F43 (s_lat s) (s_lon s) (s_alt s) (s_VN s) (s_VE s) (s_VD s) roll pitch heading * y3 y + sysmat2d_F44 (s_lat s) (s_lon s) (s_alt s) (s_VN s) (s_VE s) (s_VD s) roll pitch heading * y4 y + sysmat2d_F45 (s_lat s) (s_lon s) (s_alt s) (s_VN s) (s_VE s) (s_VD s) roll pitch heading * y5 y + sysmat2d_F46 (s_lat s) (s_lon s) (s_alt s) (s_VN s) (s_VE s) (s_VD s) roll pitch heading * y6 y.
Definition modelR5 (s : nstate) (roll pitch heading : R) (y : err7) : R :=
  sysmat2d_F50 (s_lat s) (s_lon s) (s_alt s) (s_VN s) (s_VE s) (s_VD s) roll pitch heading * y0 y + sysmat2d_F51 (s_lat s) (s_lon s) (s_alt s) (s_VN s) (s_VE s) (s_VD s) roll pitch heading * y1 y + sysmat2d_F52 (s_lat s) (s_lon s) (s_alt s) (s_VN s) (s_VE s) (s_VD s) roll pitch heading * y2 y + sysmat2d_F53 (s_lat s) (s_lon s) (s_alt s) (s_VN s) (s_VE s) (s_VD s) roll pitch heading * y3 y + sysmat2d_F54 (s_lat s) (s_lon s) (s_alt s) (s_VN s) (s_VE s) (s_VD s) roll pitch heading * y4 y + sysmat2d_F55 (s_lat s) (s_lon s) (s_alt s) (s_VN s) (s_VE s) (s_VD s) roll pitch heading * y5 y + sysmat2d_F56 (s_lat s) (s_lon s) (s_alt s) (s_VN s) (s_VE s) (s_VD s) roll pitch heading * y6 y.
Definition modelR6 (s : nstate) (roll pitch heading : R) (y : err7) : R :=
  sysmat2d_F60 (s_lat s) (s_lon s) (s_alt s) (s_VN s) (s_VE s) (s_VD s) roll pitch heading * y0 y + sysmat2d_F61 (s_lat s) (s_lon s) (s_alt s) (s_VN s) (s_VE s) (s_VD s) roll pitch heading * y1 y + sysmat2d_F62 (s_lat s) (s_lon s) (s_alt s) (s_VN s) (s_VE s) (s_VD s) roll pitch heading * y2 y + sysmat2d_F63 (s_lat s) (s_lon s) (s_alt s) (s_VN s) (s_VE s) (s_VD s) roll pitch heading * y3 y + sysmat2d_F64 (s_lat s) (s_lon s) (s_alt s) (s_VN s) (s_VE s) (s_VD s) roll pitch heading * y4 y + sysmat2d_F65 (s_lat s) (s_lon s) (s_alt s) (s_VN s) (s_VE s) (s_VD s) roll pitch heading * y5 y + sysmat2d_F66 (s_lat s) (s_lon s) (s_alt s) (s_VN s) (s_VE s) (s_VD s) roll pitch heading * y6 y.
Definition errdynR0 (s : nstate) (roll pitch heading : R) (y : err7) : R :=
  modelR0 s roll pitch heading y + negl0 s (lift s y).
Definition errdynR1 (s : nstate) (roll pitch heading : R) (y : err7) : R :=
  modelR1 s roll pitch heading y + negl1 s (lift s y).
Definition errdynR2 (s : nstate) (roll pitch heading : R) (y : err7) : R :=
  modelR2 s roll pitch heading y + negl3 s (lift s y).
Definition errdynR3 (s : nstate) (roll pitch heading : R) (y : err7) : R :=
  modelR3 s roll pitch heading y + negl4 s (lift s y).
Definition errdynR4 (s : nstate) (roll pitch heading : R) (y : err7) : R :=
  modelR4 s roll pitch heading y + negl6 s (lift s y).
Definition errdynR5 (s : nstate) (roll pitch heading : R) (y : err7) : R :=
  modelR5 s roll pitch heading y + negl7 s (lift s y).
Definition errdynR6 (s : nstate) (roll pitch heading : R) (y : err7) : R :=
  modelR6 s roll pitch heading y + negl8 s (lift s y).
Definition errdynR (s : nstate) (roll pitch heading : R) (y : err7) : err7 :=
  mkX7 (errdynR0 s roll pitch heading y) (errdynR1 s roll pitch heading y) (errdynR2 s roll pitch heading y) (errdynR3 s roll pitch heading y) (errdynR4 s roll pitch heading y) (errdynR5 s roll pitch heading y) (errdynR6 s roll pitch heading y).

Ltac modelR_tac :=
  intros s roll pitch heading y;
  destruct s as [lat lon alt VN VE VD C00 C01 C02 C10 C11 C12 C20 C21 C22];
  destruct y as [q0 q1 q2 q3 q4 q5 q6];
  unfold modelR0, modelR1, modelR2, modelR3, modelR4, modelR5, modelR6, lift,
         sm0, sm1, sm2, sm3, sm4, sm5, sm6, sm7, sm8;
  cbn [e0 e1 e2 e3 e4 e5 e6 e7 e8 y0 y1 y2 y3 y4 y5 y6 s_lat s_lon s_alt s_VN s_VE s_VD];
  unfold sysmat2d_F00, sysmat2d_F01, sysmat2d_F02, sysmat2d_F03, sysmat2d_F04, sysmat2d_F05, sysmat2d_F06, sysmat2d_F10, sysmat2d_F11, sysmat2d_F12, sysmat2d_F13, sysmat2d_F14, sysmat2d_F15, sysmat2d_F16, sysmat2d_F20, sysmat2d_F21, sysmat2d_F22, sysmat2d_F23, sysmat2d_F24, sysmat2d_F25, sysmat2d_F26, sysmat2d_F30, sysmat2d_F31, sysmat2d_F32, sysmat2d_F33, sysmat2d_F34, sysmat2d_F35, sysmat2d_F36, sysmat2d_F40, sysmat2d_F41, sysmat2d_F42, sysmat2d_F43, sysmat2d_F44, sysmat2d_F45, sysmat2d_F46, sysmat2d_F50, sysmat2d_F51, sysmat2d_F52, sysmat2d_F53, sysmat2d_F54, sysmat2d_F55, sysmat2d_F56, sysmat2d_F60, sysmat2d_F61, sysmat2d_F62, sysmat2d_F63, sysmat2d_F64, sysmat2d_F65, sysmat2d_F66;
  repeat autounfold with sysmat2d_db; fold_geo lat;
  unfold corN, corE, corD, omN, omE, omD, OmN, OmD, grav, rn, re, sphi, cphi, tphi;
  cbn [s_lat s_lon s_alt s_VN s_VE s_VD];
  unfold nav_cor_N, nav_cor_E, nav_cor_D, nav_om_N, nav_om_E, nav_om_D,
    nav_rho_N, nav_rho_E, nav_rho_D, nav_Omega_N, nav_Omega_E, nav_Omega_D;
  rewrite ?ng_split; unfold RATE_, A_, d2r, Rdiv; ring.

Lemma modelR0_spec : forall s roll pitch heading y, modelR0 s roll pitch heading y = sm0 s (lift s y).
Proof. modelR_tac. Qed.
Lemma modelR1_spec : forall s roll pitch heading y, modelR1 s roll pitch heading y = sm1 s (lift s y).
Proof. modelR_tac. Qed.
Lemma modelR2_spec : forall s roll pitch heading y, modelR2 s roll pitch heading y = sm3 s (lift s y).
Proof. modelR_tac. Qed.
Lemma modelR3_spec : forall s roll pitch heading y, modelR3 s roll pitch heading y = sm4 s (lift s y).
Proof. modelR_tac. Qed.
Lemma modelR4_spec : forall s roll pitch heading y, modelR4 s roll pitch heading y = sm6 s (lift s y).
Proof. modelR_tac. Qed.
Lemma modelR5_spec : forall s roll pitch heading y, modelR5 s roll pitch heading y = sm7 s (lift s y).
Proof. modelR_tac. Qed.
Lemma modelR6_spec : forall s roll pitch heading y, modelR6 s roll pitch heading y = sm8 s (lift s y).
Proof. modelR_tac. Qed.

Lemma lift_is_T32 : forall s y,
  e0 (lift s y) = T32m (s_VN s) (s_VE s) 0%nat 0%nat * y0 y + T32m (s_VN s) (s_VE s) 0%nat 1%nat * y1 y + T32m (s_VN s) (s_VE s) 0%nat 2%nat * y2 y + T32m (s_VN s) (s_VE s) 0%nat 3%nat * y3 y + T32m (s_VN s) (s_VE s) 0%nat 4%nat * y4 y + T32m (s_VN s) (s_VE s) 0%nat 5%nat * y5 y + T32m (s_VN s) (s_VE s) 0%nat 6%nat * y6 y /\
  e1 (lift s y) = T32m (s_VN s) (s_VE s) 1%nat 0%nat * y0 y + T32m (s_VN s) (s_VE s) 1%nat 1%nat * y1 y + T32m (s_VN s) (s_VE s) 1%nat 2%nat * y2 y + T32m (s_VN s) (s_VE s) 1%nat 3%nat * y3 y + T32m (s_VN s) (s_VE s) 1%nat 4%nat * y4 y + T32m (s_VN s) (s_VE s) 1%nat 5%nat * y5 y + T32m (s_VN s) (s_VE s) 1%nat 6%nat * y6 y /\
  e2 (lift s y) = T32m (s_VN s) (s_VE s) 2%nat 0%nat * y0 y + T32m (s_VN s) (s_VE s) 2%nat 1%nat * y1 y + T32m (s_VN s) (s_VE s) 2%nat 2%nat * y2 y + T32m (s_VN s) (s_VE s) 2%nat 3%nat * y3 y + T32m (s_VN s) (s_VE s) 2%nat 4%nat * y4 y + T32m (s_VN s) (s_VE s) 2%nat 5%nat * y5 y + T32m (s_VN s) (s_VE s) 2%nat 6%nat * y6 y /\
  e3 (lift s y) = T32m (s_VN s) (s_VE s) 3%nat 0%nat * y0 y + T32m (s_VN s) (s_VE s) 3%nat 1%nat * y1 y + T32m (s_VN s) (s_VE s) 3%nat 2%nat * y2 y + T32m (s_VN s) (s_VE s) 3%nat 3%nat * y3 y + T32m (s_VN s) (s_VE s) 3%nat 4%nat * y4 y + T32m (s_VN s) (s_VE s) 3%nat 5%nat * y5 y + T32m (s_VN s) (s_VE s) 3%nat 6%nat * y6 y /\
  e4 (lift s y) = T32m (s_VN s) (s_VE s) 4%nat 0%nat * y0 y + T32m (s_VN s) (s_VE s) 4%nat 1%nat * y1 y + T32m (s_VN s) (s_VE s) 4%nat 2%nat * y2 y + T32m (s_VN s) (s_VE s) 4%nat 3%nat * y3 y + T32m (s_VN s) (s_VE s) 4%nat 4%nat * y4 y + T32m (s_VN s) (s_VE s) 4%nat 5%nat * y5 y + T32m (s_VN s) (s_VE s) 4%nat 6%nat * y6 y /\
  e5 (lift s y) = T32m (s_VN s) (s_VE s) 5%nat 0%nat * y0 y + T32m (s_VN s) (s_VE s) 5%nat 1%nat * y1 y + T32m (s_VN s) (s_VE s) 5%nat 2%nat * y2 y + T32m (s_VN s) (s_VE s) 5%nat 3%nat * y3 y + T32m (s_VN s) (s_VE s) 5%nat 4%nat * y4 y + T32m (s_VN s) (s_VE s) 5%nat 5%nat * y5 y + T32m (s_VN s) (s_VE s) 5%nat 6%nat * y6 y /\
  e6 (lift s y) = T32m (s_VN s) (s_VE s) 6%nat 0%nat * y0 y + T32m (s_VN s) (s_VE s) 6%nat 1%nat * y1 y + T32m (s_VN s) (s_VE s) 6%nat 2%nat * y2 y + T32m (s_VN s) (s_VE s) 6%nat 3%nat * y3 y + T32m (s_VN s) (s_VE s) 6%nat 4%nat * y4 y + T32m (s_VN s) (s_VE s) 6%nat 5%nat * y5 y + T32m (s_VN s) (s_VE s) 6%nat 6%nat * y6 y /\
  e7 (lift s y) = T32m (s_VN s) (s_VE s) 7%nat 0%nat * y0 y + T32m (s_VN s) (s_VE s) 7%nat 1%nat * y1 y + T32m (s_VN s) (s_VE s) 7%nat 2%nat * y2 y + T32m (s_VN s) (s_VE s) 7%nat 3%nat * y3 y + T32m (s_VN s) (s_VE s) 7%nat 4%nat * y4 y + T32m (s_VN s) (s_VE s) 7%nat 5%nat * y5 y + T32m (s_VN s) (s_VE s) 7%nat 6%nat * y6 y /\
  e8 (lift s y) = T32m (s_VN s) (s_VE s) 8%nat 0%nat * y0 y + T32m (s_VN s) (s_VE s) 8%nat 1%nat * y1 y + T32m (s_VN s) (s_VE s) 8%nat 2%nat * y2 y + T32m (s_VN s) (s_VE s) 8%nat 3%nat * y3 y + T32m (s_VN s) (s_VE s) 8%nat 4%nat * y4 y + T32m (s_VN s) (s_VE s) 8%nat 5%nat * y5 y + T32m (s_VN s) (s_VE s) 8%nat 6%nat * y6 y.
Proof.
  intros s y. destruct y as [q0 q1 q2 q3 q4 q5 q6]. unfold lift. cbn [e0 e1 e2 e3 e4 e5 e6 e7 e8 y0 y1 y2 y3 y4 y5 y6 T32m].
  unfold tr32_t00, tr32_t01, tr32_t02, tr32_t03, tr32_t04, tr32_t05, tr32_t06, tr32_t10, tr32_t11, tr32_t12, tr32_t13, tr32_t14, tr32_t15, tr32_t16, tr32_t20, tr32_t21, tr32_t22, tr32_t23, tr32_t24, tr32_t25, tr32_t26, tr32_t30, tr32_t31, tr32_t32, tr32_t33, tr32_t34, tr32_t35, tr32_t36, tr32_t40, tr32_t41, tr32_t42, tr32_t43, tr32_t44, tr32_t45, tr32_t46, tr32_t50, tr32_t51, tr32_t52, tr32_t53, tr32_t54, tr32_t55, tr32_t56, tr32_t60, tr32_t61, tr32_t62, tr32_t63, tr32_t64, tr32_t65, tr32_t66, tr32_t70, tr32_t71, tr32_t72, tr32_t73, tr32_t74, tr32_t75, tr32_t76, tr32_t80, tr32_t81, tr32_t82, tr32_t83, tr32_t84, tr32_t85, tr32_t86. splits; ring.
Qed.

Lemma field2_eq : forall s m, level s m -> nav_field2 s m = nav_field s m.
Proof.
  intros s m [HVD Hlev]. unfold nav_field2, nav_field. apply mkS_ext; try reflexivity.
  - unfold app, nav_rhs_alt. rewrite HVD. ring.
  - symmetry. exact Hlev.
Qed.

(** (F + N) T32 y agrees with T32 (F2 + N2) y on the seven retained states, and its DR3 component vanishes *)
Lemma errdyn_lift : forall s roll pitch heading y,
  errdyn0 s roll pitch heading (lift s y) = errdynR0 s roll pitch heading y /\
  errdyn1 s roll pitch heading (lift s y) = errdynR1 s roll pitch heading y /\
  errdyn3 s roll pitch heading (lift s y) = errdynR2 s roll pitch heading y /\
  errdyn4 s roll pitch heading (lift s y) = errdynR3 s roll pitch heading y /\
  errdyn6 s roll pitch heading (lift s y) = errdynR4 s roll pitch heading y /\
  errdyn7 s roll pitch heading (lift s y) = errdynR5 s roll pitch heading y /\
  errdyn8 s roll pitch heading (lift s y) = errdynR6 s roll pitch heading y /\
  errdyn2 s roll pitch heading (lift s y) = 0.
Proof.
  intros s roll pitch heading y.
  unfold errdyn0, errdyn1, errdyn2, errdyn3, errdyn4, errdyn6, errdyn7, errdyn8,
    errdynR0, errdynR1, errdynR2, errdynR3, errdynR4, errdynR5, errdynR6.
  rewrite model0_spec, model1_spec, model2_spec, model3_spec, model4_spec, model6_spec, model7_spec, model8_spec,
    modelR0_spec, modelR1_spec, modelR2_spec, modelR3_spec, modelR4_spec, modelR5_spec, modelR6_spec.
  splits; try reflexivity.
  unfold sm2, negl2, lift; cbn [e5 e6 e7]. ring.
Qed.

Ltac cbn_all :=
  cbn [s_lat s_lon s_alt s_VN s_VE s_VD s_C00 s_C01 s_C02 s_C10 s_C11 s_C12 s_C20 s_C21 s_C22
       i_w0 i_w1 i_w2 i_f0 i_f1 i_f2 e0 e1 e2 e3 e4 e5 e6 e7 e8 y0 y1 y2 y3 y4 y5 y6].



(* the chart component pr does not look at the DV3 entry of the error vector *)
Definition same_but5 (x x' : err) : Prop :=
  e0 x = e0 x' /\ e1 x = e1 x' /\ e2 x = e2 x' /\ e3 x = e3 x' /\ e4 x = e4 x' /\
  e6 x = e6 x' /\ e7 x = e7 x' /\ e8 x = e8 x'.
Definition ignores5 (pr : nstate -> R) : Prop :=
  forall s x x', same_but5 x x' -> pr (pdelta s x) = pr (pdelta s x').
Ltac ign5 := intros s x x' (H0 & H1 & H2 & H3 & H4 & H6 & H7 & H8); unfold pdelta; cbn_all;
  rewrite ?H0, ?H1, ?H2, ?H3, ?H4, ?H6, ?H7, ?H8; reflexivity.
Lemma lin2_lin_gen : forall g pr s m y u, ignores5 pr -> level s m ->
  lin2 g pr s m y u = lin g pr s m (lift s y) u.
Proof.
  intros g pr s m y u Hpr Hlev. unfold lin2, lin. rewrite (field2_eq s m Hlev). f_equal.
  apply Hpr. unfold same_but5, lift; cbn_all. repeat split; reflexivity.
Qed.
Lemma alt_rate_zero : forall s m y u, level s m ->
  app rhs_zero (sadd s u (pdelta s (lift s y))) m = app nav_rhs_alt (sadd s u (pdelta s (lift s y))) m.
Proof.
  intros s m y u [HVD _]. destruct s as [lat lon alt VN VE VD C00 C01 C02 C10 C11 C12 C20 C21 C22].
  destruct y as [q0 q1 q2 q3 q4 q5 q6]. cbn [s_VD] in HVD. subst VD.
  unfold app, rhs_zero, nav_rhs_alt, sadd, pdelta, lift; cbn_all. unfold pd_v2, cross2. ring.
Qed.
Lemma lin2_VD_zero : forall s m y u, s_VD s = 0 -> lin2 rhs_zero s_VD s m y u = 0.
Proof.
  intros s m y u HVD. destruct s as [lat lon alt VN VE VD C00 C01 C02 C10 C11 C12 C20 C21 C22].
  destruct y as [q0 q1 q2 q3 q4 q5 q6]. cbn [s_VD] in HVD. subst VD.
  unfold lin2, nav_field2, app, rhs_zero, pdelta, lift, sadd; cbn_all. unfold pd_v2, cross2. ring.
Qed.

Lemma ign5_lat : ignores5 s_lat.
Proof. ign5. Qed.
Lemma lin2_lin_lat : forall s m y u, level s m ->
  lin2 nav_rhs_lat s_lat s m y u = lin nav_rhs_lat s_lat s m (lift s y) u.
Proof. intros s m y u Hlev. apply lin2_lin_gen; [exact ign5_lat | exact Hlev]. Qed.
Lemma ign5_lon : ignores5 s_lon.
Proof. ign5. Qed.
Lemma lin2_lin_lon : forall s m y u, level s m ->
  lin2 nav_rhs_lon s_lon s m y u = lin nav_rhs_lon s_lon s m (lift s y) u.
Proof. intros s m y u Hlev. apply lin2_lin_gen; [exact ign5_lon | exact Hlev]. Qed.
Lemma ign5_alt : ignores5 s_alt.
Proof. ign5. Qed.
Lemma lin2_lin_alt : forall s m y u, level s m ->
  lin2 rhs_zero s_alt s m y u = lin nav_rhs_alt s_alt s m (lift s y) u.
Proof.
  intros s m y u Hlev. rewrite <- (lin2_lin_gen nav_rhs_alt s_alt s m y u ign5_alt Hlev).
  unfold lin2. rewrite (alt_rate_zero s m y u Hlev). reflexivity.
Qed.
Lemma ign5_VN : ignores5 s_VN.
Proof. ign5. Qed.
Lemma lin2_lin_VN : forall s m y u, level s m ->
  lin2 nav_rhs_VN s_VN s m y u = lin nav_rhs_VN s_VN s m (lift s y) u.
Proof. intros s m y u Hlev. apply lin2_lin_gen; [exact ign5_VN | exact Hlev]. Qed.
Lemma ign5_VE : ignores5 s_VE.
Proof. ign5. Qed.
Lemma lin2_lin_VE : forall s m y u, level s m ->
  lin2 nav_rhs_VE s_VE s m y u = lin nav_rhs_VE s_VE s m (lift s y) u.
Proof. intros s m y u Hlev. apply lin2_lin_gen; [exact ign5_VE | exact Hlev]. Qed.
Lemma ign5_C00 : ignores5 s_C00.
Proof. ign5. Qed.
Lemma lin2_lin_C00 : forall s m y u, level s m ->
  lin2 nav_rhs_C00 s_C00 s m y u = lin nav_rhs_C00 s_C00 s m (lift s y) u.
Proof. intros s m y u Hlev. apply lin2_lin_gen; [exact ign5_C00 | exact Hlev]. Qed.
Lemma ign5_C01 : ignores5 s_C01.
Proof. ign5. Qed.
Lemma lin2_lin_C01 : forall s m y u, level s m ->
  lin2 nav_rhs_C01 s_C01 s m y u = lin nav_rhs_C01 s_C01 s m (lift s y) u.
Proof. intros s m y u Hlev. apply lin2_lin_gen; [exact ign5_C01 | exact Hlev]. Qed.
Lemma ign5_C02 : ignores5 s_C02.
Proof. ign5. Qed.
Lemma lin2_lin_C02 : forall s m y u, level s m ->
  lin2 nav_rhs_C02 s_C02 s m y u = lin nav_rhs_C02 s_C02 s m (lift s y) u.
Proof. intros s m y u Hlev. apply lin2_lin_gen; [exact ign5_C02 | exact Hlev]. Qed.
Lemma ign5_C10 : ignores5 s_C10.
Proof. ign5. Qed.
Lemma lin2_lin_C10 : forall s m y u, level s m ->
  lin2 nav_rhs_C10 s_C10 s m y u = lin nav_rhs_C10 s_C10 s m (lift s y) u.
Proof. intros s m y u Hlev. apply lin2_lin_gen; [exact ign5_C10 | exact Hlev]. Qed.
Lemma ign5_C11 : ignores5 s_C11.
Proof. ign5. Qed.
Lemma lin2_lin_C11 : forall s m y u, level s m ->
  lin2 nav_rhs_C11 s_C11 s m y u = lin nav_rhs_C11 s_C11 s m (lift s y) u.
Proof. intros s m y u Hlev. apply lin2_lin_gen; [exact ign5_C11 | exact Hlev]. Qed.
Lemma ign5_C12 : ignores5 s_C12.
Proof. ign5. Qed.
Lemma lin2_lin_C12 : forall s m y u, level s m ->
  lin2 nav_rhs_C12 s_C12 s m y u = lin nav_rhs_C12 s_C12 s m (lift s y) u.
Proof. intros s m y u Hlev. apply lin2_lin_gen; [exact ign5_C12 | exact Hlev]. Qed.
Lemma ign5_C20 : ignores5 s_C20.
Proof. ign5. Qed.
Lemma lin2_lin_C20 : forall s m y u, level s m ->
  lin2 nav_rhs_C20 s_C20 s m y u = lin nav_rhs_C20 s_C20 s m (lift s y) u.
Proof. intros s m y u Hlev. apply lin2_lin_gen; [exact ign5_C20 | exact Hlev]. Qed.
Lemma ign5_C21 : ignores5 s_C21.
Proof. ign5. Qed.
Lemma lin2_lin_C21 : forall s m y u, level s m ->
  lin2 nav_rhs_C21 s_C21 s m y u = lin nav_rhs_C21 s_C21 s m (lift s y) u.
Proof. intros s m y u Hlev. apply lin2_lin_gen; [exact ign5_C21 | exact Hlev]. Qed.
Lemma ign5_C22 : ignores5 s_C22.
Proof. ign5. Qed.
Lemma lin2_lin_C22 : forall s m y u, level s m ->
  lin2 nav_rhs_C22 s_C22 s m y u = lin nav_rhs_C22 s_C22 s m (lift s y) u.
Proof. intros s m y u Hlev. apply lin2_lin_gen; [exact ign5_C22 | exact Hlev]. Qed.
Lemma row2_lat : forall s roll pitch heading m y, dom s -> level s m ->
  is_derive (lin2 nav_rhs_lat s_lat s m y) 0 (s_lat (pdelta s (lift s (errdynR s roll pitch heading y)))).
Proof.
  intros s roll pitch heading m y Hdom Hlev.
  apply is_derive_ext with (f := lin nav_rhs_lat s_lat s m (lift s y));
    [intro u; symmetry; apply lin2_lin_lat; exact Hlev|].
  replace (s_lat (pdelta s (lift s (errdynR s roll pitch heading y))))
    with (s_lat (pdelta s (errdyn s roll pitch heading (lift s y)))); [apply row_lat; exact Hdom|].
  pose proof (errdyn_lift s roll pitch heading y) as (E0 & E1 & E3 & E4 & E6 & E7 & E8 & E2).
  unfold pdelta, errdyn, errdynR; cbn_all. rewrite ?E0, ?E1, ?E2, ?E3, ?E4, ?E6, ?E7, ?E8.
  unfold lift; cbn_all. unfold pd_lat, pd_lon, pd_alt, pd_v0, pd_v1, pd_v2. try reflexivity; ring.
Qed.
Lemma row2_lon : forall s roll pitch heading m y, dom s -> level s m ->
  is_derive (lin2 nav_rhs_lon s_lon s m y) 0 (s_lon (pdelta s (lift s (errdynR s roll pitch heading y)))).
Proof.
  intros s roll pitch heading m y Hdom Hlev.
  apply is_derive_ext with (f := lin nav_rhs_lon s_lon s m (lift s y));
    [intro u; symmetry; apply lin2_lin_lon; exact Hlev|].
  replace (s_lon (pdelta s (lift s (errdynR s roll pitch heading y))))
    with (s_lon (pdelta s (errdyn s roll pitch heading (lift s y)))); [apply row_lon; exact Hdom|].
  pose proof (errdyn_lift s roll pitch heading y) as (E0 & E1 & E3 & E4 & E6 & E7 & E8 & E2).
  unfold pdelta, errdyn, errdynR; cbn_all. rewrite ?E0, ?E1, ?E2, ?E3, ?E4, ?E6, ?E7, ?E8.
  unfold lift; cbn_all. unfold pd_lat, pd_lon, pd_alt, pd_v0, pd_v1, pd_v2. try reflexivity; ring.
Qed.
Lemma row2_alt : forall s roll pitch heading m y, dom s -> level s m ->
  is_derive (lin2 rhs_zero s_alt s m y) 0 (s_alt (pdelta s (lift s (errdynR s roll pitch heading y)))).
Proof.
  intros s roll pitch heading m y Hdom Hlev.
  apply is_derive_ext with (f := lin nav_rhs_alt s_alt s m (lift s y));
    [intro u; symmetry; apply lin2_lin_alt; exact Hlev|].
  replace (s_alt (pdelta s (lift s (errdynR s roll pitch heading y))))
    with (s_alt (pdelta s (errdyn s roll pitch heading (lift s y)))); [apply row_alt; exact Hdom|].
  pose proof (errdyn_lift s roll pitch heading y) as (E0 & E1 & E3 & E4 & E6 & E7 & E8 & E2).
  unfold pdelta, errdyn, errdynR; cbn_all. rewrite ?E0, ?E1, ?E2, ?E3, ?E4, ?E6, ?E7, ?E8.
  unfold lift; cbn_all. unfold pd_lat, pd_lon, pd_alt, pd_v0, pd_v1, pd_v2. try reflexivity; ring.
Qed.
Lemma row2_VN : forall s roll pitch heading m y, dom s -> level s m ->
  is_derive (lin2 nav_rhs_VN s_VN s m y) 0 (s_VN (pdelta s (lift s (errdynR s roll pitch heading y)))).
Proof.
  intros s roll pitch heading m y Hdom Hlev.
  apply is_derive_ext with (f := lin nav_rhs_VN s_VN s m (lift s y));
    [intro u; symmetry; apply lin2_lin_VN; exact Hlev|].
  replace (s_VN (pdelta s (lift s (errdynR s roll pitch heading y))))
    with (s_VN (pdelta s (errdyn s roll pitch heading (lift s y)))); [apply row_VN; exact Hdom|].
  pose proof (errdyn_lift s roll pitch heading y) as (E0 & E1 & E3 & E4 & E6 & E7 & E8 & E2).
  unfold pdelta, errdyn, errdynR; cbn_all. rewrite ?E0, ?E1, ?E2, ?E3, ?E4, ?E6, ?E7, ?E8.
  unfold lift; cbn_all. unfold pd_lat, pd_lon, pd_alt, pd_v0, pd_v1, pd_v2. try reflexivity; ring.
Qed.
Lemma row2_VE : forall s roll pitch heading m y, dom s -> level s m ->
  is_derive (lin2 nav_rhs_VE s_VE s m y) 0 (s_VE (pdelta s (lift s (errdynR s roll pitch heading y)))).
Proof.
  intros s roll pitch heading m y Hdom Hlev.
  apply is_derive_ext with (f := lin nav_rhs_VE s_VE s m (lift s y));
    [intro u; symmetry; apply lin2_lin_VE; exact Hlev|].
  replace (s_VE (pdelta s (lift s (errdynR s roll pitch heading y))))
    with (s_VE (pdelta s (errdyn s roll pitch heading (lift s y)))); [apply row_VE; exact Hdom|].
  pose proof (errdyn_lift s roll pitch heading y) as (E0 & E1 & E3 & E4 & E6 & E7 & E8 & E2).
  unfold pdelta, errdyn, errdynR; cbn_all. rewrite ?E0, ?E1, ?E2, ?E3, ?E4, ?E6, ?E7, ?E8.
  unfold lift; cbn_all. unfold pd_lat, pd_lon, pd_alt, pd_v0, pd_v1, pd_v2. try reflexivity; ring.
Qed.
Lemma row2_VD : forall s roll pitch heading m y, dom s -> level s m ->
  is_derive (lin2 rhs_zero s_VD s m y) 0 (s_VD (pdelta s (lift s (errdynR s roll pitch heading y)))).
Proof.
  intros s roll pitch heading m y Hdom [HVD Hlev].
  apply is_derive_ext with (f := fun _ : R => 0).
  - intro u. symmetry. apply lin2_VD_zero. exact HVD.
  - replace (s_VD (pdelta s (lift s (errdynR s roll pitch heading y)))) with 0; [apply @is_derive_const|].
    destruct s as [lat lon alt VN VE VD C00 C01 C02 C10 C11 C12 C20 C21 C22]. cbn [s_VD] in HVD. subst VD.
    unfold pdelta, lift; cbn_all. unfold pd_v2, cross2. ring.
Qed.
Lemma row2_C00 : forall s roll pitch heading m y, dom s -> level s m ->
  is_derive (lin2 nav_rhs_C00 s_C00 s m y) 0 (s_C00 (pdelta s (lift s (errdynR s roll pitch heading y)))).
Proof.
  intros s roll pitch heading m y Hdom Hlev.
  apply is_derive_ext with (f := lin nav_rhs_C00 s_C00 s m (lift s y));
    [intro u; symmetry; apply lin2_lin_C00; exact Hlev|].
  replace (s_C00 (pdelta s (lift s (errdynR s roll pitch heading y))))
    with (s_C00 (pdelta s (errdyn s roll pitch heading (lift s y)))); [apply row_C00; exact Hdom|].
  pose proof (errdyn_lift s roll pitch heading y) as (E0 & E1 & E3 & E4 & E6 & E7 & E8 & E2).
  unfold pdelta, errdyn, errdynR; cbn_all. rewrite ?E0, ?E1, ?E2, ?E3, ?E4, ?E6, ?E7, ?E8.
  unfold lift; cbn_all. unfold pd_lat, pd_lon, pd_alt, pd_v0, pd_v1, pd_v2. try reflexivity; ring.
Qed.
Lemma row2_C01 : forall s roll pitch heading m y, dom s -> level s m ->
  is_derive (lin2 nav_rhs_C01 s_C01 s m y) 0 (s_C01 (pdelta s (lift s (errdynR s roll pitch heading y)))).
Proof.
  intros s roll pitch heading m y Hdom Hlev.
  apply is_derive_ext with (f := lin nav_rhs_C01 s_C01 s m (lift s y));
    [intro u; symmetry; apply lin2_lin_C01; exact Hlev|].
  replace (s_C01 (pdelta s (lift s (errdynR s roll pitch heading y))))
    with (s_C01 (pdelta s (errdyn s roll pitch heading (lift s y)))); [apply row_C01; exact Hdom|].
  pose proof (errdyn_lift s roll pitch heading y) as (E0 & E1 & E3 & E4 & E6 & E7 & E8 & E2).
  unfold pdelta, errdyn, errdynR; cbn_all. rewrite ?E0, ?E1, ?E2, ?E3, ?E4, ?E6, ?E7, ?E8.
  unfold lift; cbn_all. unfold pd_lat, pd_lon, pd_alt, pd_v0, pd_v1, pd_v2. try reflexivity; ring.
Qed.
Lemma row2_C02 : forall s roll pitch heading m y, dom s -> level s m ->
  is_derive (lin2 nav_rhs_C02 s_C02 s m y) 0 (s_C02 (pdelta s (lift s (errdynR s roll pitch heading y)))).
Proof.
  intros s roll pitch heading m y Hdom Hlev.
  apply is_derive_ext with (f := lin nav_rhs_C02 s_C02 s m (lift s y));
    [intro u; symmetry; apply lin2_lin_C02; exact Hlev|].
  replace (s_C02 (pdelta s (lift s (errdynR s roll pitch heading y))))
    with (s_C02 (pdelta s (errdyn s roll pitch heading (lift s y)))); [apply row_C02; exact Hdom|].
  pose proof (errdyn_lift s roll pitch heading y) as (E0 & E1 & E3 & E4 & E6 & E7 & E8 & E2).
  unfold pdelta, errdyn, errdynR; cbn_all. rewrite ?E0, ?E1, ?E2, ?E3, ?E4, ?E6, ?E7, ?E8.
  unfold lift; cbn_all. unfold pd_lat, pd_lon, pd_alt, pd_v0, pd_v1, pd_v2. try reflexivity; ring.
Qed.
Lemma row2_C10 : forall s roll pitch heading m y, dom s -> level s m ->
  is_derive (lin2 nav_rhs_C10 s_C10 s m y) 0 (s_C10 (pdelta s (lift s (errdynR s roll pitch heading y)))).
Proof.
  intros s roll pitch heading m y Hdom Hlev.
  apply is_derive_ext with (f := lin nav_rhs_C10 s_C10 s m (lift s y));
    [intro u; symmetry; apply lin2_lin_C10; exact Hlev|].
  replace (s_C10 (pdelta s (lift s (errdynR s roll pitch heading y))))
    with (s_C10 (pdelta s (errdyn s roll pitch heading (lift s y)))); [apply row_C10; exact Hdom|].
  pose proof (errdyn_lift s roll pitch heading y) as (E0 & E1 & E3 & E4 & E6 & E7 & E8 & E2).
  unfold pdelta, errdyn, errdynR; cbn_all. rewrite ?E0, ?E1, ?E2, ?E3, ?E4, ?E6, ?E7, ?E8.
  unfold lift; cbn_all. unfold pd_lat, pd_lon, pd_alt, pd_v0, pd_v1, pd_v2. try reflexivity; ring.
Qed.
Lemma row2_C11 : forall s roll pitch heading m y, dom s -> level s m ->
  is_derive (lin2 nav_rhs_C11 s_C11 s m y) 0 (s_C11 (pdelta s (lift s (errdynR s roll pitch heading y)))).
Proof.
  intros s roll pitch heading m y Hdom Hlev.
  apply is_derive_ext with (f := lin nav_rhs_C11 s_C11 s m (lift s y));
    [intro u; symmetry; apply lin2_lin_C11; exact Hlev|].
  replace (s_C11 (pdelta s (lift s (errdynR s roll pitch heading y))))
    with (s_C11 (pdelta s (errdyn s roll pitch heading (lift s y)))); [apply row_C11; exact Hdom|].
  pose proof (errdyn_lift s roll pitch heading y) as (E0 & E1 & E3 & E4 & E6 & E7 & E8 & E2).
  unfold pdelta, errdyn, errdynR; cbn_all. rewrite ?E0, ?E1, ?E2, ?E3, ?E4, ?E6, ?E7, ?E8.
  unfold lift; cbn_all. unfold pd_lat, pd_lon, pd_alt, pd_v0, pd_v1, pd_v2. try reflexivity; ring.
Qed.
Lemma row2_C12 : forall s roll pitch heading m y, dom s -> level s m ->
  is_derive (lin2 nav_rhs_C12 s_C12 s m y) 0 (s_C12 (pdelta s (lift s (errdynR s roll pitch heading y)))).
Proof.
  intros s roll pitch heading m y Hdom Hlev.
  apply is_derive_ext with (f := lin nav_rhs_C12 s_C12 s m (lift s y));
    [intro u; symmetry; apply lin2_lin_C12; exact Hlev|].
  replace (s_C12 (pdelta s (lift s (errdynR s roll pitch heading y))))
    with (s_C12 (pdelta s (errdyn s roll pitch heading (lift s y)))); [apply row_C12; exact Hdom|].
  pose proof (errdyn_lift s roll pitch heading y) as (E0 & E1 & E3 & E4 & E6 & E7 & E8 & E2).
  unfold pdelta, errdyn, errdynR; cbn_all. rewrite ?E0, ?E1, ?E2, ?E3, ?E4, ?E6, ?E7, ?E8.
  unfold lift; cbn_all. unfold pd_lat, pd_lon, pd_alt, pd_v0, pd_v1, pd_v2. try reflexivity; ring.
Qed.
Lemma row2_C20 : forall s roll pitch heading m y, dom s -> level s m ->
  is_derive (lin2 nav_rhs_C20 s_C20 s m y) 0 (s_C20 (pdelta s (lift s (errdynR s roll pitch heading y)))).
Proof.
  intros s roll pitch heading m y Hdom Hlev.
  apply is_derive_ext with (f := lin nav_rhs_C20 s_C20 s m (lift s y));
    [intro u; symmetry; apply lin2_lin_C20; exact Hlev|].
  replace (s_C20 (pdelta s (lift s (errdynR s roll pitch heading y))))
    with (s_C20 (pdelta s (errdyn s roll pitch heading (lift s y)))); [apply row_C20; exact Hdom|].
  pose proof (errdyn_lift s roll pitch heading y) as (E0 & E1 & E3 & E4 & E6 & E7 & E8 & E2).
  unfold pdelta, errdyn, errdynR; cbn_all. rewrite ?E0, ?E1, ?E2, ?E3, ?E4, ?E6, ?E7, ?E8.
  unfold lift; cbn_all. unfold pd_lat, pd_lon, pd_alt, pd_v0, pd_v1, pd_v2. try reflexivity; ring.
Qed.
Lemma row2_C21 : forall s roll pitch heading m y, dom s -> level s m ->
  is_derive (lin2 nav_rhs_C21 s_C21 s m y) 0 (s_C21 (pdelta s (lift s (errdynR s roll pitch heading y)))).
Proof.
  intros s roll pitch heading m y Hdom Hlev.
  apply is_derive_ext with (f := lin nav_rhs_C21 s_C21 s m (lift s y));
    [intro u; symmetry; apply lin2_lin_C21; exact Hlev|].
  replace (s_C21 (pdelta s (lift s (errdynR s roll pitch heading y))))
    with (s_C21 (pdelta s (errdyn s roll pitch heading (lift s y)))); [apply row_C21; exact Hdom|].
  pose proof (errdyn_lift s roll pitch heading y) as (E0 & E1 & E3 & E4 & E6 & E7 & E8 & E2).
  unfold pdelta, errdyn, errdynR; cbn_all. rewrite ?E0, ?E1, ?E2, ?E3, ?E4, ?E6, ?E7, ?E8.
  unfold lift; cbn_all. unfold pd_lat, pd_lon, pd_alt, pd_v0, pd_v1, pd_v2. try reflexivity; ring.
Qed.
Lemma row2_C22 : forall s roll pitch heading m y, dom s -> level s m ->
  is_derive (lin2 nav_rhs_C22 s_C22 s m y) 0 (s_C22 (pdelta s (lift s (errdynR s roll pitch heading y)))).
Proof.
  intros s roll pitch heading m y Hdom Hlev.
  apply is_derive_ext with (f := lin nav_rhs_C22 s_C22 s m (lift s y));
    [intro u; symmetry; apply lin2_lin_C22; exact Hlev|].
  replace (s_C22 (pdelta s (lift s (errdynR s roll pitch heading y))))
    with (s_C22 (pdelta s (errdyn s roll pitch heading (lift s y)))); [apply row_C22; exact Hdom|].
  pose proof (errdyn_lift s roll pitch heading y) as (E0 & E1 & E3 & E4 & E6 & E7 & E8 & E2).
  unfold pdelta, errdyn, errdynR; cbn_all. rewrite ?E0, ?E1, ?E2, ?E3, ?E4, ?E6, ?E7, ?E8.
  unfold lift; cbn_all. unfold pd_lat, pd_lon, pd_alt, pd_v0, pd_v1, pd_v2. try reflexivity; ring.
Qed.

Lemma errdyn2d_is_linearisation : forall s roll pitch heading m y, dom s -> level s m ->
  is_derive (lin2 nav_rhs_lat s_lat s m y) 0 (s_lat (pdelta s (lift s (errdynR s roll pitch heading y)))) /\
  is_derive (lin2 nav_rhs_lon s_lon s m y) 0 (s_lon (pdelta s (lift s (errdynR s roll pitch heading y)))) /\
  is_derive (lin2 rhs_zero s_alt s m y) 0 (s_alt (pdelta s (lift s (errdynR s roll pitch heading y)))) /\
  is_derive (lin2 nav_rhs_VN s_VN s m y) 0 (s_VN (pdelta s (lift s (errdynR s roll pitch heading y)))) /\
  is_derive (lin2 nav_rhs_VE s_VE s m y) 0 (s_VE (pdelta s (lift s (errdynR s roll pitch heading y)))) /\
  is_derive (lin2 rhs_zero s_VD s m y) 0 (s_VD (pdelta s (lift s (errdynR s roll pitch heading y)))) /\
  is_derive (lin2 nav_rhs_C00 s_C00 s m y) 0 (s_C00 (pdelta s (lift s (errdynR s roll pitch heading y)))) /\
  is_derive (lin2 nav_rhs_C01 s_C01 s m y) 0 (s_C01 (pdelta s (lift s (errdynR s roll pitch heading y)))) /\
  is_derive (lin2 nav_rhs_C02 s_C02 s m y) 0 (s_C02 (pdelta s (lift s (errdynR s roll pitch heading y)))) /\
  is_derive (lin2 nav_rhs_C10 s_C10 s m y) 0 (s_C10 (pdelta s (lift s (errdynR s roll pitch heading y)))) /\
  is_derive (lin2 nav_rhs_C11 s_C11 s m y) 0 (s_C11 (pdelta s (lift s (errdynR s roll pitch heading y)))) /\
  is_derive (lin2 nav_rhs_C12 s_C12 s m y) 0 (s_C12 (pdelta s (lift s (errdynR s roll pitch heading y)))) /\
  is_derive (lin2 nav_rhs_C20 s_C20 s m y) 0 (s_C20 (pdelta s (lift s (errdynR s roll pitch heading y)))) /\
  is_derive (lin2 nav_rhs_C21 s_C21 s m y) 0 (s_C21 (pdelta s (lift s (errdynR s roll pitch heading y)))) /\
  is_derive (lin2 nav_rhs_C22 s_C22 s m y) 0 (s_C22 (pdelta s (lift s (errdynR s roll pitch heading y)))).
Proof.
  intros s roll pitch heading m y Hd Hl. splits.
  - apply row2_lat; assumption.
  - apply row2_lon; assumption.
  - apply row2_alt; assumption.
  - apply row2_VN; assumption.
  - apply row2_VE; assumption.
  - apply row2_VD; assumption.
  - apply row2_C00; assumption.
  - apply row2_C01; assumption.
  - apply row2_C02; assumption.
  - apply row2_C10; assumption.
  - apply row2_C11; assumption.
  - apply row2_C12; assumption.
  - apply row2_C20; assumption.
  - apply row2_C21; assumption.
  - apply row2_C22; assumption.
Qed.

(** the [level] hypothesis is necessary: at rest on the equator with zero specific force (free fall: f_D = 0, not -g)
    and a unit PHI2 error the 2D right-hand side does not move at all (derivative 0), while the model predicts the
    gravity-tilt rate g0(0) = GE_ for DV1 *)
Definition s_rest : nstate := mkS 0 0 0 0 0 0 1 0 0 0 1 0 0 0 1.
Definition m_fall : imu := mkI 0 0 0 0 0 0.
Definition y_phi2 : err7 := mkX7 0 0 0 0 0 1 0.

Lemma errdyn2d_nonlevel_refuted :
  dom s_rest /\ s_VD s_rest = 0 /\ ~ level s_rest m_fall /\
  is_derive (lin2 nav_rhs_VN s_VN s_rest m_fall y_phi2) 0 0 /\
  s_VN (pdelta s_rest (lift s_rest (errdynR s_rest 0 0 0 y_phi2))) = GE_ /\
  ~ is_derive (lin2 nav_rhs_VN s_VN s_rest m_fall y_phi2) 0
      (s_VN (pdelta s_rest (lift s_rest (errdynR s_rest 0 0 0 y_phi2)))).
Proof.
  assert (Hg : normal_gravity (0 * d2r) 0 = GE_).
  { unfold normal_gravity. rewrite Rmult_0_l, sin_0, !Rmult_0_r, Rminus_0_r, sqrt_1, Rplus_0_r.
    unfold A_. field. }
  assert (Hval : s_VN (pdelta s_rest (lift s_rest (errdynR s_rest 0 0 0 y_phi2))) = GE_).
  { unfold pdelta, lift, errdynR, errdynR2, errdynR5, errdynR6; cbv beta iota delta [s_lat s_lon s_alt s_VN s_VE s_VD s_C00 s_C01 s_C02 s_C10 s_C11 s_C12 s_C20 s_C21 s_C22 i_w0 i_w1 i_w2 i_f0 i_f1 i_f2 e0 e1 e2 e3 e4 e5 e6 e7 e8 y0 y1 y2 y3 y4 y5 y6]. rewrite modelR2_spec.
    unfold sm3, negl3, N30, N36, N37, N38, lift, s_rest, y_phi2, corD, corE, grav, pd_v0, cross0; cbv beta iota delta [s_lat s_lon s_alt s_VN s_VE s_VD s_C00 s_C01 s_C02 s_C10 s_C11 s_C12 s_C20 s_C21 s_C22 i_w0 i_w1 i_w2 i_f0 i_f1 i_f2 e0 e1 e2 e3 e4 e5 e6 e7 e8 y0 y1 y2 y3 y4 y5 y6].
    rewrite Hg. ring. }
  assert (Hder : is_derive (lin2 nav_rhs_VN s_VN s_rest m_fall y_phi2) 0 0).
  { assert (E : forall u : R, lin2 nav_rhs_VN s_VN s_rest m_fall y_phi2 u = 0);
      [|apply is_derive_ext with (f := fun _ : R => 0); [intro u; symmetry; apply E|apply @is_derive_const]].
    intro u. lazy beta iota delta [lin2 nav_field2 app pdelta lift sadd s_rest m_fall y_phi2 s_lat s_lon s_alt s_VN s_VE s_VD s_C00 s_C01 s_C02 s_C10 s_C11 s_C12 s_C20 s_C21 s_C22 i_w0 i_w1 i_w2 i_f0 i_f1 i_f2 e0 e1 e2 e3 e4 e5 e6 e7 e8 y0 y1 y2 y3 y4 y5 y6].
    unfold nav_rhs_VN at 1; unfold pd_v0, pd_v1, pd_v2, dot3, cross0, cross1, cross2.
    ring. }
  splits.
  - unfold dom, s_rest; cbv beta iota delta [s_lat s_lon s_alt s_VN s_VE s_VD s_C00 s_C01 s_C02 s_C10 s_C11 s_C12 s_C20 s_C21 s_C22 i_w0 i_w1 i_w2 i_f0 i_f1 i_f2 e0 e1 e2 e3 e4 e5 e6 e7 e8 y0 y1 y2 y3 y4 y5 y6]. lra.
  - reflexivity.
  - intros [_ H]. unfold app, s_rest, m_fall, nav_rhs_VD, dot3, cross2 in H; cbv beta iota delta [s_lat s_lon s_alt s_VN s_VE s_VD s_C00 s_C01 s_C02 s_C10 s_C11 s_C12 s_C20 s_C21 s_C22 i_w0 i_w1 i_w2 i_f0 i_f1 i_f2 e0 e1 e2 e3 e4 e5 e6 e7 e8 y0 y1 y2 y3 y4 y5 y6] in H.
    rewrite Hg in H. unfold GE_ in H. lra.
  - exact Hder.
  - exact Hval.
  - intro H. rewrite Hval in H.
    pose proof (is_derive_unique _ _ _ Hder) as E0. pose proof (is_derive_unique _ _ _ H) as E1.
    rewrite E0 in E1. unfold GE_ in E1. lra.
Qed.

