(** C18 (K part): proofs about Model/StateDiff.v. *)
From Coq Require Import List QArith Qfield Bool Arith Lia Psatz Permutation.
From Coq Require Import Reals Qreals.
From PV Require Import Spec.LibSpecs Gen.Util Model.StateDiff Proofs.To180Proofs.
Import ListNotations.
Open Scope Q_scope.

(* ------------------------------------------------------------------ *)
(** * Rational comparisons *)

Lemma Qltb_iff : forall x y, Qltb x y = true <-> x < y.
Proof.
  intros x y. unfold Qltb. rewrite negb_true_iff. split.
  - intro H. apply Qnot_le_lt. intro Hle. apply Qle_bool_iff in Hle. congruence.
  - intro H. destruct (Qle_bool y x) eqn:E; [| reflexivity].
    apply Qle_bool_iff in E. exfalso. exact (Qlt_not_le _ _ H E).
Qed.

Lemma Qltb_false_iff : forall x y, Qltb x y = false <-> y <= x.
Proof.
  intros x y. unfold Qltb. rewrite negb_false_iff. apply Qle_bool_iff.
Qed.

Lemma Qle_bool_false : forall x y, Qle_bool x y = false -> y < x.
Proof.
  intros x y H. apply Qnot_le_lt. intro Hle. apply Qle_bool_iff in Hle. congruence.
Qed.

(* ------------------------------------------------------------------ *)
(** * Sortedness predicates *)

(** strictly increasing *)
Fixpoint incr (l : list Q) : Prop :=
  match l with
  | [] => True
  | x :: l' => Forall (Qlt x) l' /\ incr l'
  end.

(** non-decreasing *)
Fixpoint sorted (l : list Q) : Prop :=
  match l with
  | [] => True
  | x :: l' => Forall (Qle x) l' /\ sorted l'
  end.

Lemma incr_sorted : forall l, incr l -> sorted l.
Proof.
  induction l as [| x l IH]; simpl; [trivial |].
  intros [H1 H2]. split; [| auto].
  eapply Forall_impl; [| exact H1]. intros y Hy. apply Qlt_le_weak. exact Hy.
Qed.

Lemma increasingb_incr : forall l, increasingb l = true -> incr l.
Proof.
  induction l as [| x l IH]; [simpl; trivial |].
  destruct l as [| y l'].
  - simpl. intros _. split; [constructor | trivial].
  - intro H. change (Qltb x y && increasingb (y :: l') = true) in H.
    apply andb_true_iff in H. destruct H as [Hxy Hrest].
    apply Qltb_iff in Hxy. specialize (IH Hrest).
    split; [| exact IH].
    destruct IH as [Hy _]. constructor; [exact Hxy |].
    eapply Forall_impl; [| exact Hy]. intros z Hz. eapply Qlt_trans; eassumption.
Qed.

Lemma incr_filter : forall p l, incr l -> incr (filter p l).
Proof.
  induction l as [| x l IH]; simpl; [trivial |].
  intros [H1 H2]. destruct (p x); simpl; [| auto].
  split; [| auto].
  apply Forall_forall. intros y Hy. apply filter_In in Hy. destruct Hy as [Hy _].
  rewrite Forall_forall in H1. auto.
Qed.

Lemma sorted_filter : forall p l, sorted l -> sorted (filter p l).
Proof.
  induction l as [| x l IH]; simpl; [trivial |].
  intros [H1 H2]. destruct (p x); simpl; [| auto].
  split; [| auto].
  apply Forall_forall. intros y Hy. apply filter_In in Hy. destruct Hy as [Hy _].
  rewrite Forall_forall in H1. auto.
Qed.

(* ------------------------------------------------------------------ *)
(** * np.sort as insertion sort *)

Lemma insert_perm : forall x l, Permutation (x :: l) (insert x l).
Proof.
  induction l as [| y l IH]; simpl; [apply Permutation_refl |].
  destruct (Qle_bool x y); [apply Permutation_refl |].
  eapply Permutation_trans; [apply perm_swap |]. apply perm_skip. exact IH.
Qed.

Lemma isort_perm : forall l, Permutation l (isort l).
Proof.
  induction l as [| x l IH]; simpl; [constructor |].
  eapply Permutation_trans; [| apply insert_perm]. apply perm_skip. exact IH.
Qed.

Lemma insert_sorted : forall x l, sorted l -> sorted (insert x l).
Proof.
  induction l as [| y l IH]; simpl.
  - intros _. split; [constructor | trivial].
  - intros [H1 H2]. destruct (Qle_bool x y) eqn:E.
    + apply Qle_bool_iff in E. simpl. split; [| split; assumption].
      constructor; [exact E |].
      eapply Forall_impl; [| exact H1]. intros z Hz. eapply Qle_trans; eassumption.
    + apply Qle_bool_false in E. simpl. split; [| auto].
      apply Forall_forall. intros z Hz.
      apply (Permutation_in _ (Permutation_sym (insert_perm x l))) in Hz.
      destruct Hz as [Hz | Hz].
      * subst z. apply Qlt_le_weak. exact E.
      * rewrite Forall_forall in H1. auto.
Qed.

Lemma isort_sorted : forall l, sorted (isort l).
Proof.
  induction l as [| x l IH]; simpl; [trivial |]. apply insert_sorted. exact IH.
Qed.

(** sorting an already sorted list changes nothing *)
Lemma isort_id : forall l, sorted l -> isort l = l.
Proof.
  induction l as [| x l IH]; simpl; [reflexivity |].
  intros [H1 H2]. rewrite (IH H2).
  destruct l as [| y l']; [reflexivity |]. simpl.
  inversion H1 as [| ? ? Hxy _]; subst.
  apply Qle_bool_iff in Hxy. rewrite Hxy. reflexivity.
Qed.

Lemma filter_perm : forall (p : Q -> bool) l l',
  Permutation l l' -> Permutation (filter p l) (filter p l').
Proof.
  intros p l l' H. induction H; simpl.
  - constructor.
  - destruct (p x); [apply perm_skip |]; assumption.
  - destruct (p x), (p y); try apply Permutation_refl. apply perm_swap.
  - eapply Permutation_trans; eassumption.
Qed.

Lemma filter_idem : forall (A : Type) (p : A -> bool) l, filter p (filter p l) = filter p l.
Proof.
  intros A p. induction l as [| x l IH]; simpl; [reflexivity |].
  destruct (p x) eqn:E; simpl; [rewrite E, IH; reflexivity | exact IH].
Qed.

Lemma filter_map_comm : forall (A B : Type) (g : A -> B) (p : B -> bool) l,
  filter p (map g l) = map g (filter (fun x => p (g x)) l).
Proof.
  intros A B g p. induction l as [| x l IH]; simpl; [reflexivity |].
  destruct (p (g x)); simpl; rewrite IH; reflexivity.
Qed.

(* ------------------------------------------------------------------ *)
(** * Label-based access *)

Lemma mem_In : forall c l, mem c l = true <-> In c l.
Proof.
  intros c l. unfold mem. rewrite existsb_exists. split.
  - intros [x [Hx E]]. apply Nat.eqb_eq in E. subst. exact Hx.
  - intro H. exists c. split; [exact H | apply Nat.eqb_refl].
Qed.

Lemma index_of_nth : forall c cs, In c cs -> nth (index_of c cs) cs 0%nat = c.
Proof.
  induction cs as [| x cs IH]; simpl; [tauto |].
  intro H. destruct (Nat.eqb c x) eqn:E.
  - apply Nat.eqb_eq in E. auto.
  - destruct H as [H | H]; [subst; rewrite Nat.eqb_refl in E; discriminate | auto].
Qed.

Lemma index_of_lt : forall c cs, In c cs -> (index_of c cs < length cs)%nat.
Proof.
  induction cs as [| x cs IH]; simpl; [tauto |].
  intro H. destruct (Nat.eqb c x) eqn:E; [lia |].
  destruct H as [H | H]; [subst; rewrite Nat.eqb_refl in E; discriminate |].
  specialize (IH H). lia.
Qed.

(** reading column c of a row that was built column by column *)
Lemma get_map : forall (A : Type) (d : A) (g : nat -> A) (C : list nat) (c : nat),
  In c C -> get d C (map g C) c = g c.
Proof.
  intros A d g C c H. unfold get.
  rewrite (nth_indep _ d (g 0%nat)) by (rewrite map_length; apply index_of_lt; exact H).
  rewrite map_nth. rewrite index_of_nth by exact H. reflexivity.
Qed.

Lemma index_of_nth_nodup : forall cs j, NoDup cs -> (j < length cs)%nat ->
  index_of (nth j cs 0%nat) cs = j.
Proof.
  induction cs as [| x cs IH]; simpl; [lia |].
  intros j Hnd Hj. inversion Hnd as [| ? ? Hx Hnd']; subst.
  destruct j as [| j].
  - rewrite Nat.eqb_refl. reflexivity.
  - destruct (Nat.eqb (nth j cs 0%nat) x) eqn:E.
    + apply Nat.eqb_eq in E. exfalso. apply Hx. rewrite <- E. apply nth_In. lia.
    + f_equal. apply IH; [assumption | lia].
Qed.

(** a row read back label by label is the row itself *)
Lemma map_get_id : forall (A : Type) (d : A) (cs : list nat) (r : list A),
  NoDup cs -> length r = length cs -> map (get d cs r) cs = r.
Proof.
  intros A d cs r Hnd Hlen.
  apply (nth_ext _ _ d d).
  - rewrite map_length. symmetry. exact Hlen.
  - intros j Hj. rewrite map_length in Hj.
    rewrite (nth_indep _ d (get d cs r 0%nat)) by (rewrite map_length; exact Hj).
    rewrite map_nth. unfold get. rewrite index_of_nth_nodup by assumption. reflexivity.
Qed.

Lemma mem_col_inter : forall c c1 c2, mem c (col_inter c1 c2) = mem c c1 && mem c c2.
Proof.
  intros c c1 c2. apply eq_true_iff_eq.
  rewrite andb_true_iff, !mem_In. unfold col_inter. rewrite filter_In, mem_In. tauto.
Qed.

Lemma has_all_col_inter : forall w c1 c2,
  has_all w (col_inter c1 c2) = has_all w c1 && has_all w c2.
Proof.
  intros w c1 c2. unfold has_all. induction w as [| x w IH]; simpl; [reflexivity |].
  rewrite IH, mem_col_inter.
  destruct (mem x c1), (mem x c2), (forallb (fun c => mem c c1) w),
    (forallb (fun c => mem c c2) w); reflexivity.
Qed.

Lemma has_all_mem : forall w cs c, has_all w cs = true -> In c w -> In c cs.
Proof.
  intros w cs c H Hc. unfold has_all in H. rewrite forallb_forall in H.
  apply mem_In. auto.
Qed.

Lemma col_inter_self : forall cs, col_inter cs cs = cs.
Proof.
  intro cs. unfold col_inter.
  assert (H : forall l, (forall c, In c l -> In c cs) -> filter (fun c => mem c cs) l = l).
  { induction l as [| x l IH]; simpl; [reflexivity |].
    intro Hin. assert (E : mem x cs = true) by (apply mem_In; auto).
    rewrite E, IH; auto. }
  apply H. auto.
Qed.

(* ------------------------------------------------------------------ *)
(** * The bracketing interval *)

Lemma locate_knot : forall rest lo t t0 r0,
  incr (map fst (lo :: rest)) -> fst lo < t -> In (t0, r0) rest -> t == t0 ->
  exists lo', locate t lo rest = (lo', (t0, r0)) /\ fst lo' < t0.
Proof.
  induction rest as [| hi rest' IH]; intros lo t t0 r0 Hinc Hlo Hin Ht; [inversion Hin |].
  simpl in Hinc. destruct Hinc as [Hlo_all [Hhi_all Hinc']].
  simpl. destruct (Qle_bool t (fst hi)) eqn:E.
  - apply Qle_bool_iff in E. destruct Hin as [Hin | Hin].
    + subst hi. exists lo. split; [reflexivity |]. rewrite <- Ht. exact Hlo.
    + exfalso. rewrite Forall_forall in Hhi_all.
      assert (Hlt : fst hi < t0) by (apply Hhi_all; change t0 with (fst (t0, r0)); apply in_map; exact Hin).
      rewrite Ht in E. exact (Qlt_not_le _ _ Hlt E).
  - apply Qle_bool_false in E. destruct Hin as [Hin | Hin].
    + exfalso. subst hi. simpl in E. rewrite Ht in E. exact (Qlt_irrefl _ E).
    + destruct rest' as [| h2 r2]; [inversion Hin |].
      apply IH; try assumption. simpl. split; assumption.
Qed.

Lemma last_indep : forall (A : Type) (l : list A) (d d' : A), l <> [] -> last l d = last l d'.
Proof.
  induction l as [| x l IH]; intros d d' H; [congruence |].
  destruct l as [| y l']; [reflexivity |].
  change (last (y :: l') d = last (y :: l') d'). apply IH. discriminate.
Qed.

(** general position: consecutive knots around t; the left one is strictly
    below t unless it is the first knot *)
Lemma locate_spec : forall rest lo t,
  rest <> [] -> incr (map fst (lo :: rest)) -> fst lo <= t -> t <= fst (last rest lo) ->
  exists pre post,
    lo :: rest = pre ++ fst (locate t lo rest) :: snd (locate t lo rest) :: post /\
    fst (fst (locate t lo rest)) <= t <= fst (snd (locate t lo rest)) /\
    (pre = [] \/ fst (fst (locate t lo rest)) < t).
Proof.
  induction rest as [| hi rest' IH]; intros lo t Hne Hinc Hlo Hlast; [congruence |].
  simpl in Hinc. destruct Hinc as [Hlo_all [Hhi_all Hinc']].
  simpl locate. destruct (Qle_bool t (fst hi)) eqn:E.
  - apply Qle_bool_iff in E. exists [], rest'. simpl. auto.
  - apply Qle_bool_false in E. destruct rest' as [| h2 r2].
    + simpl in Hlast. exfalso. exact (Qlt_not_le _ _ E Hlast).
    + cbv iota. destruct (IH hi t) as [pre [post [H1 [H2 H3]]]].
      * discriminate.
      * simpl. split; assumption.
      * apply Qlt_le_weak. exact E.
      * change (t <= fst (last (h2 :: r2) lo)) in Hlast.
        rewrite (last_indep _ (h2 :: r2) hi lo) by discriminate. exact Hlast.
      * exists (lo :: pre), post. split; [rewrite <- app_comm_cons, <- H1; reflexivity |].
        split; [exact H2 |]. right. destruct H3 as [H3 | H3]; [| exact H3].
        subst pre. cbn [app] in H1.
        assert (Hx : fst (locate t hi (h2 :: r2)) = hi) by congruence.
        rewrite Hx. exact E.
Qed.

(* ------------------------------------------------------------------ *)
(** * Linear interpolation *)

Lemma lerp_at_hi : forall t xlo xhi ylo yhi,
  xlo < xhi -> t == xhi -> lerp t xlo xhi ylo yhi == yhi.
Proof.
  intros t xlo xhi ylo yhi Hlt Ht. unfold lerp, w_hi, w_lo. rewrite Ht. field.
  intro H. apply (Qlt_irrefl xhi). lra.
Qed.

Lemma lerp_at_lo : forall t xlo xhi ylo yhi,
  xlo < xhi -> t == xlo -> lerp t xlo xhi ylo yhi == ylo.
Proof.
  intros t xlo xhi ylo yhi Hlt Ht. unfold lerp, w_hi, w_lo. rewrite Ht. field.
  intro H. apply (Qlt_irrefl xhi). lra.
Qed.

Lemma w_hi_at_hi : forall t xlo xhi, xlo < xhi -> t == xhi -> w_hi t xlo xhi == 1.
Proof.
  intros t xlo xhi Hlt Ht. unfold w_hi. rewrite Ht. field.
  intro H. apply (Qlt_irrefl xhi). lra.
Qed.

Lemma w_hi_at_lo : forall t xlo xhi, xlo < xhi -> t == xlo -> w_hi t xlo xhi == 0.
Proof.
  intros t xlo xhi Hlt Ht. unfold w_hi. rewrite Ht. field.
  intro H. apply (Qlt_irrefl xhi). lra.
Qed.

(** the interpolant is the straight line through the two bracketing knots *)
Lemma lerp_linear : forall t xlo xhi ylo yhi,
  xlo < xhi ->
  lerp t xlo xhi ylo yhi == ylo + (t - xlo) / (xhi - xlo) * (yhi - ylo).
Proof.
  intros t xlo xhi ylo yhi Hlt. unfold lerp, w_hi, w_lo. field.
  intro H. apply (Qlt_irrefl xhi). lra.
Qed.

(** between the knots' values (convex combination) *)
Lemma lerp_weights : forall t xlo xhi,
  xlo < xhi -> xlo <= t <= xhi ->
  0 <= w_hi t xlo xhi <= 1 /\ w_hi t xlo xhi + w_lo t xlo xhi == 1.
Proof.
  intros t xlo xhi Hlt [H1 H2]. unfold w_hi, w_lo.
  assert (Hd : 0 < xhi - xlo) by lra.
  split; [split |].
  - apply Qle_shift_div_l; [exact Hd | lra].
  - apply Qle_shift_div_r; [exact Hd | lra].
  - field. intro H. lra.
Qed.

(* ------------------------------------------------------------------ *)
(** * Spans *)

Lemma le_last : forall (l : list (Q * list Q)) x d,
  incr (map fst l) -> In x l -> fst x <= fst (last l d).
Proof.
  induction l as [| y l IH]; intros x d Hinc Hin; [inversion Hin |].
  simpl in Hinc. destruct Hinc as [Hy Hinc].
  destruct l as [| z l'].
  - destruct Hin as [Hin | []]. subst. simpl. apply Qle_refl.
  - change (fst x <= fst (last (z :: l') d)).
    destruct Hin as [Hin | Hin].
    + subst y. apply Qlt_le_weak. rewrite Forall_forall in Hy. apply Hy.
      apply in_map.
      rewrite (last_indep _ (z :: l') d z) by discriminate.
      destruct (exists_last (l := z :: l') ltac:(discriminate)) as [l0 [a E]].
      rewrite E. rewrite last_last. apply in_or_app. right. left. reflexivity.
    + apply IH; assumption.
Qed.

Lemma first_le : forall (t : table) x,
  incr (times t) -> In x (rows t) -> first_time t <= fst x.
Proof.
  intros t x Hinc Hin. unfold first_time, times in *.
  destruct (rows t) as [| y l]; [inversion Hin |].
  simpl in Hinc. destruct Hinc as [Hy _]. destruct Hin as [Hin | Hin].
  - subst. apply Qle_refl.
  - apply Qlt_le_weak. rewrite Forall_forall in Hy. apply Hy. apply in_map. exact Hin.
Qed.

Lemma in_span_iff : forall t x,
  in_span t x = true <-> first_time t <= x /\ x <= last_time t.
Proof.
  intros t x. unfold in_span. rewrite andb_true_iff, !Qle_bool_iff. tauto.
Qed.

(** every knot of a table lies in its span *)
Lemma knot_in_span : forall t x q,
  incr (times t) -> In x (rows t) -> q == fst x -> in_span t q = true.
Proof.
  intros t x q Hinc Hin Hq. apply in_span_iff. rewrite Hq. split.
  - apply first_le; assumption.
  - unfold last_time. apply le_last; assumption.
Qed.

Lemma times_select : forall C t, times (select C t) = times t.
Proof.
  intros C t. unfold times, select. simpl. rewrite map_map. reflexivity.
Qed.

Lemma first_time_select : forall C t, first_time (select C t) = first_time t.
Proof.
  intros C t. unfold first_time, select. simpl. destruct (rows t); reflexivity.
Qed.

Lemma fst_last_map : forall (g : Q * list Q -> Q * list Q),
  (forall x, fst (g x) = fst x) ->
  forall l d d', fst d = fst d' -> fst (last (map g l) d) = fst (last l d').
Proof.
  intros g Hg. induction l as [| x l IH]; intros d d' Hd; [exact Hd |].
  destruct l as [| y l'].
  - simpl. apply Hg.
  - change (fst (last (map g (y :: l')) d) = fst (last (y :: l') d')). apply IH. exact Hd.
Qed.

Lemma last_time_select : forall C t, last_time (select C t) = last_time t.
Proof.
  intros C t. unfold last_time, select. simpl.
  apply fst_last_map; [intro x; reflexivity | reflexivity].
Qed.

Lemma in_span_select : forall C t x, in_span (select C t) x = in_span t x.
Proof.
  intros C t x. unfold in_span. rewrite first_time_select, last_time_select. reflexivity.
Qed.

(* ------------------------------------------------------------------ *)
(** * Semantics of result cells over the reals *)

Definition tcomp (k : nat) (a : Q * Q * Q) : Q :=
  match k with
  | 0%nat => fst (fst a)
  | 1%nat => snd (fst a)
  | _ => snd a
  end.

Lemma tcomp_rph_of : forall cs r k, is_rph k = true -> tcomp k (rph_of cs r) = get 0 cs r k.
Proof.
  intros cs r k Hk. unfold is_rph, mem, rph_cols, c_roll, c_pitch, c_heading in Hk.
  destruct k as [| [| [| k]]]; try reflexivity. simpl in Hk. discriminate.
Qed.

Lemma Q2R_half : Q2R (1 # 2) = (/ 2)%R.
Proof. unfold Q2R. simpl. lra. Qed.

Lemma Q2R_one : Q2R 1 = 1%R.
Proof. unfold Q2R. simpl. lra. Qed.

Lemma Q2R_zero : Q2R 0 = 0%R.
Proof. unfold Q2R. simpl. lra. Qed.

Lemma Q2R_mone : Q2R (-1) = (-1)%R.
Proof. unfold Q2R. simpl. lra. Qed.

Section Semantics.
  (** Euler triple read back from an interpolated rotation, and scipy's
      from_euler -> Slerp -> as_euler composite on one interval *)
  Variable ang : Type.
  Variable slerp : Q * Q * Q -> Q * Q * Q -> Q -> ang.
  (** component k (0 roll, 1 pitch, 2 heading; degrees) of such a triple *)
  Variable comp : nat -> ang -> R.
  (** the rph triples that [as_euler] returns unchanged: roll and heading in
      (-180, 180], |pitch| < 90 *)
  Variable canon : Q * Q * Q -> Prop.
  (** [earth.principal_radii]: rn and rp as functions of (lat, alt) *)
  Variable rn rp : R -> R -> R.

  (** External behaviour of scipy (validated numerically by the harness to 1e-9 deg;
      in binary64 it holds only up to rounding ~1e-14 deg: known finding F1). *)
  Hypothesis slerp_start : forall a b s k,
    canon a -> s == 0 -> comp k (slerp a b s) = Q2R (tcomp k a).
  Hypothesis slerp_end : forall a b s k,
    canon b -> s == 1 -> comp k (slerp a b s) = Q2R (tcomp k b).

  Notation val := (val ang).
  Notation dval := (dval ang).
  Notation interp_cell := (interp_cell ang slerp).
  Notation interp_row := (interp_row ang slerp).
  Notation resample_state := (resample_state ang slerp).
  Notation diff_cell := (diff_cell ang).
  Notation diff_row := (diff_row ang).
  Notation diff_core := (diff_core ang slerp).
  Notation state_diff := (state_diff ang slerp).
  Notation series_diff := (series_diff ang).

  Definition valR (v : val) : R :=
    match v with VQ q => Q2R q | VA k a => comp k a end.

  (** [difference.lat *= rn * DEG_TO_RAD; difference.lon *= rp * DEG_TO_RAD;
      difference.alt *= -1] *)
  Definition metres (k : nat) (d mlat malt : R) : R :=
    if Nat.eqb k c_lat then (d * (rn mlat malt * (PI / 180)))%R
    else if Nat.eqb k c_lon then (d * (rp mlat malt * (PI / 180)))%R
    else (d * -1)%R.

  Definition dvalR (d : dval) : R :=
    match d with
    | DQ q => Q2R q
    | DA sg f s => to_180_range_arr_r (Q2R sg * (Q2R f - valR s))
    | DP k d mlat malt => metres k (Q2R d) (Q2R mlat) (Q2R malt)
    end.
  Definition is_angle (d : dval) : bool :=
    match d with DA _ _ _ => true | _ => false end.

  (** what a difference cell of column c is, as a function of the two rows'
      real values *)
  Definition ideal (sg : R) (lla rph : bool) (c : nat) (fv sv : nat -> R) : R :=
    if rph && is_rph c then to_180_range_arr_r (sg * (fv c - sv c))
    else if lla && is_lla c
         then metres c (sg * (fv c - sv c)) ((fv c_lat + sv c_lat) / 2) ((fv c_alt + sv c_alt) / 2)
         else (sg * (fv c - sv c))%R.

  Definition well_formed (t : table) : Prop :=
    (2 <= length (rows t))%nat /\ incr (times t).
  Definition canon_table (t : table) : Prop :=
    has_all rph_cols (cols t) = true ->
    forall r, In r (rows t) -> canon (rph_of (cols t) (snd r)).

  Lemma wf_table_well_formed : forall t, wf_table t = true -> well_formed t.
  Proof.
    intros t H. unfold wf_table in H. rewrite !andb_true_iff in H.
    destruct H as [[H1 H2] _]. split.
    - apply Nat.leb_le. exact H1.
    - apply increasingb_incr. exact H2.
  Qed.

  (* ---------------------------------------------------------------- *)
  (** ** Interpolation at a knot returns the knot *)

  Lemma bracket_knot : forall rs t t0 r0,
    (2 <= length rs)%nat -> incr (map fst rs) -> In (t0, r0) rs -> t == t0 ->
    exists lo hi, bracket rs t = (lo, hi) /\ fst lo < fst hi /\
      ((lo = (t0, r0) /\ t == fst lo) \/ (hi = (t0, r0) /\ t == fst hi)).
  Proof.
    intros rs t t0 r0 Hlen Hinc Hin Ht.
    destruct rs as [| first rest]; [inversion Hin |].
    destruct rest as [| h1 rest']; [simpl in Hlen; lia |].
    unfold bracket. destruct Hin as [Hin | Hin].
    - subst first. simpl in Hinc. destruct Hinc as [Hf _].
      inversion Hf as [| ? ? Hlt _]; subst. simpl in Hlt.
      simpl. assert (E : Qle_bool t (fst h1) = true).
      { apply Qle_bool_iff. rewrite Ht. apply Qlt_le_weak. exact Hlt. }
      rewrite E. exists (t0, r0), h1. split; [reflexivity |]. split; [exact Hlt |].
      left. split; [reflexivity | exact Ht].
    - assert (Hlt : fst first < t).
      { simpl in Hinc. destruct Hinc as [Hf _]. rewrite Forall_forall in Hf.
        rewrite Ht. apply Hf. change t0 with (fst (t0, r0)).
        change (fst h1 :: map fst rest') with (map fst (h1 :: rest')). apply in_map. exact Hin. }
      destruct (locate_knot (h1 :: rest') first t t0 r0 Hinc Hlt Hin Ht) as [lo' [E Hlo']].
      exists lo', (t0, r0). split; [exact E |]. split; [exact Hlo' |].
      right. split; [reflexivity | exact Ht].
  Qed.

  Lemma interp_cell_knot : forall cs rph t lo hi t0 r0 c,
    fst lo < fst hi ->
    ((lo = (t0, r0) /\ t == fst lo) \/ (hi = (t0, r0) /\ t == fst hi)) ->
    (rph = true -> canon (rph_of cs r0)) ->
    valR (interp_cell cs rph t lo hi c) = Q2R (get 0 cs r0 c) /\
    (rph && is_rph c = false ->
       exists q, interp_cell cs rph t lo hi c = VQ q /\ q == get 0 cs r0 c).
  Proof.
    intros cs rph t lo hi t0 r0 c Hlt Hcase Hcanon.
    unfold Model.StateDiff.interp_cell.
    destruct (rph && is_rph c) eqn:Eflag.
    - apply andb_true_iff in Eflag. destruct Eflag as [Hrph Hc]. split; [| discriminate].
      simpl. destruct Hcase as [[E Ht] | [E Ht]]; subst.
      + rewrite slerp_start; [| auto | apply w_hi_at_lo; assumption].
        simpl. rewrite tcomp_rph_of by exact Hc. reflexivity.
      + rewrite slerp_end; [| auto | apply w_hi_at_hi; assumption].
        simpl. rewrite tcomp_rph_of by exact Hc. reflexivity.
    - assert (Hq : lerp t (fst lo) (fst hi) (get 0 cs (snd lo) c) (get 0 cs (snd hi) c)
                   == get 0 cs r0 c).
      { destruct Hcase as [[E Ht] | [E Ht]]; subst; simpl.
        - apply lerp_at_lo; assumption.
        - apply lerp_at_hi; assumption. }
      split.
      + simpl. apply Qeq_eqR. exact Hq.
      + intros _. eexists. split; [reflexivity | exact Hq].
  Qed.
