(** C18 (K part): proofs about Model/StateDiff.v. *)
From Coq Require Import List QArith Qfield Bool Arith Lia Psatz Permutation.
From Coq Require Import Reals Qreals.
From PV Require Import Spec.LibSpecs Gen.Util Model.StateDiff Proofs.To180Proofs.
Import ListNotations.
Open Scope Q_scope.

(* ------------------------------------------------------------------ *)
(** * Rational comparisons *)

Lemma Qltb_iff : forall x y, Qltb x y = true <-> x < y.
Proof.
  intros x y. unfold Qltb. rewrite negb_true_iff. split.
  - intro H. apply Qnot_le_lt. intro Hle. apply Qle_bool_iff in Hle. congruence.
  - intro H. destruct (Qle_bool y x) eqn:E; [| reflexivity].
    apply Qle_bool_iff in E. exfalso. exact (Qlt_not_le _ _ H E).
Qed.

Lemma Qltb_false_iff : forall x y, Qltb x y = false <-> y <= x.
Proof.
  intros x y. unfold Qltb. rewrite negb_false_iff. apply Qle_bool_iff.
Qed.

Lemma Qle_bool_false : forall x y, Qle_bool x y = false -> y < x.
Proof.
  intros x y H. apply Qnot_le_lt. intro Hle. apply Qle_bool_iff in Hle. congruence.
Qed.

(* ------------------------------------------------------------------ *)
(** * Sortedness predicates *)

(** strictly increasing *)
Fixpoint incr (l : list Q) : Prop :=
  match l with
  | [] => True
  | x :: l' => Forall (Qlt x) l' /\ incr l'
  end.

(** non-decreasing *)
Fixpoint sorted (l : list Q) : Prop :=
  match l with
  | [] => True
  | x :: l' => Forall (Qle x) l' /\ sorted l'
  end.

Lemma incr_sorted : forall l, incr l -> sorted l.
Proof.
  induction l as [| x l IH]; simpl; [trivial |].
  intros [H1 H2]. split; [| auto].
  eapply Forall_impl; [| exact H1]. intros y Hy. apply Qlt_le_weak. exact Hy.
Qed.

Lemma increasingb_incr : forall l, increasingb l = true -> incr l.
Proof.
  induction l as [| x l IH]; [simpl; trivial |].
  destruct l as [| y l'].
  - simpl. intros _. split; [constructor | trivial].
  - intro H. change (Qltb x y && increasingb (y :: l') = true) in H.
    apply andb_true_iff in H. destruct H as [Hxy Hrest].
    apply Qltb_iff in Hxy. specialize (IH Hrest).
    split; [| exact IH].
    destruct IH as [Hy _]. constructor; [exact Hxy |].
    eapply Forall_impl; [| exact Hy]. intros z Hz. eapply Qlt_trans; eassumption.
Qed.

Lemma incr_filter : forall p l, incr l -> incr (filter p l).
Proof.
  induction l as [| x l IH]; simpl; [trivial |].
  intros [H1 H2]. destruct (p x); simpl; [| auto].
  split; [| auto].
  apply Forall_forall. intros y Hy. apply filter_In in Hy. destruct Hy as [Hy _].
  rewrite Forall_forall in H1. auto.
Qed.

Lemma sorted_filter : forall p l, sorted l -> sorted (filter p l).
Proof.
  induction l as [| x l IH]; simpl; [trivial |].
  intros [H1 H2]. destruct (p x); simpl; [| auto].
  split; [| auto].
  apply Forall_forall. intros y Hy. apply filter_In in Hy. destruct Hy as [Hy _].
  rewrite Forall_forall in H1. auto.
Qed.

(* ------------------------------------------------------------------ *)
(** * np.sort as insertion sort *)

Lemma insert_perm : forall x l, Permutation (x :: l) (insert x l).
Proof.
  induction l as [| y l IH]; simpl; [apply Permutation_refl |].
  destruct (Qle_bool x y); [apply Permutation_refl |].
  eapply Permutation_trans; [apply perm_swap |]. apply perm_skip. exact IH.
Qed.

Lemma isort_perm : forall l, Permutation l (isort l).
Proof.
  induction l as [| x l IH]; simpl; [constructor |].
  eapply Permutation_trans; [| apply insert_perm]. apply perm_skip. exact IH.
Qed.

Lemma insert_sorted : forall x l, sorted l -> sorted (insert x l).
Proof.
  induction l as [| y l IH]; simpl.
  - intros _. split; [constructor | trivial].
  - intros [H1 H2]. destruct (Qle_bool x y) eqn:E.
    + apply Qle_bool_iff in E. simpl. split; [| split; assumption].
      constructor; [exact E |].
      eapply Forall_impl; [| exact H1]. intros z Hz. eapply Qle_trans; eassumption.
    + apply Qle_bool_false in E. simpl. split; [| auto].
      apply Forall_forall. intros z Hz.
      apply (Permutation_in _ (Permutation_sym (insert_perm x l))) in Hz.
      destruct Hz as [Hz | Hz].
      * subst z. apply Qlt_le_weak. exact E.
      * rewrite Forall_forall in H1. auto.
Qed.

Lemma isort_sorted : forall l, sorted (isort l).
Proof.
  induction l as [| x l IH]; simpl; [trivial |]. apply insert_sorted. exact IH.
Qed.

(** sorting an already sorted list changes nothing *)
Lemma isort_id : forall l, sorted l -> isort l = l.
Proof.
  induction l as [| x l IH]; simpl; [reflexivity |].
  intros [H1 H2]. rewrite (IH H2).
  destruct l as [| y l']; [reflexivity |]. simpl.
  inversion H1 as [| ? ? Hxy _]; subst.
  apply Qle_bool_iff in Hxy. rewrite Hxy. reflexivity.
Qed.

Lemma filter_perm : forall (p : Q -> bool) l l',
  Permutation l l' -> Permutation (filter p l) (filter p l').
Proof.
  intros p l l' H. induction H; simpl.
  - constructor.
  - destruct (p x); [apply perm_skip |]; assumption.
  - destruct (p x), (p y); try apply Permutation_refl. apply perm_swap.
  - eapply Permutation_trans; eassumption.
Qed.

Lemma filter_idem : forall (A : Type) (p : A -> bool) l, filter p (filter p l) = filter p l.
Proof.
  intros A p. induction l as [| x l IH]; simpl; [reflexivity |].
  destruct (p x) eqn:E; simpl; [rewrite E, IH; reflexivity | exact IH].
Qed.

Lemma filter_map_comm : forall (A B : Type) (g : A -> B) (p : B -> bool) l,
  filter p (map g l) = map g (filter (fun x => p (g x)) l).
Proof.
  intros A B g p. induction l as [| x l IH]; simpl; [reflexivity |].
  destruct (p (g x)); simpl; rewrite IH; reflexivity.
Qed.

(* ------------------------------------------------------------------ *)
(** * Label-based access *)

Lemma mem_In : forall c l, mem c l = true <-> In c l.
Proof.
  intros c l. unfold mem. rewrite existsb_exists. split.
  - intros [x [Hx E]]. apply Nat.eqb_eq in E. subst. exact Hx.
  - intro H. exists c. split; [exact H | apply Nat.eqb_refl].
Qed.

Lemma index_of_nth : forall c cs, In c cs -> nth (index_of c cs) cs 0%nat = c.
Proof.
  induction cs as [| x cs IH]; simpl; [tauto |].
  intro H. destruct (Nat.eqb c x) eqn:E.
  - apply Nat.eqb_eq in E. auto.
  - destruct H as [H | H]; [subst; rewrite Nat.eqb_refl in E; discriminate | auto].
Qed.

Lemma index_of_lt : forall c cs, In c cs -> (index_of c cs < length cs)%nat.
Proof.
  induction cs as [| x cs IH]; simpl; [tauto |].
  intro H. destruct (Nat.eqb c x) eqn:E; [lia |].
  destruct H as [H | H]; [subst; rewrite Nat.eqb_refl in E; discriminate |].
  specialize (IH H). lia.
Qed.

(** reading column c of a row that was built column by column *)
Lemma get_map : forall (A : Type) (d : A) (g : nat -> A) (C : list nat) (c : nat),
  In c C -> get d C (map g C) c = g c.
Proof.
  intros A d g C c H. unfold get.
  rewrite (nth_indep _ d (g 0%nat)) by (rewrite map_length; apply index_of_lt; exact H).
  rewrite map_nth. rewrite index_of_nth by exact H. reflexivity.
Qed.

Lemma index_of_nth_nodup : forall cs j, NoDup cs -> (j < length cs)%nat ->
  index_of (nth j cs 0%nat) cs = j.
Proof.
  induction cs as [| x cs IH]; simpl; [lia |].
  intros j Hnd Hj. inversion Hnd as [| ? ? Hx Hnd']; subst.
  destruct j as [| j].
  - rewrite Nat.eqb_refl. reflexivity.
  - destruct (Nat.eqb (nth j cs 0%nat) x) eqn:E.
    + apply Nat.eqb_eq in E. exfalso. apply Hx. rewrite <- E. apply nth_In. lia.
    + f_equal. apply IH; [assumption | lia].
Qed.

(** a row read back label by label is the row itself *)
Lemma map_get_id : forall (A : Type) (d : A) (cs : list nat) (r : list A),
  NoDup cs -> length r = length cs -> map (get d cs r) cs = r.
Proof.
  intros A d cs r Hnd Hlen.
  apply (nth_ext _ _ d d).
  - rewrite map_length. symmetry. exact Hlen.
  - intros j Hj. rewrite map_length in Hj.
    rewrite (nth_indep _ d (get d cs r 0%nat)) by (rewrite map_length; exact Hj).
    rewrite map_nth. unfold get. rewrite index_of_nth_nodup by assumption. reflexivity.
Qed.

Lemma mem_col_inter : forall c c1 c2, mem c (col_inter c1 c2) = mem c c1 && mem c c2.
Proof.
  intros c c1 c2. apply eq_true_iff_eq.
  rewrite andb_true_iff, !mem_In. unfold col_inter. rewrite filter_In, mem_In. tauto.
Qed.

Lemma has_all_col_inter : forall w c1 c2,
  has_all w (col_inter c1 c2) = has_all w c1 && has_all w c2.
Proof.
  intros w c1 c2. unfold has_all. induction w as [| x w IH]; simpl; [reflexivity |].
  rewrite IH, mem_col_inter.
  destruct (mem x c1), (mem x c2), (forallb (fun c => mem c c1) w),
    (forallb (fun c => mem c c2) w); reflexivity.
Qed.

Lemma has_all_mem : forall w cs c, has_all w cs = true -> In c w -> In c cs.
Proof.
  intros w cs c H Hc. unfold has_all in H. rewrite forallb_forall in H.
  apply mem_In. auto.
Qed.

Lemma col_inter_self : forall cs, col_inter cs cs = cs.
Proof.
  intro cs. unfold col_inter.
  assert (H : forall l, (forall c, In c l -> In c cs) -> filter (fun c => mem c cs) l = l).
  { induction l as [| x l IH]; simpl; [reflexivity |].
    intro Hin. assert (E : mem x cs = true) by (apply mem_In; auto).
    rewrite E, IH; auto. }
  apply H. auto.
Qed.

(* ------------------------------------------------------------------ *)
(** * The bracketing interval *)

Lemma locate_knot : forall rest lo t t0 r0,
  incr (map fst (lo :: rest)) -> fst lo < t -> In (t0, r0) rest -> t == t0 ->
  exists lo', locate t lo rest = (lo', (t0, r0)) /\ fst lo' < t0.
Proof.
  induction rest as [| hi rest' IH]; intros lo t t0 r0 Hinc Hlo Hin Ht; [inversion Hin |].
  simpl in Hinc. destruct Hinc as [Hlo_all [Hhi_all Hinc']].
  simpl. destruct (Qle_bool t (fst hi)) eqn:E.
  - apply Qle_bool_iff in E. destruct Hin as [Hin | Hin].
    + subst hi. exists lo. split; [reflexivity |]. rewrite <- Ht. exact Hlo.
    + exfalso. rewrite Forall_forall in Hhi_all.
      assert (Hlt : fst hi < t0) by (apply Hhi_all; change t0 with (fst (t0, r0)); apply in_map; exact Hin).
      rewrite Ht in E. exact (Qlt_not_le _ _ Hlt E).
  - apply Qle_bool_false in E. destruct Hin as [Hin | Hin].
    + exfalso. subst hi. simpl in E. rewrite Ht in E. exact (Qlt_irrefl _ E).
    + destruct rest' as [| h2 r2]; [inversion Hin |].
      apply IH; try assumption. simpl. split; assumption.
Qed.

Lemma last_indep : forall (A : Type) (l : list A) (d d' : A), l <> [] -> last l d = last l d'.
Proof.
  induction l as [| x l IH]; intros d d' H; [congruence |].
  destruct l as [| y l']; [reflexivity |].
  change (last (y :: l') d = last (y :: l') d'). apply IH. discriminate.
Qed.

(** general position: consecutive knots around t; the left one is strictly
    below t unless it is the first knot *)
Lemma locate_spec : forall rest lo t,
  rest <> [] -> incr (map fst (lo :: rest)) -> fst lo <= t -> t <= fst (last rest lo) ->
  exists pre post,
    lo :: rest = pre ++ fst (locate t lo rest) :: snd (locate t lo rest) :: post /\
    fst (fst (locate t lo rest)) <= t <= fst (snd (locate t lo rest)) /\
    (pre = [] \/ fst (fst (locate t lo rest)) < t).
Proof.
  induction rest as [| hi rest' IH]; intros lo t Hne Hinc Hlo Hlast; [congruence |].
  simpl in Hinc. destruct Hinc as [Hlo_all [Hhi_all Hinc']].
  simpl locate. destruct (Qle_bool t (fst hi)) eqn:E.
  - apply Qle_bool_iff in E. exists [], rest'. simpl. auto.
  - apply Qle_bool_false in E. destruct rest' as [| h2 r2].
    + simpl in Hlast. exfalso. exact (Qlt_not_le _ _ E Hlast).
    + cbv iota. destruct (IH hi t) as [pre [post [H1 [H2 H3]]]].
      * discriminate.
      * simpl. split; assumption.
      * apply Qlt_le_weak. exact E.
      * change (t <= fst (last (h2 :: r2) lo)) in Hlast.
        rewrite (last_indep _ (h2 :: r2) hi lo) by discriminate. exact Hlast.
      * exists (lo :: pre), post. split; [rewrite <- app_comm_cons, <- H1; reflexivity |].
        split; [exact H2 |]. right. destruct H3 as [H3 | H3]; [| exact H3].
        subst pre. cbn [app] in H1.
        assert (Hx : fst (locate t hi (h2 :: r2)) = hi) by congruence.
        rewrite Hx. exact E.
Qed.

(* ------------------------------------------------------------------ *)
(** * Linear interpolation *)

Lemma lerp_at_hi : forall t xlo xhi ylo yhi,
  xlo < xhi -> t == xhi -> lerp t xlo xhi ylo yhi == yhi.
Proof.
  intros t xlo xhi ylo yhi Hlt Ht. unfold lerp, w_hi, w_lo. rewrite Ht. field.
  intro H. apply (Qlt_irrefl xhi). lra.
Qed.

Lemma lerp_at_lo : forall t xlo xhi ylo yhi,
  xlo < xhi -> t == xlo -> lerp t xlo xhi ylo yhi == ylo.
Proof.
  intros t xlo xhi ylo yhi Hlt Ht. unfold lerp, w_hi, w_lo. rewrite Ht. field.
  intro H. apply (Qlt_irrefl xhi). lra.
Qed.

Lemma w_hi_at_hi : forall t xlo xhi, xlo < xhi -> t == xhi -> w_hi t xlo xhi == 1.
Proof.
  intros t xlo xhi Hlt Ht. unfold w_hi. rewrite Ht. field.
  intro H. apply (Qlt_irrefl xhi). lra.
Qed.

Lemma w_hi_at_lo : forall t xlo xhi, xlo < xhi -> t == xlo -> w_hi t xlo xhi == 0.
Proof.
  intros t xlo xhi Hlt Ht. unfold w_hi. rewrite Ht. field.
  intro H. apply (Qlt_irrefl xhi). lra.
Qed.

(** the interpolant is the straight line through the two bracketing knots *)
Lemma lerp_linear : forall t xlo xhi ylo yhi,
  xlo < xhi ->
  lerp t xlo xhi ylo yhi == ylo + (t - xlo) / (xhi - xlo) * (yhi - ylo).
Proof.
  intros t xlo xhi ylo yhi Hlt. unfold lerp, w_hi, w_lo. field.
  intro H. apply (Qlt_irrefl xhi). lra.
Qed.

(** between the knots' values (convex combination) *)
Lemma lerp_weights : forall t xlo xhi,
  xlo < xhi -> xlo <= t <= xhi ->
  0 <= w_hi t xlo xhi <= 1 /\ w_hi t xlo xhi + w_lo t xlo xhi == 1.
Proof.
  intros t xlo xhi Hlt [H1 H2]. unfold w_hi, w_lo.
  assert (Hd : 0 < xhi - xlo) by lra.
  split; [split |].
  - apply Qle_shift_div_l; [exact Hd | lra].
  - apply Qle_shift_div_r; [exact Hd | lra].
  - field. intro H. lra.
Qed.

(* ------------------------------------------------------------------ *)
(** * Spans *)

Lemma le_last : forall (l : list (Q * list Q)) x d,
  incr (map fst l) -> In x l -> fst x <= fst (last l d).
Proof.
  induction l as [| y l IH]; intros x d Hinc Hin; [inversion Hin |].
  simpl in Hinc. destruct Hinc as [Hy Hinc].
  destruct l as [| z l'].
  - destruct Hin as [Hin | []]. subst. simpl. apply Qle_refl.
  - change (fst x <= fst (last (z :: l') d)).
    destruct Hin as [Hin | Hin].
    + subst y. apply Qlt_le_weak. rewrite Forall_forall in Hy. apply Hy.
      apply in_map.
      rewrite (last_indep _ (z :: l') d z) by discriminate.
      destruct (exists_last (l := z :: l') ltac:(discriminate)) as [l0 [a E]].
      rewrite E. rewrite last_last. apply in_or_app. right. left. reflexivity.
    + apply IH; assumption.
Qed.

Lemma first_le : forall (t : table) x,
  incr (times t) -> In x (rows t) -> first_time t <= fst x.
Proof.
  intros t x Hinc Hin. unfold first_time, times in *.
  destruct (rows t) as [| y l]; [inversion Hin |].
  simpl in Hinc. destruct Hinc as [Hy _]. destruct Hin as [Hin | Hin].
  - subst. apply Qle_refl.
  - apply Qlt_le_weak. rewrite Forall_forall in Hy. apply Hy. apply in_map. exact Hin.
Qed.

Lemma in_span_iff : forall t x,
  in_span t x = true <-> first_time t <= x /\ x <= last_time t.
Proof.
  intros t x. unfold in_span. rewrite andb_true_iff, !Qle_bool_iff. tauto.
Qed.

(** every knot of a table lies in its span *)
Lemma knot_in_span : forall t x q,
  incr (times t) -> In x (rows t) -> q == fst x -> in_span t q = true.
Proof.
  intros t x q Hinc Hin Hq. apply in_span_iff. rewrite Hq. split.
  - apply first_le; assumption.
  - unfold last_time. apply le_last; assumption.
Qed.

Lemma times_select : forall C t, times (select C t) = times t.
Proof.
  intros C t. unfold times, select. simpl. rewrite map_map. reflexivity.
Qed.

Lemma first_time_select : forall C t, first_time (select C t) = first_time t.
Proof.
  intros C t. unfold first_time, select. simpl. destruct (rows t); reflexivity.
Qed.

Lemma fst_last_map : forall (g : Q * list Q -> Q * list Q),
  (forall x, fst (g x) = fst x) ->
  forall l d d', fst d = fst d' -> fst (last (map g l) d) = fst (last l d').
Proof.
  intros g Hg. induction l as [| x l IH]; intros d d' Hd; [exact Hd |].
  destruct l as [| y l'].
  - simpl. apply Hg.
  - change (fst (last (map g (y :: l')) d) = fst (last (y :: l') d')). apply IH. exact Hd.
Qed.

Lemma last_time_select : forall C t, last_time (select C t) = last_time t.
Proof.
  intros C t. unfold last_time, select. simpl.
  apply fst_last_map; [intro x; reflexivity | reflexivity].
Qed.

Lemma in_span_select : forall C t x, in_span (select C t) x = in_span t x.
Proof.
  intros C t x. unfold in_span. rewrite first_time_select, last_time_select. reflexivity.
Qed.

(* ------------------------------------------------------------------ *)
(** * Semantics of result cells over the reals *)

Definition tcomp (k : nat) (a : Q * Q * Q) : Q :=
  match k with
  | 0%nat => fst (fst a)
  | 1%nat => snd (fst a)
  | _ => snd a
  end.

Lemma tcomp_rph_of : forall cs r k, is_rph k = true -> tcomp k (rph_of cs r) = get 0 cs r k.
Proof.
  intros cs r k Hk. unfold is_rph, mem, rph_cols, c_roll, c_pitch, c_heading in Hk.
  destruct k as [| [| [| k]]]; try reflexivity. simpl in Hk. discriminate.
Qed.

Lemma Q2R_half : Q2R (1 # 2) = (/ 2)%R.
Proof. unfold Q2R. simpl. lra. Qed.

Lemma Q2R_one : Q2R 1 = 1%R.
Proof. unfold Q2R. simpl. lra. Qed.

Lemma Q2R_zero : Q2R 0 = 0%R.
Proof. unfold Q2R. simpl. lra. Qed.

Lemma Q2R_mone : Q2R (-1) = (-1)%R.
Proof. unfold Q2R. simpl. lra. Qed.

Section Semantics.
  (** Euler triple read back from an interpolated rotation, and scipy's
      from_euler -> Slerp -> as_euler composite on one interval *)
  Variable ang : Type.
  Variable slerp : Q * Q * Q -> Q * Q * Q -> Q -> ang.
  (** component k (0 roll, 1 pitch, 2 heading; degrees) of such a triple *)
  Variable comp : nat -> ang -> R.
  (** the rph triples that [as_euler] returns unchanged: roll and heading in
      (-180, 180], |pitch| < 90 *)
  Variable canon : Q * Q * Q -> Prop.
  (** [earth.principal_radii]: rn and rp as functions of (lat, alt) *)
  Variable rn rp : R -> R -> R.

  (** External behaviour of scipy (validated numerically by the harness to 1e-9 deg;
      in binary64 it holds only up to rounding ~1e-14 deg: known finding F1). *)
  Hypothesis slerp_start : forall a b s k,
    canon a -> s == 0 -> comp k (slerp a b s) = Q2R (tcomp k a).
  Hypothesis slerp_end : forall a b s k,
    canon b -> s == 1 -> comp k (slerp a b s) = Q2R (tcomp k b).

  Notation val := (val ang).
  Notation dval := (dval ang).
  Notation interp_cell := (interp_cell ang slerp).
  Notation interp_row := (interp_row ang slerp).
  Notation resample_state := (resample_state ang slerp).
  Notation diff_cell := (diff_cell ang).
  Notation diff_row := (diff_row ang).
  Notation diff_core := (diff_core ang slerp).
  Notation state_diff := (state_diff ang slerp).
  Notation series_diff := (series_diff ang).

  Definition valR (v : val) : R :=
    match v with VQ q => Q2R q | VA k a => comp k a end.

  (** [difference.lat *= rn * DEG_TO_RAD; difference.lon *= rp * DEG_TO_RAD;
      difference.alt *= -1] *)
  Definition metres (k : nat) (d mlat malt : R) : R :=
    if Nat.eqb k c_lat then (d * (rn mlat malt * (PI / 180)))%R
    else if Nat.eqb k c_lon then (d * (rp mlat malt * (PI / 180)))%R
    else (d * -1)%R.

  Definition dvalR (d : dval) : R :=
    match d with
    | DQ q => Q2R q
    | DA sg f s => to_180_range_arr_r (Q2R sg * (Q2R f - valR s))
    | DP k d mlat malt => metres k (Q2R d) (Q2R mlat) (Q2R malt)
    end.
  Definition is_angle (d : dval) : bool :=
    match d with DA _ _ _ => true | _ => false end.

  (** what a difference cell of column c is, as a function of the two rows'
      real values *)
  Definition ideal (sg : R) (lla rph : bool) (c : nat) (fv sv : nat -> R) : R :=
    if rph && is_rph c then to_180_range_arr_r (sg * (fv c - sv c))
    else if lla && is_lla c
         then metres c (sg * (fv c - sv c)) ((fv c_lat + sv c_lat) / 2) ((fv c_alt + sv c_alt) / 2)
         else (sg * (fv c - sv c))%R.

  Definition well_formed (t : table) : Prop :=
    (2 <= length (rows t))%nat /\ incr (times t).
  Definition canon_table (t : table) : Prop :=
    has_all rph_cols (cols t) = true ->
    forall r, In r (rows t) -> canon (rph_of (cols t) (snd r)).

  Lemma wf_table_well_formed : forall t, wf_table t = true -> well_formed t.
  Proof.
    intros t H. unfold wf_table in H. rewrite !andb_true_iff in H.
    destruct H as [[H1 H2] _]. split.
    - apply Nat.leb_le. exact H1.
    - apply increasingb_incr. exact H2.
  Qed.

  (* ---------------------------------------------------------------- *)
  (** ** Interpolation at a knot returns the knot *)

  Lemma bracket_knot : forall rs t t0 r0,
    (2 <= length rs)%nat -> incr (map fst rs) -> In (t0, r0) rs -> t == t0 ->
    exists lo hi, bracket rs t = (lo, hi) /\ fst lo < fst hi /\
      ((lo = (t0, r0) /\ t == fst lo) \/ (hi = (t0, r0) /\ t == fst hi)).
  Proof.
    intros rs t t0 r0 Hlen Hinc Hin Ht.
    destruct rs as [| first rest]; [inversion Hin |].
    destruct rest as [| h1 rest']; [simpl in Hlen; lia |].
    unfold bracket. destruct Hin as [Hin | Hin].
    - subst first. simpl in Hinc. destruct Hinc as [Hf _].
      inversion Hf as [| ? ? Hlt _]; subst. simpl in Hlt.
      simpl. assert (E : Qle_bool t (fst h1) = true).
      { apply Qle_bool_iff. rewrite Ht. apply Qlt_le_weak. exact Hlt. }
      rewrite E. exists (t0, r0), h1. split; [reflexivity |]. split; [exact Hlt |].
      left. split; [reflexivity | exact Ht].
    - assert (Hlt : fst first < t).
      { simpl in Hinc. destruct Hinc as [Hf _]. rewrite Forall_forall in Hf.
        rewrite Ht. apply Hf. change t0 with (fst (t0, r0)).
        change (fst h1 :: map fst rest') with (map fst (h1 :: rest')). apply in_map. exact Hin. }
      destruct (locate_knot (h1 :: rest') first t t0 r0 Hinc Hlt Hin Ht) as [lo' [E Hlo']].
      exists lo', (t0, r0). split; [exact E |]. split; [exact Hlo' |].
      right. split; [reflexivity | exact Ht].
  Qed.

  Lemma interp_cell_knot : forall cs rph t lo hi t0 r0 c,
    fst lo < fst hi ->
    ((lo = (t0, r0) /\ t == fst lo) \/ (hi = (t0, r0) /\ t == fst hi)) ->
    (rph = true -> canon (rph_of cs r0)) ->
    valR (interp_cell cs rph t lo hi c) = Q2R (get 0 cs r0 c) /\
    (rph && is_rph c = false ->
       exists q, interp_cell cs rph t lo hi c = VQ q /\ q == get 0 cs r0 c).
  Proof.
    intros cs rph t lo hi t0 r0 c Hlt Hcase Hcanon.
    unfold Model.StateDiff.interp_cell.
    destruct (rph && is_rph c) eqn:Eflag.
    - apply andb_true_iff in Eflag. destruct Eflag as [Hrph Hc]. split; [| discriminate].
      simpl. destruct Hcase as [[E Ht] | [E Ht]]; subst.
      + rewrite slerp_start; [| auto | apply w_hi_at_lo; assumption].
        simpl. rewrite tcomp_rph_of by exact Hc. reflexivity.
      + rewrite slerp_end; [| auto | apply w_hi_at_hi; assumption].
        simpl. rewrite tcomp_rph_of by exact Hc. reflexivity.
    - assert (Hq : lerp t (fst lo) (fst hi) (get 0 cs (snd lo) c) (get 0 cs (snd hi) c)
                   == get 0 cs r0 c).
      { destruct Hcase as [[E Ht] | [E Ht]]; subst; simpl.
        - apply lerp_at_lo; assumption.
        - apply lerp_at_hi; assumption. }
      split.
      + simpl. apply Qeq_eqR. exact Hq.
      + intros _. eexists. split; [reflexivity | exact Hq].
  Qed.

  Notation dtable := (dtable ang).
  Notation rtable := (rtable ang).

  (* ---------------------------------------------------------------- *)
  (** ** Rows of a resampled table at a knot *)

  Lemma interp_row_get : forall st t c, In c (cols st) ->
    get (VQ 0) (cols st) (interp_row st t) c =
    interp_cell (cols st) (has_all rph_cols (cols st)) t
                (fst (bracket (rows st) t)) (snd (bracket (rows st) t)) c.
  Proof.
    intros st t c Hc. unfold Model.StateDiff.interp_row. apply get_map. exact Hc.
  Qed.

  Lemma interp_row_length : forall st t, length (interp_row st t) = length (cols st).
  Proof. intros st t. unfold Model.StateDiff.interp_row. apply map_length. Qed.

  (** cells that are not Slerp-interpolated are plain numbers *)
  Lemma interp_row_numeric : forall st t c, In c (cols st) ->
    has_all rph_cols (cols st) && is_rph c = false ->
    get (VQ 0) (cols st) (interp_row st t) c =
    VQ (lerp t (fst (fst (bracket (rows st) t))) (fst (snd (bracket (rows st) t)))
             (get 0 (cols st) (snd (fst (bracket (rows st) t))) c)
             (get 0 (cols st) (snd (snd (bracket (rows st) t))) c)).
  Proof.
    intros st t c Hc Hf. rewrite interp_row_get by exact Hc.
    unfold Model.StateDiff.interp_cell. rewrite Hf. reflexivity.
  Qed.

  Lemma interp_row_attitude : forall st t c, In c (cols st) ->
    has_all rph_cols (cols st) && is_rph c = true ->
    get (VQ 0) (cols st) (interp_row st t) c =
    VA c (slerp (rph_of (cols st) (snd (fst (bracket (rows st) t))))
                (rph_of (cols st) (snd (snd (bracket (rows st) t))))
                (w_hi t (fst (fst (bracket (rows st) t))) (fst (snd (bracket (rows st) t))))).
  Proof.
    intros st t c Hc Hf. rewrite interp_row_get by exact Hc.
    unfold Model.StateDiff.interp_cell. rewrite Hf. reflexivity.
  Qed.

  Lemma interp_row_knot : forall st t t0 r0 c,
    well_formed st -> canon_table st -> In (t0, r0) (rows st) -> t == t0 -> In c (cols st) ->
    valR (get (VQ 0) (cols st) (interp_row st t) c) = Q2R (get 0 (cols st) r0 c) /\
    (has_all rph_cols (cols st) && is_rph c = false ->
       exists q, get (VQ 0) (cols st) (interp_row st t) c = VQ q /\ q == get 0 (cols st) r0 c).
  Proof.
    intros st t t0 r0 c [Hlen Hinc] Hcan Hin Ht Hc.
    rewrite interp_row_get by exact Hc.
    destruct (bracket_knot (rows st) t t0 r0 Hlen Hinc Hin Ht) as [lo [hi [E [Hlt Hcase]]]].
    rewrite E. cbn [fst snd].
    apply (interp_cell_knot _ _ _ _ _ t0 r0); try assumption.
    intro Hr. apply (Hcan Hr (t0, r0)). exact Hin.
  Qed.

  (* ---------------------------------------------------------------- *)
  (** ** Column selection *)

  Lemma rows_select : forall C t,
    rows (select C t) = map (fun r => (fst r, map (get 0 (cols t) (snd r)) C)) (rows t).
  Proof. reflexivity. Qed.

  Lemma well_formed_select : forall C t, well_formed t -> well_formed (select C t).
  Proof.
    intros C t [H1 H2]. split.
    - rewrite rows_select, map_length. exact H1.
    - rewrite times_select. exact H2.
  Qed.

  Lemma has_all_intro : forall w cs, (forall c, In c w -> In c cs) -> has_all w cs = true.
  Proof.
    intros w cs H. unfold has_all. apply forallb_forall. intros c Hc. apply mem_In. auto.
  Qed.

  Lemma rph_of_select : forall C cs r,
    has_all rph_cols C = true -> rph_of C (map (get 0 cs r) C) = rph_of cs r.
  Proof.
    intros C cs r H. unfold rph_of.
    rewrite !get_map; [reflexivity | | |];
      apply (has_all_mem rph_cols C); try exact H; simpl; auto.
  Qed.

  Lemma canon_select : forall C s,
    (forall c, In c C -> In c (cols s)) -> canon_table s -> canon_table (select C s).
  Proof.
    intros C s Hsub Hcan Hr r Hin. cbn [cols select] in Hr |- *.
    rewrite rows_select in Hin. apply in_map_iff in Hin. destruct Hin as [r0 [E Hin0]].
    subst r. cbn [snd]. rewrite rph_of_select by exact Hr.
    apply Hcan; [| exact Hin0].
    apply has_all_intro. intros c Hc. apply Hsub. apply (has_all_mem rph_cols C); assumption.
  Qed.

  Lemma col_inter_sub_l : forall c1 c2 c, In c (col_inter c1 c2) -> In c c1.
  Proof. intros c1 c2 c H. unfold col_inter in H. apply filter_In in H. tauto. Qed.

  Lemma col_inter_sub_r : forall c1 c2 c, In c (col_inter c1 c2) -> In c c2.
  Proof.
    intros c1 c2 c H. unfold col_inter in H. apply filter_In in H. apply mem_In. tauto.
  Qed.

  (* ---------------------------------------------------------------- *)
  (** ** The rows of a difference, without [combine] *)

  Lemma combine_map_map : forall (A B C : Type) (g : A -> B) (h : Q -> C) (k : A -> Q) (l : list A),
    combine (map g l) (map h (map k l)) = map (fun x => (g x, h (k x))) l.
  Proof. induction l as [| x l IH]; simpl; [reflexivity | rewrite IH; reflexivity]. Qed.

  Definition core_cols (f s : table) : list nat := col_inter (cols f) (cols s).

  (** the row of [diff_core sign f s] that stems from row [r] of [f] *)
  Definition core_row (sign : Q) (f s : table) (r : Q * list Q) : Q * list dval :=
    (fst r, diff_row sign (core_cols f s)
                     (map (get 0 (cols f) (snd r)) (core_cols f s))
                     (interp_row (select (core_cols f s) s) (fst r))).

  Lemma diff_core_cols : forall sign f s, d_cols (diff_core sign f s) = core_cols f s.
  Proof. reflexivity. Qed.

  Lemma diff_core_rows : forall sign f s, incr (times f) ->
    d_rows (diff_core sign f s)
    = map (core_row sign f s) (filter (fun r => in_span s (fst r)) (rows f)).
  Proof.
    intros sign f s Hinc.
    unfold Model.StateDiff.diff_core, Model.StateDiff.resample_state. cbn [d_rows r_rows].
    fold (core_cols f s). set (C := core_cols f s).
    assert (E1 : filter (in_span s) (times f)
                 = map fst (filter (fun r => in_span s (fst r)) (rows f))).
    { unfold times. apply filter_map_comm. }
    rewrite E1. set (L := filter (fun r => in_span s (fst r)) (rows f)).
    assert (Hs : sorted (map fst L)).
    { apply incr_sorted. unfold L. rewrite <- E1. apply incr_filter. exact Hinc. }
    rewrite (isort_id _ Hs).
    assert (E2 : filter (in_span (select C s)) (map fst L) = map fst L).
    { rewrite (filter_ext _ (in_span s)) by (intro x; apply in_span_select).
      unfold L. rewrite <- E1. apply filter_idem. }
    rewrite E2. rewrite rows_select, filter_map_comm. cbn [fst]. fold L.
    rewrite combine_map_map, map_map. apply map_ext. intro r. reflexivity.
  Qed.

  Lemma diff_core_index : forall sign f s, incr (times f) ->
    map fst (d_rows (diff_core sign f s)) = filter (in_span s) (times f).
  Proof.
    intros sign f s Hinc. rewrite diff_core_rows by exact Hinc. rewrite map_map.
    unfold times. rewrite filter_map_comm. apply map_ext. intro r. reflexivity.
  Qed.

  (* ---------------------------------------------------------------- *)
  (** ** Meaning of a difference cell *)

  (** the second operand's cells that are not Slerp-interpolated are numbers *)
  Definition numeric (rph : bool) (C : list nat) (sr : list val) : Prop :=
    forall c, In c C -> rph && is_rph c = false -> exists q, get (VQ 0) C sr c = VQ q.

  Lemma is_lla_not_rph : forall c, is_lla c = true -> is_rph c = false.
  Proof.
    intros c H. unfold is_lla, is_rph, mem, lla_cols, rph_cols, c_lat, c_lon, c_alt,
      c_roll, c_pitch, c_heading in *.
    destruct c as [| [| [| c]]]; simpl in H; try discriminate. reflexivity.
  Qed.

  Lemma diff_cell_is_angle : forall sign lla rph C fr sr c,
    is_angle (diff_cell sign lla rph C fr sr c) = rph && is_rph c.
  Proof.
    intros. unfold Model.StateDiff.diff_cell.
    destruct (rph && is_rph c); [reflexivity |].
    destruct (lla && is_lla c); reflexivity.
  Qed.

  Lemma diff_cell_ideal : forall sign C fr sr c,
    In c C -> numeric (has_all rph_cols C) C sr ->
    dvalR (diff_cell sign (has_all lla_cols C) (has_all rph_cols C) C fr sr c)
    = ideal (Q2R sign) (has_all lla_cols C) (has_all rph_cols C) c
            (fun c => Q2R (get 0 C fr c)) (fun c => valR (get (VQ 0) C sr c)).
  Proof.
    intros sign C fr sr c Hc Hnum.
    unfold Model.StateDiff.diff_cell, ideal.
    destruct (has_all rph_cols C && is_rph c) eqn:Er.
    - reflexivity.
    - destruct (Hnum c Hc Er) as [q Eq].
      destruct (has_all lla_cols C && is_lla c) eqn:El.
      + apply andb_true_iff in El. destruct El as [Hl Hcl].
        assert (Hlat : In c_lat C) by (apply (has_all_mem lla_cols C); [exact Hl | simpl; auto]).
        assert (Halt : In c_alt C) by (apply (has_all_mem lla_cols C); [exact Hl | simpl; auto]).
        destruct (Hnum c_lat Hlat) as [qlat Elat].
        { rewrite (is_lla_not_rph c_lat) by reflexivity. apply andb_false_r. }
        destruct (Hnum c_alt Halt) as [qalt Ealt].
        { rewrite (is_lla_not_rph c_alt) by reflexivity. apply andb_false_r. }
        rewrite Eq, Elat, Ealt. cbn [dvalR valq valR].
        rewrite !Q2R_mult, !Q2R_minus, !Q2R_plus, Q2R_half. f_equal; lra.
      + rewrite Eq. cbn [dvalR valq valR]. rewrite Q2R_mult, Q2R_minus. reflexivity.
  Qed.

  (** [ideal] looks at the two rows only in column c and, for a position column,
      in lat and alt *)
  Lemma ideal_ext : forall sg C c fv sv fv' sv',
    In c C -> (forall c', In c' C -> fv c' = fv' c') -> (forall c', In c' C -> sv c' = sv' c') ->
    ideal sg (has_all lla_cols C) (has_all rph_cols C) c fv sv
    = ideal sg (has_all lla_cols C) (has_all rph_cols C) c fv' sv'.
  Proof.
    intros sg C c fv sv fv' sv' Hc Hf Hs. unfold ideal.
    destruct (has_all rph_cols C && is_rph c).
    - rewrite (Hf c Hc), (Hs c Hc). reflexivity.
    - destruct (has_all lla_cols C && is_lla c) eqn:El.
      + apply andb_true_iff in El. destruct El as [Hl _].
        assert (Hlat : In c_lat C) by (apply (has_all_mem lla_cols C); [exact Hl | simpl; auto]).
        assert (Halt : In c_alt C) by (apply (has_all_mem lla_cols C); [exact Hl | simpl; auto]).
        rewrite (Hf c Hc), (Hs c Hc), (Hf _ Hlat), (Hs _ Hlat), (Hf _ Halt), (Hs _ Halt).
        reflexivity.
      + rewrite (Hf c Hc), (Hs c Hc). reflexivity.
  Qed.

  Lemma metres_zero : forall k a b, metres k 0 a b = 0%R.
  Proof.
    intros k a b. unfold metres.
    destruct (Nat.eqb k c_lat); [lra |]. destruct (Nat.eqb k c_lon); lra.
  Qed.

  Lemma metres_opp : forall k d a b, metres k (- d) a b = (- metres k d a b)%R.
  Proof.
    intros k d a b. unfold metres.
    destruct (Nat.eqb k c_lat); [lra |]. destruct (Nat.eqb k c_lon); lra.
  Qed.

  Lemma to180_arr_zero : to_180_range_arr_r 0 = 0%R.
  Proof. apply to180_arr_of_in_range. lra. Qed.

  (** equal operands give exactly zero *)
  Lemma ideal_zero : forall sg lla rph c fv sv, fv c = sv c -> ideal sg lla rph c fv sv = 0%R.
  Proof.
    intros sg lla rph c fv sv E. unfold ideal. rewrite E.
    replace (sg * (sv c - sv c))%R with 0%R by lra.
    destruct (rph && is_rph c); [apply to180_arr_zero |].
    destruct (lla && is_lla c); [apply metres_zero | reflexivity].
  Qed.

  (** antisymmetry of a cell in its two operands: exact, except for an angle cell
      equal to 180, which is 180 in both orders *)
  Definition antisymR (angle : bool) (x y : R) : Prop :=
    if angle then (x <> 180%R -> y = (- x)%R) /\ (x = 180%R -> y = 180%R)
    else y = (- x)%R.

  Lemma ideal_swap_operands : forall sg lla rph c fv sv,
    antisymR (rph && is_rph c) (ideal sg lla rph c fv sv) (ideal sg lla rph c sv fv).
  Proof.
    intros sg lla rph c fv sv. unfold antisymR, ideal.
    replace (sg * (sv c - fv c))%R with (- (sg * (fv c - sv c)))%R by lra.
    destruct (rph && is_rph c).
    - apply to180_arr_neg.
    - destruct (lla && is_lla c).
      + replace ((sv c_lat + fv c_lat) / 2)%R with ((fv c_lat + sv c_lat) / 2)%R by lra.
        replace ((sv c_alt + fv c_alt) / 2)%R with ((fv c_alt + sv c_alt) / 2)%R by lra.
        apply metres_opp.
      + reflexivity.
  Qed.

  Lemma ideal_swap_sign : forall sg lla rph c fv sv,
    antisymR (rph && is_rph c) (ideal sg lla rph c fv sv) (ideal (- sg) lla rph c fv sv).
  Proof.
    intros sg lla rph c fv sv. unfold antisymR, ideal.
    replace (- sg * (fv c - sv c))%R with (- (sg * (fv c - sv c)))%R by lra.
    destruct (rph && is_rph c).
    - apply to180_arr_neg.
    - destruct (lla && is_lla c); [apply metres_opp | reflexivity].
  Qed.

  (** every reported angle difference lies in (-180, 180] *)
  Lemma angle_cell_range : forall d : dval,
    is_angle d = true -> (-180 < dvalR d <= 180)%R.
  Proof.
    intros d H. destruct d as [q | sg f s | k d' a b]; try discriminate.
    cbn [dvalR]. apply to180_arr_range_congruent.
  Qed.

  Lemma ideal_angle_range : forall sg lla rph c fv sv,
    rph && is_rph c = true -> (-180 < ideal sg lla rph c fv sv <= 180)%R.
  Proof.
    intros sg lla rph c fv sv H. unfold ideal. rewrite H. apply to180_arr_range_congruent.
  Qed.

  (* ---------------------------------------------------------------- *)
  (** ** Cells of [diff_core] *)

  Lemma diff_row_get : forall sign C fr sr c, In c C ->
    get (DQ 0) C (diff_row sign C fr sr) c
    = diff_cell sign (has_all lla_cols C) (has_all rph_cols C) C fr sr c.
  Proof. intros. unfold Model.StateDiff.diff_row. apply get_map. assumption. Qed.

  Lemma interp_row_select_numeric : forall C s t,
    numeric (has_all rph_cols C) C (interp_row (select C s) t).
  Proof.
    intros C s t c Hc Hf. eexists.
    apply (interp_row_numeric (select C s) t c Hc Hf).
  Qed.

  (** General position: the cell of column c in the row that stems from row r of
      the first operand is [ideal] of r's values and the second operand's
      interpolated values at r's time. *)
  Lemma core_row_cell : forall sign f s r c,
    In c (core_cols f s) ->
    is_angle (get (DQ 0) (core_cols f s) (snd (core_row sign f s r)) c)
      = has_all rph_cols (core_cols f s) && is_rph c /\
    dvalR (get (DQ 0) (core_cols f s) (snd (core_row sign f s r)) c)
      = ideal (Q2R sign) (has_all lla_cols (core_cols f s)) (has_all rph_cols (core_cols f s)) c
              (fun c => Q2R (get 0 (cols f) (snd r) c))
              (fun c => valR (get (VQ 0) (core_cols f s)
                                  (interp_row (select (core_cols f s) s) (fst r)) c)).
  Proof.
    intros sign f s r c Hc. unfold core_row. cbn [snd]. set (C := core_cols f s) in *.
    rewrite diff_row_get by exact Hc. split; [apply diff_cell_is_angle |].
    rewrite diff_cell_ideal; [| exact Hc | apply interp_row_select_numeric].
    apply ideal_ext; [exact Hc | | reflexivity].
    intros c' Hc'. rewrite get_map by exact Hc'. reflexivity.
  Qed.

  (** At a stamp that both operands have, the second operand's values are its own
      row (interpolation at a knot returns the knot). *)
  Lemma core_row_cell_knot : forall sign f s t rf rs c,
    well_formed s -> canon_table s -> In (t, rs) (rows s) -> In c (core_cols f s) ->
    is_angle (get (DQ 0) (core_cols f s) (snd (core_row sign f s (t, rf))) c)
      = has_all rph_cols (core_cols f s) && is_rph c /\
    dvalR (get (DQ 0) (core_cols f s) (snd (core_row sign f s (t, rf))) c)
      = ideal (Q2R sign) (has_all lla_cols (core_cols f s)) (has_all rph_cols (core_cols f s)) c
              (fun c => Q2R (get 0 (cols f) rf c))
              (fun c => Q2R (get 0 (cols s) rs c)).
  Proof.
    intros sign f s t rf rs c Hwf Hcan Hin Hc.
    destruct (core_row_cell sign f s (t, rf) c Hc) as [Ha Hv].
    split; [exact Ha |]. rewrite Hv. cbn [fst snd]. set (C := core_cols f s) in *.
    apply ideal_ext; [exact Hc | reflexivity |].
    intros c' Hc'.
    assert (Hin' : In (t, map (get 0 (cols s) rs) C) (rows (select C s))).
    { rewrite rows_select. apply in_map_iff. exists (t, rs). split; [reflexivity | exact Hin]. }
    assert (Hcan' : canon_table (select C s)).
    { apply canon_select; [| exact Hcan]. intros x Hx. exact (col_inter_sub_r _ _ _ Hx). }
    destruct (interp_row_knot (select C s) t t _ c' (well_formed_select C s Hwf) Hcan' Hin'
                              (Qeq_refl t) Hc') as [H _].
    cbn [cols select] in H. rewrite H. rewrite get_map by exact Hc'. reflexivity.
  Qed.

  (* ---------------------------------------------------------------- *)
  (** ** Which operand is interpolated *)

  (** [(sign, first, second)] after the operand swap *)
  Definition operands (a b : table) : Q * table * table :=
    if Qltb (median_dt a) (median_dt b) then (-1, b, a) else (1, a, b).

  Lemma state_diff_operands : forall a b,
    state_diff a b = diff_core (fst (fst (operands a b))) (snd (fst (operands a b))) (snd (operands a b)).
  Proof.
    intros a b. unfold Model.StateDiff.state_diff, operands.
    destruct (Qltb (median_dt a) (median_dt b)); reflexivity.
  Qed.

  Lemma state_diff_swap : forall a b, median_dt a < median_dt b ->
    state_diff a b = diff_core (-1) b a.
  Proof.
    intros a b H. unfold Model.StateDiff.state_diff.
    apply Qltb_iff in H. rewrite H. reflexivity.
  Qed.

  Lemma state_diff_noswap : forall a b, median_dt b <= median_dt a ->
    state_diff a b = diff_core 1 a b.
  Proof.
    intros a b H. unfold Model.StateDiff.state_diff.
    apply Qltb_false_iff in H. rewrite H. reflexivity.
  Qed.

  (* ---------------------------------------------------------------- *)
  (** ** Antisymmetry *)

  Definition cell_antisym (x y : dval) : Prop :=
    is_angle x = is_angle y /\ antisymR (is_angle x) (dvalR x) (dvalR y).

  (** same columns in the same order, same stamps, every cell negated (an angle
      cell equal to 180 stays 180) *)
  Definition table_antisym (d1 d2 : dtable) : Prop :=
    d_cols d1 = d_cols d2 /\
    Forall2 (fun r1 r2 => fst r1 = fst r2 /\ Forall2 cell_antisym (snd r1) (snd r2))
            (d_rows d1) (d_rows d2).

  Lemma Forall2_map_same : forall (A B C : Type) (P : B -> C -> Prop) (g : A -> B) (h : A -> C) l,
    (forall x, In x l -> P (g x) (h x)) -> Forall2 P (map g l) (map h l).
  Proof.
    intros A B C P g h. induction l as [| x l IH]; intro H; simpl; constructor.
    - apply H. left. reflexivity.
    - apply IH. intros y Hy. apply H. right. exact Hy.
  Qed.

  Lemma diff_cell_neg_sign : forall sg sg' lla rph C fr sr c,
    Q2R sg' = (- Q2R sg)%R ->
    cell_antisym (diff_cell sg lla rph C fr sr c) (diff_cell sg' lla rph C fr sr c).
  Proof.
    intros sg sg' lla rph C fr sr c Hs. unfold cell_antisym.
    rewrite !diff_cell_is_angle. split; [reflexivity |].
    unfold Model.StateDiff.diff_cell, antisymR.
    destruct (rph && is_rph c).
    - cbn [dvalR]. rewrite Hs, Ropp_mult_distr_l_reverse.
      apply to180_arr_neg.
    - destruct (lla && is_lla c); cbn [dvalR]; rewrite !Q2R_mult, Hs.
      + rewrite <- metres_opp. f_equal. lra.
      + lra.
  Qed.

  Lemma diff_core_neg_sign : forall sg sg' f s,
    Q2R sg' = (- Q2R sg)%R -> table_antisym (diff_core sg f s) (diff_core sg' f s).
  Proof.
    intros sg sg' f s Hs. split; [reflexivity |].
    unfold Model.StateDiff.diff_core. cbn [d_rows].
    apply Forall2_map_same. intros p _. cbn [fst snd]. split; [reflexivity |].
    unfold Model.StateDiff.diff_row. apply Forall2_map_same. intros c _.
    apply diff_cell_neg_sign. exact Hs.
  Qed.

  (** different median sampling intervals: one of the two calls swaps its
      operands, both interpolate the same table on the same stamps *)
  Theorem diff_antisym_swap : forall a b,
    ~ median_dt a == median_dt b -> table_antisym (state_diff a b) (state_diff b a).
  Proof.
    intros a b Hne. unfold Model.StateDiff.state_diff.
    destruct (Qltb (median_dt a) (median_dt b)) eqn:E1;
      destruct (Qltb (median_dt b) (median_dt a)) eqn:E2.
    - apply Qltb_iff in E1. apply Qltb_iff in E2. exfalso.
      exact (Qlt_irrefl _ (Qlt_trans _ _ _ E1 E2)).
    - apply diff_core_neg_sign. rewrite Q2R_one, Q2R_mone. lra.
    - apply diff_core_neg_sign. rewrite Q2R_one, Q2R_mone. lra.
    - apply Qltb_false_iff in E1. apply Qltb_false_iff in E2. exfalso.
      apply Hne. apply Qle_antisym; assumption.
  Qed.

  Lemma flags_comm : forall w c1 c2, has_all w (col_inter c1 c2) = has_all w (col_inter c2 c1).
  Proof. intros. rewrite !has_all_col_inter. apply andb_comm. Qed.

  Lemma in_core_cols : forall f s c, In c (cols f) -> In c (cols s) -> In c (core_cols f s).
  Proof.
    intros f s c H1 H2. unfold core_cols, col_inter. apply filter_In. split; [exact H1 |].
    apply mem_In. exact H2.
  Qed.

  Lemma core_row_in : forall sign f s t rf x,
    incr (times f) -> incr (times s) -> In (t, rf) (rows f) -> In x (rows s) -> fst x = t ->
    In (core_row sign f s (t, rf)) (d_rows (diff_core sign f s)).
  Proof.
    intros sign f s t rf x Hf Hs Hin Hx Et. rewrite diff_core_rows by exact Hf.
    apply in_map. apply filter_In. split; [exact Hin |]. cbn [fst].
    apply (knot_in_span s x t Hs Hx). rewrite Et. apply Qeq_refl.
  Qed.

  (** equal median sampling intervals: neither call swaps.  On every stamp that
      both tables have the two results are antisymmetric column by column (the
      column ORDER of each result is that of its own first argument).  Stamps
      that only one table has appear in only one of the two results: recorded
      finding equal-median-index-mismatch. *)
  Theorem diff_antisym_common_stamp : forall a b t ra rb,
    well_formed a -> well_formed b -> canon_table a -> canon_table b ->
    median_dt a == median_dt b ->
    In (t, ra) (rows a) -> In (t, rb) (rows b) ->
    exists cells1 cells2,
      In (t, cells1) (d_rows (state_diff a b)) /\ In (t, cells2) (d_rows (state_diff b a)) /\
      forall c, In c (cols a) -> In c (cols b) ->
        cell_antisym (get (DQ 0) (d_cols (state_diff a b)) cells1 c)
                     (get (DQ 0) (d_cols (state_diff b a)) cells2 c).
  Proof.
    intros a b t ra rb Ha Hb Hca Hcb Hm Hina Hinb.
    rewrite (state_diff_noswap a b) by (rewrite Hm; apply Qle_refl).
    rewrite (state_diff_noswap b a) by (rewrite Hm; apply Qle_refl).
    exists (snd (core_row 1 a b (t, ra))), (snd (core_row 1 b a (t, rb))).
    split; [| split].
    - apply (core_row_in 1 a b t ra (t, rb)); try assumption; [apply Ha | apply Hb | reflexivity].
    - apply (core_row_in 1 b a t rb (t, ra)); try assumption; [apply Hb | apply Ha | reflexivity].
    - intros c Hc1 Hc2. rewrite !diff_core_cols.
      destruct (core_row_cell_knot 1 a b t ra rb c Hb Hcb Hinb (in_core_cols _ _ _ Hc1 Hc2))
        as [A1 V1].
      destruct (core_row_cell_knot 1 b a t rb ra c Ha Hca Hina (in_core_cols _ _ _ Hc2 Hc1))
        as [A2 V2].
      unfold cell_antisym. rewrite A1, A2, V1, V2. unfold core_cols.
      rewrite (flags_comm rph_cols (cols b) (cols a)), (flags_comm lla_cols (cols b) (cols a)).
      split; [reflexivity |]. apply ideal_swap_operands.
  Qed.

  Lemma filter_true : forall (A : Type) (p : A -> bool) l,
    (forall x, In x l -> p x = true) -> filter p l = l.
  Proof.
    intros A p. induction l as [| x l IH]; intro H; simpl; [reflexivity |].
    rewrite (H x) by (left; reflexivity). f_equal. apply IH. intros y Hy. apply H. right. exact Hy.
  Qed.

  Lemma in_times : forall t x, In x (times t) -> exists r, In (x, r) (rows t).
  Proof.
    intros t x H. unfold times in H. apply in_map_iff in H. destruct H as [[x' r] [E H]].
    simpl in E. subst x'. exists r. exact H.
  Qed.

  (** equal index: every stamp is common, both results carry exactly that index *)
  Theorem diff_antisym_equal_index : forall a b,
    well_formed a -> well_formed b -> canon_table a -> canon_table b ->
    times a = times b ->
    map fst (d_rows (state_diff a b)) = times a /\
    map fst (d_rows (state_diff b a)) = times a /\
    forall t ra, In (t, ra) (rows a) ->
      exists rb cells1 cells2,
        In (t, rb) (rows b) /\
        In (t, cells1) (d_rows (state_diff a b)) /\ In (t, cells2) (d_rows (state_diff b a)) /\
        forall c, In c (cols a) -> In c (cols b) ->
          cell_antisym (get (DQ 0) (d_cols (state_diff a b)) cells1 c)
                       (get (DQ 0) (d_cols (state_diff b a)) cells2 c).
  Proof.
    intros a b Ha Hb Hca Hcb Et.
    assert (Hm : median_dt a == median_dt b) by (unfold median_dt; rewrite Et; apply Qeq_refl).
    assert (Hall : forall u v : table, incr (times v) -> times u = times v ->
                     filter (in_span v) (times u) = times u).
    { intros u v Hv E. apply filter_true. intros x Hx. rewrite E in Hx.
      destruct (in_times v x Hx) as [r Hr]. apply (knot_in_span v (x, r) x Hv Hr). apply Qeq_refl. }
    split; [| split].
    - rewrite (state_diff_noswap a b) by (rewrite Hm; apply Qle_refl).
      rewrite diff_core_index by apply Ha. apply Hall; [apply Hb | exact Et].
    - rewrite (state_diff_noswap b a) by (rewrite Hm; apply Qle_refl).
      rewrite diff_core_index by apply Hb. rewrite Et. apply Hall; [apply Ha | symmetry; exact Et].
    - intros t ra Hin.
      assert (Ht : In t (times b)).
      { rewrite <- Et. unfold times. change t with (fst (t, ra)). apply in_map. exact Hin. }
      destruct (in_times b t Ht) as [rb Hrb].
      destruct (diff_antisym_common_stamp a b t ra rb Ha Hb Hca Hcb Hm Hin Hrb)
        as [c1 [c2 [H1 [H2 H3]]]].
      exists rb, c1, c2. auto.
  Qed.

  (* ---------------------------------------------------------------- *)
  (** ** Exactly zero against itself or a sub-sampling *)

  Definition zero_table (d : dtable) (C : list nat) (ts : list Q) : Prop :=
    d_cols d = C /\ map fst (d_rows d) = ts /\
    Forall (fun r => length (snd r) = length C /\ Forall (fun x => dvalR x = 0%R) (snd r))
           (d_rows d).

  (** [b] is a sub-sampling of [a]: same columns, every row of [b] is a row of [a] *)
  Definition subsample (b a : table) : Prop := cols b = cols a /\ incl (rows b) (rows a).

  Lemma diff_core_zero : forall sg f s,
    incr (times f) -> well_formed s -> canon_table s -> subsample f s ->
    zero_table (diff_core sg f s) (cols f) (times f).
  Proof.
    intros sg f s Hf Hs Hcan [Ec Hincl].
    assert (EC : core_cols f s = cols f).
    { unfold core_cols. rewrite Ec. apply col_inter_self. }
    split; [| split].
    - rewrite diff_core_cols. exact EC.
    - rewrite diff_core_index by exact Hf. apply filter_true. intros x Hx.
      destruct (in_times f x Hx) as [r Hr].
      apply (knot_in_span s (x, r) x); [apply Hs | apply Hincl; exact Hr | apply Qeq_refl].
    - rewrite diff_core_rows by exact Hf. apply Forall_forall. intros row Hrow.
      apply in_map_iff in Hrow. destruct Hrow as [[t rf] [E Hr]]. subst row.
      apply filter_In in Hr. destruct Hr as [Hr _].
      split.
      + unfold core_row. cbn [snd]. unfold Model.StateDiff.diff_row.
        rewrite map_length, EC. reflexivity.
      + apply Forall_forall. intros x Hx.
        assert (Hx' := Hx). unfold core_row in Hx'. cbn [snd] in Hx'.
        unfold Model.StateDiff.diff_row in Hx'. apply in_map_iff in Hx'.
        destruct Hx' as [c [E Hc]].
        destruct (core_row_cell_knot sg f s t rf rf c Hs Hcan (Hincl _ Hr) Hc) as [_ V].
        unfold core_row in V. cbn [snd] in V.
        rewrite diff_row_get in V by exact Hc. rewrite E in V. rewrite V.
        apply ideal_zero. rewrite Ec. reflexivity.
  Qed.

  Theorem diff_self_zero : forall a,
    well_formed a -> canon_table a -> zero_table (state_diff a a) (cols a) (times a).
  Proof.
    intros a Ha Hc. rewrite state_diff_noswap by apply Qle_refl.
    apply diff_core_zero; [apply Ha | exact Ha | exact Hc |].
    split; [reflexivity | apply incl_refl].
  Qed.

  (** [a] the full table, [b] a sub-sampling of it.  The code interpolates the
      full table at the sub-sampling's stamps -- and then the result is zero --
      exactly when it recognises [a] as the denser table: strictly smaller median
      interval for [state_diff a b], smaller or equal for [state_diff b a].
      Outside these hypotheses the statement is FALSE (recorded findings
      subsample-equal-median-nonzero / subsample-smaller-median-nonzero, see
      [subsample_equal_median_refuted], [subsample_smaller_median_refuted]). *)
  Theorem diff_subsample_zero : forall a b,
    well_formed a -> well_formed b -> canon_table a -> subsample b a ->
    (median_dt a < median_dt b -> zero_table (state_diff a b) (cols b) (times b)) /\
    (median_dt a <= median_dt b -> zero_table (state_diff b a) (cols b) (times b)).
  Proof.
    intros a b Ha Hb Hc Hsub. split; intro Hm.
    - rewrite state_diff_swap by exact Hm. apply diff_core_zero; try assumption. apply Hb.
    - rewrite state_diff_noswap by exact Hm. apply diff_core_zero; try assumption. apply Hb.
  Qed.

  (* ---------------------------------------------------------------- *)
  (** ** Range of the reported angle differences; what every cell is *)

  Theorem diff_angle_range : forall a b r x,
    In r (d_rows (state_diff a b)) -> In x (snd r) -> is_angle x = true ->
    (-180 < dvalR x <= 180)%R.
  Proof. intros a b r x _ _ H. apply angle_cell_range. exact H. Qed.

  (** Index, columns and cells of a difference of two tables ([sign], [f], [s] are
      the operands after the swap): the columns are the common columns in the order
      of [f]; the index is [f]'s stamps inside the span of [s]; the cell of column
      c is [ideal]: to_180_range(sign (f - s)) for an attitude column (all of
      roll/pitch/heading common), sign (f - s) scaled to metres with the radii at
      the mean latitude and altitude for a position column (all of lat/lon/alt
      common), sign (f - s) otherwise; s is interpolated at the stamp. *)
  Theorem diff_cells : forall a b, incr (times a) -> incr (times b) ->
    let sign := fst (fst (operands a b)) in
    let f := snd (fst (operands a b)) in
    let s := snd (operands a b) in
    let C := col_inter (cols f) (cols s) in
    d_cols (state_diff a b) = C /\
    map fst (d_rows (state_diff a b)) = filter (in_span s) (times f) /\
    forall row, In row (d_rows (state_diff a b)) ->
      exists rf, In (fst row, rf) (rows f) /\ length (snd row) = length C /\
        forall c, In c C ->
          is_angle (get (DQ 0) C (snd row) c) = has_all rph_cols C && is_rph c /\
          dvalR (get (DQ 0) C (snd row) c)
          = ideal (Q2R sign) (has_all lla_cols C) (has_all rph_cols C) c
                  (fun c => Q2R (get 0 (cols f) rf c))
                  (fun c => valR (get (VQ 0) C (interp_row (select C s) (fst row)) c)).
  Proof.
    intros a b Ha Hb sign f s C.
    assert (Hf : incr (times f)).
    { unfold f, operands. destruct (Qltb (median_dt a) (median_dt b)); assumption. }
    rewrite state_diff_operands. fold sign f s.
    split; [reflexivity |]. split; [apply diff_core_index; exact Hf |].
    intros row Hrow. rewrite diff_core_rows in Hrow by exact Hf.
    apply in_map_iff in Hrow. destruct Hrow as [[t rf] [E Hr]]. subst row.
    apply filter_In in Hr. destruct Hr as [Hr _].
    exists rf. split; [exact Hr |]. split.
    - unfold core_row. cbn [snd]. unfold Model.StateDiff.diff_row. apply map_length.
    - intros c Hc. exact (core_row_cell sign f s (t, rf) c Hc).
  Qed.

  Lemma ideal_attitude : forall sg lla c fv sv, is_rph c = true ->
    ideal sg lla true c fv sv = to_180_range_arr_r (sg * (fv c - sv c)).
  Proof. intros. unfold ideal. rewrite H. reflexivity. Qed.

  Lemma ideal_north : forall sg rph fv sv,
    ideal sg true rph c_lat fv sv
    = (sg * (fv c_lat - sv c_lat)
       * (rn ((fv c_lat + sv c_lat) / 2) ((fv c_alt + sv c_alt) / 2) * (PI / 180)))%R.
  Proof. intros. unfold ideal. rewrite andb_false_r. reflexivity. Qed.

  Lemma ideal_east : forall sg rph fv sv,
    ideal sg true rph c_lon fv sv
    = (sg * (fv c_lon - sv c_lon)
       * (rp ((fv c_lat + sv c_lat) / 2) ((fv c_alt + sv c_alt) / 2) * (PI / 180)))%R.
  Proof. intros. unfold ideal. rewrite andb_false_r. reflexivity. Qed.

  Lemma ideal_down : forall sg rph fv sv,
    ideal sg true rph c_alt fv sv = (- (sg * (fv c_alt - sv c_alt)))%R.
  Proof. intros. unfold ideal. rewrite andb_false_r. cbn. lra. Qed.

  Lemma ideal_plain : forall sg lla rph c fv sv,
    rph && is_rph c = false -> lla && is_lla c = false ->
    ideal sg lla rph c fv sv = (sg * (fv c - sv c))%R.
  Proof. intros sg lla rph c fv sv H1 H2. unfold ideal. rewrite H1, H2. reflexivity. Qed.

  (** two Series with the same labels *)
  Theorem series_diff_cells : forall cs r1 r2 c, In c cs ->
    is_angle (get (DQ 0) cs (series_diff cs r1 r2) c) = has_all rph_cols cs && is_rph c /\
    dvalR (get (DQ 0) cs (series_diff cs r1 r2) c)
    = ideal 1 (has_all lla_cols cs) (has_all rph_cols cs) c
            (fun c => Q2R (get 0 cs r1 c)) (fun c => Q2R (get 0 cs r2 c)).
  Proof.
    intros cs r1 r2 c Hc. unfold Model.StateDiff.series_diff.
    assert (G : forall c', get (@VQ ang 0) cs (map (@VQ ang) r2) c' = @VQ ang (get 0 cs r2 c')).
    { intro c'. unfold get. apply (map_nth (@VQ ang)). }
    rewrite diff_row_get by exact Hc. split; [apply diff_cell_is_angle |].
    rewrite diff_cell_ideal; [| exact Hc |].
    - rewrite Q2R_one. apply ideal_ext; [exact Hc | reflexivity |].
      intros c' _. rewrite G. reflexivity.
    - intros c' _ _. eexists. apply G.
  Qed.

  Theorem series_diff_antisym : forall cs r1 r2 c, In c cs ->
    cell_antisym (get (DQ 0) cs (series_diff cs r1 r2) c)
                 (get (DQ 0) cs (series_diff cs r2 r1) c).
  Proof.
    intros cs r1 r2 c Hc.
    destruct (series_diff_cells cs r1 r2 c Hc) as [A1 V1].
    destruct (series_diff_cells cs r2 r1 c Hc) as [A2 V2].
    unfold cell_antisym. rewrite A1, A2, V1, V2. split; [reflexivity |].
    apply ideal_swap_operands.
  Qed.

  (* ---------------------------------------------------------------- *)
  (** ** Resampling *)

  Theorem resample_cols : forall st ts, r_cols (resample_state st ts) = cols st.
  Proof. reflexivity. Qed.

  Lemma resample_index_eq : forall st ts,
    map fst (r_rows (resample_state st ts)) = filter (in_span st) (isort ts).
  Proof.
    intros st ts. unfold Model.StateDiff.resample_state. cbn [r_rows].
    rewrite map_map. cbn [fst]. apply map_id.
  Qed.

  (** output sorted; exactly the requested times that lie in the span, with
      multiplicity *)
  Theorem resample_index : forall st ts,
    sorted (map fst (r_rows (resample_state st ts))) /\
    Permutation (filter (in_span st) ts) (map fst (r_rows (resample_state st ts))) /\
    forall t, In t (map fst (r_rows (resample_state st ts))) <->
              In t ts /\ first_time st <= t /\ t <= last_time st.
  Proof.
    intros st ts. rewrite resample_index_eq. split; [| split].
    - apply sorted_filter. apply isort_sorted.
    - apply filter_perm. apply isort_perm.
    - intro t. rewrite filter_In, in_span_iff. split; intros [H1 H2]; split; try exact H2.
      + apply (Permutation_in _ (Permutation_sym (isort_perm ts))). exact H1.
      + apply (Permutation_in _ (isort_perm ts)). exact H1.
  Qed.

  Theorem resample_row : forall st ts t row,
    In (t, row) (r_rows (resample_state st ts)) ->
    row = interp_row st t /\ length row = length (cols st).
  Proof.
    intros st ts t row H. unfold Model.StateDiff.resample_state in H. cbn [r_rows] in H.
    apply in_map_iff in H. destruct H as [t' [E _]]. inversion E; subst.
    split; [reflexivity | apply interp_row_length].
  Qed.

  Lemma resample_has_row : forall st ts t,
    In t ts -> in_span st t = true -> In (t, interp_row st t) (r_rows (resample_state st ts)).
  Proof.
    intros st ts t Hin Hs. unfold Model.StateDiff.resample_state. cbn [r_rows].
    apply (in_map (fun t => (t, interp_row st t))). apply filter_In. split; [| exact Hs].
    apply (Permutation_in _ (isort_perm ts)). exact Hin.
  Qed.

  (** original rows at original times *)
  Theorem resample_at_knot : forall st ts t0 r0,
    well_formed st -> canon_table st -> In (t0, r0) (rows st) -> In t0 ts ->
    In (t0, interp_row st t0) (r_rows (resample_state st ts)) /\
    (forall c, In c (cols st) ->
       valR (get (VQ 0) (cols st) (interp_row st t0) c) = Q2R (get 0 (cols st) r0 c)) /\
    (NoDup (cols st) -> length r0 = length (cols st) ->
       map valR (interp_row st t0) = map Q2R r0).
  Proof.
    intros st ts t0 r0 Hwf Hcan Hin Hts.
    assert (Hcell : forall c, In c (cols st) ->
              valR (get (VQ 0) (cols st) (interp_row st t0) c) = Q2R (get 0 (cols st) r0 c)).
    { intros c Hc. apply (interp_row_knot st t0 t0 r0 c Hwf Hcan Hin (Qeq_refl _) Hc). }
    split; [| split].
    - apply resample_has_row; [exact Hts |].
      apply (knot_in_span st (t0, r0) t0); [apply Hwf | exact Hin | apply Qeq_refl].
    - exact Hcell.
    - intros Hnd Hlen.
      assert (E1 : map Q2R r0 = map (fun c => Q2R (get 0 (cols st) r0 c)) (cols st)).
      { rewrite <- (map_map (get 0 (cols st) r0) Q2R). rewrite map_get_id by assumption. reflexivity. }
      assert (E2 : map valR (interp_row st t0)
                   = map (fun c => valR (get (VQ 0) (cols st) (interp_row st t0) c)) (cols st)).
      { rewrite <- (map_map (get (VQ 0) (cols st) (interp_row st t0)) valR).
        rewrite map_get_id by (try assumption; apply interp_row_length). reflexivity. }
      rewrite E1, E2. apply map_ext_in. exact Hcell.
  Qed.

  Lemma incr_app_r : forall l1 l2, incr (l1 ++ l2) -> incr l2.
  Proof.
    induction l1 as [| x l1 IH]; intros l2 H; [exact H |]. simpl in H. apply IH. apply H.
  Qed.

  (** linear elsewhere: between two consecutive rows [lo], [hi] of the table with
      [fst lo <= t <= fst hi], every column that is not Slerp-interpolated is the
      straight line through the two rows; attitude (all of roll/pitch/heading
      present) is [slerp] of the two rows at the same parameter in [0, 1] *)
  Theorem resample_between : forall st t,
    well_formed st -> in_span st t = true ->
    exists pre lo hi post,
      rows st = pre ++ lo :: hi :: post /\ fst lo <= t <= fst hi /\ fst lo < fst hi /\
      0 <= w_hi t (fst lo) (fst hi) <= 1 /\
      forall c, In c (cols st) ->
        (has_all rph_cols (cols st) && is_rph c = false ->
           exists q, get (VQ 0) (cols st) (interp_row st t) c = VQ q /\
             q == get 0 (cols st) (snd lo) c
                  + (t - fst lo) / (fst hi - fst lo)
                    * (get 0 (cols st) (snd hi) c - get 0 (cols st) (snd lo) c)) /\
        (has_all rph_cols (cols st) && is_rph c = true ->
           get (VQ 0) (cols st) (interp_row st t) c
           = VA c (slerp (rph_of (cols st) (snd lo)) (rph_of (cols st) (snd hi))
                         (w_hi t (fst lo) (fst hi)))).
  Proof.
    intros st t [Hlen Hinc] Hspan. apply in_span_iff in Hspan. destruct Hspan as [H1 H2].
    unfold first_time in H1. unfold last_time in H2. unfold times in Hinc.
    destruct (rows st) as [| first rest] eqn:Erows; [simpl in Hlen; lia |].
    destruct rest as [| h1 rest']; [simpl in Hlen; lia |].
    assert (H2' : t <= fst (last (h1 :: rest') first)).
    { rewrite (last_indep _ (h1 :: rest') first (0, [])) by discriminate. exact H2. }
    destruct (locate_spec (h1 :: rest') first t ltac:(discriminate) Hinc H1 H2')
      as [pre [post [E [Hb _]]]].
    assert (Eb : bracket (rows st) t = locate t first (h1 :: rest')) by (rewrite Erows; reflexivity).
    set (lo := fst (locate t first (h1 :: rest'))) in *.
    set (hi := snd (locate t first (h1 :: rest'))) in *.
    assert (Hlt : fst lo < fst hi).
    { rewrite E, map_app in Hinc. apply incr_app_r in Hinc. simpl in Hinc.
      destruct Hinc as [Hf _]. inversion Hf; assumption. }
    exists pre, lo, hi, post. split; [exact E |]. split; [exact Hb |]. split; [exact Hlt |].
    split; [apply (lerp_weights t (fst lo) (fst hi) Hlt Hb) |].
    intros c Hc. split; intro Hflag.
    - eexists. split.
      + rewrite (interp_row_numeric st t c Hc Hflag). rewrite Eb. reflexivity.
      + apply lerp_linear. exact Hlt.
    - rewrite (interp_row_attitude st t c Hc Hflag). rewrite Eb. reflexivity.
  Qed.

  (* ---------------------------------------------------------------- *)
  (** ** Perturbation recovered (algebraic part)

      [perturb_pva] adds [dn / rn(lat, alt)], [de / rp(lat, alt)] (in degrees) to
      lat, lon and subtracts [dd] from alt, adds the velocity and angle errors.
      The difference perturbed - original then reports exactly
      [dn * rn(mean) / rn(original)], [de * rp(mean) / rp(original)], [dd], the
      velocity error, and the wrapped angle error.  The ratios of radii are
      1 + O(|d| / R): that first-order closeness is checked numerically only. *)
  Theorem perturb_recovered_partial : forall lat alt dn de dd mlat malt x e,
    rn lat alt <> 0%R -> rp lat alt <> 0%R ->
    metres c_lat (1 * ((lat + dn / rn lat alt * (180 / PI)) - lat)) mlat malt
      = (dn * (rn mlat malt / rn lat alt))%R /\
    metres c_lon (1 * ((x + de / rp lat alt * (180 / PI)) - x)) mlat malt
      = (de * (rp mlat malt / rp lat alt))%R /\
    metres c_alt (1 * ((alt - dd) - alt)) mlat malt = dd /\
    (1 * ((x + e) - x) = e)%R /\
    ((-180 < e <= 180)%R -> to_180_range_arr_r (1 * ((x + e) - x)) = e).
  Proof.
    intros lat alt dn de dd mlat malt x e Hn Hp.
    assert (Hpi : PI <> 0%R) by (apply Rgt_not_eq; apply PI_RGT_0).
    unfold metres. cbn [Nat.eqb c_lat c_lon c_alt].
    repeat split; try (field; auto); try lra.
    intro He. replace (1 * (x + e - x))%R with e by lra. apply to180_arr_of_in_range. exact He.
  Qed.

End Semantics.

(* ------------------------------------------------------------------ *)
(** * Non-vacuity: the scipy hypotheses are satisfiable, the table hypotheses too *)

(** componentwise linear "slerp" on Euler triples: satisfies both endpoint
    hypotheses (it is NOT scipy's; it only shows the hypotheses are consistent) *)
Definition lin3 (a b : Q * Q * Q) (s : Q) : Q * Q * Q :=
  (fst (fst a) + s * (fst (fst b) - fst (fst a)),
   snd (fst a) + s * (snd (fst b) - snd (fst a)),
   snd a + s * (snd b - snd a)).
Definition lin_comp (k : nat) (x : Q * Q * Q) : R := Q2R (tcomp k x).
Definition any_triple (_ : Q * Q * Q) : Prop := True.

Lemma lin3_start : forall a b s k,
  any_triple a -> s == 0 -> lin_comp k (lin3 a b s) = Q2R (tcomp k a).
Proof.
  intros a b s k _ Hs. unfold lin_comp. apply Qeq_eqR.
  destruct k as [| [| k]]; simpl; rewrite Hs; ring.
Qed.

Lemma lin3_end : forall a b s k,
  any_triple b -> s == 1 -> lin_comp k (lin3 a b s) = Q2R (tcomp k b).
Proof.
  intros a b s k _ Hs. unfold lin_comp. apply Qeq_eqR.
  destruct k as [| [| k]]; simpl; rewrite Hs; ring.
Qed.

(** lat lon alt VN roll pitch heading at t = 0..4, and its sub-sampling t = 0, 2, 4 *)
Definition ex_cols : list nat := [3; 4; 5; 6; 0; 1; 2]%nat.
Definition ex_full : table := mkTable ex_cols
  [ (0, [50; 30; 100; 0; 1; 2; 170]);
    (1, [50 + (1 # 1024); 30; 101; 1; 2; 2; 175]);
    (2, [50 + (2 # 1024); 30 + (1 # 1024); 103; 4; 3; 1; 180]);
    (3, [50 + (3 # 1024); 30 + (2 # 1024); 102; 9; 2; 0; -175]);
    (4, [50 + (4 # 1024); 30 + (2 # 1024); 100; 16; 1; -1; -170]) ].
Definition ex_sub : table := mkTable ex_cols
  [ (0, [50; 30; 100; 0; 1; 2; 170]);
    (2, [50 + (2 # 1024); 30 + (1 # 1024); 103; 4; 3; 1; 180]);
    (4, [50 + (4 # 1024); 30 + (2 # 1024); 100; 16; 1; -1; -170]) ].

Lemma ex_tables_ok :
  wf_table ex_full = true /\ wf_table ex_sub = true /\
  subsample ex_sub ex_full /\ median_dt ex_full < median_dt ex_sub /\
  ~ median_dt ex_full == median_dt ex_sub /\
  canon_table any_triple ex_full /\ canon_table any_triple ex_sub /\
  NoDup (cols ex_full).
Proof.
  split; [vm_compute; reflexivity |]. split; [vm_compute; reflexivity |].
  split.
  { split; [reflexivity |]. intros x Hx. simpl in Hx |- *. tauto. }
  split; [vm_compute; reflexivity |].
  split; [intro H; vm_compute in H; discriminate |].
  split; [intros _ r _; exact I |]. split; [intros _ r _; exact I |].
  unfold ex_full, ex_cols, cols. repeat constructor; simpl; intuition discriminate.
Qed.

(* ------------------------------------------------------------------ *)
(** * The recorded findings exhibited in the model (the model is faithful there) *)

(** finding subsample-equal-median-nonzero: VN = t^2 at t = 0..6 against the same
    table without t = 4; both medians are 1, nothing is swapped, the sub-sampling
    is interpolated at t = 4: 16 - 17 = -1 *)
Definition f1_full : table := mkTable [6%nat]
  [ (0, [0]); (1, [1]); (2, [4]); (3, [9]); (4, [16]); (5, [25]); (6, [36]) ].
Definition f1_sub : table := mkTable [6%nat]
  [ (0, [0]); (1, [1]); (2, [4]); (3, [9]); (5, [25]); (6, [36]) ].

Lemma subsample_equal_median_witness : forall ang slerp comp rn rp,
  wf_table f1_full = true /\ wf_table f1_sub = true /\ subsample f1_sub f1_full /\
  median_dt f1_full == median_dt f1_sub /\
  exists q, In (4, [DQ q]) (d_rows (state_diff ang slerp f1_full f1_sub)) /\
            dvalR ang comp rn rp (DQ q) = (-1)%R.
Proof.
  intros ang slerp comp rn rp.
  split; [vm_compute; reflexivity |]. split; [vm_compute; reflexivity |].
  split. { split; [reflexivity |]. intros x Hx. simpl in Hx |- *. tauto. }
  split; [vm_compute; reflexivity |].
  eexists. split.
  - vm_compute. do 4 right. left. reflexivity.
  - cbn [dvalR]. rewrite <- Q2R_mone. apply Qeq_eqR. vm_compute. reflexivity.
Qed.

(** finding subsample-smaller-median-nonzero: irregular sampling, the sub-sampling
    has the SMALLER median interval (1 against 10); the full table is taken as the
    sparser one and the sub-sampling is interpolated at t = 12: 9 - 11 = -2 *)
Definition f2_full : table := mkTable [6%nat]
  [ (0, [0]); (1, [1]); (2, [4]); (12, [9]); (22, [16]); (32, [25]) ].
Definition f2_sub : table := mkTable [6%nat]
  [ (0, [0]); (1, [1]); (2, [4]); (32, [25]) ].

Lemma subsample_smaller_median_witness : forall ang slerp comp rn rp,
  wf_table f2_full = true /\ wf_table f2_sub = true /\ subsample f2_sub f2_full /\
  median_dt f2_sub < median_dt f2_full /\
  (exists q, In (12, [DQ q]) (d_rows (state_diff ang slerp f2_full f2_sub)) /\
             dvalR ang comp rn rp (DQ q) = (-2)%R) /\
  (exists q, In (12, [DQ q]) (d_rows (state_diff ang slerp f2_sub f2_full)) /\
             dvalR ang comp rn rp (DQ q) = 2%R).
Proof.
  intros ang slerp comp rn rp.
  split; [vm_compute; reflexivity |]. split; [vm_compute; reflexivity |].
  split. { split; [reflexivity |]. intros x Hx. simpl in Hx |- *. tauto. }
  split; [vm_compute; reflexivity |].
  split; eexists; (split; [vm_compute; do 3 right; left; reflexivity |]); cbn [dvalR].
  - replace (-2)%R with (Q2R (-2)) by (unfold Q2R; simpl; lra). apply Qeq_eqR. vm_compute. reflexivity.
  - replace 2%R with (Q2R 2) by (unfold Q2R; simpl; lra). apply Qeq_eqR. vm_compute. reflexivity.
Qed.

(** finding equal-median-index-mismatch: same rate, offset stamps; neither call
    swaps, each result is indexed by its own first argument *)
Definition f3_a : table := mkTable [6%nat] [ (0, [0]); (1, [1]); (2, [2]); (3, [3]) ].
Definition f3_b : table := mkTable [6%nat]
  [ (1 # 2, [0]); (3 # 2, [1]); (5 # 2, [2]); (7 # 2, [3]) ].

Lemma equal_median_index_mismatch_witness : forall ang slerp,
  wf_table f3_a = true /\ wf_table f3_b = true /\ median_dt f3_a == median_dt f3_b /\
  map fst (d_rows (state_diff ang slerp f3_a f3_b)) = [1; 2; 3] /\
  map fst (d_rows (state_diff ang slerp f3_b f3_a)) = [1 # 2; 3 # 2; 5 # 2].
Proof.
  intros ang slerp. repeat split; vm_compute; reflexivity.
Qed.

(** the endpoint: a difference of exactly 180 degrees is +180 in both orders
    (heading 100 against -80; the repaired swapped branch wraps AFTER the sign) *)
Lemma angle_180_both_orders :
  to_180_range_arr_r (1 * (100 - -80)) = 180%R /\ to_180_range_arr_r (-1 * (100 - -80)) = 180%R.
Proof.
  rewrite <- !to180_scalar_eq_array. split.
  - apply (to180_unique _ _ 0%Z); simpl; lra.
  - apply (to180_unique _ _ (-1)%Z); simpl; lra.
Qed.

(** the theorems applied to the concrete tables (their hypotheses are jointly
    satisfiable on a table with position, velocity and attitude columns) *)
Lemma ex_well_formed : well_formed ex_full /\ well_formed ex_sub.
Proof.
  destruct ex_tables_ok as [H1 [H2 _]].
  split; apply wf_table_well_formed; assumption.
Qed.

Lemma ex_zero : forall rn rp,
  zero_table _ lin_comp rn rp (state_diff _ lin3 ex_full ex_full) (cols ex_full) (times ex_full) /\
  zero_table _ lin_comp rn rp (state_diff _ lin3 ex_full ex_sub) (cols ex_sub) (times ex_sub) /\
  zero_table _ lin_comp rn rp (state_diff _ lin3 ex_sub ex_full) (cols ex_sub) (times ex_sub) /\
  table_antisym _ lin_comp rn rp (state_diff _ lin3 ex_full ex_sub) (state_diff _ lin3 ex_sub ex_full).
Proof.
  intros rn rp. destruct ex_well_formed as [Wf Ws].
  destruct ex_tables_ok as [_ [_ [Hsub [Hlt [Hne [Cf [Cs _]]]]]]].
  split; [| split; [| split]].
  - exact (diff_self_zero _ lin3 lin_comp any_triple rn rp lin3_start lin3_end ex_full Wf Cf).
  - apply (diff_subsample_zero _ lin3 lin_comp any_triple rn rp lin3_start lin3_end
             ex_full ex_sub Wf Ws Cf Hsub). exact Hlt.
  - apply (diff_subsample_zero _ lin3 lin_comp any_triple rn rp lin3_start lin3_end
             ex_full ex_sub Wf Ws Cf Hsub). apply Qlt_le_weak. exact Hlt.
  - apply diff_antisym_swap. exact Hne.
Qed.
