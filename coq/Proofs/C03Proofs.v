(** C03: the IMU synthesiser (pyins.sim) matches the true kinematics and inverts the strapdown equations.

    Theorems about the definitions GENERATED from /repo:
      Gen/C03Gen.v    incr_readings_*  (sim._compute_increment_readings, one interval)
                      imu_rate_*, imu_incr_* (sim.generate_imu on two samples, position+velocity form)
      Gen/Earth.v     gravitation_ecef_*, gravity_g, rate_n_*
      Gen/Transform.v lla_to_ecef_*, mat_en_from_ll_*, mat_from_rph_*
    against the hand-written physics of Spec/NavODE.v and the vector definitions below
    (specification-side definitions of this file: vec3 ... sf_body; no axioms). *)
From Coq Require Import Reals Lra.
From Coquelicot Require Import Coquelicot.
From PV Require Import Base.RealTac Spec.LibSpecs Spec.Ellipsoid Spec.NavODE.
From PV Require Import Gen.Earth Gen.Transform Gen.C03Gen Proofs.C16Proofs.
Open Scope R_scope.

(** * 0. Specification-side vocabulary *)

Definition vec3 := (R * R * R)%type.
Definition vx (v : vec3) : R := fst (fst v).
Definition vy (v : vec3) : R := snd (fst v).
Definition vz (v : vec3) : R := snd v.
Definition vadd (u v : vec3) : vec3 := (vx u + vx v, vy u + vy v, vz u + vz v).
Definition vsub (u v : vec3) : vec3 := (vx u - vx v, vy u - vy v, vz u - vz v).
Definition vscale (k : R) (v : vec3) : vec3 := (k * vx v, k * vy v, k * vz v).
Definition cross (u v : vec3) : vec3 :=
  (vy u * vz v - vz u * vy v, vz u * vx v - vx u * vz v, vx u * vy v - vy u * vx v).

(** rotation vector of one spline interval, theta(tau) = a tau + b tau^2 + c tau^3, and its derivative *)
Definition theta (a b c : vec3) (t : R) : vec3 :=
  vadd (vscale t a) (vadd (vscale (t * t) b) (vscale (t * t * t) c)).
Definition theta_dot (a b c : vec3) (t : R) : vec3 :=
  vadd a (vadd (vscale (2 * t) b) (vscale (3 * (t * t)) c)).

(** body angular rate from the rotation vector, third order in theta:
      w = theta' - 1/2 theta x theta' + 1/6 theta x (theta x theta')
    (the series of  w = theta' - (1-cos|th|)/|th|^2 th x th' + (|th|-sin|th|)/|th|^3 th x (th x th')). *)
Definition body_rate3 (a b c : vec3) (t : R) : vec3 :=
  let th := theta a b c t in let thd := theta_dot a b c t in
  vadd (vsub thd (vscale (1 / 2) (cross th thd))) (vscale (1 / 6) (cross th (cross th thd))).

(** specific force d + e tau given in the body axes of the interval start, resolved in the current body
    axes with the second-order transposed rotation  I - [th x] + 1/2 [th x]^2 *)
Definition body_force2 (a b c d e : vec3) (t : R) : vec3 :=
  let th := theta a b c t in let f := vadd d (vscale t e) in
  vadd (vsub f (cross th f)) (vscale (1 / 2) (cross th (cross th f))).

Ltac unf_vec := cbv [body_rate3 body_force2 theta theta_dot vadd vsub vscale cross vx vy vz fst snd].
Ltac unf_incr := unfold incr_readings_gyros0, incr_readings_gyros1, incr_readings_gyros2,
   incr_readings_accels0, incr_readings_accels1, incr_readings_accels2;
   repeat autounfold with incr_readings_db.

(** * 1. _compute_increment_readings: exact coefficients, exact integrals *)

Lemma theta_derive a b c t :
  is_derive (fun s => vx (theta a b c s)) t (vx (theta_dot a b c t)) /\
  is_derive (fun s => vy (theta a b c s)) t (vy (theta_dot a b c t)) /\
  is_derive (fun s => vz (theta a b c s)) t (vz (theta_dot a b c t)).
Proof.
  destruct a as [[a0 a1] a2], b as [[b0 b1] b2], c as [[c0 c1] c2]. unf_vec.
  split; [|split]; (auto_derive; [exact I|]); ring.
Qed.

(** the fundamental theorem of calculus for an everywhere differentiable primitive vanishing at 0 *)
Lemma RInt_of_primitive (F f : R -> R) (T : R) :
  (forall x, is_derive F x (f x)) -> (forall x, ex_derive f x) -> F 0 = 0 ->
  is_RInt f 0 T (F T).
Proof.
  intros HF Hf H0.
  replace (F T) with (F T - F 0) by (rewrite H0; ring).
  apply (is_RInt_derive F f 0 T).
  - intros x _. apply HF.
  - intros x _. apply (ex_derive_continuous (V := R_NormedModule)). apply Hf.
Qed.

Section Increments.
Variables a0 a1 a2 b0 b1 b2 c0 c1 c2 d0 d1 d2 e0 e1 e2 : R.
Let a : vec3 := (a0, a1, a2).
Let b : vec3 := (b0, b1, b2).
Let c : vec3 := (c0, c1, c2).
Let d : vec3 := (d0, d1, d2).
Let e : vec3 := (e0, e1, e2).
Let G0 T := incr_readings_gyros0 T a0 a1 a2 b0 b1 b2 c0 c1 c2 d0 d1 d2 e0 e1 e2.
Let G1 T := incr_readings_gyros1 T a0 a1 a2 b0 b1 b2 c0 c1 c2 d0 d1 d2 e0 e1 e2.
Let G2 T := incr_readings_gyros2 T a0 a1 a2 b0 b1 b2 c0 c1 c2 d0 d1 d2 e0 e1 e2.
Let A0 T := incr_readings_accels0 T a0 a1 a2 b0 b1 b2 c0 c1 c2 d0 d1 d2 e0 e1 e2.
Let A1 T := incr_readings_accels1 T a0 a1 a2 b0 b1 b2 c0 c1 c2 d0 d1 d2 e0 e1 e2.
Let A2 T := incr_readings_accels2 T a0 a1 a2 b0 b1 b2 c0 c1 c2 d0 d1 d2 e0 e1 e2.

(** d/d(dt) of the Horner accumulation IS the body-rate polynomial: all eight omega[k] are pinned. *)
Lemma gyro_poly_derive dt :
  is_derive G0 dt (vx (body_rate3 a b c dt)) /\
  is_derive G1 dt (vy (body_rate3 a b c dt)) /\
  is_derive G2 dt (vz (body_rate3 a b c dt)).
Proof.
  subst G0 G1 G2 a b c. unf_incr.
  split; [|split]; (auto_derive; [exact I|]); unf_vec; field.
Qed.

Lemma accel_poly_derive dt :
  is_derive A0 dt (vx (body_force2 a b c d e dt)) /\
  is_derive A1 dt (vy (body_force2 a b c d e dt)) /\
  is_derive A2 dt (vz (body_force2 a b c d e dt)).
Proof.
  subst A0 A1 A2 a b c d e. unf_incr.
  split; [|split]; (auto_derive; [exact I|]); unf_vec; field.
Qed.

Lemma incr_at_zero :
  G0 0 = 0 /\ G1 0 = 0 /\ G2 0 = 0 /\ A0 0 = 0 /\ A1 0 = 0 /\ A2 0 = 0.
Proof. subst G0 G1 G2 A0 A1 A2. unf_incr. repeat split; field. Qed.

Lemma body_rate3_smooth t :
  ex_derive (fun s => vx (body_rate3 a b c s)) t /\
  ex_derive (fun s => vy (body_rate3 a b c s)) t /\
  ex_derive (fun s => vz (body_rate3 a b c s)) t.
Proof. subst a b c. unf_vec. repeat split; auto_derive; exact I. Qed.

Lemma body_force2_smooth t :
  ex_derive (fun s => vx (body_force2 a b c d e s)) t /\
  ex_derive (fun s => vy (body_force2 a b c d e s)) t /\
  ex_derive (fun s => vz (body_force2 a b c d e s)) t.
Proof. subst a b c d e. unf_vec. repeat split; auto_derive; exact I. Qed.

Lemma gyro_poly_exact dt :
  (forall T, is_derive G0 T (vx (body_rate3 a b c T)) /\ is_derive G1 T (vy (body_rate3 a b c T)) /\
             is_derive G2 T (vz (body_rate3 a b c T))) /\
  is_RInt (fun s => vx (body_rate3 a b c s)) 0 dt (G0 dt) /\
  is_RInt (fun s => vy (body_rate3 a b c s)) 0 dt (G1 dt) /\
  is_RInt (fun s => vz (body_rate3 a b c s)) 0 dt (G2 dt).
Proof.
  destruct incr_at_zero as [Z0 [Z1 [Z2 _]]].
  split; [exact gyro_poly_derive|].
  split; [|split]; apply RInt_of_primitive; try assumption;
    try (intro x; apply gyro_poly_derive); intro x; apply body_rate3_smooth.
Qed.

Lemma accel_poly_exact dt :
  (forall T, is_derive A0 T (vx (body_force2 a b c d e T)) /\ is_derive A1 T (vy (body_force2 a b c d e T)) /\
             is_derive A2 T (vz (body_force2 a b c d e T))) /\
  is_RInt (fun s => vx (body_force2 a b c d e s)) 0 dt (A0 dt) /\
  is_RInt (fun s => vy (body_force2 a b c d e s)) 0 dt (A1 dt) /\
  is_RInt (fun s => vz (body_force2 a b c d e s)) 0 dt (A2 dt).
Proof.
  destruct incr_at_zero as [_ [_ [_ [Z0 [Z1 Z2]]]]].
  split; [exact accel_poly_derive|].
  split; [|split]; apply RInt_of_primitive; try assumption;
    try (intro x; apply accel_poly_derive); intro x; apply body_force2_smooth.
Qed.
End Increments.
