(** C03: the IMU synthesiser (pyins.sim) matches the true kinematics and inverts the strapdown equations.

    Theorems about the definitions GENERATED from /repo:
      Gen/C03Gen.v    incr_readings_*  (sim._compute_increment_readings, one interval)
                      imu_rate_*, imu_incr_* (sim.generate_imu on two samples, position+velocity form)
      Gen/Earth.v     gravitation_ecef_*, gravity_g, rate_n_*
      Gen/Transform.v lla_to_ecef_*, mat_en_from_ll_*, mat_from_rph_*
    against the hand-written physics of Spec/NavODE.v and the vector definitions below
    (specification-side definitions of this file: vec3 ... sf_body; no axioms). *)
From Coq Require Import Reals Lra Lia.
From Coquelicot Require Import Coquelicot.
From PV Require Import Base.RealTac Spec.LibSpecs Spec.Ellipsoid Spec.NavODE.
From PV Require Import Gen.Earth Gen.Transform Gen.C03Gen Proofs.C16Proofs.
Open Scope R_scope.

(** * 0. Specification-side vocabulary *)

Definition vec3 := (R * R * R)%type.
Definition vx (v : vec3) : R := fst (fst v).
Definition vy (v : vec3) : R := snd (fst v).
Definition vz (v : vec3) : R := snd v.
Definition vadd (u v : vec3) : vec3 := (vx u + vx v, vy u + vy v, vz u + vz v).
Definition vsub (u v : vec3) : vec3 := (vx u - vx v, vy u - vy v, vz u - vz v).
Definition vscale (k : R) (v : vec3) : vec3 := (k * vx v, k * vy v, k * vz v).
Definition cross (u v : vec3) : vec3 :=
  (vy u * vz v - vz u * vy v, vz u * vx v - vx u * vz v, vx u * vy v - vy u * vx v).

(** rotation vector of one spline interval, theta(tau) = a tau + b tau^2 + c tau^3, and its derivative *)
Definition theta (a b c : vec3) (t : R) : vec3 :=
  vadd (vscale t a) (vadd (vscale (t * t) b) (vscale (t * t * t) c)).
Definition theta_dot (a b c : vec3) (t : R) : vec3 :=
  vadd a (vadd (vscale (2 * t) b) (vscale (3 * (t * t)) c)).

(** body angular rate from the rotation vector, third order in theta:
      w = theta' - 1/2 theta x theta' + 1/6 theta x (theta x theta')
    (the series of  w = theta' - (1-cos|th|)/|th|^2 th x th' + (|th|-sin|th|)/|th|^3 th x (th x th')). *)
Definition body_rate3 (a b c : vec3) (t : R) : vec3 :=
  let th := theta a b c t in let thd := theta_dot a b c t in
  vadd (vsub thd (vscale (1 / 2) (cross th thd))) (vscale (1 / 6) (cross th (cross th thd))).

(** specific force d + e tau given in the body axes of the interval start, resolved in the current body
    axes with the second-order transposed rotation  I - [th x] + 1/2 [th x]^2 *)
Definition body_force2 (a b c d e : vec3) (t : R) : vec3 :=
  let th := theta a b c t in let f := vadd d (vscale t e) in
  vadd (vsub f (cross th f)) (vscale (1 / 2) (cross th (cross th f))).

Ltac unf_vec := cbv [body_rate3 body_force2 theta theta_dot vadd vsub vscale cross vx vy vz fst snd].
Ltac unf_incr := unfold incr_readings_gyros0, incr_readings_gyros1, incr_readings_gyros2,
   incr_readings_accels0, incr_readings_accels1, incr_readings_accels2;
   repeat autounfold with incr_readings_db.

(** * 1. _compute_increment_readings: exact coefficients, exact integrals *)

Lemma theta_derive a b c t :
  is_derive (fun s => vx (theta a b c s)) t (vx (theta_dot a b c t)) /\
  is_derive (fun s => vy (theta a b c s)) t (vy (theta_dot a b c t)) /\
  is_derive (fun s => vz (theta a b c s)) t (vz (theta_dot a b c t)).
Proof.
  destruct a as [[a0 a1] a2], b as [[b0 b1] b2], c as [[c0 c1] c2]. unf_vec.
  split; [|split]; (auto_derive; [exact I|]); ring.
Qed.

(** the fundamental theorem of calculus for an everywhere differentiable primitive vanishing at 0 *)
Lemma RInt_of_primitive (F f : R -> R) (T : R) :
  (forall x, is_derive F x (f x)) -> (forall x, ex_derive f x) -> F 0 = 0 ->
  is_RInt f 0 T (F T).
Proof.
  intros HF Hf H0.
  replace (F T) with (F T - F 0) by (rewrite H0; ring).
  apply (is_RInt_derive F f 0 T).
  - intros x _. apply HF.
  - intros x _. apply (ex_derive_continuous (V := R_NormedModule)). apply Hf.
Qed.

Section Increments.
Variables a0 a1 a2 b0 b1 b2 c0 c1 c2 d0 d1 d2 e0 e1 e2 : R.
Let a : vec3 := (a0, a1, a2).
Let b : vec3 := (b0, b1, b2).
Let c : vec3 := (c0, c1, c2).
Let d : vec3 := (d0, d1, d2).
Let e : vec3 := (e0, e1, e2).
Let G0 T := incr_readings_gyros0 T a0 a1 a2 b0 b1 b2 c0 c1 c2 d0 d1 d2 e0 e1 e2.
Let G1 T := incr_readings_gyros1 T a0 a1 a2 b0 b1 b2 c0 c1 c2 d0 d1 d2 e0 e1 e2.
Let G2 T := incr_readings_gyros2 T a0 a1 a2 b0 b1 b2 c0 c1 c2 d0 d1 d2 e0 e1 e2.
Let A0 T := incr_readings_accels0 T a0 a1 a2 b0 b1 b2 c0 c1 c2 d0 d1 d2 e0 e1 e2.
Let A1 T := incr_readings_accels1 T a0 a1 a2 b0 b1 b2 c0 c1 c2 d0 d1 d2 e0 e1 e2.
Let A2 T := incr_readings_accels2 T a0 a1 a2 b0 b1 b2 c0 c1 c2 d0 d1 d2 e0 e1 e2.

(** d/d(dt) of the Horner accumulation IS the body-rate polynomial: all eight omega[k] are pinned. *)
Lemma gyro_poly_derive dt :
  is_derive G0 dt (vx (body_rate3 a b c dt)) /\
  is_derive G1 dt (vy (body_rate3 a b c dt)) /\
  is_derive G2 dt (vz (body_rate3 a b c dt)).
Proof.
  subst G0 G1 G2 a b c. unf_incr.
  split; [|split]; (auto_derive; [exact I|]); unf_vec; field.
Qed.

Lemma accel_poly_derive dt :
  is_derive A0 dt (vx (body_force2 a b c d e dt)) /\
  is_derive A1 dt (vy (body_force2 a b c d e dt)) /\
  is_derive A2 dt (vz (body_force2 a b c d e dt)).
Proof.
  subst A0 A1 A2 a b c d e. unf_incr.
  split; [|split]; (auto_derive; [exact I|]); unf_vec; field.
Qed.

Lemma incr_at_zero :
  G0 0 = 0 /\ G1 0 = 0 /\ G2 0 = 0 /\ A0 0 = 0 /\ A1 0 = 0 /\ A2 0 = 0.
Proof. subst G0 G1 G2 A0 A1 A2. unf_incr. repeat split; field. Qed.

Lemma body_rate3_smooth t :
  ex_derive (fun s => vx (body_rate3 a b c s)) t /\
  ex_derive (fun s => vy (body_rate3 a b c s)) t /\
  ex_derive (fun s => vz (body_rate3 a b c s)) t.
Proof. subst a b c. unf_vec. repeat split; auto_derive; exact I. Qed.

Lemma body_force2_smooth t :
  ex_derive (fun s => vx (body_force2 a b c d e s)) t /\
  ex_derive (fun s => vy (body_force2 a b c d e s)) t /\
  ex_derive (fun s => vz (body_force2 a b c d e s)) t.
Proof. subst a b c d e. unf_vec. repeat split; auto_derive; exact I. Qed.

Lemma gyro_poly_exact dt :
  (forall T, is_derive G0 T (vx (body_rate3 a b c T)) /\ is_derive G1 T (vy (body_rate3 a b c T)) /\
             is_derive G2 T (vz (body_rate3 a b c T))) /\
  is_RInt (fun s => vx (body_rate3 a b c s)) 0 dt (G0 dt) /\
  is_RInt (fun s => vy (body_rate3 a b c s)) 0 dt (G1 dt) /\
  is_RInt (fun s => vz (body_rate3 a b c s)) 0 dt (G2 dt).
Proof.
  destruct incr_at_zero as [Z0 [Z1 [Z2 _]]].
  split; [exact gyro_poly_derive|].
  split; [|split]; apply RInt_of_primitive; try assumption;
    try (intro x; apply gyro_poly_derive); intro x; apply body_rate3_smooth.
Qed.

Lemma accel_poly_exact dt :
  (forall T, is_derive A0 T (vx (body_force2 a b c d e T)) /\ is_derive A1 T (vy (body_force2 a b c d e T)) /\
             is_derive A2 T (vz (body_force2 a b c d e T))) /\
  is_RInt (fun s => vx (body_force2 a b c d e s)) 0 dt (A0 dt) /\
  is_RInt (fun s => vy (body_force2 a b c d e s)) 0 dt (A1 dt) /\
  is_RInt (fun s => vz (body_force2 a b c d e s)) 0 dt (A2 dt).
Proof.
  destruct incr_at_zero as [_ [_ [_ [Z0 [Z1 Z2]]]]].
  split; [exact accel_poly_derive|].
  split; [|split]; apply RInt_of_primitive; try assumption;
    try (intro x; apply accel_poly_derive); intro x; apply body_force2_smooth.
Qed.
End Increments.

(** [w] is the angular velocity of the moving frame C(s) = (cij s) with respect to the frame its columns are
    written in, resolved in the moving frame itself:  C^T C' = [w x]  at time t. *)
Definition body_rate_of (c00 c01 c02 c10 c11 c12 c20 c21 c22 : R -> R) (t w0 w1 w2 : R) : Prop :=
  (ex_derive c00 t /\ ex_derive c01 t /\ ex_derive c02 t /\ ex_derive c10 t /\ ex_derive c11 t /\
   ex_derive c12 t /\ ex_derive c20 t /\ ex_derive c21 t /\ ex_derive c22 t) /\
  c00 t * Derive c00 t + c10 t * Derive c10 t + c20 t * Derive c20 t = 0 /\
  c00 t * Derive c01 t + c10 t * Derive c11 t + c20 t * Derive c21 t = - w2 /\
  c00 t * Derive c02 t + c10 t * Derive c12 t + c20 t * Derive c22 t = w1 /\
  c01 t * Derive c00 t + c11 t * Derive c10 t + c21 t * Derive c20 t = w2 /\
  c01 t * Derive c01 t + c11 t * Derive c11 t + c21 t * Derive c21 t = 0 /\
  c01 t * Derive c02 t + c11 t * Derive c12 t + c21 t * Derive c22 t = - w0 /\
  c02 t * Derive c00 t + c12 t * Derive c10 t + c22 t * Derive c20 t = - w1 /\
  c02 t * Derive c01 t + c12 t * Derive c11 t + c22 t * Derive c21 t = w0 /\
  c02 t * Derive c02 t + c12 t * Derive c12 t + c22 t * Derive c22 t = 0.

Ltac unf_rph := unfold mat_from_rph_m00, mat_from_rph_m01, mat_from_rph_m02, mat_from_rph_m10, mat_from_rph_m11,
   mat_from_rph_m12, mat_from_rph_m20, mat_from_rph_m21, mat_from_rph_m22; repeat autounfold with mat_from_rph_db.
Ltac split_all := repeat (match goal with |- _ /\ _ => split end).

(** * 2. A body at rest *)

(** longitude of the Earth-fixed meridian [lon] seen from the inertial frame that coincides with ECEF at t = 0
    (generate_imu: lla_inertial[:, 1] += rad2deg(RATE) * time) *)
Definition lon_i (lon t : R) : R := lon + RATE_ * (180 / PI) * t.

Section AtRest.
Variables lat lon alt : R.
Let lam (s : R) : R := lon_i lon s.
Let x (s : R) : R := lla_to_ecef_r0 lat (lam s) alt.
Let y (s : R) : R := lla_to_ecef_r1 lat (lam s) alt.
Let z (s : R) : R := lla_to_ecef_r2 lat (lam s) alt.
Let M00 (s : R) : R := mat_en_from_ll_m00 lat (lam s).
Let M01 (s : R) : R := mat_en_from_ll_m01 lat (lam s).
Let M02 (s : R) : R := mat_en_from_ll_m02 lat (lam s).
Let M10 (s : R) : R := mat_en_from_ll_m10 lat (lam s).
Let M11 (s : R) : R := mat_en_from_ll_m11 lat (lam s).
Let M12 (s : R) : R := mat_en_from_ll_m12 lat (lam s).
Let M20 (s : R) : R := mat_en_from_ll_m20 lat (lam s).
Let M21 (s : R) : R := mat_en_from_ll_m21 lat (lam s).
Let M22 (s : R) : R := mat_en_from_ll_m22 lat (lam s).

Lemma rest_velocity t :
  is_derive x t (- RATE_ * y t) /\ is_derive y t (RATE_ * x t) /\ is_derive z t 0.
Proof.
  subst x y z lam. unfold lon_i. unf_ecef.
  pose proof (sqrtW_pos (lat * (PI/180))) as HQ.
  split; [|split]; (auto_derive; [auto|]); field; (split; [lra | apply PI_neq0]) || apply PI_neq0.
Qed.

Lemma rest_acceleration t :
  is_derive_n x 2 t (- (RATE_ * RATE_) * x t) /\
  is_derive_n y 2 t (- (RATE_ * RATE_) * y t) /\
  is_derive_n z 2 t 0.
Proof.
  pose proof (sqrtW_pos (lat * (PI/180))) as HQ.
  split; [|split].
  - change (is_derive (Derive x) t (- (RATE_ * RATE_) * x t)).
    apply (is_derive_ext (fun s => - RATE_ * y s)).
    + intro s. symmetry. apply is_derive_unique. apply rest_velocity.
    + subst x y z lam. unfold lon_i. unf_ecef.
      auto_derive; [auto|]. field. split; [lra | apply PI_neq0].
  - change (is_derive (Derive y) t (- (RATE_ * RATE_) * y t)).
    apply (is_derive_ext (fun s => RATE_ * x s)).
    + intro s. symmetry. apply is_derive_unique. apply rest_velocity.
    + subst x y z lam. unfold lon_i. unf_ecef.
      auto_derive; [auto|]. field. split; [lra | apply PI_neq0].
  - change (is_derive (Derive z) t 0).
    apply (is_derive_ext (fun s => 0)).
    + intro s. symmetry. apply is_derive_unique. apply rest_velocity.
    + auto_derive; [auto|]. ring.
Qed.

(** the inertially referenced NED frame of the resting body turns with Earth rate: d/dt C = [Omega x] C *)
Lemma rest_frame_derive t :
  is_derive M00 t (- RATE_ * M10 t) /\ is_derive M01 t (- RATE_ * M11 t) /\ is_derive M02 t (- RATE_ * M12 t) /\
  is_derive M10 t (RATE_ * M00 t) /\ is_derive M11 t (RATE_ * M01 t) /\ is_derive M12 t (RATE_ * M02 t) /\
  is_derive M20 t 0 /\ is_derive M21 t 0 /\ is_derive M22 t 0.
Proof.
  subst M00 M01 M02 M10 M11 M12 M20 M21 M22 lam. unfold lon_i. unf_en.
  split_all; (auto_derive; [auto|]); field; apply PI_neq0.
Qed.

Lemma rest_specific_force t :
  -90 <= lat <= 90 ->
  let fx := Derive_n x 2 t - gravitation_ecef_g0 lat (lam t) alt in
  let fy := Derive_n y 2 t - gravitation_ecef_g1 lat (lam t) alt in
  let fz := Derive_n z 2 t - gravitation_ecef_g2 lat (lam t) alt in
  M00 t * fx + M10 t * fy + M20 t * fz = 0 /\
  M01 t * fx + M11 t * fy + M21 t * fz = 0 /\
  M02 t * fx + M12 t * fy + M22 t * fz
    = - gravity_g lat alt.
Proof.
  intros Hlat. cbv zeta.
  destruct (rest_acceleration t) as [Hx [Hy Hz]].
  rewrite (is_derive_n_unique _ _ _ _ Hx), (is_derive_n_unique _ _ _ _ Hy), (is_derive_n_unique _ _ _ _ Hz).
  destruct (gravitation_is_gravity_minus_centrifugal lat (lam t) alt Hlat) as [G0 [G1 G2]].
  rewrite G0, G1, G2. unfold centrifugal_x, centrifugal_y, centrifugal_z.
  fold (x t) (y t) (z t).
  generalize (gravity_g lat alt) (x t) (y t) (z t). intros g X Y Z.
  subst M00 M01 M02 M10 M11 M12 M20 M21 M22. cbv beta. unf_en. rewrite !cos_m90, !sin_m90.
  set (phi := lat * (PI / 180)). set (l := lam t * (PI / 180)).
  assert (Hp : sin phi * sin phi = 1 - cos phi * cos phi) by (pose proof (sc1 phi); lra).
  assert (Hl : sin l * sin l = 1 - cos l * cos l) by (pose proof (sc1 l); lra).
  repeat split; ring [Hp Hl].
Qed.

(** the inertially referenced NED frame of the resting body turns with rate_n(lat), resolved in NED *)
Lemma rest_frame_rate t :
  body_rate_of M00 M01 M02 M10 M11 M12 M20 M21 M22 t (rate_n_w0 lat) (rate_n_w1 lat) (rate_n_w2 lat).
Proof.
  destruct (rest_frame_derive t) as [D00 [D01 [D02 [D10 [D11 [D12 [D20 [D21 D22]]]]]]]].
  unfold body_rate_of. split.
  - split_all; eexists; eassumption.
  - rewrite (is_derive_unique _ _ _ D00), (is_derive_unique _ _ _ D01), (is_derive_unique _ _ _ D02),
      (is_derive_unique _ _ _ D10), (is_derive_unique _ _ _ D11), (is_derive_unique _ _ _ D12),
      (is_derive_unique _ _ _ D20), (is_derive_unique _ _ _ D21), (is_derive_unique _ _ _ D22).
    subst M00 M01 M02 M10 M11 M12 M20 M21 M22. cbv beta.
    unf_rate. unf_en. rewrite !cos_m90, !sin_m90. unfold RATE_.
    set (phi := lat * (PI / 180)). set (l := lam t * (PI / 180)).
    assert (Hp : sin phi * sin phi = 1 - cos phi * cos phi) by (pose proof (sc1 phi); lra).
    assert (Hl : sin l * sin l = 1 - cos l * cos l) by (pose proof (sc1 l); lra).
    split_all; ring [Hp Hl].
Qed.

(** attitude of the resting body: C_ib(s) = C_in(s) C_nb with C_nb = mat_from_rph(roll, pitch, heading) fixed *)
Variables roll pitch heading : R.
Let R00 := mat_from_rph_m00 roll pitch heading. Let R01 := mat_from_rph_m01 roll pitch heading.
Let R02 := mat_from_rph_m02 roll pitch heading. Let R10 := mat_from_rph_m10 roll pitch heading.
Let R11 := mat_from_rph_m11 roll pitch heading. Let R12 := mat_from_rph_m12 roll pitch heading.
Let R20 := mat_from_rph_m20 roll pitch heading. Let R21 := mat_from_rph_m21 roll pitch heading.
Let R22 := mat_from_rph_m22 roll pitch heading.
Let B00 s := dot3 (M00 s) (M01 s) (M02 s) R00 R10 R20.
Let B01 s := dot3 (M00 s) (M01 s) (M02 s) R01 R11 R21.
Let B02 s := dot3 (M00 s) (M01 s) (M02 s) R02 R12 R22.
Let B10 s := dot3 (M10 s) (M11 s) (M12 s) R00 R10 R20.
Let B11 s := dot3 (M10 s) (M11 s) (M12 s) R01 R11 R21.
Let B12 s := dot3 (M10 s) (M11 s) (M12 s) R02 R12 R22.
Let B20 s := dot3 (M20 s) (M21 s) (M22 s) R00 R10 R20.
Let B21 s := dot3 (M20 s) (M21 s) (M22 s) R01 R11 R21.
Let B22 s := dot3 (M20 s) (M21 s) (M22 s) R02 R12 R22.

Lemma rest_body_derive t :
  is_derive B00 t (- RATE_ * B10 t) /\ is_derive B01 t (- RATE_ * B11 t) /\ is_derive B02 t (- RATE_ * B12 t) /\
  is_derive B10 t (RATE_ * B00 t) /\ is_derive B11 t (RATE_ * B01 t) /\ is_derive B12 t (RATE_ * B02 t) /\
  is_derive B20 t 0 /\ is_derive B21 t 0 /\ is_derive B22 t 0.
Proof.
  subst B00 B01 B02 B10 B11 B12 B20 B21 B22. cbv beta.
  generalize R00 R01 R02 R10 R11 R12 R20 R21 R22. intros r00 r01 r02 r10 r11 r12 r20 r21 r22.
  subst M00 M01 M02 M10 M11 M12 M20 M21 M22 lam. unfold dot3, lon_i. unf_en.
  split_all; (auto_derive; [auto|]); field; apply PI_neq0.
Qed.

(** gyro of the resting body: C_nb^T rate_n(lat) *)
Lemma rest_body_rate t :
  body_rate_of B00 B01 B02 B10 B11 B12 B20 B21 B22 t
    (dot3 R00 R10 R20 (rate_n_w0 lat) (rate_n_w1 lat) (rate_n_w2 lat))
    (dot3 R01 R11 R21 (rate_n_w0 lat) (rate_n_w1 lat) (rate_n_w2 lat))
    (dot3 R02 R12 R22 (rate_n_w0 lat) (rate_n_w1 lat) (rate_n_w2 lat)).
Proof.
  destruct (rest_body_derive t) as [D00 [D01 [D02 [D10 [D11 [D12 [D20 [D21 D22]]]]]]]].
  unfold body_rate_of. split.
  - split_all; eexists; eassumption.
  - rewrite (is_derive_unique _ _ _ D00), (is_derive_unique _ _ _ D01), (is_derive_unique _ _ _ D02),
      (is_derive_unique _ _ _ D10), (is_derive_unique _ _ _ D11), (is_derive_unique _ _ _ D12),
      (is_derive_unique _ _ _ D20), (is_derive_unique _ _ _ D21), (is_derive_unique _ _ _ D22).
    subst B00 B01 B02 B10 B11 B12 B20 B21 B22 R00 R01 R02 R10 R11 R12 R20 R21 R22. cbv beta.
    subst M00 M01 M02 M10 M11 M12 M20 M21 M22. cbv beta.
    unfold dot3. unf_rate. unf_en. unf_rph. rewrite !cos_m90, !sin_m90. unfold RATE_.
    set (phi := lat * (PI / 180)). set (l := lam t * (PI / 180)).
    set (ro := roll * (PI / 180)). set (pi := pitch * (PI / 180)). set (he := heading * (PI / 180)).
    assert (Hp : sin phi * sin phi = 1 - cos phi * cos phi) by (pose proof (sc1 phi); lra).
    assert (Hl : sin l * sin l = 1 - cos l * cos l) by (pose proof (sc1 l); lra).
    assert (Hr : sin ro * sin ro = 1 - cos ro * cos ro) by (pose proof (sc1 ro); lra).
    assert (Hq : sin pi * sin pi = 1 - cos pi * cos pi) by (pose proof (sc1 pi); lra).
    assert (Hh : sin he * sin he = 1 - cos he * cos he) by (pose proof (sc1 he); lra).
    split_all; ring [Hp Hl Hr Hq Hh].
Qed.

(** accelerometer of the resting body, in body axes: - C_nb^T (0, 0, g) *)
Lemma rest_body_specific_force t :
  -90 <= lat <= 90 ->
  let fx := Derive_n x 2 t - gravitation_ecef_g0 lat (lam t) alt in
  let fy := Derive_n y 2 t - gravitation_ecef_g1 lat (lam t) alt in
  let fz := Derive_n z 2 t - gravitation_ecef_g2 lat (lam t) alt in
  B00 t * fx + B10 t * fy + B20 t * fz = - (R20 * gravity_g lat alt) /\
  B01 t * fx + B11 t * fy + B21 t * fz = - (R21 * gravity_g lat alt) /\
  B02 t * fx + B12 t * fy + B22 t * fz = - (R22 * gravity_g lat alt).
Proof.
  intros Hlat. destruct (rest_specific_force t Hlat) as [E0 [E1 E2]]. cbv zeta in *.
  revert E0 E1 E2.
  generalize (Derive_n x 2 t - gravitation_ecef_g0 lat (lam t) alt)
             (Derive_n y 2 t - gravitation_ecef_g1 lat (lam t) alt)
             (Derive_n z 2 t - gravitation_ecef_g2 lat (lam t) alt) (gravity_g lat alt).
  intros fx fy fz g E0 E1 E2.
  subst B00 B01 B02 B10 B11 B12 B20 B21 B22. cbv beta. unfold dot3.
  generalize R00 R01 R02 R10 R11 R12 R20 R21 R22. intros r00 r01 r02 r10 r11 r12 r20 r21 r22.
  split_all.
  - transitivity (r00 * (M00 t * fx + M10 t * fy + M20 t * fz)
                + r10 * (M01 t * fx + M11 t * fy + M21 t * fz)
                + r20 * (M02 t * fx + M12 t * fy + M22 t * fz)); [ring|].
    rewrite E0, E1, E2. ring.
  - transitivity (r01 * (M00 t * fx + M10 t * fy + M20 t * fz)
                + r11 * (M01 t * fx + M11 t * fy + M21 t * fz)
                + r21 * (M02 t * fx + M12 t * fy + M22 t * fz)); [ring|].
    rewrite E0, E1, E2. ring.
  - transitivity (r02 * (M00 t * fx + M10 t * fy + M20 t * fz)
                + r12 * (M01 t * fx + M11 t * fy + M21 t * fz)
                + r22 * (M02 t * fx + M12 t * fy + M22 t * fz)); [ring|].
    rewrite E0, E1, E2. ring.
Qed.
End AtRest.

(** * 3. A moving body: generate_imu's accelerometer / gyro formulas invert the navigation equations *)

(** inertial velocity as generate_imu forms it:  v_i = C_in v_n + Omega x r_i  (Omega = (0,0,RATE)),
    at geodetic position (lat, lonI, alt) with lonI the inertial longitude *)
Definition vi_x (lat lonI alt vN vE vD : R) : R :=
  dot3 (mat_en_from_ll_m00 lat lonI) (mat_en_from_ll_m01 lat lonI) (mat_en_from_ll_m02 lat lonI) vN vE vD
  - RATE_ * lla_to_ecef_r1 lat lonI alt.
Definition vi_y (lat lonI alt vN vE vD : R) : R :=
  dot3 (mat_en_from_ll_m10 lat lonI) (mat_en_from_ll_m11 lat lonI) (mat_en_from_ll_m12 lat lonI) vN vE vD
  + RATE_ * lla_to_ecef_r0 lat lonI alt.
Definition vi_z (lat lonI alt vN vE vD : R) : R :=
  dot3 (mat_en_from_ll_m20 lat lonI) (mat_en_from_ll_m21 lat lonI) (mat_en_from_ll_m22 lat lonI) vN vE vD.

Lemma derive_lin3 (m0 m1 m2 u0 u1 u2 p : R -> R) (t dm0 dm1 dm2 du0 du1 du2 dp k : R) :
  is_derive m0 t dm0 -> is_derive m1 t dm1 -> is_derive m2 t dm2 ->
  is_derive u0 t du0 -> is_derive u1 t du1 -> is_derive u2 t du2 -> is_derive p t dp ->
  is_derive (fun s => dot3 (m0 s) (m1 s) (m2 s) (u0 s) (u1 s) (u2 s) + k * p s) t
    (dot3 dm0 dm1 dm2 (u0 t) (u1 t) (u2 t) + dot3 (m0 t) (m1 t) (m2 t) du0 du1 du2 + k * dp).
Proof.
  intros H0 H1 H2 H3 H4 H5 H6. unfold dot3.
  auto_derive.
  - split_all; try exact I; eexists; eassumption.
  - rewrite (is_derive_unique (fun x : R => m0 x) t dm0 H0), (is_derive_unique (fun x : R => m1 x) t dm1 H1),
      (is_derive_unique (fun x : R => m2 x) t dm2 H2), (is_derive_unique (fun x : R => u0 x) t du0 H3),
      (is_derive_unique (fun x : R => u1 x) t du1 H4), (is_derive_unique (fun x : R => u2 x) t du2 H5),
      (is_derive_unique (fun x : R => p x) t dp H6). ring.
Qed.

Section Moving.
Variables lat lon alt : R -> R.
Variables t dlat dlon dalt : R.
Hypothesis Hlat : is_derive lat t dlat.
Hypothesis Hlon : is_derive lon t dlon.
Hypothesis Halt : is_derive alt t dalt.
Let lonI (s : R) : R := lon_i (lon s) s.
Let M00 (s : R) : R := mat_en_from_ll_m00 (lat s) (lonI s).
Let M01 (s : R) : R := mat_en_from_ll_m01 (lat s) (lonI s).
Let M02 (s : R) : R := mat_en_from_ll_m02 (lat s) (lonI s).
Let M10 (s : R) : R := mat_en_from_ll_m10 (lat s) (lonI s).
Let M11 (s : R) : R := mat_en_from_ll_m11 (lat s) (lonI s).
Let M12 (s : R) : R := mat_en_from_ll_m12 (lat s) (lonI s).
Let M20 (s : R) : R := mat_en_from_ll_m20 (lat s) (lonI s).
Let M21 (s : R) : R := mat_en_from_ll_m21 (lat s) (lonI s).
Let M22 (s : R) : R := mat_en_from_ll_m22 (lat s) (lonI s).
Let X (s : R) : R := lla_to_ecef_r0 (lat s) (lonI s) (alt s).
Let Y (s : R) : R := lla_to_ecef_r1 (lat s) (lonI s) (alt s).
Let Z (s : R) : R := lla_to_ecef_r2 (lat s) (lonI s) (alt s).
(* angular rate of the inertially referenced NED frame, resolved in NED, in rad/s *)
Let wN : R := (dlon * d2r + RATE_) * cos (lat t * d2r).
Let wE : R := - (dlat * d2r).
Let wD : R := - ((dlon * d2r + RATE_) * sin (lat t * d2r)).

Lemma ex_lat : ex_derive (fun x => lat x) t. Proof. eexists; exact Hlat. Qed.
Lemma ex_lon : ex_derive (fun x => lon x) t. Proof. eexists; exact Hlon. Qed.
Lemma ex_alt : ex_derive (fun x => alt x) t. Proof. eexists; exact Halt. Qed.

(** frame kinematics  C_in' = C_in [w x] *)
Lemma moving_frame_derive :
  is_derive M00 t (M01 t * wD - M02 t * wE) /\ is_derive M01 t (M02 t * wN - M00 t * wD) /\
  is_derive M02 t (M00 t * wE - M01 t * wN) /\
  is_derive M10 t (M11 t * wD - M12 t * wE) /\ is_derive M11 t (M12 t * wN - M10 t * wD) /\
  is_derive M12 t (M10 t * wE - M11 t * wN) /\
  is_derive M20 t (M21 t * wD - M22 t * wE) /\ is_derive M21 t (M22 t * wN - M20 t * wD) /\
  is_derive M22 t (M20 t * wE - M21 t * wN).
Proof.
  pose proof ex_lat as E1. pose proof ex_lon as E2.
  subst M00 M01 M02 M10 M11 M12 M20 M21 M22 wN wE wD lonI. unfold lon_i. unf_en.
  split_all; (auto_derive; [split_all; auto|]);
    rewrite ?(is_derive_unique (fun x : R => lat x) t dlat Hlat), ?(is_derive_unique (fun x : R => lon x) t dlon Hlon);
    fold_minus; rewrite ?cos_m90, ?sin_m90; unfold d2r;
    set (phi := lat t * (PI / 180)); set (l := (lon t + RATE_ * (180 / PI) * t) * (PI / 180));
    assert (Hp : sin phi * sin phi = 1 - cos phi * cos phi) by (pose proof (sc1 phi); lra);
    field_simplify_eq; try apply PI_neq0; ring [Hp].
Qed.

(* Earth-relative velocity implied by the position rates *)
Let uN : R := dlat * d2r * (nav_Rn (lat t) + alt t).
Let uE : R := dlon * d2r * ((nav_Re (lat t) + alt t) * cos (lat t * d2r)).
Let uD : R := - dalt.

(** position kinematics: d/dt r_i = C_in u_n + Omega x r_i *)
Lemma moving_position_derive :
  is_derive X t (vi_x (lat t) (lonI t) (alt t) uN uE uD) /\
  is_derive Y t (vi_y (lat t) (lonI t) (alt t) uN uE uD) /\
  is_derive Z t (vi_z (lat t) (lonI t) (alt t) uN uE uD).
Proof.
  pose proof ex_lat as E1. pose proof ex_lon as E2. pose proof ex_alt as E3.
  pose proof (W_pos' (lat t * (PI/180))) as HW.
  pose proof (sqrtW_pos (lat t * (PI/180))) as HQ.
  subst X Y Z uN uE uD lonI. unfold vi_x, vi_y, vi_z, dot3, nav_Rn, nav_Re, R_meridian, R_transverse, W2, lon_i, A_, E2_.
  unf_en. unf_ecef. 
  split_all; (auto_derive; [canon; split_all; auto; lra|]);
    rewrite ?(is_derive_unique (fun x : R => lat x) t dlat Hlat), ?(is_derive_unique (fun x : R => lon x) t dlon Hlon),
      ?(is_derive_unique (fun x : R => alt x) t dalt Halt);
    canon; rewrite ?cos_m90, ?sin_m90; unfold d2r;
    set (phi := lat t * (PI / 180)) in *; set (l := (lon t + RATE_ * (180 / PI) * t) * (PI / 180));
    with_q phi;
    assert (Hc : cos phi * cos phi = 1 - sin phi * sin phi) by (pose proof (sc1 phi); lra);
    abs_consts; pose proof PI_neq0 as Hpi;
    match goal with H : ?q * ?q = 1 - _ |- _ =>
      rewrite <- H; field_simplify_eq; [ring [H Hc] | split_all; auto] end.
Qed.

Variables VN VE VD : R -> R.
Variables aN aE aD : R.
Hypothesis HVN : is_derive VN t aN.
Hypothesis HVE : is_derive VE t aE.
Hypothesis HVD : is_derive VD t aD.
(* the velocity is the one implied by the position rates *)
Hypothesis HuN : VN t = uN.
Hypothesis HuE : VE t = uE.
Hypothesis HuD : VD t = uD.
Let Vx (s : R) : R := vi_x (lat s) (lonI s) (alt s) (VN s) (VE s) (VD s).
Let Vy (s : R) : R := vi_y (lat s) (lonI s) (alt s) (VN s) (VE s) (VD s).
Let Vz (s : R) : R := vi_z (lat s) (lonI s) (alt s) (VN s) (VE s) (VD s).

(** inertial acceleration  a_i = C_in' v_n + C_in v_n' + Omega x v_i *)
Lemma moving_inertial_acceleration :
  is_derive Vx t (dot3 (M01 t * wD - M02 t * wE) (M02 t * wN - M00 t * wD) (M00 t * wE - M01 t * wN) (VN t) (VE t) (VD t)
                  + dot3 (M00 t) (M01 t) (M02 t) aN aE aD - RATE_ * Vy t) /\
  is_derive Vy t (dot3 (M11 t * wD - M12 t * wE) (M12 t * wN - M10 t * wD) (M10 t * wE - M11 t * wN) (VN t) (VE t) (VD t)
                  + dot3 (M10 t) (M11 t) (M12 t) aN aE aD + RATE_ * Vx t) /\
  is_derive Vz t (dot3 (M21 t * wD - M22 t * wE) (M22 t * wN - M20 t * wD) (M20 t * wE - M21 t * wN) (VN t) (VE t) (VD t)
                  + dot3 (M20 t) (M21 t) (M22 t) aN aE aD).
Proof.
  destruct moving_frame_derive as [D00 [D01 [D02 [D10 [D11 [D12 [D20 [D21 D22]]]]]]]].
  destruct moving_position_derive as [PX [PY PZ]].
  split_all.
  - apply (is_derive_ext (fun s => dot3 (M00 s) (M01 s) (M02 s) (VN s) (VE s) (VD s) + (- RATE_) * Y s)).
    { intro s. subst Vx. cbv beta. unfold vi_x. subst M00 M01 M02 Y. cbv beta. match goal with |- @eq _ ?a ?b => change (@eq R a b) end. ring. }
    replace (dot3 (M01 t * wD - M02 t * wE) (M02 t * wN - M00 t * wD) (M00 t * wE - M01 t * wN) (VN t) (VE t) (VD t)
                  + dot3 (M00 t) (M01 t) (M02 t) aN aE aD - RATE_ * Vy t)
      with (dot3 (M01 t * wD - M02 t * wE) (M02 t * wN - M00 t * wD) (M00 t * wE - M01 t * wN) (VN t) (VE t) (VD t)
                  + dot3 (M00 t) (M01 t) (M02 t) aN aE aD + (- RATE_) * vi_y (lat t) (lonI t) (alt t) uN uE uD).
    { apply derive_lin3; assumption. }
    subst Vy. cbv beta. rewrite HuN, HuE, HuD. ring.
  - apply (is_derive_ext (fun s => dot3 (M10 s) (M11 s) (M12 s) (VN s) (VE s) (VD s) + RATE_ * X s)).
    { intro s. subst Vy. cbv beta. unfold vi_y. subst M10 M11 M12 X. cbv beta. match goal with |- @eq _ ?a ?b => change (@eq R a b) end. ring. }
    replace (Vx t) with (vi_x (lat t) (lonI t) (alt t) uN uE uD).
    { apply derive_lin3; assumption. }
    subst Vx. cbv beta. rewrite HuN, HuE, HuD. ring.
  - apply (is_derive_ext (fun s => dot3 (M20 s) (M21 s) (M22 s) (VN s) (VE s) (VD s) + 0 * Z s)).
    { intro s. subst Vz. cbv beta. unfold vi_z. subst M20 M21 M22. cbv beta. match goal with |- @eq _ ?a ?b => change (@eq R a b) end. ring. }
    replace (dot3 (M21 t * wD - M22 t * wE) (M22 t * wN - M20 t * wD) (M20 t * wE - M21 t * wN) (VN t) (VE t) (VD t)
                  + dot3 (M20 t) (M21 t) (M22 t) aN aE aD)
      with (dot3 (M21 t * wD - M22 t * wE) (M22 t * wN - M20 t * wD) (M20 t * wE - M21 t * wN) (VN t) (VE t) (VD t)
                  + dot3 (M20 t) (M21 t) (M22 t) aN aE aD + 0 * vi_z (lat t) (lonI t) (alt t) uN uE uD) by ring.
    apply derive_lin3; assumption.
Qed.

(** specific force in NED axes:  C_in^T (a_i - g_i) = v_n' + (2 Omega_n + rho) x v_n - g_n,
    with rho the transport rate in terms of the position rates *)
Lemma moving_specific_force_ned :
  -90 <= lat t <= 90 ->
  let fx := Derive Vx t - gravitation_ecef_g0 (lat t) (lonI t) (alt t) in
  let fy := Derive Vy t - gravitation_ecef_g1 (lat t) (lonI t) (alt t) in
  let fz := Derive Vz t - gravitation_ecef_g2 (lat t) (lonI t) (alt t) in
  let cN := 2 * nav_Omega_N (lat t) + dlon * d2r * cos (lat t * d2r) in
  let cE := 2 * nav_Omega_E (lat t) - dlat * d2r in
  let cD := 2 * nav_Omega_D (lat t) - dlon * d2r * sin (lat t * d2r) in
  M00 t * fx + M10 t * fy + M20 t * fz = aN + cross0 cN cE cD (VN t) (VE t) (VD t) /\
  M01 t * fx + M11 t * fy + M21 t * fz = aE + cross1 cN cE cD (VN t) (VE t) (VD t) /\
  M02 t * fx + M12 t * fy + M22 t * fz = aD + cross2 cN cE cD (VN t) (VE t) (VD t) - gravity_g (lat t) (alt t).
Proof.
  intros Hl9. cbv zeta.
  destruct moving_inertial_acceleration as [AX [AY AZ]].
  rewrite (is_derive_unique _ _ _ AX), (is_derive_unique _ _ _ AY), (is_derive_unique _ _ _ AZ).
  destruct (gravitation_is_gravity_minus_centrifugal (lat t) (lonI t) (alt t) Hl9) as [G0 [G1 G2]].
  rewrite G0, G1, G2. unfold centrifugal_x, centrifugal_y, centrifugal_z.
  subst Vx Vy Vz. cbv beta. unfold vi_x, vi_y, vi_z.
  generalize (gravity_g (lat t) (alt t)) (lla_to_ecef_r0 (lat t) (lonI t) (alt t))
             (lla_to_ecef_r1 (lat t) (lonI t) (alt t)) (lla_to_ecef_r2 (lat t) (lonI t) (alt t)).
  intros g x y z.
  generalize (VN t) (VE t) (VD t). intros vN vE vD.
  subst M00 M01 M02 M10 M11 M12 M20 M21 M22 wN wE wD. cbv beta.
  unfold dot3, cross0, cross1, cross2, nav_Omega_N, nav_Omega_E, nav_Omega_D, d2r.
  unf_en. rewrite !cos_m90, !sin_m90.
  set (phi := lat t * (PI / 180)). set (l := lonI t * (PI / 180)).
  assert (Hp : sin phi * sin phi = 1 - cos phi * cos phi) by (pose proof (sc1 phi); lra).
  assert (Hl : sin l * sin l = 1 - cos l * cos l) by (pose proof (sc1 l); lra).
  split_all; ring [Hp Hl].
Qed.
End Moving.

(** accelerometer formula of generate_imu:  accel = C_ib^T (a_i - g_i),  C_ib = C_in C_nb,
    C_in = mat_en_from_ll(lat, lonI), C_nb = mat_from_rph(roll, pitch, heading) *)
Definition cib (lat lonI roll pitch heading : R) (k j : nat) : R :=
  let m := match k with
           | 0%nat => (mat_en_from_ll_m00 lat lonI, mat_en_from_ll_m01 lat lonI, mat_en_from_ll_m02 lat lonI)
           | 1%nat => (mat_en_from_ll_m10 lat lonI, mat_en_from_ll_m11 lat lonI, mat_en_from_ll_m12 lat lonI)
           | _ => (mat_en_from_ll_m20 lat lonI, mat_en_from_ll_m21 lat lonI, mat_en_from_ll_m22 lat lonI) end in
  let r := match j with
           | 0%nat => (mat_from_rph_m00 roll pitch heading, mat_from_rph_m10 roll pitch heading, mat_from_rph_m20 roll pitch heading)
           | 1%nat => (mat_from_rph_m01 roll pitch heading, mat_from_rph_m11 roll pitch heading, mat_from_rph_m21 roll pitch heading)
           | _ => (mat_from_rph_m02 roll pitch heading, mat_from_rph_m12 roll pitch heading, mat_from_rph_m22 roll pitch heading) end in
  dot3 (vx m) (vy m) (vz m) (vx r) (vy r) (vz r).

Definition sf_body (lat lonI alt roll pitch heading ax ay az : R) (j : nat) : R :=
  cib lat lonI roll pitch heading 0 j * (ax - gravitation_ecef_g0 lat lonI alt) +
  cib lat lonI roll pitch heading 1 j * (ay - gravitation_ecef_g1 lat lonI alt) +
  cib lat lonI roll pitch heading 2 j * (az - gravitation_ecef_g2 lat lonI alt).

Lemma nav_Rn_lower lat : 6000000 <= nav_Rn lat.
Proof.
  unfold nav_Rn, R_meridian, W2, A_, E2_. set (phi := lat * d2r). with_q phi.
  match goal with H : ?q * ?q = 1 - _ |- _ => rewrite <- H end.
  assert (q * q <= 1) by (pose proof (sin2_le1 phi); nra).
  assert (q <= 1) by nra. assert (q * q * q <= 1) by nra.
  apply Rmult_le_reg_r with (q * q * q); [nra|].
  replace (6378137 * (1 - 66943799901413 / 10000000000000000) / (q * q * q) * (q * q * q))
    with (6378137 * (1 - 66943799901413 / 10000000000000000)) by (field; lra).
  nra.
Qed.

Lemma nav_Re_lower lat : 6000000 <= nav_Re lat.
Proof.
  unfold nav_Re, R_transverse, W2, A_, E2_. set (phi := lat * d2r). with_q phi.
  assert (q * q <= 1) by (pose proof (sin2_le1 phi); nra).
  assert (q <= 1) by nra.
  apply Rmult_le_reg_r with q; [lra|].
  replace (6378137 / q * q) with 6378137 by (field; lra). nra.
Qed.

Lemma normal_gravity_is_gravity_g lat alt : normal_gravity (lat * d2r) alt = gravity_g lat alt.
Proof. unfold normal_gravity, GE_, FG_, E2_, A_, d2r. unf_grav. field. pose proof (sqrtW_pos (lat * (PI/180))). lra. Qed.

(** mat_from_rph is orthogonal:  R (R^T F) = F *)
Lemma rph_rotates_back roll pitch heading (F0 F1 F2 : R) :
  let r := fun i j => match i, j with
    | 0%nat, 0%nat => mat_from_rph_m00 roll pitch heading | 0%nat, 1%nat => mat_from_rph_m01 roll pitch heading
    | 0%nat, _ => mat_from_rph_m02 roll pitch heading
    | 1%nat, 0%nat => mat_from_rph_m10 roll pitch heading | 1%nat, 1%nat => mat_from_rph_m11 roll pitch heading
    | 1%nat, _ => mat_from_rph_m12 roll pitch heading
    | _, 0%nat => mat_from_rph_m20 roll pitch heading | _, 1%nat => mat_from_rph_m21 roll pitch heading
    | _, _ => mat_from_rph_m22 roll pitch heading end in
  let b j := r 0%nat j * F0 + r 1%nat j * F1 + r 2%nat j * F2 in
  r 0%nat 0%nat * b 0%nat + r 0%nat 1%nat * b 1%nat + r 0%nat 2%nat * b 2%nat = F0 /\
  r 1%nat 0%nat * b 0%nat + r 1%nat 1%nat * b 1%nat + r 1%nat 2%nat * b 2%nat = F1 /\
  r 2%nat 0%nat * b 0%nat + r 2%nat 1%nat * b 1%nat + r 2%nat 2%nat * b 2%nat = F2.
Proof.
  cbv zeta beta iota. unf_rph.
  set (ro := roll * (PI / 180)). set (pi := pitch * (PI / 180)). set (he := heading * (PI / 180)).
  assert (Hr : sin ro * sin ro = 1 - cos ro * cos ro) by (pose proof (sc1 ro); lra).
  assert (Hq : sin pi * sin pi = 1 - cos pi * cos pi) by (pose proof (sc1 pi); lra).
  assert (Hh : sin he * sin he = 1 - cos he * cos he) by (pose proof (sc1 he); lra).
  split_all; ring [Hr Hq Hh].
Qed.

(** The accelerometer output of generate_imu (true derivative in place of the spline derivative) is the
    specific force for which the velocity equation of the navigation ODE returns the trajectory's own
    acceleration. *)
Lemma specific_force_inverts_rhs
  (lat lon alt VN VE VD : R -> R) (t aN aE aD roll pitch heading w0 w1 w2 : R) :
  let lonI := fun s => lon_i (lon s) s in
  let Vx := fun s => vi_x (lat s) (lonI s) (alt s) (VN s) (VE s) (VD s) in
  let Vy := fun s => vi_y (lat s) (lonI s) (alt s) (VN s) (VE s) (VD s) in
  let Vz := fun s => vi_z (lat s) (lonI s) (alt s) (VN s) (VE s) (VD s) in
  let f := sf_body (lat t) (lonI t) (alt t) roll pitch heading (Derive Vx t) (Derive Vy t) (Derive Vz t) in
  let rhs := fun F : R -> R -> R -> R -> R -> R -> R -> R -> R -> R -> R -> R -> R -> R -> R -> R -> R -> R -> R -> R -> R -> R =>
    F (lat t) (lon t) (alt t) (VN t) (VE t) (VD t)
      (mat_from_rph_m00 roll pitch heading) (mat_from_rph_m01 roll pitch heading) (mat_from_rph_m02 roll pitch heading)
      (mat_from_rph_m10 roll pitch heading) (mat_from_rph_m11 roll pitch heading) (mat_from_rph_m12 roll pitch heading)
      (mat_from_rph_m20 roll pitch heading) (mat_from_rph_m21 roll pitch heading) (mat_from_rph_m22 roll pitch heading)
      w0 w1 w2 (f 0%nat) (f 1%nat) (f 2%nat) in
  -90 < lat t < 90 -> -6000000 < alt t ->
  is_derive lat t (rhs nav_rhs_lat) -> is_derive lon t (rhs nav_rhs_lon) -> is_derive alt t (rhs nav_rhs_alt) ->
  is_derive VN t aN -> is_derive VE t aE -> is_derive VD t aD ->
  (ex_derive Vx t /\ ex_derive Vy t /\ ex_derive Vz t) /\
  rhs nav_rhs_VN = aN /\ rhs nav_rhs_VE = aE /\ rhs nav_rhs_VD = aD.
Proof.
  intros lonI Vx Vy Vz f rhs. subst lonI Vx Vy Vz f rhs. cbv beta.
  set (lonI := lon_i (lon t) t).
  set (Vx := fun s : R => vi_x (lat s) (lon_i (lon s) s) (alt s) (VN s) (VE s) (VD s)).
  set (Vy := fun s : R => vi_y (lat s) (lon_i (lon s) s) (alt s) (VN s) (VE s) (VD s)).
  set (Vz := fun s : R => vi_z (lat s) (lon_i (lon s) s) (alt s) (VN s) (VE s) (VD s)).
  intros Hl9 Ha Hlat Hlon Halt HVN HVE HVD.
  assert (Hl9' : -90 <= lat t <= 90) by lra.
  pose proof (cos_d2r_pos (lat t) Hl9) as Hcos. fold d2r in Hcos.
  pose proof (nav_Rn_lower (lat t)) as HRn. pose proof (nav_Re_lower (lat t)) as HRe.
  pose proof PI_RGT_0 as Hpi.
  unfold nav_rhs_lat in Hlat. unfold nav_rhs_lon in Hlon. unfold nav_rhs_alt in Halt.
  set (dlat := r2d * (VN t / (nav_Rn (lat t) + alt t))) in *.
  set (dlon := r2d * (VE t / ((nav_Re (lat t) + alt t) * cos (lat t * d2r)))) in *.
  assert (HuN : VN t = dlat * d2r * (nav_Rn (lat t) + alt t)).
  { subst dlat. unfold r2d, d2r. field. split; lra. }
  assert (HuE : VE t = dlon * d2r * ((nav_Re (lat t) + alt t) * cos (lat t * d2r))).
  { subst dlon. unfold r2d, d2r. field. unfold d2r in Hcos. split_all; lra. }
  assert (HuD : VD t = - - VD t) by ring.
  destruct (moving_inertial_acceleration lat lon alt t dlat dlon (- VD t) Hlat Hlon Halt VN VE VD aN aE aD
              HVN HVE HVD HuN HuE HuD) as [AX [AY AZ]].
  destruct (moving_specific_force_ned lat lon alt t dlat dlon (- VD t) Hlat Hlon Halt VN VE VD aN aE aD
              HVN HVE HVD HuN HuE HuD Hl9') as [F0 [F1 F2]].
  cbv zeta in F0, F1, F2. fold lonI in F0, F1, F2. fold Vx Vy Vz in F0, F1, F2, AX, AY, AZ.
  split; [split_all; eexists; eassumption|].
  (* transport rate in terms of the position rates *)
  assert (RN : nav_rho_N (lat t) (alt t) (VN t) (VE t) = dlon * d2r * cos (lat t * d2r)).
  { unfold nav_rho_N. rewrite HuE at 1. field. lra. }
  assert (RE : nav_rho_E (lat t) (alt t) (VN t) (VE t) = - (dlat * d2r)).
  { unfold nav_rho_E. rewrite HuN at 1. field. lra. }
  assert (RD : nav_rho_D (lat t) (alt t) (VN t) (VE t) = - (dlon * d2r * sin (lat t * d2r))).
  { unfold nav_rho_D, tan. rewrite HuE at 1. field. split; lra. }
  destruct (rph_rotates_back roll pitch heading
     (mat_en_from_ll_m00 (lat t) lonI * (Derive Vx t - gravitation_ecef_g0 (lat t) lonI (alt t)) +
      mat_en_from_ll_m10 (lat t) lonI * (Derive Vy t - gravitation_ecef_g1 (lat t) lonI (alt t)) +
      mat_en_from_ll_m20 (lat t) lonI * (Derive Vz t - gravitation_ecef_g2 (lat t) lonI (alt t)))
     (mat_en_from_ll_m01 (lat t) lonI * (Derive Vx t - gravitation_ecef_g0 (lat t) lonI (alt t)) +
      mat_en_from_ll_m11 (lat t) lonI * (Derive Vy t - gravitation_ecef_g1 (lat t) lonI (alt t)) +
      mat_en_from_ll_m21 (lat t) lonI * (Derive Vz t - gravitation_ecef_g2 (lat t) lonI (alt t)))
     (mat_en_from_ll_m02 (lat t) lonI * (Derive Vx t - gravitation_ecef_g0 (lat t) lonI (alt t)) +
      mat_en_from_ll_m12 (lat t) lonI * (Derive Vy t - gravitation_ecef_g1 (lat t) lonI (alt t)) +
      mat_en_from_ll_m22 (lat t) lonI * (Derive Vz t - gravitation_ecef_g2 (lat t) lonI (alt t))))
    as [B0 [B1 B2]].
  cbv zeta beta iota in B0, B1, B2.
  unfold nav_rhs_VN, nav_rhs_VE, nav_rhs_VD, nav_cor_N, nav_cor_E, nav_cor_D.
  rewrite RN, RE, RD, normal_gravity_is_gravity_g.
  unfold sf_body, cib, dot3 at 1 2 3. cbv [vx vy vz fst snd].
  set (Fn0 := mat_en_from_ll_m00 (lat t) lonI * (Derive Vx t - gravitation_ecef_g0 (lat t) lonI (alt t)) +
      mat_en_from_ll_m10 (lat t) lonI * (Derive Vy t - gravitation_ecef_g1 (lat t) lonI (alt t)) +
      mat_en_from_ll_m20 (lat t) lonI * (Derive Vz t - gravitation_ecef_g2 (lat t) lonI (alt t))) in *.
  set (Fn1 := mat_en_from_ll_m01 (lat t) lonI * (Derive Vx t - gravitation_ecef_g0 (lat t) lonI (alt t)) +
      mat_en_from_ll_m11 (lat t) lonI * (Derive Vy t - gravitation_ecef_g1 (lat t) lonI (alt t)) +
      mat_en_from_ll_m21 (lat t) lonI * (Derive Vz t - gravitation_ecef_g2 (lat t) lonI (alt t))) in *.
  set (Fn2 := mat_en_from_ll_m02 (lat t) lonI * (Derive Vx t - gravitation_ecef_g0 (lat t) lonI (alt t)) +
      mat_en_from_ll_m12 (lat t) lonI * (Derive Vy t - gravitation_ecef_g1 (lat t) lonI (alt t)) +
      mat_en_from_ll_m22 (lat t) lonI * (Derive Vz t - gravitation_ecef_g2 (lat t) lonI (alt t))) in *.
  unfold cross0, cross1, cross2 in *.
  split_all.
  - rewrite <- B0 in F0.
    match type of F0 with _ = aN + ?c => apply (Rplus_eq_reg_r c); rewrite <- F0 end.
    subst Fn0 Fn1 Fn2. unfold dot3. ring.
  - rewrite <- B1 in F1.
    match type of F1 with _ = aE + ?c => apply (Rplus_eq_reg_r c); rewrite <- F1 end.
    subst Fn0 Fn1 Fn2. unfold dot3. ring.
  - rewrite <- B2 in F2.
    match type of F2 with _ = aD + ?c - ?g => apply (Rplus_eq_reg_r (c - g)) end.
    replace (aD + ((2 * nav_Omega_N (lat t) + dlon * d2r * cos (lat t * d2r)) * VE t -
                   (2 * nav_Omega_E (lat t) - dlat * d2r) * VN t - gravity_g (lat t) (alt t)))
      with (aD + ((2 * nav_Omega_N (lat t) + dlon * d2r * cos (lat t * d2r)) * VE t -
                   (2 * nav_Omega_E (lat t) - dlat * d2r) * VN t) - gravity_g (lat t) (alt t)) by ring.
    rewrite <- F2. subst Fn0 Fn1 Fn2. unfold dot3. ring.
Qed.

(** * 4. generate_imu on two samples (position + velocity form): the traced straight-line kinematics *)

(** second derivative at both ends of THE cubic with p(0) = r0, p(h) = r1, p'(0) = v0, p'(h) = v1
    (contract of scipy CubicHermiteSpline on one interval) *)
Definition hermite_poly (r0 r1 v0 v1 h tau : R) : R :=
  r0 + v0 * tau + (3 * (r1 - r0) / h - 2 * v0 - v1) / h * (tau * tau)
  + (v0 + v1 - 2 * (r1 - r0) / h) / (h * h) * (tau * tau * tau).
Definition hermite_acc0 (r0 r1 v0 v1 h : R) : R := (6 * (r1 - r0) / h - 4 * v0 - 2 * v1) / h.
Definition hermite_acc1 (r0 r1 v0 v1 h : R) : R := (- 6 * (r1 - r0) / h + 2 * v0 + 4 * v1) / h.

(** slope of the linear interpolation of C_ib(0)^T (a_i - g_i) between the two samples *)
Definition sf_slope (lat0 l0 alt0 roll0 pitch0 heading0 lat1 l1 alt1 ax0 ay0 az0 ax1 ay1 az1 h : R) (j : nat) : R :=
  cib lat0 l0 roll0 pitch0 heading0 0 j *
    (((ax1 - gravitation_ecef_g0 lat1 l1 alt1) - (ax0 - gravitation_ecef_g0 lat0 l0 alt0)) / h) +
  cib lat0 l0 roll0 pitch0 heading0 1 j *
    (((ay1 - gravitation_ecef_g1 lat1 l1 alt1) - (ay0 - gravitation_ecef_g1 lat0 l0 alt0)) / h) +
  cib lat0 l0 roll0 pitch0 heading0 2 j *
    (((az1 - gravitation_ecef_g2 lat1 l1 alt1) - (az0 - gravitation_ecef_g2 lat0 l0 alt0)) / h).

Ltac unf_imu_rate := unfold imu_rate_f0_0, imu_rate_f0_1, imu_rate_f0_2, imu_rate_f1_0, imu_rate_f1_1, imu_rate_f1_2;
  repeat autounfold with imu_rate_db.

Section TwoSamples.
Variables t0 t1 lat0 lon0 alt0 lat1 lon1 alt1 roll0 pitch0 heading0 roll1 pitch1 heading1 VN0 VE0 VD0 VN1 VE1 VD1 : R.
Let h := t1 - t0.
Let l0 := lon_i lon0 t0.
Let l1 := lon_i lon1 t1.
Let ax0 := hermite_acc0 (lla_to_ecef_r0 lat0 l0 alt0) (lla_to_ecef_r0 lat1 l1 alt1)
                        (vi_x lat0 l0 alt0 VN0 VE0 VD0) (vi_x lat1 l1 alt1 VN1 VE1 VD1) h.
Let ay0 := hermite_acc0 (lla_to_ecef_r1 lat0 l0 alt0) (lla_to_ecef_r1 lat1 l1 alt1)
                        (vi_y lat0 l0 alt0 VN0 VE0 VD0) (vi_y lat1 l1 alt1 VN1 VE1 VD1) h.
Let az0 := hermite_acc0 (lla_to_ecef_r2 lat0 l0 alt0) (lla_to_ecef_r2 lat1 l1 alt1)
                        (vi_z lat0 l0 alt0 VN0 VE0 VD0) (vi_z lat1 l1 alt1 VN1 VE1 VD1) h.

Let ax1 := hermite_acc1 (lla_to_ecef_r0 lat0 l0 alt0) (lla_to_ecef_r0 lat1 l1 alt1)
                        (vi_x lat0 l0 alt0 VN0 VE0 VD0) (vi_x lat1 l1 alt1 VN1 VE1 VD1) h.
Let ay1 := hermite_acc1 (lla_to_ecef_r1 lat0 l0 alt0) (lla_to_ecef_r1 lat1 l1 alt1)
                        (vi_y lat0 l0 alt0 VN0 VE0 VD0) (vi_y lat1 l1 alt1 VN1 VE1 VD1) h.
Let az1 := hermite_acc1 (lla_to_ecef_r2 lat0 l0 alt0) (lla_to_ecef_r2 lat1 l1 alt1)
                        (vi_z lat0 l0 alt0 VN0 VE0 VD0) (vi_z lat1 l1 alt1 VN1 VE1 VD1) h.

(* The generated outputs have the shape  P0 * X0 + P1 * X1 + P2 * X2  (rows of C_ib^T times a vector).  The vector
   components X_k (no attitude inside) and the matrix entries P_k (no position inside) are identified separately:
   three small [field] problems and nine tiny [ring] problems per row instead of three large ones. *)
Ltac head_of t := match t with ?f _ => head_of f | _ => t end.
Ltac vec_field :=
  subst ax0 ay0 az0 ax1 ay1 az1 l0 l1 h;
  pose proof (sqrtW_pos (lat0 * (PI/180))) as HQ0; pose proof (sqrtW_pos (lat1 * (PI/180))) as HQ1;
  unfold hermite_acc0, hermite_acc1, vi_x, vi_y, vi_z, dot3, lon_i, RATE_;
  repeat autounfold with imu_rate_db imu_incr_db; unf_gravitation; unf_en; unf_ecef;
  field; split_all; lra.
Ltac mat_ring :=
  subst l0 l1; unfold cib, dot3, lon_i, RATE_; cbv [vx vy vz fst snd];
  repeat autounfold with imu_rate_db imu_incr_db; unf_en; unf_rph; ring.
(* goal  P0 * X0 + P1 * X1 + P2 * X2 = c0 * V0 + c1 * V1 + c2 * V2  given  X_k = V_k *)
Ltac comb3 E0 E1 E2 :=
  rewrite E0, E1, E2;
  match goal with |- ?P0 * _ + ?P1 * _ + ?P2 * _ = ?c0 * _ + ?c1 * _ + ?c2 * _ =>
    replace P0 with c0 by (symmetry; mat_ring); replace P1 with c1 by (symmetry; mat_ring);
    replace P2 with c2 by (symmetry; mat_ring); reflexivity end.

(** rate type: both rows are  C_ib^T (Hermite acceleration - gravitation)  at their own sample *)
Lemma imu_rate_formula : h <> 0 ->
  (imu_rate_f0_0 t0 t1 lat0 lon0 alt0 lat1 lon1 alt1 roll0 pitch0 heading0 roll1 pitch1 heading1 VN0 VE0 VD0 VN1 VE1 VD1
   = sf_body lat0 l0 alt0 roll0 pitch0 heading0 ax0 ay0 az0 0 /\
   imu_rate_f0_1 t0 t1 lat0 lon0 alt0 lat1 lon1 alt1 roll0 pitch0 heading0 roll1 pitch1 heading1 VN0 VE0 VD0 VN1 VE1 VD1
   = sf_body lat0 l0 alt0 roll0 pitch0 heading0 ax0 ay0 az0 1 /\
   imu_rate_f0_2 t0 t1 lat0 lon0 alt0 lat1 lon1 alt1 roll0 pitch0 heading0 roll1 pitch1 heading1 VN0 VE0 VD0 VN1 VE1 VD1
   = sf_body lat0 l0 alt0 roll0 pitch0 heading0 ax0 ay0 az0 2) /\
  (imu_rate_f1_0 t0 t1 lat0 lon0 alt0 lat1 lon1 alt1 roll0 pitch0 heading0 roll1 pitch1 heading1 VN0 VE0 VD0 VN1 VE1 VD1
   = sf_body lat1 l1 alt1 roll1 pitch1 heading1 ax1 ay1 az1 0 /\
   imu_rate_f1_1 t0 t1 lat0 lon0 alt0 lat1 lon1 alt1 roll0 pitch0 heading0 roll1 pitch1 heading1 VN0 VE0 VD0 VN1 VE1 VD1
   = sf_body lat1 l1 alt1 roll1 pitch1 heading1 ax1 ay1 az1 1 /\
   imu_rate_f1_2 t0 t1 lat0 lon0 alt0 lat1 lon1 alt1 roll0 pitch0 heading0 roll1 pitch1 heading1 VN0 VE0 VD0 VN1 VE1 VD1
   = sf_body lat1 l1 alt1 roll1 pitch1 heading1 ax1 ay1 az1 2).
Proof.
  intro Hh.
  unfold imu_rate_f0_0, imu_rate_f0_1, imu_rate_f0_2, imu_rate_f1_0, imu_rate_f1_1, imu_rate_f1_2, sf_body.
  match goal with |- (?P0 * ?X0 + ?P1 * ?X1 + ?P2 * ?X2 = _ /\ _) /\ (?Q0 * ?Y0 + ?Q1 * ?Y1 + ?Q2 * ?Y2 = _ /\ _) =>
    assert (E0 : X0 = ax0 - gravitation_ecef_g0 lat0 l0 alt0) by vec_field;
    assert (E1 : X1 = ay0 - gravitation_ecef_g1 lat0 l0 alt0) by vec_field;
    assert (E2 : X2 = az0 - gravitation_ecef_g2 lat0 l0 alt0) by vec_field;
    assert (G0 : Y0 = ax1 - gravitation_ecef_g0 lat1 l1 alt1) by vec_field;
    assert (G1 : Y1 = ay1 - gravitation_ecef_g1 lat1 l1 alt1) by vec_field;
    assert (G2 : Y2 = az1 - gravitation_ecef_g2 lat1 l1 alt1) by vec_field
  end.
  split; split_all; [comb3 E0 E1 E2 | comb3 E0 E1 E2 | comb3 E0 E1 E2 | comb3 G0 G1 G2 | comb3 G0 G1 G2 | comb3 G0 G1 G2].
Qed.

(** the returned trajectory row is the given one *)
Lemma imu_rate_trajectory_passthrough :
  imu_rate_traj0_lat t0 t1 lat0 lon0 alt0 lat1 lon1 alt1 roll0 pitch0 heading0 roll1 pitch1 heading1 VN0 VE0 VD0 VN1 VE1 VD1 = lat0 /\
  imu_rate_traj0_lon t0 t1 lat0 lon0 alt0 lat1 lon1 alt1 roll0 pitch0 heading0 roll1 pitch1 heading1 VN0 VE0 VD0 VN1 VE1 VD1 = lon0 /\
  imu_rate_traj0_alt t0 t1 lat0 lon0 alt0 lat1 lon1 alt1 roll0 pitch0 heading0 roll1 pitch1 heading1 VN0 VE0 VD0 VN1 VE1 VD1 = alt0 /\
  imu_rate_traj0_VN t0 t1 lat0 lon0 alt0 lat1 lon1 alt1 roll0 pitch0 heading0 roll1 pitch1 heading1 VN0 VE0 VD0 VN1 VE1 VD1 = VN0 /\
  imu_rate_traj0_VE t0 t1 lat0 lon0 alt0 lat1 lon1 alt1 roll0 pitch0 heading0 roll1 pitch1 heading1 VN0 VE0 VD0 VN1 VE1 VD1 = VE0 /\
  imu_rate_traj0_VD t0 t1 lat0 lon0 alt0 lat1 lon1 alt1 roll0 pitch0 heading0 roll1 pitch1 heading1 VN0 VE0 VD0 VN1 VE1 VD1 = VD0 /\
  imu_rate_traj0_roll t0 t1 lat0 lon0 alt0 lat1 lon1 alt1 roll0 pitch0 heading0 roll1 pitch1 heading1 VN0 VE0 VD0 VN1 VE1 VD1 = roll0 /\
  imu_rate_traj0_pitch t0 t1 lat0 lon0 alt0 lat1 lon1 alt1 roll0 pitch0 heading0 roll1 pitch1 heading1 VN0 VE0 VD0 VN1 VE1 VD1 = pitch0 /\
  imu_rate_traj0_heading t0 t1 lat0 lon0 alt0 lat1 lon1 alt1 roll0 pitch0 heading0 roll1 pitch1 heading1 VN0 VE0 VD0 VN1 VE1 VD1 = heading0.
Proof. split_all; reflexivity. Qed.

(** increment type: the interval [t0, t1] is handed to _compute_increment_readings with
    dt = t1 - t0, the given rotation-vector coefficients, and the specific force  d + e tau  that interpolates
    C_ib(t0)^T (a_i - g_i) linearly between the two samples (a_i: Hermite, g_i: gravitation at the samples). *)
Variables ra0 ra1 ra2 rb0 rb1 rb2 rc0 rc1 rc2 : R.
Let dd (j : nat) := sf_body lat0 l0 alt0 roll0 pitch0 heading0 ax0 ay0 az0 j.
Let ee (j : nat) := sf_slope lat0 l0 alt0 roll0 pitch0 heading0 lat1 l1 alt1 ax0 ay0 az0 ax1 ay1 az1 h j.

Lemma imu_incr_formula : h <> 0 ->
  imu_incr_gyro0 t0 t1 lat0 lon0 alt0 lat1 lon1 alt1 roll0 pitch0 heading0 roll1 pitch1 heading1 VN0 VE0 VD0 VN1 VE1 VD1 ra0 ra1 ra2 rb0 rb1 rb2 rc0 rc1 rc2 = incr_readings_gyros0 h ra0 ra1 ra2 rb0 rb1 rb2 rc0 rc1 rc2 (dd 0%nat) (dd 1%nat) (dd 2%nat) (ee 0%nat) (ee 1%nat) (ee 2%nat) /\
  imu_incr_gyro1 t0 t1 lat0 lon0 alt0 lat1 lon1 alt1 roll0 pitch0 heading0 roll1 pitch1 heading1 VN0 VE0 VD0 VN1 VE1 VD1 ra0 ra1 ra2 rb0 rb1 rb2 rc0 rc1 rc2 = incr_readings_gyros1 h ra0 ra1 ra2 rb0 rb1 rb2 rc0 rc1 rc2 (dd 0%nat) (dd 1%nat) (dd 2%nat) (ee 0%nat) (ee 1%nat) (ee 2%nat) /\
  imu_incr_gyro2 t0 t1 lat0 lon0 alt0 lat1 lon1 alt1 roll0 pitch0 heading0 roll1 pitch1 heading1 VN0 VE0 VD0 VN1 VE1 VD1 ra0 ra1 ra2 rb0 rb1 rb2 rc0 rc1 rc2 = incr_readings_gyros2 h ra0 ra1 ra2 rb0 rb1 rb2 rc0 rc1 rc2 (dd 0%nat) (dd 1%nat) (dd 2%nat) (ee 0%nat) (ee 1%nat) (ee 2%nat) /\
  imu_incr_accel0 t0 t1 lat0 lon0 alt0 lat1 lon1 alt1 roll0 pitch0 heading0 roll1 pitch1 heading1 VN0 VE0 VD0 VN1 VE1 VD1 ra0 ra1 ra2 rb0 rb1 rb2 rc0 rc1 rc2 = incr_readings_accels0 h ra0 ra1 ra2 rb0 rb1 rb2 rc0 rc1 rc2 (dd 0%nat) (dd 1%nat) (dd 2%nat) (ee 0%nat) (ee 1%nat) (ee 2%nat) /\
  imu_incr_accel1 t0 t1 lat0 lon0 alt0 lat1 lon1 alt1 roll0 pitch0 heading0 roll1 pitch1 heading1 VN0 VE0 VD0 VN1 VE1 VD1 ra0 ra1 ra2 rb0 rb1 rb2 rc0 rc1 rc2 = incr_readings_accels1 h ra0 ra1 ra2 rb0 rb1 rb2 rc0 rc1 rc2 (dd 0%nat) (dd 1%nat) (dd 2%nat) (ee 0%nat) (ee 1%nat) (ee 2%nat) /\
  imu_incr_accel2 t0 t1 lat0 lon0 alt0 lat1 lon1 alt1 roll0 pitch0 heading0 roll1 pitch1 heading1 VN0 VE0 VD0 VN1 VE1 VD1 ra0 ra1 ra2 rb0 rb1 rb2 rc0 rc1 rc2 = incr_readings_accels2 h ra0 ra1 ra2 rb0 rb1 rb2 rc0 rc1 rc2 (dd 0%nat) (dd 1%nat) (dd 2%nat) (ee 0%nat) (ee 1%nat) (ee 2%nat).
Proof.
  intro Hh.
  unfold imu_incr_gyro0, imu_incr_gyro1, imu_incr_gyro2, imu_incr_accel0, imu_incr_accel1, imu_incr_accel2.
  match goal with |- incr_readings_gyros0 ?T _ _ _ _ _ _ _ _ _ ?D0 ?D1 ?D2 ?E0 ?E1 ?E2 = _ /\ _ =>
    assert (HT : T = h) by reflexivity;
    let hd := head_of D0 in let he := head_of E0 in
    let d0 := eval unfold hd in D0 in let e0 := eval unfold he in E0 in
    match d0 with ?P0 * ?X0 + ?P1 * ?X1 + ?P2 * ?X2 =>
    match e0 with ?Q0 * ?Y0 + ?Q1 * ?Y1 + ?Q2 * ?Y2 =>
      assert (EX0 : X0 = ax0 - gravitation_ecef_g0 lat0 l0 alt0) by vec_field;
      assert (EX1 : X1 = ay0 - gravitation_ecef_g1 lat0 l0 alt0) by vec_field;
      assert (EX2 : X2 = az0 - gravitation_ecef_g2 lat0 l0 alt0) by vec_field;
      assert (EY0 : Y0 = ((ax1 - gravitation_ecef_g0 lat1 l1 alt1) - (ax0 - gravitation_ecef_g0 lat0 l0 alt0)) / h) by vec_field;
      assert (EY1 : Y1 = ((ay1 - gravitation_ecef_g1 lat1 l1 alt1) - (ay0 - gravitation_ecef_g1 lat0 l0 alt0)) / h) by vec_field;
      assert (EY2 : Y2 = ((az1 - gravitation_ecef_g2 lat1 l1 alt1) - (az0 - gravitation_ecef_g2 lat0 l0 alt0)) / h) by vec_field
    end end;
    assert (HD0 : D0 = dd 0%nat) by (let hd := head_of D0 in unfold hd; subst dd; cbv beta; unfold sf_body; comb3 EX0 EX1 EX2);
    assert (HD1 : D1 = dd 1%nat) by (let hd := head_of D1 in unfold hd; subst dd; cbv beta; unfold sf_body; comb3 EX0 EX1 EX2);
    assert (HD2 : D2 = dd 2%nat) by (let hd := head_of D2 in unfold hd; subst dd; cbv beta; unfold sf_body; comb3 EX0 EX1 EX2);
    assert (HE0 : E0 = ee 0%nat) by (let hd := head_of E0 in unfold hd; subst ee; cbv beta; unfold sf_slope; comb3 EY0 EY1 EY2);
    assert (HE1 : E1 = ee 1%nat) by (let hd := head_of E1 in unfold hd; subst ee; cbv beta; unfold sf_slope; comb3 EY0 EY1 EY2);
    assert (HE2 : E2 = ee 2%nat) by (let hd := head_of E2 in unfold hd; subst ee; cbv beta; unfold sf_slope; comb3 EY0 EY1 EY2);
    rewrite HT, HD0, HD1, HD2, HE0, HE1, HE2
  end.
  split_all; reflexivity.
Qed.

(** hence the increment readings of generate_imu are the exact integrals over the sampling interval of the
    body-rate / body-force polynomials of that interval *)
Lemma imu_incr_is_integral : h <> 0 ->
  let a := (ra0, ra1, ra2) in let b := (rb0, rb1, rb2) in let c := (rc0, rc1, rc2) in
  let d := (dd 0%nat, dd 1%nat, dd 2%nat) in let e := (ee 0%nat, ee 1%nat, ee 2%nat) in
  is_RInt (fun s => vx (body_rate3 a b c s)) 0 h (imu_incr_gyro0 t0 t1 lat0 lon0 alt0 lat1 lon1 alt1 roll0 pitch0 heading0 roll1 pitch1 heading1 VN0 VE0 VD0 VN1 VE1 VD1 ra0 ra1 ra2 rb0 rb1 rb2 rc0 rc1 rc2) /\
  is_RInt (fun s => vy (body_rate3 a b c s)) 0 h (imu_incr_gyro1 t0 t1 lat0 lon0 alt0 lat1 lon1 alt1 roll0 pitch0 heading0 roll1 pitch1 heading1 VN0 VE0 VD0 VN1 VE1 VD1 ra0 ra1 ra2 rb0 rb1 rb2 rc0 rc1 rc2) /\
  is_RInt (fun s => vz (body_rate3 a b c s)) 0 h (imu_incr_gyro2 t0 t1 lat0 lon0 alt0 lat1 lon1 alt1 roll0 pitch0 heading0 roll1 pitch1 heading1 VN0 VE0 VD0 VN1 VE1 VD1 ra0 ra1 ra2 rb0 rb1 rb2 rc0 rc1 rc2) /\
  is_RInt (fun s => vx (body_force2 a b c d e s)) 0 h (imu_incr_accel0 t0 t1 lat0 lon0 alt0 lat1 lon1 alt1 roll0 pitch0 heading0 roll1 pitch1 heading1 VN0 VE0 VD0 VN1 VE1 VD1 ra0 ra1 ra2 rb0 rb1 rb2 rc0 rc1 rc2) /\
  is_RInt (fun s => vy (body_force2 a b c d e s)) 0 h (imu_incr_accel1 t0 t1 lat0 lon0 alt0 lat1 lon1 alt1 roll0 pitch0 heading0 roll1 pitch1 heading1 VN0 VE0 VD0 VN1 VE1 VD1 ra0 ra1 ra2 rb0 rb1 rb2 rc0 rc1 rc2) /\
  is_RInt (fun s => vz (body_force2 a b c d e s)) 0 h (imu_incr_accel2 t0 t1 lat0 lon0 alt0 lat1 lon1 alt1 roll0 pitch0 heading0 roll1 pitch1 heading1 VN0 VE0 VD0 VN1 VE1 VD1 ra0 ra1 ra2 rb0 rb1 rb2 rc0 rc1 rc2).
Proof.
  intro Hh. cbv zeta.
  destruct (imu_incr_formula Hh) as [G0 [G1 [G2 [A0 [A1 A2]]]]].
  rewrite G0, G1, G2, A0, A1, A2.
  destruct (gyro_poly_exact ra0 ra1 ra2 rb0 rb1 rb2 rc0 rc1 rc2 (dd 0%nat) (dd 1%nat) (dd 2%nat)
              (ee 0%nat) (ee 1%nat) (ee 2%nat) h) as [_ [I0 [I1 I2]]].
  destruct (accel_poly_exact ra0 ra1 ra2 rb0 rb1 rb2 rc0 rc1 rc2 (dd 0%nat) (dd 1%nat) (dd 2%nat)
              (ee 0%nat) (ee 1%nat) (ee 2%nat) h) as [_ [J0 [J1 J2]]].
  split_all; assumption.
Qed.
End TwoSamples.

Lemma hermite_contract r0 r1 v0 v1 h : h <> 0 ->
  hermite_poly r0 r1 v0 v1 h 0 = r0 /\ hermite_poly r0 r1 v0 v1 h h = r1 /\
  is_derive (hermite_poly r0 r1 v0 v1 h) 0 v0 /\ is_derive (hermite_poly r0 r1 v0 v1 h) h v1 /\
  is_derive_n (hermite_poly r0 r1 v0 v1 h) 2 0 (hermite_acc0 r0 r1 v0 v1 h) /\
  is_derive_n (hermite_poly r0 r1 v0 v1 h) 2 h (hermite_acc1 r0 r1 v0 v1 h).
Proof.
  intro Hh.
  assert (D1 : forall x, is_derive (hermite_poly r0 r1 v0 v1 h) x
            (v0 + 2 * ((3 * (r1 - r0) / h - 2 * v0 - v1) / h) * x
             + 3 * ((v0 + v1 - 2 * (r1 - r0) / h) / (h * h)) * (x * x))).
  { intro x. unfold hermite_poly. auto_derive; [exact I|]. field. exact Hh. }
  assert (D2 : forall x, is_derive_n (hermite_poly r0 r1 v0 v1 h) 2 x
            (2 * ((3 * (r1 - r0) / h - 2 * v0 - v1) / h) + 6 * ((v0 + v1 - 2 * (r1 - r0) / h) / (h * h)) * x)).
  { intro x. change (is_derive (Derive (hermite_poly r0 r1 v0 v1 h)) x
            (2 * ((3 * (r1 - r0) / h - 2 * v0 - v1) / h) + 6 * ((v0 + v1 - 2 * (r1 - r0) / h) / (h * h)) * x)).
    apply (is_derive_ext (fun x => v0 + 2 * ((3 * (r1 - r0) / h - 2 * v0 - v1) / h) * x
             + 3 * ((v0 + v1 - 2 * (r1 - r0) / h) / (h * h)) * (x * x))).
    - intro y. symmetry. apply is_derive_unique. apply D1.
    - auto_derive; [exact I|]. field. exact Hh. }
  split_all.
  - unfold hermite_poly. field. exact Hh.
  - unfold hermite_poly. field. exact Hh.
  - replace v0 with (v0 + 2 * ((3 * (r1 - r0) / h - 2 * v0 - v1) / h) * 0
             + 3 * ((v0 + v1 - 2 * (r1 - r0) / h) / (h * h)) * (0 * 0)) at 2 by ring. apply D1.
  - replace v1 with (v0 + 2 * ((3 * (r1 - r0) / h - 2 * v0 - v1) / h) * h
             + 3 * ((v0 + v1 - 2 * (r1 - r0) / h) / (h * h)) * (h * h)) at 2 by (field; exact Hh). apply D1.
  - replace (hermite_acc0 r0 r1 v0 v1 h) with
      (2 * ((3 * (r1 - r0) / h - 2 * v0 - v1) / h) + 6 * ((v0 + v1 - 2 * (r1 - r0) / h) / (h * h)) * 0)
      by (unfold hermite_acc0; field; exact Hh). apply D2.
  - replace (hermite_acc1 r0 r1 v0 v1 h) with
      (2 * ((3 * (r1 - r0) / h - 2 * v0 - v1) / h) + 6 * ((v0 + v1 - 2 * (r1 - r0) / h) / (h * h)) * h)
      by (unfold hermite_acc1; field; exact Hh). apply D2.
Qed.

(** * 5. The gyro side *)

(** one column of the attitude equation solved for C_nb' : from
      (C_in C_nb)' = C_in' c + C_in d = C_in r      (r = the column of C_nb [w x])
    with C_in' = C_in [om x] follows  d = r - om x c. *)
Lemma attitude_column_solve (lat lonI wN wE wD c0 c1 c2 d0 d1 d2 r0 r1 r2 : R) :
  let m := fun k j : nat => match k, j with
    | 0%nat, 0%nat => mat_en_from_ll_m00 lat lonI | 0%nat, 1%nat => mat_en_from_ll_m01 lat lonI
    | 0%nat, _ => mat_en_from_ll_m02 lat lonI
    | 1%nat, 0%nat => mat_en_from_ll_m10 lat lonI | 1%nat, 1%nat => mat_en_from_ll_m11 lat lonI
    | 1%nat, _ => mat_en_from_ll_m12 lat lonI
    | _, 0%nat => mat_en_from_ll_m20 lat lonI | _, 1%nat => mat_en_from_ll_m21 lat lonI
    | _, _ => mat_en_from_ll_m22 lat lonI end in
  (forall k : nat, (k < 3)%nat ->
     dot3 (m k 1%nat * wD - m k 2%nat * wE) (m k 2%nat * wN - m k 0%nat * wD) (m k 0%nat * wE - m k 1%nat * wN) c0 c1 c2
     + dot3 (m k 0%nat) (m k 1%nat) (m k 2%nat) d0 d1 d2
     = dot3 (m k 0%nat) (m k 1%nat) (m k 2%nat) r0 r1 r2) ->
  d0 = r0 - cross0 wN wE wD c0 c1 c2 /\ d1 = r1 - cross1 wN wE wD c0 c1 c2 /\ d2 = r2 - cross2 wN wE wD c0 c1 c2.
Proof.
  intros m H.
  pose proof (H 0%nat ltac:(auto)) as H0. pose proof (H 1%nat ltac:(auto)) as H1. pose proof (H 2%nat ltac:(auto)) as H2.
  subst m. cbv beta iota in H0, H1, H2. clear H.
  apply Rminus_diag_eq in H0. apply Rminus_diag_eq in H1. apply Rminus_diag_eq in H2.
  revert H0 H1 H2. unfold dot3, cross0, cross1, cross2. unf_en. rewrite !cos_m90, !sin_m90.
  set (phi := lat * (PI / 180)). set (l := lonI * (PI / 180)).
  assert (Hp : sin phi * sin phi = 1 - cos phi * cos phi) by (pose proof (sc1 phi); lra).
  assert (Hl : sin l * sin l = 1 - cos l * cos l) by (pose proof (sc1 l); lra).
  intros H0 H1 H2.
  split_all; apply Rminus_diag_uniq.
  - match type of H0 with ?e0 = 0 => match type of H1 with ?e1 = 0 => match type of H2 with ?e2 = 0 =>
      transitivity (cos l * - sin phi * e0 + sin l * - sin phi * e1 + - - cos phi * e2);
        [ring [Hp Hl] | rewrite H0, H1, H2; ring] end end end.
  - match type of H0 with ?e0 = 0 => match type of H1 with ?e1 = 0 => match type of H2 with ?e2 = 0 =>
      transitivity (- sin l * e0 + cos l * e1 + 0 * e2);
        [ring [Hp Hl] | rewrite H0, H1, H2; ring] end end end.
  - match type of H0 with ?e0 = 0 => match type of H1 with ?e1 = 0 => match type of H2 with ?e2 = 0 =>
      transitivity (cos l * - cos phi * e0 + sin l * - cos phi * e1 + - sin phi * e2);
        [ring [Hp Hl] | rewrite H0, H1, H2; ring] end end end.
Qed.

Lemma is_derive_same (f : R -> R) (t a b : R) : is_derive f t a -> is_derive f t b -> a = b.
Proof. intros Ha Hb. rewrite <- (is_derive_unique f t a Ha). apply is_derive_unique. exact Hb. Qed.

Lemma derive_dot3 (m0 m1 m2 u0 u1 u2 : R -> R) (t dm0 dm1 dm2 du0 du1 du2 : R) :
  is_derive m0 t dm0 -> is_derive m1 t dm1 -> is_derive m2 t dm2 ->
  is_derive u0 t du0 -> is_derive u1 t du1 -> is_derive u2 t du2 ->
  is_derive (fun s => dot3 (m0 s) (m1 s) (m2 s) (u0 s) (u1 s) (u2 s)) t
    (dot3 dm0 dm1 dm2 (u0 t) (u1 t) (u2 t) + dot3 (m0 t) (m1 t) (m2 t) du0 du1 du2).
Proof.
  intros H0 H1 H2 H3 H4 H5. unfold dot3.
  auto_derive.
  - split_all; try exact I; eexists; eassumption.
  - rewrite (is_derive_unique (fun x : R => m0 x) t dm0 H0), (is_derive_unique (fun x : R => m1 x) t dm1 H1),
      (is_derive_unique (fun x : R => m2 x) t dm2 H2), (is_derive_unique (fun x : R => u0 x) t du0 H3),
      (is_derive_unique (fun x : R => u1 x) t du1 H4), (is_derive_unique (fun x : R => u2 x) t du2 H5). ring.
Qed.

(** transport rate of NavODE in terms of the position rates of NavODE *)
Lemma rho_of_position_rates lat alt VN VE :
  -90 < lat < 90 -> -6000000 < alt ->
  let dlat := r2d * (VN / (nav_Rn lat + alt)) in
  let dlon := r2d * (VE / ((nav_Re lat + alt) * cos (lat * d2r))) in
  nav_om_N lat alt VN VE = (dlon * d2r + RATE_) * cos (lat * d2r) /\
  nav_om_E lat alt VN VE = - (dlat * d2r) /\
  nav_om_D lat alt VN VE = - ((dlon * d2r + RATE_) * sin (lat * d2r)).
Proof.
  intros Hl9 Ha. cbv zeta.
  pose proof (cos_d2r_pos lat Hl9) as Hcos. fold d2r in Hcos.
  pose proof (nav_Rn_lower lat) as HRn. pose proof (nav_Re_lower lat) as HRe.
  pose proof PI_RGT_0 as Hpi.
  unfold nav_om_N, nav_om_E, nav_om_D, nav_Omega_N, nav_Omega_E, nav_Omega_D, nav_rho_N, nav_rho_E, nav_rho_D, tan, r2d.
  set (P := nav_Rn lat + alt). set (Q := nav_Re lat + alt).
  assert (P <> 0) by (subst P; lra). assert (Q <> 0) by (subst Q; lra).
  unfold d2r in *. split_all; field; split_all; lra.
Qed.

(** If w is the body rate of the inertial attitude C_ib = C_in C_nb that generate_imu hands to the rotation
    spline (C_ib' = C_ib [w x]), then C_nb satisfies the attitude equation of the navigation ODE with that w. *)
Lemma angular_rate_inverts_rhs
  (lat lon alt VN VE VD c00 c01 c02 c10 c11 c12 c20 c21 c22 : R -> R) (t d00 d01 d02 d10 d11 d12 d20 d21 d22 w0 w1 w2 f0 f1 f2 : R) :
  let lonI := fun s => lon_i (lon s) s in
  let B00 := fun s => dot3 (mat_en_from_ll_m00 (lat s) (lonI s)) (mat_en_from_ll_m01 (lat s) (lonI s)) (mat_en_from_ll_m02 (lat s) (lonI s)) (c00 s) (c10 s) (c20 s) in
  let B01 := fun s => dot3 (mat_en_from_ll_m00 (lat s) (lonI s)) (mat_en_from_ll_m01 (lat s) (lonI s)) (mat_en_from_ll_m02 (lat s) (lonI s)) (c01 s) (c11 s) (c21 s) in
  let B02 := fun s => dot3 (mat_en_from_ll_m00 (lat s) (lonI s)) (mat_en_from_ll_m01 (lat s) (lonI s)) (mat_en_from_ll_m02 (lat s) (lonI s)) (c02 s) (c12 s) (c22 s) in
  let B10 := fun s => dot3 (mat_en_from_ll_m10 (lat s) (lonI s)) (mat_en_from_ll_m11 (lat s) (lonI s)) (mat_en_from_ll_m12 (lat s) (lonI s)) (c00 s) (c10 s) (c20 s) in
  let B11 := fun s => dot3 (mat_en_from_ll_m10 (lat s) (lonI s)) (mat_en_from_ll_m11 (lat s) (lonI s)) (mat_en_from_ll_m12 (lat s) (lonI s)) (c01 s) (c11 s) (c21 s) in
  let B12 := fun s => dot3 (mat_en_from_ll_m10 (lat s) (lonI s)) (mat_en_from_ll_m11 (lat s) (lonI s)) (mat_en_from_ll_m12 (lat s) (lonI s)) (c02 s) (c12 s) (c22 s) in
  let B20 := fun s => dot3 (mat_en_from_ll_m20 (lat s) (lonI s)) (mat_en_from_ll_m21 (lat s) (lonI s)) (mat_en_from_ll_m22 (lat s) (lonI s)) (c00 s) (c10 s) (c20 s) in
  let B21 := fun s => dot3 (mat_en_from_ll_m20 (lat s) (lonI s)) (mat_en_from_ll_m21 (lat s) (lonI s)) (mat_en_from_ll_m22 (lat s) (lonI s)) (c01 s) (c11 s) (c21 s) in
  let B22 := fun s => dot3 (mat_en_from_ll_m20 (lat s) (lonI s)) (mat_en_from_ll_m21 (lat s) (lonI s)) (mat_en_from_ll_m22 (lat s) (lonI s)) (c02 s) (c12 s) (c22 s) in
  let rhs := fun F : R -> R -> R -> R -> R -> R -> R -> R -> R -> R -> R -> R -> R -> R -> R -> R -> R -> R -> R -> R -> R -> R =>
    F (lat t) (lon t) (alt t) (VN t) (VE t) (VD t) (c00 t) (c01 t) (c02 t) (c10 t) (c11 t) (c12 t) (c20 t) (c21 t) (c22 t) w0 w1 w2 f0 f1 f2 in
  -90 < lat t < 90 -> -6000000 < alt t ->
  is_derive lat t (rhs nav_rhs_lat) -> is_derive lon t (rhs nav_rhs_lon) ->
  is_derive c00 t d00 ->
  is_derive c01 t d01 ->
  is_derive c02 t d02 ->
  is_derive c10 t d10 ->
  is_derive c11 t d11 ->
  is_derive c12 t d12 ->
  is_derive c20 t d20 ->
  is_derive c21 t d21 ->
  is_derive c22 t d22 ->
  is_derive B00 t (dot3 (B00 t) (B01 t) (B02 t) (skew00 w0 w1 w2) (skew10 w0 w1 w2) (skew20 w0 w1 w2)) ->
  is_derive B01 t (dot3 (B00 t) (B01 t) (B02 t) (skew01 w0 w1 w2) (skew11 w0 w1 w2) (skew21 w0 w1 w2)) ->
  is_derive B02 t (dot3 (B00 t) (B01 t) (B02 t) (skew02 w0 w1 w2) (skew12 w0 w1 w2) (skew22 w0 w1 w2)) ->
  is_derive B10 t (dot3 (B10 t) (B11 t) (B12 t) (skew00 w0 w1 w2) (skew10 w0 w1 w2) (skew20 w0 w1 w2)) ->
  is_derive B11 t (dot3 (B10 t) (B11 t) (B12 t) (skew01 w0 w1 w2) (skew11 w0 w1 w2) (skew21 w0 w1 w2)) ->
  is_derive B12 t (dot3 (B10 t) (B11 t) (B12 t) (skew02 w0 w1 w2) (skew12 w0 w1 w2) (skew22 w0 w1 w2)) ->
  is_derive B20 t (dot3 (B20 t) (B21 t) (B22 t) (skew00 w0 w1 w2) (skew10 w0 w1 w2) (skew20 w0 w1 w2)) ->
  is_derive B21 t (dot3 (B20 t) (B21 t) (B22 t) (skew01 w0 w1 w2) (skew11 w0 w1 w2) (skew21 w0 w1 w2)) ->
  is_derive B22 t (dot3 (B20 t) (B21 t) (B22 t) (skew02 w0 w1 w2) (skew12 w0 w1 w2) (skew22 w0 w1 w2)) ->
  d00 = rhs nav_rhs_C00 /\
  d01 = rhs nav_rhs_C01 /\
  d02 = rhs nav_rhs_C02 /\
  d10 = rhs nav_rhs_C10 /\
  d11 = rhs nav_rhs_C11 /\
  d12 = rhs nav_rhs_C12 /\
  d20 = rhs nav_rhs_C20 /\
  d21 = rhs nav_rhs_C21 /\
  d22 = rhs nav_rhs_C22.
Proof.
  cbv zeta beta.
  intros Hl9 Ha Hlat Hlon C00 C01 C02 C10 C11 C12 C20 C21 C22 B00 B01 B02 B10 B11 B12 B20 B21 B22.
  unfold nav_rhs_lat in Hlat. unfold nav_rhs_lon in Hlon.
  destruct (rho_of_position_rates (lat t) (alt t) (VN t) (VE t) Hl9 Ha) as [ON [OE OD]]. cbv zeta in ON, OE, OD.
  destruct (moving_frame_derive lat lon t _ _ Hlat Hlon) as [D00 [D01 [D02 [D10 [D11 [D12 [D20 [D21 D22]]]]]]]].
  set (wN := (r2d * (VE t / ((nav_Re (lat t) + alt t) * cos (lat t * d2r))) * d2r + RATE_) * cos (lat t * d2r)) in *.
  set (wE := - (r2d * (VN t / (nav_Rn (lat t) + alt t)) * d2r)) in *.
  set (wD := - ((r2d * (VE t / ((nav_Re (lat t) + alt t) * cos (lat t * d2r))) * d2r + RATE_) * sin (lat t * d2r))) in *.
  unfold nav_rhs_C00, nav_rhs_C01, nav_rhs_C02, nav_rhs_C10, nav_rhs_C11, nav_rhs_C12, nav_rhs_C20, nav_rhs_C21, nav_rhs_C22.
  rewrite ON, OE, OD.
  (* column 0 *)
  destruct (attitude_column_solve (lat t) (lon_i (lon t) t) wN wE wD (c00 t) (c10 t) (c20 t) d00 d10 d20
     (dot3 (c00 t) (c01 t) (c02 t) (skew00 w0 w1 w2) (skew10 w0 w1 w2) (skew20 w0 w1 w2))
     (dot3 (c10 t) (c11 t) (c12 t) (skew00 w0 w1 w2) (skew10 w0 w1 w2) (skew20 w0 w1 w2))
     (dot3 (c20 t) (c21 t) (c22 t) (skew00 w0 w1 w2) (skew10 w0 w1 w2) (skew20 w0 w1 w2))) as [S00 [S10 S20]].
  { intros k Hk. destruct k as [|[|[|k]]]; [| | |exfalso; lia]; cbv beta iota.
    - etransitivity; [exact (is_derive_same _ t _ _ (derive_dot3 _ _ _ _ _ _ _ _ _ _ _ _ _ D00 D01 D02 C00 C10 C20) B00)|]. unfold dot3. ring.
    - etransitivity; [exact (is_derive_same _ t _ _ (derive_dot3 _ _ _ _ _ _ _ _ _ _ _ _ _ D10 D11 D12 C00 C10 C20) B10)|]. unfold dot3. ring.
    - etransitivity; [exact (is_derive_same _ t _ _ (derive_dot3 _ _ _ _ _ _ _ _ _ _ _ _ _ D20 D21 D22 C00 C10 C20) B20)|]. unfold dot3. ring. }
  destruct (attitude_column_solve (lat t) (lon_i (lon t) t) wN wE wD (c01 t) (c11 t) (c21 t) d01 d11 d21
     (dot3 (c00 t) (c01 t) (c02 t) (skew01 w0 w1 w2) (skew11 w0 w1 w2) (skew21 w0 w1 w2))
     (dot3 (c10 t) (c11 t) (c12 t) (skew01 w0 w1 w2) (skew11 w0 w1 w2) (skew21 w0 w1 w2))
     (dot3 (c20 t) (c21 t) (c22 t) (skew01 w0 w1 w2) (skew11 w0 w1 w2) (skew21 w0 w1 w2))) as [S01 [S11 S21]].
  { intros k Hk. destruct k as [|[|[|k]]]; [| | |exfalso; lia]; cbv beta iota.
    - etransitivity; [exact (is_derive_same _ t _ _ (derive_dot3 _ _ _ _ _ _ _ _ _ _ _ _ _ D00 D01 D02 C01 C11 C21) B01)|]. unfold dot3. ring.
    - etransitivity; [exact (is_derive_same _ t _ _ (derive_dot3 _ _ _ _ _ _ _ _ _ _ _ _ _ D10 D11 D12 C01 C11 C21) B11)|]. unfold dot3. ring.
    - etransitivity; [exact (is_derive_same _ t _ _ (derive_dot3 _ _ _ _ _ _ _ _ _ _ _ _ _ D20 D21 D22 C01 C11 C21) B21)|]. unfold dot3. ring. }
  destruct (attitude_column_solve (lat t) (lon_i (lon t) t) wN wE wD (c02 t) (c12 t) (c22 t) d02 d12 d22
     (dot3 (c00 t) (c01 t) (c02 t) (skew02 w0 w1 w2) (skew12 w0 w1 w2) (skew22 w0 w1 w2))
     (dot3 (c10 t) (c11 t) (c12 t) (skew02 w0 w1 w2) (skew12 w0 w1 w2) (skew22 w0 w1 w2))
     (dot3 (c20 t) (c21 t) (c22 t) (skew02 w0 w1 w2) (skew12 w0 w1 w2) (skew22 w0 w1 w2))) as [S02 [S12 S22]].
  { intros k Hk. destruct k as [|[|[|k]]]; [| | |exfalso; lia]; cbv beta iota.
    - etransitivity; [exact (is_derive_same _ t _ _ (derive_dot3 _ _ _ _ _ _ _ _ _ _ _ _ _ D00 D01 D02 C02 C12 C22) B02)|]. unfold dot3. ring.
    - etransitivity; [exact (is_derive_same _ t _ _ (derive_dot3 _ _ _ _ _ _ _ _ _ _ _ _ _ D10 D11 D12 C02 C12 C22) B12)|]. unfold dot3. ring.
    - etransitivity; [exact (is_derive_same _ t _ _ (derive_dot3 _ _ _ _ _ _ _ _ _ _ _ _ _ D20 D21 D22 C02 C12 C22) B22)|]. unfold dot3. ring. }
  rewrite S00, S01, S02, S10, S11, S12, S20, S21, S22.
  unfold dot3, cross0, cross1, cross2, skew00, skew01, skew02, skew10, skew11, skew12, skew20, skew21, skew22.
  split_all; ring.
Qed.

(** * 6. Non-vacuity: the hypotheses of the theorems hold on concrete, non-trivial instances *)

(** coning and sculling terms are visible: a = (1,0,0), b = (0,1,0): gyros = (T + T^5/30, T^2 - T^4/24, - T^3/6) *)
Lemma incr_example :
  incr_readings_gyros0 1 1 0 0 0 1 0 0 0 0 0 0 0 0 0 0 = 31 / 30 /\
  incr_readings_gyros1 1 1 0 0 0 1 0 0 0 0 0 0 0 0 0 0 = 23 / 24 /\
  incr_readings_gyros2 1 1 0 0 0 1 0 0 0 0 0 0 0 0 0 0 = - 1 / 6 /\
  incr_readings_accels0 1 1 0 0 0 0 0 0 0 0 0 1 0 0 0 0 = 0 /\
  incr_readings_accels1 1 1 0 0 0 0 0 0 0 0 0 1 0 0 0 0 = 5 / 6 /\
  incr_readings_accels2 1 1 0 0 0 0 0 0 0 0 0 1 0 0 0 0 = - 1 / 2.
Proof. unf_incr. split_all; field. Qed.

(** a body moving east along the parallel of 30 deg N at 1/1000 deg/s (about 96 m/s), 1000 m up:
    all hypotheses of specific_force_inverts_rhs hold, so its conclusion holds for this trajectory *)
Definition ex_VE : R := 1 / 1000 * d2r * ((nav_Re 30 + 1000) * cos (30 * d2r)).

Lemma inverts_rhs_example (t roll pitch heading w0 w1 w2 : R) :
  let lat := fun _ : R => 30 in let lon := fun s : R => 1 / 1000 * s in let alt := fun _ : R => 1000 in
  let VN := fun _ : R => 0 in let VE := fun _ : R => ex_VE in let VD := fun _ : R => 0 in
  let lonI := fun s => lon_i (lon s) s in
  let Vx := fun s => vi_x (lat s) (lonI s) (alt s) (VN s) (VE s) (VD s) in
  let Vy := fun s => vi_y (lat s) (lonI s) (alt s) (VN s) (VE s) (VD s) in
  let Vz := fun s => vi_z (lat s) (lonI s) (alt s) (VN s) (VE s) (VD s) in
  let f := sf_body (lat t) (lonI t) (alt t) roll pitch heading (Derive Vx t) (Derive Vy t) (Derive Vz t) in
  let rhs := fun F : R -> R -> R -> R -> R -> R -> R -> R -> R -> R -> R -> R -> R -> R -> R -> R -> R -> R -> R -> R -> R -> R =>
    F (lat t) (lon t) (alt t) (VN t) (VE t) (VD t)
      (mat_from_rph_m00 roll pitch heading) (mat_from_rph_m01 roll pitch heading) (mat_from_rph_m02 roll pitch heading)
      (mat_from_rph_m10 roll pitch heading) (mat_from_rph_m11 roll pitch heading) (mat_from_rph_m12 roll pitch heading)
      (mat_from_rph_m20 roll pitch heading) (mat_from_rph_m21 roll pitch heading) (mat_from_rph_m22 roll pitch heading)
      w0 w1 w2 (f 0%nat) (f 1%nat) (f 2%nat) in
  0 < ex_VE /\ rhs nav_rhs_VN = 0 /\ rhs nav_rhs_VE = 0 /\ rhs nav_rhs_VD = 0.
Proof.
  cbv zeta.
  assert (H30 : -90 < 30 < 90) by lra.
  pose proof (cos_d2r_pos 30 H30) as Hcos. fold d2r in Hcos.
  pose proof (nav_Re_lower 30) as HRe. pose proof PI_RGT_0 as Hpi.
  split.
  - unfold ex_VE, d2r. apply Rmult_lt_0_compat; [apply Rmult_lt_0_compat; lra|].
    apply Rmult_lt_0_compat; [lra|exact Hcos].
  - apply (specific_force_inverts_rhs (fun _ => 30) (fun s => 1 / 1000 * s) (fun _ => 1000)
             (fun _ => 0) (fun _ => ex_VE) (fun _ => 0) t 0 0 0 roll pitch heading w0 w1 w2); cbv beta.
    + lra.
    + lra.
    + unfold nav_rhs_lat. replace (r2d * (0 / (nav_Rn 30 + 1000))) with 0 by (unfold Rdiv; ring).
      auto_derive; [exact I|ring].
    + unfold nav_rhs_lon, ex_VE.
      replace (r2d * (1 / 1000 * d2r * ((nav_Re 30 + 1000) * cos (30 * d2r)) / ((nav_Re 30 + 1000) * cos (30 * d2r))))
        with (1 / 1000) by (unfold r2d, d2r; field; unfold d2r in Hcos; split_all; lra).
      auto_derive; [exact I|ring].
    + unfold nav_rhs_alt. auto_derive; [exact I|ring].
    + auto_derive; [exact I|ring].
    + auto_derive; [exact I|ring].
    + auto_derive; [exact I|ring].
Qed.

(** a body at rest at latitude L with identity attitude and w = rate_n(L): all hypotheses of
    angular_rate_inverts_rhs hold (C_nb' = 0 is what the attitude equation returns) *)
Lemma angular_rate_example (L Lam H t f0 f1 f2 : R) :
  -90 < L < 90 -> -6000000 < H ->
  let rhs := fun F : R -> R -> R -> R -> R -> R -> R -> R -> R -> R -> R -> R -> R -> R -> R -> R -> R -> R -> R -> R -> R -> R =>
    F L Lam H 0 0 0 1 0 0 0 1 0 0 0 1 (rate_n_w0 L) (rate_n_w1 L) (rate_n_w2 L) f0 f1 f2 in
  0 = rhs nav_rhs_C00 /\
  0 = rhs nav_rhs_C01 /\
  0 = rhs nav_rhs_C02 /\
  0 = rhs nav_rhs_C10 /\
  0 = rhs nav_rhs_C11 /\
  0 = rhs nav_rhs_C12 /\
  0 = rhs nav_rhs_C20 /\
  0 = rhs nav_rhs_C21 /\
  0 = rhs nav_rhs_C22.
Proof.
  intros HL HH. cbv zeta.
  apply (angular_rate_inverts_rhs (fun _ => L) (fun _ => Lam) (fun _ => H) (fun _ => 0) (fun _ => 0) (fun _ => 0)
           (fun _ : R => 1) (fun _ : R => 0) (fun _ : R => 0) (fun _ : R => 0) (fun _ : R => 1) (fun _ : R => 0) (fun _ : R => 0) (fun _ : R => 0) (fun _ : R => 1) t 0 0 0 0 0 0 0 0 0 (rate_n_w0 L) (rate_n_w1 L) (rate_n_w2 L) f0 f1 f2); cbv beta;
    try assumption;
    try (unfold nav_rhs_lat; replace (r2d * (0 / (nav_Rn L + H))) with 0 by (unfold Rdiv; ring); auto_derive; [exact I|ring]);
    try (unfold nav_rhs_lon; replace (r2d * (0 / ((nav_Re L + H) * cos (L * d2r)))) with 0 by (unfold Rdiv; ring); auto_derive; [exact I|ring]);
    try (auto_derive; [exact I|ring]);
    unfold dot3, lon_i, skew00, skew01, skew02, skew10, skew11, skew12, skew20, skew21, skew22; unf_rate; unf_en;
    (auto_derive; [exact I|]); rewrite ?cos_m90, ?sin_m90; unfold RATE_;
    set (phi := L * (PI / 180)); set (l := (Lam + 1458423 / 20000000000 * (180 / PI) * t) * (PI / 180));
    assert (Hp : sin phi * sin phi = 1 - cos phi * cos phi) by (pose proof (sc1 phi); lra);
    assert (Hl : sin l * sin l = 1 - cos l * cos l) by (pose proof (sc1 l); lra);
    field_simplify_eq; try apply PI_neq0; ring [Hp Hl].
Qed.

(** * 7. Assembled statements for Props/C03.v *)

Lemma stationary_senses_gravity_and_earth_rate (lat lon alt t : R) : -90 <= lat <= 90 ->
  let x := fun s => lla_to_ecef_r0 lat (lon_i lon s) alt in
  let y := fun s => lla_to_ecef_r1 lat (lon_i lon s) alt in
  let z := fun s => lla_to_ecef_r2 lat (lon_i lon s) alt in
  (is_derive_n x 2 t (- (RATE_ * RATE_) * x t) /\ is_derive_n y 2 t (- (RATE_ * RATE_) * y t) /\ is_derive_n z 2 t 0) /\
  (let fx := Derive_n x 2 t - gravitation_ecef_g0 lat (lon_i lon t) alt in
   let fy := Derive_n y 2 t - gravitation_ecef_g1 lat (lon_i lon t) alt in
   let fz := Derive_n z 2 t - gravitation_ecef_g2 lat (lon_i lon t) alt in
   mat_en_from_ll_m00 lat (lon_i lon t) * fx + mat_en_from_ll_m10 lat (lon_i lon t) * fy + mat_en_from_ll_m20 lat (lon_i lon t) * fz = 0 /\
   mat_en_from_ll_m01 lat (lon_i lon t) * fx + mat_en_from_ll_m11 lat (lon_i lon t) * fy + mat_en_from_ll_m21 lat (lon_i lon t) * fz = 0 /\
   mat_en_from_ll_m02 lat (lon_i lon t) * fx + mat_en_from_ll_m12 lat (lon_i lon t) * fy + mat_en_from_ll_m22 lat (lon_i lon t) * fz
     = - gravity_g lat alt) /\
  body_rate_of (fun s => mat_en_from_ll_m00 lat (lon_i lon s)) (fun s => mat_en_from_ll_m01 lat (lon_i lon s))
               (fun s => mat_en_from_ll_m02 lat (lon_i lon s)) (fun s => mat_en_from_ll_m10 lat (lon_i lon s))
               (fun s => mat_en_from_ll_m11 lat (lon_i lon s)) (fun s => mat_en_from_ll_m12 lat (lon_i lon s))
               (fun s => mat_en_from_ll_m20 lat (lon_i lon s)) (fun s => mat_en_from_ll_m21 lat (lon_i lon s))
               (fun s => mat_en_from_ll_m22 lat (lon_i lon s))
               t (rate_n_w0 lat) (rate_n_w1 lat) (rate_n_w2 lat).
Proof.
  intros Hlat. cbv zeta. split; [|split].
  - exact (rest_acceleration lat lon alt t).
  - exact (rest_specific_force lat lon alt t Hlat).
  - exact (rest_frame_rate lat lon t).
Qed.

Lemma stationary_any_attitude (lat lon alt roll pitch heading t : R) : -90 <= lat <= 90 ->
  let x := fun s => lla_to_ecef_r0 lat (lon_i lon s) alt in
  let y := fun s => lla_to_ecef_r1 lat (lon_i lon s) alt in
  let z := fun s => lla_to_ecef_r2 lat (lon_i lon s) alt in
  (sf_body lat (lon_i lon t) alt roll pitch heading (Derive_n x 2 t) (Derive_n y 2 t) (Derive_n z 2 t) 0
     = - (mat_from_rph_m20 roll pitch heading * gravity_g lat alt) /\
   sf_body lat (lon_i lon t) alt roll pitch heading (Derive_n x 2 t) (Derive_n y 2 t) (Derive_n z 2 t) 1
     = - (mat_from_rph_m21 roll pitch heading * gravity_g lat alt) /\
   sf_body lat (lon_i lon t) alt roll pitch heading (Derive_n x 2 t) (Derive_n y 2 t) (Derive_n z 2 t) 2
     = - (mat_from_rph_m22 roll pitch heading * gravity_g lat alt)) /\
  body_rate_of (fun s => cib lat (lon_i lon s) roll pitch heading 0 0) (fun s => cib lat (lon_i lon s) roll pitch heading 0 1)
               (fun s => cib lat (lon_i lon s) roll pitch heading 0 2) (fun s => cib lat (lon_i lon s) roll pitch heading 1 0)
               (fun s => cib lat (lon_i lon s) roll pitch heading 1 1) (fun s => cib lat (lon_i lon s) roll pitch heading 1 2)
               (fun s => cib lat (lon_i lon s) roll pitch heading 2 0) (fun s => cib lat (lon_i lon s) roll pitch heading 2 1)
               (fun s => cib lat (lon_i lon s) roll pitch heading 2 2) t
    (dot3 (mat_from_rph_m00 roll pitch heading) (mat_from_rph_m10 roll pitch heading) (mat_from_rph_m20 roll pitch heading)
          (rate_n_w0 lat) (rate_n_w1 lat) (rate_n_w2 lat))
    (dot3 (mat_from_rph_m01 roll pitch heading) (mat_from_rph_m11 roll pitch heading) (mat_from_rph_m21 roll pitch heading)
          (rate_n_w0 lat) (rate_n_w1 lat) (rate_n_w2 lat))
    (dot3 (mat_from_rph_m02 roll pitch heading) (mat_from_rph_m12 roll pitch heading) (mat_from_rph_m22 roll pitch heading)
          (rate_n_w0 lat) (rate_n_w1 lat) (rate_n_w2 lat)).
Proof.
  intros Hlat. cbv zeta. split.
  - exact (rest_body_specific_force lat lon alt roll pitch heading t Hlat).
  - exact (rest_body_rate lat lon roll pitch heading t).
Qed.

Lemma stationary_instance : -90 <= -33 <= 90 /\ -90 <= 78 <= 90.
Proof. split; lra. Qed.

Lemma two_samples_instance : 1 / 10 - 0 <> 0.
Proof. lra. Qed.
