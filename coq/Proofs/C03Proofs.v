(** C03: the IMU synthesiser (pyins.sim) matches the true kinematics and inverts the strapdown equations.

    Theorems about the definitions GENERATED from /repo:
      Gen/C03Gen.v    incr_readings_*  (sim._compute_increment_readings, one interval)
                      imu_rate_*, imu_incr_* (sim.generate_imu on two samples, position+velocity form)
      Gen/Earth.v     gravitation_ecef_*, gravity_g, rate_n_*
      Gen/Transform.v lla_to_ecef_*, mat_en_from_ll_*, mat_from_rph_*
    against the hand-written physics of Spec/NavODE.v and the vector definitions below
    (specification-side definitions of this file: vec3 ... sf_body; no axioms). *)
From Coq Require Import Reals Lra.
From Coquelicot Require Import Coquelicot.
From PV Require Import Base.RealTac Spec.LibSpecs Spec.Ellipsoid Spec.NavODE.
From PV Require Import Gen.Earth Gen.Transform Gen.C03Gen Proofs.C16Proofs.
Open Scope R_scope.

(** * 0. Specification-side vocabulary *)

Definition vec3 := (R * R * R)%type.
Definition vx (v : vec3) : R := fst (fst v).
Definition vy (v : vec3) : R := snd (fst v).
Definition vz (v : vec3) : R := snd v.
Definition vadd (u v : vec3) : vec3 := (vx u + vx v, vy u + vy v, vz u + vz v).
Definition vsub (u v : vec3) : vec3 := (vx u - vx v, vy u - vy v, vz u - vz v).
Definition vscale (k : R) (v : vec3) : vec3 := (k * vx v, k * vy v, k * vz v).
Definition cross (u v : vec3) : vec3 :=
  (vy u * vz v - vz u * vy v, vz u * vx v - vx u * vz v, vx u * vy v - vy u * vx v).

(** rotation vector of one spline interval, theta(tau) = a tau + b tau^2 + c tau^3, and its derivative *)
Definition theta (a b c : vec3) (t : R) : vec3 :=
  vadd (vscale t a) (vadd (vscale (t * t) b) (vscale (t * t * t) c)).
Definition theta_dot (a b c : vec3) (t : R) : vec3 :=
  vadd a (vadd (vscale (2 * t) b) (vscale (3 * (t * t)) c)).

(** body angular rate from the rotation vector, third order in theta:
      w = theta' - 1/2 theta x theta' + 1/6 theta x (theta x theta')
    (the series of  w = theta' - (1-cos|th|)/|th|^2 th x th' + (|th|-sin|th|)/|th|^3 th x (th x th')). *)
Definition body_rate3 (a b c : vec3) (t : R) : vec3 :=
  let th := theta a b c t in let thd := theta_dot a b c t in
  vadd (vsub thd (vscale (1 / 2) (cross th thd))) (vscale (1 / 6) (cross th (cross th thd))).

(** specific force d + e tau given in the body axes of the interval start, resolved in the current body
    axes with the second-order transposed rotation  I - [th x] + 1/2 [th x]^2 *)
Definition body_force2 (a b c d e : vec3) (t : R) : vec3 :=
  let th := theta a b c t in let f := vadd d (vscale t e) in
  vadd (vsub f (cross th f)) (vscale (1 / 2) (cross th (cross th f))).

Ltac unf_vec := cbv [body_rate3 body_force2 theta theta_dot vadd vsub vscale cross vx vy vz fst snd].
Ltac unf_incr := unfold incr_readings_gyros0, incr_readings_gyros1, incr_readings_gyros2,
   incr_readings_accels0, incr_readings_accels1, incr_readings_accels2;
   repeat autounfold with incr_readings_db.

(** * 1. _compute_increment_readings: exact coefficients, exact integrals *)

Lemma theta_derive a b c t :
  is_derive (fun s => vx (theta a b c s)) t (vx (theta_dot a b c t)) /\
  is_derive (fun s => vy (theta a b c s)) t (vy (theta_dot a b c t)) /\
  is_derive (fun s => vz (theta a b c s)) t (vz (theta_dot a b c t)).
Proof.
  destruct a as [[a0 a1] a2], b as [[b0 b1] b2], c as [[c0 c1] c2]. unf_vec.
  split; [|split]; (auto_derive; [exact I|]); ring.
Qed.

(** the fundamental theorem of calculus for an everywhere differentiable primitive vanishing at 0 *)
Lemma RInt_of_primitive (F f : R -> R) (T : R) :
  (forall x, is_derive F x (f x)) -> (forall x, ex_derive f x) -> F 0 = 0 ->
  is_RInt f 0 T (F T).
Proof.
  intros HF Hf H0.
  replace (F T) with (F T - F 0) by (rewrite H0; ring).
  apply (is_RInt_derive F f 0 T).
  - intros x _. apply HF.
  - intros x _. apply (ex_derive_continuous (V := R_NormedModule)). apply Hf.
Qed.

Section Increments.
Variables a0 a1 a2 b0 b1 b2 c0 c1 c2 d0 d1 d2 e0 e1 e2 : R.
Let a : vec3 := (a0, a1, a2).
Let b : vec3 := (b0, b1, b2).
Let c : vec3 := (c0, c1, c2).
Let d : vec3 := (d0, d1, d2).
Let e : vec3 := (e0, e1, e2).
Let G0 T := incr_readings_gyros0 T a0 a1 a2 b0 b1 b2 c0 c1 c2 d0 d1 d2 e0 e1 e2.
Let G1 T := incr_readings_gyros1 T a0 a1 a2 b0 b1 b2 c0 c1 c2 d0 d1 d2 e0 e1 e2.
Let G2 T := incr_readings_gyros2 T a0 a1 a2 b0 b1 b2 c0 c1 c2 d0 d1 d2 e0 e1 e2.
Let A0 T := incr_readings_accels0 T a0 a1 a2 b0 b1 b2 c0 c1 c2 d0 d1 d2 e0 e1 e2.
Let A1 T := incr_readings_accels1 T a0 a1 a2 b0 b1 b2 c0 c1 c2 d0 d1 d2 e0 e1 e2.
Let A2 T := incr_readings_accels2 T a0 a1 a2 b0 b1 b2 c0 c1 c2 d0 d1 d2 e0 e1 e2.

(** d/d(dt) of the Horner accumulation IS the body-rate polynomial: all eight omega[k] are pinned. *)
Lemma gyro_poly_derive dt :
  is_derive G0 dt (vx (body_rate3 a b c dt)) /\
  is_derive G1 dt (vy (body_rate3 a b c dt)) /\
  is_derive G2 dt (vz (body_rate3 a b c dt)).
Proof.
  subst G0 G1 G2 a b c. unf_incr.
  split; [|split]; (auto_derive; [exact I|]); unf_vec; field.
Qed.

Lemma accel_poly_derive dt :
  is_derive A0 dt (vx (body_force2 a b c d e dt)) /\
  is_derive A1 dt (vy (body_force2 a b c d e dt)) /\
  is_derive A2 dt (vz (body_force2 a b c d e dt)).
Proof.
  subst A0 A1 A2 a b c d e. unf_incr.
  split; [|split]; (auto_derive; [exact I|]); unf_vec; field.
Qed.

Lemma incr_at_zero :
  G0 0 = 0 /\ G1 0 = 0 /\ G2 0 = 0 /\ A0 0 = 0 /\ A1 0 = 0 /\ A2 0 = 0.
Proof. subst G0 G1 G2 A0 A1 A2. unf_incr. repeat split; field. Qed.

Lemma body_rate3_smooth t :
  ex_derive (fun s => vx (body_rate3 a b c s)) t /\
  ex_derive (fun s => vy (body_rate3 a b c s)) t /\
  ex_derive (fun s => vz (body_rate3 a b c s)) t.
Proof. subst a b c. unf_vec. repeat split; auto_derive; exact I. Qed.

Lemma body_force2_smooth t :
  ex_derive (fun s => vx (body_force2 a b c d e s)) t /\
  ex_derive (fun s => vy (body_force2 a b c d e s)) t /\
  ex_derive (fun s => vz (body_force2 a b c d e s)) t.
Proof. subst a b c d e. unf_vec. repeat split; auto_derive; exact I. Qed.

Lemma gyro_poly_exact dt :
  (forall T, is_derive G0 T (vx (body_rate3 a b c T)) /\ is_derive G1 T (vy (body_rate3 a b c T)) /\
             is_derive G2 T (vz (body_rate3 a b c T))) /\
  is_RInt (fun s => vx (body_rate3 a b c s)) 0 dt (G0 dt) /\
  is_RInt (fun s => vy (body_rate3 a b c s)) 0 dt (G1 dt) /\
  is_RInt (fun s => vz (body_rate3 a b c s)) 0 dt (G2 dt).
Proof.
  destruct incr_at_zero as [Z0 [Z1 [Z2 _]]].
  split; [exact gyro_poly_derive|].
  split; [|split]; apply RInt_of_primitive; try assumption;
    try (intro x; apply gyro_poly_derive); intro x; apply body_rate3_smooth.
Qed.

Lemma accel_poly_exact dt :
  (forall T, is_derive A0 T (vx (body_force2 a b c d e T)) /\ is_derive A1 T (vy (body_force2 a b c d e T)) /\
             is_derive A2 T (vz (body_force2 a b c d e T))) /\
  is_RInt (fun s => vx (body_force2 a b c d e s)) 0 dt (A0 dt) /\
  is_RInt (fun s => vy (body_force2 a b c d e s)) 0 dt (A1 dt) /\
  is_RInt (fun s => vz (body_force2 a b c d e s)) 0 dt (A2 dt).
Proof.
  destruct incr_at_zero as [_ [_ [_ [Z0 [Z1 Z2]]]]].
  split; [exact accel_poly_derive|].
  split; [|split]; apply RInt_of_primitive; try assumption;
    try (intro x; apply accel_poly_derive); intro x; apply body_force2_smooth.
Qed.
End Increments.

(** [w] is the angular velocity of the moving frame C(s) = (cij s) with respect to the frame its columns are
    written in, resolved in the moving frame itself:  C^T C' = [w x]  at time t. *)
Definition body_rate_of (c00 c01 c02 c10 c11 c12 c20 c21 c22 : R -> R) (t w0 w1 w2 : R) : Prop :=
  (ex_derive c00 t /\ ex_derive c01 t /\ ex_derive c02 t /\ ex_derive c10 t /\ ex_derive c11 t /\
   ex_derive c12 t /\ ex_derive c20 t /\ ex_derive c21 t /\ ex_derive c22 t) /\
  c00 t * Derive c00 t + c10 t * Derive c10 t + c20 t * Derive c20 t = 0 /\
  c00 t * Derive c01 t + c10 t * Derive c11 t + c20 t * Derive c21 t = - w2 /\
  c00 t * Derive c02 t + c10 t * Derive c12 t + c20 t * Derive c22 t = w1 /\
  c01 t * Derive c00 t + c11 t * Derive c10 t + c21 t * Derive c20 t = w2 /\
  c01 t * Derive c01 t + c11 t * Derive c11 t + c21 t * Derive c21 t = 0 /\
  c01 t * Derive c02 t + c11 t * Derive c12 t + c21 t * Derive c22 t = - w0 /\
  c02 t * Derive c00 t + c12 t * Derive c10 t + c22 t * Derive c20 t = - w1 /\
  c02 t * Derive c01 t + c12 t * Derive c11 t + c22 t * Derive c21 t = w0 /\
  c02 t * Derive c02 t + c12 t * Derive c12 t + c22 t * Derive c22 t = 0.

Ltac unf_rph := unfold mat_from_rph_m00, mat_from_rph_m01, mat_from_rph_m02, mat_from_rph_m10, mat_from_rph_m11,
   mat_from_rph_m12, mat_from_rph_m20, mat_from_rph_m21, mat_from_rph_m22; repeat autounfold with mat_from_rph_db.
Ltac split_all := repeat (match goal with |- _ /\ _ => split end).

(** * 2. A body at rest *)

(** longitude of the Earth-fixed meridian [lon] seen from the inertial frame that coincides with ECEF at t = 0
    (generate_imu: lla_inertial[:, 1] += rad2deg(RATE) * time) *)
Definition lon_i (lon t : R) : R := lon + RATE_ * (180 / PI) * t.

Section AtRest.
Variables lat lon alt : R.
Let lam (s : R) : R := lon_i lon s.
Let x (s : R) : R := lla_to_ecef_r0 lat (lam s) alt.
Let y (s : R) : R := lla_to_ecef_r1 lat (lam s) alt.
Let z (s : R) : R := lla_to_ecef_r2 lat (lam s) alt.
Let M00 (s : R) : R := mat_en_from_ll_m00 lat (lam s).
Let M01 (s : R) : R := mat_en_from_ll_m01 lat (lam s).
Let M02 (s : R) : R := mat_en_from_ll_m02 lat (lam s).
Let M10 (s : R) : R := mat_en_from_ll_m10 lat (lam s).
Let M11 (s : R) : R := mat_en_from_ll_m11 lat (lam s).
Let M12 (s : R) : R := mat_en_from_ll_m12 lat (lam s).
Let M20 (s : R) : R := mat_en_from_ll_m20 lat (lam s).
Let M21 (s : R) : R := mat_en_from_ll_m21 lat (lam s).
Let M22 (s : R) : R := mat_en_from_ll_m22 lat (lam s).

Lemma rest_velocity t :
  is_derive x t (- RATE_ * y t) /\ is_derive y t (RATE_ * x t) /\ is_derive z t 0.
Proof.
  subst x y z lam. unfold lon_i. unf_ecef.
  pose proof (sqrtW_pos (lat * (PI/180))) as HQ.
  split; [|split]; (auto_derive; [auto|]); field; (split; [lra | apply PI_neq0]) || apply PI_neq0.
Qed.

Lemma rest_acceleration t :
  is_derive_n x 2 t (- (RATE_ * RATE_) * x t) /\
  is_derive_n y 2 t (- (RATE_ * RATE_) * y t) /\
  is_derive_n z 2 t 0.
Proof.
  pose proof (sqrtW_pos (lat * (PI/180))) as HQ.
  split; [|split].
  - change (is_derive (Derive x) t (- (RATE_ * RATE_) * x t)).
    apply (is_derive_ext (fun s => - RATE_ * y s)).
    + intro s. symmetry. apply is_derive_unique. apply rest_velocity.
    + subst x y z lam. unfold lon_i. unf_ecef.
      auto_derive; [auto|]. field. split; [lra | apply PI_neq0].
  - change (is_derive (Derive y) t (- (RATE_ * RATE_) * y t)).
    apply (is_derive_ext (fun s => RATE_ * x s)).
    + intro s. symmetry. apply is_derive_unique. apply rest_velocity.
    + subst x y z lam. unfold lon_i. unf_ecef.
      auto_derive; [auto|]. field. split; [lra | apply PI_neq0].
  - change (is_derive (Derive z) t 0).
    apply (is_derive_ext (fun s => 0)).
    + intro s. symmetry. apply is_derive_unique. apply rest_velocity.
    + auto_derive; [auto|]. ring.
Qed.

(** the inertially referenced NED frame of the resting body turns with Earth rate: d/dt C = [Omega x] C *)
Lemma rest_frame_derive t :
  is_derive M00 t (- RATE_ * M10 t) /\ is_derive M01 t (- RATE_ * M11 t) /\ is_derive M02 t (- RATE_ * M12 t) /\
  is_derive M10 t (RATE_ * M00 t) /\ is_derive M11 t (RATE_ * M01 t) /\ is_derive M12 t (RATE_ * M02 t) /\
  is_derive M20 t 0 /\ is_derive M21 t 0 /\ is_derive M22 t 0.
Proof.
  subst M00 M01 M02 M10 M11 M12 M20 M21 M22 lam. unfold lon_i. unf_en.
  split_all; (auto_derive; [auto|]); field; apply PI_neq0.
Qed.

Lemma rest_specific_force t :
  -90 <= lat <= 90 ->
  let fx := Derive_n x 2 t - gravitation_ecef_g0 lat (lam t) alt in
  let fy := Derive_n y 2 t - gravitation_ecef_g1 lat (lam t) alt in
  let fz := Derive_n z 2 t - gravitation_ecef_g2 lat (lam t) alt in
  M00 t * fx + M10 t * fy + M20 t * fz = 0 /\
  M01 t * fx + M11 t * fy + M21 t * fz = 0 /\
  M02 t * fx + M12 t * fy + M22 t * fz
    = - gravity_g lat alt.
Proof.
  intros Hlat. cbv zeta.
  destruct (rest_acceleration t) as [Hx [Hy Hz]].
  rewrite (is_derive_n_unique _ _ _ _ Hx), (is_derive_n_unique _ _ _ _ Hy), (is_derive_n_unique _ _ _ _ Hz).
  destruct (gravitation_is_gravity_minus_centrifugal lat (lam t) alt Hlat) as [G0 [G1 G2]].
  rewrite G0, G1, G2. unfold centrifugal_x, centrifugal_y, centrifugal_z.
  fold (x t) (y t) (z t).
  generalize (gravity_g lat alt) (x t) (y t) (z t). intros g X Y Z.
  subst M00 M01 M02 M10 M11 M12 M20 M21 M22. cbv beta. unf_en. rewrite !cos_m90, !sin_m90.
  set (phi := lat * (PI / 180)). set (l := lam t * (PI / 180)).
  assert (Hp : sin phi * sin phi = 1 - cos phi * cos phi) by (pose proof (sc1 phi); lra).
  assert (Hl : sin l * sin l = 1 - cos l * cos l) by (pose proof (sc1 l); lra).
  repeat split; ring [Hp Hl].
Qed.

(** the inertially referenced NED frame of the resting body turns with rate_n(lat), resolved in NED *)
Lemma rest_frame_rate t :
  body_rate_of M00 M01 M02 M10 M11 M12 M20 M21 M22 t (rate_n_w0 lat) (rate_n_w1 lat) (rate_n_w2 lat).
Proof.
  destruct (rest_frame_derive t) as [D00 [D01 [D02 [D10 [D11 [D12 [D20 [D21 D22]]]]]]]].
  unfold body_rate_of. split.
  - split_all; eexists; eassumption.
  - rewrite (is_derive_unique _ _ _ D00), (is_derive_unique _ _ _ D01), (is_derive_unique _ _ _ D02),
      (is_derive_unique _ _ _ D10), (is_derive_unique _ _ _ D11), (is_derive_unique _ _ _ D12),
      (is_derive_unique _ _ _ D20), (is_derive_unique _ _ _ D21), (is_derive_unique _ _ _ D22).
    subst M00 M01 M02 M10 M11 M12 M20 M21 M22. cbv beta.
    unf_rate. unf_en. rewrite !cos_m90, !sin_m90. unfold RATE_.
    set (phi := lat * (PI / 180)). set (l := lam t * (PI / 180)).
    assert (Hp : sin phi * sin phi = 1 - cos phi * cos phi) by (pose proof (sc1 phi); lra).
    assert (Hl : sin l * sin l = 1 - cos l * cos l) by (pose proof (sc1 l); lra).
    split_all; ring [Hp Hl].
Qed.

(** attitude of the resting body: C_ib(s) = C_in(s) C_nb with C_nb = mat_from_rph(roll, pitch, heading) fixed *)
Variables roll pitch heading : R.
Let R00 := mat_from_rph_m00 roll pitch heading. Let R01 := mat_from_rph_m01 roll pitch heading.
Let R02 := mat_from_rph_m02 roll pitch heading. Let R10 := mat_from_rph_m10 roll pitch heading.
Let R11 := mat_from_rph_m11 roll pitch heading. Let R12 := mat_from_rph_m12 roll pitch heading.
Let R20 := mat_from_rph_m20 roll pitch heading. Let R21 := mat_from_rph_m21 roll pitch heading.
Let R22 := mat_from_rph_m22 roll pitch heading.
Let B00 s := dot3 (M00 s) (M01 s) (M02 s) R00 R10 R20.
Let B01 s := dot3 (M00 s) (M01 s) (M02 s) R01 R11 R21.
Let B02 s := dot3 (M00 s) (M01 s) (M02 s) R02 R12 R22.
Let B10 s := dot3 (M10 s) (M11 s) (M12 s) R00 R10 R20.
Let B11 s := dot3 (M10 s) (M11 s) (M12 s) R01 R11 R21.
Let B12 s := dot3 (M10 s) (M11 s) (M12 s) R02 R12 R22.
Let B20 s := dot3 (M20 s) (M21 s) (M22 s) R00 R10 R20.
Let B21 s := dot3 (M20 s) (M21 s) (M22 s) R01 R11 R21.
Let B22 s := dot3 (M20 s) (M21 s) (M22 s) R02 R12 R22.

Lemma rest_body_derive t :
  is_derive B00 t (- RATE_ * B10 t) /\ is_derive B01 t (- RATE_ * B11 t) /\ is_derive B02 t (- RATE_ * B12 t) /\
  is_derive B10 t (RATE_ * B00 t) /\ is_derive B11 t (RATE_ * B01 t) /\ is_derive B12 t (RATE_ * B02 t) /\
  is_derive B20 t 0 /\ is_derive B21 t 0 /\ is_derive B22 t 0.
Proof.
  subst B00 B01 B02 B10 B11 B12 B20 B21 B22. cbv beta.
  generalize R00 R01 R02 R10 R11 R12 R20 R21 R22. intros r00 r01 r02 r10 r11 r12 r20 r21 r22.
  subst M00 M01 M02 M10 M11 M12 M20 M21 M22 lam. unfold dot3, lon_i. unf_en.
  split_all; (auto_derive; [auto|]); field; apply PI_neq0.
Qed.

(** gyro of the resting body: C_nb^T rate_n(lat) *)
Lemma rest_body_rate t :
  body_rate_of B00 B01 B02 B10 B11 B12 B20 B21 B22 t
    (dot3 R00 R10 R20 (rate_n_w0 lat) (rate_n_w1 lat) (rate_n_w2 lat))
    (dot3 R01 R11 R21 (rate_n_w0 lat) (rate_n_w1 lat) (rate_n_w2 lat))
    (dot3 R02 R12 R22 (rate_n_w0 lat) (rate_n_w1 lat) (rate_n_w2 lat)).
Proof.
  destruct (rest_body_derive t) as [D00 [D01 [D02 [D10 [D11 [D12 [D20 [D21 D22]]]]]]]].
  unfold body_rate_of. split.
  - split_all; eexists; eassumption.
  - rewrite (is_derive_unique _ _ _ D00), (is_derive_unique _ _ _ D01), (is_derive_unique _ _ _ D02),
      (is_derive_unique _ _ _ D10), (is_derive_unique _ _ _ D11), (is_derive_unique _ _ _ D12),
      (is_derive_unique _ _ _ D20), (is_derive_unique _ _ _ D21), (is_derive_unique _ _ _ D22).
    subst B00 B01 B02 B10 B11 B12 B20 B21 B22 R00 R01 R02 R10 R11 R12 R20 R21 R22. cbv beta.
    subst M00 M01 M02 M10 M11 M12 M20 M21 M22. cbv beta.
    unfold dot3. unf_rate. unf_en. unf_rph. rewrite !cos_m90, !sin_m90. unfold RATE_.
    set (phi := lat * (PI / 180)). set (l := lam t * (PI / 180)).
    set (ro := roll * (PI / 180)). set (pi := pitch * (PI / 180)). set (he := heading * (PI / 180)).
    assert (Hp : sin phi * sin phi = 1 - cos phi * cos phi) by (pose proof (sc1 phi); lra).
    assert (Hl : sin l * sin l = 1 - cos l * cos l) by (pose proof (sc1 l); lra).
    assert (Hr : sin ro * sin ro = 1 - cos ro * cos ro) by (pose proof (sc1 ro); lra).
    assert (Hq : sin pi * sin pi = 1 - cos pi * cos pi) by (pose proof (sc1 pi); lra).
    assert (Hh : sin he * sin he = 1 - cos he * cos he) by (pose proof (sc1 he); lra).
    split_all; ring [Hp Hl Hr Hq Hh].
Qed.

(** accelerometer of the resting body, in body axes: - C_nb^T (0, 0, g) *)
Lemma rest_body_specific_force t :
  -90 <= lat <= 90 ->
  let fx := Derive_n x 2 t - gravitation_ecef_g0 lat (lam t) alt in
  let fy := Derive_n y 2 t - gravitation_ecef_g1 lat (lam t) alt in
  let fz := Derive_n z 2 t - gravitation_ecef_g2 lat (lam t) alt in
  B00 t * fx + B10 t * fy + B20 t * fz = - (R20 * gravity_g lat alt) /\
  B01 t * fx + B11 t * fy + B21 t * fz = - (R21 * gravity_g lat alt) /\
  B02 t * fx + B12 t * fy + B22 t * fz = - (R22 * gravity_g lat alt).
Proof.
  intros Hlat. destruct (rest_specific_force t Hlat) as [E0 [E1 E2]]. cbv zeta in *.
  revert E0 E1 E2.
  generalize (Derive_n x 2 t - gravitation_ecef_g0 lat (lam t) alt)
             (Derive_n y 2 t - gravitation_ecef_g1 lat (lam t) alt)
             (Derive_n z 2 t - gravitation_ecef_g2 lat (lam t) alt) (gravity_g lat alt).
  intros fx fy fz g E0 E1 E2.
  subst B00 B01 B02 B10 B11 B12 B20 B21 B22. cbv beta. unfold dot3.
  generalize R00 R01 R02 R10 R11 R12 R20 R21 R22. intros r00 r01 r02 r10 r11 r12 r20 r21 r22.
  split_all.
  - transitivity (r00 * (M00 t * fx + M10 t * fy + M20 t * fz)
                + r10 * (M01 t * fx + M11 t * fy + M21 t * fz)
                + r20 * (M02 t * fx + M12 t * fy + M22 t * fz)); [ring|].
    rewrite E0, E1, E2. ring.
  - transitivity (r01 * (M00 t * fx + M10 t * fy + M20 t * fz)
                + r11 * (M01 t * fx + M11 t * fy + M21 t * fz)
                + r21 * (M02 t * fx + M12 t * fy + M22 t * fz)); [ring|].
    rewrite E0, E1, E2. ring.
  - transitivity (r02 * (M00 t * fx + M10 t * fy + M20 t * fz)
                + r12 * (M01 t * fx + M11 t * fy + M21 t * fz)
                + r22 * (M02 t * fx + M12 t * fy + M22 t * fz)); [ring|].
    rewrite E0, E1, E2. ring.
Qed.
End AtRest.
